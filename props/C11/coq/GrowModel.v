(* C11 -- executable model of momo::HashSet growth under failures (HashSet.h), self-contained (Stdlib only).

   The model mirrors what the code DOES:
     bucket = items in Bucket::GetBounds order (AddCrt appends at the end, Remove moves the LAST item into the
              hole), the sticky WasFull flag, the encoded max-probe state of the bucket as a HOME bucket
     table  = one HashSetBuckets generation: mLogCount + 2^mLogCount buckets
     hset   = the chain mBuckets -> mNextBuckets -> ... (NEWEST FIRST), mCount, mCapacity
   Failures are inputs of the operations (the environment's choices); the theorems quantify over all of them:
     hfail  : the hash functor throws inside pvFind (before any effect)
     afail  : creating the new item / Bucket::AddCrt throws (after the probe loop, before any effect)
     refuse : the memory manager refuses the new bucket array in Buckets::Create (pvAddGrow / Reserve)
     sch    : list bool, one entry popped per item migration in pvRelocateItems; true = this migration throws
              (recomputed hash throws, or Bucket::AddCrt cannot allocate); [] = no more failures
   Section parameters = everything that differs between bucket kinds / hash functions / key categories. *)
From Coq Require Import ZArith List Lia Bool Permutation.
From C11 Require ProbeSeq.
Import ListNotations.
Local Open Scope Z_scope.

Fixpoint upd_nth {A} (n : nat) (x : A) (l : list A) : list A :=
  match l, n with
  | [], _ => []
  | _ :: r, O => x :: r
  | a :: r, S n' => a :: upd_nth n' x r
  end.

(* Bucket::Find: position (Bounds order) of the first item equal to k *)
Fixpoint bfind (k : Z) (l : list Z) : option nat :=
  match l with
  | [] => None
  | k' :: r => if Z.eqb k k' then Some O else match bfind k r with Some p => Some (S p) | None => None end
  end.

(* Bucket::Remove(iter): itemReplacer(items[count-1], *iter); --count *)
Definition bremove (pos : nat) (l : list Z) : list Z :=
  match rev l with
  | [] => []
  | z :: _ => let l' := removelast l in
              if Nat.eqb pos (length l') then l' else upd_nth pos z l'
  end.

Inductive out : Type :=
| RInserted | RAlready | RFull | RBadAlloc | RExn | RCheck
| RFound (b : bool) | RRemoved (b : bool) | RList (l : list Z) | RNum (z : Z) | RUnit.

Inductive op : Type :=
| OInsert (k : Z) (hfail afail refuse : bool) (sch : list bool)
| OFind (k : Z)
| ORemove (k : Z)
| OReserve (n : Z) (refuse : bool) (sch : list bool)
| OTraverse
| OCount
| OClear (shrink : bool)
| ORemoveIf (m r : Z).                         (* Remove(filter) with filter(k) = (k mod m == r) *)

Inductive mstat : Type := MOk | MStop | MTerm.   (* migration: completed | stopped by a swallowed failure | std::terminate *)

Section GrowModel.
  Variable B : Type.                 (* encoded max-probe state *)
  Variable b0 : B.                   (* after construction *)
  Variable decode : Z -> B -> Z.     (* Bucket::GetMaxProbe(logBucketCount) *)
  Variable upd_bound : B -> Z -> B.  (* Bucket::UpdateMaxProbe(probe) *)
  Variable h : Z -> Z.               (* the hash function: arbitrary *)
  Variable cap : Z.                  (* Bucket::maxCount *)
  Variable wf0 : bool.               (* Bucket::WasFull() of a fresh bucket *)
  Variable wfull : Z -> bool.        (* WasFull() of a bucket whose count has reached n: maxCount <= n for LimP4/Open/One;
                                        for LimP it is derived from the memory-pool index (pool(n) = pool(maxCount)) *)
  Variable start : Z -> Z -> Z.      (* GetStartBucketIndex hashCode bucketCount *)
  Variable next : Z -> Z -> Z -> Z.  (* GetNextBucketIndex bucketIndex bucketCount probe *)
  Variable logStart : Z.             (* HashTraits::GetLogStartBucketCount *)
  Variable calcCapacity : Z -> Z.    (* HashTraits::CalcCapacity(bucketCount, maxCount) *)
  Variable shift : Z -> Z.           (* HashTraits::GetBucketCountShift(bucketCount, maxCount) *)
  Variable nothrowReloc : bool.      (* HashSet::areItemsNothrowRelocatable *)

  Record bucket : Type := mkB { items : list Z; wasFull : bool; bound : B }.
  Definition emptyB : bucket := mkB [] wf0 b0.
  Definition blen (b : bucket) : Z := Z.of_nat (length (items b)).
  Definition isFull (b : bucket) : bool := cap <=? blen b.

  Record table : Type := mkT { tlog : Z; tbs : list bucket }.
  Definition bcount (t : table) : Z := 2 ^ tlog t.
  Definition getb (t : table) (i : Z) : bucket := nth (Z.to_nat i) (tbs t) emptyB.
  Definition setb (t : table) (i : Z) (b : bucket) : table := mkT (tlog t) (upd_nth (Z.to_nat i) b (tbs t)).
  Definition newTable (log : Z) : table := mkT log (repeat emptyB (Z.to_nat (2 ^ log))).

  (* ---- HashSet::pvFind(indexCode, buckets, itemPred), HashSet.h:1062-1090 ----
     n counts the remaining iterations of `for (probe = 1; bucket->WasFull() && probe <= maxProbe; ++probe)`;
     note that WasFull is asked of the bucket visited LAST, not of the home bucket. *)
  Fixpoint probe_loop (n : nat) (t : table) (k : Z) (probe : nat) (idx : Z) (b : bucket) : option (Z * nat) :=
    match n with
    | O => None
    | S n' =>
      if wasFull b then
        let idx' := next idx (bcount t) (Z.of_nat probe) in
        let b' := getb t idx' in
        match bfind k (items b') with
        | Some pos => Some (idx', pos)
        | None => probe_loop n' t k (S probe) idx' b'
        end
      else None
    end.

  Definition tfind (t : table) (k : Z) : option (Z * nat) :=
    let i0 := start (h k) (bcount t) in
    let b := getb t i0 in
    match bfind k (items b) with
    | Some pos => Some (i0, pos)
    | None => probe_loop (Z.to_nat (decode (tlog t) (bound b))) t k 1 i0 b
    end.

  (* ---- HashSet::pvAddNogrow, HashSet.h:1119-1144 ----
     n = bucketCount - 1 - probe: `++probe; if (probe >= bucketCount) throw "Hash table is full"` *)
  Fixpoint add_loop (n : nat) (t : table) (probe : nat) (idx : Z) : option (Z * nat) :=
    if isFull (getb t idx) then
      match n with
      | O => None
      | S n' => add_loop n' t (S probe) (next idx (bcount t) (Z.of_nat (S probe)))
      end
    else Some (idx, probe).

  Definition tadd (t : table) (k : Z) : option table :=
    let i0 := start (h k) (bcount t) in
    match add_loop (Z.to_nat (bcount t - 1)) t 0 i0 with
    | None => None
    | Some (idx, probe) =>
      let b := getb t idx in
      let its := items b ++ [k] in
      let t1 := setb t idx (mkB its (wasFull b || wfull (Z.of_nat (length its))) (bound b)) in
      let hb := getb t1 i0 in
      Some (setb t1 i0 (mkB (items hb) (wasFull hb) (upd_bound (bound hb) (Z.of_nat probe))))
    end.

  Definition tremove (t : table) (idx : Z) (pos : nat) : table :=
    let b := getb t idx in setb t idx (mkB (bremove pos (items b)) (wasFull b) (bound b)).

  (* ---- the container ---- *)
  Record hset : Type := mkH { gens : list table; count : Z; capacity : Z }.
  Definition hinit : hset := mkH [] 0 0.

  (* HashSet::pvFind(key), 1038-1060: generations newest first; with areItemsNothrowRelocatable only the newest *)
  Fixpoint gfind (gs : list table) (k : Z) (gi : nat) : option (nat * Z * nat) :=
    match gs with
    | [] => None
    | t :: r => match tfind t k with
                | Some (idx, pos) => Some (gi, idx, pos)
                | None => if nothrowReloc then None else gfind r k (S gi)
                end
    end.
  Definition hfind (s : hset) (k : Z) : option (nat * Z * nat) :=
    if count s =? 0 then None else gfind (gens s) k 0.

  (* one traversal GetBegin() .. GetEnd() (pvInc / pvMove, 349-383): newest generation first, buckets 0..,
     inside a bucket from the last item to the first *)
  Definition ttraverse (t : table) : list Z := flat_map (fun b => rev (items b)) (tbs t).
  Definition traverse (s : hset) : list Z := if count s =? 0 then [] else flat_map ttraverse (gens s).

  (* ---- HashSetConstIterator as the state machine of HashSet.h:334-383 ----
     IAt gs bi p: mBuckets = head of gs (gs = the rest of the chain from there), bucket index bi, and
     mBucketIterator = GetBounds().GetBegin() + p   (p = count would be GetEnd()). *)
  Inductive iter : Type := IEnd | IAt (gs : list table) (bi : nat) (p : nat).

  Definition bcnt (t : table) (bi : nat) : nat := length (items (nth bi (tbs t) emptyB)).

  (* the `while (true)` loop of pvMove: ++bucketIndex; if (bucketIndex >= bucketCount) break;
     if (bounds.GetCount() > 0) { ptReset(bucketIndex, prev(bounds.GetEnd())); return; } *)
  Fixpoint move_loop (n : nat) (t : table) (bi : nat) : option (nat * nat) :=
    match n with
    | O => None
    | S n' => if (Z.to_nat (bcount t) <=? S bi)%nat then None
              else match bcnt t (S bi) with
                   | S p => Some (S bi, p)
                   | O => move_loop n' t (S bi)
                   end
    end.

  (* pvMove 359-383; after the loop: nextBuckets != nullptr -> mBuckets = nextBuckets; ptReset(0, bounds(0).GetEnd());
     return pvInc()  [= prev(end) if bucket 0 of the next generation has items, else pvMove again] *)
  Fixpoint pv_move (gs : list table) (bi : nat) : iter :=
    match gs with
    | [] => IEnd
    | t :: rest =>
      match move_loop (Z.to_nat (bcount t)) t bi with
      | Some (bi', p) => IAt gs bi' p
      | None =>
        match rest with
        | [] => IEnd
        | t2 :: _ => match bcnt t2 0 with
                     | S p => IAt rest 0 p
                     | O => pv_move rest 0
                     end
        end
      end
    end.

  (* pvInc 349-357: if (bucketIter != bounds.GetBegin()) --bucketIter; else pvMove(); *)
  Definition pv_inc (gs : list table) (bi p : nat) : iter :=
    match p with S p' => IAt gs bi p' | O => pv_move gs bi end.

  (* GetBegin 642-649: empty container -> end; else iterator(bucket 0, GetEnd()) followed by pvInc() *)
  Definition it_begin (s : hset) : iter :=
    if count s =? 0 then IEnd
    else match gens s with
         | [] => IEnd
         | t :: _ => match bcnt t 0 with S p => IAt (gens s) 0 p | O => pv_move (gens s) 0 end
         end.

  Definition it_deref (it : iter) : Z :=
    match it with
    | IAt (t :: _) bi p => nth p (items (nth bi (tbs t) emptyB)) 0
    | _ => 0
    end.

  Definition it_next (it : iter) : iter :=       (* operator++ *)
    match it with IEnd => IEnd | IAt gs bi p => pv_inc gs bi p end.

  (* for (it = GetBegin(); it != GetEnd(); ++it): the items seen within `fuel` steps and where the iterator stands then *)
  Fixpoint walk (fuel : nat) (it : iter) : list Z * iter :=
    match it with
    | IEnd => ([], IEnd)
    | IAt _ _ _ => match fuel with
                   | O => ([], it)
                   | S f => let (l, e) := walk f (it_next it) in (it_deref it :: l, e)
                   end
    end.

  Definition traverse_it (s : hset) : list Z := fst (walk (Z.to_nat (count s)) (it_begin s)).

  (* ---- Clear(shrink), 684-702 ---- *)
  Definition clearT (t : table) : table := mkT (tlog t) (map (fun _ => emptyB) (tbs t)).
  Definition hclear (s : hset) (shrink : bool) : hset :=
    match gens s with
    | [] => s
    | t :: _ => if shrink then mkH [] 0 0 else mkH [clearT t] 0 (capacity s)
    end.

  (* ---- pvRelocateItems, 1251-1302: oldest generation first, buckets 0.., items last to first; each item is
          pvAddNogrow'ed to the newest table and then removed from its bucket; the first failure stops
          everything (swallowed by the catch in pvRelocateItems()). ---- *)
  Definition pop (sch : list bool) : bool * list bool :=
    match sch with [] => (false, []) | f :: r => (f, r) end.

  Fixpoint reloc_items (its : list Z) (nw : table) (sch : list bool) : list Z * table * list bool * mstat :=
    match its with
    | [] => ([], nw, sch, MOk)
    | k :: rest =>
      let (f, sch') := pop sch in
      if f && negb nothrowReloc then (its, nw, sch', MStop)
      else match tadd nw k with
           | None => (its, nw, sch', if nothrowReloc then MTerm else MStop)
           | Some nw' => reloc_items rest nw' sch'
           end
    end.

  Fixpoint reloc_buckets (bs : list bucket) (nw : table) (sch : list bool) : list bucket * table * list bool * mstat :=
    match bs with
    | [] => ([], nw, sch, MOk)
    | b :: rest =>
      match reloc_items (rev (items b)) nw sch with
      | (rem, nw1, sch1, st) =>
        let b' := mkB (rev rem) (wasFull b) (bound b) in
        match st with
        | MOk => match reloc_buckets rest nw1 sch1 with
                 | (rest', nw2, sch2, st2) => (b' :: rest', nw2, sch2, st2)
                 end
        | _ => (b' :: rest, nw1, sch1, st)
        end
      end
    end.

  Fixpoint reloc_gens (olds : list table) (nw : table) (sch : list bool) : list table * table * list bool * mstat :=
    match olds with
    | [] => ([], nw, sch, MOk)
    | g :: older =>
      match reloc_gens older nw sch with
      | (older', nw1, sch1, st1) =>
        match st1 with
        | MOk => match reloc_buckets (tbs g) nw1 sch1 with
                 | (bs', nw2, sch2, st2) =>
                   match st2 with
                   | MOk => ([], nw2, sch2, MOk)                 (* buckets->Destroy *)
                   | _ => ([mkT (tlog g) bs'], nw2, sch2, st2)
                   end
                 end
        | _ => (g :: older', nw1, sch1, st1)
        end
      end
    end.

  (* `if (mBuckets->GetNextBuckets() != nullptr) pvRelocateItems()`; None = std::terminate *)
  Definition relocate (gs : list table) (sch : list bool) : option (list table) :=
    match gs with
    | nw :: ((_ :: _) as olds) =>
      match reloc_gens olds nw sch with
      | (olds', nw', _, st) => match st with MTerm => None | _ => Some (nw' :: olds') end
      end
    | _ => Some gs
    end.

  (* pvGetNewLogBucketCount *)
  Definition newLog (gs : list table) : Z :=
    match gs with [] => logStart | t :: _ => tlog t + shift (bcount t) end.

  (* pvAddNogrow<true> on the newest table + the migration that pvAdd starts afterwards *)
  Definition add_head (s : hset) (t : table) (r : list table) (k : Z) (afail : bool) (ncap : Z) (sch : list bool)
    : option (hset * out) :=
    match tadd t k with
    | None => Some (s, RFull)
    | Some t' =>
      if afail then Some (s, RBadAlloc)
      else match relocate (t' :: r) sch with
           | None => None
           | Some gs => Some (mkH gs (count s + 1) ncap, RInserted)
           end
    end.

  (* pvAddGrow 1151-1159: `while (true) { newCapacity = CalcCapacity(1 << newLog); if (newCapacity > mCount) break; ++newLog; }`
     (the table may be overloaded by earlier fallback insertions).  Fuel mCount + 2 always suffices when capacities
     grow with the table size (grow_log_total); None = the loop would run away. *)
  Fixpoint grow_log (fuel : nat) (nl c : Z) : option Z :=
    if c <? calcCapacity (2 ^ nl) then Some nl
    else match fuel with O => None | S f => grow_log f (nl + 1) c end.

  (* pvAdd (after pvFind said "absent"), 1102-1117, with pvAddGrow 1146-1191 *)
  Definition hadd (s : hset) (k : Z) (afail refuse : bool) (sch : list bool) : option (hset * out) :=
    if count s <? capacity s then
      match gens s with
      | [] => Some (s, RCheck)                       (* unreachable: capacity = 0 without buckets *)
      | t :: r => add_head s t r k afail (capacity s) sch
      end
    else
      match grow_log (Z.to_nat (count s) + 2) (newLog (gens s)) (count s) with
      | None => Some (s, RCheck)                     (* unreachable for capacities that grow with the table *)
      | Some nl =>
        if refuse then
          match gens s with
          | [] => Some (s, RBadAlloc)                (* no table to fall back to *)
          | t :: r => add_head s t r k afail (capacity s) sch      (* overloadIfCannotGrow *)
          end
        else add_head s (newTable nl) (gens s) k afail (calcCapacity (2 ^ nl)) sch
      end.

  (* Reserve, 709-732: ++newLogBucketCount until the capacity suffices *)
  Fixpoint reserve_log (fuel : nat) (nl n : Z) : option Z :=
    if n <=? calcCapacity (2 ^ nl) then Some nl
    else match fuel with O => None | S f => reserve_log f (nl + 1) n end.

  Definition hreserve (s : hset) (n : Z) (refuse : bool) (sch : list bool) : option (hset * out) :=
    if n <=? capacity s then Some (s, RUnit)
    else match reserve_log 64 (newLog (gens s)) n with
         | None => Some (s, RCheck)
         | Some nl =>
           if refuse then Some (s, RBadAlloc)
           else match relocate (newTable nl :: gens s) sch with
                | None => None
                | Some gs => Some (mkH gs (count s) (calcCapacity (2 ^ nl)), RUnit)
                end
         end.

  (* ---- pvFindBuckets(bucketIndex, bucketIter), 1220-1237 ----
     An item address is (generation, bucket index, offset): the item storage of different buckets and of different
     generations is disjoint (memory-model assumption), so `!less(iter, begin) && less(iter, end)` for bucket bi of
     generation #gi holds iff the iterator was obtained from that very bucket (owner = gi) and is below its end. *)
  Definition ptr_in (owner pos gi : nat) (t : table) (bi : Z) : bool :=
    Nat.eqb owner gi && (pos <? length (items (getb t bi)))%nat.

  Fixpoint find_buckets_loop (gs : list table) (bi : Z) (owner pos gi : nat) : option nat :=
    match gs with
    | [] => None                                                  (* MOMO_ASSERT(false) *)
    | t :: r => if bcount t <=? bi then find_buckets_loop r bi owner pos (S gi)        (* continue *)
                else if ptr_in owner pos gi t bi then Some gi
                else find_buckets_loop r bi owner pos (S gi)
    end.

  Definition find_buckets (gs : list table) (bi : Z) (owner pos : nat) : option nat :=
    match gs with
    | [_] => Some O                                               (* mBuckets->GetNextBuckets() == nullptr *)
    | _ => find_buckets_loop gs bi owner pos 0
    end.

  Definition upd_gen (gs : list table) (gi : nat) (f : table -> table) : list table :=
    match nth_error gs gi with Some t => upd_nth gi (f t) gs | None => gs end.

  (* ---- Remove(filter), 879-893: iter = GetBegin(); while (iter) { if (filter(item)) iter = Remove(iter); else ++iter; }
     Remove(iter) = pvRemove 1187-1205: the generation is found by pvFindBuckets, Bucket::Remove moves the last item into
     the hole, --mCount, and the returned iterator is constructed AT the hole (same bucket, same offset, chain from that
     generation on) and pvInc'ed.  chain = all generations; the iterator's own chain gs is a suffix of it. *)
  Fixpoint remif (fuel : nat) (f : Z -> bool) (chain : list table) (it : iter) (cnt : Z) : option (list table * Z) :=
    match it with
    | IEnd => Some (chain, cnt)
    | IAt gs bi p =>
      match fuel with
      | O => None
      | S fu =>
        if f (it_deref it) then
          let g := (length chain - length gs)%nat in
          match find_buckets chain (Z.of_nat bi) g p with
          | None => None                                          (* MOMO_ASSERT(false) *)
          | Some g' =>
            let chain' := upd_gen chain g' (fun t => tremove t (Z.of_nat bi) p) in
            remif fu f chain' (pv_inc (skipn g' chain') bi p) (cnt - 1)
          end
        else remif fu f chain (pv_inc gs bi p) cnt
      end
    end.

  Definition hremove_if (s : hset) (f : Z -> bool) : option (hset * out) :=
    match remif (Z.to_nat (count s)) f (gens s) (it_begin s) (count s) with
    | None => None
    | Some (gs, c) => Some (mkH gs c (capacity s), RNum (count s - c))
    end.

  (* one public operation; None = the process called std::terminate *)
  Definition step (s : hset) (o : op) : option (hset * out) :=
    match o with
    | OInsert k hfail afail refuse sch =>
      if hfail then Some (s, RExn) else
      match hfind s k with
      | Some _ => Some (s, RAlready)
      | None => hadd s k afail refuse sch
      end
    | OFind k => Some (s, RFound (match hfind s k with Some _ => true | None => false end))
    | ORemove k =>
      match hfind s k with
      | Some (gi, idx, pos) =>                                    (* pvRemove: the generation is looked up again *)
        match find_buckets (gens s) idx gi pos with
        | Some g => Some (mkH (upd_gen (gens s) g (fun t => tremove t idx pos)) (count s - 1) (capacity s), RRemoved true)
        | None => None                                            (* MOMO_ASSERT(false) in pvFindBuckets *)
        end
      | None => Some (s, RRemoved false)
      end
    | OReserve n refuse sch => hreserve s n refuse sch
    | OTraverse => Some (s, RList (traverse_it s))
    | OCount => Some (s, RNum (count s))
    | OClear shrink => Some (hclear s shrink, RUnit)
    | ORemoveIf m r => hremove_if s (fun k => k mod m =? r)
    end.

  Fixpoint run (s : hset) (os : list op) : option (hset * list out) :=
    match os with
    | [] => Some (s, [])
    | o :: r => match step s o with
                | None => None
                | Some (s1, x) => match run s1 r with None => None | Some (s2, xs) => Some (s2, x :: xs) end
                end
    end.

  (* observations used by the correspondence stage *)
  Definition shape (s : hset) : list (Z * list (list Z * bool)) :=
    map (fun t => (tlog t, map (fun b => (items b, wasFull b)) (tbs t))) (gens s).


  (* ================================================================================================== *)
  (*  PROOFS                                                                                             *)
  (* ================================================================================================== *)
  Hypothesis cap_pos : 0 < cap.
  Hypothesis wfull_cap : forall n, cap <= n -> wfull n = true.
  Hypothesis start_range : forall hc bc, 0 < bc -> 0 <= start hc bc < bc.
  Hypothesis next_range : forall i bc p, 0 < bc -> 0 <= next i bc p < bc.
  Hypothesis decode_upd : forall L b p, 0 <= p -> p <= decode L (upd_bound b p) /\ decode L b <= decode L (upd_bound b p).
  Hypothesis shift_nonneg : forall bc, 0 <= shift bc.
  Hypothesis logStart_nonneg : 0 <= logStart.

  (* ---- lists ---- *)
  Lemma upd_nth_length : forall A n (x : A) l, length (upd_nth n x l) = length l.
  Proof. induction n; destruct l; simpl; auto. Qed.

  Lemma nth_upd_nth_eq : forall A n (x d : A) l, (n < length l)%nat -> nth n (upd_nth n x l) d = x.
  Proof. induction n; destruct l; simpl; intros; try lia; auto. apply IHn; lia. Qed.

  Lemma nth_upd_nth_neq : forall A n m (x d : A) l, n <> m -> nth m (upd_nth n x l) d = nth m l d.
  Proof. induction n; destruct l; destruct m; simpl; intros; try congruence; auto. Qed.

  Lemma upd_nth_split : forall A n (x : A) l b, nth_error l n = Some b ->
    exists l1 l2, l = l1 ++ b :: l2 /\ upd_nth n x l = l1 ++ x :: l2 /\ length l1 = n.
  Proof.
    induction n; destruct l; simpl; intros; try discriminate.
    - inversion H; subst. exists [], l; auto.
    - destruct (IHn x l b H) as (l1 & l2 & E1 & E2 & E3). exists (a :: l1), l2. subst. simpl. rewrite E2. auto.
  Qed.

  Lemma nth_error_nth' : forall A (l : list A) n d b, nth_error l n = Some b -> nth n l d = b.
  Proof. induction l; destruct n; simpl; intros; try discriminate; auto. congruence. Qed.

  Lemma nth_error_some_lt : forall A (l : list A) n b, nth_error l n = Some b -> (n < length l)%nat.
  Proof. intros. apply nth_error_Some. congruence. Qed.

  Lemma nth_error_of_lt : forall A (l : list A) n d, (n < length l)%nat -> nth_error l n = Some (nth n l d).
  Proof. induction l; destruct n; simpl; intros; try lia; auto. apply IHl; lia. Qed.

  Lemma bfind_some : forall k l p, bfind k l = Some p -> nth_error l p = Some k.
  Proof.
    induction l as [|a l IH]; simpl; intros p H; [discriminate|].
    destruct (Z.eqb_spec k a).
    - inversion H; subst; reflexivity.
    - destruct (bfind k l) eqn:E; [|discriminate]. inversion H; subst. simpl. apply IH; reflexivity.
  Qed.

  Lemma bfind_in : forall k l, In k l -> exists p, bfind k l = Some p.
  Proof.
    induction l as [|a l IH]; simpl; intros H; [tauto|].
    destruct (Z.eqb_spec k a); [eauto|].
    destruct H as [H|H]; [congruence|]. destruct (IH H) as [p E]. rewrite E. eauto.
  Qed.

  Ltac count_goal :=
    apply (Permutation_count_occ Z.eq_dec); intro.
  Ltac count_hyp H x :=
    let H' := fresh H in pose proof (proj1 (Permutation_count_occ Z.eq_dec _ _) H x) as H'.

  Lemma bremove_spec : forall l pos k, nth_error l pos = Some k ->
    Permutation l (k :: bremove pos l) /\ (forall x, In x (bremove pos l) -> In x l) /\
    S (length (bremove pos l)) = length l.
  Proof.
    intros l pos k H. unfold bremove.
    destruct (rev l) as [|z r] eqn:E.
    { apply (f_equal (@rev Z)) in E. rewrite rev_involutive in E. subst. destruct pos; discriminate. }
    assert (L : l = rev r ++ [z]).
    { apply (f_equal (@rev Z)) in E. rewrite rev_involutive in E. simpl in E. auto. }
    rewrite L. rewrite removelast_last. set (l' := rev r) in *.
    destruct (Nat.eqb_spec pos (length l')).
    - subst pos. rewrite L in H. rewrite nth_error_app2 in H by lia. rewrite Nat.sub_diag in H. simpl in H. inversion H; subst.
      split; [|split].
      + apply Permutation_sym, Permutation_cons_append.
      + intros. apply in_or_app; auto.
      + rewrite app_length; simpl; lia.
    - assert (pos < length l')%nat.
      { apply nth_error_some_lt in H. rewrite L, app_length in H. simpl in H. lia. }
      rewrite L in H. rewrite nth_error_app1 in H by lia.
      destruct (upd_nth_split _ pos z l' k H) as (l1 & l2 & E1 & E2 & E3).
      rewrite E2. rewrite E1. split; [|split].
      + apply (Permutation_count_occ Z.eq_dec); intro x.
        change (k :: l1 ++ z :: l2) with ([k] ++ l1 ++ [z] ++ l2).
        change ((l1 ++ k :: l2) ++ [z]) with ((l1 ++ [k] ++ l2) ++ [z]).
        repeat rewrite count_occ_app. lia.
      + intros x Hx. apply in_app_or in Hx. apply in_or_app. destruct Hx as [Hx|Hx].
        * left. apply in_or_app. auto.
        * simpl in Hx. destruct Hx; [right; simpl; auto| left; apply in_or_app; right; simpl; auto].
      + repeat rewrite app_length. simpl. lia.
  Qed.

  Lemma flat_map_upd_nth_same : forall (l : list bucket) n b b', nth_error l n = Some b -> items b' = items b ->
    flat_map items (upd_nth n b' l) = flat_map items l.
  Proof.
    intros. destruct (upd_nth_split _ n b' l b H) as (l1 & l2 & E1 & E2 & _).
    rewrite E2, E1. repeat rewrite flat_map_app. simpl. congruence.
  Qed.

  Lemma flat_map_upd_nth_perm : forall (l : list bucket) n b b' x, nth_error l n = Some b ->
    Permutation (items b') (x ++ items b) -> Permutation (flat_map items (upd_nth n b' l)) (x ++ flat_map items l).
  Proof.
    intros. destruct (upd_nth_split _ n b' l b H) as (l1 & l2 & E1 & E2 & _).
    rewrite E2, E1. repeat rewrite flat_map_app. simpl.
    apply (Permutation_count_occ Z.eq_dec); intro y. count_hyp H0 y.
    repeat rewrite count_occ_app in *. lia.
  Qed.

  (* ---- one table ---- *)
  Definition tkeys (t : table) : list Z := flat_map items (tbs t).
  Definition allkeys (gs : list table) : list Z := flat_map tkeys gs.

  Fixpoint path (bc hc : Z) (d : nat) : Z :=
    match d with O => start hc bc | S d' => next (path bc hc d') bc (Z.of_nat d) end.

  (* key k stored in bucket i of t is reachable by pvFind: it lies on the probe path of its home bucket, within
     the recorded bound of the home bucket, and every bucket before it on the path has WasFull *)
  Definition placed (t : table) (k : Z) (i : nat) : Prop :=
    exists d : nat, Z.to_nat (path (bcount t) (h k) d) = i /\
      Z.of_nat d <= decode (tlog t) (bound (getb t (path (bcount t) (h k) 0))) /\
      forall j, (j < d)%nat -> wasFull (getb t (path (bcount t) (h k) j)) = true.

  Definition tinv (t : table) : Prop :=
    0 <= tlog t /\ length (tbs t) = Z.to_nat (bcount t) /\
    forall i b, nth_error (tbs t) i = Some b ->
      (isFull b = true -> wasFull b = true) /\ forall k, In k (items b) -> placed t k i.

  Lemma bcount_pos : forall t, 0 <= tlog t -> 0 < bcount t.
  Proof. intros. unfold bcount. apply Z.pow_pos_nonneg; lia. Qed.

  Lemma path_range : forall bc hc d, 0 < bc -> 0 <= path bc hc d < bc.
  Proof. destruct d; simpl; intros; auto. Qed.

  Lemma path_in_range : forall t hc d, tinv t -> (Z.to_nat (path (bcount t) hc d) < length (tbs t))%nat.
  Proof.
    intros t hc d (H0 & HL & _). rewrite HL. pose proof (path_range (bcount t) hc d (bcount_pos t H0)). lia.
  Qed.

  Lemma getb_nth_error : forall t z, (Z.to_nat z < length (tbs t))%nat -> nth_error (tbs t) (Z.to_nat z) = Some (getb t z).
  Proof. intros. unfold getb. apply nth_error_of_lt; auto. Qed.

  Lemma probe_loop_sound : forall n t k p idx b i pos,
    probe_loop n t k p idx b = Some (i, pos) -> bfind k (items (getb t i)) = Some pos.
  Proof.
    induction n; simpl; intros; [discriminate|].
    destruct (wasFull b); [|discriminate].
    destruct (bfind k (items (getb t (next idx (bcount t) (Z.of_nat p))))) eqn:E.
    - inversion H; subst; auto.
    - eapply IHn; eauto.
  Qed.

  Lemma tfind_sound : forall t k i pos, tfind t k = Some (i, pos) -> bfind k (items (getb t i)) = Some pos.
  Proof.
    unfold tfind; intros. destruct (bfind k (items (getb t (start (h k) (bcount t))))) eqn:E.
    - inversion H; subst; auto.
    - eapply probe_loop_sound; eauto.
  Qed.

  Lemma probe_loop_S : forall n t k p idx b, probe_loop (S n) t k p idx b =
    if wasFull b then
      match bfind k (items (getb t (next idx (bcount t) (Z.of_nat p)))) with
      | Some pos => Some (next idx (bcount t) (Z.of_nat p), pos)
      | None => probe_loop n t k (S p) (next idx (bcount t) (Z.of_nat p)) (getb t (next idx (bcount t) (Z.of_nat p)))
      end
    else None.
  Proof. reflexivity. Qed.

  Lemma path_S : forall bc hc d, path bc hc (S d) = next (path bc hc d) bc (Z.of_nat (S d)).
  Proof. reflexivity. Qed.

  Lemma probe_loop_complete : forall t k d m j n,
    (j + S m = d)%nat -> (S m <= n)%nat ->
    (forall j', (j <= j' < d)%nat -> wasFull (getb t (path (bcount t) (h k) j')) = true) ->
    In k (items (getb t (path (bcount t) (h k) d))) ->
    exists i pos, probe_loop n t k (S j) (path (bcount t) (h k) j) (getb t (path (bcount t) (h k) j)) = Some (i, pos).
  Proof.
    induction m; intros j n Hd Hn Hw Hin; (destruct n; [lia|]); rewrite probe_loop_S; rewrite (Hw j) by lia;
      rewrite <- path_S.
    - replace (S j) with d by lia. destruct (bfind_in _ _ Hin) as [p E]. rewrite E. eauto.
    - destruct (bfind k (items (getb t (path (bcount t) (h k) (S j))))) eqn:E; [eauto|].
      apply (IHm (S j) n); auto; try lia. intros; apply Hw; lia.
  Qed.

  Lemma tfind_complete : forall t k d,
    Z.of_nat d <= decode (tlog t) (bound (getb t (path (bcount t) (h k) 0))) ->
    (forall j, (j < d)%nat -> wasFull (getb t (path (bcount t) (h k) j)) = true) ->
    In k (items (getb t (path (bcount t) (h k) d))) ->
    exists i pos, tfind t k = Some (i, pos).
  Proof.
    intros t k d Hb Hw Hin. unfold tfind.
    change (start (h k) (bcount t)) with (path (bcount t) (h k) 0).
    destruct (bfind k (items (getb t (path (bcount t) (h k) 0)))) eqn:E; [eauto|].
    destruct d as [|m].
    - destruct (bfind_in _ _ Hin) as [p E']. congruence.
    - apply (probe_loop_complete t k (S m) m 0); auto; try lia. intros; apply Hw; lia.
  Qed.

  Lemma tinv_find : forall t k, tinv t -> In k (tkeys t) -> exists i pos, tfind t k = Some (i, pos).
  Proof.
    intros t k Ht Hin. unfold tkeys in Hin. apply in_flat_map in Hin. destruct Hin as (b & Hb & Hk).
    apply In_nth_error in Hb. destruct Hb as [i Hi].
    destruct Ht as (H0 & HL & HB). destruct (HB i b Hi) as (_ & HP). destruct (HP k Hk) as (d & E & Hd & Hw).
    apply (tfind_complete t k d); auto.
    unfold getb. rewrite E. rewrite (nth_error_nth' _ _ _ emptyB _ Hi). auto.
  Qed.

  Lemma getb_items_in_range : forall t z x, In x (items (getb t z)) -> (Z.to_nat z < length (tbs t))%nat.
  Proof.
    intros. destruct (Nat.lt_ge_cases (Z.to_nat z) (length (tbs t))); auto.
    unfold getb in H. rewrite nth_overflow in H by lia. simpl in H. tauto.
  Qed.

  Lemma tfind_in : forall t k i pos, tfind t k = Some (i, pos) ->
    nth_error (items (getb t i)) pos = Some k /\ (Z.to_nat i < length (tbs t))%nat /\ In k (tkeys t).
  Proof.
    intros. apply tfind_sound in H. apply bfind_some in H. split; auto.
    assert (In k (items (getb t i))) by (eapply nth_error_In; eauto).
    split. { eapply getb_items_in_range; eauto. }
    unfold tkeys. apply in_flat_map. exists (getb t i). split; auto.
    unfold getb. apply nth_In. eapply getb_items_in_range; eauto.
  Qed.

  (* ---- monotone changes of the metadata keep keys placed ---- *)
  Lemma placed_mono : forall t t' k i, tlog t' = tlog t ->
    (forall z, wasFull (getb t z) = true -> wasFull (getb t' z) = true) ->
    (forall z, decode (tlog t) (bound (getb t z)) <= decode (tlog t) (bound (getb t' z))) ->
    placed t k i -> placed t' k i.
  Proof.
    intros t t' k i HL HW HB (d & E & Hd & Hw). unfold placed, bcount in *. rewrite HL.
    exists d. split; auto. split.
    - eapply Z.le_trans; [apply Hd|]. apply HB.
    - intros; apply HW, Hw; auto.
  Qed.

  (* bucket b' holds a sub-multiset of b, same metadata (Bucket::Remove keeps WasFull and the max-probe state) *)
  Definition bsub (b' b : bucket) : Prop :=
    (forall x, In x (items b') -> In x (items b)) /\ (length (items b') <= length (items b))%nat /\
    wasFull b' = wasFull b /\ bound b' = bound b.

  Lemma bsub_refl : forall b, bsub b b.
  Proof. unfold bsub; intuition. Qed.

  Lemma Forall2_bsub_refl : forall l, Forall2 bsub l l.
  Proof. induction l; constructor; auto using bsub_refl. Qed.

  Lemma Forall2_nth_error1 : forall A (R : A -> A -> Prop) l1 l2, Forall2 R l1 l2 -> forall i a, nth_error l1 i = Some a ->
    exists b, nth_error l2 i = Some b /\ R a b.
  Proof.
    induction 1; intros i a0 Hi; destruct i; simpl in *; try discriminate.
    - inversion Hi; subst; eauto.
    - eauto.
  Qed.

  Lemma Forall2_bsub_meta : forall l1 l2, Forall2 bsub l1 l2 -> forall n,
    wasFull (nth n l1 emptyB) = wasFull (nth n l2 emptyB) /\ bound (nth n l1 emptyB) = bound (nth n l2 emptyB).
  Proof.
    induction 1; intros n; destruct n; simpl; auto. destruct H as (_ & _ & ? & ?); auto.
  Qed.

  Lemma Forall2_length' : forall A (R : A -> A -> Prop) l1 l2, Forall2 R l1 l2 -> length l1 = length l2.
  Proof. induction 1; simpl; auto. Qed.

  Lemma Forall2_bsub_upd : forall l n b b', nth_error l n = Some b -> bsub b' b -> Forall2 bsub (upd_nth n b' l) l.
  Proof.
    intros. destruct (upd_nth_split _ n b' l b H) as (l1 & l2 & E1 & E2 & _). rewrite E2. rewrite E1.
    apply Forall2_app; [apply Forall2_bsub_refl|]. constructor; auto using Forall2_bsub_refl.
  Qed.

  Lemma tinv_sub : forall t bs', tinv t -> Forall2 bsub bs' (tbs t) -> tinv (mkT (tlog t) bs').
  Proof.
    intros t bs' (H0 & HL & HB) HS. split; [|split]; simpl; auto.
    - unfold bcount in *; simpl. rewrite <- HL. eapply Forall2_length'; eauto.
    - intros i b' Hi. destruct (Forall2_nth_error1 _ _ _ _ HS i b' Hi) as (b & Hb & (S1 & S2 & S3 & S4)).
      destruct (HB i b Hb) as (HF & HP). split.
      + unfold isFull, blen in *. rewrite S3. intros. apply HF. apply Z.leb_le in H. apply Z.leb_le. lia.
      + intros k Hk. apply (placed_mono t); auto.
        * unfold getb; simpl. intros z. destruct (Forall2_bsub_meta _ _ HS (Z.to_nat z)) as [E _]. rewrite E; auto.
        * unfold getb; simpl. intros z. destruct (Forall2_bsub_meta _ _ HS (Z.to_nat z)) as [_ E]. rewrite E; lia.
  Qed.

  (* ---- Remove ---- *)
  Lemma tremove_spec : forall t idx pos k, tinv t -> nth_error (items (getb t idx)) pos = Some k ->
    tinv (tremove t idx pos) /\ Permutation (tkeys t) (k :: tkeys (tremove t idx pos)) /\ tlog (tremove t idx pos) = tlog t.
  Proof.
    intros t idx pos k Ht Hn.
    assert (HR : (Z.to_nat idx < length (tbs t))%nat) by (eapply getb_items_in_range, nth_error_In; eauto).
    destruct (bremove_spec _ _ _ Hn) as (P1 & P2 & P3).
    pose proof (getb_nth_error t idx HR) as HE.
    unfold tremove, setb. split; [|split]; auto.
    - apply tinv_sub; auto. eapply Forall2_bsub_upd; eauto. unfold bsub; simpl. intuition lia.
    - unfold tkeys; simpl.
      assert (Permutation (flat_map items (upd_nth (Z.to_nat idx) (mkB (bremove pos (items (getb t idx))) (wasFull (getb t idx)) (bound (getb t idx))) (tbs t)) ++ [k])
                          (flat_map items (tbs t))).
      { destruct (upd_nth_split _ (Z.to_nat idx) (mkB (bremove pos (items (getb t idx))) (wasFull (getb t idx)) (bound (getb t idx))) (tbs t) _ HE)
          as (l1 & l2 & E1 & E2 & _).
        rewrite E2. rewrite E1. repeat rewrite flat_map_app. simpl.
        apply (Permutation_count_occ Z.eq_dec); intro y. count_hyp P1 y.
        change (k :: bremove pos (items (getb t idx))) with ([k] ++ bremove pos (items (getb t idx))) in P0.
        repeat rewrite count_occ_app in *. lia. }
      apply Permutation_sym. eapply Permutation_trans; [|apply H]. apply Permutation_cons_append.
  Qed.

  (* ---- pvAddNogrow ---- *)
  Lemma add_loop_spec : forall t hc n p idx q,
    add_loop n t p (path (bcount t) hc p) = Some (idx, q) ->
    idx = path (bcount t) hc q /\ (p <= q)%nat /\ isFull (getb t idx) = false /\
    forall j, (p <= j < q)%nat -> isFull (getb t (path (bcount t) hc j)) = true.
  Proof.
    induction n; intros p idx q H; simpl in H.
    - destruct (isFull (getb t (path (bcount t) hc p))) eqn:E; [discriminate|]. inversion H; subst.
      repeat split; auto. intros; lia.
    - destruct (isFull (getb t (path (bcount t) hc p))) eqn:E.
      + rewrite <- path_S in H. destruct (IHn _ _ _ H) as (A & B' & C & D). repeat split; auto; try lia.
        intros j Hj. destruct (Nat.eq_dec j p); [subst; auto|apply D; lia].
      + inversion H; subst. repeat split; auto. intros; lia.
  Qed.

  Lemma add_loop_none : forall t hc n p,
    add_loop n t p (path (bcount t) hc p) = None ->
    forall j, (p <= j <= p + n)%nat -> isFull (getb t (path (bcount t) hc j)) = true.
  Proof.
    induction n; intros p H j Hj; simpl in H.
    - destruct (isFull (getb t (path (bcount t) hc p))) eqn:E; [|discriminate]. replace j with p by lia. auto.
    - destruct (isFull (getb t (path (bcount t) hc p))) eqn:E; [|discriminate].
      rewrite <- path_S in H. destruct (Nat.eq_dec j p); [subst; auto|]. apply (IHn (S p)); auto. lia.
  Qed.

  Lemma getb_setb_same : forall t z b, (Z.to_nat z < length (tbs t))%nat -> getb (setb t z b) z = b.
  Proof. intros. unfold getb, setb; simpl. apply nth_upd_nth_eq; auto. Qed.

  Lemma getb_setb_other : forall t z z' b, Z.to_nat z <> Z.to_nat z' -> getb (setb t z b) z' = getb t z'.
  Proof. intros. unfold getb, setb; simpl. apply nth_upd_nth_neq; auto. Qed.

  Lemma tadd_spec : forall t k t', tinv t -> tadd t k = Some t' ->
    tinv t' /\ Permutation (tkeys t') (k :: tkeys t) /\ tlog t' = tlog t.
  Proof.
    intros t k t' Ht H. unfold tadd in H.
    change (start (h k) (bcount t)) with (path (bcount t) (h k) 0) in H.
    destruct (add_loop (Z.to_nat (bcount t - 1)) t 0 (path (bcount t) (h k) 0)) as [[idx q]|] eqn:EL; [|discriminate].
    destruct (add_loop_spec _ _ _ _ _ _ EL) as (Eidx & _ & HNF & HF).
    set (i0 := path (bcount t) (h k) 0) in *.
    set (b := getb t idx) in *.
    set (b1 := mkB (items b ++ [k]) (wasFull b || wfull (Z.of_nat (length (items b ++ [k])))) (bound b)) in *.
    set (t1 := setb t idx b1) in *.
    set (hb := getb t1 i0) in *.
    set (hb' := mkB (items hb) (wasFull hb) (upd_bound (bound hb) (Z.of_nat q))) in *.
    inversion H; subst t'; clear H.
    assert (Ridx : (Z.to_nat idx < length (tbs t))%nat) by (rewrite Eidx; apply path_in_range; auto).
    assert (Ri0 : (Z.to_nat i0 < length (tbs t))%nat) by (apply path_in_range; auto).
    assert (Ri0' : (Z.to_nat i0 < length (tbs t1))%nat) by (unfold t1, setb; simpl; rewrite upd_nth_length; auto).
    (* pointwise description of the new table *)
    assert (PW : forall z, (Z.to_nat z < length (tbs t))%nat ->
              items (getb (setb t1 i0 hb') z) = (if Nat.eqb (Z.to_nat z) (Z.to_nat idx) then items (getb t z) ++ [k] else items (getb t z)) /\
              wasFull (getb (setb t1 i0 hb') z) = (if Nat.eqb (Z.to_nat z) (Z.to_nat idx) then wasFull b1 else wasFull (getb t z)) /\
              bound (getb (setb t1 i0 hb') z) = (if Nat.eqb (Z.to_nat z) (Z.to_nat i0) then upd_bound (bound (getb t z)) (Z.of_nat q) else bound (getb t z))).
    { intros z Hz.
      assert (G1 : getb t1 z = if Nat.eqb (Z.to_nat z) (Z.to_nat idx) then b1 else getb t z).
      { destruct (Nat.eqb_spec (Z.to_nat z) (Z.to_nat idx)).
        - unfold t1, getb, setb; simpl. rewrite e. apply nth_upd_nth_eq; auto.
        - unfold t1. apply getb_setb_other; auto. }
      assert (Ez : Z.to_nat z = Z.to_nat idx -> getb t z = b).
      { intros E. unfold b, getb. rewrite E. auto. }
      destruct (Nat.eqb_spec (Z.to_nat z) (Z.to_nat i0)).
      - assert (G2 : getb (setb t1 i0 hb') z = hb').
        { unfold getb, setb; simpl. rewrite e. apply nth_upd_nth_eq; auto. }
        assert (G3 : hb = getb t1 z).
        { unfold hb, getb. rewrite e; auto. }
        rewrite G2. unfold hb'; simpl. rewrite G3, G1.
        destruct (Nat.eqb_spec (Z.to_nat z) (Z.to_nat idx)) as [E2|E2]; [rewrite (Ez E2)|]; simpl; auto.
      - rewrite getb_setb_other by auto. rewrite G1.
        destruct (Nat.eqb_spec (Z.to_nat z) (Z.to_nat idx)) as [E2|E2]; [rewrite (Ez E2)|]; simpl; auto. }
    assert (LEN : length (tbs (setb t1 i0 hb')) = length (tbs t)).
    { unfold setb, t1; simpl. repeat rewrite upd_nth_length. auto. }
    assert (OOR : forall z, (length (tbs t) <= Z.to_nat z)%nat -> getb (setb t1 i0 hb') z = getb t z).
    { intros. unfold getb. rewrite nth_overflow by lia. rewrite nth_overflow by lia. auto. }
    assert (MW : forall z, wasFull (getb t z) = true -> wasFull (getb (setb t1 i0 hb') z) = true).
    { intros z Hz. destruct (Nat.lt_ge_cases (Z.to_nat z) (length (tbs t))).
      - destruct (PW z H) as (_ & W & _). rewrite W. destruct (Nat.eqb_spec (Z.to_nat z) (Z.to_nat idx)); auto.
        unfold b1; simpl. unfold b, getb in *. rewrite <- e. rewrite Hz. auto.
      - rewrite OOR; auto. }
    assert (MB : forall z, decode (tlog t) (bound (getb t z)) <= decode (tlog t) (bound (getb (setb t1 i0 hb') z))).
    { intros z. destruct (Nat.lt_ge_cases (Z.to_nat z) (length (tbs t))).
      - destruct (PW z H) as (_ & _ & W). rewrite W. destruct (Nat.eqb (Z.to_nat z) (Z.to_nat i0)); try lia.
        apply decode_upd. lia.
      - rewrite OOR; auto. lia. }
    destruct Ht as (H0 & HL & HB).
    split; [|split]; auto.
    - split; [|split]; auto.
      + rewrite LEN. exact HL.
      + intros i b' Hi.
        assert (Hi' : (i < length (tbs t))%nat) by (rewrite <- LEN; eapply nth_error_some_lt; eauto).
        assert (Eb' : b' = getb (setb t1 i0 hb') (Z.of_nat i)).
        { unfold getb. rewrite Nat2Z.id. symmetry. eapply nth_error_nth'; eauto. }
        destruct (PW (Z.of_nat i)) as (PI & PWF & PB); [rewrite Nat2Z.id; auto|]. rewrite Nat2Z.id in *.
        pose proof (nth_error_of_lt _ (tbs t) i emptyB Hi') as HOld.
        destruct (HB i _ HOld) as (HF0 & HP0).
        assert (Eold : nth i (tbs t) emptyB = getb t (Z.of_nat i)) by (unfold getb; rewrite Nat2Z.id; auto).
        rewrite Eold in *.
        split.
        * rewrite Eb'. unfold isFull, blen. rewrite PI, PWF.
          destruct (Nat.eqb_spec i (Z.to_nat idx)).
          -- unfold b1; simpl. unfold b, getb. rewrite <- e. unfold getb in *. rewrite Nat2Z.id. intros HH. apply Z.leb_le in HH. rewrite (wfull_cap _ HH). apply orb_true_r.
          -- apply HF0.
        * intros x Hx. rewrite Eb', PI in Hx.
          assert (In x (items (getb t (Z.of_nat i))) \/ (i = Z.to_nat idx /\ x = k)).
          { destruct (Nat.eqb_spec i (Z.to_nat idx)); auto. apply in_app_or in Hx. destruct Hx as [Hx|Hx]; auto.
            simpl in Hx. right; intuition. }
          destruct H as [H|[H1 H2]].
          -- apply (placed_mono t); auto.
          -- subst x i. unfold placed. simpl tlog. unfold bcount; simpl tlog. fold (bcount t).
             exists q. split; [rewrite Eidx; auto|]. split.
             ++ fold i0. destruct (PW i0 Ri0) as (_ & _ & W). rewrite W. rewrite Nat.eqb_refl. apply decode_upd. lia.
             ++ intros j Hj. apply MW. pose proof (HF j ltac:(lia)) as FJ.
                pose proof (path_in_range t (h k) j (conj H0 (conj HL HB))) as RJ.
                destruct (HB _ _ (getb_nth_error t _ RJ)) as (HF1 & _). auto.
    - unfold tkeys.
      change (tbs (setb t1 i0 hb')) with (upd_nth (Z.to_nat i0) hb' (tbs t1)).
      rewrite (flat_map_upd_nth_same (tbs t1) (Z.to_nat i0) hb hb'); auto.
      + change (tbs t1) with (upd_nth (Z.to_nat idx) b1 (tbs t)).
        change (k :: flat_map items (tbs t)) with ([k] ++ flat_map items (tbs t)).
        eapply flat_map_upd_nth_perm; [apply getb_nth_error; auto|].
        unfold b1; simpl. fold b. apply Permutation_sym, Permutation_cons_append.
      + unfold hb. apply getb_nth_error; auto.
  Qed.

  (* ---- pvRelocateItems ---- *)
  Definition st_ok (st : mstat) : Prop :=
    (st = MTerm -> nothrowReloc = true) /\ (nothrowReloc = true -> st <> MStop).

  Ltac split5 := split; [|split; [|split; [|split]]].
  Ltac split6 := split; [|split; [|split; [|split; [|split]]]].

  Lemma st_ok_MOk : st_ok MOk.
  Proof. split; intros; discriminate. Qed.

  Lemma reloc_items_spec : forall its nw sch rem nw' sch' st, tinv nw ->
    reloc_items its nw sch = (rem, nw', sch', st) ->
    tinv nw' /\ tlog nw' = tlog nw /\
    (exists dn, its = dn ++ rem /\ Permutation (tkeys nw') (dn ++ tkeys nw)) /\
    (st = MOk -> rem = []) /\ st_ok st.
  Proof.
    induction its as [|k rest IH]; intros nw sch rem nw' sch' st Ht H; simpl in H.
    - inversion H; subst. split5; auto using st_ok_MOk. exists []; simpl; auto.
    - destruct (pop sch) as [f sch1].
      destruct (f && negb nothrowReloc) eqn:EF.
      { inversion H; subst. split5; auto; try discriminate.
        - exists []; simpl; auto.
        - split; [discriminate|]. intros HN. rewrite HN in EF. rewrite andb_false_r in EF. discriminate. }
      destruct (tadd nw k) as [nw1|] eqn:ET.
      + destruct (tadd_spec _ _ _ Ht ET) as (T1 & P1 & L1).
        destruct (IH _ _ _ _ _ _ T1 H) as (T2 & L2 & (dn & E & P2) & R & S).
        split5; auto; try congruence.
        exists (k :: dn). split; [simpl; congruence|].
        apply (Permutation_count_occ Z.eq_dec); intro y. count_hyp P1 y. count_hyp P2 y.
        change ((k :: dn) ++ tkeys nw) with ([k] ++ dn ++ tkeys nw).
        change (k :: tkeys nw) with ([k] ++ tkeys nw) in P0.
        repeat rewrite count_occ_app in *. lia.
      + inversion H; subst. split5; auto.
        * exists []; simpl; auto.
        * destruct nothrowReloc; discriminate.
        * split; destruct nothrowReloc; auto; try discriminate.
  Qed.

  Lemma reloc_buckets_spec : forall bs nw sch bs' nw' sch' st, tinv nw ->
    reloc_buckets bs nw sch = (bs', nw', sch', st) ->
    tinv nw' /\ tlog nw' = tlog nw /\ Forall2 bsub bs' bs /\
    Permutation (flat_map items bs ++ tkeys nw) (flat_map items bs' ++ tkeys nw') /\
    (st = MOk -> flat_map items bs' = []) /\ st_ok st.
  Proof.
    induction bs as [|b rest IH]; intros nw sch bs' nw' sch' st Ht H; simpl in H.
    - inversion H; subst. split6; auto using st_ok_MOk.
    - destruct (reloc_items (rev (items b)) nw sch) as [[[rem nw1] sch1] st1] eqn:EI.
      destruct (reloc_items_spec _ _ _ _ _ _ _ Ht EI) as (T1 & L1 & (dn & E & P1) & R1 & S1).
      assert (EB : items b = rev rem ++ rev dn).
      { rewrite <- rev_app_distr. rewrite <- E. rewrite rev_involutive. auto. }
      assert (SB : bsub (mkB (rev rem) (wasFull b) (bound b)) b).
      { unfold bsub; simpl. repeat split; auto.
        - intros x Hx. rewrite EB. apply in_or_app; auto.
        - rewrite EB, app_length. lia. }
      destruct st1.
      + destruct (reloc_buckets rest nw1 sch1) as [[[rest' nw2] sch2] st2] eqn:ER.
        destruct (IH _ _ _ _ _ _ T1 ER) as (T2 & L2 & F2 & P2 & R2 & S2).
        inversion H; subst. split6; auto; try congruence.
        * apply (Permutation_count_occ Z.eq_dec); intro y. count_hyp P1 y. count_hyp P2 y.
          simpl. rewrite EB. repeat rewrite count_occ_app in *. repeat rewrite count_occ_rev in *. lia.
        * intros HM. simpl. rewrite (R1 eq_refl). simpl. auto.
      + inversion H; subst. split6; auto; try discriminate.
        * constructor; auto. apply Forall2_bsub_refl.
        * apply (Permutation_count_occ Z.eq_dec); intro y. count_hyp P1 y.
          simpl. rewrite EB. repeat rewrite count_occ_app in *. repeat rewrite count_occ_rev in *. lia.
      + inversion H; subst. split6; auto; try discriminate.
        * constructor; auto. apply Forall2_bsub_refl.
        * apply (Permutation_count_occ Z.eq_dec); intro y. count_hyp P1 y.
          simpl. rewrite EB. repeat rewrite count_occ_app in *. repeat rewrite count_occ_rev in *. lia.
  Qed.

  Lemma reloc_gens_spec : forall olds nw sch olds' nw' sch' st, Forall tinv olds -> tinv nw ->
    reloc_gens olds nw sch = (olds', nw', sch', st) ->
    Forall tinv olds' /\ tinv nw' /\ tlog nw' = tlog nw /\
    Permutation (allkeys olds ++ tkeys nw) (allkeys olds' ++ tkeys nw') /\
    (st = MOk -> olds' = []) /\ st_ok st.
  Proof.
    induction olds as [|g older IH]; intros nw sch olds' nw' sch' st HO Ht H; simpl in H.
    - inversion H; subst. split6; auto using st_ok_MOk.
    - inversion HO; subst.
      destruct (reloc_gens older nw sch) as [[[older' nw1] sch1] st1] eqn:EG.
      destruct (IH _ _ _ _ _ _ H3 Ht EG) as (F1 & T1 & L1 & P1 & R1 & S1).
      destruct st1.
      + destruct (reloc_buckets (tbs g) nw1 sch1) as [[[bs' nw2] sch2] st2] eqn:EB.
        destruct (reloc_buckets_spec _ _ _ _ _ _ _ T1 EB) as (T2 & L2 & F2 & P2 & R2 & S2).
        rewrite (R1 eq_refl) in *.
        assert (PP : Permutation (allkeys (g :: older) ++ tkeys nw) (flat_map items bs' ++ tkeys nw2)).
        { apply (Permutation_count_occ Z.eq_dec); intro y. count_hyp P1 y. count_hyp P2 y.
          simpl in *. unfold tkeys at 1. repeat rewrite count_occ_app in *. simpl in *. lia. }
        destruct st2; inversion H; subst; (split6; auto; try congruence; try discriminate).
        * rewrite (R2 eq_refl) in PP. auto.
        * constructor; auto. apply tinv_sub; auto.
        * simpl. rewrite app_nil_r. auto.
        * constructor; auto. apply tinv_sub; auto.
        * simpl. rewrite app_nil_r. auto.
      + inversion H; subst. split6; auto; try discriminate.
        apply (Permutation_count_occ Z.eq_dec); intro y. count_hyp P1 y.
        simpl. repeat rewrite count_occ_app in *. lia.
      + inversion H; subst. split6; auto; try discriminate.
        apply (Permutation_count_occ Z.eq_dec); intro y. count_hyp P1 y.
        simpl. repeat rewrite count_occ_app in *. lia.
  Qed.

  Lemma relocate_spec : forall gs sch gs', Forall tinv gs -> relocate gs sch = Some gs' ->
    Forall tinv gs' /\ Permutation (allkeys gs) (allkeys gs') /\
    (nothrowReloc = true -> (length gs <= 1)%nat \/ length gs' = 1%nat) /\
    (gs <> [] -> gs' <> []) /\ (length gs' <= length gs)%nat.
  Proof.
    intros gs sch gs' HF H. unfold relocate in H.
    destruct gs as [|nw [|g olds]].
    - inversion H; subst. split5; auto.
    - inversion H; subst. split5; auto.
    - inversion HF; subst.
      destruct (reloc_gens (g :: olds) nw sch) as [[[olds' nw'] sch'] st] eqn:E.
      destruct (reloc_gens_spec _ _ _ _ _ _ _ H3 H2 E) as (F1 & T1 & L1 & P1 & R1 & S1).
      assert (PP : Permutation (allkeys (nw :: g :: olds)) (allkeys (nw' :: olds'))).
      { apply (Permutation_count_occ Z.eq_dec); intro y. count_hyp P1 y.
        simpl in *. repeat rewrite count_occ_app in *. lia. }
      assert (LL : (length olds' <= length (g :: olds))%nat).
      { clear - E. revert nw sch olds' nw' sch' st E. generalize (g :: olds) as l.
        induction l as [|a l IH]; intros; simpl in E.
        - inversion E; subst; simpl; lia.
        - destruct (reloc_gens l nw sch) as [[[o1 n1] s1] st1] eqn:E1. specialize (IH _ _ _ _ _ _ E1).
          destruct st1.
          + destruct (reloc_buckets (tbs a) n1 s1) as [[[bs' n2] s2] st2]. destruct st2; inversion E; subst; simpl; lia.
          + inversion E; subst; simpl; lia.
          + inversion E; subst; simpl; lia. }
      destruct st; inversion H; subst; (split5; auto; try discriminate; try (simpl in *; lia)).
      + intros. right. rewrite (R1 eq_refl). auto.
      + intros HN. destruct S1 as [_ S1]. exfalso. apply (S1 HN); auto.
  Qed.

  (* ---- the container ---- *)
  Definition abs (s : hset) : list Z := allkeys (gens s).

  (* relocate_interrupted_inv: every element lives in exactly one generation, on the probe path of its home
     bucket of that generation within the recorded bound, keys distinct across generations, count exact *)
  Definition Inv (s : hset) : Prop :=
    Forall tinv (gens s) /\ NoDup (abs s) /\ count s = Z.of_nat (length (abs s)) /\
    (nothrowReloc = true -> (length (gens s) <= 1)%nat).

  Lemma Inv_init : Inv hinit.
  Proof. unfold Inv, hinit, abs; simpl. repeat split; auto; try constructor. Qed.

  Lemma flat_map_repeat_empty : forall n, flat_map items (repeat emptyB n) = [].
  Proof. induction n; simpl; auto. Qed.

  Lemma tkeys_newTable : forall nl, tkeys (newTable nl) = [].
  Proof. intros. unfold tkeys, newTable; simpl. apply flat_map_repeat_empty. Qed.

  Lemma tinv_newTable : forall nl, 0 <= nl -> tinv (newTable nl).
  Proof.
    intros nl H. unfold tinv, newTable; simpl. split; [auto|split].
    - rewrite repeat_length. reflexivity.
    - intros i b Hi. apply nth_error_In in Hi. apply repeat_spec in Hi. subst b. split.
      + unfold isFull, blen; simpl. intros HH. apply Z.leb_le in HH. lia.
      + simpl. tauto.
  Qed.

  Lemma newLog_nonneg : forall gs, Forall tinv gs -> 0 <= newLog gs.
  Proof.
    intros gs H. destruct gs; simpl; auto. inversion H; subst. destruct H2 as (H0 & _).
    pose proof (shift_nonneg (bcount t)). lia.
  Qed.

  Lemma tinv_notin_tfind : forall t k, tinv t -> tfind t k = None -> ~ In k (tkeys t).
  Proof. intros t k Ht Hf Hin. destruct (tinv_find t k Ht Hin) as (i & pos & E). congruence. Qed.

  Lemma gfind_complete : forall gs k gi, Forall tinv gs -> (nothrowReloc = true -> (length gs <= 1)%nat) ->
    In k (allkeys gs) -> exists loc, gfind gs k gi = Some loc.
  Proof.
    induction gs as [|t r IH]; intros k gi HF HN Hin; simpl in *; [tauto|].
    inversion HF; subst.
    destruct (tfind t k) as [[idx pos]|] eqn:E; [eauto|].
    apply in_app_or in Hin. destruct Hin as [Hin|Hin]; [exfalso; eapply tinv_notin_tfind; eauto|].
    destruct nothrowReloc eqn:EN.
    - specialize (HN eq_refl). destruct r; simpl in *; [tauto|lia].
    - apply IH; auto. intros; discriminate.
  Qed.

  Lemma gfind_sound : forall gs k gi g idx pos, gfind gs k gi = Some (g, idx, pos) ->
    exists t, (gi <= g)%nat /\ nth_error gs (g - gi) = Some t /\ tfind t k = Some (idx, pos).
  Proof.
    induction gs as [|t r IH]; intros k gi g idx pos H; simpl in H; [discriminate|].
    destruct (tfind t k) as [[i p]|] eqn:E.
    - inversion H; subst. exists t. rewrite Nat.sub_diag. auto.
    - destruct nothrowReloc; [discriminate|]. destruct (IH _ _ _ _ _ H) as (t' & L & N & F).
      exists t'. split; [lia|]. split; auto. replace (g - gi)%nat with (S (g - S gi)) by lia. auto.
  Qed.

  Lemma hfind_sound : forall s k g idx pos, hfind s k = Some (g, idx, pos) ->
    exists t, nth_error (gens s) g = Some t /\ tfind t k = Some (idx, pos) /\ In k (abs s).
  Proof.
    unfold hfind; intros. destruct (count s =? 0); [discriminate|].
    destruct (gfind_sound _ _ _ _ _ _ H) as (t & _ & N & F). rewrite Nat.sub_0_r in N.
    exists t. repeat split; auto. unfold abs, allkeys. apply in_flat_map. exists t. split.
    - eapply nth_error_In; eauto.
    - apply tfind_in in F. tauto.
  Qed.

  (* all_findable *)
  Lemma hfind_complete : forall s k, Inv s -> In k (abs s) -> exists loc, hfind s k = Some loc.
  Proof.
    intros s k (HF & HD & HC & HN) Hin. unfold hfind.
    destruct (Z.eqb_spec (count s) 0).
    - rewrite HC in e. destruct (abs s); simpl in *; [tauto|lia].
    - apply gfind_complete; auto.
  Qed.

  Lemma allkeys_upd : forall gs g t t' k, nth_error gs g = Some t -> Permutation (tkeys t) (k :: tkeys t') ->
    Permutation (allkeys gs) (k :: allkeys (upd_nth g t' gs)).
  Proof.
    intros. destruct (upd_nth_split _ g t' gs t H) as (l1 & l2 & E1 & E2 & _). rewrite E2, E1.
    unfold allkeys. repeat rewrite flat_map_app. simpl.
    apply (Permutation_count_occ Z.eq_dec); intro y. count_hyp H0 y.
    change (k :: flat_map tkeys l1 ++ tkeys t' ++ flat_map tkeys l2) with ([k] ++ flat_map tkeys l1 ++ tkeys t' ++ flat_map tkeys l2).
    change (k :: tkeys t') with ([k] ++ tkeys t') in H1.
    repeat rewrite count_occ_app in *. lia.
  Qed.

  Lemma Forall_upd_nth : forall A (P : A -> Prop) l n x, Forall P l -> P x -> Forall P (upd_nth n x l).
  Proof. induction l; destruct n; simpl; intros; auto; inversion H; subst; constructor; auto. Qed.

  Lemma NoDup_perm_cons : forall (k : Z) l l', NoDup l -> Permutation l (k :: l') -> NoDup l' /\ ~ In k l'.
  Proof.
    intros. assert (NoDup (k :: l')) by (eapply Permutation_NoDup; eauto). inversion H1; subst. auto.
  Qed.

  Lemma find_buckets_loop_spec : forall gs bi pos j base t,
    nth_error gs j = Some t -> bi < bcount t -> (pos < length (items (getb t bi)))%nat ->
    find_buckets_loop gs bi (base + j) pos base = Some (base + j)%nat.
  Proof.
    induction gs as [|t0 r IH]; intros bi pos j base t HN HB HP; destruct j; simpl in HN; try discriminate.
    - inversion HN; subst t0. simpl. destruct (Z.leb_spec (bcount t) bi); [lia|].
      unfold ptr_in. rewrite Nat.add_0_r, Nat.eqb_refl. simpl. apply Nat.ltb_lt in HP. rewrite HP. auto.
    - simpl. replace (base + S j)%nat with (S base + j)%nat by lia.
      destruct (bcount t0 <=? bi); [exact (IH bi pos j (S base) t HN HB HP)|].
      unfold ptr_in. replace (S base + j =? base)%nat with false by (symmetry; apply Nat.eqb_neq; lia).
      exact (IH bi pos j (S base) t HN HB HP).
  Qed.

  (* pvFindBuckets returns the generation that actually contains the bucket iterator *)
  Lemma find_buckets_spec : forall s k gi idx pos, Inv s -> hfind s k = Some (gi, idx, pos) ->
    find_buckets (gens s) idx gi pos = Some gi.
  Proof.
    intros s k gi idx pos (HF & _) H. destruct (hfind_sound _ _ _ _ _ H) as (t & N & F & _).
    apply tfind_in in F. destruct F as (F1 & F2 & _).
    assert (Ht : tinv t) by (eapply Forall_forall; [apply HF|eapply nth_error_In; eauto]).
    assert (HB : idx < bcount t).
    { destruct Ht as (H0 & HL & _). rewrite HL in F2. pose proof (bcount_pos t H0). lia. }
    assert (HP : (pos < length (items (getb t idx)))%nat) by (eapply nth_error_some_lt; eauto).
    unfold find_buckets. destruct (gens s) as [|t0 [|t1 r]] eqn:EG.
    - destruct gi; discriminate.
    - destruct gi as [|[|gi]]; simpl in N; try discriminate. auto.
    - apply (find_buckets_loop_spec (t0 :: t1 :: r) idx pos gi 0%nat t N HB HP).
  Qed.

  (* removable *)
  Lemma remove_spec : forall s k g idx pos, Inv s -> hfind s k = Some (g, idx, pos) ->
    let s' := mkH (upd_gen (gens s) g (fun t => tremove t idx pos)) (count s - 1) (capacity s) in
    Inv s' /\ Permutation (abs s) (k :: abs s') /\ ~ In k (abs s') /\ length (gens s') = length (gens s).
  Proof.
    intros s k g idx pos (HF & HD & HC & HN) H. simpl.
    destruct (hfind_sound _ _ _ _ _ H) as (t & N & F & _).
    apply tfind_in in F. destruct F as (F1 & F2 & F3).
    assert (Ht : tinv t) by (eapply Forall_forall; [apply HF|eapply nth_error_In; eauto]).
    destruct (tremove_spec t idx pos k Ht F1) as (T1 & P1 & L1).
    unfold upd_gen. rewrite N.
    pose proof (allkeys_upd _ _ _ _ _ N P1) as PA.
    destruct (NoDup_perm_cons _ _ _ HD PA) as (ND & NI).
    unfold Inv, abs; simpl. split; [|split; [|split]]; auto.
    split; [|split; [|split]]; auto.
    - apply Forall_upd_nth; auto.
    - apply Permutation_length in PA. unfold abs in *. simpl in PA. lia.
    - rewrite upd_nth_length. auto.
    - apply upd_nth_length.
  Qed.

  Lemma relocate_not_none : forall gs sch, (nothrowReloc = true -> (length gs <= 1)%nat) -> Forall tinv gs ->
    relocate gs sch <> None.
  Proof.
    intros gs sch HN HF. unfold relocate. destruct gs as [|nw [|g olds]]; try discriminate.
    inversion HF; subst.
    destruct (reloc_gens (g :: olds) nw sch) as [[[olds' nw'] sch'] st] eqn:E.
    destruct (reloc_gens_spec _ _ _ _ _ _ _ H2 H1 E) as (_ & _ & _ & _ & _ & (S1 & _)).
    destruct st; try discriminate. specialize (HN (S1 eq_refl)). simpl in HN. lia.
  Qed.

  Lemma add_head_spec : forall s t r k afail ncap sch s' o,
    Forall tinv (t :: r) -> NoDup (k :: allkeys (t :: r)) -> count s = Z.of_nat (length (allkeys (t :: r))) ->
    (nothrowReloc = true -> (length r <= 1)%nat) ->
    add_head s t r k afail ncap sch = Some (s', o) ->
    (o = RInserted /\ Forall tinv (gens s') /\ NoDup (abs s') /\ count s' = Z.of_nat (length (abs s')) /\
       (nothrowReloc = true -> (length (gens s') <= 1)%nat) /\
       Permutation (abs s') (k :: allkeys (t :: r)) /\ capacity s' = ncap /\ (length (gens s') <= S (length r))%nat) \/
    (s' = s /\ (o = RFull \/ o = RBadAlloc)).
  Proof.
    intros s t r k afail ncap sch s' o HF HD HC HN H. unfold add_head in H.
    destruct (tadd t k) as [t'|] eqn:ET; [|inversion H; subst; right; auto].
    destruct afail; [inversion H; subst; right; auto|].
    inversion HF; subst. destruct (tadd_spec _ _ _ H2 ET) as (T1 & P1 & L1).
    destruct (relocate (t' :: r) sch) as [gs|] eqn:ER; [|discriminate].
    inversion H; subst; clear H. left.
    assert (HF' : Forall tinv (t' :: r)) by (constructor; auto).
    destruct (relocate_spec _ _ _ HF' ER) as (F2 & P2 & N2 & _ & LL).
    assert (PA : Permutation (allkeys gs) (k :: allkeys (t :: r))).
    { apply (Permutation_count_occ Z.eq_dec); intro y. count_hyp P1 y. count_hyp P2 y.
      simpl in *. repeat rewrite count_occ_app in *. destruct (Z.eq_dec k y); lia. }
    unfold abs; simpl. split; [auto|]. split; [auto|]. split; [|split; [|split; [|split; [|split]]]]; auto.
    - eapply Permutation_NoDup; [apply Permutation_sym; apply PA|]. auto.
    - apply Permutation_length in PA. simpl in PA. rewrite PA, HC. simpl. lia.
    - intros HT. destruct (N2 HT) as [A|A]; simpl in *; lia.
  Qed.

  Lemma grow_log_spec : forall fuel nl c r, grow_log fuel nl c = Some r -> nl <= r /\ c < calcCapacity (2 ^ r).
  Proof.
    induction fuel; intros nl c r H; simpl in H; destruct (Z.ltb_spec c (calcCapacity (2 ^ nl))); try discriminate;
      try (inversion H; subst; split; [lia|auto]).
    apply IHfuel in H. split; [lia|tauto].
  Qed.

  Lemma hadd_spec : forall s k afail refuse sch s' o, Inv s -> ~ In k (abs s) ->
    hadd s k afail refuse sch = Some (s', o) ->
    (o = RInserted /\ Inv s' /\ Permutation (abs s') (k :: abs s)) \/
    (s' = s /\ (o = RFull \/ o = RBadAlloc \/ o = RCheck)).
  Proof.
    intros s k afail refuse sch s' o (HF & HD & HC & HN) HK H. unfold hadd in H.
    assert (ND : NoDup (k :: abs s)) by (constructor; auto).
    assert (GEN : forall t r ncap, gens s = t :: r -> add_head s t r k afail ncap sch = Some (s', o) ->
      (o = RInserted /\ Inv s' /\ Permutation (abs s') (k :: abs s)) \/ (s' = s /\ (o = RFull \/ o = RBadAlloc \/ o = RCheck))).
    { intros t r ncap EG HA. unfold abs in *. rewrite EG in *.
      assert (HN' : nothrowReloc = true -> (length r <= 1)%nat) by (intros HT; specialize (HN HT); simpl in HN; lia).
      destruct (add_head_spec _ _ _ _ _ _ _ _ _ HF ND HC HN' HA)
        as [(A1 & A2 & A3 & A4 & A5 & A6 & _)|(A1 & A2)].
      - left. unfold Inv. unfold abs in *. repeat split; auto.
      - right. intuition. }
    destruct (count s <? capacity s).
    - destruct (gens s) as [|t r] eqn:EG; [inversion H; subst; right; auto|]. eapply GEN; eauto.
    - destruct (grow_log (Z.to_nat (count s) + 2) (newLog (gens s)) (count s)) as [nl|] eqn:EGL; [|inversion H; subst; right; auto].
      assert (NL : 0 <= nl) by (pose proof (newLog_nonneg _ HF); pose proof (grow_log_spec _ _ _ _ EGL); lia).
      destruct refuse.
      + destruct (gens s) as [|t r] eqn:EG; [inversion H; subst; right; auto|]. eapply GEN; eauto.
      + assert (HF' : Forall tinv (newTable nl :: gens s)).
        { constructor; auto. apply tinv_newTable. auto. }
        assert (EK : allkeys (newTable nl :: gens s) = abs s).
        { unfold abs. simpl. rewrite tkeys_newTable. auto. }
        assert (ND' : NoDup (k :: allkeys (newTable nl :: gens s))) by (rewrite EK; auto).
        assert (HC' : count s = Z.of_nat (length (allkeys (newTable nl :: gens s)))) by (rewrite EK; auto).
        destruct (add_head_spec _ _ _ _ _ _ _ _ _ HF' ND' HC' HN H)
          as [(A1 & A2 & A3 & A4 & A5 & A6 & _)|(A1 & A2)].
        * left. rewrite EK in A6. unfold Inv. repeat split; auto.
        * right. intuition.
  Qed.

  Lemma reserve_log_ge : forall fuel nl n r, reserve_log fuel nl n = Some r -> nl <= r.
  Proof.
    induction fuel; intros nl n r H; simpl in H; destruct (n <=? calcCapacity (2 ^ nl)); try discriminate;
      try (inversion H; subst; lia).
    apply IHfuel in H. lia.
  Qed.

  Lemma hreserve_spec : forall s n refuse sch s' o, Inv s -> hreserve s n refuse sch = Some (s', o) ->
    Inv s' /\ Permutation (abs s') (abs s) /\ (o = RUnit \/ s' = s /\ (o = RBadAlloc \/ o = RCheck)).
  Proof.
    intros s n refuse sch s' o HI H. unfold hreserve in H.
    destruct (n <=? capacity s); [inversion H; subst; auto|].
    destruct (reserve_log 64 (newLog (gens s)) n) as [nl|] eqn:EL; [|inversion H; subst; auto 6].
    destruct refuse; [inversion H; subst; auto 6|].
    destruct (relocate (newTable nl :: gens s) sch) as [gs|] eqn:ER; [|discriminate].
    inversion H; subst; clear H. destruct HI as (HF & HD & HC & HN).
    assert (NL : 0 <= nl).
    { pose proof (newLog_nonneg _ HF). pose proof (reserve_log_ge _ _ _ _ EL). lia. }
    assert (HF' : Forall tinv (newTable nl :: gens s)) by (constructor; auto; apply tinv_newTable; auto).
    destruct (relocate_spec _ _ _ HF' ER) as (F2 & P2 & N2 & _ & LL).
    assert (PA : Permutation (allkeys gs) (abs s)).
    { apply Permutation_sym. eapply Permutation_trans; [|apply P2]. unfold abs; simpl. rewrite tkeys_newTable. auto. }
    split; [|split]; auto.
    unfold Inv, abs; simpl. repeat split; auto.
    - eapply Permutation_NoDup; [apply Permutation_sym; apply PA|]. auto.
    - apply Permutation_length in PA. rewrite PA. auto.
    - intros HT. specialize (HN HT). clear EL. destruct (N2 HT) as [A|A]; simpl in A, LL; lia.
  Qed.

  (* observable results against the abstract set A = abs s (a list without duplicates) *)
  Definition out_ok (A : list Z) (o : op) (r : out) : Prop :=
    match o with
    | OInsert k hf af rf sch =>
      match r with
      | RInserted => ~ In k A /\ hf = false /\ af = false
      | RAlready => In k A /\ hf = false
      | RExn => hf = true
      | RFull | RBadAlloc | RCheck => ~ In k A /\ hf = false
      | _ => False
      end
    | OFind k => (r = RFound true /\ In k A) \/ (r = RFound false /\ ~ In k A)
    | ORemove k => (r = RRemoved true /\ In k A) \/ (r = RRemoved false /\ ~ In k A)
    | OReserve n rf sch => r = RUnit \/ r = RBadAlloc \/ r = RCheck
    | OTraverse => exists l, r = RList l /\ Permutation l A /\ NoDup l
    | OCount => r = RNum (Z.of_nat (length A))
    | OClear _ => r = RUnit
    | ORemoveIf m q => r = RNum (Z.of_nat (length (filter (fun k => k mod m =? q) A)))
    end.

  Definition abs_after (A : list Z) (o : op) (r : out) (A' : list Z) : Prop :=
    match o, r with
    | OInsert k _ _ _ _, RInserted => Permutation A' (k :: A)
    | ORemove k, RRemoved true => Permutation A (k :: A')
    | OClear _, _ => A' = []
    | ORemoveIf m q, _ => Permutation A' (filter (fun k => negb (k mod m =? q)) A)
    | _, _ => Permutation A' A
    end.

  Lemma ttraverse_perm : forall t, Permutation (ttraverse t) (tkeys t).
  Proof.
    intros. unfold ttraverse, tkeys. induction (tbs t); simpl; auto.
    apply Permutation_app; auto. apply Permutation_sym, Permutation_rev.
  Qed.

  Lemma traverse_all_perm : forall gs, Permutation (flat_map ttraverse gs) (allkeys gs).
  Proof. induction gs; simpl; auto. apply Permutation_app; auto using ttraverse_perm. Qed.

  (* traversal_once *)
  Lemma traverse_spec : forall s, Inv s -> Permutation (traverse s) (abs s) /\ NoDup (traverse s).
  Proof.
    intros s (HF & HD & HC & HN). unfold traverse.
    destruct (Z.eqb_spec (count s) 0).
    - rewrite HC in e. destruct (abs s); simpl in *; [split; auto; constructor|lia].
    - split; [apply traverse_all_perm|]. eapply Permutation_NoDup; [apply Permutation_sym, traverse_all_perm|]. auto.
  Qed.

  (* ---- the iterator machine (pvInc / pvMove) enumerates exactly `traverse` and then stops ---- *)
  Definition lenok (t : table) : Prop := length (tbs t) = Z.to_nat (bcount t) /\ (0 < length (tbs t))%nat.

  Lemma tinv_lenok : forall t, tinv t -> lenok t.
  Proof. intros t (H0 & HL & _). split; auto. rewrite HL. pose proof (bcount_pos t H0). lia. Qed.

  (* what is left after the current bucket of the current generation *)
  Definition rem_b (t : table) (bi : nat) : list Z := flat_map (fun b => rev (items b)) (skipn (S bi) (tbs t)).

  (* what an iterator still has to visit (including the item it points to) *)
  Definition rem_it (it : iter) : list Z :=
    match it with
    | IAt (t :: rest) bi p => rev (firstn (S p) (items (nth bi (tbs t) emptyB))) ++ rem_b t bi ++ flat_map ttraverse rest
    | _ => []
    end.

  Definition valid_it (it : iter) : Prop :=
    match it with
    | IEnd => True
    | IAt gs bi p => Forall lenok gs /\ match gs with [] => False | t :: _ => (p < bcnt t bi)%nat end
    end.

  Lemma rem_it_at : forall t rest bi p, rem_it (IAt (t :: rest) bi p) =
    rev (firstn (S p) (items (nth bi (tbs t) emptyB))) ++ rem_b t bi ++ flat_map ttraverse rest.
  Proof. reflexivity. Qed.

  Lemma skipn_nth_cons : forall A (l : list A) n d, (n < length l)%nat -> skipn n l = nth n l d :: skipn (S n) l.
  Proof. induction l; destruct n; simpl; intros; try lia; auto. apply IHl; lia. Qed.

  Lemma rev_firstn_S : forall (l : list Z) n, (n < length l)%nat -> rev (firstn (S n) l) = nth n l 0 :: rev (firstn n l).
  Proof.
    induction l; intros n H; simpl in H; [lia|]. destruct n.
    - simpl. auto.
    - change (firstn (S (S n)) (a :: l)) with (a :: firstn (S n) l). change (firstn (S n) (a :: l)) with (a :: firstn n l).
      change (rev (a :: firstn (S n) l)) with (rev (firstn (S n) l) ++ [a]). rewrite IHl by lia. reflexivity.
  Qed.

  Lemma move_loop_some : forall t, lenok t -> forall n bi bi' p, move_loop n t bi = Some (bi', p) ->
    bcnt t bi' = S p /\ rem_b t bi = rev (items (nth bi' (tbs t) emptyB)) ++ rem_b t bi'.
  Proof.
    intros t (HL & _). induction n; intros bi bi' p H; simpl in H; [discriminate|].
    rewrite <- HL in H. destruct (Nat.leb_spec (length (tbs t)) (S bi)); [discriminate|].
    unfold rem_b at 1. rewrite (skipn_nth_cons _ (tbs t) (S bi) emptyB) by lia. simpl flat_map.
    destruct (bcnt t (S bi)) eqn:E.
    - apply IHn in H. destruct H as (H1 & H2). split; auto.
      unfold bcnt in E. apply length_zero_iff_nil in E. rewrite E. simpl. exact H2.
    - inversion H; subst. split; auto.
  Qed.

  Lemma move_loop_none : forall t, lenok t -> forall n bi, (length (tbs t) <= S bi + n)%nat ->
    move_loop n t bi = None -> rem_b t bi = [].
  Proof.
    intros t (HL & _). induction n; intros bi Hn H.
    - unfold rem_b. rewrite skipn_all2 by lia. auto.
    - simpl in H. rewrite <- HL in H. destruct (Nat.leb_spec (length (tbs t)) (S bi)).
      + unfold rem_b. rewrite skipn_all2 by lia. auto.
      + unfold rem_b. rewrite (skipn_nth_cons _ (tbs t) (S bi) emptyB) by lia. simpl flat_map.
        destruct (bcnt t (S bi)) eqn:E; [|discriminate].
        unfold bcnt in E. apply length_zero_iff_nil in E. rewrite E. simpl. apply (IHn (S bi)); auto. lia.
  Qed.

  Lemma ttraverse_head : forall t, lenok t -> ttraverse t = rev (items (nth 0 (tbs t) emptyB)) ++ rem_b t 0.
  Proof. intros t (_ & HP). unfold ttraverse, rem_b. destruct (tbs t); simpl in *; [lia|auto]. Qed.

  Lemma pv_move_spec : forall gs, Forall lenok gs -> forall bi t rest, gs = t :: rest ->
    valid_it (pv_move gs bi) /\ rem_it (pv_move gs bi) = rem_b t bi ++ flat_map ttraverse rest.
  Proof.
    induction gs as [|t0 rest0 IH]; intros HF bi t rest EQ; [discriminate|]. inversion EQ; subst t0 rest0; clear EQ.
    inversion HF; subst. simpl pv_move.
    destruct (move_loop (Z.to_nat (bcount t)) t bi) as [[bi' p]|] eqn:E.
    - destruct (move_loop_some t H1 _ _ _ _ E) as (C & R). split.
      + simpl. split; auto. rewrite C; lia.
      + rewrite rem_it_at. rewrite R. rewrite <- C. unfold bcnt. rewrite firstn_all. rewrite app_assoc. auto.
    - assert (R : rem_b t bi = []).
      { apply move_loop_none with (n := Z.to_nat (bcount t)); auto. destruct H1 as (HL & _). lia. }
      rewrite R. simpl app.
      destruct rest as [|t2 r2]; [simpl; auto|]. inversion H2; subst.
      simpl flat_map. rewrite (ttraverse_head t2) by auto.
      destruct (bcnt t2 0) eqn:C.
      + destruct (IH H2 0%nat t2 r2 eq_refl) as (V & R2). split; auto. rewrite R2.
        unfold bcnt in C. apply length_zero_iff_nil in C. rewrite C. auto.
      + split; [simpl; split; auto; rewrite C; lia|].
        rewrite rem_it_at. rewrite <- C. unfold bcnt. rewrite firstn_all. rewrite app_assoc. auto.
  Qed.

  Lemma it_step : forall gs bi p, valid_it (IAt gs bi p) ->
    rem_it (IAt gs bi p) = it_deref (IAt gs bi p) :: rem_it (pv_inc gs bi p) /\ valid_it (pv_inc gs bi p).
  Proof.
    intros gs bi p (HF & HV). destruct gs as [|t rest]; [tauto|]. unfold bcnt in HV. destruct p;
      [change (pv_inc (t :: rest) bi 0) with (pv_move (t :: rest) bi)
      |change (pv_inc (t :: rest) bi (S p)) with (IAt (t :: rest) bi p)].
    - destruct (pv_move_spec (t :: rest) HF bi t rest eq_refl) as (V & R). split; auto. rewrite R.
      rewrite rem_it_at. simpl it_deref. destruct (items (nth bi (tbs t) emptyB)); simpl in *; [lia|auto].
    - split; [|simpl; split; auto; unfold bcnt; lia].
      repeat rewrite rem_it_at. simpl it_deref. rewrite (rev_firstn_S _ (S p)) by lia. auto.
  Qed.

  Lemma walk_spec : forall fuel it, valid_it it -> (length (rem_it it) <= fuel)%nat -> walk fuel it = (rem_it it, IEnd).
  Proof.
    induction fuel; intros it V L; destruct it as [|gs bi p]; try reflexivity.
    - destruct (it_step gs bi p V) as (E & _). rewrite E in L. simpl in L. lia.
    - destruct (it_step gs bi p V) as (E & V'). rewrite E in L. simpl in L.
      change (walk (S fuel) (IAt gs bi p)) with
        (let (l, e) := walk fuel (pv_inc gs bi p) in (it_deref (IAt gs bi p) :: l, e)).
      rewrite IHfuel; auto; [|lia]. rewrite E. auto.
  Qed.

  Lemma it_begin_spec : forall s, Forall lenok (gens s) -> valid_it (it_begin s) /\ rem_it (it_begin s) = traverse s.
  Proof.
    intros s HF. unfold it_begin, traverse. destruct (count s =? 0); [simpl; auto|].
    destruct (gens s) as [|t rest] eqn:EG; [simpl; auto|]. inversion HF; subst.
    simpl flat_map. rewrite (ttraverse_head t) by auto.
    destruct (bcnt t 0) eqn:C.
    - destruct (pv_move_spec (t :: rest) HF 0%nat t rest eq_refl) as (V & R). split; auto. rewrite R.
      unfold bcnt in C. apply length_zero_iff_nil in C. rewrite C. auto.
    - split; [simpl; split; auto; rewrite C; lia|].
      rewrite rem_it_at. rewrite <- C. unfold bcnt. rewrite firstn_all. rewrite app_assoc. auto.
  Qed.

  (* traversal_once for the machine: started at GetBegin() in ANY state satisfying Inv (any number of generations), the
     iterator visits, in mCount increments, exactly the items of `traverse` (a duplicate-free permutation of the
     contents, traverse_spec) and then IS the end iterator *)
  Theorem iterator_walk : forall s, Inv s -> walk (Z.to_nat (count s)) (it_begin s) = (traverse s, IEnd).
  Proof.
    intros s HI. pose proof HI as (HF & _ & HC & _).
    assert (HL : Forall lenok (gens s)) by (eapply Forall_impl; [|apply HF]; apply tinv_lenok).
    destruct (it_begin_spec s HL) as (V & R). rewrite <- R. apply walk_spec; auto.
    rewrite R. destruct (traverse_spec s HI) as (P & _). apply Permutation_length in P. rewrite P, HC. rewrite Nat2Z.id. lia.
  Qed.

  Lemma traverse_it_eq : forall s, Inv s -> traverse_it s = traverse s.
  Proof. intros s HI. unfold traverse_it. rewrite (iterator_walk s HI). auto. Qed.

  (* ---- Remove(filter): the iterator loop with removals, across generations ---- *)
  Definition sfx (gs chain : list table) : Prop := exists pre, chain = pre ++ gs.

  Lemma pv_move_sfx : forall gs bi gs' b' p', pv_move gs bi = IAt gs' b' p' -> sfx gs' gs.
  Proof.
    induction gs as [|t rest IH]; intros bi gs' b' p' H; simpl in H; [discriminate|].
    destruct (move_loop (Z.to_nat (bcount t)) t bi) as [[x y]|].
    - inversion H; subst. exists []; auto.
    - destruct rest as [|t2 r2]; [discriminate|]. destruct (bcnt t2 0).
      + apply IH in H. destruct H as (pre & E). exists (t :: pre). simpl. rewrite E. auto.
      + inversion H; subst. exists [t]; auto.
  Qed.

  Lemma firstn_upd_nth : forall A p (x : A) l, firstn p (upd_nth p x l) = firstn p l.
  Proof. induction p; destruct l; simpl; auto. rewrite IHp. auto. Qed.

  Lemma skipn_upd_nth : forall A p (x : A) l, skipn (S p) (upd_nth p x l) = skipn (S p) l.
  Proof. induction p; destruct l; simpl; auto. apply IHp. Qed.

  Lemma bremove_firstn : forall l p, (p < length l)%nat -> firstn p (bremove p l) = firstn p l.
  Proof.
    intros l p H. unfold bremove. destruct (rev l) as [|z r] eqn:E.
    { apply (f_equal (@rev Z)) in E. rewrite rev_involutive in E. subst. simpl in H. lia. }
    assert (L : l = rev r ++ [z]).
    { apply (f_equal (@rev Z)) in E. rewrite rev_involutive in E. simpl in E. auto. }
    rewrite L. rewrite removelast_last. rewrite L, app_length in H. simpl in H.
    destruct (Nat.eqb_spec p (length (rev r))).
    - subst p. rewrite firstn_app. rewrite Nat.sub_diag. simpl. rewrite app_nil_r. auto.
    - rewrite firstn_upd_nth. rewrite firstn_app. replace (p - length (rev r))%nat with 0%nat by lia. simpl. rewrite app_nil_r. auto.
  Qed.

  Lemma filter_perm : forall (f : Z -> bool) l l', Permutation l l' -> Permutation (filter f l) (filter f l').
  Proof.
    induction 1; simpl; auto.
    - destruct (f x); auto.
    - destruct (f x); destruct (f y); auto. apply perm_swap.
    - eapply Permutation_trans; eauto.
  Qed.

  Lemma filter_split_length : forall (f : Z -> bool) l,
    (length (filter f l) + length (filter (fun x => negb (f x)) l))%nat = length l.
  Proof. induction l; simpl; auto. destruct (f a); simpl; lia. Qed.

  Lemma find_buckets_at : forall chain g t bi p, nth_error chain g = Some t -> bi < bcount t ->
    (p < length (items (getb t bi)))%nat -> find_buckets chain bi g p = Some g.
  Proof.
    intros chain g t bi p N HB HP. unfold find_buckets. destruct chain as [|t0 [|t1 r]].
    - destruct g; discriminate.
    - destruct g as [|[|g]]; simpl in N; try discriminate. auto.
    - apply (find_buckets_loop_spec (t0 :: t1 :: r) bi p g 0%nat t N HB HP).
  Qed.

  Lemma app_eq_len : forall A (l1 l1' a b : list A), length l1 = length l1' -> l1 ++ a = l1' ++ b -> l1 = l1' /\ a = b.
  Proof.
    induction l1 as [|x l1 IH]; destruct l1' as [|y l1']; simpl; intros u v L E; try discriminate; auto.
    inversion E; subst. destruct (IH l1' u v) as (E1 & E2); auto. subst; auto.
  Qed.

  Lemma remif_spec : forall fuel f chain it cnt V,
    Forall tinv chain ->
    match it with IEnd => True | IAt gs bi p => sfx gs chain /\ gs <> [] /\ (p < bcnt (hd (mkT 0 []) gs) bi)%nat end ->
    Permutation (allkeys chain) (V ++ rem_it it) -> (length (rem_it it) <= fuel)%nat ->
    exists chain' cnt', remif fuel f chain it cnt = Some (chain', cnt') /\ Forall tinv chain' /\
      map tlog chain' = map tlog chain /\
      Permutation (allkeys chain') (V ++ filter (fun x => negb (f x)) (rem_it it)) /\
      cnt - cnt' = Z.of_nat (length (filter f (rem_it it))).
  Proof.
    induction fuel; intros f chain it cnt V HF HV HP HL; destruct it as [|gs bi p].
    - exists chain, cnt. simpl. rewrite app_nil_r in *. repeat split; auto. lia.
    - exfalso. destruct HV as ((pre & EC) & NE & HB). destruct gs as [|t rest]; [congruence|].
      assert (VI : valid_it (IAt (t :: rest) bi p)).
      { split; auto. rewrite EC in HF. apply Forall_app in HF. destruct HF as (_ & HF2).
        eapply Forall_impl; [|apply HF2]. apply tinv_lenok. }
      destruct (it_step _ _ _ VI) as (E & _). rewrite E in HL. simpl in HL. lia.
    - exists chain, cnt. simpl. rewrite app_nil_r in *. repeat split; auto. lia.
    - destruct HV as ((pre & EC) & NE & HB). destruct gs as [|t rest]; [congruence|]. simpl hd in HB.
      assert (HFs : Forall tinv (t :: rest)) by (rewrite EC in HF; apply Forall_app in HF; tauto).
      assert (HLs : Forall lenok (t :: rest)) by (eapply Forall_impl; [|apply HFs]; apply tinv_lenok).
      assert (VI : valid_it (IAt (t :: rest) bi p)) by (split; auto).
      destruct (it_step _ _ _ VI) as (E & VN). rewrite E in *. simpl in HL.
      assert (SN : forall gs2, match pv_inc gs2 bi p with IEnd => True | IAt g2 b2 p2 => sfx g2 gs2 end).
      { intros gs2. destruct p; simpl.
        - destruct (pv_move gs2 bi) eqn:EM; auto. eapply pv_move_sfx; eauto.
        - exists []; auto. }
      set (x := it_deref (IAt (t :: rest) bi p)) in *.
      change (remif (S fuel) f chain (IAt (t :: rest) bi p) cnt) with
        (if f x then
           match find_buckets chain (Z.of_nat bi) (length chain - length (t :: rest)) p with
           | None => None
           | Some g' => remif fuel f (upd_gen chain g' (fun t0 => tremove t0 (Z.of_nat bi) p))
                          (pv_inc (skipn g' (upd_gen chain g' (fun t0 => tremove t0 (Z.of_nat bi) p))) bi p) (cnt - 1)
           end
         else remif fuel f chain (pv_inc (t :: rest) bi p) cnt).
      destruct (f x) eqn:FX.
      + (* the item is removed *)
        assert (G : (length chain - length (t :: rest))%nat = length pre) by (rewrite EC, app_length; lia).
        rewrite G.
        assert (N : nth_error chain (length pre) = Some t) by (rewrite EC, nth_error_app2, Nat.sub_diag by lia; auto).
        assert (Ht : tinv t) by (inversion HFs; auto). assert (HFr : Forall tinv rest) by (inversion HFs; auto).
        unfold bcnt in HB.
        assert (RB : (bi < length (tbs t))%nat).
        { destruct (Nat.lt_ge_cases bi (length (tbs t))); auto. rewrite nth_overflow in HB by lia. simpl in HB. lia. }
        assert (GB : getb t (Z.of_nat bi) = nth bi (tbs t) emptyB) by (unfold getb; rewrite Nat2Z.id; auto).
        assert (HBc : Z.of_nat bi < bcount t).
        { destruct Ht as (H0 & HLn & _). rewrite HLn in RB. pose proof (bcount_pos t H0). lia. }
        rewrite (find_buckets_at chain (length pre) t (Z.of_nat bi) p N HBc) by (rewrite GB; auto).
        assert (NX : nth_error (items (getb t (Z.of_nat bi))) p = Some x).
        { rewrite GB. unfold x. simpl. apply nth_error_of_lt. auto. }
        destruct (tremove_spec t (Z.of_nat bi) p x Ht NX) as (T1 & P1 & L1).
        set (t' := tremove t (Z.of_nat bi) p) in *.
        assert (EU : upd_gen chain (length pre) (fun t0 => tremove t0 (Z.of_nat bi) p) = pre ++ t' :: rest).
        { unfold upd_gen. rewrite N. destruct (upd_nth_split _ (length pre) t' chain t N) as (l1 & l2 & E1 & E2 & E3).
          change (tremove t (Z.of_nat bi) p) with t'. rewrite E2. rewrite EC in E1.
          destruct (app_eq_len _ pre l1 (t :: rest) (t :: l2) (eq_sym E3) E1) as (Q1 & Q2). inversion Q2; subst l1 l2. auto. }
        rewrite EU. rewrite skipn_app, skipn_all, Nat.sub_diag. simpl app. simpl skipn.
        assert (HF' : Forall tinv (pre ++ t' :: rest)).
        { rewrite EC in HF. apply Forall_app in HF. destruct HF as (HFp & _). apply Forall_app. split; auto. }
        assert (HLs' : Forall lenok (t' :: rest)).
        { constructor; [apply tinv_lenok; auto|]. inversion HLs; auto. }
        assert (IT' : getb t' (Z.of_nat bi) = mkB (bremove p (items (getb t (Z.of_nat bi)))) (wasFull (getb t (Z.of_nat bi))) (bound (getb t (Z.of_nat bi)))).
        { unfold t', tremove. apply getb_setb_same. rewrite Nat2Z.id. auto. }
        assert (GB' : nth bi (tbs t') emptyB = getb t' (Z.of_nat bi)) by (unfold getb; rewrite Nat2Z.id; auto).
        assert (RBE : rem_b t' bi = rem_b t bi).
        { unfold rem_b, t', tremove, setb. cbn [tbs]. rewrite Nat2Z.id. rewrite skipn_upd_nth. auto. }
        destruct (bremove_spec _ _ _ NX) as (_ & _ & LEN).
        assert (REM : rem_it (pv_inc (t' :: rest) bi p) = rem_it (pv_inc (t :: rest) bi p) /\
                      match pv_inc (t' :: rest) bi p with IEnd => True | IAt g2 b2 p2 => g2 <> [] /\ (p2 < bcnt (hd (mkT 0 []) g2) b2)%nat end).
        { destruct p as [|p'].
          - change (pv_inc (t' :: rest) bi 0) with (pv_move (t' :: rest) bi).
            change (pv_inc (t :: rest) bi 0) with (pv_move (t :: rest) bi).
            destruct (pv_move_spec (t' :: rest) HLs' bi t' rest eq_refl) as (V1 & R1).
            destruct (pv_move_spec (t :: rest) HLs bi t rest eq_refl) as (V2 & R2).
            rewrite R1, R2, RBE. split; auto.
            destruct (pv_move (t' :: rest) bi) as [|g2 b2 p2]; auto. destruct V1 as (_ & V1). destruct g2; [tauto|]. split; [discriminate|auto].
          - change (pv_inc (t' :: rest) bi (S p')) with (IAt (t' :: rest) bi p').
            change (pv_inc (t :: rest) bi (S p')) with (IAt (t :: rest) bi p').
            repeat rewrite rem_it_at. rewrite RBE, GB', IT'. simpl items. rewrite <- GB.
            rewrite (bremove_firstn _ (S p')) by (rewrite GB; auto). split; auto.
            split; [discriminate|]. simpl hd. unfold bcnt. rewrite GB', IT'. simpl items. rewrite <- GB in HB. lia. }
        destruct REM as (RE & VN').
        assert (PA : Permutation (allkeys chain) (x :: allkeys (pre ++ t' :: rest))).
        { rewrite <- EU. unfold upd_gen. rewrite N. apply (allkeys_upd chain (length pre) t t' x N P1). }
        destruct (IHfuel f (pre ++ t' :: rest) (pv_inc (t' :: rest) bi p) (cnt - 1) V HF') as (ch & c' & R & F2 & M2 & P2 & C2).
        * destruct (pv_inc (t' :: rest) bi p) as [|g2 b2 p2] eqn:EI; auto. destruct VN' as (A1 & A2). split; [|split; auto].
          pose proof (SN (t' :: rest)) as S1. rewrite EI in S1. destruct S1 as (pr2 & E2). exists (pre ++ pr2). rewrite E2, app_assoc. auto.
        * rewrite RE. apply (Permutation_count_occ Z.eq_dec); intro y. count_hyp HP y. count_hyp PA y.
          simpl in *. repeat rewrite count_occ_app in *. simpl in *. destruct (Z.eq_dec x y); lia.
        * rewrite RE. lia.
        * exists ch, c'. split; auto. split; auto. split.
          { rewrite M2. rewrite EC. repeat rewrite map_app. simpl. try rewrite L1. auto. }
          rewrite RE in *. simpl filter. rewrite FX. simpl. split; auto. simpl length. lia.
      + (* the item stays *)
        destruct (IHfuel f chain (pv_inc (t :: rest) bi p) cnt (V ++ [x]) HF) as (ch & c' & R & F2 & M2 & P2 & C2).
        * destruct (pv_inc (t :: rest) bi p) as [|g2 b2 p2] eqn:EI; auto.
          pose proof (SN (t :: rest)) as S1. rewrite EI in S1. destruct S1 as (pr2 & E2).
          split; [exists (pre ++ pr2); rewrite EC, E2, app_assoc; auto|].
          destruct VN as (_ & VN). destruct g2; [tauto|]. split; [discriminate|auto].
        * rewrite <- app_assoc. auto.
        * lia.
        * exists ch, c'. split; auto. split; auto. split; auto. simpl filter. rewrite FX. simpl.
          rewrite <- app_assoc in P2. split; auto.
  Qed.

  (* Remove(filter) in ANY state satisfying Inv: exactly the items satisfying the filter disappear, whatever generation
     they are in; invariant, chain and table sizes are kept; the result is the number removed *)
  Theorem hremove_if_spec : forall s f, Inv s ->
    exists s', hremove_if s f = Some (s', RNum (Z.of_nat (length (filter f (abs s))))) /\ Inv s' /\
      Permutation (abs s') (filter (fun x => negb (f x)) (abs s)) /\
      map tlog (gens s') = map tlog (gens s) /\ capacity s' = capacity s.
  Proof.
    intros s f HI. pose proof HI as (HF & HD & HC & HN).
    assert (HLk : Forall lenok (gens s)) by (eapply Forall_impl; [|apply HF]; apply tinv_lenok).
    destruct (it_begin_spec s HLk) as (VB & RB). destruct (traverse_spec s HI) as (PT & NDT).
    pose proof (Permutation_length PT) as LT.
    assert (HV : match it_begin s with IEnd => True | IAt gs bi p => sfx gs (gens s) /\ gs <> [] /\ (p < bcnt (hd (mkT 0 []) gs) bi)%nat end).
    { unfold it_begin in *. destruct (count s =? 0); auto. destruct (gens s) as [|t rest] eqn:EG; auto.
      destruct (bcnt t 0) eqn:EB.
      - destruct (pv_move (t :: rest) 0) as [|g2 b2 p2] eqn:EM; auto. split; [eapply pv_move_sfx; eauto|].
        destruct VB as (_ & VB). destruct g2; [tauto|]. split; [discriminate|auto].
      - split; [exists []; auto|]. split; [discriminate|]. simpl. lia. }
    destruct (remif_spec (Z.to_nat (count s)) f (gens s) (it_begin s) (count s) [] HF HV) as (ch & c' & R & F2 & M2 & P2 & C2).
    { rewrite RB. simpl. unfold traverse in *. destruct (count s =? 0) eqn:EZ.
      - apply Z.eqb_eq in EZ. rewrite HC in EZ. destruct (abs s) eqn:EA; simpl in *; [unfold abs in EA; rewrite EA; auto|lia].
      - apply Permutation_sym; auto. }
    { rewrite RB, LT, HC, Nat2Z.id. lia. }
    rewrite RB in *. simpl app in P2.
    assert (PF : Permutation (allkeys ch) (filter (fun x => negb (f x)) (abs s))).
    { eapply Permutation_trans; [apply P2|]. apply filter_perm; auto. }
    assert (LF : length (filter f (traverse s)) = length (filter f (abs s))) by (apply Permutation_length, filter_perm; auto).
    unfold hremove_if. rewrite R. exists (mkH ch c' (capacity s)).
    assert (CE : count s - c' = Z.of_nat (length (filter f (abs s)))) by (rewrite <- LF; auto).
    rewrite CE. split; auto. split; [|simpl; auto].
    unfold Inv, abs; simpl. split; auto. split; [|split].
    - eapply Permutation_NoDup; [apply Permutation_sym, PF|]. apply NoDup_filter. auto.
    - apply Permutation_length in PF. rewrite PF. pose proof (filter_split_length f (abs s)). lia.
    - intros HT. specialize (HN HT). apply (f_equal (@length Z)) in M2. repeat rewrite map_length in M2. lia.
  Qed.

  Lemma hfind_none_notin : forall s k, Inv s -> hfind s k = None -> ~ In k (abs s).
  Proof. intros s k HI H Hin. destruct (hfind_complete s k HI Hin). congruence. Qed.

  Lemma tinv_clearT : forall t, tinv t -> tinv (clearT t) /\ tkeys (clearT t) = [].
  Proof.
    intros t (H0 & HL & _). split.
    - split; [exact H0|]. split.
      + unfold clearT, bcount; simpl. rewrite map_length. exact HL.
      + intros i b Hi. simpl in Hi. apply nth_error_In in Hi. apply in_map_iff in Hi. destruct Hi as (x & E & _). subst b. split.
        * unfold isFull, blen; simpl. intros HH. apply Z.leb_le in HH. lia.
        * simpl. tauto.
    - unfold tkeys, clearT; simpl. clear HL. induction (tbs t); simpl; auto.
  Qed.

  (* Clear in any state (e.g. an interrupted migration): the newest table is kept empty (or everything is released) *)
  Lemma hclear_spec : forall s shrink, Inv s -> Inv (hclear s shrink) /\ abs (hclear s shrink) = [].
  Proof.
    intros s shrink HI. pose proof HI as (HF & HD & HC & HN). unfold hclear.
    destruct (gens s) as [|t r] eqn:EG.
    - split; auto. unfold abs. rewrite EG. auto.
    - destruct shrink.
      + split; [apply Inv_init|reflexivity].
      + inversion HF; subst. destruct (tinv_clearT t H1) as (T1 & K1).
        unfold Inv, abs; simpl. rewrite K1. simpl. repeat split; auto; try constructor; auto.
  Qed.

  Theorem step_refines : forall s o s' r, Inv s -> step s o = Some (s', r) ->
    Inv s' /\ out_ok (abs s) o r /\ abs_after (abs s) o r (abs s').
  Proof.
    intros s o s' r HI H. destruct o; simpl in H.
    - destruct hfail; [inversion H; subst; simpl; auto|].
      destruct (hfind s k) as [[[g idx] pos]|] eqn:EF.
      + inversion H; subst. destruct (hfind_sound _ _ _ _ _ EF) as (_ & _ & _ & Hin). simpl; auto.
      + pose proof (hfind_none_notin _ _ HI EF) as NI.
        destruct (hadd_spec _ _ _ _ _ _ _ HI NI H) as [(A1 & A2 & A3)|(A1 & A2)].
        * subst r. simpl. split; [exact A2|]. split; [|exact A3]. split; [exact NI|]. split; [reflexivity|].
          unfold hadd in H. destruct afail; auto. exfalso.
          unfold add_head in H.
          destruct (count s <? capacity s); [destruct (gens s); [discriminate|]|
            destruct (grow_log (Z.to_nat (count s) + 2) (newLog (gens s)) (count s)); [destruct refuse; [destruct (gens s); [discriminate|]|]|discriminate]];
          match type of H with context [tadd ?t ?k] => destruct (tadd t k); discriminate end.
        * subst s'. split; auto. destruct A2 as [A2|[A2|A2]]; subst r; simpl; auto.
    - inversion H; subst. split; auto. simpl. destruct (hfind s' k) as [[[g idx] pos]|] eqn:EF.
      + destruct (hfind_sound _ _ _ _ _ EF) as (_ & _ & _ & Hin). auto.
      + pose proof (hfind_none_notin _ _ HI EF). auto.
    - destruct (hfind s k) as [[[g idx] pos]|] eqn:EF.
      + rewrite (find_buckets_spec _ _ _ _ _ HI EF) in H.
        inversion H; subst. destruct (remove_spec _ _ _ _ _ HI EF) as (A1 & A2 & A3 & _).
        destruct (hfind_sound _ _ _ _ _ EF) as (_ & _ & _ & Hin). simpl; auto.
      + inversion H; subst. pose proof (hfind_none_notin _ _ HI EF). simpl; auto.
    - destruct (hreserve_spec _ _ _ _ _ _ HI H) as (A1 & A2 & A3). split; auto. simpl. split; auto.
      destruct A3 as [A3|(_ & [A3|A3])]; auto.
    - inversion H; subst. destruct (traverse_spec _ HI). split; auto. simpl. split; auto.
      rewrite (traverse_it_eq _ HI). eauto.
    - inversion H; subst. split; auto. simpl. destruct HI as (_ & _ & HC & _). rewrite HC. auto.
    - inversion H; subst. destruct (hclear_spec _ shrink HI) as (A1 & A2). split; auto. simpl. auto.
    - destruct (hremove_if_spec s (fun k => k mod m =? r0) HI) as (s1 & E & I1 & P1 & N1 & _).
      rewrite H in E. inversion E; subst. split; auto. simpl. split; auto.
  Qed.

  (* relocate_interrupted_inv for every history and every schedule *)
  Theorem run_inv : forall os s s' outs, Inv s -> run s os = Some (s', outs) -> Inv s'.
  Proof.
    induction os as [|o os IH]; intros s s' outs HI H; simpl in H.
    - inversion H; subst; auto.
    - destruct (step s o) as [[s1 x]|] eqn:ES; [|discriminate].
      destruct (run s1 os) as [[s2 xs]|] eqn:ER; [|discriminate]. inversion H; subst.
      destruct (step_refines _ _ _ _ HI ES) as (I1 & _). eauto.
  Qed.

  (* the whole history refines the abstract set: results are those of a set, whatever failed *)
  Fixpoint refines (A : list Z) (os : list op) (outs : list out) (A' : list Z) : Prop :=
    match os, outs with
    | [], [] => Permutation A A'
    | o :: os', r :: outs' => out_ok A o r /\ exists A1, abs_after A o r A1 /\ NoDup A1 /\ refines A1 os' outs' A'
    | _, _ => False
    end.

  Theorem run_refines : forall os s s' outs, Inv s -> run s os = Some (s', outs) -> refines (abs s) os outs (abs s').
  Proof.
    induction os as [|o os IH]; intros s s' outs HI H; simpl in H.
    - inversion H; subst; simpl; auto.
    - destruct (step s o) as [[s1 x]|] eqn:ES; [|discriminate].
      destruct (run s1 os) as [[s2 xs]|] eqn:ER; [|discriminate]. inversion H; subst.
      destruct (step_refines _ _ _ _ HI ES) as (I1 & O1 & A1). simpl. split; auto.
      exists (abs s1). split; auto. split; [apply I1|]. eauto.
  Qed.

  (* ---- grow_refused_insert_succeeds_unless_path_full ---- *)
  Lemma add_loop_bound : forall t n p idx i q, add_loop n t p idx = Some (i, q) -> (q <= p + n)%nat.
  Proof.
    induction n; intros p idx i q H; simpl in H; destruct (isFull (getb t idx)); try discriminate;
      try (inversion H; subst; lia).
    apply IHn in H. lia.
  Qed.

  Lemma tadd_some_iff : forall t k, tinv t ->
    ((exists d, Z.of_nat d < bcount t /\ isFull (getb t (path (bcount t) (h k) d)) = false) -> exists t', tadd t k = Some t') /\
    ((forall d, Z.of_nat d < bcount t -> isFull (getb t (path (bcount t) (h k) d)) = true) -> tadd t k = None).
  Proof.
    intros t k Ht. pose proof (bcount_pos t (proj1 Ht)) as BP. unfold tadd.
    change (start (h k) (bcount t)) with (path (bcount t) (h k) 0).
    destruct (add_loop (Z.to_nat (bcount t - 1)) t 0 (path (bcount t) (h k) 0)) as [[idx q]|] eqn:EL; split; eauto.
    - intros HA. destruct (add_loop_spec _ _ _ _ _ _ EL) as (E & _ & NF & _).
      apply add_loop_bound in EL. rewrite E in NF. rewrite HA in NF; [discriminate|lia].
    - intros (d & Hd & NF). rewrite (add_loop_none _ _ _ _ EL d) in NF; [discriminate|lia].
  Qed.

  (* capacities grow with the table size: CalcCapacity(bucketCount) >= (bucketCount - 1) / 2 *)
  Hypothesis cc_lower : forall L, 0 <= L -> 2 ^ L <= 2 * calcCapacity (2 ^ L) + 1.

  Lemma grow_log_some : forall fuel nl c, c < calcCapacity (2 ^ (nl + Z.of_nat fuel)) -> exists r, grow_log fuel nl c = Some r.
  Proof.
    induction fuel; intros nl c H; simpl; destruct (Z.ltb_spec c (calcCapacity (2 ^ nl))); eauto.
    - simpl in H. rewrite Z.add_0_r in H. lia.
    - apply IHfuel. replace (nl + 1 + Z.of_nat fuel) with (nl + Z.of_nat (S fuel)) by lia. auto.
  Qed.

  (* the loop of pvAddGrow always finds a table size (so RCheck is unreachable) *)
  Lemma grow_log_total : forall nl0 c, 0 <= nl0 -> 0 <= c -> exists nl, grow_log (Z.to_nat c + 2) nl0 c = Some nl.
  Proof.
    intros nl0 c H0 Hc. apply grow_log_some.
    set (L := nl0 + Z.of_nat (Z.to_nat c + 2)).
    assert (HL : c + 2 <= L) by (unfold L; lia).
    pose proof (cc_lower L ltac:(lia)) as CL.
    assert (2 ^ (c + 2) <= 2 ^ L) by (apply Z.pow_le_mono_r; lia).
    assert (c < 2 ^ c) by (apply Z.pow_gt_lin_r; lia).
    rewrite Z.pow_add_r in H by lia. change (2 ^ 2) with 4 in H. lia.
  Qed.

  Lemma hfind_notin_none : forall s k, ~ In k (abs s) -> hfind s k = None.
  Proof.
    intros s k H. destruct (hfind s k) as [[[g idx] pos]|] eqn:E; auto.
    destruct (hfind_sound _ _ _ _ _ E) as (_ & _ & _ & Hin). tauto.
  Qed.

  Theorem refused_growth_insert : forall s t r k sch, Inv s -> gens s = t :: r -> ~ In k (abs s) ->
    (count s <? capacity s) = false ->
    ((exists d, Z.of_nat d < bcount t /\ isFull (getb t (path (bcount t) (h k) d)) = false) ->
       exists s', step s (OInsert k false false true sch) = Some (s', RInserted) /\ Inv s' /\
                  Permutation (abs s') (k :: abs s) /\ capacity s' = capacity s /\ (length (gens s') <= length (gens s))%nat) /\
    ((forall d, Z.of_nat d < bcount t -> isFull (getb t (path (bcount t) (h k) d)) = true) ->
       step s (OInsert k false false true sch) = Some (s, RFull)).
  Proof.
    intros s t r k sch HI EG NI C1.
    assert (GL : exists nl, grow_log (Z.to_nat (count s) + 2) (newLog (gens s)) (count s) = Some nl).
    { apply grow_log_total; [apply newLog_nonneg; apply HI|]. destruct HI as (_ & _ & HC & _). rewrite HC. lia. }
    destruct GL as (nl & GL).
    assert (ST : step s (OInsert k false false true sch) = add_head s t r k false (capacity s) sch).
    { simpl. rewrite (hfind_notin_none _ _ NI). unfold hadd. rewrite C1, GL, EG. auto. }
    rewrite ST. destruct HI as (HF & HD & HC & HN). rewrite EG in HF. inversion HF; subst.
    destruct (tadd_some_iff t k H1) as (TA & TB). split.
    - intros HE. destruct (TA HE) as (t' & ET). unfold add_head. rewrite ET.
      destruct (tadd_spec _ _ _ H1 ET) as (T1 & P1 & L1).
      assert (HF' : Forall tinv (t' :: r)) by (constructor; auto).
      assert (HN' : nothrowReloc = true -> (length (t' :: r) <= 1)%nat).
      { intros HT. specialize (HN HT). rewrite EG in HN. auto. }
      destruct (relocate (t' :: r) sch) as [gs|] eqn:ER; [|exfalso; eapply relocate_not_none; eauto].
      eexists. split; [reflexivity|].
      assert (AH : add_head s t r k false (capacity s) sch = Some (mkH gs (count s + 1) (capacity s), RInserted)).
      { unfold add_head. rewrite ET, ER. auto. }
      assert (ND : NoDup (k :: allkeys (t :: r))) by (constructor; unfold abs in *; rewrite EG in *; auto).
      assert (HC' : count s = Z.of_nat (length (allkeys (t :: r)))) by (unfold abs in HC; rewrite EG in HC; auto).
      assert (HN2 : nothrowReloc = true -> (length r <= 1)%nat) by (intros HT; specialize (HN' HT); simpl in HN'; lia).
      destruct (add_head_spec _ _ _ _ _ _ _ _ _ HF ND HC' HN2 AH) as [(A1 & A2 & A3 & A4 & A5 & A6 & A7 & A8)|(A1 & [A2|A2])]; try discriminate.
      unfold Inv. unfold abs in *. rewrite EG. simpl in *. repeat split; auto.
    - intros HA. unfold add_head. rewrite (TB HA). auto.
  Qed.

  (* ---- later_ops_complete_migration ---- *)
  Hypothesis path_covers : forall L hc i, 0 <= L -> 0 <= i < 2 ^ L -> exists d, Z.of_nat d < 2 ^ L /\ path (2 ^ L) hc d = i.
  Hypothesis cc_le_phys : forall L, 0 <= L -> calcCapacity (2 ^ L) <= cap * 2 ^ L.

  Lemma relocate_head : forall nw olds sch gs', Forall tinv (nw :: olds) -> relocate (nw :: olds) sch = Some gs' ->
    exists nw' olds', gs' = nw' :: olds' /\ tlog nw' = tlog nw.
  Proof.
    intros nw olds sch gs' HF H. unfold relocate in H. destruct olds as [|g olds].
    - inversion H; subst; eauto.
    - inversion HF; subst.
      destruct (reloc_gens (g :: olds) nw sch) as [[[olds' nw'] sch'] st] eqn:E.
      destruct (reloc_gens_spec _ _ _ _ _ _ _ H3 H2 E) as (_ & _ & L1 & _).
      destruct st; inversion H; subst; eauto.
  Qed.

  Lemma full_count : forall (l : list bucket), (forall b, In b l -> isFull b = true) ->
    cap * Z.of_nat (length l) <= Z.of_nat (length (flat_map items l)).
  Proof.
    induction l; intros H; simpl; [lia|].
    assert (isFull a = true) by (apply H; simpl; auto). unfold isFull, blen in H0. apply Z.leb_le in H0.
    assert (cap * Z.of_nat (length l) <= Z.of_nat (length (flat_map items l))) by (apply IHl; intros; apply H; simpl; auto).
    rewrite app_length. rewrite Nat2Z.inj_add. rewrite Zpos_P_of_succ_nat. lia.
  Qed.

  Lemma tadd_succeeds : forall t k, tinv t -> Z.of_nat (length (tkeys t)) < cap * bcount t -> exists t', tadd t k = Some t'.
  Proof.
    intros t k Ht HL. destruct (tadd t k) as [t'|] eqn:E; [eauto|exfalso].
    pose proof (bcount_pos t (proj1 Ht)) as BP.
    unfold tadd in E. change (start (h k) (bcount t)) with (path (bcount t) (h k) 0) in E.
    destruct (add_loop (Z.to_nat (bcount t - 1)) t 0 (path (bcount t) (h k) 0)) as [[idx q]|] eqn:EL; [discriminate|].
    assert (AF : forall b, In b (tbs t) -> isFull b = true).
    { intros b Hb. apply In_nth_error in Hb. destruct Hb as [i Hi].
      pose proof (nth_error_some_lt _ _ _ _ Hi) as Li. destruct Ht as (H0 & HLn & _). rewrite HLn in Li.
      destruct (path_covers (tlog t) (h k) (Z.of_nat i) H0 ltac:(unfold bcount in *; lia)) as (d & Hd & Ed). fold (bcount t) in Hd, Ed.
      pose proof (add_loop_none _ _ _ _ EL d ltac:(lia)) as FD. rewrite Ed in FD.
      unfold getb in FD. rewrite Nat2Z.id in FD. rewrite (nth_error_nth' _ _ _ emptyB _ Hi) in FD. auto. }
    pose proof (full_count _ AF). destruct Ht as (H0 & HLn & _). rewrite HLn in H. unfold tkeys in HL.
    rewrite Z2Nat.id in H by lia. lia.
  Qed.

  Lemma reloc_items_ok : forall its nw, tinv nw ->
    Z.of_nat (length its + length (tkeys nw)) <= cap * bcount nw ->
    exists nw', reloc_items its nw [] = ([], nw', [], MOk).
  Proof.
    induction its as [|k rest IH]; intros nw Ht HL; simpl; [eauto|].
    destruct (tadd_succeeds nw k Ht) as (nw1 & E). { simpl in HL. lia. }
    rewrite E. destruct (tadd_spec _ _ _ Ht E) as (T1 & P1 & L1).
    apply IH; auto. apply Permutation_length in P1. unfold bcount in *. rewrite L1. rewrite P1. simpl in *. lia.
  Qed.

  Lemma reloc_buckets_ok : forall bs nw, tinv nw ->
    Z.of_nat (length (flat_map items bs) + length (tkeys nw)) <= cap * bcount nw ->
    exists bs' nw', reloc_buckets bs nw [] = (bs', nw', [], MOk).
  Proof.
    induction bs as [|b rest IH]; intros nw Ht HL; simpl; [eauto|].
    simpl in HL. rewrite app_length in HL.
    destruct (reloc_items_ok (rev (items b)) nw Ht) as (nw1 & E). { rewrite rev_length. lia. }
    rewrite E. destruct (reloc_items_spec _ _ _ _ _ _ _ Ht E) as (T1 & L1 & (dn & E1 & P1) & _).
    rewrite app_nil_r in E1. subst dn. apply Permutation_length in P1. rewrite app_length, rev_length in P1.
    destruct (IH nw1 T1) as (bs' & nw' & E2). { unfold bcount in *. rewrite L1. lia. }
    rewrite E2. eauto.
  Qed.

  Lemma reloc_gens_ok : forall olds nw, Forall tinv olds -> tinv nw ->
    Z.of_nat (length (allkeys olds) + length (tkeys nw)) <= cap * bcount nw ->
    exists nw', reloc_gens olds nw [] = ([], nw', [], MOk).
  Proof.
    induction olds as [|g older IH]; intros nw HF Ht HL; simpl; [eauto|].
    inversion HF; subst. simpl in HL. rewrite app_length in HL.
    destruct (IH nw H2 Ht) as (nw1 & E). { lia. }
    rewrite E. destruct (reloc_gens_spec _ _ _ _ _ _ _ H2 Ht E) as (_ & T1 & L1 & P1 & _).
    apply Permutation_length in P1. simpl in P1. rewrite app_length in P1.
    destruct (reloc_buckets_ok (tbs g) nw1 T1) as (bs' & nw2 & E2). { unfold bcount in *. rewrite L1. unfold tkeys in HL at 1. lia. }
    rewrite E2. eauto.
  Qed.

  (* ---- "Hash table is full" under refused growth = literally every slot of the table is taken ---- *)
  Lemma forallb_false_ex : forall A (f : A -> bool) l, forallb f l = false -> exists x, In x l /\ f x = false.
  Proof.
    induction l; simpl; intros H; [discriminate|]. destruct (f a) eqn:E; simpl in H.
    - destruct (IHl H) as (x & I & F). eauto.
    - eauto.
  Qed.

  Theorem insert_fails_only_if_every_slot_taken : forall s t r k sch, Inv s -> gens s = t :: r -> ~ In k (abs s) ->
    (count s <? capacity s) = false ->
    ((exists b, In b (tbs t) /\ isFull b = false) ->
       exists s', step s (OInsert k false false true sch) = Some (s', RInserted) /\ Inv s' /\
                  Permutation (abs s') (k :: abs s) /\ capacity s' = capacity s /\ (length (gens s') <= length (gens s))%nat) /\
    (step s (OInsert k false false true sch) = Some (s, RFull) ->
       (forall b, In b (tbs t) -> isFull b = true) /\ cap * bcount t <= Z.of_nat (length (tkeys t))) /\
    ((forall b, In b (tbs t) -> isFull b = true) -> step s (OInsert k false false true sch) = Some (s, RFull)).
  Proof.
    intros s t r k sch HI EG NI C1.
    destruct (refused_growth_insert s t r k sch HI EG NI C1) as (RA & RB).
    assert (Ht : tinv t). { destruct HI as (HF & _). rewrite EG in HF. inversion HF; auto. }
    pose proof Ht as (H0 & HL & _). pose proof (bcount_pos t H0) as BP.
    assert (EX : (exists b, In b (tbs t) /\ isFull b = false) ->
                 exists d, Z.of_nat d < bcount t /\ isFull (getb t (path (bcount t) (h k) d)) = false).
    { intros (b & Hb & NF). apply In_nth_error in Hb. destruct Hb as [i Hi].
      pose proof (nth_error_some_lt _ _ _ _ Hi) as Li. rewrite HL in Li.
      destruct (path_covers (tlog t) (h k) (Z.of_nat i) H0 ltac:(unfold bcount in *; lia)) as (d & Hd & Ed).
      fold (bcount t) in Hd, Ed. exists d. split; auto. rewrite Ed. unfold getb. rewrite Nat2Z.id.
      rewrite (nth_error_nth' _ _ _ emptyB _ Hi). auto. }
    assert (ALL : (forall b, In b (tbs t) -> isFull b = true) ->
                  forall d, Z.of_nat d < bcount t -> isFull (getb t (path (bcount t) (h k) d)) = true).
    { intros HA d Hd. apply HA. unfold getb. apply nth_In. apply path_in_range; auto. }
    split; [intros HE; apply RA; auto|]. split; [|intros HA; apply RB; auto].
    intros HS. assert (AF : forall b, In b (tbs t) -> isFull b = true).
    { destruct (forallb isFull (tbs t)) eqn:E; [apply forallb_forall; auto|].
      destruct (RA (EX (forallb_false_ex _ _ _ E))) as (s' & HS' & _). rewrite HS in HS'. discriminate. }
    split; auto. pose proof (full_count _ AF). rewrite HL in H. rewrite Z2Nat.id in H by lia. auto.
  Qed.

  (* ---- Reserve in a multi-generation state ---- *)
  Lemma reserve_log_spec : forall fuel nl n r, reserve_log fuel nl n = Some r -> nl <= r /\ n <= calcCapacity (2 ^ r).
  Proof.
    induction fuel; intros nl n r H; simpl in H; destruct (Z.leb_spec n (calcCapacity (2 ^ nl))); try discriminate;
      try (inversion H; subst; split; [lia|auto]).
    apply IHfuel in H. split; [lia|tauto].
  Qed.

  (* a granted, failure-free Reserve(n) with n >= mCount, issued in ANY state satisfying Inv (e.g. several generations
     left by interrupted migrations): everything is migrated into the new table, ONE generation remains, the contents are
     the same, the capacity suffices.  (With a refused allocation or a failing migration: hreserve_spec / Inv kept.) *)
  Theorem reserve_completes_migration : forall s n nl, Inv s -> (n <=? capacity s) = false -> count s <= n ->
    reserve_log 64 (newLog (gens s)) n = Some nl ->
    exists s', hreserve s n false [] = Some (s', RUnit) /\ length (gens s') = 1%nat /\ Inv s' /\
               Permutation (abs s') (abs s) /\ n <= capacity s'.
  Proof.
    intros s n nl HI C1 C2 EL. pose proof HI as (HF & HD & HC & HN).
    destruct (reserve_log_spec _ _ _ _ EL) as (GE & GC).
    assert (NL : 0 <= nl) by (pose proof (newLog_nonneg _ HF); lia).
    pose proof (cc_le_phys nl NL) as PH. pose proof (tinv_newTable nl NL) as TN.
    assert (RG : exists nw', relocate (newTable nl :: gens s) [] = Some [nw']).
    { unfold abs in HC. destruct (gens s) as [|t r] eqn:EG; [simpl; eauto|].
      destruct (reloc_gens_ok (t :: r) (newTable nl) HF TN) as (nw' & E).
      { rewrite tkeys_newTable. change (bcount (newTable nl)) with (2 ^ nl). change (length (@nil Z)) with 0%nat. rewrite Nat.add_0_r. lia. }
      exists nw'. unfold relocate. rewrite E. auto. }
    destruct RG as (nw' & ER).
    assert (EH : hreserve s n false [] = Some (mkH [nw'] (count s) (calcCapacity (2 ^ nl)), RUnit)).
    { unfold hreserve. rewrite C1, EL, ER. auto. }
    eexists. split; [exact EH|]. destruct (hreserve_spec _ _ _ _ _ _ HI EH) as (A1 & A2 & _).
    split; [reflexivity|]. split; [exact A1|]. split; [exact A2|]. exact GC.
  Qed.

  (* P s: invariant + the capacity field does not exceed the physical size of the newest table *)
  Definition CapOk (s : hset) : Prop :=
    exists t r, gens s = t :: r /\ capacity s <= cap * bcount t.

  Definition fresh_insert (k : Z) : op := OInsert k false false false [].

  Lemma fresh_insert_step : forall s k, Inv s -> CapOk s -> ~ In k (abs s) ->
    exists s1, step s (fresh_insert k) = Some (s1, RInserted) /\ Inv s1 /\ CapOk s1 /\
      Permutation (abs s1) (k :: abs s) /\ count s1 = count s + 1 /\
      ((count s < capacity s /\ capacity s1 = capacity s /\ (length (gens s1) <= length (gens s))%nat) \/
       (capacity s <= count s /\ length (gens s1) = 1%nat /\ count s1 <= capacity s1)).
  Proof.
    intros s k HI (t & r & EG & HCap) NI.
    assert (ST : step s (fresh_insert k) = hadd s k false false []).
    { simpl. rewrite (hfind_notin_none _ _ NI). auto. }
    rewrite ST. pose proof HI as (HF & HD & HC & HN).
    unfold hadd. destruct (Z.ltb_spec (count s) (capacity s)).
    - (* room in the newest table *)
      rewrite EG. rewrite EG in HF. inversion HF; subst.
      assert (LK : Z.of_nat (length (tkeys t)) < cap * bcount t).
      { unfold abs in HC. rewrite EG in HC. simpl in HC. rewrite app_length in HC. lia. }
      destruct (tadd_succeeds t k H2 LK) as (t' & ET).
      destruct (tadd_spec _ _ _ H2 ET) as (T1 & P1 & L1).
      assert (HF' : Forall tinv (t' :: r)) by (constructor; auto).
      assert (HN' : nothrowReloc = true -> (length (t' :: r) <= 1)%nat).
      { intros HT. specialize (HN HT). rewrite EG in HN. auto. }
      destruct (relocate (t' :: r) []) as [gs|] eqn:ER; [|exfalso; eapply relocate_not_none; eauto].
      assert (AH : add_head s t r k false (capacity s) [] = Some (mkH gs (count s + 1) (capacity s), RInserted)).
      { unfold add_head. rewrite ET, ER. auto. }
      rewrite AH. eexists. split; [reflexivity|].
      assert (ND : NoDup (k :: allkeys (t :: r))) by (constructor; unfold abs in *; rewrite EG in *; auto).
      assert (HC' : count s = Z.of_nat (length (allkeys (t :: r)))) by (unfold abs in HC; rewrite EG in HC; auto).
      assert (HN2 : nothrowReloc = true -> (length r <= 1)%nat) by (intros HT; specialize (HN' HT); simpl in HN'; lia).
      destruct (add_head_spec _ _ _ _ _ _ _ _ _ HF ND HC' HN2 AH) as [(A1 & A2 & A3 & A4 & A5 & A6 & A7 & A8)|(A1 & [A2|A2])]; try discriminate.
      destruct (relocate_head _ _ _ _ HF' ER) as (nw' & olds' & EGS & LNW).
      split; [unfold Inv; auto|]. split.
      { exists nw', olds'. simpl. split; auto. unfold bcount in *. rewrite LNW, L1. auto. }
      split; [unfold abs in *; rewrite EG; auto|]. split; [reflexivity|].
      left. simpl in *. auto.
    - (* growth, allocation granted *)
      assert (GL : exists nl, grow_log (Z.to_nat (count s) + 2) (newLog (gens s)) (count s) = Some nl).
      { apply grow_log_total; [apply newLog_nonneg; auto|]. rewrite HC. lia. }
      destruct GL as (nl & GL). rewrite GL. destruct (grow_log_spec _ _ _ _ GL) as (GE & GC).
      assert (NL : 0 <= nl) by (pose proof (newLog_nonneg _ HF); lia).
      pose proof (cc_le_phys nl NL) as PH.
      pose proof (tinv_newTable nl NL) as TN.
      assert (BN : bcount (newTable nl) = 2 ^ nl) by reflexivity.
      destruct (tadd_succeeds (newTable nl) k TN) as (t' & ET).
      { rewrite tkeys_newTable. simpl. rewrite BN. pose proof (Z.pow_pos_nonneg 2 nl). nia. }
      destruct (tadd_spec _ _ _ TN ET) as (T1 & P1 & L1).
      rewrite tkeys_newTable in P1. apply Permutation_length in P1. simpl in P1.
      assert (RG : exists nw', relocate (t' :: gens s) [] = Some [nw']).
      { destruct (reloc_gens_ok (gens s) t' HF T1) as (nw' & E).
        { unfold abs in HC. unfold bcount. rewrite L1. simpl tlog. rewrite P1. lia. }
        exists nw'. unfold relocate. rewrite EG in *. rewrite E. auto. }
      destruct RG as (nw' & ER).
      assert (AH : add_head s (newTable nl) (gens s) k false (calcCapacity (2 ^ nl)) [] =
                   Some (mkH [nw'] (count s + 1) (calcCapacity (2 ^ nl)), RInserted)).
      { unfold add_head. rewrite ET, ER. auto. }
      rewrite AH. eexists. split; [reflexivity|].
      assert (HF' : Forall tinv (newTable nl :: gens s)) by (constructor; auto).
      assert (EK : allkeys (newTable nl :: gens s) = abs s) by (unfold abs; simpl; rewrite tkeys_newTable; auto).
      assert (ND' : NoDup (k :: allkeys (newTable nl :: gens s))) by (rewrite EK; constructor; auto).
      assert (HC' : count s = Z.of_nat (length (allkeys (newTable nl :: gens s)))) by (rewrite EK; auto).
      destruct (add_head_spec _ _ _ _ _ _ _ _ _ HF' ND' HC' HN AH) as [(A1 & A2 & A3 & A4 & A5 & A6 & A7 & A8)|(A1 & [A2|A2])]; try discriminate.
      assert (HFt : Forall tinv (t' :: gens s)) by (constructor; auto).
      destruct (relocate_head _ _ _ _ HFt ER) as (nw2 & olds2 & EGS & LNW). inversion EGS; subst nw2 olds2.
      split; [unfold Inv; auto|]. split.
      { exists nw', []. simpl. split; auto. unfold bcount. rewrite LNW, L1. simpl. auto. }
      split; [rewrite EK in A6; auto|]. split; [reflexivity|]. right. simpl. split; auto. split; auto. lia.
  Qed.

  Lemma run_cons : forall s o os, run s (o :: os) =
    match step s o with
    | None => None
    | Some (s1, x) => match run s1 os with None => None | Some (s2, xs) => Some (s2, x :: xs) end
    end.
  Proof. reflexivity. Qed.

  Theorem later_ops_complete_migration : forall ks s, Inv s -> CapOk s -> NoDup ks ->
    (forall k, In k ks -> ~ In k (abs s)) ->
    exists s' outs, run s (map fresh_insert ks) = Some (s', outs) /\
      Forall (fun o => o = RInserted) outs /\ Inv s' /\ CapOk s' /\
      ((Z.max 0 (capacity s - count s) < Z.of_nat (length ks) \/ length (gens s) = 1%nat) -> length (gens s') = 1%nat).
  Proof.
    induction ks as [|k ks IH]; intros s HI HC ND HFr.
    - exists s, []. simpl. split; auto. split; auto. split; auto. split; auto. intros [H|H]; auto. lia.
    - inversion ND; subst.
      destruct (fresh_insert_step s k HI HC (HFr k (or_introl eq_refl))) as (s1 & E & I1 & C1 & P1 & CN & D).
      assert (FR : forall k0, In k0 ks -> ~ In k0 (abs s1)).
      { intros k0 Hk0 Hin. apply (Permutation_in _ P1) in Hin. simpl in Hin. destruct Hin as [Hin|Hin].
        - subst k0. tauto.
        - eapply HFr; [right; eauto|auto]. }
      destruct (IH s1 I1 C1 H2 FR) as (s' & outs & R & F & I' & C' & G).
      exists s', (RInserted :: outs). simpl map. rewrite run_cons, E, R. split; auto. split; [constructor; auto|].
      split; auto. split; auto.
      intros HB. apply G.
      destruct C1 as (t1 & r1 & EG1 & _).
      destruct D as [(D1 & D2 & D3)|(D1 & D2 & _)]; [|auto].
      destruct HB as [HB|HB].
      + left. simpl length in HB. lia.
      + right. rewrite EG1 in *. simpl in *. lia.
  Qed.

  (* ---- CapOk is an invariant too (so later_ops_complete_migration applies to every reachable non-empty state) ---- *)
  Definition CapInv (s : hset) : Prop :=
    match gens s with [] => capacity s = 0 | t :: _ => capacity s <= cap * bcount t end.

  Lemma add_head_cap : forall s t r k afail ncap sch s', Forall tinv (t :: r) ->
    add_head s t r k afail ncap sch = Some (s', RInserted) ->
    exists t2 r2, gens s' = t2 :: r2 /\ tlog t2 = tlog t /\ capacity s' = ncap.
  Proof.
    intros s t r k afail ncap sch s' HF H. unfold add_head in H. inversion HF; subst.
    destruct (tadd t k) as [t'|] eqn:ET; [|discriminate]. destruct afail; [discriminate|].
    destruct (tadd_spec _ _ _ H2 ET) as (T1 & _ & L1).
    destruct (relocate (t' :: r) sch) as [gs|] eqn:ER; [|discriminate]. inversion H; subst; clear H.
    assert (HF' : Forall tinv (t' :: r)) by (constructor; auto).
    destruct (relocate_head _ _ _ _ HF' ER) as (nw' & olds' & E & L). simpl. exists nw', olds'. repeat split; auto. congruence.
  Qed.

  Lemma upd_nth_head : forall (g : nat) (x t : table) r, tlog x = tlog (nth g (t :: r) t) ->
    exists t2 r2, upd_nth g x (t :: r) = t2 :: r2 /\ tlog t2 = tlog t.
  Proof. intros. destruct g; simpl in *; eauto. Qed.

  Theorem capinv_step : forall s o s' r, Inv s -> CapInv s -> step s o = Some (s', r) -> CapInv s'.
  Proof.
    intros s o s' r HI HC H. pose proof HI as (HF & _). destruct o; simpl in H.
    - destruct hfail; [inversion H; subst; auto|].
      destruct (hfind s k) as [[[g idx] pos]|] eqn:EF; [inversion H; subst; auto|].
      pose proof (hfind_none_notin _ _ HI EF) as NI.
      destruct (hadd_spec _ _ _ _ _ _ _ HI NI H) as [(A1 & _)|(A1 & _)]; [subst r|subst s'; auto].
      unfold hadd in H. unfold CapInv in *.
      assert (GEN : forall t r0, gens s = t :: r0 -> add_head s t r0 k afail (capacity s) sch = Some (s', RInserted) ->
                match gens s' with [] => capacity s' = 0 | t0 :: _ => capacity s' <= cap * bcount t0 end).
      { intros t r0 EG HA. rewrite EG in HF, HC. destruct (add_head_cap _ _ _ _ _ _ _ _ HF HA) as (t2 & r2 & E & L & C).
        rewrite E, C. unfold bcount in *. rewrite L. auto. }
      destruct (count s <? capacity s).
      + destruct (gens s) as [|t r0] eqn:EG; [discriminate|]. eapply GEN; eauto.
      + destruct (grow_log (Z.to_nat (count s) + 2) (newLog (gens s)) (count s)) as [nl|] eqn:EGL; [|discriminate].
        destruct refuse.
        * destruct (gens s) as [|t r0] eqn:EG; [discriminate|]. eapply GEN; eauto.
        * assert (NL : 0 <= nl) by (pose proof (newLog_nonneg _ HF); pose proof (grow_log_spec _ _ _ _ EGL); lia).
          assert (HF' : Forall tinv (newTable nl :: gens s)) by (constructor; auto; apply tinv_newTable; auto).
          destruct (add_head_cap _ _ _ _ _ _ _ _ HF' H) as (t2 & r2 & E & L & C).
          rewrite E, C. unfold bcount. rewrite L. simpl. apply cc_le_phys; auto.
    - inversion H; subst; auto.
    - destruct (hfind s k) as [[[g idx] pos]|] eqn:EF; [|inversion H; subst; auto].
      rewrite (find_buckets_spec _ _ _ _ _ HI EF) in H.
      inversion H; subst; clear H. unfold CapInv in *. simpl.
      destruct (hfind_sound _ _ _ _ _ EF) as (tg & N & _). unfold upd_gen. rewrite N.
      destruct (gens s) as [|t r0] eqn:EG; [destruct g; discriminate|].
      destruct (upd_nth_head g (tremove tg idx pos) t r0) as (t2 & r2 & E & L).
      { rewrite (nth_error_nth' _ _ _ t _ N). reflexivity. }
      rewrite E. unfold bcount in *. rewrite L. auto.
    - unfold hreserve in H. destruct (n <=? capacity s); [inversion H; subst; auto|].
      destruct (reserve_log 64 (newLog (gens s)) n) as [nl|] eqn:EL; [|inversion H; subst; auto].
      destruct refuse; [inversion H; subst; auto|].
      destruct (relocate (newTable nl :: gens s) sch) as [gs|] eqn:ER; [|discriminate]. inversion H; subst; clear H.
      assert (NL : 0 <= nl) by (pose proof (newLog_nonneg _ HF); pose proof (reserve_log_ge _ _ _ _ EL); lia).
      assert (HF' : Forall tinv (newTable nl :: gens s)) by (constructor; auto; apply tinv_newTable; auto).
      destruct (relocate_head _ _ _ _ HF' ER) as (nw' & olds' & E & L). unfold CapInv. simpl. rewrite E.
      unfold bcount. rewrite L. simpl. apply cc_le_phys; auto.
    - inversion H; subst; auto.
    - inversion H; subst; auto.
    - inversion H; subst. unfold CapInv, hclear in *. destruct (gens s) as [|t r0] eqn:EG; [rewrite EG; auto|].
      destruct shrink; simpl; auto.
    - destruct (hremove_if_spec s (fun k => k mod m =? r0) HI) as (s1 & E & _ & _ & M & C). rewrite H in E. inversion E; subst.
      unfold CapInv in *. rewrite C.
      destruct (gens s) as [|t r1] eqn:EG; destruct (gens s1) as [|t1 r2] eqn:EG1; simpl in M; try discriminate; auto.
      inversion M. unfold bcount. rewrite H1. auto.
  Qed.

  Theorem capinv_run : forall os s s' outs, Inv s -> CapInv s -> run s os = Some (s', outs) -> CapInv s'.
  Proof.
    induction os as [|o os IH]; intros s s' outs HI HC H; simpl in H.
    - inversion H; subst; auto.
    - destruct (step s o) as [[s1 x]|] eqn:ES; [|discriminate].
      destruct (run s1 os) as [[s2 xs]|] eqn:ER; [|discriminate]. inversion H; subst.
      destruct (step_refines _ _ _ _ HI ES) as (I1 & _). pose proof (capinv_step _ _ _ _ HI HC ES) as C1. eapply IH; eauto.
  Qed.

  (* with capacities that grow with the table size MOMO_CHECK-like failures are unreachable: Insert never answers RCheck *)
  Theorem insert_never_check : forall s k hf af rf sch s' r, Inv s -> CapInv s ->
    step s (OInsert k hf af rf sch) = Some (s', r) -> r <> RCheck.
  Proof.
    intros s k hf af rf sch s' r HI HC H. pose proof HI as (HF & _ & HCnt & _). simpl in H.
    destruct hf; [inversion H; subst; discriminate|].
    destruct (hfind s k) as [[[g idx] pos]|]; [inversion H; subst; discriminate|].
    unfold hadd in H.
    assert (AH : forall t r0 ncap, add_head s t r0 k af ncap sch = Some (s', r) -> r <> RCheck).
    { intros t r0 ncap HA. unfold add_head in HA. destruct (tadd t k); [|inversion HA; subst; discriminate].
      destruct af; [inversion HA; subst; discriminate|]. destruct (relocate (t0 :: r0) sch); inversion HA; subst; discriminate. }
    destruct (Z.ltb_spec (count s) (capacity s)).
    - destruct (gens s) as [|t r0] eqn:EG; [|eapply AH; eauto].
      unfold CapInv in HC. rewrite EG in HC. rewrite HCnt in H0. lia.
    - destruct (grow_log_total (newLog (gens s)) (count s)) as (nl & GL).
      { apply newLog_nonneg; auto. } { rewrite HCnt. lia. }
      rewrite GL in H. destruct rf; [destruct (gens s) as [|t r0]; [inversion H; subst; discriminate|]|]; eapply AH; eauto.
  Qed.
End GrowModel.

(* ---- concrete bucket kinds (instantiation used for extraction and for the non-vacuity examples) ---- *)
Definition start_mask (hc bc : Z) : Z := hc mod bc.                         (* hashCode & (bucketCount - 1) *)
Definition next_linear (i bc p : Z) : Z := (i + 1) mod bc.                  (* BucketBase: (i + 1) & (bc - 1) *)
Definition next_tri (i bc p : Z) : Z := (i + p) mod bc.                     (* Open2N2/Open8: (i + probe) & (bc - 1) *)

(* HashBucketBase::CalcCapacity / GetBucketCountShift (LimP4, LimP, One ...) *)
Definition cc_base (mc bc : Z) : Z :=
  if mc =? 1 then bc * 5 / 8 else if mc =? 2 then bc + bc / 2 else bc * 2.
Definition sh_base (mc bc : Z) : Z :=
  if mc =? 1 then 1 else if mc =? 2 then (if bc <? 65536 then 2 else 1) else (if bc <? 1048576 then 2 else 1).
(* HashBucketOpen2N2 / HashBucketOpen8: floor(bc*mc/12*11), floor(bc*7/14*13) *)
Definition cc_open (mc bc : Z) : Z := if mc =? 7 then bc * mc * 13 / 14 else bc * mc * 11 / 12.
Definition sh_open (mc bc : Z) : Z := 1.

(* key -> hash, the distributions of harness/kit.h `spread` (64-bit size_t) *)
Definition spread (dist k : Z) : Z :=
  let x := k mod 2 ^ 64 in
  if dist =? 0 then x
  else if dist =? 1 then 42
  else if dist =? 2 then x mod 16
  else if dist =? 3 then (x * 2 ^ 56) mod 2 ^ 64
  else if dist =? 4 then (x * 11400714819323198485) mod 2 ^ 64
  else x mod 7.

Record config : Type := mkCfg {
  c_probe : Z;      (* 0 = linear (LimP4, LimP, One), 1 = triangular (Open2N2, Open8) *)
  c_policy : Z;     (* 0 = HashBucketBase policy, 1 = open policy *)
  c_cap : Z; c_wf0 : bool; c_logStart : Z; c_dist : Z; c_nothrow : bool;
  c_wfodd : bool    (* LimP with skipOddMemPools: WasFull as soon as the memory pool of maxCount items is in use *) }.

(* WasFull rule.  LimP4 / Open2N2 / Open8 / One: the count has reached maxCount.  LimP (HashBucketLimP.h:153-160,
   pvGetMemPoolIndex(count) = count + (skipOddMemPools ? count % 2 : 0)): the bucket uses the pool of maxCount items. *)
Definition cfg_wfull (c : config) (n : Z) : bool :=
  if c_wfodd c then (c_cap c + c_cap c mod 2 <=? n + n mod 2) else (c_cap c <=? n).

(* exact max-probe bound: B = Z, decode = id, UpdateMaxProbe = max (the real encoders over-approximate; C13) *)
Definition cfg_step (c : config) :=
  step Z 0 (fun _ b => b) Z.max (spread (c_dist c)) (c_cap c) (c_wf0 c) (cfg_wfull c) start_mask
       (if c_probe c =? 0 then next_linear else next_tri) (c_logStart c)
       (if c_policy c =? 0 then cc_base (c_cap c) else cc_open (c_cap c))
       (if c_policy c =? 0 then sh_base (c_cap c) else sh_open (c_cap c)) (c_nothrow c).
Definition cfg_init : hset Z := hinit Z.
Definition cfg_shape (s : hset Z) := shape Z s.
Definition cfg_traverse (c : config) (s : hset Z) : list Z := traverse_it Z 0 (c_wf0 c) s.   (* through the iterator machine *)
Definition cfg_find (c : config) (s : hset Z) (k : Z) : bool :=
  match hfind Z 0 (fun _ b => b) (spread (c_dist c)) (c_wf0 c) start_mask
              (if c_probe c =? 0 then next_linear else next_tri) (c_nothrow c) s k with
  | Some _ => true | None => false end.

(* ================================================================================================== *)
(*  Closed statements (no section hypotheses): what Properties_C11.v exports                           *)
(* ================================================================================================== *)
Section Final.
  Variable B : Type.
  Variable b0 : B.
  Variable decode : Z -> B -> Z.
  Variable upd_bound : B -> Z -> B.
  Variable h : Z -> Z.
  Variable cap : Z.
  Variable wf0 : bool.
  Variable wfull : Z -> bool.
  Variable start : Z -> Z -> Z.
  Variable next : Z -> Z -> Z -> Z.
  Variable logStart : Z.
  Variable calcCapacity : Z -> Z.
  Variable shift : Z -> Z.
  Variable nothrowReloc : bool.

  (* what the proofs need to know about the bucket kind: index functions stay in range, UpdateMaxProbe never
     under-approximates (C13), the growth policy does not shrink *)
  Definition kind_ok : Prop :=
    0 < cap /\
    (forall hc bc, 0 < bc -> 0 <= start hc bc < bc) /\
    (forall i bc p, 0 < bc -> 0 <= next i bc p < bc) /\
    (forall L b p, 0 <= p -> p <= decode L (upd_bound b p) /\ decode L b <= decode L (upd_bound b p)) /\
    (forall bc, 0 <= shift bc) /\ 0 <= logStart /\
    (forall n, cap <= n -> wfull n = true).

  (* additionally for later_ops_complete_migration: the probe sequence reaches every bucket (C13) and the
     capacity of a table never exceeds its physical size *)
  Definition kind_ok2 : Prop :=
    (forall L hc i, 0 <= L -> 0 <= i < 2 ^ L -> exists d, Z.of_nat d < 2 ^ L /\ path start next (2 ^ L) hc d = i) /\
    (forall L, 0 <= L -> calcCapacity (2 ^ L) <= cap * 2 ^ L).

  (* capacities grow with the table size (so the size loop of pvAddGrow always ends): CalcCapacity(bc) >= (bc - 1) / 2 *)
  Definition kind_ok3 : Prop := forall L, 0 <= L -> 2 ^ L <= 2 * calcCapacity (2 ^ L) + 1.

  Notation Inv' := (Inv B b0 decode h cap wf0 start next nothrowReloc).
  Notation step' := (step B b0 decode upd_bound h cap wf0 wfull start next logStart calcCapacity shift nothrowReloc).
  Notation run' := (run B b0 decode upd_bound h cap wf0 wfull start next logStart calcCapacity shift nothrowReloc).
  Notation hfind' := (hfind B b0 decode h wf0 start next nothrowReloc).

  Theorem relocate_interrupted_inv : kind_ok -> forall os s outs, run' (hinit B) os = Some (s, outs) -> Inv' s.
  Proof.
    intros (H1 & H2 & H3 & H4 & H5 & H6 & H7) os s outs H.
    eapply (run_inv B b0 decode upd_bound h cap wf0 wfull start next logStart calcCapacity shift nothrowReloc); eauto.
    apply Inv_init.
  Qed.

  Theorem inv_step : kind_ok -> forall s o s' r, Inv' s -> step' s o = Some (s', r) -> Inv' s'.
  Proof.
    intros (H1 & H2 & H3 & H4 & H5 & H6 & H7) s o s' r HI H.
    eapply (step_refines B b0 decode upd_bound h cap wf0 wfull start next logStart calcCapacity shift nothrowReloc); eauto.
  Qed.

  Theorem all_findable : forall s k, Inv' s -> (In k (abs B s) <-> exists loc, hfind' s k = Some loc).
  Proof.
    clear upd_bound logStart calcCapacity shift.
    intros s k HI. split.
    - intros Hin. eapply hfind_complete; eauto.
    - intros ([[g idx] pos] & E). eapply hfind_sound in E. destruct E as (t & _ & _ & Hin). exact Hin.
    Unshelve. all: try exact 0; try exact (fun _ => 0).
  Qed.

  (* review-fix: the location that pvFind answers with really holds k *)
  Theorem all_findable_located : forall s k, Inv' s ->
    (In k (abs B s) <-> exists g idx pos t, hfind' s k = Some (g, idx, pos) /\ nth_error (gens B s) g = Some t /\
                                           bfind k (items B (getb B b0 wf0 t idx)) = Some pos).
  Proof.
    clear upd_bound logStart calcCapacity shift.
    intros s k HI. split.
    - intros Hin. assert (EX : exists loc, hfind' s k = Some loc) by (eapply hfind_complete; eauto). destruct EX as ([[g idx] pos] & E).
      pose proof E as E2. eapply hfind_sound in E2. destruct E2 as (t & N & F & _).
      exists g, idx, pos, t. split; [exact E|]. split; [exact N|]. eapply tfind_sound. exact F. all: try exact 0; try exact (fun _ => 0).
    - intros (g & idx & pos & t & E & _). eapply hfind_sound in E. destruct E as (t' & _ & _ & Hin). exact Hin.
    Unshelve. all: try exact 0; try exact (fun _ => 0); try exact b0; try exact (fun _ _ => 0).
  Qed.

  Theorem traversal_once : forall s, Inv' s -> Permutation (traverse B s) (abs B s) /\ NoDup (traverse B s).
  Proof. intros s HI. eapply traverse_spec; eauto. Qed.

  Theorem removable : forall s k, Inv' s -> In k (abs B s) ->
    exists s', step' s (ORemove k) = Some (s', RRemoved true) /\ Inv' s' /\
      Permutation (abs B s) (k :: abs B s') /\ ~ In k (abs B s') /\ hfind' s' k = None /\
      length (gens B s') = length (gens B s).
  Proof.
    intros s k HI Hin.
    assert (EX : exists loc, hfind' s k = Some loc) by (eapply hfind_complete; eauto).
    destruct EX as ([[g idx] pos] & E).
    pose proof E as E2. eapply remove_spec in E2; eauto. destruct E2 as (A1 & A2 & A3 & A4).
    pose proof E as E3. eapply find_buckets_spec in E3; eauto.
    eexists. split; [simpl; rewrite E, E3; reflexivity|]. split; [exact A1|]. split; [exact A2|]. split; [exact A3|].
    split; [|exact A4]. eapply hfind_notin_none; eauto.
    Unshelve. all: try exact 0; try exact (fun _ => 0).
  Qed.

  Theorem history_refines_set : kind_ok -> forall os s outs, run' (hinit B) os = Some (s, outs) ->
    refines [] os outs (abs B s).
  Proof.
    intros (H1 & H2 & H3 & H4 & H5 & H6 & H7) os s outs H.
    apply (run_refines B b0 decode upd_bound h cap wf0 wfull start next logStart calcCapacity shift nothrowReloc H1 H7 H2 H3 H4 H5 H6 os (hinit B) s outs); auto.
    apply Inv_init.
  Qed.

  Theorem failed_op_changes_nothing : kind_ok -> forall s o s' r, Inv' s -> step' s o = Some (s', r) ->
    (r = RFull \/ r = RBadAlloc \/ r = RExn \/ r = RCheck \/ r = RAlready \/ r = RRemoved false) -> s' = s.
  Proof.
    intros (H1 & H2 & H3 & H4 & H5 & H6 & H7) s o s' r HI H HR. destruct o; simpl in H.
    - destruct hfail; [inversion H; auto|].
      destruct (hfind' s k) as [[[g idx] pos]|] eqn:EF; [inversion H; auto|].
      assert (NI : ~ In k (abs B s)) by (eapply hfind_none_notin; eauto).
      destruct (hadd_spec B b0 decode upd_bound h cap wf0 wfull start next logStart calcCapacity shift nothrowReloc H1 H7 H2 H3 H4 H5 H6
                  s k afail refuse sch s' r HI NI H) as [(A1 & _)|(A1 & _)]; auto.
      subst r. intuition discriminate.
    - inversion H; auto.
    - destruct (hfind' s k) as [[[g idx] pos]|]; [|inversion H; subst; auto].
      destruct (find_buckets B b0 wf0 (gens B s) idx g pos); inversion H; subst. intuition discriminate.
    - destruct (hreserve_spec B b0 decode upd_bound h cap wf0 wfull start next logStart calcCapacity shift nothrowReloc H1 H7 H2 H3 H4 H5 H6
                  s n refuse sch s' r HI H) as (_ & _ & [A|(A & _)]); auto. subst r. intuition discriminate.
    - inversion H; auto.
    - inversion H; auto.
    - inversion H; subst. intuition discriminate.
    - unfold hremove_if in H.
      match type of H with context [match ?X with Some _ => _ | None => _ end] => destruct X as [[gs2 c2]|] end;
        inversion H; subst; intuition discriminate.
  Qed.

  Theorem grow_refused_insert_succeeds_unless_path_full : kind_ok -> kind_ok3 -> forall s t r k sch,
    Inv' s -> gens B s = t :: r -> ~ In k (abs B s) ->
    (count B s <? capacity B s) = false ->
    ((exists d, Z.of_nat d < bcount B t /\ isFull B cap (getb B b0 wf0 t (path start next (bcount B t) (h k) d)) = false) ->
       exists s', step' s (OInsert k false false true sch) = Some (s', RInserted) /\ Inv' s' /\
                  Permutation (abs B s') (k :: abs B s) /\ capacity B s' = capacity B s /\
                  (length (gens B s') <= length (gens B s))%nat) /\
    ((forall d, Z.of_nat d < bcount B t -> isFull B cap (getb B b0 wf0 t (path start next (bcount B t) (h k) d)) = true) ->
       step' s (OInsert k false false true sch) = Some (s, RFull)).
  Proof.
    intros (H1 & H2 & H3 & H4 & H5 & H6 & H7) K3. intros.
    eapply (refused_growth_insert B b0 decode upd_bound h cap wf0 wfull start next logStart calcCapacity shift nothrowReloc); eauto.
  Qed.

  Theorem later_ops_complete_migration_thm : kind_ok -> kind_ok2 -> kind_ok3 -> forall ks s,
    Inv' s -> CapOk B cap s -> NoDup ks -> (forall k, In k ks -> ~ In k (abs B s)) ->
    exists s' outs, run' s (map fresh_insert ks) = Some (s', outs) /\
      Forall (fun o => o = RInserted) outs /\ Inv' s' /\ CapOk B cap s' /\
      ((Z.max 0 (capacity B s - count B s) < Z.of_nat (length ks) \/ length (gens B s) = 1%nat) ->
         length (gens B s') = 1%nat).
  Proof.
    intros (H1 & H2 & H3 & H4 & H5 & H6 & H7) (K1 & K2) K3. intros.
    eapply (later_ops_complete_migration B b0 decode upd_bound h cap wf0 wfull start next logStart calcCapacity shift nothrowReloc); eauto.
  Qed.

  (* pvFindBuckets (walk over the generations comparing bucket address ranges) returns the generation in which pvFind
     found the item, in every state satisfying Inv *)
  Theorem find_buckets_returns_owner : forall s k gi idx pos, Inv' s -> hfind' s k = Some (gi, idx, pos) ->
    find_buckets B b0 wf0 (gens B s) idx gi pos = Some gi.
  Proof.
    intros s k gi idx pos HI E. eapply find_buckets_spec in E; eauto.
    Unshelve. all: try exact 0; try exact (fun _ => 0).
  Qed.

  (* Remove(filter) = the iterator loop with removals (pvRemove through pvFindBuckets, iterator re-seated at the hole) *)
  Theorem remove_if_any_state : kind_ok -> forall s m q, Inv' s ->
    exists s', step' s (ORemoveIf m q) = Some (s', RNum (Z.of_nat (length (filter (fun k => k mod m =? q) (abs B s))))) /\
      Inv' s' /\ Permutation (abs B s') (filter (fun k => negb (k mod m =? q)) (abs B s)) /\
      length (gens B s') = length (gens B s) /\ capacity B s' = capacity B s.
  Proof.
    intros (H1 & H2 & H3 & H4 & H5 & H6 & H7) s m q HI.
    assert (X : exists s', hremove_if B b0 wf0 s (fun k => k mod m =? q) = Some (s', RNum (Z.of_nat (length (filter (fun k => k mod m =? q) (abs B s))))) /\ Inv' s' /\
      Permutation (abs B s') (filter (fun x => negb ((fun k => k mod m =? q) x)) (abs B s)) /\
      map (tlog B) (gens B s') = map (tlog B) (gens B s) /\ capacity B s' = capacity B s) by (eapply hremove_if_spec; eauto).
    destruct X as (s' & E & I & P & M & C).
    exists s'. split; [exact E|]. split; auto. split; auto. split; auto.
    apply (f_equal (@length Z)) in M. repeat rewrite map_length in M. auto.
  Qed.

  (* traversal_once for the pvInc/pvMove state machine *)
  Theorem iterator_traversal_once : forall s, Inv' s ->
    exists l, walk B b0 wf0 (Z.to_nat (count B s)) (it_begin B b0 wf0 s) = (l, IEnd B) /\
              Permutation l (abs B s) /\ NoDup l.
  Proof.
    intros s HI. exists (traverse B s). split.
    - eapply iterator_walk; eauto.
    - eapply traverse_spec; eauto.
    Unshelve. all: try exact 0; try exact (fun _ => 0).
  Qed.

  Theorem clear_any_state : forall s shrink, 0 < cap -> Inv' s ->
    Inv' (hclear B b0 wf0 s shrink) /\ abs B (hclear B b0 wf0 s shrink) = [] /\ (length (gens B (hclear B b0 wf0 s shrink)) <= 1)%nat.
  Proof.
    intros s shrink HC HI. assert (X : Inv' (hclear B b0 wf0 s shrink) /\ abs B (hclear B b0 wf0 s shrink) = []).
    { eapply hclear_spec; eauto. }
    destruct X as (X1 & X2). split; auto. split; auto.
    unfold hclear. destruct HI as (HF & _ & _ & HN). destruct (gens B s) eqn:E; [rewrite E; simpl; lia|]. destruct shrink; simpl; lia.
    Unshelve. all: try exact 0; try exact (fun _ => 0).
  Qed.

  Theorem reserve_completes_migration_thm : kind_ok -> kind_ok2 -> forall s n nl, Inv' s ->
    (n <=? capacity B s) = false -> count B s <= n ->
    reserve_log calcCapacity 64 (newLog B logStart shift (gens B s)) n = Some nl ->
    exists s', step' s (OReserve n false []) = Some (s', RUnit) /\ length (gens B s') = 1%nat /\ Inv' s' /\
               Permutation (abs B s') (abs B s) /\ n <= capacity B s'.
  Proof.
    intros (H1 & H2 & H3 & H4 & H5 & H6 & H7) (K1 & K2). intros.
    eapply (reserve_completes_migration B b0 decode upd_bound h cap wf0 wfull start next logStart calcCapacity shift nothrowReloc); eauto.
  Qed.

  (* CapOk (premise of later_ops_complete_migration) holds in every reachable state that has a table *)
  Theorem reachable_cap_ok : kind_ok -> kind_ok2 -> forall os s outs,
    run' (hinit B) os = Some (s, outs) -> gens B s <> [] -> CapOk B cap s.
  Proof.
    intros (H1 & H2 & H3 & H4 & H5 & H6 & H7) (K1 & K2) os s outs H HN.
    assert (C : CapInv B cap s).
    { eapply (capinv_run B b0 decode upd_bound h cap wf0 wfull start next logStart calcCapacity shift nothrowReloc); eauto.
      - apply Inv_init.
      - unfold CapInv, hinit; simpl; auto. }
    unfold CapInv in C. unfold CapOk. destruct (gens B s) as [|t r] eqn:E; [congruence|]. eauto.
  Qed.

  (* after the fix of pvAddGrow no insertion can fail a capacity check any more, in any reachable state *)
  Theorem insert_never_fails_check : kind_ok -> kind_ok2 -> kind_ok3 -> forall os s outs k hf af rf sch s' r,
    run' (hinit B) os = Some (s, outs) -> step' s (OInsert k hf af rf sch) = Some (s', r) -> r <> RCheck.
  Proof.
    intros (H1 & H2 & H3 & H4 & H5 & H6 & H7) (K1 & K2) K3 os s outs k hf af rf sch s' r H HS.
    assert (I : Inv' s).
    { eapply (run_inv B b0 decode upd_bound h cap wf0 wfull start next logStart calcCapacity shift nothrowReloc); eauto. apply Inv_init. }
    assert (C : CapInv B cap s).
    { eapply capinv_run; [..|exact H]; eauto.
      - apply Inv_init.
      - unfold CapInv, hinit; simpl; auto. }
    eapply insert_never_check; [..|exact HS]; eauto.
  Qed.
  (* the clause of the property, as stated: under refused growth a single-element insertion succeeds unless literally every
     slot of the table (= of the probe path, which reaches every bucket) is taken *)
  Theorem insert_fails_only_if_every_slot_on_probe_path_taken : kind_ok -> kind_ok2 -> kind_ok3 -> forall s t r k sch,
    Inv' s -> gens B s = t :: r -> ~ In k (abs B s) -> (count B s <? capacity B s) = false ->
    ((exists b, In b (tbs B t) /\ isFull B cap b = false) ->
       exists s', step' s (OInsert k false false true sch) = Some (s', RInserted) /\ Inv' s' /\
                  Permutation (abs B s') (k :: abs B s) /\ capacity B s' = capacity B s /\
                  (length (gens B s') <= length (gens B s))%nat) /\
    (step' s (OInsert k false false true sch) = Some (s, RFull) ->
       (forall b, In b (tbs B t) -> isFull B cap b = true) /\ cap * bcount B t <= Z.of_nat (length (tkeys B t))) /\
    ((forall b, In b (tbs B t) -> isFull B cap b = true) -> step' s (OInsert k false false true sch) = Some (s, RFull)).
  Proof.
    intros (H1 & H2 & H3 & H4 & H5 & H6 & H7) (K1 & K2) K3. intros.
    eapply (insert_fails_only_if_every_slot_taken B b0 decode upd_bound h cap wf0 wfull start next logStart calcCapacity shift nothrowReloc); eauto.
  Qed.

  (* interplay with the size loop of pvAddGrow: after ANY history -- in particular any number k of consecutive refused
     growths that overloaded the table -- a granted, failure-free insertion at a growth point picks a table that is large
     enough (mCount <= mCapacity <= physical size), migrates EVERYTHING and leaves exactly one generation *)
  Theorem granted_growth_after_refusals : kind_ok -> kind_ok2 -> kind_ok3 -> forall os ks s outs k,
    run' (hinit B) (os ++ map (fun x => OInsert x false false true []) ks) = Some (s, outs) ->
    gens B s <> [] -> ~ In k (abs B s) -> capacity B s <= count B s ->
    exists s1, step' s (fresh_insert k) = Some (s1, RInserted) /\ Inv' s1 /\ length (gens B s1) = 1%nat /\
               count B s1 = count B s + 1 /\ count B s1 <= capacity B s1 /\ CapOk B cap s1 /\
               Permutation (abs B s1) (k :: abs B s).
  Proof.
    intros K K2 K3 os ks s outs k H HN NI HC.
    pose proof (relocate_interrupted_inv K _ _ _ H) as HI.
    pose proof (reachable_cap_ok K K2 _ _ _ H HN) as CO.
    destruct K as (H1 & H2 & H3 & H4 & H5 & H6 & H7). destruct K2 as (K1 & K2').
    destruct (fresh_insert_step B b0 decode upd_bound h cap wf0 wfull start next logStart calcCapacity shift nothrowReloc
                H1 H7 H2 H3 H4 H5 H6 K3 K1 K2' s k HI CO NI) as (s1 & E & I1 & C1 & P1 & CN & D).
    exists s1. destruct D as [(D1 & _)|(D1 & D2 & D3)]; [lia|]. repeat split; auto; apply I1.
  Qed.

End Final.

(* ================================================================================================== *)
(*  The concrete bucket kinds satisfy the hypotheses; non-vacuity                                       *)
(* ================================================================================================== *)
Definition cfg_next (c : config) := if c_probe c =? 0 then next_linear else next_tri.
Definition cfg_cc (c : config) := if c_policy c =? 0 then cc_base (c_cap c) else cc_open (c_cap c).
Definition cfg_sh (c : config) := if c_policy c =? 0 then sh_base (c_cap c) else sh_open (c_cap c).

Lemma concrete_kind_ok : forall c, 0 < c_cap c -> 0 <= c_logStart c ->
  kind_ok Z (fun _ b => b) Z.max (c_cap c) (cfg_wfull c) start_mask (cfg_next c) (c_logStart c) (cfg_sh c).
Proof.
  intros c H1 H2. unfold kind_ok. split; [auto|]. split; [|split; [|split; [|split; [|split]]]]; auto;
    [| | | |intros n Hn; unfold cfg_wfull; destruct (c_wfodd c); apply Z.leb_le;
            [pose proof (Z.mod_pos_bound (c_cap c) 2 ltac:(lia)); pose proof (Z.mod_pos_bound n 2 ltac:(lia));
             destruct (Z.eq_dec n (c_cap c)); [subst; lia|lia] | lia]].
  - intros. unfold start_mask. apply Z.mod_pos_bound; auto.
  - intros. unfold cfg_next, next_linear, next_tri. destruct (c_probe c =? 0); apply Z.mod_pos_bound; auto.
  - intros. lia.
  - intros. unfold cfg_sh, sh_base, sh_open.
    destruct (c_policy c =? 0); try lia.
    destruct (c_cap c =? 1); try lia. destruct (c_cap c =? 2); [destruct (bc <? 65536)|destruct (bc <? 1048576)]; lia.
Qed.

Lemma path_linear : forall bc hc d, 0 < bc -> path start_mask next_linear bc hc d = (hc + Z.of_nat d) mod bc.
Proof.
  induction d; intros H.
  - simpl. unfold start_mask. rewrite Z.add_0_r. auto.
  - rewrite path_S. rewrite IHd by auto. unfold next_linear. rewrite Z.add_mod_idemp_l by lia.
    f_equal. rewrite Nat2Z.inj_succ. lia.
Qed.

Lemma linear_kind_ok2 : forall c, 0 < c_cap c -> c_probe c = 0 ->
  kind_ok2 (c_cap c) start_mask (cfg_next c) (cfg_cc c).
Proof.
  intros c H1 HP. unfold kind_ok2, cfg_next. rewrite HP. simpl. split.
  - intros L hc i HL0 Hi. assert (Hbc : 0 < 2 ^ L) by (apply Z.pow_pos_nonneg; lia). set (bc := 2 ^ L) in *.
    exists (Z.to_nat ((i - hc) mod bc)).
    pose proof (Z.mod_pos_bound (i - hc) bc Hbc). rewrite Z2Nat.id by lia. split; [lia|].
    rewrite path_linear by auto. rewrite Z2Nat.id by lia. rewrite Z.add_mod_idemp_r by lia.
    replace (hc + (i - hc)) with i by lia. apply Z.mod_small; auto.
  - intros L HL. assert (0 < 2 ^ L) by (apply Z.pow_pos_nonneg; lia). set (x := 2 ^ L) in *.
    unfold cfg_cc, cc_base, cc_open.
    destruct (c_policy c =? 0).
    + destruct (Z.eqb_spec (c_cap c) 1); [rewrite e; apply Z.div_le_upper_bound; lia|].
      destruct (Z.eqb_spec (c_cap c) 2); [rewrite e; pose proof (Z.div_le_upper_bound x 2 x ltac:(lia) ltac:(lia)); lia|]. nia.
    + destruct (c_cap c =? 7); apply Z.div_le_upper_bound; nia.
Qed.

Lemma concrete_kind_ok3 : forall c, 0 < c_cap c -> kind_ok3 (cfg_cc c).
Proof.
  intros c H1 L HL. assert (0 < 2 ^ L) by (apply Z.pow_pos_nonneg; lia). set (x := 2 ^ L) in *.
  unfold cfg_cc, cc_base, cc_open. destruct (c_policy c =? 0).
  - destruct (Z.eqb_spec (c_cap c) 1); [pose proof (Z.div_mod (x * 5) 8 ltac:(lia)); pose proof (Z.mod_pos_bound (x * 5) 8 ltac:(lia)); lia|].
    destruct (Z.eqb_spec (c_cap c) 2); [pose proof (Z.div_pos x 2 ltac:(lia) ltac:(lia)); lia|]. lia.
  - assert (x <= x * c_cap c) by nia. set (y := x * c_cap c) in *.
    destruct (c_cap c =? 7).
    + pose proof (Z.div_mod (y * 13) 14 ltac:(lia)); pose proof (Z.mod_pos_bound (y * 13) 14 ltac:(lia)); lia.
    + pose proof (Z.div_mod (y * 11) 12 ltac:(lia)); pose proof (Z.mod_pos_bound (y * 11) 12 ltac:(lia)); lia.
Qed.

Lemma path_probe_index : forall L hc d,
  path start_mask next_tri (2 ^ L) hc d = ProbeSeq.probe_index next_tri L (start_mask hc (2 ^ L)) d.
Proof. induction d; simpl; auto. rewrite IHd. auto. Qed.

(* triangular probing (Open2N2 / Open8): coverage by the number-theoretic theorem copied from C13 (ProbeSeq.v) *)
Lemma tri_kind_ok2 : forall c, 0 < c_cap c -> c_probe c <> 0 ->
  kind_ok2 (c_cap c) start_mask (cfg_next c) (cfg_cc c).
Proof.
  intros c H1 HP. destruct (linear_kind_ok2 (mkCfg 0 (c_policy c) (c_cap c) (c_wf0 c) (c_logStart c) (c_dist c) (c_nothrow c) (c_wfodd c)) H1 eq_refl) as (_ & CC).
  unfold kind_ok2, cfg_next. apply Z.eqb_neq in HP. rewrite HP. split; [|exact CC].
  intros L hc i HL Hi. assert (Hbc : 0 < 2 ^ L) by (apply Z.pow_pos_nonneg; lia).
  assert (SR : 0 <= start_mask hc (2 ^ L) < 2 ^ L) by (unfold start_mask; apply Z.mod_pos_bound; auto).
  destruct (ProbeSeq.probe_seq_covers next_tri L HL (fun i0 p0 _ _ => eq_refl) (start_mask hc (2 ^ L)) i SR Hi) as (p & Hp & Ep).
  exists p. split; auto. rewrite path_probe_index. auto.
Qed.

Lemma concrete_kind_ok2 : forall c, 0 < c_cap c -> kind_ok2 (c_cap c) start_mask (cfg_next c) (cfg_cc c).
Proof. intros c H. destruct (Z.eq_dec (c_probe c) 0); [apply linear_kind_ok2|apply tri_kind_ok2]; auto. Qed.

Fixpoint cfg_run (c : config) (s : hset Z) (os : list op) : option (hset Z * list out) :=
  match os with
  | [] => Some (s, [])
  | o :: r => match cfg_step c s o with
              | None => None
              | Some (s1, x) => match cfg_run c s1 r with None => None | Some (s2, xs) => Some (s2, x :: xs) end
              end
  end.

Lemma cfg_run_is_run : forall c s os, cfg_run c s os =
  run Z 0 (fun _ b => b) Z.max (spread (c_dist c)) (c_cap c) (c_wf0 c) (cfg_wfull c) start_mask (cfg_next c) (c_logStart c)
      (cfg_cc c) (cfg_sh c) (c_nothrow c) s os.
Proof.
  intros c s os; revert s; induction os as [|a os IH]; intros s; [reflexivity|].
  rewrite run_cons. simpl cfg_run.
  change (cfg_step c s a) with (step Z 0 (fun _ b => b) Z.max (spread (c_dist c)) (c_cap c) (c_wf0 c) (cfg_wfull c) start_mask (cfg_next c) (c_logStart c) (cfg_cc c) (cfg_sh c) (c_nothrow c) s a).
  destruct (step Z 0 (fun _ b => b) Z.max (spread (c_dist c)) (c_cap c) (c_wf0 c) (cfg_wfull c) start_mask (cfg_next c) (c_logStart c) (cfg_cc c) (cfg_sh c) (c_nothrow c) s a) as [[s1 x]|]; auto.
  rewrite IH. reflexivity.
Qed.

(* the theorems instantiated at exactly the function that is extracted and run against the real containers *)
Theorem cfg_all_histories : forall c os s outs, 0 < c_cap c -> 0 <= c_logStart c ->
  cfg_run c (hinit Z) os = Some (s, outs) ->
  Inv Z 0 (fun _ b => b) (spread (c_dist c)) (c_cap c) (c_wf0 c) start_mask (cfg_next c) (c_nothrow c) s /\
  refines [] os outs (abs Z s).
Proof.
  intros c os s outs H1 H2 H. rewrite cfg_run_is_run in H. pose proof (concrete_kind_ok c H1 H2) as K. split.
  - eapply relocate_interrupted_inv; eauto.
  - eapply history_refines_set; eauto.
Qed.

(* Open2N2<3>, slow-hash keys, identity hash, 2 start buckets: the history of the harness smoke test.
   insert 1..5, 6 with refused growth (fallback), 8 with a migration that throws after 1 item, 9..14 with
   migrations that throw at once, 15 throwing after 1 item: THREE coexisting generations. *)
Definition ex_cfg : config := mkCfg 1 1 3 true 1 0 false false.
Definition ins (k : Z) := OInsert k false false false [].
Definition ex_ops : list op :=
  [ins 1; ins 2; ins 3; ins 4; ins 5; OInsert 6 false false true [];
   OInsert 8 false false false [false; true];
   OInsert 9 false false false [true]; OInsert 10 false false false [true]; OInsert 11 false false false [true];
   OInsert 12 false false false [true]; OInsert 13 false false false [true]; OInsert 14 false false false [true];
   OInsert 15 false false false [false; true]].

Definition ex_summary (r : option (hset Z * list out)) : option (nat * Z * Z * list bool * list Z) :=
  match r with
  | None => None
  | Some (s, outs) => Some (length (gens Z s), count Z s, capacity Z s,
                            map (cfg_find ex_cfg s) [1; 2; 3; 4; 5; 6; 7; 8; 9; 10; 11; 12; 13; 14; 15],
                            map (fun t => Z.of_nat (length (tkeys Z t))) (gens Z s))
  end.

Example ex_three_generations :
  ex_summary (cfg_run ex_cfg (hinit Z) ex_ops) =
  Some (3%nat, 14, 22, [true; true; true; true; true; true; false; true; true; true; true; true; true; true; true], [4; 6; 4]).
Proof. vm_compute. reflexivity. Qed.

(* one failure-free insertion (growth not needed) completes the migration; a removal and the traversal still work *)
Example ex_migration_completes :
  ex_summary (cfg_run ex_cfg (hinit Z) (ex_ops ++ [ins 16; ORemove 3])) =
  Some (1%nat, 14, 22, [true; true; false; true; true; true; false; true; true; true; true; true; true; true; true], [14]).
Proof. vm_compute. reflexivity. Qed.

(* with every growth refused the fallback path overloads the 2-bucket table up to 6 = 2*3 items, then "full" *)
Example ex_refused_until_full :
  match cfg_run ex_cfg (hinit Z) ([ins 1; ins 2; ins 3; ins 4; ins 5] ++ map (fun k => OInsert k false false true []) [6; 7; 8]) with
  | Some (s, outs) => (outs, count Z s, capacity Z s, length (gens Z s))
  | None => ([], 0, 0, 0%nat)
  end = ([RInserted; RInserted; RInserted; RInserted; RInserted; RInserted; RFull; RFull], 6, 5, 1%nat).
Proof. vm_compute. reflexivity. Qed.
