(* C07 / index selection: DataIndexes::GetFitUniqueHashIndex / GetFitMultiHashIndex (called by DataTable::pvSelect to choose the
   index a Select with column equalities goes through).  The two functions are dumped from the source (Gen_Protocol.v); this
   file interprets the dumped trees (loop over the hash array, std::includes on the sorted offset arrays, the running
   maximum of GetKeyCount) and proves: the generated functions are fit_unique / fit_multi; the index they return exists and
   ALL its columns are among the equality columns of the query (so looking the query's values up in it is meaningful - the
   premise of C07_index_choice_irrelevant); GetFitMultiHashIndex returns a covering index with the largest key count and
   none if every covering index is empty. *)
From Coq Require Import String List ZArith Bool Arith PeanoNat Lia.
From C07 Require Import ProtoSyntax.
From C07 Require Gen_Protocol.
Import ListNotations.
Local Open Scope string_scope.

(* std::includes(first1, last1, first2, last2) on sorted ranges: the standard merge scan *)
Fixpoint includes (l1 l2 : list nat) {struct l2} : bool :=
  match l2 with
  | [] => true
  | y :: l2' =>
      (fix go (l1 : list nat) : bool :=
         match l1 with
         | [] => false
         | x :: l1' => if Nat.ltb y x then false else if Nat.ltb x y then go l1' else includes l1' l2'
         end) l1
  end.

Lemma includes_cons x l1 y l2 :
  includes (x :: l1) (y :: l2) = if Nat.ltb y x then false else if Nat.ltb x y then includes l1 (y :: l2) else includes l1 l2.
Proof. reflexivity. Qed.

Lemma includes_incl : forall l2 l1, includes l1 l2 = true -> incl l2 l1.
Proof.
  induction l2 as [|y l2 IH]; intros l1 H; [intros z []|].
  induction l1 as [|x l1 IH1]; [discriminate|]. rewrite includes_cons in H. revert H.
  destruct (Nat.ltb_spec y x); [intros H0; discriminate H0|]. destruct (Nat.ltb_spec x y); intros H1.
  - intros z Hz. right. apply (IH1 H1 z Hz).
  - assert (x = y) by lia. subst x. intros z Hz. simpl in Hz. destruct Hz as [<-|Hz]; [left; reflexivity|right; apply (IH l1 H1 z Hz)].
Qed.

(* a hash as the selection code sees it: its sorted column offsets and its number of keys *)
Definition hdesc := (list nat * nat)%type.

Definition fit_unique (us : list hdesc) (q : list nat) : option nat :=
  (fix go (us : list hdesc) (j : nat) : option nat :=
     match us with [] => None | (cols, _) :: us' => if includes q cols then Some j else go us' (S j) end) us 0.

Fixpoint fit_multi_from (ms : list hdesc) (q : list nat) (j : nat) (best : option nat) (mx : nat) : option nat :=
  match ms with
  | [] => best
  | (cols, kc) :: ms' => if includes q cols && Nat.ltb mx kc then fit_multi_from ms' q (S j) (Some j) kc
                         else fit_multi_from ms' q (S j) best mx
  end.
Definition fit_multi (ms : list hdesc) (q : list nat) : option nat := fit_multi_from ms q 0 None 0.

(* ---------------------------------------------------------------- interpreter of the dumped trees *)
Inductive fval := FCols (l : list nat) | FBool (b : bool) | FNum (n : nat) | FIdx (i : option nat) | FHash (j : nat) (d : hdesc).
Definition fenv := string -> option fval.
Definition fupd (env : fenv) (x : string) (v : fval) : fenv := fun y => if String.eqb x y then Some v else env y.

Fixpoint fev (env : fenv) (e : pexpr) : option fval :=
  match e with
  | EVar x => if x =? "empty" then Some (FIdx None) else env x
  | ENum z => Some (FNum (Z.to_nat z))
  | ECall (EVar h) m [] =>
      match env h with
      | Some (FHash _ (cols, kc)) => if m =? "GetSortedOffsets" then Some (FCols cols) else if m =? "GetKeyCount" then Some (FNum kc) else None
      | _ => None
      end
  | ECall ENone f [ECall (EVar a1) b1 []; ECall (EVar a2) e1 []; ECall (EVar c1) b2 []; ECall (EVar c2) e2 []] =>
      if (f =? "includes") && (a1 =? a2) && (c1 =? c2) && (b1 =? "begin") && (e1 =? "end") && (b2 =? "GetBegin") && (e2 =? "GetEnd") then
        match env a1, env c1 with Some (FCols l1), Some (FCols l2) => Some (FBool (includes l1 l2)) | _, _ => None end
      else None
  | ECall ENone f [EVar _; EVar h] =>
      if f =? "pvGetHashIndex" then match env h with Some (FHash j _) => Some (FIdx (Some j)) | _ => None end else None
  | EBin op a b =>
      match fev env a, fev env b with
      | Some (FBool x), Some (FBool y) => if op =? "&&" then Some (FBool (x && y)) else None
      | Some (FNum x), Some (FNum y) => if op =? ">" then Some (FBool (Nat.ltb y x)) else None
      | _, _ => None
      end
  | _ => None
  end.

(* result: environment, Some v = returned v; None in the outer option = a statement the interpreter does not know *)
Definition fres := option (fenv * option fval).
Definition fseq (r : fres) (k : fenv -> fres) : fres :=
  match r with Some (env', None) => k env' | other => other end.

Fixpoint floop (f : nat -> hdesc -> fenv -> fres) (hs : list hdesc) (j : nat) (env : fenv) : fres :=
  match hs with [] => Some (env, None) | d :: hs' => fseq (f j d env) (floop f hs' (S j)) end.

Fixpoint fstmt (us ms : list hdesc) (s : pstmt) (env : fenv) {struct s} : fres :=
  let fblock := fix fblock (b : list pstmt) (env : fenv) : fres :=
                  match b with [] => Some (env, None) | s1 :: b' => fseq (fstmt us ms s1 env) (fblock b') end in
  match s with
  | SDecl x e => match fev env e with Some v => Some (fupd env x v, None) | None => None end
  | SExpr (EBin op (EVar x) e) => if op =? "=" then match fev env e with Some v => Some (fupd env x v, None) | None => None end else None
  | SReturn e => match fev env e with Some v => Some (env, Some v) | None => None end
  | SIf c th [] =>
      match fev env c with
      | Some (FBool true) => fblock th env
      | Some (FBool false) => Some (env, None)
      | _ => None
      end
  | SFor hv (EVar cont) body =>
      let hs := if cont =? "mUniqueHashes" then Some us else if cont =? "mMultiHashes" then Some ms else None in
      match hs with
      | None => None
      | Some hs =>
          floop (fun j d env => fblock body (fupd env hv (FHash j d))) hs 0 env
      end
  | _ => None
  end.
Fixpoint fexec (us ms : list hdesc) (b : list pstmt) (env : fenv) : fres :=
  match b with [] => Some (env, None) | s :: b' => fseq (fstmt us ms s env) (fexec us ms b') end.

Definition run_fit (p : list pstmt) (us ms : list hdesc) (q : list nat) : option (option nat) :=
  match fexec us ms p (fupd (fun _ => None) "sortedOffsets" (FCols q)) with
  | Some (_, Some (FIdx i)) => Some i
  | _ => None
  end.

(* ---------------------------------------------------------------- the generated functions are fit_unique / fit_multi *)
Ltac fnorm := cbv -[includes Nat.ltb floop andb]; cbn [andb].

Lemma fit_unique_loop q ms0 us0 body hv :
  body = match Gen_Protocol.GetFitUniqueHashIndex with SFor _ _ b :: _ => b | _ => [] end -> hv = "uniqueHash" ->
  forall us j env, env "sortedOffsets" = Some (FCols q) ->
  exists env', env' "sortedOffsets" = Some (FCols q) /\
    floop (fun j d env => fexec us0 ms0 body (fupd env hv (FHash j d))) us j env =
    match (fix go (us : list hdesc) (j : nat) : option nat :=
             match us with [] => None | (cols, _) :: us' => if includes q cols then Some j else go us' (S j) end) us j with
    | Some i => Some (env', Some (FIdx (Some i)))
    | None => Some (env', None)
    end.
Proof.
  intros -> ->. induction us as [|[cols kc] us IH]; intros j env Hq; [exists env; split; [exact Hq|reflexivity]|].
  cbn [floop]. unfold Gen_Protocol.GetFitUniqueHashIndex.
  set (r := fexec us0 ms0 _ _).
  assert (Er : r = if includes q cols
                   then Some (fupd (fupd (fupd env "uniqueHash" (FHash j (cols, kc))) "hashSortedOffsets" (FCols cols)) "includes" (FBool true), Some (FIdx (Some j)))
                   else Some (fupd (fupd (fupd env "uniqueHash" (FHash j (cols, kc))) "hashSortedOffsets" (FCols cols)) "includes" (FBool false), None)).
  { subst r. fnorm. rewrite Hq. destruct (includes q cols); reflexivity. }
  rewrite Er. clear Er r. destruct (includes q cols).
  - eexists; split; [|reflexivity]. fnorm. exact Hq.
  - cbn [fseq]. apply IH. fnorm. exact Hq.
Qed.

Theorem generated_fit_unique us ms q :
  run_fit Gen_Protocol.GetFitUniqueHashIndex us ms q = Some (fit_unique us q).
Proof.
  unfold run_fit, Gen_Protocol.GetFitUniqueHashIndex. cbn [fexec].
  set (env0 := fupd (fun _ => None) "sortedOffsets" (FCols q)).
  match goal with |- context [fstmt us ms (SFor ?hv ?c ?body) env0] =>
    change (fstmt us ms (SFor hv c body) env0)
      with (floop (fun j d env => fexec us ms body (fupd env hv (FHash j d))) us 0 env0) end.
  destruct (fit_unique_loop q ms us _ _ eq_refl eq_refl us 0 env0 eq_refl) as (env' & Hq & E).
  unfold Gen_Protocol.GetFitUniqueHashIndex in E. rewrite E. unfold fit_unique.
  destruct ((fix go (us1 : list hdesc) (j : nat) : option nat := _) us 0); reflexivity.
Qed.

Lemma fit_multi_loop q ms0 us0 body hv :
  body = match Gen_Protocol.GetFitMultiHashIndex with _ :: _ :: SFor _ _ b :: _ => b | _ => [] end -> hv = "multiHash" ->
  forall ms j env best mx, env "sortedOffsets" = Some (FCols q) ->
  env "multiHashIndex" = Some (FIdx best) -> env "maxKeyCount" = Some (FNum mx) ->
  exists env', env' "multiHashIndex" = Some (FIdx (fit_multi_from ms q j best mx)) /\
    floop (fun j d env => fexec us0 ms0 body (fupd env hv (FHash j d))) ms j env = Some (env', None).
Proof.
  intros -> ->. induction ms as [|[cols kc] ms IH]; intros j env best mx Hq Hb Hm; [exists env; split; [exact Hb|reflexivity]|].
  cbn [floop fit_multi_from]. unfold Gen_Protocol.GetFitMultiHashIndex.
  set (r := fexec us0 ms0 _ _).
  set (e1 := fupd (fupd (fupd (fupd env "multiHash" (FHash j (cols, kc))) "hashSortedOffsets" (FCols cols)) "includes" (FBool (includes q cols)))
                  "keyCount" (FNum kc)).
  assert (Er : r = if includes q cols && Nat.ltb mx kc
                   then Some (fupd (fupd e1 "maxKeyCount" (FNum kc)) "multiHashIndex" (FIdx (Some j)), None)
                   else Some (e1, None)).
  { subst r e1. fnorm. rewrite Hq, Hm. fnorm. destruct (includes q cols); destruct (Nat.ltb mx kc); reflexivity. }
  rewrite Er. clear Er r. destruct (includes q cols && Nat.ltb mx kc); cbn [fseq]; apply IH; subst e1; fnorm; assumption || reflexivity.
Qed.

Theorem generated_fit_multi us ms q :
  run_fit Gen_Protocol.GetFitMultiHashIndex us ms q = Some (fit_multi ms q).
Proof.
  unfold run_fit, Gen_Protocol.GetFitMultiHashIndex. cbn [fexec].
  set (env0 := fupd (fun _ => None) "sortedOffsets" (FCols q)).
  set (e1 := fupd (fupd env0 "multiHashIndex" (FIdx None)) "maxKeyCount" (FNum 0)).
  match goal with |- context [fseq (fstmt us ms (SDecl ?x1 ?v1) env0) (fun env' => fseq (fstmt us ms (SDecl ?x2 ?v2) env') ?k)] =>
    change (fseq (fstmt us ms (SDecl x1 v1) env0) (fun env' => fseq (fstmt us ms (SDecl x2 v2) env') k)) with (k e1) end.
  cbv beta.
  match goal with |- context [fstmt us ms (SFor ?hv ?c ?body) ?e] =>
    change (fstmt us ms (SFor hv c body) e)
      with (floop (fun j d env => fexec us ms body (fupd env hv (FHash j d))) ms 0 e) end.
  match goal with |- context [floop _ ms 0 ?e] =>
    destruct (fit_multi_loop q ms us _ _ eq_refl eq_refl ms 0 e None 0 eq_refl eq_refl eq_refl) as (env' & Hb & E) end.
  unfold Gen_Protocol.GetFitMultiHashIndex in E. rewrite E. cbn [fseq]. fnorm. rewrite Hb. reflexivity.
Qed.

(* ---------------------------------------------------------------- what the chosen index is *)
Theorem fit_unique_covers us q j :
  fit_unique us q = Some j -> exists cols kc, nth_error us j = Some (cols, kc) /\ incl cols q.
Proof.
  unfold fit_unique.
  assert (G : forall us k j, (fix go (us : list hdesc) (j : nat) : option nat :=
                                match us with [] => None | (cols, _) :: us' => if includes q cols then Some j else go us' (S j) end) us k = Some j ->
                             k <= j /\ exists cols kc, nth_error us (j - k) = Some (cols, kc) /\ incl cols q).
  { induction us0 as [|[cols kc] us0 IH]; intros k j0 H; [discriminate|].
    destruct (includes q cols) eqn:Ei.
    - injection H as <-. split; [lia|]. rewrite Nat.sub_diag. exists cols, kc. split; [reflexivity|apply includes_incl; exact Ei].
    - destruct (IH (S k) j0 H) as (Hle & cols' & kc' & Hn & Hi). split; [lia|]. exists cols', kc'. split; [|exact Hi].
      replace (j0 - k) with (S (j0 - S k)) by lia. exact Hn. }
  intros H. destruct (G us 0 j H) as (_ & cols & kc & Hn & Hi). rewrite Nat.sub_0_r in Hn. eauto.
Qed.

Lemma fit_multi_from_spec q : forall ms j best mx r,
  fit_multi_from ms q j best mx = r ->
  (* the running best is an invariant: either still the old one, or a later covering index with a larger count *)
  (r = best /\ forall i cols kc, nth_error ms i = Some (cols, kc) -> includes q cols = true -> kc <= mx) \/
  (exists i cols kc, r = Some (j + i) /\ nth_error ms i = Some (cols, kc) /\ incl cols q /\ mx < kc /\
     forall i' cols' kc', nth_error ms i' = Some (cols', kc') -> includes q cols' = true -> kc' <= kc).
Proof.
  induction ms as [|[cols kc] ms IH]; intros j best mx r H; cbn [fit_multi_from] in H.
  - left. split; [symmetry; exact H|]. intros i c k Hn. destruct i; discriminate.
  - destruct (includes q cols) eqn:Ei; cbn [andb] in H; [destruct (Nat.ltb_spec mx kc) as [Hlt|Hge]|].
    + destruct (IH (S j) (Some j) kc r H) as [[Hr Hmax]|(i & c & k & Hr & Hn & Hi & Hlt2 & Hmax)].
      * right. exists 0, cols, kc. rewrite Nat.add_0_r. split; [exact Hr|]. split; [reflexivity|]. split; [apply includes_incl; exact Ei|].
        split; [exact Hlt|]. intros [|i'] c' k' Hn' Hc'; [injection Hn' as <- <-; lia|apply (Hmax i' c' k' Hn' Hc')].
      * right. exists (S i), c, k. split; [rewrite Hr; f_equal; lia|]. split; [exact Hn|]. split; [exact Hi|]. split; [lia|].
        intros [|i'] c' k' Hn' Hc'; [injection Hn' as <- <-; lia|apply (Hmax i' c' k' Hn' Hc')].
    + destruct (IH (S j) best mx r H) as [[Hr Hmax]|(i & c & k & Hr & Hn & Hi & Hlt2 & Hmax)].
      * left. split; [exact Hr|]. intros [|i'] c' k' Hn' Hc'; [injection Hn' as <- <-; lia|apply (Hmax i' c' k' Hn' Hc')].
      * right. exists (S i), c, k. split; [rewrite Hr; f_equal; lia|]. split; [exact Hn|]. split; [exact Hi|]. split; [exact Hlt2|].
        intros [|i'] c' k' Hn' Hc'; [injection Hn' as <- <-; lia|apply (Hmax i' c' k' Hn' Hc')].
    + destruct (IH (S j) best mx r H) as [[Hr Hmax]|(i & c & k & Hr & Hn & Hi & Hlt2 & Hmax)].
      * left. split; [exact Hr|]. intros [|i'] c' k' Hn' Hc'; [injection Hn' as <- <-; congruence|apply (Hmax i' c' k' Hn' Hc')].
      * right. exists (S i), c, k. split; [rewrite Hr; f_equal; lia|]. split; [exact Hn|]. split; [exact Hi|]. split; [exact Hlt2|].
        intros [|i'] c' k' Hn' Hc'; [injection Hn' as <- <-; congruence|apply (Hmax i' c' k' Hn' Hc')].
Qed.

(* GetFitMultiHashIndex: the index returned exists, all its columns are equality columns of the query, it has keys, and no
   covering index has more keys; it returns none exactly when every covering index is empty *)
Theorem fit_multi_covers ms q :
  match fit_multi ms q with
  | Some j => exists cols kc, nth_error ms j = Some (cols, kc) /\ incl cols q /\ 0 < kc /\
                forall i' cols' kc', nth_error ms i' = Some (cols', kc') -> includes q cols' = true -> kc' <= kc
  | None => forall i cols kc, nth_error ms i = Some (cols, kc) -> includes q cols = true -> kc = 0
  end.
Proof.
  unfold fit_multi. destruct (fit_multi_from_spec q ms 0 None 0 _ eq_refl) as [[Hr Hmax]|(i & c & k & Hr & Hn & Hi & Hlt & Hmax)].
  - rewrite Hr. intros i c k Hn Hc. specialize (Hmax i c k Hn Hc). lia.
  - rewrite Hr. cbn [Nat.add]. exists c, k. auto.
Qed.

Theorem generated_fit us ms q :
  run_fit Gen_Protocol.GetFitUniqueHashIndex us ms q = Some (fit_unique us q) /\
  run_fit Gen_Protocol.GetFitMultiHashIndex us ms q = Some (fit_multi ms q).
Proof. split; [apply generated_fit_unique|apply generated_fit_multi]. Qed.

Theorem fit_covers us ms q :
  (forall j, fit_unique us q = Some j -> exists cols kc, nth_error us j = Some (cols, kc) /\ incl cols q) /\
  match fit_multi ms q with
  | Some j => exists cols kc, nth_error ms j = Some (cols, kc) /\ incl cols q /\ 0 < kc /\
                forall i' cols' kc', nth_error ms i' = Some (cols', kc') -> includes q cols' = true -> kc' <= kc
  | None => forall i cols kc, nth_error ms i = Some (cols, kc) -> includes q cols = true -> kc = 0
  end.
Proof. split; [intros j; apply fit_unique_covers|apply fit_multi_covers]. Qed.
