(* C19 -- the raw buffer can always hold the link word (assumption A_size of PoolAssumptions.v, discharged here).
   Gen_RawPool.pvCreateRawMemPool is the size computation of DataTable::pvCreateRawMemPool (its argument is
   columnList.GetTotalSize()), Gen_MemPoolConst.CorrectBlockSize is what MemPoolParams' constructor does with that size;
   both regenerated from the headers on every run. *)
From Coq Require Import ZArith Lia Bool.
From MomoCommon Require Import GenPrelude.
From C19 Require Import Gen_UIntMath Gen_MemPoolConst Gen_RawPool.
Local Open Scope Z_scope.

(* the whole function: the pool is constructed with (max(totalSize, 8), alignment of the column list) *)
Lemma requested_params_spec ts al cl :
  pvCreateRawMemPool ts al cl = (Z.max (ts cl) 8, al cl, 0).
Proof.
  unfold pvCreateRawMemPool. destruct (Z.ltb_spec 8 (ts cl)); simpl; repeat f_equal; lia.
Qed.

Lemma ceil_ge v m : 0 <= v -> 0 < m -> v + m < 2 ^ 64 -> v <= Ceil v m.
Proof.
  intros Hv Hm Hb. unfold Ceil.
  rewrite (wrapU_small 64 (v + m)) by lia. rewrite (wrapU_small 64 (v + m - 1)) by lia.
  assert (D : v <= (v + m - 1) / m * m).
  { pose proof (Z.div_mod (v + m - 1) m ltac:(lia)) as E. pose proof (Z.mod_pos_bound (v + m - 1) m Hm). nia. }
  assert (U : (v + m - 1) / m * m <= v + m - 1).
  { pose proof (Z.div_mod (v + m - 1) m ltac:(lia)) as E. pose proof (Z.mod_pos_bound (v + m - 1) m Hm). nia. }
  rewrite wrapU_small; [exact D|]. split; [|lia].
  apply Z.mul_nonneg_nonneg; [apply Z.div_pos|]; lia.
Qed.

(* for EVERY column list (total size below 2^48 bytes), every alignment the pool accepts and every block count: the pool's
   block is at least as large as the row and at least as large as a pointer *)
Theorem raw_block_holds_link_word ts al cl C :
  0 <= ts cl < 2 ^ 48 -> 1 <= al cl <= 1024 ->
  let '(size, alignment, _) := pvCreateRawMemPool ts al cl in
  let block := CorrectBlockSize size alignment C in
  alignment = al cl /\ 8 <= block /\ ts cl <= block.
Proof.
  intros Ht Ha. rewrite requested_params_spec. cbv zeta. split; [reflexivity|]. unfold CorrectBlockSize.
  assert (P : 2 ^ 48 < 2 ^ 64) by (apply Z.pow_lt_mono_r; lia).
  destruct (Z.eqb_spec C 1).
  - destruct (Z.gtb_spec (Z.max (ts cl) 8) 0); lia.
  - destruct (Z.leb_spec (Z.max (ts cl) 8) (al cl)).
    + rewrite wrapU_small by lia. lia.
    + pose proof (ceil_ge (Z.max (ts cl) 8) (al cl) ltac:(lia) ltac:(lia) ltac:(lia)). lia.
Qed.

(* wave-2 seed C19-d / mutant M10 drop the max: then a one-byte row gets a block that cannot hold the link word *)
Theorem raw_block_without_max_refuted : CorrectBlockSize 1 1 1 < 8.
Proof. vm_compute. reflexivity. Qed.
