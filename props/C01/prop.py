"""C01 - hash set/map contents always equal the abstract set/map.
proof : Coq theorems about the executable model coq/HashModel.v (invariant, find <-> membership, refinement of every
        operation to the finite-map spec, traversal = permutation, all histories), for EVERY hash function, bucket capacity,
        probing scheme satisfying the stated range hypotheses, instantiated with the cxx2coq-regenerated leaves (HashInst.v).
tie   : T-gen (GetStartBucketIndex / GetNextBucketIndex / GetMaxProbe / UpdateMaxProbe / GetBucketCountShift regenerated from the
        headers on every run) + T-cor (extracted model vs the real HashSet/HashMap on random op scripts over all bucket kinds,
        incl. the internal shape: generation chain, per-bucket item order, WasFull, decoded max probe).
oracle: std::map twin inside the harness (independent of the Coq model)."""
import os, re

GEN = ['gen_p4base.json', 'gen_p4.json', 'gen_p4a.json', 'gen_one.json', 'gen_open2n2_ops.json', 'gen_openn1_ops.json', 'gen_unlimp.json', 'gen_limp1.json', 'gen_limp1t.json', 'gen_limp1f.json', 'gen_lim4.json', 'gen_limp.json', 'gen_open2n2w.json', 'gen_base.json', 'gen_policy.json', 'gen_limp4.json', 'gen_open2n2.json', 'gen_openn1.json', 'gen_open8.json',
       'gen_hashset_grow.json', 'gen_limp1_ops.json', 'gen_hs_add.json', 'gen_hs_findin.json', 'gen_hs_find.json']   # HashSet::Reserve / pvAddGrow size loops (config from props/C11)

ITEMS = {'a': (4, 4, 0), 'b': (8, 4, 0), 'c': (8, 8, 0), 'd': (24, 8, 0), 'e': (40, 8, 0), 'f': (16, 16, 0), 'g': (1, 1, 0),
         'h': (2, 2, 0), 'u': (4, 4, 0), 'z': (12, 4, 0), 't': (3, 1, 0), 'n': (8, 4, 1), 'm': (24, 8, 1), 'x': (8, 4, 2), 'y': (40, 8, 2)}

CONFIGS = {
    'harness1': ['S.L4.b.f', 'S.L4.b.q', 'S.L4.d.p', 'M.L4.a.p', 'S.L1.c.q', 'S.L2.a.p', 'S.L2.n.q'],
    'harness5': ['M.L3.x.q', 'S.L3.g.f', 'B.L4.b.q', 'T.L4.b.q', 'S.L4.b.v', 'S.L4.u.n', 'S.L4.z.p'],
    'harness6': ['S.N2.b.q', 'M.N4.a.q', 'S.N6.x.q', 'S.N7.b.q'],
    'harness2': ['S.LP8.c.q', 'S.LP8.b.f', 'M.LP4.a.q', 'S.LP3.d.p', 'S.LQ4.b.q', 'S.LQ2.c.f', 'M.LQ1.a.q', 'S.LF.b.q', 'M.LF.n.p',
                 'S.UP.b.q', 'M.UP.d.f', 'S.ON.b.q', 'S.ON.c.f', 'M.ON.a.p'],
    'harness3': ['S.O3.b.f', 'S.O3.b.q', 'M.O3.d.p', 'S.O2.a.p', 'S.O2.n.q', 'S.O1.c.q', 'M.O1.x.p', 'S.N3.b.q', 'M.N3.a.f',
                 'S.N1.c.q', 'S.N5.h.f', 'S.O3.b.v', 'M.O3.u.n', 'S.O3.t.q'],
    'harness4': ['S.O8.b.f', 'S.O8.b.q', 'M.O8.a.q', 'S.O8.e.q', 'S.O8.d.p', 'S.O8.f.f', 'M.O8.y.q', 'S.L4.e.q', 'S.L4.f.p',
                 'S.L4.h.f', 'M.L4.m.q', 'S.L4.x.q', 'T.O8.b.q', 'B.O8.c.p', 'S.O8.u.n'],
}
BIG = 2 ** 62


def params(name):
    """static facts about one harness configuration, mirrored from the headers (validated by the shape comparison)"""
    cont, kind, item, tr = name.split('.')
    SZ, AL, CAT = ITEMS[item]
    part = (tr == 'p')
    if cont == 'S':
        isz, ial = SZ, AL
    else:                                   # MapKeyValuePair<Key, Value>: uint32_t / BigVal (24, align 4) / StrVal (32, align 8)
        vsz, val = {'M': (4, 4), 'B': (24, 4), 'T': (32, 8)}[cont]
        ial = max(AL, val); isz = ((SZ + val - 1) // val * val + vsz + ial - 1) // ial * ial
    p = {'name': name, 'tagged': cont != 'S' or SZ >= 8, 'kmax': 2 ** (8 * min(4, SZ)), 'failinj': tr in 'qv' and kind != 'ON',
         'native': tr == 'n', 'isz': isz, 'ial': ial, 'cat': CAT, 'tr': tr, 'part': part,
         'map': cont != 'S', 'nomem': kind[0] in 'ON'}
    m = re.match(r'([A-Z]+)(\d*)$', kind); fam, N = m.group(1), int(m.group(2) or 0)
    p['fam'] = fam; p['N'] = N
    if fam == 'L':
        part1 = part and isz >= 4
        p['expect'] = 'LimP4<%d,%s>' % (N, 'part' if part1 else 'full')
        ita = ial if (not part1 or ial > 4) else 4
        minidx = 2 if (N > 1 and isz <= ita) else 1
        p.update(cap=N, wf0=int(minidx == N), thr=N, probing=1, bound=0, pol=0)
    elif fam == 'LP':
        useptr = (N <= 1) or (N <= 2 and isz % 2 == 0 and (isz > 2 or ial == 2)) or (N <= 4 and isz % 4 == 0 and (isz > 4 or ial == 4)) \
            or (N <= 8 and isz % 8 == 0 and (isz > 8 or ial == 8)) or (N <= 16 and isz % 16 == 0 and (isz > 16 or ial == 16))
        p['expect'] = 'LimP<%d,%s>' % (N, 'ptrstate' if useptr else 'plain')
        thr = N
        if useptr:
            minia = 1 if N <= 1 else 2 if N <= 2 else 4 if N <= 4 else 8 if N <= 8 else 16
            skipodd = N > 1 and isz <= max(ial, minia)
            if skipodd and N % 2 == 0: thr = N - 1
        p.update(cap=N, wf0=0, thr=thr, probing=0, bound=0, pol=0)
    elif fam == 'LQ':
        p['expect'] = 'LimP1<%d>' % N
        skipfirst = N > 1 and ial == isz
        p.update(cap=N, wf0=int(N == 1 or (N == 2 and skipfirst)), thr=N, probing=0, bound=0, pol=0)
    elif fam == 'LF':
        p['expect'] = 'Lim4<4>'
        p.update(cap=4, wf0=0, thr=4, probing=0, bound=0, pol=0)
    elif fam == 'UP':
        p['expect'] = 'UnlimP'
        p.update(cap=BIG, wf0=0, thr=BIG, probing=0, bound=1, pol=0)
    elif fam == 'ON':
        p['expect'] = 'One'
        p.update(cap=1, wf0=0, thr=1, probing=0, bound=0, pol=0)
    elif fam == 'O' and N != 8:
        p['expect'] = 'Open2N2<%d,%s>' % (N, 'part' if part else 'full')
        p.update(cap=N, wf0=1, thr=N, probing=2, bound=2, pol=1)
    elif fam == 'N':
        p['expect'] = 'OpenN1<%d>' % N
        p.update(cap=N, wf0=1, thr=N, probing=0, bound=N + 2, pol=2)
    elif fam == 'O' and N == 8:
        p['expect'] = ('Open2N2<3,%s>' % ('part' if part else 'full')) if (part or isz > 32) else 'Open8'
        if part or isz > 32: p.update(cap=3, wf0=1, thr=3, probing=2, bound=2, pol=3)
        else: p.update(cap=7, wf0=1, thr=7, probing=3, bound=9, pol=3)
    else:
        raise ValueError(name)
    return p


def calc_capacity(p, log):
    bc = 2 ** log; cap = p['cap']; pol = p['pol']
    if pol == 0: return bc * 5 // 8 if cap == 1 else bc + bc // 2 if cap == 2 else bc * 2
    if pol == 1: return bc * cap * 11 // 12
    if pol == 2: return bc * cap * 5 // 6
    return bc * cap * 13 // 14 if cap == 7 else bc * cap * 11 // 12


def min_log_start(p):
    l = 0
    while calc_capacity(p, l) < 1: l += 1
    return l


def gen_script(r, p, nops, style):
    """aimed random script: keys from a small universe (hits + misses), phases that cross growth thresholds,
    failure-injected relocations (multi-generation states), periodic full observations"""
    U = r.choice([6, 12, 24, 48, 100, 200, 400])
    kmax = p['kmax']
    keys = []
    mode = r.below(3)
    for i in range(U):
        if mode == 0: keys.append(i % kmax)
        elif mode == 1: keys.append(r.below(kmax))
        else: keys.append((i * 8 + r.below(2) * 1024) % kmax)
    keys = sorted(set(keys))
    live = set()
    ops = []
    val = lambda: r.below(1000) if p['tagged'] else 0
    grow_bias = {'grow': 80, 'churn': 50, 'fail': 65, 'shrink': 35}[style]
    while len(ops) < nops:
        x = r.below(1000)
        k = r.choice(keys)
        if x < 10 * grow_bias // 2:
            if style == 'fail' and p['failinj'] and r.chance(1, 4):
                ops.append('J %d %d %d' % (k, val(), r.below(max(1, len(live) + 2)))); live.add(k)
            elif p['nomem'] and r.chance(1, 7): ops.append('Z %d %d' % (k, val())); live.add(k)
            elif r.chance(1, 12): ops.append('%s %d %d' % (r.choice(['IF', 'IC']), k, val()))
            elif r.chance(1, 6): ops.append('A %d %d' % (k, val())); live.add(k)
            else: ops.append('I %d %d' % (k, val())); live.add(k)
        elif x < 10 * grow_bias // 2 + 150:
            ops.append('F %d' % k)
        elif x < 10 * grow_bias // 2 + 150 + (100 - grow_bias) * 4:
            ops.append('%s %d' % (r.choice(['R', 'P']), k)); live.discard(k)
        elif x < 900:
            y = r.below(100)
            if y < 6: ops.append('E %d' % k)
            elif y < 10: ops.append('X %d' % k)
            elif y < 12: ops.append('Q')
            elif y < 24 and p['tagged']: ops.append('K %d %d' % (k, val()))
            elif y < 34:
                m = r.range(2, 5); q = r.below(m); ops.append('%s %d %d' % (r.choice(['D', 'L']), m, q)); live = set(z for z in live if z % m != q)
            elif y < 44:
                n = len(live) + r.choice([0, 1, 2, 5, 17, 40, 100])
                if style == 'fail' and p['failinj'] and r.chance(1, 2): ops.append('W %d %d' % (n, r.below(max(1, len(live) + 1))))
                else: ops.append('V %d' % n)
            elif y < 50: ops.append('C %d' % r.below(2)); live = set()
            elif y < 58: ops.append('Y')
            elif y < 64: ops.append('M')
            elif y < 70: ops.append('S')
            elif y < 76: ops.append('G')
            elif y < 80: ops.append('U')
            elif y < 84: ops.append('B %d' % r.below(2))
            else: ops.append('N')
        elif x < 945: ops.append('T')
        elif x < 960: ops.append('O')
        elif x < 985: ops.append('N')
        else: ops.append('H')
    ops += ['Q', 'N', 'T', 'O', 'U', 'H']
    return ' '.join(ops)


def case_line(p, logstart, hashmode, script):
    return '%s %d %d %d %d %d %d %d %d | %s' % (p['name'], p['cap'], p['wf0'], p['thr'], p['probing'], p['bound'], p['pol'],
                                                logstart, hashmode, script)


def gen_cases(ctx, scale):
    """returns {tu: [case lines]}"""
    r = ctx.rng
    out = {}
    per_cfg = 22 * scale
    for tu, names in CONFIGS.items():
        cases = []
        for name in names:
            p = params(name)
            lmin = min_log_start(p)
            for i in range(per_cfg):
                style = ['grow', 'churn', 'fail', 'shrink'][i % 4]
                logstart = r.choice([lmin, lmin, lmin + 1, 2, 3, 4]); logstart = max(logstart, lmin)
                hashmode = i % 6 if i < 12 else r.below(6)
                if p['native']: logstart, hashmode = 4, 0        # the library's HashTraits: logStartBucketCount = 4, std::hash (identity)
                nops = r.choice([30, 80, 150, 300]) if scale == 1 else r.choice([80, 300, 1000, 3000])
                if p['cap'] == BIG and hashmode in (1, 3): nops = min(nops, 300)
                cases.append(case_line(p, logstart, hashmode, gen_script(r, p, nops, style)))
        out[tu] = cases
    # aimed: long probe chains under a constant hash (lossy max-probe encodings: > 7 for OpenN1/Open8, > 255 for Open2N2;
    # linear chains that wrap around the table), then removals in the middle of the chain and lookups behind the holes
    for name, n in (('S.O1.c.q', 300), ('S.O3.b.q', 160), ('S.N1.c.q', 60), ('S.O8.b.q', 120), ('S.ON.b.q', 60), ('S.L1.c.q', 60), ('S.L4.b.q', 120)):
        p = params(name); tu = [t for t, ns in CONFIGS.items() if name in ns][0]
        for hm in (1, 3):
            nn = n * (3 if scale > 1 else 1)
            ks = list(range(1, nn + 1)); r.shuffle(ks)
            ops = ['I %d %d' % (k, k % 1000) for k in ks]
            ops += ['N', 'H']
            rm = ks[::3]
            ops += ['%s %d' % (r.choice(['R', 'P']), k) for k in rm]
            ops += ['F %d' % k for k in ks[:40]] + ['F %d' % (nn + 5), 'T']
            ops += ['I %d 7' % k for k in rm[:20]] + ['D 2 0', 'T', 'Y', 'T', 'N', 'H']
            out[tu].append(case_line(p, max(min_log_start(p), 2), hm, ' '.join(ops)))
    # aimed: stored hash parts (LimP4 / Open2N2 hashProbes, BucketOne hash state) must follow the items through Bucket::Remove.
    # one bucket is given exactly cnt items whose hash codes differ only above the table's log (so the bytes that are stored
    # differ), each slot in turn is removed, the table is then grown (once / twice, within the same 8-doubling band for log 4)
    # and every key is looked up again; C 1 resets between the (cnt, slot) combinations.
    for tu, names in CONFIGS.items():
        for name in names:
            p = params(name)
            if not name.endswith('.p') or p['cap'] >= BIG or p['kmax'] < 2 ** 32: continue
            for ls in (4, 3, 2):
                if ls < min_log_start(p): continue
                for hm in (0, 5):
                    bc = 2 ** ls; step = bc if hm == 0 else max(1, bc // 32)
                    ops = []
                    cap = min(p['cap'], 4)
                    for cnt in range(1, cap + 1):
                        for slot in range(cnt):
                            for grow in ((1,) if (cnt + slot) % 3 else (1, 2)):
                                base = 5 % bc if hm == 0 else 0
                                ks = [base + step * (j + 1) * 3 + (step * 64 * j) for j in range(cnt)]
                                if hm == 5: ks = [k + (5 % bc) // 32 for k in ks]
                                vv = (lambda k: k % 997) if p['tagged'] else (lambda k: 0)
                                ops += ['I %d %d' % (k, vv(k)) for k in ks]
                                ops += ['R %d' % ks[slot]] if (cnt + slot) % 2 else ['P %d' % ks[slot]]
                                target = calc_capacity(p, ls + (grow - 1) * (2 if p['pol'] == 0 and p['cap'] >= 2 else 1)) + 2
                                fill = [100000 + 7 * i for i in range(target)]
                                ops += ['I %d %d' % (k, vv(k)) for k in fill]
                                ops += ['F %d' % k for k in ks] + ['N', 'T', 'H']
                                ops += ['R %d' % k for k in ks if k != ks[slot]][:1] + ['F %d' % k for k in ks] + ['C 1']
                    out[tu].append(case_line(p, ls, hm, ' '.join(ops)))
    # aimed (seed C01-d): a FAILED insertion (creator throws after writing the key bytes / the key copy throws) into a bucket that
    # already holds c = 0 .. maxCount-1 items -- in particular maxCount-1, where OpenN1/Open8 share the state byte with the last
    # short hash -- must leave nothing behind: count, find of the failed key, traversal, shape, and a retried insert succeeds
    for tu, names in CONFIGS.items():
        for name in names:
            p = params(name)
            if p['cap'] >= BIG: capn = 3
            else: capn = min(p['cap'], 7)
            ls = 4 if p['native'] else max(2, min_log_start(p))
            for hm in ((0,) if p['native'] else (0, 1)):
                bc = 2 ** ls
                vv = (lambda k: k % 997) if p['tagged'] else (lambda k: 0)
                ops = []
                for c in range(capn):
                    ks = [(1 + bc * (j + 1)) % p['kmax'] for j in range(c + 1)]
                    if len(set(ks)) != len(ks): continue
                    newk = ks[-1]; pre = ks[:-1]
                    ops += ['C 1'] + ['I %d %d' % (k, vv(k)) for k in pre]
                    for opn in ('IF', 'IC'):
                        ops += ['%s %d %d' % (opn, newk, vv(newk)), 'N', 'F %d' % newk, 'T', 'O', 'H']
                    if pre: ops += ['IF %d %d' % (pre[0], 5)]                 # present key: no creator call, "0"
                    ops += ['I %d %d' % (newk, vv(newk)), 'N', 'F %d' % newk, 'T']
                out[tu].append(case_line(p, ls, hm, ' '.join(ops)))
    # aimed (audit): fill the table to the LAST slot through the overload path (refused bucket-array allocation), so that
    # 'Hash table is full' is really reached (Xz), then remove / find / insert again and let it grow normally
    for tu, names in CONFIGS.items():
        for name in names:
            p = params(name)
            if not p['nomem'] or p['native']: continue
            for ls in (min_log_start(p), 3):
                ls = max(ls, min_log_start(p))
                for hm in (0, 1):
                    slots = p['cap'] * 2 ** ls
                    ks = list(range(1, slots + 4)); r.shuffle(ks)
                    vv = (lambda k: k % 997) if p['tagged'] else (lambda k: 0)
                    ops = ['Z %d %d' % (k, vv(k)) for k in ks] + ['N', 'T', 'H']
                    ops += ['F %d' % k for k in ks[:12]] + ['R %d' % ks[0], 'Z %d %d' % (ks[-1], 0), 'N']
                    ops += ['I %d %d' % (1000 + k, vv(k)) for k in range(1, 6)] + ['F %d' % k for k in ks[:12]] + ['N', 'T', 'O', 'H']
                    out[tu].append(case_line(p, ls, hm, ' '.join(ops)))
    # aimed (audit): growth across an 8-doubling band (log 8 -> 10 for shift 2, log 9 -> 10 for shift 1): the stored hash parts
    # cannot be used for the relocation, the full hash getter must be; and at least two growths with existing buckets
    for name in ('S.L4.d.p', 'S.L4.z.p', 'M.O3.d.p', 'S.O2.a.p', 'S.O8.d.p', 'S.L4.u.n', 'S.O8.u.n', 'M.O3.u.n'):
        p = params(name); tu = [t for t, ns in CONFIGS.items() if name in ns][0]
        n = calc_capacity(p, 9 if p['pol'] else 8) + 40
        vv = (lambda k: k % 997) if p['tagged'] else (lambda k: 0)
        ks = [3 * i + 1 for i in range(n)]
        ops = ['I %d %d' % (k, vv(k)) for k in ks] + ['N', 'H'] + ['F %d' % k for k in ks[::37]] + ['R %d' % k for k in ks[::5]]
        ops += ['F %d' % k for k in ks[::41]] + ['N', 'T']
        out[tu].append(case_line(p, 4, 0, ' '.join(ops)))
    return out


def reserve_cases(ctx):
    """boundary values of Reserve's numeric argument: 0, capacity-1, capacity, capacity+1, and the unreachable capacities
    2^62, 2^63, 2^63+1, SIZE_MAX (std::length_error expected; before /repo f76c2d4 the last two never returned)"""
    cs = []
    for name in ('S.L4.b.q', 'S.O3.b.q', 'S.ON.b.q', 'S.UP.b.q'):
        p = params(name); ls = max(2, min_log_start(p)); c0 = calc_capacity(p, ls)
        pre = ' '.join('I %d %d' % (k, k) for k in range(1, 4))
        for n in (0, 1, c0 - 1, c0, c0 + 1, 2 ** 62, 2 ** 63, 2 ** 63 + 1, 2 ** 64 - 1):
            cs.append(case_line(p, ls, 0, '%s V %d N F 2 V 0 I 9 9 N T H' % (pre, n)))
        cs.append(case_line(p, ls, 0, 'V 0 N V %d N I 1 1 V %d N T H' % (2 ** 64 - 1, 2 ** 63 + 1)))
    return cs


def leaf_cases(ctx, scale):
    r = ctx.rng
    cases = []
    for pol, mcs in ((0, [1, 2, 3, 4, 7, 8, BIG]), (1, [1, 2, 3]), (2, [1, 3, 5]), (3, [3, 7])):
        for mc in mcs:
            for log in range(0, 41 if scale > 1 else 33):
                if pol == 0 and mc == BIG: cases.append('cap 0 %d %d' % (2 ** 64 - 1, log))
                else: cases.append('cap %d %d %d' % (pol, mc, log))
    for i in range(600 * scale):
        log = r.range(0, 40); bc = 2 ** log
        hc = r.choice([r.below(2 ** 64), r.below(bc * 4), 2 ** 64 - 1, 0, bc - 1, bc])
        cases.append('sh %d %d' % (r.below(4), r.choice([r.below(2 ** 64), 2 ** 64 - 1, 0, r.below(2 ** 40), 2 ** 63, (2 ** 57) * r.below(128) + r.below(2 ** 57)])))
        cases.append('idx %d %d %d %d %d' % (r.below(4), hc, log, r.choice([r.below(bc), bc - 1, 0]), r.choice([r.below(bc), 1, bc - 1])))
    return cases


def open8_cases(ctx, scale):
    """BucketOpen8::Find, SSE2 byte match: every pattern of 7 slot bytes over the alphabet {short hash, another hash, empty (248)}
    plus random bytes; compared = the order of the itemPred calls"""
    r = ctx.rng
    cases = []
    import itertools
    for sh, other in ((5, 6), (0, 247)) if scale == 1 else ((5, 6), (0, 247), (247, 0), (100, 228)):
        for pat in itertools.product((sh, other, 248), repeat=7):
            cases.append('o8 %d %s' % (sh, ' '.join(map(str, pat))))
    for i in range(500 * scale):
        sh = r.below(248)
        cases.append('o8 %d %s' % (sh, ' '.join(str(r.choice([sh, r.below(256), 248 + r.below(8)])) for _ in range(7))))
    return cases


def n1ops_cases(ctx, scale):
    """byte-for-byte: random AddCrt / Remove / Clear / UpdateMaxProbe sequences on a real BucketOpenN1<N, reverse> object vs the
    generated Gen_OpenN1_ops functions (the ones OpenN1Ops.v proves to refine the list-level bucket)"""
    r = ctx.rng
    cs = []
    for (N, R) in ((2, 1), (4, 0), (6, 1), (7, 0)):
        for i in range(60 * scale):
            ops = []
            for _ in range(r.range(1, 40)):
                x = r.below(10)
                if x < 5: ops.append('a%d' % r.choice([r.below(2 ** 64), r.below(2 ** 40), (r.below(248) << 56) + r.below(2 ** 40)]))
                elif x < 8: ops.append('r%d' % r.below(N))
                elif x < 9: ops.append('u%d' % r.choice([r.below(8), r.below(300), r.below(2 ** 20)]))
                else: ops.append('c')
            cs.append('n1 %d %d %s' % (N, R, ' '.join(ops)))
    for M in (1, 2, 3):          # BucketOpen2N2<M, hash-code-part getter>: encoded as n1 3M
        for i in range(60 * scale):
            ops = []
            for _ in range(r.range(1, 40)):
                x = r.below(10)
                if x < 5: ops.append('a%d' % r.choice([r.below(2 ** 64), r.below(2 ** 40), (r.below(128) << 57) + r.below(2 ** 40)]))
                elif x < 8: ops.append('r%d' % r.below(M))
                elif x < 9: ops.append('u%d' % r.choice([r.below(8), r.below(300), r.below(2 ** 20), 2 ** 40 + r.below(99)]))
                else: ops.append('c')
            cs.append('n1 %d 0 %s' % (30 + M, ' '.join(ops)))
    return cs


def p4ops_cases(ctx, scale):
    """byte-for-byte: random AddCrt / Remove / Clear sequences on a real BucketLimP4<4, part getter> (real memory pools) vs the generated
    Gen_P4A functions (hashCount 4 = 64 useful pointer bits with MemManagerDefault on this platform; a different value shows up as a mismatch)"""
    r = ctx.rng
    cs = []
    for i in range(150 * scale):
        ops = []
        for _ in range(r.range(1, 40)):
            x = r.below(10)
            if x < 6: ops.append('a%d' % r.choice([r.below(2 ** 64), r.below(2 ** 40), (r.below(128) << 57) + r.below(2 ** 40)]))
            elif x < 9: ops.append('r%d' % r.below(4))
            else: ops.append('c')
        cs.append('n1 40 4 %s' % ' '.join(ops))
    # the chained kind BucketLimP1 (real memory pools) vs Gen_LimP1_ops: (maxCount, skipFirstMemPool) = (1,0) (2,1) (4,1) uint64_t items, (2,0) (3,0) 16-byte items
    for i in range(100 * scale):
        n, sk = r.choice([(1, 0), (2, 1), (4, 1), (2, 0), (3, 0)])
        ops = []
        for _ in range(r.range(1, 30)):
            ops.append('a' if r.below(10) < 6 else 'r%d' % r.below(n))
        cs.append('n1 41 %d %d %s' % (n, sk, ' '.join(ops)))
    return cs


def kind_cases(ctx):
    """translator validation of the per-kind leaves (LimP1 / Lim4 / LimP WasFull rules, pool-index functions, Lim4 packing)"""
    r = ctx.rng
    cs = ['kf 0 %d' % st for st in range(256) if (st & 15) <= 4 and 1 <= (st >> 4) <= 4]
    cs += ['kf 1 %d' % c for c in range(1, 5)] + ['kf 5 %d' % c for c in range(1, 9)]
    cs += ['kf 2 0', 'kf 2 1'] + ['kf 2 %d' % ((i << 30) + r.below(2 ** 28)) for i in range(4) for _ in range(20)]
    cs += ['kf 3 %d %d %d' % (r.below(2 ** 26), i, c) for i in range(1, 5) for c in range(1, i + 1) for _ in range(8)]
    cs += ['kf 6 %d' % hc for hc in [0, 1, 2 ** 63, 2 ** 64 - 1] + [r.below(2 ** 64) for _ in range(30)]]
    cs += ['kf 4 0', 'kf 4 1'] + ['kf 4 %d' % (r.range(1, 2 ** 40) * 8 + j) for j in range(8) for _ in range(10)]
    return cs


def oracle_scan(ctx, cases, lines, tu):
    """the independent oracle: the std::map twin inside the harness flags ORACLE!..., exceptions print X"""
    bad = []
    for c, o in zip(cases, lines):
        if 'ORACLE!' in o or re.search(r'(^| )X( |$)', o) or o.startswith('?'):
            m = re.search(r'ORACLE!\S+', o)
            bad.append((c, o, 'std::map twin disagrees with the container: %s' % m.group(0) if m else 'unexpected exception / unparsable case'))
        logs = [int(x) for x in re.findall(r'(?:^| )g(\d+):', o)]
        ls = int(c.split()[7])
        if any(l > ls for l in logs) or ' g' in o.split('{')[-1]:
            ctx.nontrivial.add(c)
    return bad


def build(ctx):
    """build the harness TUs in parallel; a TU is rebuilt only when its inputs changed (key = sha256 of the harness sources,
    every header under <repo>/include/momo, the tier) - the binary is a function of exactly these"""
    import hashlib, glob
    hh = hashlib.sha256()
    for f in sorted(glob.glob(os.path.join(ctx.repo, 'include', 'momo', '**', '*.h'), recursive=True)) + \
            [os.path.join(ctx.pdir, 'c01_harness.h'), os.path.join(ctx.root, 'harness', 'private_access.h')]:
        hh.update(f.encode()); hh.update(open(f, 'rb').read())
    hh.update(ctx.tier.encode())
    res = {}; jobs = []
    for tu in CONFIGS:
        k = hashlib.sha256(hh.digest() + open(os.path.join(ctx.pdir, tu + '.cpp'), 'rb').read()).hexdigest()
        exe = os.path.join(ctx.build, tu + ('.san' if ctx.tier == 'thorough' else ''))
        keyf = exe + '.key'
        if os.path.exists(exe) and os.path.exists(keyf) and open(keyf).read() == k and os.environ.get('VERIF_NO_CACHE') != '1':
            res[tu] = exe
        else:
            if os.path.exists(keyf): os.remove(keyf)
            jobs.append((tu + '.cpp', tu, ['-O0', '-g0'] if ctx.quick() else [])); res[tu] = ('build', k)
    if jobs:
        built = ctx.cxx_many(jobs)
        for tu, v in built.items():
            if v is None:
                ctx.stage('build-harness', False, getattr(ctx, 'last_cxx_error', ''))
                return None
            open(v + '.key', 'w').write(res[tu][1]); res[tu] = v
    ctx.coverage['harness_rebuilt'] = [j[1] for j in jobs]
    return res


def _regen_one(args):
    """worker of regen_parallel (separate process: cxx2coq keeps per-translation globals)"""
    import json, cxx2coq
    pdir, cf, repo = args
    cfg = json.load(open(os.path.join(pdir, cf)))
    cfg.setdefault('includes', [os.path.join(repo, 'include')])
    try:
        return (cfg['name'], True, cxx2coq.translate_group(cfg, repo=repo))
    except cxx2coq.TranslationError as e:
        return (cfg['name'], False, str(e))


def regen_parallel(ctx, cfg_files):
    """the same as ctx.regen (same translator call per config, same files, same tie obligations, same stage), with the clang AST dumps
    of the 27 configurations running in 8 processes instead of one after the other (cold-time); any trouble with the pool -> ctx.regen"""
    import multiprocessing, hashlib
    try:
        with multiprocessing.get_context('fork').Pool(8) as pool:
            results = pool.map(_regen_one, [(ctx.pdir, cf, ctx.repo) for cf in cfg_files])
    except Exception:
        return ctx.regen(cfg_files)
    ok = True; details = []
    for name, good, txt in results:
        out = os.path.join(ctx.cdir, name + '.v')
        if good:
            old = open(out).read() if os.path.exists(out) else None
            if old != txt:
                open(out, 'w').write(txt)
            ctx.tie_obligations.append({'name': 'translate ' + name, 'ok': True, 'sha256': hashlib.sha256(txt.encode()).hexdigest()[:16]})
        else:
            ok = False; details.append('%s: %s' % (name, txt))
            if os.path.exists(out):
                os.remove(out)      # a stale model must not keep the proofs green
            ctx.tie_obligations.append({'name': 'translate ' + name, 'ok': False, 'error': txt[:500]})
    ctx.stage('regen', ok, '\n'.join(details))
    return ok


def replay(ctx, rp):
    exes = build(ctx)
    if exes is None:
        print('harness does not build'); return 2
    case = rp.get('case')
    if not case:
        print('replay has no concrete case (no-failing-input-found): broken stages were', list(rp.get('broken', {}).keys())); return 1
    tu = rp.get('tu') or [t for t, ns in CONFIGS.items() if case.split()[0] in ns][0]
    path = os.path.join(ctx.build, 'replay.cases'); open(path, 'w').write(case + '\n')
    rc, lines, err = ctx.run_lines([exes[tu]], path, timeout=rp.get('timeout', 900))
    print('case:', case[:400], '\nimplementation:', (lines[0] if lines else err)[:2000])
    bad = oracle_scan(ctx, [case], lines, tu) if rc == 0 and lines else [(case, err, 'harness crashed')]
    if rp.get('timeout') and rc == 0 and lines:
        bad = []        # a Reserve boundary case: the expected std::length_error prints X; the failure being replayed is "does not return"
    model_bad = False
    if rp.get('model') is not None and lines and lines[0][:3000] != rp['model']:
        print('model (recorded):', rp['model'][:2000]); model_bad = True
    if bad or model_bad:
        print('VIOLATION property=C01 replay=%s' % ctx.replay); return 1
    print('property holds on this case'); return 0


def run(ctx):
    scale = 1 if ctx.quick() else 6
    ctx.trusted += ['tools/cxx2coq.py + clang 14 JSON AST (generated leaves validated against the real functions on every run)',
                    'extraction: ExtrOcamlBasic only (Extraction Blacklist List only renames a file), OCaml 4.13.1, zarith for decimal I/O only',
                    'ocaml/driver.ml sequences the composite operations (extract+reinsert, swap, MergeTo) out of model steps',
                    'g++ 12 -std=c++17, harness reaches private members via #define private public',
                    'prop.py params(): per-configuration constants (maxCount, initial WasFull, probing kind) mirrored from the headers, validated by the shape comparison']
    ctx.assumptions += ['keys are compared by id only, the hash is a function of the id (HashTraits contract)',
                        'short-hash filters / SSE2 byte match / pointer-state packing inside Bucket::Find are modelled by their contract (item with equal key is found in its bucket) and tied by correspondence only',
                        'CalcCapacity floating-point formulas are mirrored in integer arithmetic and compared for bucket counts 2^0..2^40, not proved',
                        'memory allocation does not fail (the bad_alloc fallback of pvAddGrow is not modelled); relocation failures are modelled by an arbitrary failure point']
    # cold-time: the harness TUs (g++) are built while the translator and Coq run; nothing below depends on the order
    import threading
    box = {}
    th = threading.Thread(target=lambda: box.__setitem__('exes', build(ctx)))
    th.start()
    regen_parallel(ctx, GEN)
    ctx.prove()
    th.join()
    exes = box.get('exes')
    if exes is None:
        return ctx.finish(rule=RULE)
    # ---- configuration audit: what each harness configuration REALLY instantiates (bucket class, sizes, categories, crew)
    audit_bad = []; audit = {}
    for tu, names in CONFIGS.items():
        path = os.path.join(ctx.build, 'info-%s.cases' % tu)
        open(path, 'w').write('\n'.join('%s info 0 0 0 0 0 4 0 |' % n for n in names) + '\n')
        rc, lines, err = ctx.run_lines([exes[tu]], path, timeout=60)
        for n, l in zip(names, lines):
            p = params(n); f = dict(x.split('=', 1) for x in l.split() if '=' in x); audit[n] = l
            want = {'bucket': p['expect'], 'max': 'inf' if p['cap'] >= BIG else str(p['cap']), 'isz': str(p['isz']), 'ial': str(p['ial']),
                    'version': '0' if p['tr'] == 'v' else '1', 'crewsize': '1' if p['tr'] == 'v' else '8',
                    'fast': '1' if p['tr'] in 'fn' else '0', 'itemnr': '0' if p['cat'] == 2 else '1', 'trivreloc': '1' if p['cat'] == 0 else '0'}
            for k, v in want.items():
                if f.get(k) != v: audit_bad.append('%s: %s=%s, intended %s' % (n, k, f.get(k), v))
        if rc != 0 or len(lines) != len(names): audit_bad.append('%s: info run failed' % tu)
    ctx.stage('config-audit', not audit_bad, '; '.join(audit_bad[:6]))
    ctx.tie_obligations.append({'name': 'every harness configuration instantiates the intended bucket class / item size / category / crew (%d configurations)' % len(audit), 'ok': not audit_bad})
    ctx.coverage['configurations_instantiated'] = audit
    have_model = ctx.stages.get('prove', {}).get('ok') and ctx.extract()
    cases = gen_cases(ctx, scale)
    if any(not s['ok'] for s in ctx.stages.values()):
        ctx.log('a stage broke: searching the implementation for a failing input with the thorough generator')
        more = gen_cases(ctx, 4)
        for tu in cases: cases[tu] += more[tu]
    leaves = leaf_cases(ctx, scale)
    global MEAS
    MEAS = {}
    TMO = int(os.environ.get('C01_TMO', '240' if ctx.quick() else '2400'))      # a hanging container operation (e.g. an endless probe / iterator loop) is a failure too
    hist = {}
    for tu, cs in cases.items():
        impl_lines = None
        if have_model:
            mism, (rc1, e1, rc2, e2) = ctx.correspond('scripts-' + tu, cs, [exes[tu]], [ctx.model_exe], timeout=TMO)
            ctx.tie_obligations.append({'name': 'extracted model == real HashSet/HashMap on %d scripts (%s: %s)' % (len(cs), tu, ' '.join(CONFIGS[tu])), 'ok': not mism and rc1 == 0 and rc2 == 0})
            for (i, c, a, b) in mism[:2]:
                ctx.violation('model and implementation disagree (configuration %s)' % c.split()[0],
                              {'case': c, 'tu': tu, 'impl': a[:3000], 'model': b[:3000], 'first_diff': first_diff(a, b)}, found_input=True)
        path = os.path.join(ctx.build, 'oracle-%s.cases' % tu)
        open(path, 'w').write('\n'.join(cs) + '\n')
        rc, lines, err = ctx.run_lines([exes[tu]], path, timeout=TMO)
        if not have_model: ctx.evaluations += len(cs)
        bad = oracle_scan(ctx, cs, lines, tu) if rc == 0 and len(lines) == len(cs) else [(cs[min(len(lines), len(cs) - 1)], err[-400:], 'harness crashed (exit %d) on or after this case' % rc)]
        ctx.stage('oracle-' + tu, not bad, bad[0][2] if bad else '')
        for (c, o, why) in bad[:2]:
            ctx.violation(why, {'case': c, 'tu': tu, 'impl_output': o[:3000]}, found_input=True)
        for c in cs:
            for t in c.split('|', 1)[1].split():
                if t.isalpha(): hist[t] = hist.get(t, 0) + 1
        # measured (from the implementation's own outputs): growths, multi-generation states, overload exceptions, largest table
        for c, o in zip(cs, lines if rc == 0 else []):
            w = c.split(); m = MEAS.setdefault(w[0], {'scripts': 0, 'ops': 0, 'growth_events': 0, 'scripts_with_2_growths': 0, 'multi_generation_states': 0,
                                                       'table_full_exceptions': 0, 'max_log': 0, 'hash_modes': {}, 'start_logs': {}})
            m['scripts'] += 1; m['ops'] += sum(1 for t in c.split('|', 1)[1].split() if t.isalpha())
            m['hash_modes'][w[8]] = m['hash_modes'].get(w[8], 0) + 1; m['start_logs'][w[7]] = m['start_logs'].get(w[7], 0) + 1
            shapes = re.findall(r'((?:g\d+:\S*)(?: g\d+:\S*)*)', o)
            logs_seq = []
            for sh in shapes:
                gl = [int(x) for x in re.findall(r'g(\d+):', sh)]
                if len(gl) > 1: m['multi_generation_states'] += 1
                logs_seq.append(gl[0]); m['max_log'] = max(m['max_log'], max(gl))
            ups = sum(1 for a, b in zip(logs_seq, logs_seq[1:]) if b > a) + (1 if logs_seq and logs_seq[0] > int(w[7]) else 0)
            m['growth_events'] += ups
            if ups >= 2: m['scripts_with_2_growths'] += 1
            m['table_full_exceptions'] += len(re.findall(r'(?:^| )Xz(?= |$)', o))
        ctx.add_sample(cs[0][:300])
    if have_model:
        mism, _ = ctx.correspond('leaves', leaves, [exes['harness3']], [ctx.model_exe])
        ctx.tie_obligations.append({'name': 'generated index + short-hash functions / hand-mirrored CalcCapacity == real functions on %d cases' % len(leaves), 'ok': not mism})
        for (i, c, a, b) in mism[:2]:
            ctx.violation('leaf function of the model and of the implementation disagree', {'case': c, 'tu': 'harness3', 'impl': a, 'model': b}, found_input=True)
    if have_model:
        rcs = reserve_cases(ctx)
        by = {}
        for c in rcs: by.setdefault([t for t, ns in CONFIGS.items() if c.split()[0] in ns][0], []).append(c)
        for tu, cs in by.items():
            mism, (rc1, e1, rc2, e2) = ctx.correspond('reserve-bounds-' + tu, cs, [exes[tu]], [ctx.model_exe], timeout=10 + 2 * len(cs))
            ctx.tie_obligations.append({'name': 'Reserve boundary values (0, capacity+-1, 2^62, 2^63, 2^63+1, SIZE_MAX): model == real on %d cases (%s)' % (len(cs), tu), 'ok': not mism and rc1 == 0})
            for (i, c, a, b) in mism[:1]:
                ctx.violation('Reserve with a boundary capacity: the container hangs / disagrees with the model (expected std::length_error for unreachable capacities)',
                              {'case': c, 'tu': tu, 'impl': a[:500], 'model': b[:500]}, found_input=True)
    if not have_model:
        # the proof broke (e.g. the regenerated Reserve / pvAddGrow size loops lost their bound): the boundary capacities are still run
        # against the implementation alone; a Reserve that does not return within the short timeout is the concrete failing input
        rcs = reserve_cases(ctx)
        by = {}
        for c in rcs: by.setdefault([t for t, ns in CONFIGS.items() if c.split()[0] in ns][0], []).append(c)
        for tu, cs in by.items():
            path = os.path.join(ctx.build, 'reserve-bounds-%s.cases' % tu)
            open(path, 'w').write('\n'.join(cs) + '\n')
            rc, lines, err = ctx.run_lines([exes[tu]], path, timeout=10 + 2 * len(cs))
            ctx.evaluations += len(cs)
            okb = rc == 0 and len(lines) == len(cs)
            ctx.stage('oracle-reserve-bounds-' + tu, okb, '' if okb else 'Reserve does not return / harness exit %d on case: %s' % (rc, cs[min(len(lines), len(cs) - 1)][:200]))
            if not okb:
                ctx.violation('Reserve with a boundary capacity: the container does not return (expected std::length_error for unreachable capacities)',
                              {'case': cs[min(len(lines), len(cs) - 1)], 'tu': tu, 'timeout': 20, 'impl_output': err[-300:]}, found_input=True)
    if have_model:
        n1c = n1ops_cases(ctx, scale)
        mism, _ = ctx.correspond('openn1-ops-bytes', n1c, [exes['harness6']], [ctx.model_exe])
        ctx.tie_obligations.append({'name': 'generated BucketOpenN1 and BucketOpen2N2 AddCrt / Remove / Clear / UpdateMaxProbe == real objects, byte for byte, on %d random op sequences' % len(n1c), 'ok': not mism})
        for (i, c, a, b) in mism[:2]:
            ctx.violation('BucketOpenN1 byte state after an operation sequence differs from the generated model', {'case': c, 'tu': 'harness6', 'impl': a, 'model': b}, found_input=True)
    if have_model:
        p4c = p4ops_cases(ctx, scale)
        mism, _ = ctx.correspond('limp4-ops-bytes', p4c, [exes['harness5']], [ctx.model_exe])
        ctx.tie_obligations.append({'name': 'generated BucketLimP4 AddCrt / Remove / Clear == real object (metadata bytes, pool-index bits, null pointer) and generated BucketLimP1 AddCrt / Remove / IsFull / WasFull == real object (mState, null pointer, returned position; 5 (maxCount, skipFirstMemPool) instances), on %d random op sequences' % len(p4c), 'ok': not mism})
        for (i, c, a, b) in mism[:2]:
            ctx.violation('BucketLimP4 metadata after an operation sequence differs from the generated model', {'case': c, 'tu': 'harness5', 'impl': a, 'model': b}, found_input=True)
    if have_model:
        kc = kind_cases(ctx)
        mism, _ = ctx.correspond('kind-leaves', kc, [exes['harness2']], [ctx.model_exe])
        ctx.tie_obligations.append({'name': 'generated per-kind leaves (LimP1 / Lim4 / LimP WasFull, pool index, Lim4 packing) == real functions on %d cases' % len(kc), 'ok': not mism})
        for (i, c, a, b) in mism[:2]:
            ctx.violation('per-kind leaf of the model and of the implementation disagree', {'case': c, 'tu': 'harness2', 'impl': a, 'model': b}, found_input=True)
    if have_model:
        o8 = open8_cases(ctx, scale)
        mism, _ = ctx.correspond('open8-match', o8, [exes['harness4']], [ctx.model_exe])
        ctx.tie_obligations.append({'name': 'Open8 SSE2 byte match: itemPred call order of the real Find == visit (movemask) on %d byte patterns' % len(o8), 'ok': not mism})
        for (i, c, a, b) in mism[:2]:
            ctx.violation('BucketOpen8::Find visits other slots / another order than the byte-match model', {'case': c, 'tu': 'harness4', 'impl': a, 'model': b}, found_input=True)
        # independent of the model: the visited slots must be exactly the slots whose byte equals the short hash, increasing
        path = os.path.join(ctx.build, 'open8-match.cases')
        rc, lines, err = ctx.run_lines([exes['harness4']], path)
        bad8 = []
        for c, o in zip(o8, lines):
            w = c.split(); exp = ','.join(str(i) for i in range(7) if w[2 + i] == w[1])
            if o != exp: bad8.append((c, o, exp)); break
        ctx.stage('oracle-open8-match', not bad8 and rc == 0, ('case %s: visited %s expected %s' % bad8[0]) if bad8 else '')
        for (c, o, exp) in bad8[:1]:
            ctx.violation('BucketOpen8::Find does not visit exactly the slots with an equal short-hash byte', {'case': c, 'tu': 'harness4', 'impl_output': o, 'expected': exp}, found_input=True)
    meas = ctx.coverage.setdefault('measured', {})
    ctx.coverage['input_distribution'] = {'measured_per_configuration': MEAS, 'scripts': sum(len(v) for v in cases.values()), 'configurations': sum(len(v) for v in CONFIGS.values()),
                                          'op_histogram': hist, 'leaf_cases': len(leaves)}
    return ctx.finish(rule=RULE)


def first_diff(a, b):
    x, y = a.split(' '), b.split(' ')
    for i in range(max(len(x), len(y))):
        u = x[i] if i < len(x) else '<end>'; v = y[i] if i < len(y) else '<end>'
        if u != v: return {'token': i, 'impl': u[:200], 'model': v[:200]}
    return None


MEAS = {}
RULE = ('scripts = aimed random op scripts (insert / add-at-position / find / remove by key, position, predicate / extract+reinsert / '
        'set value + ResetKey / Reserve / Clear / copy / move-assign / swap / MergeTo / extract into and insert from a holder / insert with refused allocation / failure-injected relocations; + aimed families: long constant-hash chains, stored-hash-part buckets removed slot by slot then grown) over 61 container '
        'configurations (17 bucket kinds x set/map x item size, alignment, category x hash-code-part getter) x 6 hash distributions x '
        'start sizes from the smallest legal table; every script ends with count, full traversal and the internal shape; '
        'distinct = distinct case line; non-trivial = the table grew at least once or reached a multi-generation state')
