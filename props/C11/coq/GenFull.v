(* C11 -- "insertion refused only if every bucket is full", down to the GENERATED IsFull of the open-addressing buckets.
   Gen_Open2N2_ops / Gen_OpenN1_ops (IsFull, pvGetCount, AddCrt, Remove, pvSetEmpty of BucketOpen2N2<3> and of
   BucketOpenN1 = BucketOpen8's base) are regenerated from the headers on every run; BucketOps.v (copied from C13) proves on
   the real bytes: IsFull <-> count bits = maxCount, AddCrt / Remove / pvSetEmpty keep the byte invariant and change the
   count by +1 / -1 / to 0.  Here: the abstraction relation between a real bucket's bytes and the hand model's bucket
   (number of items), its preservation by the generated operations, and the lifting of
   insert_fails_only_if_every_slot_taken to the generated IsFull of every bucket of the real table. *)
From Coq Require Import ZArith List Lia Bool Permutation.
From MomoCommon Require Import GenPrelude.
From C11 Require Import GrowModel.
From C11 Require Gen_Open2N2_ops Gen_OpenN1_ops BucketOps.
Import ListNotations.
Local Open Scope Z_scope.

Section FullTie.
  Variable B : Type.

  (* ---------------- BucketOpen2N2<3> ---------------- *)
  Definition rel_o2 (d : BucketOps.O2.st) (b : bucket B) : Prop :=
    BucketOps.O2.good d /\ BucketOps.O2.cnt d = blen B b /\ 0 <= BucketOps.O2.cnt d <= 3.

  Lemma o2_full_agrees : forall d b, rel_o2 d b -> BucketOps.O2.full d = isFull B 3 b.
  Proof.
    intros d b (G & C & R). unfold isFull. rewrite <- C.
    pose proof (BucketOps.O2.full_iff d G R) as F.
    destruct (BucketOps.O2.full d); destruct (Z.leb_spec 3 (BucketOps.O2.cnt d)); auto.
    - assert (BucketOps.O2.cnt d = 3) by (apply F; auto). lia.
    - assert (true = false -> False) by discriminate. assert (BucketOps.O2.cnt d = 3) by lia. apply F in H1. discriminate.
  Qed.

  Lemma o2_empty : forall wf0 (b0 : B), rel_o2 BucketOps.O2.empty (emptyB B b0 wf0).
  Proof.
    intros. destruct BucketOps.O2.empty_good as (G & C & _). unfold rel_o2. rewrite C. unfold blen; simpl. split; [exact G|]. split; [reflexivity|lia].
  Qed.

  (* AddCrt on the real bytes <-> one more item in the model bucket (pvAddNogrow only adds to a bucket that is not full) *)
  Lemma o2_add : forall a d b k wf bd, rel_o2 d b -> isFull B 3 b = false ->
    rel_o2 (BucketOps.O2.addP a d) (mkB B (items B b ++ [k]) wf bd).
  Proof.
    intros a d b k wf bd (G & C & R) NF. unfold isFull in NF. apply Z.leb_gt in NF.
    destruct (BucketOps.O2.add_spec a d G ltac:(lia)) as (G' & _ & C'). unfold rel_o2. rewrite C'. unfold blen in *; simpl.
    rewrite app_length; simpl. split; [exact G'|]. split; lia.
  Qed.

  (* Remove on the real bytes <-> one item less *)
  Lemma o2_remove : forall a d d' b its wf bd, rel_o2 d b -> (0 < length (items B b))%nat ->
    BucketOps.O2.remP a d = Some d' -> S (length its) = length (items B b) -> rel_o2 d' (mkB B its wf bd).
  Proof.
    intros a d d' b its wf bd (G & C & R) NE H L. unfold blen in *.
    destruct (BucketOps.O2.rem_spec a d d' G ltac:(lia) H) as (G' & _ & C'). unfold rel_o2, blen. rewrite C'. simpl. split; [exact G'|]. split; lia.
  Qed.

  (* ---------------- BucketOpenN1<maxCount, reverse> (BucketOpen8 = maxCount 7, reverse false) ---------------- *)
  Section N1.
    Variable rv : bool.
    Variable mc : Z.
    Hypothesis Hmc : 1 <= mc <= 7.

    Definition rel_n1 (d : Z -> Z) (b : bucket B) : Prop := BucketOps.N1.good rv mc d /\ BucketOps.N1.cnt rv mc d = blen B b.

    Lemma n1_full_agrees : forall d b, rel_n1 d b -> Gen_OpenN1_ops.IsFull rv mc d = isFull B mc b.
    Proof.
      intros d b (G & C). unfold isFull. rewrite <- C.
      pose proof (BucketOps.N1.full_iff rv mc Hmc d G) as F. pose proof (BucketOps.N1.cnt_range rv mc Hmc d G) as R.
      destruct (Gen_OpenN1_ops.IsFull rv mc d); destruct (Z.leb_spec mc (BucketOps.N1.cnt rv mc d)); auto.
      - assert (BucketOps.N1.cnt rv mc d = mc) by (apply F; auto). lia.
      - assert (BucketOps.N1.cnt rv mc d = mc) by lia. apply F in H0. discriminate.
    Qed.

    Lemma n1_add : forall a d b k wf bd, rel_n1 d b -> isFull B mc b = false ->
      rel_n1 (BucketOps.N1.addP rv mc a d) (mkB B (items B b ++ [k]) wf bd).
    Proof.
      intros a d b k wf bd (G & C) NF. unfold isFull in NF. apply Z.leb_gt in NF.
      pose proof (BucketOps.N1.cnt_range rv mc Hmc d G) as R.
      destruct (BucketOps.N1.add_spec rv mc Hmc a d G ltac:(lia)) as (G' & _ & C'). unfold rel_n1. rewrite C'. unfold blen in *; simpl.
      rewrite app_length; simpl. split; auto; lia.
    Qed.

    Lemma n1_remove : forall a d d' b its wf bd, rel_n1 d b -> (0 < length (items B b))%nat ->
      BucketOps.N1.remP rv mc a d = Some d' -> S (length its) = length (items B b) -> rel_n1 d' (mkB B its wf bd).
    Proof.
      intros a d d' b its wf bd (G & C) NE H L. unfold blen in *.
      pose proof (BucketOps.N1.cnt_range rv mc Hmc d G) as R.
      destruct (BucketOps.N1.rem_spec rv mc Hmc a d d' G ltac:(lia) H) as (G' & _ & C'). unfold rel_n1, blen. rewrite C'. simpl. split; auto; lia.
    Qed.

    Lemma n1_empty : forall wf0 (b0 : B) d, rel_n1 (Gen_OpenN1_ops.pvSetEmpty mc d) (emptyB B b0 wf0).
    Proof.
      intros. destruct (BucketOps.N1.empty_good rv mc Hmc d) as (G & C & _). unfold rel_n1. rewrite C. unfold blen; simpl. auto.
    Qed.
  End N1.

  (* ---------------- lifting to whole tables ---------------- *)
  (* a real bucket array (its bytes) represents the model table: bucket by bucket *)
  Lemma all_full_o2 : forall (ds : list BucketOps.O2.st) (bs : list (bucket B)), Forall2 rel_o2 ds bs ->
    ((forall b, In b bs -> isFull B 3 b = true) <-> (forall d, In d ds -> BucketOps.O2.full d = true)).
  Proof.
    induction 1; split; intros HA z Hz; simpl in Hz; try tauto; destruct Hz as [Hz|Hz]; subst.
    - rewrite (o2_full_agrees _ _ H). apply HA; simpl; auto.
    - apply IHForall2; auto. intros; apply HA; simpl; auto.
    - rewrite <- (o2_full_agrees _ _ H). apply HA; simpl; auto.
    - apply IHForall2; auto. intros; apply HA; simpl; auto.
  Qed.

  Lemma all_full_n1 : forall rv mc, 1 <= mc <= 7 -> forall (ds : list (Z -> Z)) (bs : list (bucket B)), Forall2 (rel_n1 rv mc) ds bs ->
    ((forall b, In b bs -> isFull B mc b = true) <-> (forall d, In d ds -> Gen_OpenN1_ops.IsFull rv mc d = true)).
  Proof.
    intros rv mc Hmc. induction 1; split; intros HA z Hz; simpl in Hz; try tauto; destruct Hz as [Hz|Hz]; subst.
    - rewrite (n1_full_agrees rv mc Hmc _ _ H). apply HA; simpl; auto.
    - apply IHForall2; auto. intros; apply HA; simpl; auto.
    - rewrite <- (n1_full_agrees rv mc Hmc _ _ H). apply HA; simpl; auto.
    - apply IHForall2; auto. intros; apply HA; simpl; auto.
  Qed.

  (* ---------------- the clause of the property on the generated IsFull ---------------- *)
  Variable b0 : B.
  Variable decode : Z -> B -> Z.
  Variable upd_bound : B -> Z -> B.
  Variable h : Z -> Z.
  Variable wf0 : bool.
  Variable wfull : Z -> bool.
  Variable start : Z -> Z -> Z.
  Variable next : Z -> Z -> Z -> Z.
  Variable logStart : Z.
  Variable calcCapacity : Z -> Z.
  Variable shift : Z -> Z.
  Variable nothrowReloc : bool.

  (* BucketOpen2N2<3>: under refused growth the insertion answers "Hash table is full" exactly when the GENERATED IsFull is
     true on the bytes of every bucket of the real table *)
  Theorem refused_insert_full_iff_generated_IsFull_o2 :
    kind_ok B decode upd_bound 3 wfull start next logStart shift -> kind_ok2 3 start next calcCapacity -> kind_ok3 calcCapacity ->
    forall s t r k sch (ds : list BucketOps.O2.st),
    Inv B b0 decode h 3 wf0 start next nothrowReloc s -> gens B s = t :: r -> ~ In k (abs B s) ->
    (count B s <? capacity B s) = false -> Forall2 rel_o2 ds (tbs B t) ->
    (step B b0 decode upd_bound h 3 wf0 wfull start next logStart calcCapacity shift nothrowReloc s (OInsert k false false true sch) = Some (s, RFull)
     <-> forall d, In d ds -> BucketOps.O2.full d = true).
  Proof.
    intros K1 K2 K3 s t r k sch ds HI EG NI C1 HR.
    destruct (insert_fails_only_if_every_slot_on_probe_path_taken B b0 decode upd_bound h 3 wf0 wfull start next logStart calcCapacity shift
                nothrowReloc K1 K2 K3 s t r k sch HI EG NI C1) as (_ & P2 & P3).
    pose proof (all_full_o2 ds (tbs B t) HR) as A. split.
    - intros HS. apply A. apply P2; auto.
    - intros HA. apply P3. apply A; auto.
  Qed.

  (* BucketOpenN1 / BucketOpen8 (maxCount mc, either layout) *)
  Theorem refused_insert_full_iff_generated_IsFull_n1 : forall rv mc, 1 <= mc <= 7 ->
    kind_ok B decode upd_bound mc wfull start next logStart shift -> kind_ok2 mc start next calcCapacity -> kind_ok3 calcCapacity ->
    forall s t r k sch (ds : list (Z -> Z)),
    Inv B b0 decode h mc wf0 start next nothrowReloc s -> gens B s = t :: r -> ~ In k (abs B s) ->
    (count B s <? capacity B s) = false -> Forall2 (rel_n1 rv mc) ds (tbs B t) ->
    (step B b0 decode upd_bound h mc wf0 wfull start next logStart calcCapacity shift nothrowReloc s (OInsert k false false true sch) = Some (s, RFull)
     <-> forall d, In d ds -> Gen_OpenN1_ops.IsFull rv mc d = true).
  Proof.
    intros rv mc Hmc K1 K2 K3 s t r k sch ds HI EG NI C1 HR.
    destruct (insert_fails_only_if_every_slot_on_probe_path_taken B b0 decode upd_bound h mc wf0 wfull start next logStart calcCapacity shift
                nothrowReloc K1 K2 K3 s t r k sch HI EG NI C1) as (_ & P2 & P3).
    pose proof (all_full_n1 rv mc Hmc ds (tbs B t) HR) as A. split.
    - intros HS. apply A. apply P2; auto.
    - intros HA. apply P3. apply A; auto.
  Qed.
End FullTie.
