(* C12: element_found_after_growth on the table model TableO2 (generated leaves + hand glue). *)
From Coq Require Import ZArith Bool List Lia.
From MomoCommon Require Import GenPrelude.
From C12 Require Import Bits Known Gen_Base Gen_O2 Gen_O2MP MP_Open2N2 O2_Slot TableO2.
Import ListNotations.
Local Open Scope Z_scope.

(* ---------------------------------------------------------------- mState: count bits vs max-probe encoding *)
Lemma cnt_val b : 0 <= bst b 1 -> cnt b = bst b 1 mod 4.
Proof. intros. unfold cnt, Gen_O2.pvGetCount. apply land3. assumption. Qed.

Lemma decode_upd1 st v : v / 4 = st 1 / 4 -> 0 <= v -> 0 <= st 1 -> decode (upd st 1 v) = decode st.
Proof.
  intros Hv H0 H1. unfold decode, Gen_O2MP.pvGetMaxProbe. rewrite upd_same, upd_other by lia.
  rewrite !Z.shiftr_div_pow2 by lia. change (2 ^ 2) with 4. rewrite Hv. reflexivity.
Qed.

Lemma st_inc st : enc_inv st -> st 1 mod 4 < 3 ->
  let st' := upd st 1 (wrapU 8 (st 1 + 1)) in
  enc_inv st' /\ decode st' = decode st /\ st' 1 mod 4 = st 1 mod 4 + 1 /\ st' 0 = st 0.
Proof.
  intros (H0 & H1 & Hm & He) Hc. cbv zeta.
  assert (Hlt : st 1 + 1 < 256) by (clear - H1 Hc He; Z.div_mod_to_equations; lia).
  rewrite wrapU_small by (change (2 ^ 8) with 256; lia).
  assert (Hd : (st 1 + 1) / 4 = st 1 / 4) by (clear - H1 Hc; Z.div_mod_to_equations; lia).
  set (v := st 1 + 1) in *. set (st' := upd st 1 v).
  assert (E0 : st' 0 = st 0) by (subst st'; apply upd_other; lia).
  assert (E1 : st' 1 = v) by (subst st'; apply upd_same).
  split; [|split; [|split]].
  - unfold enc_inv. rewrite E0, E1, Hd. lia.
  - subst st'. apply decode_upd1; lia.
  - rewrite E1. subst v. clear - H1 Hc. Z.div_mod_to_equations. lia.
  - exact E0.
Qed.

Lemma st_dec st : enc_inv st -> 0 < st 1 mod 4 ->
  let st' := upd st 1 (wrapU 8 (st 1 - 1)) in
  enc_inv st' /\ decode st' = decode st /\ st' 1 mod 4 = st 1 mod 4 - 1 /\ st' 0 = st 0.
Proof.
  intros (H0 & H1 & Hm & He) Hc. cbv zeta.
  assert (Hlt : 0 <= st 1 - 1) by (clear - H1 Hc; Z.div_mod_to_equations; lia).
  rewrite wrapU_small by (change (2 ^ 8) with 256; lia).
  assert (Hd : (st 1 - 1) / 4 = st 1 / 4) by (clear - H1 Hc; Z.div_mod_to_equations; lia).
  set (v := st 1 - 1) in *. set (st' := upd st 1 v).
  assert (E0 : st' 0 = st 0) by (subst st'; apply upd_other; lia).
  assert (E1 : st' 1 = v) by (subst st'; apply upd_same).
  split; [|split; [|split]].
  - unfold enc_inv. rewrite E0, E1, Hd. lia.
  - subst st'. apply decode_upd1; lia.
  - rewrite E1. subst v. clear - H1 Hc. Z.div_mod_to_equations. lia.
  - exact E0.
Qed.

(* ---------------------------------------------------------------- probe path *)
Definition pidx (L start p : Z) : Z := (start + tri p) mod 2 ^ L.

Lemma tri_succ p : 0 <= p -> tri (p + 1) = tri p + (p + 1).
Proof.
  intros. unfold tri. replace ((p + 1) * (p + 1 + 1)) with (p * (p + 1) + (p + 1) * 2) by lia.
  rewrite Z.div_add by lia. reflexivity.
Qed.

Lemma next_pidx L start p : 0 <= L <= 63 -> 0 <= p -> p + 1 < 2 ^ L ->
  Gen_O2.GetNextBucketIndex (pidx L start p) (2 ^ L) (p + 1) = pidx L start (p + 1).
Proof.
  intros HL Hp Hlt. unfold Gen_O2.GetNextBucketIndex, pidx.
  assert (0 < 2 ^ L) by (apply pow2_pos; lia).
  assert (2 ^ L <= 2 ^ 63) by (apply pow2_le_mono; lia).
  rewrite (wrapU_small 64 (2 ^ L - 1)) by (change (2 ^ 64) with (2 * 2 ^ 63); lia).
  rewrite pow2m1_ones. rewrite land_wrap64_ones by lia.
  rewrite Zplus_mod_idemp_l. rewrite tri_succ by lia. f_equal. lia.
Qed.

Lemma pidx_range L start p : 0 <= L -> 0 <= pidx L start p < 2 ^ L.
Proof. intros. unfold pidx. apply Z.mod_pos_bound. apply pow2_pos. lia. Qed.

Lemma probe_loop_spec L t start : 0 <= L <= 63 -> forall fuel probe,
  0 <= probe < 2 ^ L -> (Z.to_nat (2 ^ L - probe) <= fuel)%nat ->
  match probe_loop fuel t (2 ^ L) (pidx L start probe) probe with
  | Ok (idx, p) => probe <= p < 2 ^ L /\ idx = pidx L start p /\
                   Gen_O2.IsFull (bst (t idx)) (bsh (t idx)) (bhp (t idx)) = false
  | Exn => True
  | _ => False
  end.
Proof.
  intros HL. assert (2 ^ L <= 2 ^ 63) by (apply pow2_le_mono; lia).
  induction fuel as [|f IH]; intros probe Hp Hf.
  - exfalso. lia.
  - cbn [probe_loop]. destruct (Gen_O2.IsFull _ _ _) eqn:Hfull.
    + rewrite (wrapU_small 64 (probe + 1)) by (change (2 ^ 64) with (2 * 2 ^ 63); lia).
      destruct (Z.geb_spec (probe + 1) (2 ^ L)); [exact I|].
      rewrite next_pidx by lia.
      specialize (IH (probe + 1) ltac:(lia) ltac:(lia)).
      destruct (probe_loop f t (2 ^ L) (pidx L start (probe + 1)) (probe + 1)) as [[idx p]| | |]; try assumption.
      destruct IH as (H1 & H2 & H3). repeat split; try assumption; lia.
    + repeat split; try lia. assumption.
Qed.
