#!/bin/bash
# run_seed.sh <seed-dir> <id> [<id> ...] : run checks against a private copy of /repo's headers with the seed's patch applied
SD=$(readlink -f "$1"); shift
d=$(mktemp -d /tmp/seedrun-XXXXXX); cp -r /repo/include $d/
( cd $d && patch -s -p1 < "$SD/patch.diff" ) || { echo "patch failed"; rm -rf $d; exit 2; }
cd /verif
for id in "$@"; do
  cp evidence/$id.json /tmp/evidence_$id.bak 2>/dev/null
  VERIF_REPO=$d ./check $id > "$SD/check_$id.log" 2>&1; rc=$?
  cp /tmp/evidence_$id.bak evidence/$id.json 2>/dev/null   # evidence must describe runs against /repo itself
  echo "$id rc=$rc $(grep -c '^VIOLATION' "$SD/check_$id.log") violations: $(grep '^VIOLATION' "$SD/check_$id.log" | head -2 | tr '\n' ' ')"
  grep -E "BROKEN" "$SD/check_$id.log" | head -5
done
rm -rf $d
