(* C12, grow round 3: the three BucketLimP4PtrState packings (32 / 48 / 64 useful pointer bits = hashCount 8 / 6 / 4), GENERATED,
   and their pack/unpack round trip: after Set(ptr, state), GetPointer() = ptr and GetState() = state.  This is what justifies
   modelling the pointer state as two independent scalars in Gen_P4A. *)
From Coq Require Import ZArith Bool List Lia.
From MomoCommon Require Import GenPrelude.
From C12 Require Import Bits Gen_Ptr32 Gen_Ptr48 Gen_Ptr64.
Local Open Scope Z_scope.

Lemma tb3 n : 0 <= n -> Z.testbit 3 n = (n <? 2).
Proof. intros. change 3 with (Z.ones 2). apply tb_ones; lia. Qed.

Lemma tb_lnot3 n : 0 <= n -> Z.testbit (Z.lnot 3) n = negb (n <? 2).
Proof. intros. rewrite Z.lnot_spec by lia. rewrite tb3 by lia. reflexivity. Qed.

Lemma aligned_bits ptr n : Z.land ptr 3 = 0 -> 0 <= n < 2 -> Z.testbit ptr n = false.
Proof.
  intros Ha Hn. assert (E : Z.testbit (Z.land ptr 3) n = false) by (rewrite Ha; apply Z.bits_0).
  rewrite Z.land_spec, tb3 in E by lia. destruct (Z.ltb_spec n 2); [|lia]. rewrite andb_true_r in E. exact E.
Qed.

Lemma state_bits s n : 0 <= s <= 3 -> 2 <= n -> Z.testbit s n = false.
Proof.
  intros Hs Hn. rewrite (tb_small s 2 n) by (change (2 ^ 2) with 4; lia). destruct (Z.ltb_spec n 2); [lia|reflexivity].
Qed.

Lemma assert_aligned ptr : 0 <= ptr -> Z.land ptr 3 = 0 -> Z.land (wrapU 8 ptr) 3 = 0.
Proof.
  intros Hp Ha. apply Z.bits_inj'. intros n Hn. rewrite Z.land_spec, tb_wrapU, tb3, Z.bits_0 by lia.
  destruct (Z.ltb_spec n 2); [|apply andb_false_r]. rewrite (aligned_bits ptr n Ha) by lia. destruct (n <? 8); reflexivity.
Qed.

Lemma getstate_of m0 s : 0 <= s <= 3 -> (forall n, 0 <= n < 2 -> Z.testbit m0 n = Z.testbit s n) ->
  wrapU 8 (Z.land (wrapU 8 m0) 3) = s.
Proof.
  intros Hs Hb. apply Z.bits_inj'. intros n Hn. rewrite tb_wrapU, Z.land_spec, tb_wrapU, tb3 by lia.
  destruct (Z.ltb_spec n 2).
  - rewrite Hb by lia. destruct (Z.ltb_spec n 8); [|lia]. cbn [andb]. rewrite andb_true_r. reflexivity.
  - rewrite (state_bits s n) by lia. rewrite !andb_false_r. reflexivity.
Qed.

(* ---- 32 useful bits: one uint32 ---- *)
Theorem ptr32_roundtrip m ptr s : 0 <= ptr < 2 ^ 32 -> Z.land ptr 3 = 0 -> 0 <= s <= 3 ->
  exists m', Gen_Ptr32.SetPtr m ptr s = Ok (tt, m') /\ Gen_Ptr32.GetPointer m' = ptr /\ Gen_Ptr32.GetState m' = s.
Proof.
  intros Hp Ha Hs. unfold Gen_Ptr32.SetPtr, Gen_Ptr32.maskState. destruct (Z.leb_spec s 3); [|lia].
  rewrite (wrapU_small 32 ptr) by lia. rewrite assert_aligned by (try lia; assumption). rewrite Z.eqb_refl.
  eexists. split; [reflexivity|]. split.
  - unfold Gen_Ptr32.GetPointer, Gen_Ptr32.maskState. apply Z.bits_inj'. intros n Hn.
    rewrite Z.land_spec, Z.lor_spec, tb_wrapU, tb_lnot3 by lia.
    destruct (Z.ltb_spec n 2).
    + rewrite (aligned_bits ptr n Ha) by lia. rewrite andb_false_r. cbn [negb andb]. rewrite andb_false_r. reflexivity.
    + rewrite (state_bits s n) by lia. rewrite orb_false_r. cbn [negb]. rewrite andb_true_r.
      destruct (Z.ltb_spec n 32); [apply andb_true_r|].
      rewrite andb_false_r. rewrite (tb_small ptr 32 n) by lia. destruct (Z.ltb_spec n 32); [lia|reflexivity].
  - unfold Gen_Ptr32.GetState, Gen_Ptr32.maskState. apply (getstate_of _ s Hs).
    intros n Hn. rewrite Z.lor_spec, (aligned_bits ptr n Ha) by lia. reflexivity.
Qed.

Ltac fin :=
  repeat match goal with |- context [?a <? ?b] => destruct (Z.ltb_spec a b) end; try lia;
  cbn [andb orb negb]; rewrite ?andb_false_r, ?andb_true_r, ?orb_false_r, ?orb_false_l, ?orb_true_r; try reflexivity; try lia.

Lemma high_bits ptr k n : 0 <= ptr < 2 ^ k -> 0 <= k <= n -> Z.testbit ptr n = false.
Proof. intros Hp Hn. rewrite (tb_small ptr k n) by lia. destruct (Z.ltb_spec n k); [lia|reflexivity]. Qed.

(* ---- 64 useful bits: two uint32 ---- *)
Theorem ptr64_roundtrip m ptr s : 0 <= ptr < 2 ^ 64 -> Z.land ptr 3 = 0 -> 0 <= s <= 3 ->
  exists m', Gen_Ptr64.SetPtr m ptr s = Ok (tt, m') /\ Gen_Ptr64.GetPointer m' = ptr /\ Gen_Ptr64.GetState m' = s.
Proof.
  intros Hp Ha Hs. unfold Gen_Ptr64.SetPtr, Gen_Ptr64.maskState. destruct (Z.leb_spec s 3); [|lia].
  rewrite assert_aligned by (try lia; assumption). rewrite Z.eqb_refl.
  eexists. split; [reflexivity|]. split.
  - unfold Gen_Ptr64.GetPointer, Gen_Ptr64.maskState. rewrite upd_same, upd_other, upd_same by lia.
    apply Z.bits_inj'. intros n Hn.
    rewrite Z.lor_spec, Z.land_spec, Z.lor_spec, !tb_wrapU, tb_lnot3 by lia.
    destruct (Z.lt_ge_cases n 2) as [H2|H2]; [|destruct (Z.lt_ge_cases n 32) as [H32|H32]; [|destruct (Z.lt_ge_cases n 64) as [H64|H64]]].
    + rewrite Z.shiftl_spec by lia. rewrite (Z.testbit_neg_r _ (n - 32)) by lia. rewrite (aligned_bits ptr n Ha) by lia. fin.
    + rewrite Z.shiftl_spec by lia. rewrite (Z.testbit_neg_r _ (n - 32)) by lia. rewrite (state_bits s n) by lia. fin.
    + rewrite Z.shiftl_spec, tb_wrapU, Z.shiftr_spec by lia. replace (n - 32 + 32) with n by lia. rewrite (state_bits s n) by lia. fin.
    + rewrite (high_bits ptr 64 n) by lia. fin.
  - unfold Gen_Ptr64.GetState, Gen_Ptr64.maskState. rewrite upd_other, upd_same by lia. apply (getstate_of _ s Hs).
    intros n Hn. rewrite Z.lor_spec, tb_wrapU, (aligned_bits ptr n Ha) by lia. fin.
Qed.

(* ---- 48 useful bits: three uint16 ---- *)
Theorem ptr48_roundtrip m ptr s : 0 <= ptr < 2 ^ 48 -> Z.land ptr 3 = 0 -> 0 <= s <= 3 ->
  exists m', Gen_Ptr48.SetPtr m ptr s = Ok (tt, m') /\ Gen_Ptr48.GetPointer m' = ptr /\ Gen_Ptr48.GetState m' = s.
Proof.
  intros Hp Ha Hs. unfold Gen_Ptr48.SetPtr, Gen_Ptr48.maskState. destruct (Z.leb_spec s 3); [|lia].
  rewrite assert_aligned by (try lia; assumption). rewrite Z.eqb_refl.
  eexists. split; [reflexivity|]. split.
  - unfold Gen_Ptr48.GetPointer, Gen_Ptr48.maskState. rewrite !upd_same. rewrite (upd_other _ 2 _ 1), upd_same by lia.
    rewrite (upd_other _ 2 _ 0), (upd_other _ 1 _ 0), upd_same by lia.
    apply Z.bits_inj'. intros n Hn.
    rewrite !Z.lor_spec, !tb_wrapU, Z.land_spec, tb_lnot3, tb_wrapU, Z.lor_spec, tb_wrapU by lia.
    destruct (Z.lt_ge_cases n 2) as [H2|H2]; [|destruct (Z.lt_ge_cases n 16) as [H16|H16];
      [|destruct (Z.lt_ge_cases n 32) as [H32|H32]; [|destruct (Z.lt_ge_cases n 48) as [H48|H48]]]].
    + rewrite !Z.shiftl_spec by lia. rewrite (Z.testbit_neg_r _ (n - 32)), (Z.testbit_neg_r _ (n - 16)) by lia.
      rewrite (aligned_bits ptr n Ha) by lia. fin.
    + rewrite !Z.shiftl_spec by lia. rewrite (Z.testbit_neg_r _ (n - 32)), (Z.testbit_neg_r _ (n - 16)) by lia.
      rewrite (state_bits s n) by lia. fin.
    + rewrite !Z.shiftl_spec by lia. rewrite (Z.testbit_neg_r _ (n - 32)) by lia.
      rewrite tb_wrapU, Z.shiftr_spec by lia. replace (n - 16 + 16) with n by lia. rewrite (state_bits s n) by lia. fin.
    + rewrite !Z.shiftl_spec by lia. rewrite !tb_wrapU, !Z.shiftr_spec by lia.
      replace (n - 32 + 32) with n by lia. replace (n - 16 + 16) with n by lia. rewrite (state_bits s n) by lia. fin.
    + rewrite !Z.shiftl_spec by lia. rewrite !tb_wrapU, !Z.shiftr_spec by lia.
      replace (n - 32 + 32) with n by lia. replace (n - 16 + 16) with n by lia. rewrite (state_bits s n), (high_bits ptr 48 n) by lia. fin.
  - unfold Gen_Ptr48.GetState, Gen_Ptr48.maskState. rewrite (upd_other _ 2 _ 0), (upd_other _ 1 _ 0), upd_same by lia.
    apply (getstate_of _ s Hs).
    intros n Hn. rewrite tb_wrapU, Z.lor_spec, tb_wrapU, (aligned_bits ptr n Ha) by lia. fin.
Qed.

(* ---- the abstraction step, formally: Gen_P4A models the member object mPtrState by the two scalars (pointer, state).  The ONLY
   writer of the object in BucketLimP4 is pvSetPtrState (mPtrState.Set(items, memPoolIndex1)), the only readers are
   GetPointer() (AddCrt, Remove, Clear, Find, GetBounds) and GetState() (pvGetMemPoolIndex).  For each of the three real packings:
   performing the generated Set with the argument expressions pvSetPtrState passes succeeds (both assertions hold) and the
   generated getters then return exactly the scalars the model's pvSetPtrState produces.  Hence the relation
   "GetPointer m = ptr /\ GetState m = state" is established by every write and is all the readers depend on. ---- *)
From C12 Require Gen_P4A.

Definition R32 (m : Z) (ptr stt : Z) : Prop := Gen_Ptr32.GetPointer m = ptr /\ Gen_Ptr32.GetState m = stt.
Definition R48 (m : Z -> Z) (ptr stt : Z) : Prop := Gen_Ptr48.GetPointer m = ptr /\ Gen_Ptr48.GetState m = stt.
Definition R64 (m : Z -> Z) (ptr stt : Z) : Prop := Gen_Ptr64.GetPointer m = ptr /\ Gen_Ptr64.GetState m = stt.

Lemma setptr_args mpi : 1 <= mpi <= 4 -> wrapU 8 (wrapU 8 (wrapU 8 mpi - 1)) = mpi - 1.
Proof.
  intros. rewrite (wrapU_small 8 mpi) by (change (2 ^ 8) with 256; lia).
  rewrite !(wrapU_small 8 (mpi - 1)) by (change (2 ^ 8) with 256; lia). reflexivity.
Qed.

Theorem ptrstate_abstraction32 s ptr stt items mpi m : 1 <= mpi <= 4 -> 0 <= items < 2 ^ 32 -> Z.land items 3 = 0 ->
  let '(s', ptr', stt') := Gen_P4A.pvSetPtrState s ptr stt items mpi in
  s' = s /\ exists m', Gen_Ptr32.SetPtr m items (wrapU 8 (wrapU 8 (wrapU 8 mpi - 1))) = Ok (tt, m') /\ R32 m' ptr' stt' /\
    Gen_P4A.pvGetMemPoolIndex s' ptr' stt' = mpi.
Proof.
  intros Hm Hi Ha. unfold Gen_P4A.pvSetPtrState, Gen_P4A.useHashCodePartGetter. cbn [negb andb]. split; [reflexivity|].
  rewrite setptr_args by assumption.
  destruct (ptr32_roundtrip m items (mpi - 1) Hi Ha ltac:(lia)) as (m' & H1 & H2 & H3).
  exists m'. split; [exact H1|]. split; [split; assumption|].
  unfold Gen_P4A.pvGetMemPoolIndex, Gen_P4A.useHashCodePartGetter. rewrite wrapU_small by (change (2 ^ 64) with 18446744073709551616; lia). lia.
Qed.

Theorem ptrstate_abstraction48 s ptr stt items mpi m : 1 <= mpi <= 4 -> 0 <= items < 2 ^ 48 -> Z.land items 3 = 0 ->
  let '(s', ptr', stt') := Gen_P4A.pvSetPtrState s ptr stt items mpi in
  s' = s /\ exists m', Gen_Ptr48.SetPtr m items (wrapU 8 (wrapU 8 (wrapU 8 mpi - 1))) = Ok (tt, m') /\ R48 m' ptr' stt' /\
    Gen_P4A.pvGetMemPoolIndex s' ptr' stt' = mpi.
Proof.
  intros Hm Hi Ha. unfold Gen_P4A.pvSetPtrState, Gen_P4A.useHashCodePartGetter. cbn [negb andb]. split; [reflexivity|].
  rewrite setptr_args by assumption.
  destruct (ptr48_roundtrip m items (mpi - 1) Hi Ha ltac:(lia)) as (m' & H1 & H2 & H3).
  exists m'. split; [exact H1|]. split; [split; assumption|].
  unfold Gen_P4A.pvGetMemPoolIndex, Gen_P4A.useHashCodePartGetter. rewrite wrapU_small by (change (2 ^ 64) with 18446744073709551616; lia). lia.
Qed.

Theorem ptrstate_abstraction64 s ptr stt items mpi m : 1 <= mpi <= 4 -> 0 <= items < 2 ^ 64 -> Z.land items 3 = 0 ->
  let '(s', ptr', stt') := Gen_P4A.pvSetPtrState s ptr stt items mpi in
  s' = s /\ exists m', Gen_Ptr64.SetPtr m items (wrapU 8 (wrapU 8 (wrapU 8 mpi - 1))) = Ok (tt, m') /\ R64 m' ptr' stt' /\
    Gen_P4A.pvGetMemPoolIndex s' ptr' stt' = mpi.
Proof.
  intros Hm Hi Ha. unfold Gen_P4A.pvSetPtrState, Gen_P4A.useHashCodePartGetter. cbn [negb andb]. split; [reflexivity|].
  rewrite setptr_args by assumption.
  destruct (ptr64_roundtrip m items (mpi - 1) Hi Ha ltac:(lia)) as (m' & H1 & H2 & H3).
  exists m'. split; [exact H1|]. split; [split; assumption|].
  unfold Gen_P4A.pvGetMemPoolIndex, Gen_P4A.useHashCodePartGetter. rewrite wrapU_small by (change (2 ^ 64) with 18446744073709551616; lia). lia.
Qed.
