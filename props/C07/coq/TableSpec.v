(* C07 / L0: the abstract specification of momo::DataTable.
   A table is the list of its rows in table order (a row = list of Z, one per column), together with
   the unique indexes and the multi indexes that exist (each a list of column numbers, in creation
   order).  Every operation of DataTable.h is a total function on this state returning a result; an
   operation refused because of a unique index reports the conflicting row and the index.
   Everything here is executable Gallina; it is extracted and run against the real momo::DataTable
   on the same histories (ocaml/driver.ml <-> harness.cpp). *)
From Coq Require Import List ZArith Lia Bool Arith PeanoNat Permutation.
Import ListNotations.

Definition row := list Z.
Definition getc (r : row) (c : nat) : Z := nth c r 0%Z.
Definition proj (cols : list nat) (r : row) : list Z := map (getc r) cols.

Fixpoint zlist_eqb (a b : list Z) : bool :=
  match a, b with
  | [], [] => true
  | x :: a', y :: b' => Z.eqb x y && zlist_eqb a' b'
  | _, _ => false
  end.

Fixpoint natlist_eqb (a b : list nat) : bool :=
  match a, b with
  | [], [] => true
  | x :: a', y :: b' => Nat.eqb x y && natlist_eqb a' b'
  | _, _ => false
  end.

Record table := mkTable { rows : list row; uniq : list (list nat); multi : list (list nat) }.

Definition empty_table : table := mkTable [] [] [].
Definition with_rows (t : table) (rs : list row) : table := mkTable rs (uniq t) (multi t).

(* row filters are data so that scripts can be exchanged with the C++ harness *)
Inductive pred :=
| PTrue
| PEq (c : nat) (v : Z)
| PLt (c : nat) (v : Z)
| PNot (p : pred)
| PAnd (p q : pred).

Fixpoint evalp (p : pred) (r : row) : bool :=
  match p with
  | PTrue => true
  | PEq c v => Z.eqb (getc r c) v
  | PLt c v => Z.ltb (getc r c) v
  | PNot q => negb (evalp q r)
  | PAnd a b => evalp a r && evalp b r
  end.

Definition skipped (skip : option nat) (i : nat) : bool :=
  match skip with Some s => Nat.eqb s i | None => false end.

(* position (counted from i) of the first row, other than position `skip`, equal to k on cols *)
Fixpoint find_key (cols : list nat) (k : list Z) (rs : list row) (i : nat) (skip : option nat) : option nat :=
  match rs with
  | [] => None
  | r :: rs' =>
      if negb (skipped skip i) && zlist_eqb (proj cols r) k then Some i
      else find_key cols k rs' (S i) skip
  end.

(* first unique index (numbered from j) on which r collides with an existing row: (row position, index number).
   This is the order of DataIndexes::AddRaw / UpdateRaw: unique hashes in creation order. *)
Fixpoint find_conflict (us : list (list nat)) (j : nat) (rs : list row) (r : row) (skip : option nat) : option (nat * nat) :=
  match us with
  | [] => None
  | cols :: us' =>
      match find_key cols (proj cols r) rs 0 skip with
      | Some n => Some (n, j)
      | None => find_conflict us' (S j) rs r skip
      end
  end.

(* first position whose key (on cols) already occurred earlier: AddUniqueHashIndex on existing data *)
Fixpoint first_dup (cols : list nat) (seen : list (list Z)) (rs : list row) (i : nat) : option nat :=
  match rs with
  | [] => None
  | r :: rs' =>
      if existsb (zlist_eqb (proj cols r)) seen then Some i
      else first_dup cols (proj cols r :: seen) rs' (S i)
  end.

Fixpoint set_nth {A} (n : nat) (x : A) (l : list A) : list A :=
  match l, n with
  | [], _ => []
  | _ :: l', O => x :: l'
  | y :: l', S n' => y :: set_nth n' x l'
  end.

Fixpoint remove_nth {A} (n : nat) (l : list A) : list A :=
  match l, n with
  | [], _ => []
  | _ :: l', O => l'
  | y :: l', S n' => y :: remove_nth n' l'
  end.

Definition insert_at {A} (n : nat) (x : A) (l : list A) : list A := firstn n l ++ x :: skipn n l.

Fixpoint set_col (c : nat) (v : Z) (r : row) : row :=
  match r, c with
  | [], _ => []
  | _ :: r', O => v :: r'
  | x :: r', S c' => x :: set_col c' v r'
  end.

(* Remove(rowNumber, keepRowOrder = false): the last row moves into the hole *)
Definition remove_unordered {A} (n : nat) (l : list A) : list A :=
  match rev l with
  | [] => []
  | lastx :: _ => if Nat.eqb (S n) (length l) then removelast l else removelast (set_nth n lastx l)
  end.

Fixpoint dedup (seen : list nat) (ns : list nat) : list nat :=
  match ns with
  | [] => []
  | n :: ns' => if existsb (Nat.eqb n) seen then dedup seen ns' else n :: dedup (n :: seen) ns'
  end.

Inductive op :=
| OAdd (r : row)
| OInsert (n : nat) (r : row)
| OUpdate (n : nat) (r : row)
| OUpdateCol (n c : nat) (v : Z)
| ORemove (n : nat) (keep : bool)
| ORemoveRange (n k : nat)
| ORemovePred (p : pred)
| OExtract (n : nat) (keep : bool)
| OAssign (ns : list nat)
| OClear
| OCopy
| OCopyFilter (p : pred)
| OAddUnique (cols : list nat)
| OAddMulti (cols : list nat)
| ODropUnique
| ODropMulti.

Inductive result :=
| ROk
| RConflict (n j : nat)     (* refused: row number n collides on unique index number j *)
| RDup (n : nat)            (* AddUniqueHashIndex refused: row n repeats the key of an earlier row *)
| RRow (r : row)            (* Extract *)
| RCount (n : nat)          (* Remove(filter) *)
| RInvalid.                 (* precondition of the C++ call violated (MOMO_CHECK) *)

Definition try_put (t : table) (r : row) (skip : option nat) (rs' : list row) : table * result :=
  match find_conflict (uniq t) 0 (rows t) r skip with
  | Some (n, j) => (t, RConflict n j)
  | None => (with_rows t rs', ROk)
  end.

Definition step (t : table) (o : op) : table * result :=
  let rs := rows t in
  match o with
  | OAdd r => try_put t r None (rs ++ [r])
  | OInsert n r => if Nat.leb n (length rs) then try_put t r None (insert_at n r rs) else (t, RInvalid)
  | OUpdate n r => if Nat.ltb n (length rs) then try_put t r (Some n) (set_nth n r rs) else (t, RInvalid)
  | OUpdateCol n c v =>
      match nth_error rs n with
      | None => (t, RInvalid)
      | Some old =>
          if Z.eqb v (getc old c) then (t, ROk)
          else try_put t (set_col c v old) (Some n) (set_nth n (set_col c v old) rs)
      end
  | ORemove n keep =>
      if Nat.ltb n (length rs)
      then (with_rows t (if keep then remove_nth n rs else remove_unordered n rs), ROk)
      else (t, RInvalid)
  | ORemoveRange n k =>
      if Nat.leb (n + k) (length rs) then (with_rows t (firstn n rs ++ skipn (n + k) rs), ROk) else (t, RInvalid)
  | ORemovePred p =>
      let rs' := filter (fun r => negb (evalp p r)) rs in
      (with_rows t rs', RCount (length rs - length rs'))
  | OExtract n keep =>
      match nth_error rs n with
      | None => (t, RInvalid)
      | Some r => (with_rows t (if keep then remove_nth n rs else remove_unordered n rs), RRow r)
      end
  | OAssign ns =>
      if forallb (fun n => Nat.ltb n (length rs)) ns
      then (with_rows t (map (fun n => nth n rs []) (dedup [] ns)), ROk)
      else (t, RInvalid)
  | OClear => (with_rows t [], ROk)
  | OCopy => (t, ROk)
  | OCopyFilter p => (with_rows t (filter (evalp p) rs), ROk)
  | OAddUnique cols =>
      if existsb (natlist_eqb cols) (uniq t) then (t, ROk)
      else match first_dup cols [] rs 0 with
           | Some n => (t, RDup n)
           | None => (mkTable rs (uniq t ++ [cols]) (multi t), ROk)
           end
  | OAddMulti cols =>
      if existsb (natlist_eqb cols) (multi t) then (t, ROk)
      else (mkTable rs (uniq t) (multi t ++ [cols]), ROk)
  | ODropUnique => (mkTable rs [] (multi t), ROk)
  | ODropMulti => (mkTable rs (uniq t) [], ROk)
  end.

Definition run (t : table) (ops : list op) : table := fold_left (fun t o => fst (step t o)) ops t.

(* the row an operation tries to put into the table, and the position it replaces *)
Definition op_row (t : table) (o : op) : option (row * option nat) :=
  match o with
  | OAdd r => Some (r, None)
  | OInsert _ r => Some (r, None)
  | OUpdate n r => Some (r, Some n)
  | OUpdateCol n c v =>
      match nth_error (rows t) n with Some old => Some (set_col c v old, Some n) | None => None end
  | _ => None
  end.

(* ---------------------------------------------------------------- queries = brute-force scans *)

Definition sat (eqs : list (nat * Z)) (p : pred) (r : row) : bool :=
  forallb (fun cv => Z.eqb (getc r (fst cv)) (snd cv)) eqs && evalp p r.

Fixpoint positions (f : row -> bool) (rs : list row) (i : nat) : list nat :=
  match rs with
  | [] => []
  | r :: rs' => if f r then i :: positions f rs' (S i) else positions f rs' (S i)
  end.

(* Select / SelectCount(equalities, filter): row numbers of the matching rows *)
Definition select (t : table) (eqs : list (nat * Z)) (p : pred) : list nat := positions (sat eqs p) (rows t) 0.
Definition select_count (t : table) (eqs : list (nat * Z)) (p : pred) : nat := length (select t eqs p).
(* FindByUniqueHash / FindByMultiHash(index columns = values) *)
Definition find_by_key (t : table) (cols : list nat) (k : list Z) : list nat :=
  positions (fun r => zlist_eqb (proj cols r) k) (rows t) 0.

(* Project / ProjectDistinct(filter, columns) *)
Fixpoint distinct_keys (seen : list (list Z)) (ks : list (list Z)) : list (list Z) :=
  match ks with
  | [] => []
  | k :: ks' => if existsb (zlist_eqb k) seen then distinct_keys seen ks' else k :: distinct_keys (k :: seen) ks'
  end.
Definition project (t : table) (distinct : bool) (p : pred) (cols : list nat) : list (list Z) :=
  let ks := map (proj cols) (filter (evalp p) (rows t)) in
  if distinct then distinct_keys [] ks else ks.

(* Selection::Sort(columns): only the key sequence is determined (std::sort is not stable) *)
Fixpoint zlist_ltb (a b : list Z) : bool :=
  match a, b with
  | [], _ => false
  | _ :: _, [] => false
  | x :: a', y :: b' => Z.ltb x y || (Z.eqb x y && zlist_ltb a' b')
  end.
Fixpoint insert_key (k : list Z) (l : list (list Z)) : list (list Z) :=
  match l with
  | [] => [k]
  | x :: l' => if zlist_ltb k x then k :: l else x :: insert_key k l'
  end.
Definition sort_keys (ks : list (list Z)) : list (list Z) := fold_right insert_key [] ks.
Definition sorted_projection (t : table) (p : pred) (cols : list nat) : list (list Z) :=
  sort_keys (map (proj cols) (filter (evalp p) (rows t))).
(* GetLowerBound / GetUpperBound of a selection sorted by cols *)
Definition lower_bound_count (ks : list (list Z)) (k : list Z) : nat := length (filter (fun x => zlist_ltb x k) ks).
Definition upper_bound_count (ks : list (list Z)) (k : list Z) : nat := length (filter (fun x => negb (zlist_ltb k x)) ks).

(* ---------------------------------------------------------------- basic facts *)

Lemma zlist_eqb_eq a b : zlist_eqb a b = true <-> a = b.
Proof.
  revert b; induction a as [|x a IH]; destruct b as [|y b]; simpl; split; try congruence; try reflexivity.
  - intros H. apply andb_true_iff in H as [H1 H2]. apply Z.eqb_eq in H1. apply IH in H2. congruence.
  - intros H. inversion H; subst. rewrite Z.eqb_refl. simpl. apply IH. reflexivity.
Qed.

Lemma zlist_eqb_refl a : zlist_eqb a a = true.
Proof. apply zlist_eqb_eq; reflexivity. Qed.

Lemma natlist_eqb_eq a b : natlist_eqb a b = true <-> a = b.
Proof.
  revert b; induction a as [|x a IH]; destruct b as [|y b]; simpl; split; try congruence; try reflexivity.
  - intros H. apply andb_true_iff in H as [H1 H2]. apply Nat.eqb_eq in H1. apply IH in H2. congruence.
  - intros H. inversion H; subst. rewrite Nat.eqb_refl. simpl. apply IH. reflexivity.
Qed.
