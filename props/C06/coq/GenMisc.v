(* C06 - further regenerated decision functions: map::at, set::equal_range, pvCreateMap / pvCreateSet (allocator-extended move) *)
From Coq Require Import List ZArith Bool Lia Arith.
From MomoCommon Require Import GenPrelude.
From C06 Require Import Spec SpecProofs WrapOrdered GenPrims GenRefine.
From C06 Require Gen_MapAt Gen_SetEqr Gen_UMapCreate Gen_SetCreate Gen_Vector Gen_MapIoa Gen_MapAssign Gen_UMapAssign Gen_SetAssign Gen_USetAssign.
Import ListNotations.
Local Open Scope Z_scope.

Section Misc.
Variable l : list elem.

(* map::at(key): find, then throw out_of_range or return the mapped value *)
Definition a_find (k : Z) : Z := Z.of_nat (ord_find k l).
Definition a_mapped (z : Z) : Z := snd (nth (Z.to_nat z) l dflt).
Lemma gen_map_at_refines k :
  Gen_MapAt.at_const Z.eqb (o_end l) a_find a_mapped k =
  if (ord_find k l =? length l)%nat then Exn else Ok (snd (nth (ord_find k l) l dflt)).
Proof.
  unfold Gen_MapAt.at_const, a_find, a_mapped, o_end, it_id.
  destruct (Z.eqb_spec (Z.of_nat (ord_find k l)) (Z.of_nat (length l))), (Nat.eqb_spec (ord_find k l) (length l)); try lia; auto.
  rewrite Nat2Z.id. reflexivity.
Qed.
(* at() throws exactly when the key is absent *)
Lemma map_at_throws_iff_absent k : sorted true l ->
  (Gen_MapAt.at_const Z.eqb (o_end l) a_find a_mapped k = Exn <-> ord_count k l = 0%nat).
Proof.
  intros Hs. rewrite gen_map_at_refines. unfold ord_find, ord_count.
  pose proof (lb_le_ub k l). pose proof (ub_le_len k l).
  destruct (Nat.ltb_spec (lower_bound k l) (upper_bound k l)).
  - destruct (Nat.eqb_spec (lower_bound k l) (length l)); [lia|]. split; [discriminate|lia].
  - rewrite Nat.eqb_refl. split; auto. lia.
Qed.

(* set::equal_range: multi = [lower_bound, upper_bound); unique = lower_bound and, if the key is there, the next position *)
Definition o_next (z : Z) : Z := z + 1.
Lemma gen_set_equal_range_refines multi k : sorted multi l ->
  Gen_SetEqr.equal_range multi Z.eqb (o_end l) o_next (o_deref l) o_less (o_lb l) (o_ub l) k =
  (Z.of_nat (lower_bound k l), Z.of_nat (upper_bound k l)).
Proof.
  intros Hs. unfold Gen_SetEqr.equal_range, o_lb, o_ub, o_end, o_next, o_less. destruct multi; [reflexivity|].
  pose proof (sorted_weaken _ Hs) as Hw. rewrite deref_at.
  pose proof (lb_le_ub k l). pose proof (ub_le_len k l). pose proof (uniq_ub_le k l Hs).
  destruct (Z.eqb_spec (Z.of_nat (lower_bound k l)) (Z.of_nat (length l))) as [E|E]; simpl.
  - f_equal. lia.
  - pose proof (lb_at k l ltac:(lia)) as LA. unfold keyat.
    destruct (Z.ltb_spec k (key (nth (lower_bound k l) l dflt))).
    + f_equal. destruct (le_lt_dec (upper_bound k l) (lower_bound k l)); [lia|].
      pose proof (ub_before k l (lower_bound k l) ltac:(lia)). lia.
    + f_equal. destruct (le_lt_dec (upper_bound k l) (lower_bound k l)).
      * pose proof (ub_after k l (lower_bound k l) Hw ltac:(lia) ltac:(lia)). lia.
      * lia.
Qed.
End Misc.

(* allocator-extended move construction (pvCreateMap / pvCreateSet): the nested container is stolen exactly when the allocators
   compare equal, otherwise a fresh container with the requested allocator receives the elements one by one - the std rule
   ([container.alloc.reqmts]: X(rv, m) moves element-wise unless m == rv.get_allocator()) *)
Definition create_decision (alloc_eqb : Z -> Z -> bool) (alloc_of steal : Z -> Z) (right alloc fresh : Z) : Z :=
  if alloc_eqb (alloc_of right) alloc then steal right else fresh.
Lemma gen_umap_create_decision : Gen_UMapCreate.pvCreateMap = create_decision.
Proof. reflexivity. Qed.
Lemma gen_set_create_same_code : Gen_SetCreate.pvCreateSet = Gen_UMapCreate.pvCreateMap.
Proof. reflexivity. Qed.
Lemma create_steals_iff_equal_allocators alloc_eqb alloc_of steal right alloc fresh :
  (forall x, steal x <> fresh) ->
  (Gen_UMapCreate.pvCreateMap alloc_eqb alloc_of steal right alloc fresh = steal right <-> alloc_eqb (alloc_of right) alloc = true).
Proof.
  intros Hd. rewrite gen_umap_create_decision. unfold create_decision. destruct (alloc_eqb (alloc_of right) alloc); split; auto.
  - intros E. exfalso. exact (Hd right (eq_sym E)).
  - discriminate.
Qed.

(* ---------- stdish::vector: index / position arithmetic of at, erase, insert as regenerated ----------
   Iterators are pointers (Z addresses); SMath::Dist(a,b) = b - a, SMath::Next(a,i) = a + i.  The nested Array operations
   (Remove(index,count), Insert(index,value): properties C05 / C15) are abstract effects on `st`. *)
Section Vec.
Variables (size_ begin_ arr_ : Z) (elem_ : Z -> Z -> Z) (ev_remove ev_insert : Z -> Z -> Z -> Z).
Definition v_dist (a b : Z) : Z := b - a.
Definition v_next (a i : Z) : Z := a + i.
(* at(i): out_of_range exactly for i >= size(), otherwise element i *)
Lemma gen_vector_at_spec st i :
  Gen_Vector.at_const size_ elem_ arr_ st i = if i <? size_ then Ok (elem_ arr_ i) else Exn.
Proof. unfold Gen_Vector.at_const. rewrite Z.geb_leb. destruct (Z.leb_spec size_ i), (Z.ltb_spec i size_); auto; lia. Qed.
(* erase(first,last): Array::Remove(first - begin, last - first), returns the iterator at the same index *)
Lemma gen_vector_erase_range_spec st first last :
  Gen_Vector.erase_range begin_ v_dist v_next ev_remove st first last = (first, ev_remove st (first - begin_) (last - first)).
Proof. unfold Gen_Vector.erase_range, v_dist, v_next. f_equal. lia. Qed.
Lemma gen_vector_erase_one_spec st w :
  Gen_Vector.erase_one begin_ v_dist v_next ev_remove st w = (w, ev_remove st (w - begin_) 1).
Proof. unfold Gen_Vector.erase_one. rewrite gen_vector_erase_range_spec. f_equal. f_equal. lia. Qed.
(* insert(where, value): Array::Insert(where - begin, value), returns the iterator at that index *)
Lemma gen_vector_insert_spec st w v :
  Gen_Vector.insert_value begin_ v_dist v_next ev_insert st w v = (w, ev_insert st (w - begin_) v).
Proof. unfold Gen_Vector.insert_value, v_dist, v_next. f_equal. lia. Qed.
End Vec.

(* ---------- map::insert_or_assign (pvInsertOrAssign) as regenerated: emplace, then assign exactly when the emplace was refused,
   to the element at the returned position, the same argument ---------- *)
Lemma gen_map_insert_or_assign_spec (emplace_ : Z -> Z -> Z -> Z * bool) (ev_assign : Z -> Z -> Z -> Z) st h k v :
  Gen_MapIoa.insert_or_assign emplace_ ev_assign st h k v =
  (emplace_ h k v, if snd (emplace_ h k v) then st else ev_assign st (fst (emplace_ h k v)) v).
Proof. unfold Gen_MapIoa.insert_or_assign, it_id. destruct (snd (emplace_ h k v)); reflexivity. Qed.

(* ---------- operator=(std::initializer_list) of map/multimap (ptAssign), unordered_map, set/multiset, unordered_set as regenerated:
   the replacement nested container is built with the traits (comparator / hasher / key_equal STATE) of the container being
   assigned to and with its allocator - so a stateful functor in a non-default state survives `c = {...}` (wave-2 seed a rebuilt
   the map through a default-constructed comparator) ---------- *)
Lemma gen_map_assign_shape (make_nested : Z -> Z -> Z) (traits_of : Z -> Z) alloc_this old values :
  Gen_MapAssign.ptAssign make_nested traits_of alloc_this old values = make_nested (traits_of old) alloc_this.
Proof. reflexivity. Qed.
Lemma gen_set_assign_shape (make_nested_il : Z -> Z -> Z -> Z) (traits_of : Z -> Z) alloc_this old values :
  Gen_SetAssign.assign_il make_nested_il traits_of alloc_this old values = make_nested_il values (traits_of old) alloc_this.
Proof. reflexivity. Qed.
(* for every nested-container constructor that stores the traits / allocator it is given: functor state and allocator are kept *)
Lemma gen_map_assign_keeps_functor_state (make_nested : Z -> Z -> Z) (traits_of alloc_of : Z -> Z) alloc_this old values :
  (forall t a, traits_of (make_nested t a) = t) -> (forall t a, alloc_of (make_nested t a) = a) ->
  traits_of (Gen_MapAssign.ptAssign make_nested traits_of alloc_this old values) = traits_of old /\
  alloc_of (Gen_MapAssign.ptAssign make_nested traits_of alloc_this old values) = alloc_this.
Proof. intros Ht Ha. rewrite gen_map_assign_shape. split; [apply Ht|apply Ha]. Qed.
Lemma gen_set_assign_keeps_functor_state (make_nested_il : Z -> Z -> Z -> Z) (traits_of alloc_of : Z -> Z) alloc_this old values :
  (forall v t a, traits_of (make_nested_il v t a) = t) -> (forall v t a, alloc_of (make_nested_il v t a) = a) ->
  traits_of (Gen_SetAssign.assign_il make_nested_il traits_of alloc_this old values) = traits_of old /\
  alloc_of (Gen_SetAssign.assign_il make_nested_il traits_of alloc_this old values) = alloc_this.
Proof. intros Ht Ha. rewrite gen_set_assign_shape. split; [apply Ht|apply Ha]. Qed.
Lemma assign_il_same_code : Gen_UMapAssign.assign_il = Gen_MapAssign.ptAssign /\ Gen_USetAssign.assign_il = Gen_SetAssign.assign_il.
Proof. split; reflexivity. Qed.
