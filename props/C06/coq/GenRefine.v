(* C06 - the decision logic REGENERATED from the stdish headers by cxx2coq (Gen_*.v) refines the hand models of Wrap*.v.
   The generated functions are parameterised by abstract primitives (iterator comparison, ++/--, begin/end, nested-container
   calls); here the primitives are instantiated with the operations of the hand models over an encoding of iterators as Z. *)
From Coq Require Import List ZArith Bool Lia Arith.
From MomoCommon Require Import GenPrelude.
From C06 Require Import Spec SpecProofs WrapOrdered WrapErase GenPrims.
From C06 Require Gen_USetErase Gen_UMapErase Gen_UMMapErase Gen_SetHint Gen_MSetHint Gen_MapFind Gen_MMapFind.
Import ListNotations.
Local Open Scope Z_scope.

(* ---------- unordered iterators as Z: end = -1, (position i, traversable) = 2i, (position i, lookup-derived) = 2i+1 ---------- *)
Definition enc (a : iter) : Z := match a with End => -1 | At i t => 2 * Z.of_nat i + (if t then 0 else 1) end.
Definition dec (z : Z) : iter := if z <? 0 then End else At (Z.to_nat (z / 2)) (z mod 2 =? 0).
Lemma div2_enc k b : 0 <= k -> (b = 0 \/ b = 1) -> (2 * k + b) / 2 = k /\ (2 * k + b) mod 2 = b.
Proof. intros. pose proof (Z.div_mod (2 * k + b) 2 ltac:(lia)). pose proof (Z.mod_pos_bound (2 * k + b) 2 ltac:(lia)). lia. Qed.
Lemma dec_enc a : dec (enc a) = a.
Proof.
  destruct a as [|i t]; [reflexivity|]. unfold dec, enc.
  set (b := if t then 0 else 1). assert (Hb : b = 0 \/ b = 1) by (destruct t; subst b; auto).
  destruct (div2_enc (Z.of_nat i) b ltac:(lia) Hb) as [D M].
  destruct (Z.ltb_spec (2 * Z.of_nat i + b) 0); [lia|]. rewrite D, M, Nat2Z.id.
  f_equal. destruct t; subst b; reflexivity.
Qed.
Lemma enc_ge a : -1 <= enc a.
Proof. destruct a as [|i [|]]; unfold enc; lia. Qed.

Section USet.
Variable l : list elem.
Let n := length l.
Definition p_eqb (a b : Z) : bool := it_eq (dec a) (dec b).
Definition p_neqb (a b : Z) : bool := negb (it_eq (dec a) (dec b)).
Definition p_end : Z := enc End.
Definition p_begin : Z := enc (us_begin n).
Definition p_next (z : Z) : Z := enc (us_next n (dec z)).
Definition p_erase (z : Z) : Z := - (z + 3).              (* erase(where): tagged result, decoded by interp *)
Definition p_clear (st : Z) : Z := 1.                      (* clear(): the effect field becomes 1 *)
(* what a run of the generated function means for the container *)
Definition interp (o : outcome (Z * Z)) : result :=
  match o with
  | Ok (r, st) => if st =? 1 then Done [] None
                  else if r <? -1 then us_erase_one l (dec (- r - 3))
                  else Done l (deref l (dec r))
  | _ => Throw
  end.
Definition gen_us_erase_range (first last : iter) : result :=
  interp (Gen_USetErase.erase_range p_eqb p_neqb p_end p_begin p_next p_erase p_clear 0 (enc first) (enc last)).

Lemma gen_uset_erase_refines first last : gen_us_erase_range first last = us_erase_range l first last.
Proof.
  unfold gen_us_erase_range, Gen_USetErase.erase_range, us_erase_range, p_eqb, p_neqb, p_end, p_begin, p_next, p_erase, p_clear.
  rewrite !dec_enc. fold n.
  destruct (it_eq first last) eqn:E1; simpl.
  - pose proof (enc_ge first). destruct (Z.ltb_spec (enc first) (-1)); [lia|]. rewrite dec_enc. reflexivity.
  - destruct (negb (it_eq first End) && it_eq (us_next n first) last) eqn:E2; simpl.
    + pose proof (enc_ge first). destruct (Z.ltb_spec (- (enc first + 3)) (-1)); [|lia].
      replace (- - (enc first + 3) - 3) with (enc first) by lia. rewrite dec_enc. reflexivity.
    + destruct (it_eq first (us_begin n) && it_eq last End); reflexivity.
Qed.
End USet.

(* unordered_map::erase(first,last) is the same code as unordered_set's (proxy wrapping / const conversions are identities) *)
Lemma umap_erase_same_code : Gen_UMapErase.erase_range = Gen_USetErase.erase_range.
Proof. reflexivity. Qed.

(* the range-erase theorem, now about the regenerated code *)
Theorem gen_unordered_erase_range_cases (l : list elem) first last ps :
  let n := length l in
  it_wf n first -> it_wf n last ->
  walk (us_next n) (S n) first last = Some ps ->
  match gen_us_erase_range l first last with
  | Throw => (2 <= length ps < n)%nat
  | Done rest ret =>
      exists i m, ps = seq i m /\ rest = erase_range i (i + m) l /\ (m = 0 \/ m = 1 \/ m = n)%nat /\
                  (is_trav first = true -> ret = deref l last) /\
                  (is_trav first = false -> ret = None \/ m = 0%nat)
  end.
Proof. intros. rewrite gen_uset_erase_refines. apply us_erase_range_cases; auto. Qed.

(* ---------- ordered iterators as Z: the position ---------- *)
Section Ordered.
Variable l : list elem.
Definition o_neqb (a b : Z) : bool := negb (a =? b).
Definition o_end : Z := Z.of_nat (length l).
Definition o_begin : Z := 0.
Definition o_prev (z : Z) : Z := z - 1.
Definition o_deref (z : Z) : Z := keyat l (Z.to_nat z).
Definition o_less (a b : Z) : bool := a <? b.
Definition o_lb (k : Z) : Z := Z.of_nat (lower_bound k l).
Definition o_ub (k : Z) : Z := Z.of_nat (upper_bound k l).
Definition zpos (p : bool * nat) : bool * Z := (fst p, Z.of_nat (snd p)).
Definition zpos' (p : nat * bool) : Z * bool := (Z.of_nat (fst p), snd p).

Lemma neqb_nat (a b : nat) : o_neqb (Z.of_nat a) (Z.of_nat b) = negb (a =? b)%nat.
Proof. unfold o_neqb. f_equal. destruct (Z.eqb_spec (Z.of_nat a) (Z.of_nat b)), (Nat.eqb_spec a b); auto; lia. Qed.
Lemma neqb_nat0 (a : nat) : o_neqb (Z.of_nat a) 0 = negb (a =? 0)%nat.
Proof. apply (neqb_nat a 0). Qed.
Lemma deref_prev (h : nat) : o_deref (o_prev (Z.of_nat h)) = keyat l (h - 1).
Proof. unfold o_deref, o_prev. f_equal. lia. Qed.
Lemma deref_at (h : nat) : o_deref (Z.of_nat h) = keyat l h.
Proof. unfold o_deref. rewrite Nat2Z.id. reflexivity. Qed.
Lemma is_ordered_gen multi a b : Gen_SetHint.pvIsOrdered multi o_less a b = ordered multi a b.
Proof. reflexivity. Qed.

(* set::pvCheckHint regenerated == WrapOrdered.set_check_hint *)
Lemma gen_set_check_hint_refines multi (h : nat) k :
  Gen_SetHint.pvCheckHint multi o_neqb o_end o_begin o_prev o_deref o_less o_lb (Z.of_nat h) k = zpos (set_check_hint multi l h k).
Proof.
  unfold Gen_SetHint.pvCheckHint, set_check_hint, o_end, o_begin. rewrite neqb_nat0, neqb_nat, deref_prev, deref_at, !is_ordered_gen.
  destruct (negb (h =? 0)%nat && negb (ordered multi (keyat l (h - 1)) k)); [reflexivity|].
  destruct (negb (h =? length l)%nat && negb (ordered multi k (keyat l h))); [|reflexivity].
  destruct multi; reflexivity.
Qed.

(* map_base::pvFind(nullptr,key) / pvFind(hint,key) regenerated == WrapOrdered.map_find_null / map_find_hint *)
Lemma gen_map_find_null_refines multi k :
  Gen_MapFind.pvFind_null multi o_neqb o_begin o_prev o_deref o_less o_ub k = zpos' (map_find_null multi l k).
Proof.
  unfold Gen_MapFind.pvFind_null, map_find_null, o_ub, o_begin, it_id. rewrite neqb_nat0, deref_prev.
  unfold o_less, o_prev, zpos'.
  destruct multi; simpl; [reflexivity|].
  destruct (upper_bound k l =? 0)%nat eqn:E0; simpl; [reflexivity|].
  destruct (keyat l (upper_bound k l - 1) <? k); simpl; [reflexivity|].
  apply Nat.eqb_neq in E0. f_equal. lia.
Qed.
Lemma gen_map_find_hint_refines multi (h : nat) k :
  Gen_MapFind.pvFind_hint multi o_neqb o_end o_begin o_prev o_deref o_less o_lb o_ub (Z.of_nat h) k = zpos' (map_find_hint multi l h k).
Proof.
  unfold Gen_MapFind.pvFind_hint, map_find_hint, o_end. rewrite gen_map_find_null_refines.
  unfold it_id, o_begin. rewrite neqb_nat0, neqb_nat, deref_prev, deref_at.
  change (Gen_MapFind.pvIsOrdered multi o_less) with (ordered multi).
  destruct (negb (h =? 0)%nat && negb (ordered multi (keyat l (h - 1)) k)); [reflexivity|].
  destruct (negb (h =? length l)%nat && negb (ordered multi k (keyat l h))); [|reflexivity].
  destruct multi; reflexivity.
Qed.
End Ordered.

(* one proof for both instantiations: the multiset / multimap specializations generate the same code (multiKey is symbolic) *)
Lemma mset_hint_same_code : Gen_MSetHint.pvCheckHint = Gen_SetHint.pvCheckHint.
Proof. reflexivity. Qed.
Lemma mmap_find_same_code : Gen_MMapFind.pvFind_hint = Gen_MapFind.pvFind_hint /\ Gen_MMapFind.pvFind_null = Gen_MapFind.pvFind_null.
Proof. split; reflexivity. Qed.

(* hinted insertion driven by the REGENERATED hint validation equals the std specification *)
Definition gen_set_insert_hint (multi : bool) (l : list elem) (h : nat) (x : elem) : nat * bool * list elem :=
  let '(ok, h') := Gen_SetHint.pvCheckHint multi o_neqb (o_end l) o_begin o_prev (o_deref l) o_less (o_lb l) (Z.of_nat h) (key x) in
  if ok then nested_add_at (Z.to_nat h') x l else nested_insert multi x l.
Definition gen_map_insert_hint (multi : bool) (l : list elem) (h : nat) (x : elem) : nat * bool * list elem :=
  let '(i, b) := Gen_MapFind.pvFind_hint multi o_neqb (o_end l) o_begin o_prev (o_deref l) o_less (o_lb l) (o_ub l) (Z.of_nat h) (key x) in
  if b then (Z.to_nat i, true, insert_at (Z.to_nat i) x l) else (Z.to_nat i, false, l).
Definition gen_map_insert (multi : bool) (x : elem) (l : list elem) : nat * bool * list elem :=
  let '(i, b) := Gen_MapFind.pvFind_null multi o_neqb o_begin o_prev (o_deref l) o_less (o_ub l) (key x) in
  if b then (Z.to_nat i, true, insert_at (Z.to_nat i) x l) else (Z.to_nat i, false, l).

Theorem gen_set_hint_refines_spec multi l h x : sorted multi l -> (h <= length l)%nat ->
  gen_set_insert_hint multi l h x = ord_insert_hint multi h x l.
Proof.
  intros Hs Hh. rewrite <- set_hint_refines by auto. unfold gen_set_insert_hint, set_insert_hint.
  rewrite gen_set_check_hint_refines. destruct (set_check_hint multi l h (key x)) as [ok h']. unfold zpos; simpl.
  rewrite Nat2Z.id. reflexivity.
Qed.
Theorem gen_map_hint_refines_spec multi l h x : sorted multi l -> (h <= length l)%nat ->
  gen_map_insert_hint multi l h x = ord_insert_hint multi h x l.
Proof.
  intros Hs Hh. rewrite <- map_hint_refines by auto. unfold gen_map_insert_hint, map_insert_hint, map_insert_with.
  rewrite gen_map_find_hint_refines. destruct (map_find_hint multi l h (key x)) as [i b]. unfold zpos'; simpl.
  rewrite Nat2Z.id. reflexivity.
Qed.
Theorem gen_map_insert_refines_spec multi x l : sorted multi l -> gen_map_insert multi x l = ord_insert multi x l.
Proof.
  intros Hs. rewrite <- map_insert_refines by auto. unfold gen_map_insert, map_insert, map_insert_with.
  rewrite gen_map_find_null_refines. destruct (map_find_null multi l (key x)) as [i b]. unfold zpos'; simpl.
  rewrite Nat2Z.id. reflexivity.
Qed.

(* ---------- unordered_multimap::erase(where) / erase(first,last) regenerated ---------- *)
Section UMMap.
Variable l : list elem.
Let n := length l.
Definition kpos (z : Z) : nat := match dec z with End => 0%nat | At p _ => p end.
Definition ktrav (z : Z) : bool := match dec z with End => true | At _ t => t end.
Definition m_key_count (k : Z) : Z := Z.of_nat (kend l (kpos k) - kstart l (kpos k)).
Definition m_remove_key (k : Z) : Z := - (2 * (k + 1) + 2).         (* RemoveKey(keyIter): tagged, even *)
Definition m_remove_value (z : Z) : Z := - (2 * (z + 1) + 3).       (* Remove(iter): tagged, odd *)
Definition m_make (k idx : Z) : Z :=                                  (* MakeIterator(keyIter, valueIndex) *)
  if k <? -1 then k
  else if idx <? m_key_count k then enc (At (kstart l (kpos k) + Z.to_nat idx) (ktrav k))
  else enc (mm_key_last l (kpos k) (ktrav k)).
Definition m_next (z : Z) : Z := enc (mm_next l (dec z)).
Definition mm_interp (o : outcome (Z * Z)) : result :=
  match o with
  | Ok (r, st) =>
      if st =? 1 then Done [] None
      else if r <? -1 then
        (if (- r) mod 2 =? 0
         then (let k := (- r - 2) / 2 - 1 in
               Done (erase_range (kstart l (kpos k)) (kend l (kpos k)) l) (deref l (mm_key_last l (kpos k) (ktrav k))))
         else mm_erase_one l (dec ((- r - 3) / 2 - 1)))
      else Done l (deref l (dec r))
  | _ => Throw
  end.
Definition gen_mm_erase_range (first last : iter) : result :=
  mm_interp (Gen_UMMapErase.erase_range p_eqb p_neqb p_end (p_begin l) m_next p_clear (fun z => z) m_key_count m_make m_remove_key m_remove_value
               0 (enc first) (enc last)).

Lemma kstart_le p : (kstart l p <= p)%nat.
Proof. unfold kstart. lia. Qed.
Lemma kpos_enc p t : kpos (enc (At p t)) = p /\ ktrav (enc (At p t)) = t.
Proof. unfold kpos, ktrav. rewrite dec_enc. auto. Qed.
Lemma tag_key_decode k : -1 <= k -> let r := m_remove_key k in r < -1 /\ (- r) mod 2 = 0 /\ (- r - 2) / 2 - 1 = k.
Proof.
  intros Hk r. subst r. unfold m_remove_key. split; [lia|].
  replace (- - (2 * (k + 1) + 2)) with (0 + (k + 2) * 2) by lia. rewrite Z.mod_add by lia. split; [reflexivity|].
  replace (0 + (k + 2) * 2 - 2) with (0 + (k + 1) * 2) by lia. rewrite Z.div_add by lia. simpl. lia.
Qed.
Lemma tag_val_decode z : -1 <= z -> let r := m_remove_value z in r < -1 /\ (- r) mod 2 = 1 /\ (- r - 3) / 2 - 1 = z.
Proof.
  intros Hk r. subst r. unfold m_remove_value. split; [lia|].
  replace (- - (2 * (z + 1) + 3)) with (1 + (z + 2) * 2) by lia. rewrite Z.mod_add by lia. split; [reflexivity|].
  replace (1 + (z + 2) * 2 - 3) with (0 + (z + 1) * 2) by lia. rewrite Z.div_add by lia. simpl. lia.
Qed.

Lemma gen_mm_erase_refines first last : it_wf n first -> gen_mm_erase_range first last = mm_erase_range l first last.
Proof.
  intros Hf. unfold gen_mm_erase_range, Gen_UMMapErase.erase_range, Gen_UMMapErase.erase_where, mm_erase_range, mm_step3,
    p_eqb, p_neqb, p_end, p_begin, p_clear, m_next, it_id.
  rewrite !dec_enc. fold n.
  destruct (it_eq first last) eqn:E1.
  - unfold mm_interp. simpl. pose proof (enc_ge first). destruct (Z.ltb_spec (enc first) (-1)); [lia|]. rewrite dec_enc. reflexivity.
  - destruct first as [|p trav].
    + (* first = end *) simpl it_eq at 1. simpl negb. cbv iota. simpl andb.
      match goal with |- context [if ?c && ?d then Done [] None else Throw] => destruct (c && d) end; reflexivity.
    + simpl in Hf. change (it_eq (At p trav) End) with false. simpl negb. cbv iota.
      pose proof (kend_bounds l p Hf) as KB. pose proof (kstart_le p) as KS.
      destruct (kpos_enc p trav) as [KP KT].
      destruct (it_eq (mm_next l (At p trav)) last) eqn:E2.
      * (* single element: erase(where) *)
        unfold mm_interp, m_key_count. rewrite KP.
        destruct (Z.eqb_spec (Z.of_nat (kend l p - kstart l p)) 1) as [C1|C1].
        -- unfold m_make. pose proof (enc_ge (At p trav)) as GE.
           destruct (tag_key_decode (enc (At p trav)) GE) as [T1 [T2 T3]].
           destruct (Z.ltb_spec (m_remove_key (enc (At p trav))) (-1)); [|lia].
           simpl Z.eqb at 1. cbv iota. destruct (Z.ltb_spec (m_remove_key (enc (At p trav))) (-1)); [|lia].
           rewrite T2, T3. simpl Z.eqb. cbv iota. rewrite KP, KT.
           assert (kstart l p = p /\ kend l p = S p) as [A B] by lia. rewrite A, B.
           unfold mm_erase_one. destruct (Nat.ltb_spec (S p) (kend l p)); [lia|]. reflexivity.
        -- pose proof (enc_ge (At p trav)) as GE.
           destruct (tag_val_decode (enc (At p trav)) GE) as [T1 [T2 T3]].
           simpl Z.eqb at 1. cbv iota. destruct (Z.ltb_spec (m_remove_value (enc (At p trav))) (-1)); [|lia].
           rewrite T2, T3. simpl Z.eqb. cbv iota. rewrite dec_enc. reflexivity.
      * (* whole key or whole container *)
        assert (M0 : m_make (enc (At p trav)) 0 = enc (At (kstart l p) trav)).
        { unfold m_make, m_key_count. rewrite KP, KT. pose proof (enc_ge (At p trav)).
          destruct (Z.ltb_spec (enc (At p trav)) (-1)); [lia|]. destruct (Z.ltb_spec 0 (Z.of_nat (kend l p - kstart l p))); [|lia].
          simpl Z.to_nat. rewrite Nat.add_0_r. reflexivity. }
        assert (MC : m_make (enc (At p trav)) (m_key_count (enc (At p trav))) = enc (mm_key_last l p trav)).
        { unfold m_make. rewrite KP, KT. pose proof (enc_ge (At p trav)).
          destruct (Z.ltb_spec (enc (At p trav)) (-1)); [lia|]. rewrite Z.ltb_irrefl. reflexivity. }
        rewrite M0, MC, !dec_enc.
        change (it_eq (At p trav) (At (kstart l p) trav)) with (p =? kstart l p)%nat.
        destruct ((p =? kstart l p)%nat && it_eq last (mm_key_last l p trav)) eqn:E3.
        -- unfold mm_interp, m_make. pose proof (enc_ge (At p trav)) as GE.
           destruct (tag_key_decode (enc (At p trav)) GE) as [T1 [T2 T3]].
           destruct (Z.ltb_spec (m_remove_key (enc (At p trav))) (-1)); [|lia].
           simpl Z.eqb at 1. cbv iota. destruct (Z.ltb_spec (m_remove_key (enc (At p trav))) (-1)); [|lia].
           rewrite T2, T3. simpl Z.eqb. cbv iota. rewrite KP, KT.
           apply andb_true_iff in E3. destruct E3 as [E3 _]. apply Nat.eqb_eq in E3. rewrite <- E3. reflexivity.
        -- match goal with |- context [if ?c && ?d then Done [] None else Throw] => destruct (c && d) end; reflexivity.
Qed.

Theorem gen_unordered_multimap_erase_range_cases first last ps :
  it_wf n first -> it_wf n last ->
  walk (mm_next l) (S n) first last = Some ps ->
  match gen_mm_erase_range first last with
  | Throw => (2 <= length ps < n)%nat
  | Done rest ret => exists i m, ps = seq i m /\ rest = erase_range i (i + m) l /\
                     (m = 0 \/ m = 1 \/ (i = kstart l i /\ i + m = kend l i) \/ m = n)%nat
  end.
Proof. intros Hf Hl W. rewrite gen_mm_erase_refines by auto. apply mm_erase_range_cases; auto. Qed.
End UMMap.

