(* C02 -- the indexed (isContinuous = false) node layout of details/TreeNode.h: items live in raw slots, the node keeps
   a permutation table `indexes`; logical item i is slot indexes[i].  AcceptBackItem / Remove only permute the table.
   Abstraction lemma: the logical sequence behaves exactly like the item list of the abstract model (insert_at /
   remove_at), and the table stays a permutation. *)
From Coq Require Import List ZArith Arith Lia Bool.
From Coq Require Import Permutation.
From C02 Require Import BTreeModel BTreeBase.
Import ListNotations.

Record inode := { slots : list Z; idx : list nat; icount : nat }.

Definition logical (n : inode) : list Z := map (fun i => nth i (slots n) 0%Z) (firstn (icount n) (idx n)).

(* itemCreator(node->GetItemPtr(count)): the new item is constructed in slot indexes[count] *)
Definition write_back (n : inode) (x : Z) : inode :=
  {| slots := replace_at (nth (icount n) (idx n) 0) x (slots n); idx := idx n; icount := icount n |}.

(* pvAcceptBackItem(params, index, count, false_type): realIndex = indexes[count];
   copy_backward(indexes + index, indexes + count, indexes + count + 1); indexes[index] = realIndex; ++count *)
Definition accept_back (n : inode) (index : nat) : inode :=
  let c := icount n in
  {| slots := slots n;
     idx := firstn index (idx n) ++ nth c (idx n) 0 :: firstn (c - index) (skipn index (idx n)) ++ skipn (S c) (idx n);
     icount := S c |}.

(* pvRemove(params, index, count, itemRemover, false_type): itemRemover(the item at GetItemPtr(index)); realIndex = indexes[index];
   copy(indexes + index + 1, indexes + count, indexes + index); indexes[count - 1] = realIndex; --count *)
Definition remove_idx (n : inode) (index : nat) : inode :=
  let c := icount n in
  {| slots := slots n;
     idx := firstn index (idx n) ++ firstn (c - index - 1) (skipn (S index) (idx n)) ++ nth index (idx n) 0 :: skipn c (idx n);
     icount := c - 1 |}.

(* the table is a permutation of the slot numbers *)
Definition winv (n : inode) : Prop :=
  length (idx n) = length (slots n) /\ NoDup (idx n) /\ Forall (fun i => i < length (slots n)) (idx n) /\
  icount n <= length (idx n).

Lemma idx_split3 (l : list nat) a c : a <= c -> c < length l ->
  l = firstn a l ++ firstn (c - a) (skipn a l) ++ nth c l 0 :: skipn (S c) l.
Proof.
  intros H1 H2. rewrite <- (firstn_skipn a l) at 1. f_equal.
  rewrite <- (firstn_skipn (c - a) (skipn a l)) at 1. f_equal.
  assert (E : skipn (c - a) (skipn a l) = skipn c l).
  { clear H2. revert l c H1. induction a; intros l c H1; [rewrite Nat.sub_0_r; reflexivity|].
    destruct c; [lia|]. destruct l; [rewrite !skipn_nil; reflexivity|]. cbn [skipn Nat.sub]. apply IHa. lia. }
  rewrite E. clear E H1. revert l H2. induction c; intros [|x l] H2; simpl in *; try lia; [reflexivity|]. apply IHc. lia.
Qed.

Lemma map_nth_replace_other (l : list nat) r x (s : list Z) :
  r < length s -> ~ In r l -> map (fun i => nth i (replace_at r x s) 0%Z) l = map (fun i => nth i s 0%Z) l.
Proof.
  intros Hr H. apply map_ext_in. intros i Hi. assert (i <> r) by (intros ->; contradiction).
  unfold replace_at. destruct (lt_dec i r).
  - rewrite app_nth1 by (rewrite firstn_length; lia). rewrite <- (firstn_skipn r s) at 2.
    rewrite app_nth1 by (rewrite firstn_length; lia). reflexivity.
  - rewrite app_nth2 by (rewrite firstn_length; lia). rewrite firstn_length_le by lia.
    destruct (i - r) as [|m] eqn:E; [lia|]. cbn [nth].
    rewrite <- (firstn_skipn (S r) s) at 2. rewrite app_nth2 by (rewrite firstn_length; lia).
    rewrite firstn_length_le by lia. f_equal. lia.
Qed.

Theorem accept_back_refines n x index :
  winv n -> index <= icount n -> icount n < length (idx n) ->
  let n' := accept_back (write_back n x) index in
  winv n' /\ logical n' = insert_at index x (logical n).
Proof.
  intros (L & ND & F & C) Hi Hc. cbv zeta.
  set (c := icount n) in *. set (real := nth c (idx n) 0).
  pose proof (idx_split3 (idx n) index c Hi Hc) as E. fold real in E.
  set (A := firstn index (idx n)) in *. set (B := firstn (c - index) (skipn index (idx n))) in *. set (T := skipn (S c) (idx n)) in *.
  assert (LA : length A = index) by (unfold A; apply firstn_length_le; lia).
  assert (LB : length B = c - index) by (unfold B; rewrite firstn_length, skipn_length; lia).
  assert (Hreal : real < length (slots n)).
  { rewrite Forall_forall in F. apply F. unfold real. apply nth_In. lia. }
  assert (Nr : ~ In real (A ++ B)).
  { rewrite E, app_assoc in ND. apply NoDup_remove_2 in ND. intros H. apply ND. apply in_or_app. left. exact H. }
  assert (Ec : firstn c (idx n) = A ++ B).
  { rewrite E. rewrite app_assoc. rewrite firstn_app. replace (c - length (A ++ B)) with 0 by (rewrite app_length; lia).
    cbn [firstn]. rewrite app_nil_r. apply firstn_all2. rewrite app_length. lia. }
  split.
  - unfold winv, accept_back, write_back. cbn [slots idx icount]. fold c real A B T.
    rewrite replace_at_length by exact Hreal.
    assert (Ep : Permutation.Permutation (A ++ real :: B ++ T) (idx n)).
    { rewrite E. apply Permutation.Permutation_app_head. apply Permutation.Permutation_middle. }
    split; [rewrite (Permutation.Permutation_length Ep); exact L|].
    split; [eapply Permutation.Permutation_NoDup; [apply Permutation.Permutation_sym; exact Ep | exact ND]|].
    split; [eapply Permutation.Permutation_Forall; [apply Permutation.Permutation_sym; exact Ep | exact F]|].
    rewrite (Permutation.Permutation_length Ep). lia.
  - unfold logical, accept_back, write_back. cbn [slots idx icount]. fold c real A B T.
    assert (Ef : firstn (S c) (A ++ real :: B ++ T) = A ++ real :: B).
    { change (A ++ real :: B ++ T) with (A ++ (real :: B) ++ T). rewrite app_assoc.
      rewrite firstn_app. replace (S c - length (A ++ real :: B)) with 0 by (rewrite app_length; cbn [length]; lia).
      rewrite firstn_O, app_nil_r. apply firstn_all2. rewrite app_length. cbn [length]. lia. }
    rewrite Ef, Ec, !map_app. cbn [map].
    assert (NA : ~ In real A) by (intros H; apply Nr; apply in_or_app; auto).
    assert (NB : ~ In real B) by (intros H; apply Nr; apply in_or_app; auto).
    rewrite (map_nth_replace_other A real x _ Hreal NA), (map_nth_replace_other B real x _ Hreal NB).
    assert (Ex : nth real (replace_at real x (slots n)) 0%Z = x).
    { unfold replace_at. rewrite app_nth2 by (rewrite firstn_length; lia). rewrite firstn_length_le by lia. rewrite Nat.sub_diag. reflexivity. }
    rewrite Ex. unfold insert_at. rewrite firstn_app, map_length, LA, Nat.sub_diag. cbn [firstn]. rewrite app_nil_r.
    rewrite firstn_all2 by (rewrite map_length; lia).
    rewrite skipn_app, map_length, LA, Nat.sub_diag. rewrite skipn_all2 by (rewrite map_length; lia). reflexivity.
Qed.

(* ---------------- growth round: Remove and the initial table ---------------- *)
Lemma skipn_skipn_add {A} a b (l : list A) : skipn a (skipn b l) = skipn (a + b) l.
Proof.
  revert l. induction b; intros l; [rewrite Nat.add_0_r; reflexivity|].
  destruct l; [rewrite !skipn_nil; reflexivity|]. rewrite Nat.add_succ_r. cbn [skipn]. apply IHb.
Qed.

Lemma skipn_nth_cons {A} a (l : list A) d : a < length l -> skipn a l = nth a l d :: skipn (S a) l.
Proof.
  revert l. induction a; intros [|x l] H; simpl in H; try lia; [reflexivity|]. cbn [skipn nth]. apply IHa. lia.
Qed.

Lemma idx_split4 (l : list nat) a c : a < c -> c <= length l ->
  l = firstn a l ++ nth a l 0 :: firstn (c - a - 1) (skipn (S a) l) ++ skipn c l.
Proof.
  intros H1 H2. rewrite <- (firstn_skipn a l) at 1. f_equal.
  rewrite (skipn_nth_cons a l 0) by lia. f_equal.
  rewrite <- (firstn_skipn (c - a - 1) (skipn (S a) l)) at 1. f_equal.
  rewrite skipn_skipn_add. f_equal. lia.
Qed.

Theorem remove_idx_refines n index :
  winv n -> index < icount n ->
  let n' := remove_idx n index in
  winv n' /\ logical n' = remove_at index (logical n) /\ slots n' = slots n.
Proof.
  intros (L & ND & F & C) Hi. cbv zeta.
  set (c := icount n) in *. set (real := nth index (idx n) 0).
  pose proof (idx_split4 (idx n) index c Hi C) as E. fold real in E.
  set (A := firstn index (idx n)) in *. set (B := firstn (c - index - 1) (skipn (S index) (idx n))) in *. set (T := skipn c (idx n)) in *.
  assert (LA : length A = index) by (unfold A; apply firstn_length_le; lia).
  assert (LB : length B = c - index - 1) by (unfold B; apply firstn_length_le; rewrite skipn_length; lia).
  assert (Ec : firstn c (idx n) = A ++ real :: B).
  { rewrite E. change (A ++ real :: B ++ T) with (A ++ (real :: B) ++ T). rewrite app_assoc, firstn_app.
    replace (c - length (A ++ real :: B)) with 0 by (rewrite app_length; cbn [length]; lia).
    rewrite firstn_O, app_nil_r. apply firstn_all2. rewrite app_length. cbn [length]. lia. }
  split; [|split; [|reflexivity]].
  - unfold winv, remove_idx. cbn [slots idx icount]. fold c real A B T.
    assert (Ep : Permutation.Permutation (A ++ B ++ real :: T) (idx n)).
    { rewrite E. apply Permutation.Permutation_app_head. apply Permutation.Permutation_sym, Permutation.Permutation_middle. }
    split; [rewrite (Permutation.Permutation_length Ep); exact L|].
    split; [eapply Permutation.Permutation_NoDup; [apply Permutation.Permutation_sym; exact Ep | exact ND]|].
    split; [eapply Permutation.Permutation_Forall; [apply Permutation.Permutation_sym; exact Ep | exact F]|].
    rewrite (Permutation.Permutation_length Ep). lia.
  - unfold logical, remove_idx. cbn [slots idx icount]. fold c real A B T.
    assert (Ef : firstn (c - 1) (A ++ B ++ real :: T) = A ++ B).
    { rewrite app_assoc, firstn_app. replace (c - 1 - length (A ++ B)) with 0 by (rewrite app_length; lia).
      rewrite firstn_O, app_nil_r. apply firstn_all2. rewrite app_length. lia. }
    rewrite Ef, Ec, !map_app. cbn [map]. unfold remove_at.
    rewrite firstn_app, map_length, LA, Nat.sub_diag. cbn [firstn]. rewrite app_nil_r.
    rewrite firstn_all2 by (rewrite map_length; lia).
    rewrite skipn_app, map_length, LA. rewrite skipn_all2 by (rewrite map_length; lia).
    replace (S index - index) with 1 by lia. reflexivity.
Qed.

(* the node constructor: pvInitIndexes writes the identity table (see NodeOps.init_indexes_identity for the real loop) *)
Definition init_inode (cap : nat) (s : list Z) : inode := {| slots := s; idx := seq 0 cap; icount := 0 |}.

Theorem init_inode_winv cap s : length s = cap -> winv (init_inode cap s) /\ logical (init_inode cap s) = [].
Proof.
  intros H. split; [|reflexivity]. unfold winv, init_inode. cbn [slots idx icount]. rewrite seq_length.
  split; [auto|]. split; [apply seq_NoDup|]. split; [|lia].
  apply Forall_forall. intros i Hi. apply in_seq in Hi. lia.
Qed.

(* all node operations together: any sequence of AcceptBackItem / Remove on an indexed node keeps the table a permutation and the
   logical sequence equal to the same sequence of insert_at / remove_at on a plain list - the item list of the tree-level model *)
Inductive nop := NAccept (index : nat) (x : Z) | NRemove (index : nat).

Definition nstep_i (n : inode) (o : nop) : option inode :=
  match o with
  | NAccept i x => if andb (icount n <? length (idx n)) (i <=? icount n) then Some (accept_back (write_back n x) i) else None
  | NRemove i => if i <? icount n then Some (remove_idx n i) else None
  end.
Definition nstep_l (l : list Z) (cap : nat) (o : nop) : option (list Z) :=
  match o with
  | NAccept i x => if andb (length l <? cap) (i <=? length l) then Some (insert_at i x l) else None
  | NRemove i => if i <? length l then Some (remove_at i l) else None
  end.

Lemma logical_length n : winv n -> length (logical n) = icount n.
Proof. intros (L & _ & _ & C). unfold logical. rewrite map_length, firstn_length_le; lia. Qed.

Theorem node_history_refines ops : forall n, winv n ->
  match fold_left (fun s o => match s with Some m => nstep_i m o | None => None end) ops (Some n),
        fold_left (fun s o => match s with Some l => nstep_l l (length (idx n)) o | None => None end) ops (Some (logical n)) with
  | Some n', Some l' => winv n' /\ logical n' = l' /\ length (idx n') = length (idx n)
  | None, None => True
  | _, _ => False
  end.
Proof.
  induction ops as [|o ops IH]; intros n W; cbn [fold_left].
  - auto.
  - pose proof (logical_length n W) as LL.
    destruct o as [i x|i]; cbn [nstep_i nstep_l]; rewrite LL.
    + destruct (andb (icount n <? length (idx n)) (i <=? icount n)) eqn:E.
      * apply andb_prop in E. destruct E as [E1 E2]. apply Nat.ltb_lt in E1. apply Nat.leb_le in E2.
        destruct (accept_back_refines n x i W E2 E1) as (W' & L').
        specialize (IH _ W'). rewrite L' in IH.
        assert (EL : length (idx (accept_back (write_back n x) i)) = length (idx n)).
        { destruct W' as (A & _). pose proof W as (B & _ & F & _). rewrite A. unfold accept_back, write_back. cbn [slots].
          rewrite replace_at_length; [symmetry; exact B|].
          rewrite Forall_forall in F. apply F. apply nth_In. lia. }
        rewrite EL in IH. exact IH.
      * clear IH. induction ops; cbn [fold_left]; auto.
    + destruct (i <? icount n) eqn:E.
      * apply Nat.ltb_lt in E. destruct (remove_idx_refines n i W E) as (W' & L' & S').
        specialize (IH _ W'). rewrite L' in IH.
        assert (EL : length (idx (remove_idx n i)) = length (idx n)).
        { destruct W' as (A & _). pose proof W as (B & _). rewrite A, S'. symmetry; exact B. }
        rewrite EL in IH. exact IH.
      * clear IH. induction ops; cbn [fold_left]; auto.
Qed.
