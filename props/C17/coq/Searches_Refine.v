(* C17: the GENERATED pvBinarySearch / pvExponentialSearch (Gen_Searches.v, regenerated from HashSorter.h on every run; comparer =
   function on relative offsets, returns = exit codes) simulate the hand model's bs_loop / es_loop: whenever the hand search
   returns Ok, the generated loop returns the exit code + state that denote the same result.  With Search_Proofs the generic
   search specification (calls only inside [0,n), found -> comparer 0, sorted comparer -> partition point) is about generated code. *)
From Coq Require Import ZArith Bool List Lia.
From MomoCommon Require Import GenPrelude.
From C17 Require Import SorterSearch Search_Proofs Gen_Searches.
Local Open Scope Z_scope.

Section SearchesRefine.
  Variable cmpO : Z -> outcome Z.     (* the hand model's comparer (may be Stuck outside the array) *)
  Variable c : Z -> Z.                (* the generated code's comparer *)
  Hypothesis Hagree : forall i v, cmpO i = Ok v -> v = c i.
  Variable begin : Z.

  (* result denoted by an exit of the generated pvBinarySearch loop *)
  Definition bs_result (code : option Z) (st : Z * Z) : Z * bool :=
    let '(l, r) := st in match code with Some _ => ((wrapU 64 (l + r)) / 2, true) | None => (l, false) end.

  Lemma gen_bs_simulates : forall f l r res, bs_loop f cmpO l r = Ok res ->
    exists code st, pvBinarySearch_loop0 c f begin l r = Ok (code, st) /\ bs_result code st = res.
  Proof.
    induction f as [|f IH]; intros l r res Hh; [simpl in Hh; discriminate|].
    rewrite pvBinarySearch_loop0_eq. rewrite bs_loop_eq in Hh. destruct (Z.ltb_spec l r).
    2:{ inversion Hh. do 2 eexists. split; reflexivity. }
    cbv zeta in Hh |- *. set (m := wrapU 64 (l + r) / 2) in *.
    destruct (cmpO m) as [v| | |] eqn:Ec; try discriminate. cbn [bind] in Hh. rewrite (Hagree _ _ Ec) in Hh.
    assert (Hm : 0 <= m < 2 ^ 63).
    { unfold m. pose proof (wrapU_range 64 (l + r) ltac:(lia)). split; [apply Z.div_pos; lia|apply Z.div_lt_upper_bound; lia]. }
    destruct (Z.ltb_spec (c m) 0).
    - rewrite (wrapU_small 64 (m + 1)) by lia. apply IH. exact Hh.
    - rewrite Z.gtb_ltb. destruct (Z.ltb_spec 0 (c m)).
      + apply IH. exact Hh.
      + inversion Hh. do 2 eexists. split; reflexivity.
  Qed.

  (* what the source does at an exit of the generated pvExponentialSearch loop *)
  Definition es_continuation (cnt : Z) (code : option Z) (st : Z * Z) : outcome (Z * bool) :=
    let '(i, lft) := st in
    match code with
    | Some 1 => Ok (i, true)
    | Some 2 => bs_from cmpO lft (i - lft)
    | None => bs_from cmpO lft (cnt - lft)
    | _ => Stuck
    end.

  Lemma gen_es_simulates cnt : cnt < 2 ^ 64 -> forall f lft i res, 0 <= i -> es_loop f cmpO cnt lft i = Ok res ->
    exists code st, pvExponentialSearch_loop0 c f begin cnt i lft = Ok (code, st) /\ es_continuation cnt code st = Ok res.
  Proof.
    intros Hc. induction f as [|f IH]; intros lft i res Hi Hh; [simpl in Hh; discriminate|].
    rewrite pvExponentialSearch_loop0_eq. rewrite es_loop_eq in Hh. destruct (Z.ltb_spec i cnt).
    2:{ do 2 eexists. split; [reflexivity|]. cbn [es_continuation]. exact Hh. }
    destruct (cmpO i) as [v| | |] eqn:Ec; try discriminate. cbn [bind] in Hh. rewrite (Hagree _ _ Ec) in Hh. cbv zeta.
    rewrite Z.gtb_ltb. destruct (Z.ltb_spec 0 (c i)).
    - do 2 eexists. split; [reflexivity|]. cbn [es_continuation]. exact Hh.
    - destruct (Z.eqb_spec (c i) 0).
      + do 2 eexists. split; [reflexivity|]. cbn [es_continuation]. exact Hh.
      + rewrite (wrapU_small 64 (i + 1)) by lia.
        assert (Hw : wrapU 64 (wrapU 64 (i * 2) + 2) = wrapU 64 (i * 2 + 2)).
        { unfold wrapU. rewrite Zplus_mod_idemp_l. reflexivity. }
        rewrite Hw. apply IH; [apply wrapU_range; lia|exact Hh].
  Qed.

End SearchesRefine.

(* together with the specification of the hand search: for every comparer defined on [0,n) and every fuel F + 1 with
   n < 2^F (the source needs no fuel; 66 is what the model uses) the GENERATED binary search terminates and its exit denotes a
   result satisfying the search specification: index in [0,n], found -> comparer 0 there, sorted comparer -> partition point *)
Theorem gen_binary_search_spec cmpO c n begin (F : nat) : cmp_ok cmpO c n -> 0 <= n < 2 ^ 62 -> n < 2 ^ Z.of_nat F ->
  exists code st, pvBinarySearch_loop0 c (S F) begin 0 n = Ok (code, st) /\
    sres c n (fst (bs_result code st)) (snd (bs_result code st)).
Proof.
  intros Hok Hn HF.
  set (cmp' := fun i => if (0 <=? i) && (i <? n) then cmpO i else Stuck).
  assert (Hag' : forall i v, cmp' i = Ok v -> v = c i).
  { intros i v. unfold cmp'. destruct (Z.leb_spec 0 i); destruct (Z.ltb_spec i n); simpl; intros X; try discriminate.
    rewrite (Hok i) in X by lia. inversion X. reflexivity. }
  assert (Hok' : cmp_ok cmp' c n).
  { intros i Hi. unfold cmp'. destruct (Z.leb_spec 0 i); destruct (Z.ltb_spec i n); simpl; try lia. apply Hok. lia. }
  destruct (bs_loop_spec cmp' c n Hok' ltac:(lia) F 0 n) as (k & b & E & Hk & Hb & Hp); try lia.
  destruct (gen_bs_simulates cmp' c Hag' begin (S F) 0 n (k, b) E) as (code & st & G1 & G2).
  exists code, st. split; [exact G1|]. rewrite G2. unfold sres. cbn [fst snd]. repeat split; try tauto; lia.
Qed.
