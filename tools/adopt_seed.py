#!/usr/bin/env python3
"""adopt_seed.py <seed-out-dir> <seed-name> <property> "<needs>" [<caught-by ids>...]
Copies a validated seeded change into /verif/seeded/<seed-name>/ with meta.json (validation.json must say ok)."""
import sys, os, json, shutil, glob, re
src, name, prop, needs = sys.argv[1:5]; ids = sys.argv[5:]
val = json.load(open(os.path.join(src, 'validation.json')))
assert val['ok'], val
dst = os.path.join('/verif/seeded', name); os.makedirs(dst, exist_ok=True)
for f in ('patch.diff', 'demo.cpp', 'README.md', 'validation.json'):
    shutil.copy(os.path.join(src, f), dst)
results = {}
for i in ids:
    lp = os.path.join(src, 'check_%s.log' % i)
    if os.path.exists(lp):
        t = open(lp).read()
        results[i] = {'exit': 1 if 'VIOLATION' in t else 0, 'violations': len(re.findall(r'^VIOLATION', t, flags=re.M)),
                      'no_failing_input_found': 'no-failing-input-found' in t,
                      'broken_stages': re.findall(r'stage (\S+)\s+BROKEN', t)}
meta = {'breaks_property': prop, 'needs_to_manifest': needs,
        'origin': 'independent sub-agent given only the property text and a scratch worktree of /repo',
        'confirmed_by_coordinator': {'how': 'tools/validate_seed.sh in a scratch git worktree: demo passes without the patch, fails with it; patch applies; existing suite rebuilt and run',
                                     'demo_without_patch': val['demo_without_patch'], 'demo_with_patch': val['demo_with_patch'],
                                     'demo_flags': val['demo_flags'], 'suite_ok_count': val['suite_ok_count']},
        'checks_run': {'how': 'tools/run_seed.sh: patch applied to a private copy of the headers (VERIF_REPO), ./check <id>', 'results': results}}
json.dump(meta, open(os.path.join(dst, 'meta.json'), 'w'), indent=1)
print(json.dumps(meta['checks_run']['results']))
