From Coq Require Import ZArith List.
From C11 Require Import GrowModel.
Theorem C11_bucket_find_sound : forall k l p, bfind k l = Some p -> nth_error l p = Some k.
Proof. exact GrowModel.bfind_some. Qed.
Print Assumptions C11_bucket_find_sound.
