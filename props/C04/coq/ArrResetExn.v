(* C04 -- theorems over the cxx2coq-GENERATED Array<.., ArraySettings<N>>::Data::pvReset / Reset (Array.h:316-343, 462-483; Gen_ArrReset_exn.v,
   regenerated on every run).  mCapacity shares an anonymous union with the internal item buffer: the translation has ONE field for the
   union's storage ("union_fields"), read and written as mCapacity; the buffer view is the item creator's target, so whatever the creator
   does -- it may throw after having constructed some items -- the field afterwards holds an ARBITRARY value
   (parameter itemsCreator_clobber_mCapacity).  The handler `catch (...) { mCapacity = initCapacity; throw; }` (commit f340ccf) is translated
   ("try_catch_fails"); the theorem says the capacity read by the caller after a failed pvReset is the one before, for every clobber value. *)
From Coq Require Import ZArith Bool List Lia.
From MomoCommon Require Import GenPrelude.
From C04 Require Gen_ArrReset_exn.
Local Open Scope Z_scope.
Module R := Gen_ArrReset_exn.

Lemma pvReset_incomplete : forall items cnt cap count cf ia clob a items' cnt' cap',
  R.pvReset items cnt cap count cf ia clob a = Ok (false, items', cnt', cap') ->
  cf = true /\ items' = items /\ cnt' = cnt /\ cap' = cap.
Proof.
  intros until cap'. unfold R.pvReset. destruct (negb _); [|discriminate]. destruct cf; intros H; inversion H; auto.
Qed.

(* the handler is needed: when the creator completes, the union word really is the clobber value (the C++ object then reads its capacity
   through pvIsInternal, not through mCapacity) -- so a pvReset without the restoring handler would expose the clobbered word on failure *)
Lemma pvReset_completes : forall items cnt cap count ia clob a,
  items <> ia -> R.pvReset items cnt cap count false ia clob a = Ok (true, a, count, clob).
Proof.
  intros. unfold R.pvReset, R.pvIsInternal. destruct (Z.eqb_spec items ia); [contradiction|]. reflexivity.
Qed.
Lemma pvReset_throwing : forall items cnt cap count ia clob a,
  items <> ia -> R.pvReset items cnt cap count true ia clob a = Ok (false, items, cnt, cap).
Proof.
  intros. unfold R.pvReset, R.pvIsInternal. destruct (Z.eqb_spec items ia); [contradiction|]. reflexivity.
Qed.

Lemma Reset_incomplete : forall ic items cnt cap capacity count cf af newItems ia clob a items' cnt' cap',
  R.Reset ic items cnt cap capacity count cf af newItems ia clob a = Ok (false, items', cnt', cap') ->
  (cf = true \/ af = true) /\ items' = items /\ cnt' = cnt /\ cap' = cap.
Proof.
  intros until cap'. unfold R.Reset. destruct (Z.leb count capacity); [|discriminate].
  destruct (R.pvCheckCapacity capacity); try discriminate. destruct (Z.gtb capacity ic).
  - destruct af. { intros H; inversion H; auto. } destruct cf; intros H; inversion H; auto.
  - destruct (R.pvReset _ _ _ _ _ _ _ _) as [[[[c x] y] z]| | |] eqn:E; try discriminate.
    destruct c; [discriminate|]. intros H; inversion H; subst. apply pvReset_incomplete in E. destruct E as (-> & -> & -> & ->). auto.
Qed.

(* both branches of Reset are reached with a failing creator: external (capacity > internalCapacity) and internal (pvReset) *)
Lemma Reset_throwing_internal :
  R.Reset 4 1000 7 16 3 3 true false 0 2000 123456 2000 = Ok (false, 1000, 7, 16).
Proof. vm_compute. reflexivity. Qed.
Lemma Reset_throwing_external :
  R.Reset 4 1000 7 16 32 9 true false 3000 2000 123456 2000 = Ok (false, 1000, 7, 16).
Proof. vm_compute. reflexivity. Qed.
Lemma Reset_alloc_failure :
  R.Reset 4 1000 7 16 32 9 false true 3000 2000 123456 2000 = Ok (false, 1000, 7, 16).
Proof. vm_compute. reflexivity. Qed.
Lemma Reset_completes_internal :
  R.Reset 4 1000 7 16 3 3 false false 0 2000 123456 2000 = Ok (true, 2000, 3, 123456).
Proof. vm_compute. reflexivity. Qed.
