(* C11 model driver.  case line:  <kind> <F|S> <dist> <logStart> <S|M> | ops ... | <cap> <wf0> <nothrow> <wfodd> ann ann ...
   (the third part is the failure schedule observed on the real run, see harness.cpp); output = the same
   ops: i r q v x t c as in harness.cpp; e/j = Extract / Insert(ExtractedItem) as ORemove / OInsert of the held key;
   p<m>_<r> = Remove(filter); b<n> = n plain insertions; m = move round trip (no model step); y = OClear true.
   per-op tokens as the harness:  res/count/capacity/ngens/shape/find/trav *)
open Zutil
open GrowModel
let p = 2147483629
let dg acc x = (acc * 1000003 + (x mod p) + 7) mod p
let rec split_bar acc = function
  | [] -> (Stdlib.List.rev acc, [])
  | "|" :: r -> (Stdlib.List.rev acc, r)
  | x :: r -> split_bar (x :: acc) r
let parse_op s =
  (* kind, arg (arms are ignored: the annotation carries what happened) *)
  let n = String.length s in
  let i = ref 1 in
  while !i < n && s.[!i] >= '0' && s.[!i] <= '9' do incr i done;
  (s.[0], if !i > 1 then String.sub s 1 (!i - 1) else "0")
let rec repeat_false n = if n <= 0 then [] else false :: repeat_false (n - 1)
let sched_of m = if m < 0 then [] else repeat_false m @ [true]
let verbose = (try ignore (Sys.getenv "C11_VERBOSE"); true with Not_found -> false)
(* translator validation: the GENERATED leaf functions on the same inputs as the real ones (harness `leaf` lines) *)
let out_z = function GenPrelude.Ok v -> string_of_z v | GenPrelude.Stuck -> "Stuck" | GenPrelude.Fuel -> "Fuel" | GenPrelude.Exn -> "Exn"
let leaf ws = match ws with
  | ["cap"; k; mc; l] ->
    let bc = BinInt.Z.pow (z_of_int 2) (z_of_string l) and m = z_of_string mc in
    (match k with
     | "B" -> out_z (Gen_PolicyBase.coq_CalcCapacity bc m) ^ " " ^ out_z (Gen_PolicyBase.coq_GetBucketCountShift bc m)
     | "O2" -> string_of_z (Gen_PolicyOpen2N2.coq_CalcCapacity m bc) ^ " " ^ string_of_z Gen_PolicyOpen2N2.coq_GetBucketCountShift
     | _ -> string_of_z (Gen_PolicyOpen8.coq_CalcCapacity bc m) ^ " " ^ string_of_z Gen_PolicyOpen8.coq_GetBucketCountShift)
  | ["idx"; k; hc; l; i; p] ->
    let bc = BinInt.Z.pow (z_of_int 2) (z_of_string l) in
    let st = Gen_IndexBase.coq_GetStartBucketIndex (z_of_string hc) bc in
    let nx = (match k with
      | "B" -> Gen_IndexBase.coq_GetNextBucketIndex (z_of_string i) bc
      | "O2" -> Gen_IndexOpen2N2.coq_GetNextBucketIndex (z_of_string i) bc (z_of_string p)
      | _ -> Gen_IndexOpen8.coq_GetNextBucketIndex (z_of_string i) bc (z_of_string p)) in
    string_of_z st ^ " " ^ string_of_z nx
  | "bops" :: "o2" :: _ :: _ :: toks ->
    (* one BucketOpen2N2<3> bucket: generated AddCrt / Remove / UpdateMaxProbe / Clear; all bookkeeping bytes + IsFull *)
    let zf = (fun _ -> z_of_int 0) in
    let (m0, s0) = Gen_Open2N2_ops.pvSetEmpty zf zf zf in
    let st = ref (m0, s0, zf) in let bad = ref "" in
    Stdlib.List.iter (fun tok -> if !bad = "" then begin
      let (m, s, h) = !st in
      let f = Stdlib.List.map z_of_string (Stdlib.List.tl (String.split_on_char ':' tok)) in
      match tok.[0], f with
      | 'A', [hc; lbc; pr] -> (match Gen_Open2N2_ops.coq_AddCrt m s h hc lbc pr (z_of_int 0) with
          | GenPrelude.Ok (((_, m'), s'), h') -> st := (m', s', h') | _ -> bad := "stuck")
      | 'R', [j] -> (match Gen_Open2N2_ops.coq_Remove m s h (z_of_int (2 - int_of_z j)) with
          | GenPrelude.Ok (((_, m'), s'), h') -> st := (m', s', h') | _ -> bad := "stuck")
      | 'U', [p] -> (match Gen_Open2N2_ops.coq_UpdateMaxProbe m s h p with GenPrelude.Ok (_, m') -> st := (m', s, h) | _ -> bad := "stuck")
      | _ -> let (m', s') = Gen_Open2N2_ops.coq_Clear m s h in st := (m', s', h) end) toks;
    if !bad <> "" then !bad else begin
      let (m, s, h) = !st in let g f i = string_of_z (f (z_of_int i)) in
      Printf.sprintf "%s %s %s %s %s %s %s %s %s %d" (g m 0) (g m 1) (g s 0) (g s 1) (g s 2) (g h 0) (g h 1) (g h 2)
        (string_of_z (Gen_Open2N2_ops.pvGetCount m s h)) (if Gen_Open2N2_ops.coq_IsFull m s h then 1 else 0) end
  | "bops" :: (("n1" | "n1f") as knd) :: mcs :: _ :: toks ->
    let mc = z_of_string mcs in let rv = (knd = "n1") in
    let st = ref (Gen_OpenN1_ops.pvSetEmpty mc (fun _ -> z_of_int 0)) in let bad = ref "" in
    Stdlib.List.iter (fun tok -> if !bad = "" then begin
      let d = !st in
      let f = Stdlib.List.map z_of_string (Stdlib.List.tl (String.split_on_char ':' tok)) in
      match tok.[0], f with
      | 'A', [hc; _; _] -> (match Gen_OpenN1_ops.coq_AddCrt rv mc d hc (z_of_int 0) with GenPrelude.Ok (_, d') -> st := d' | _ -> bad := "stuck")
      | 'R', [j] -> (match Gen_OpenN1_ops.coq_Remove rv mc d j with GenPrelude.Ok (_, d') -> st := d' | _ -> bad := "stuck")
      | 'U', [p] -> (match Gen_OpenN1.coq_UpdateMaxProbe mc d p with GenPrelude.Ok (_, d') -> st := d' | _ -> bad := "stuck")
      | _ -> st := Gen_OpenN1_ops.coq_Clear mc d end) toks;
    if !bad <> "" then !bad else begin
      let d = !st in let b = Buffer.create 32 in
      for i = 0 to int_of_z mc do Buffer.add_string b (string_of_z (d (z_of_int i)) ^ " ") done;
      Buffer.contents b ^ Printf.sprintf "%s %d" (string_of_z (Gen_OpenN1_ops.pvGetCount rv mc d)) (if Gen_OpenN1_ops.coq_IsFull rv mc d then 1 else 0) end
  | "p4ops" :: toks ->
    (* one BucketLimP4<.., 4, .., true> bucket (hashCount 4, minMemPoolIndex 2): generated AddCrt / Remove / Clear *)
    let hh = z_of_int 4 and mm = z_of_int 2 in
    let zi = z_of_int in
    let ((s0, p0), t0) = Gen_P4A.pvSetEmpty hh (fun _ -> zi 0) (zi 0) (zi 0) mm in
    let st = ref (s0, p0, t0) in let bad = ref "" in
    Stdlib.List.iter (fun tok -> if !bad = "" then begin
      let (s, p, t) = !st in
      let f = Stdlib.List.map z_of_string (Stdlib.List.tl (String.split_on_char ':' tok)) in
      match tok.[0], f with
      | 'A', [hc; lbc; pr] ->
        (match Gen_P4A.coq_AddCrt hh mm s p t hc lbc pr (zi 1001) (zi 1001) (zi 1002) (zi 1002) (zi 1003) (zi 1003) (zi 1004) (zi 1004) (zi 1005) (zi 1005) with
         | GenPrelude.Ok (((_, s'), p'), t') -> st := (s', p', t') | _ -> bad := "stuck")
      | 'R', [j] ->
        (match Gen_P4A.coq_Remove hh mm s p t (if int_of_z (Gen_P4A.pvGetCount s p t) = 1 then p else zi 0) j with
         | GenPrelude.Ok (((_, s'), p'), t') -> st := (s', p', t') | _ -> bad := "stuck")
      | _ -> let ((s', p'), t') = Gen_P4A.coq_Clear hh mm s p t in st := (s', p', t') end) toks;
    if !bad <> "" then !bad else begin
      let (s, p, t) = !st in let g i = string_of_z (s (zi i)) in
      Printf.sprintf "%s %s %s %s %s %d %d %s %d" (g 0) (g 1) (g 2) (g 3) (string_of_z (Gen_P4A.pvGetCount s p t))
        (if Gen_P4A.coq_IsFull s p t then 1 else 0) (if Gen_P4A.coq_WasFull s p t then 1 else 0)
        (string_of_z (Gen_P4A.pvGetMemPoolIndex s p t)) (if int_of_z p = 0 then 0 else 1) end
  | "oneops" :: toks ->
    let st = ref (z_of_int 0) in let bad = ref "" in
    Stdlib.List.iter (fun tok -> if !bad = "" then begin
      let f = Stdlib.List.map z_of_string (Stdlib.List.tl (String.split_on_char ':' tok)) in
      match tok.[0], f with
      | 'A', [hc] -> (match Gen_One.coq_AddCrt !st hc with GenPrelude.Ok (_, s') -> st := s' | _ -> bad := "stuck")
      | 'R', _ -> (match Gen_One.coq_Remove !st (z_of_int 7) (z_of_int 7) with GenPrelude.Ok (_, s') -> st := s' | _ -> bad := "stuck")
      | _ -> st := Gen_One.coq_Clear !st end) toks;
    if !bad <> "" then !bad else
      Printf.sprintf "%s %d %d" (string_of_z !st) (if Gen_One.coq_IsFull !st then 1 else 0) (if Gen_One.coq_WasFull !st then 1 else 0)
  | ["cnt"; l] -> string_of_z (Gen_Buckets.coq_GetCount (z_of_string l))
  | ["rsv"; kind; nl0; n] ->
    (* generated HashSet::Reserve size loop over the generated policy of that bucket kind *)
    let mc = z_of_int (match kind with "L4" -> 4 | "L1" -> 1 | "O3" -> 3 | _ -> 7) in
    let tc bc m = (match kind with
      | "L4" | "L1" -> (match Gen_PolicyBase.coq_CalcCapacity bc m with GenPrelude.Ok v -> v | _ -> z_of_int 0)
      | "O3" -> Gen_PolicyOpen2N2.coq_CalcCapacity m bc
      | _ -> Gen_PolicyOpen8.coq_CalcCapacity bc m) in
    (match Gen_HashSetGrow.coq_Reserve_loop0 mc tc Gen_HashSetGrow.fuel_of_Reserve (z_of_string n) (z_of_int 0) (z_of_int 0) (z_of_string nl0) with
     | GenPrelude.Ok (_, (cap, lg)) -> string_of_z lg ^ " " ^ string_of_z cap
     | GenPrelude.Exn -> "EXN" | GenPrelude.Fuel -> "Fuel" | GenPrelude.Stuck -> "Stuck")
  | "move" :: kind :: l :: hs ->
    (* the GENERATED pvAddNogrow probe loop and pvRelocateItems loop skeleton, run on a table that is only a count per bucket:
       IsFull = count >= maxCount, GetStartBucketIndex / GetNextBucketIndex = the generated ones of the kind, buckets[i] = i;
       the relocation primitives Remove / GetHashCodePart are closures that log (bucket, iterator) *)
    let lg = int_of_string l in let bc = 1 lsl lg in let zbc = z_of_int bc in let z0 = z_of_int 0 in
    let mc = (match kind with "L1" | "O1" | "N1" -> 1 | "L2" -> 2 | "O3" -> 3 | "L4" -> 4 | _ -> 7) in
    let rec nat_of n = if n <= 0 then Datatypes.O else Datatypes.S (nat_of (n - 1)) in
    let cnt = Array.make bc 0 in
    let full i = cnt.(int_of_z i) >= mc in
    let nexti i _ b p = (match kind with
      | "O1" | "O3" -> Gen_IndexOpen2N2.coq_GetNextBucketIndex i b p
      | "O8" -> Gen_IndexOpen8.coq_GetNextBucketIndex i b p
      | _ -> Gen_IndexBase.coq_GetNextBucketIndex i b) in
    let buf = Buffer.create 256 in
    Buffer.add_string buf l;
    let maxp = Array.make bc 0 in let exact = (kind = "O1" || kind = "O3") in
    Stdlib.List.iter (fun hstr ->
      let h = z_of_string hstr in
      let i0 = int_of_z (Gen_IndexBase.coq_GetStartBucketIndex h zbc) in
      let total = Array.fold_left (+) 0 cnt in
      (* the WHOLE generated pvAddNogrow (instantiation <false>): position, mCount, recorded UpdateMaxProbe argument *)
      match Gen_HashSetMove.pvAddNogrow (z_of_int lg) z0 full nexti (fun hc b -> Gen_IndexBase.coq_GetStartBucketIndex hc b)
              (fun _ _ _ _ _ _ -> z0) z0 (fun _ i -> i) (fun i _ _ -> i) (fun _ -> zbc) (z_of_int total) z0 z0 z0 z0 h z0 with
      | GenPrelude.Ok ((i, mc'), rmp) ->
        let j = int_of_z i in cnt.(j) <- cnt.(j) + 1;
        if int_of_z rmp > maxp.(i0) then maxp.(i0) <- int_of_z rmp;
        Buffer.add_string buf (Printf.sprintf " %d/%s/%s" j (string_of_z mc') (if exact then string_of_int maxp.(i0) else "-"))
      | GenPrelude.Exn -> Buffer.add_string buf " F"
      | _ -> Buffer.add_string buf " ?") hs;
    let total = Array.fold_left (+) 0 cnt in
    let moves = ref [] in
    let remove b _ it _ = moves := (int_of_z b, int_of_z it) :: !moves; it in
    let hashpart _ _ _ _ _ _ = z0 in
    let cof b = z_of_int cnt.(int_of_z b) in
    let r = Gen_HashSetMove.pvRelocateItems_b_loop0 (z_of_int lg) (fun _ i -> i) (fun x -> x) (fun b _ -> b) cof hashpart remove cof
        (nat_of (bc + 1)) zbc z0 z0 z0 z0 z0 z0 z0 z0 z0 z0 z0 in
    Buffer.add_string buf (match r with GenPrelude.Ok _ -> " | 1" | GenPrelude.Exn -> " | EXN" | GenPrelude.Fuel -> " | FUEL" | GenPrelude.Stuck -> " | STUCK");
    Stdlib.List.iter (fun (b, it) -> Buffer.add_string buf (Printf.sprintf " %d.%d" b it)) (Stdlib.List.rev !moves);
    Buffer.add_string buf (Printf.sprintf " | %d" total);
    Buffer.contents buf
  | _ -> "?leaf"
let () = iter_lines (fun line ->
  try
    match words line with
    | "leaf" :: ws -> print_endline (leaf ws)
    | kind :: keycat :: dist :: ls :: sm :: "|" :: rest ->
      let (ops, ann) = split_bar [] rest in
      (match ann with
       | cap :: wf0 :: nothrow :: wfodd :: anns ->
         let openk = kind.[0] = 'O' in
         let cfg = { c_probe = z_of_int (if openk then 1 else 0); c_policy = z_of_int (if openk then 1 else 0);
                     c_cap = z_of_string cap; c_wf0 = (wf0 = "1"); c_logStart = z_of_string ls;
                     c_dist = z_of_string dist; c_nothrow = (nothrow = "1"); c_wfodd = (wfodd = "1") } in
         let st = ref (Some cfg_init) in
         let known = ref [] in
         let buf = Buffer.create 1024 in
         let first = ref true in
         let held = ref None in
         let parse_ann an = match Stdlib.List.map int_of_string (String.split_on_char '.' an) with
           | [h; af; r; m] -> (h = 1, af = 1, r = 1, sched_of m)
           | _ -> failwith "bad annotation" in
         let letter r = match r with
           | RInserted -> "I" | RAlready -> "A" | RFull -> "U" | RBadAlloc -> "B" | RExn -> "E" | RCheck -> "K"
           | RFound b -> if b then "F1" else "F0" | RRemoved b -> if b then "R1" else "R0"
           | RList _ -> "T" | RNum _ -> "C" | RUnit -> "V" in
         let wrap name x = match x with None -> ("TERMINATE", None) | Some (s', r) -> ((match name with "" -> letter r | n -> n), Some s') in
         Stdlib.List.iter2 (fun ops an ->
           let (k, a) = parse_op ops in
           let key = z_of_string a in
           if (k = 'i' || k = 'r' || k = 'q' || k = 'e') && not (Stdlib.List.mem a !known) then known := !known @ [a];
           (* one harness token may be several / no model steps *)
           let (res, nst) =
             match !st with
             | None -> ("TERMINATE", None)
             | Some s ->
               (match k with
                | 'i' -> let (h, af, r, sc) = parse_ann an in wrap "" (cfg_step cfg s (OInsert (key, h, af, r, sc)))
                | 'v' -> let (_, _, r, sc) = parse_ann an in wrap "" (cfg_step cfg s (OReserve (key, r, sc)))
                | 'r' -> wrap "" (cfg_step cfg s (ORemove key))
                | 'q' -> wrap "" (cfg_step cfg s (OFind key))
                | 'x' -> wrap "X" (cfg_step cfg s (OClear (a = "1")))
                | 'y' -> wrap "Y" (cfg_step cfg s (OClear true))
                | 'm' -> ("M", Some s)
                | 't' -> wrap "T" (cfg_step cfg s OTraverse)
                | 'c' -> ("C", Some s)
                | 'e' -> (* Extract = pvFind + pvRemove (pvExtract only changes where the item is relocated to) *)
                  (match cfg_step cfg s (ORemove key) with
                   | None -> ("TERMINATE", None)
                   | Some (s', RRemoved true) -> held := Some key; ("E1", Some s')
                   | Some (s', _) -> held := None; ("E0", Some s'))
                | 'j' -> (* Insert(ExtractedItem&&) = pvInsert with a nothrow item creator *)
                  (match !held with
                   | None -> ("N", Some s)
                   | Some hk ->
                     let (h, af, r, sc) = parse_ann an in
                     (match cfg_step cfg s (OInsert (hk, h, af, r, sc)) with
                      | None -> ("TERMINATE", None)
                      | Some (s', r) -> (if r = RInserted then held := None); ("J" ^ letter r, Some s')))
                | 'p' -> (* p<m>_<r> *)
                  let us = String.index ops '_' in
                  let m = z_of_string (String.sub ops 1 (us - 1)) in
                  let rest = String.sub ops (us + 1) (String.length ops - us - 1) in
                  (match cfg_step cfg s (ORemoveIf (m, z_of_string rest)) with
                   | None -> ("TERMINATE", None)
                   | Some (s', RNum n) -> ("P" ^ string_of_z n, Some s')
                   | Some (s', _) -> ("P?", Some s'))
                | 'b' -> (* bulk: n plain insertions of 7000.. *)
                  let n = int_of_string a in
                  let cur = ref (Some s) in
                  for j = 0 to n - 1 do
                    let kk = string_of_int (7000 + j) in
                    if not (Stdlib.List.mem kk !known) then known := !known @ [kk];
                    (match !cur with
                     | None -> ()
                     | Some s1 -> (match cfg_step cfg s1 (OInsert (z_of_string kk, false, false, false, [])) with
                                   | None -> cur := None | Some (s2, _) -> cur := Some s2))
                  done;
                  (match !cur with None -> ("TERMINATE", None) | Some s' -> ("L", Some s'))
                | _ -> ("?", Some s)) in
           let tok =
             match nst with
             | None -> st := None; "TERMINATE"
             | Some s' ->
                  st := Some s';
                  let sh = ref 0 in
                  let txt = Buffer.create 64 in
                  Stdlib.List.iter (fun (lg, bs) ->
                    sh := dg !sh (int_of_z lg); sh := dg !sh (Stdlib.List.length bs);
                    if verbose then Buffer.add_string txt (" G" ^ string_of_z lg ^ ":");
                    Stdlib.List.iter (fun (its, wf) ->
                      sh := dg !sh (if wf then 1 else 0); sh := dg !sh (Stdlib.List.length its);
                      if verbose then Buffer.add_string txt (if wf then "[" else "(");
                      Stdlib.List.iter (fun x -> sh := dg !sh (int_of_z x);
                                  if verbose then Buffer.add_string txt (string_of_z x ^ ",")) its;
                      if verbose then Buffer.add_string txt (if wf then "]" else ")")) bs) (cfg_shape s');
                  let fd = Stdlib.List.fold_left (fun acc a -> dg acc (if cfg_find cfg s' (z_of_string a) then 1 else 0)) 0 !known in
                  let td = Stdlib.List.fold_left (fun acc x -> dg acc (int_of_z x)) 0 (cfg_traverse cfg s') in
                  Printf.sprintf "%s/%s/%s/%d/%d/%d/%d%s" res (string_of_z (count s')) (string_of_z (capacity s'))
                    (Stdlib.List.length (gens s')) !sh fd td
                    (if verbose then "{" ^ Buffer.contents txt ^ " }" else "") in
           if not !first then Buffer.add_char buf ' ';
           first := false; Buffer.add_string buf tok) ops anns;
         print_endline (Buffer.contents buf)
       | _ -> print_endline "?ann")
    | _ -> print_endline "?"
  with e -> print_endline ("!" ^ Printexc.to_string e))
