(* Extraction of the executable models (ExtrOcamlBasic only). *)
From Coq Require Import ZArith List Extraction ExtrOcamlBasic.
From C15 Require Version Arr MultiMap Table.
From C15 Require Gen_VersionKeeper Gen_ArrayIndexIterator Gen_ArrayShifter Gen_ArrayGuards Gen_MultiMapGuards Gen_SelectionGuards Gen_TableGuards Gen_TreeIterator Gen_SegmentedArrayGuards Gen_DataRawIterator.
Separate Extraction Version.run_out Version.init Version.getc
  Arr.arun_out Arr.ainit MultiMap.mrun_out MultiMap.minit Table.trun_out Table.tinit
  Gen_VersionKeeper.Check_self Gen_VersionKeeper.Check_cont Gen_ArrayIndexIterator.op_add_assign Gen_ArrayIndexIterator.op_arrow
  Gen_ArrayShifter.Remove_guard Gen_ArrayShifter.InsertNogrow_guard Gen_ArrayGuards.Index_guard Gen_ArrayGuards.RemoveBack_guard
  Gen_ArrayGuards.InsertN_guard Gen_MultiMapGuards.RemoveKI_guard Gen_SelectionGuards.SelRemove_guard Gen_SelectionGuards.SelIndex_guard
  Gen_TableGuards.Row_guard Gen_TableGuards.TryInsert_guard Gen_TableGuards.TryUpdateNum_guard
  Gen_TreeIterator.Inc_guard Gen_TreeIterator.Arrow_guard
  Gen_SegmentedArrayGuards.SegIndex_guard Gen_SegmentedArrayGuards.SegRemoveBack_guard Gen_SegmentedArrayGuards.SegInsertN_guard
  Gen_DataRawIterator.raw_add_assign Gen_DataRawIterator.raw_arrow.
