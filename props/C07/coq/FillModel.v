(* C07 / DataTable::pvFill (the copy and filter-copy constructors) and its failure path (DataTable.h:948-980, commit 91ea186).
   Memory discipline of the rows: `live` = rows allocated in mRawMemPool, `raws` = mRaws, ok = no row was destroyed that is
   not live (MemPool::Deallocate asserts allocCount > 0: the abort this check found before 91ea186).
   Per source row that passes the filter: mRaws.Reserve(count+1) [may throw]; pvImportRaw [allocates, may throw before
   allocating]; try { mIndexes.AddRaw(raw) } catch (...) { pvDestroyRaw(raw); throw; }  mRaws.AddBackNogrow(raw).
   Outer handler: pvDestroyRaws(); mRaws.Clear() [the fix]; throw.  The constructor that called pvFill is a delegating one,
   so after the exception ~DataTable runs and calls pvDestroyRaws() once more. *)
From Coq Require Import List ZArith Bool Arith PeanoNat Lia.
Import ListNotations.

Record fstate := mkF { f_live : list Z; f_raws : list Z; f_ok : bool }.
Inductive fpoint := FReserve | FImport | FAddRaw.
Definition fsched := option (nat * fpoint).

Definition fhits (fl : fsched) (i : nat) (p : fpoint) : bool :=
  match fl with
  | Some (j, q) => Nat.eqb i j && match p, q with FReserve, FReserve | FImport, FImport | FAddRaw, FAddRaw => true | _, _ => false end
  | None => false
  end.

Definition remove1 (r : Z) (l : list Z) : list Z := remove Z.eq_dec r l.
Definition destroy_raw (r : Z) (st : fstate) : fstate :=
  if existsb (Z.eqb r) (f_live st) then mkF (remove1 r (f_live st)) (f_raws st) (f_ok st) else mkF (f_live st) (f_raws st) false.
Definition destroy_raws (st : fstate) : fstate := fold_left (fun s r => destroy_raw r s) (f_raws st) st.

(* the outer catch block; fixd = with mRaws.Clear() (the code since 91ea186) *)
Definition handler (fixd : bool) (st : fstate) : fstate :=
  let st' := destroy_raws st in if fixd then mkF (f_live st') [] (f_ok st') else st'.

Fixpoint fill (fixd : bool) (fl : fsched) (rows : list Z) (i : nat) (st : fstate) : fstate * bool :=
  match rows with
  | [] => (st, false)
  | r :: rows' =>
      if fhits fl i FReserve || fhits fl i FImport then (handler fixd st, true)
      else
        let st1 := mkF (f_live st ++ [r]) (f_raws st) (f_ok st) in                (* pvImportRaw *)
        if fhits fl i FAddRaw then (handler fixd (destroy_raw r st1), true)       (* inner catch, then outer *)
        else fill fixd fl rows' (S i) (mkF (f_live st1) (f_raws st1 ++ [r]) (f_ok st1))
  end.

(* copy construction: pvFill on the empty table; on exception the destructor runs *)
Definition copy_construct (fixd : bool) (fl : fsched) (rows : list Z) : fstate * bool :=
  let '(st, threw) := fill fixd fl rows 0 (mkF [] [] true) in
  if threw then (destroy_raws st, true) else (st, false).

(* ---------------------------------------------------------------- proofs *)
Definition inv (st : fstate) : Prop := f_ok st = true /\ f_live st = f_raws st /\ NoDup (f_raws st).

Lemma destroy_raw_live r l raws : NoDup (r :: l) -> destroy_raw r (mkF (r :: l) raws true) = mkF l raws true.
Proof.
  intros Hn. unfold destroy_raw. cbn [f_live f_raws f_ok existsb]. rewrite Z.eqb_refl. cbn [orb]. f_equal.
  unfold remove1. cbn. destruct (Z.eq_dec r r); [|contradiction]. apply notin_remove. inversion Hn; assumption.
Qed.

Lemma destroy_all : forall raws extra, NoDup (raws ++ extra) ->
  fold_left (fun s r => destroy_raw r s) raws (mkF (raws ++ extra) (raws ++ extra) true) = mkF extra (raws ++ extra) true.
Proof.
  intros raws extra Hn.
  assert (G : forall rs live keep, NoDup (rs ++ live) ->
              fold_left (fun s r => destroy_raw r s) rs (mkF (rs ++ live) keep true) = mkF live keep true).
  { induction rs as [|r rs IH]; intros live keep H; [reflexivity|]. cbn [fold_left app].
    rewrite (destroy_raw_live r (rs ++ live) keep H). apply IH. inversion H; assumption. }
  apply G. exact Hn.
Qed.

Lemma destroy_raws_inv st : inv st -> destroy_raws st = mkF [] (f_raws st) true.
Proof.
  intros (Hok & Hl & Hn). destruct st as [live raws ok]. cbn [f_ok f_live f_raws] in *. subst ok live. unfold destroy_raws. cbn [f_raws].
  pose proof (destroy_all raws [] ltac:(rewrite app_nil_r; exact Hn)) as H. rewrite app_nil_r in H. exact H.
Qed.

Lemma handler_fixed st : inv st -> handler true st = mkF [] [] true.
Proof. intros H. unfold handler. rewrite (destroy_raws_inv st H). reflexivity. Qed.

Lemma NoDup_app_l {A} (a b : list A) : NoDup (a ++ b) -> NoDup a.
Proof.
  induction a as [|x a IH]; intros H; [constructor|]. inversion H; subst. constructor; [|auto].
  intros Hin. apply H2. apply in_or_app. left. exact Hin.
Qed.

Lemma destroy_raw_last r l raws : ~ In r l -> destroy_raw r (mkF (l ++ [r]) raws true) = mkF l raws true.
Proof.
  intros Hn. unfold destroy_raw. cbn [f_live f_raws f_ok].
  assert (E : existsb (Z.eqb r) (l ++ [r]) = true).
  { apply existsb_exists. exists r. split; [apply in_or_app; right; left; reflexivity|apply Z.eqb_refl]. }
  rewrite E. f_equal. unfold remove1. rewrite remove_app. rewrite (notin_remove Z.eq_dec l r Hn). cbn.
  destruct (Z.eq_dec r r); [apply app_nil_r|contradiction].
Qed.

Lemma fill_spec fl : forall rows i st, inv st -> NoDup (f_raws st ++ rows) ->
  let '(st', threw) := fill true fl rows i st in
  if threw then st' = mkF [] [] true else inv st' /\ f_raws st' = f_raws st ++ rows.
Proof.
  induction rows as [|r rows IH]; intros i st Hinv Hn; cbn [fill].
  - split; [exact Hinv|]. rewrite app_nil_r. reflexivity.
  - destruct (fhits fl i FReserve || fhits fl i FImport); [apply handler_fixed; exact Hinv|].
    destruct Hinv as (Hok & Hl & Hnd).
    assert (Hr : ~ In r (f_raws st)).
    { intros Hin. apply NoDup_remove_2 in Hn. apply Hn. apply in_or_app. left. exact Hin. }
    destruct (fhits fl i FAddRaw).
    + assert (E : destroy_raw r (mkF (f_live st ++ [r]) (f_raws st) (f_ok st)) = st).
      { rewrite Hok, Hl. rewrite destroy_raw_last by exact Hr. destruct st; cbn in *; subst; reflexivity. }
      rewrite E. apply handler_fixed. repeat split; assumption.
    + cbn [f_live f_raws f_ok].
      specialize (IH (S i) (mkF (f_live st ++ [r]) (f_raws st ++ [r]) (f_ok st))).
      cbn [f_raws] in IH. rewrite <- app_assoc in IH. cbn [app] in IH.
      assert (Hinv' : inv (mkF (f_live st ++ [r]) (f_raws st ++ [r]) (f_ok st))).
      { repeat split; cbn [f_ok f_live f_raws]; [exact Hok|rewrite Hl; reflexivity|].
        pose proof Hn as Hn2. change (r :: rows) with ([r] ++ rows) in Hn2. rewrite app_assoc in Hn2.
        apply NoDup_app_l in Hn2. exact Hn2. }
      specialize (IH Hinv' Hn). exact IH.
Qed.

(* copy / filter-copy construction with the code as it is now: for EVERY failure point (Reserve, pvImportRaw or AddRaw of any
   row) nothing is destroyed twice and nothing leaks, although pvDestroyRaws runs twice (handler + destructor); without a
   failure the table holds exactly the imported rows *)
Theorem fill_failure_safe fl rows : NoDup rows ->
  let '(st, threw) := copy_construct true fl rows in
  f_ok st = true /\ (if threw then f_live st = [] /\ f_raws st = [] else f_live st = rows /\ f_raws st = rows).
Proof.
  intros Hn. unfold copy_construct.
  pose proof (fill_spec fl rows 0 (mkF [] [] true) ltac:(repeat split; constructor) Hn) as H.
  destruct (fill true fl rows 0 (mkF [] [] true)) as [st threw]. destruct threw.
  - subst st. cbn. auto.
  - destruct H as ((Hok & Hl & _) & Hr). cbn [f_raws app] in Hr. rewrite Hl, Hr. auto.
Qed.

(* the shape before 91ea186 (no mRaws.Clear() in the handler): one row added, the AddRaw of the second throws -> the destructor
   destroys the first row a second time *)
Theorem fill_without_clear_refuted : exists fl rows, NoDup rows /\ f_ok (fst (copy_construct false fl rows)) = false.
Proof.
  exists (Some (1, FAddRaw)), [10; 20]%Z. split; [repeat constructor; simpl; intuition discriminate|]. vm_compute. reflexivity.
Qed.

(* ================================================================ the DUMPED pvFill (Gen_Protocol.T_pvFill) is `fill true`
   The statement tree of DataTable::pvFill is executed on the memory model above: per source row (the rows that pass the
   filter) the body statements in their dumped order - mRaws.Reserve [fallible], pvImportRaw [fallible, allocates],
   try { mIndexes.AddRaw } catch { pvDestroyRaw; throw }, mRaws.AddBackNogrow - and on an exception the dumped outer handler.
   The initial `Reserve(rows.GetCount())` of the unfiltered copy is outside the try block (nothing to undo) and not modelled. *)
From Coq Require Import String.
From C07 Require Import ProtoSyntax.
From C07 Require Gen_Protocol.
Local Open Scope string_scope.

Inductive fctl := KGo | KThrow | KBad.

(* catch-block statements *)
Fixpoint hstmts (b : list pstmt) (raw : string) (r : Z) (st : fstate) : fstate * fctl :=
  match b with
  | [] => (st, KGo)
  | s :: b' =>
      match s with
      | SThrow => (st, KThrow)
      | SExpr (ECall ENone f []) => if f =? "pvDestroyRaws" then hstmts b' raw r (destroy_raws st) else (st, KBad)
      | SExpr (ECall ENone f [EVar x]) => if (f =? "pvDestroyRaw") && (x =? raw) then hstmts b' raw r (destroy_raw r st) else (st, KBad)
      | SExpr (ECall (EVar o) f []) => if (o =? "mRaws") && (f =? "Clear") then hstmts b' raw r (mkF (f_live st) [] (f_ok st)) else (st, KBad)
      | _ => (st, KBad)
      end
  end.

(* loop-body statements for the source row whose copy gets address r *)
Fixpoint bstmts (fl : fsched) (i : nat) (b : list pstmt) (raw : string) (r : Z) (st : fstate) : fstate * fctl :=
  match b with
  | [] => (st, KGo)
  | s :: b' =>
      match s with
      | SIf (EUn op (ECall (EVar rf) call [EVar _])) [SContinue] [] =>       (* if (!rowFilter(rowRef)) continue; - r passes *)
          if (op =? "!") && (rf =? "rowFilter") && (call =? "()") then bstmts fl i b' raw r st else (st, KBad)
      | SExpr (ECall (EVar o) f args) =>
          if (o =? "mRaws") && (f =? "Reserve") then (if fhits fl i FReserve then (st, KThrow) else bstmts fl i b' raw r st)
          else if (o =? "mRaws") && (f =? "AddBackNogrow") then
            match args with
            | [EVar x] => if x =? raw then bstmts fl i b' raw r (mkF (f_live st) (f_raws st ++ [r]) (f_ok st)) else (st, KBad)
            | _ => (st, KBad)
            end
          else (st, KBad)
      | SDecl x (ECall ENone f _) =>
          if (f =? "pvImportRaw") && (x =? raw) then
            if fhits fl i FImport then (st, KThrow) else bstmts fl i b' raw r (mkF (f_live st ++ [r]) (f_raws st) (f_ok st))
          else (st, KBad)
      | STry [SExpr (ECall (EVar o) f [EVar x])] h =>
          if (o =? "mIndexes") && (f =? "AddRaw") && (x =? raw) then
            if fhits fl i FAddRaw then hstmts h raw r st else bstmts fl i b' raw r st
          else (st, KBad)
      | _ => (st, KBad)
      end
  end.

Fixpoint fill_loop (fl : fsched) (body handler : list pstmt) (rows : list Z) (i : nat) (st : fstate) : fstate * bool :=
  match rows with
  | [] => (st, false)
  | r :: rows' =>
      match bstmts fl i body "raw" r st with
      | (st', KGo) => fill_loop fl body handler rows' (S i) st'
      | (st', _) => (fst (hstmts handler "raw" 0%Z st'), true)
      end
  end.

Definition fill_tree (p : list pstmt) (fl : fsched) (rows : list Z) (st : fstate) : option (fstate * bool) :=
  match p with
  | [SDecl _ _; SIf _ [SExpr (ECall ENone rs [_])] []; STry [SFor _ (EVar rw) body] handler; SExpr (ECall ENone sn [])] =>
      if (rs =? "Reserve") && (rw =? "rows") && (sn =? "pvSetNumbers") then Some (fill_loop fl body handler rows 0 st) else None
  | _ => None
  end.

Lemma fill_loop_is_fill fl body handler :
  body = match Gen_Protocol.T_pvFill with [_; _; STry [SFor _ _ b] _; _] => b | _ => [] end ->
  handler = match Gen_Protocol.T_pvFill with [_; _; STry _ h; _] => h | _ => [] end ->
  forall rows i st, fill_loop fl body handler rows i st = fill true fl rows i st.
Proof.
  intros -> ->. induction rows as [|r rows IH]; intros i st; [reflexivity|].
  cbn [fill_loop fill]. unfold Gen_Protocol.T_pvFill.
  cbv -[fhits destroy_raw destroy_raws fill_loop fill app f_live f_raws f_ok].
  destruct (fhits fl i FReserve); [reflexivity|]. destruct (fhits fl i FImport); [reflexivity|].
  destruct (fhits fl i FAddRaw); [reflexivity|]. apply IH.
Qed.

(* DataTable::pvFill as it is in the source = the model `fill true` (with mRaws.Clear() in the handler) *)
Theorem generated_pvFill fl rows st :
  fill_tree Gen_Protocol.T_pvFill fl rows st = Some (fill true fl rows 0 st).
Proof.
  unfold fill_tree. rewrite <- (fill_loop_is_fill fl _ _ eq_refl eq_refl rows 0 st). reflexivity.
Qed.
