(* Extraction of the executable free-list machine (C19).  ExtrOcamlBasic only. *)
From Coq Require Import List Extraction ExtrOcamlBasic.
From C19 Require Treiber.
Separate Extraction Treiber.step Treiber.run Treiber.init Treiber.walk Treiber.held Treiber.dpc_kind Treiber.opc_kind.
