(* C03 -- pointwise state summaries: the live blocks are described by a FUNCTION id -> option (manager, size) instead of an
   exact list, so that blocks may be returned in any order (SegmentedArray's pointer array, DataTable's free-raw stack,
   stdish migrations between two allocators). Lifting lemmas import everything proved with the list summaries. *)
From Coq Require Import ZArith Bool List Lia.
From C03 Require Import Effects EffectsProofs.
Import ListNotations.
Local Open Scope Z_scope.

Definition bview : Type := Z -> option (Z * Z).

Definition st2 (s : rstate) (f : loc -> bool) (g : bview) (nb : Z) : Prop :=
  (forall l, occf s l = f l) /\ (forall b, find_blk b (blocks s) = g b) /\ nextb s = nb.

Lemma st2_ext s f f' g g' nb : (forall l, f l = f' l) -> (forall b, g b = g' b) -> st2 s f g nb -> st2 s f' g' nb.
Proof. intros Ef Eg (A & B & C). split; [intros l; rewrite A; apply Ef|split; [intros b; rewrite B; apply Eg|exact C]]. Qed.

Lemma st2_st_is s f g nb : st2 s f g nb -> st_is s f (blocks s) nb.
Proof. intros (A & _ & C). split; [exact A|split; [reflexivity|exact C]]. Qed.

Lemma find_blk_remove b bs : forall b', find_blk b' (remove_blk b bs) = if Z.eqb b b' then None else find_blk b' bs.
Proof.
  induction bs as [|[x p] bs IH]; intros b'; simpl.
  - destruct (Z.eqb b b'); reflexivity.
  - destruct (Z.eqb_spec x b) as [E|E]; simpl.
    + subst x. rewrite IH. destruct (Z.eqb_spec b b'); reflexivity.
    + destruct (Z.eqb_spec x b') as [E'|E'].
      * subst x. destruct (Z.eqb_spec b b'); [congruence|reflexivity].
      * apply IH.
Qed.

(* anything proved with a list summary that leaves the block list alone holds for the pointwise summary *)
Lemma lift_post {A} (m : M A) s f g nb (f' : A -> loc -> bool) :
  st2 s f g nb ->
  post m s (fun a s' => st_is s' (f' a) (blocks s) nb) (fun s' => st_is s' f (blocks s) nb) ->
  post m s (fun a s' => st2 s' (f' a) g nb) (fun s' => st2 s' f g nb).
Proof.
  intros (_ & B & _) P. eapply post_conseq; [exact P| |].
  - intros a s' (X & Y & Zn). split; [exact X|split; [rewrite Y; exact B|exact Zn]].
  - intros s' (X & Y & Zn). split; [exact X|split; [rewrite Y; exact B|exact Zn]].
Qed.

Lemma lift_post_nt {A} (m : M A) s f g nb (f' : A -> loc -> bool) :
  st2 s f g nb ->
  post m s (fun a s' => st_is s' (f' a) (blocks s) nb) (fun _ => False) ->
  post m s (fun a s' => st2 s' (f' a) g nb) (fun _ => False).
Proof.
  intros (_ & B & _) P. eapply post_conseq; [exact P| |auto].
  intros a s' (X & Y & Zn). split; [exact X|split; [rewrite Y; exact B|exact Zn]].
Qed.

Lemma p_alloc_post2 mgr size s f g nb :
  st2 s f g nb ->
  post (p_alloc mgr size) s (fun b s' => b = nb /\ st2 s' f (fun x => if Z.eqb nb x then Some (mgr, size) else g x) (nb + 1))
       (fun s' => st2 s' f g nb).
Proof.
  intros H. pose proof (p_alloc_post mgr size s f (blocks s) nb (st2_st_is _ _ _ _ H)) as P.
  destruct H as (_ & B & _). eapply post_conseq; [exact P| |].
  - intros b s' [Eb (X & Y & Zn)]. split; [exact Eb|]. split; [exact X|split; [|exact Zn]].
    intros x. rewrite Y. simpl. destruct (Z.eqb nb x); [reflexivity|apply B].
  - intros s' (X & Y & Zn). split; [exact X|split; [rewrite Y; exact B|exact Zn]].
Qed.

Lemma p_dealloc_post2 mgr b size s f g nb :
  st2 s f g nb -> g b = Some (mgr, size) ->
  post (p_dealloc mgr b size) s (fun _ s' => st2 s' f (fun x => if Z.eqb b x then None else g x) nb) (fun _ => False).
Proof.
  intros H Hg. pose proof H as (_ & B & _).
  assert (Hf : find_blk b (blocks s) = Some (mgr, size)) by (rewrite B; exact Hg).
  eapply post_conseq; [apply (p_dealloc_post mgr b size s f (blocks s) nb (st2_st_is _ _ _ _ H) Hf)| |auto].
  intros u s' (X & Y & Zn). split; [exact X|split; [|exact Zn]].
  intros x. rewrite Y, find_blk_remove. destruct (Z.eqb b x); [reflexivity|apply B].
Qed.

Lemma p_touch_post2 b s f g nb p :
  st2 s f g nb -> g b = Some p -> post (p_touch_blk b) s (fun _ s' => st2 s' f g nb) (fun _ => False).
Proof.
  intros H Hg. pose proof H as (_ & B & _).
  apply (lift_post_nt (p_touch_blk b) s f g nb (fun _ => f) H).
  apply (p_touch_post b s f (blocks s) nb p (st2_st_is _ _ _ _ H)). rewrite B. exact Hg.
Qed.

Lemma p_copy_post2 dst src s f g nb :
  st2 s f g nb -> f src = true -> f dst = false ->
  post (p_copy dst src) s (fun _ s' => st2 s' (fun l => loc_eqb l dst || f l) g nb) (fun s' => st2 s' f g nb).
Proof.
  intros H Hs Hd. apply (lift_post (p_copy dst src) s f g nb (fun _ l => loc_eqb l dst || f l) H).
  apply (p_copy_post dst src s f (blocks s) nb (st2_st_is _ _ _ _ H) Hs Hd).
Qed.

Lemma p_move_nt_post2 dst src s f g nb :
  st2 s f g nb -> f src = true -> f dst = false ->
  post (p_move_nt dst src) s (fun _ s' => st2 s' (fun l => loc_eqb l dst || f l) g nb) (fun _ => False).
Proof.
  intros H Hs Hd. apply (lift_post_nt (p_move_nt dst src) s f g nb (fun _ l => loc_eqb l dst || f l) H).
  apply (p_move_nt_post dst src s f (blocks s) nb (st2_st_is _ _ _ _ H) Hs Hd).
Qed.

Lemma p_destroy_post2 l s f g nb :
  st2 s f g nb -> f l = true ->
  post (p_destroy l) s (fun _ s' => st2 s' (fun l' => negb (loc_eqb l' l) && f l') g nb) (fun _ => False).
Proof.
  intros H Hl. apply (lift_post_nt (p_destroy l) s f g nb (fun _ l' => negb (loc_eqb l' l) && f l') H).
  apply (p_destroy_post l s f (blocks s) nb (st2_st_is _ _ _ _ H) Hl).
Qed.

Lemma om_destroy_n_post2 r n base s f g nb :
  st2 s f g nb -> (forall k, 0 <= k < Z.of_nat n -> f (r, base + k) = true) ->
  post (om_destroy_n r base n) s (fun _ s' => st2 s' (fun l => negb (inrng r base n l) && f l) g nb) (fun _ => False).
Proof.
  intros H Hr. apply (lift_post_nt (om_destroy_n r base n) s f g nb (fun _ l => negb (inrng r base n l) && f l) H).
  apply (om_destroy_n_post r n base s f (blocks s) nb (st2_st_is _ _ _ _ H) Hr).
Qed.

Lemma fallible_post2 s f g nb : st2 s f g nb -> post fallible s (fun _ s' => st2 s' f g nb) (fun s' => st2 s' f g nb).
Proof.
  intros H. apply (lift_post fallible s f g nb (fun _ => f) H). apply (fallible_post s f (blocks s) nb (st2_st_is _ _ _ _ H)).
Qed.

(* zero blocks: the pointwise view of an empty block list *)
Lemma bview_empty s : (forall b, find_blk b (blocks s) = None) -> blocks s = [].
Proof.
  destruct (blocks s) as [|[b p] r]; [reflexivity|]. intros H. specialize (H b). simpl in H. rewrite Z.eqb_refl in H. discriminate.
Qed.
