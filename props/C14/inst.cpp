// instantiation TU for cxx2coq (C14): the container-level functions that decide whether the crew is touched
#include "momo/HashSet.h"
#include "momo/TreeSet.h"
#include "momo/HashMultiMap.h"
#include "momo/DataTable.h"
namespace momo {
template class TreeSet<int>;
template class HashSet<int>;
struct C14Rw { int k; };
typedef DataTable<DataColumnListStatic<C14Rw>> C14Table;
typedef HashMultiMap<int, int> C14Multi;
// one use of every member that is translated, so that clang instantiates the bodies
inline void c14_use(C14Table& t, C14Multi& m) { t.Clear(); m.Clear(); }
}
