// C01 harness TU 1: LimP4<1..4>
#include "c01_harness.h"
using namespace momo;
typedef HashBucketLimP4<1> L1; typedef HashBucketLimP4<2> L2; typedef HashBucketLimP4<3> L3; typedef HashBucketLimP4<4> L4;
static const Reg regs[] = {
	C01_SET("S.L4.b.f", L4, 8, 4, 0, true, false),
	C01_SET("S.L4.b.q", L4, 8, 4, 0, false, false),
	C01_SET("S.L4.d.p", L4, 24, 8, 0, false, true),
	C01_MAP("M.L4.a.p", L4, 4, 4, 0, false, true),
	C01_SET("S.L1.c.q", L1, 8, 8, 0, false, false),
	C01_SET("S.L2.a.p", L2, 4, 4, 0, false, true),
	C01_SET("S.L2.n.q", L2, 8, 4, 1, false, false),
};
static void leaf(const std::vector<std::string>& w)
{
	if (w.size() == 3) { cap_case<HashBucketLimP4<>>(size_t(std::stoull(w[1])), size_t(std::stoull(w[2]))); return; }
	puts("?leaf");
}
int main() { return c01_main(regs, sizeof(regs) / sizeof(regs[0]), &leaf); }
