(* C18 -- DataColumnListStatic<Struct> with MOMO_DATA_COLUMN_STRUCT columns: the column code IS the member offset
   (DataColumnCodeOffset(offsetof(Struct, name))), so GetOffset/Contains are the identity on codes (guarded by
   MOMO_ASSERT(offset < sizeof(Struct))), the row number lives AFTER the struct, and the mutable bits are a
   std::array<uint8_t, (sizeof(Struct)+7)/8> driven by the same GetBit/SetBit as the dynamic list.
   The struct's member offsets themselves are modelled by the natural layout rule (= the same `layout` the dynamic
   list uses, from offset 0, size rounded up to the alignment) and compared with the compiler's offsetof on every run. *)
From Coq Require Import ZArith Bool List Lia.
From MomoCommon Require Import GenPrelude.
From C18 Require Import Gen_Ceil Model Layout Bits.
Import ListNotations.
Local Open Scope Z_scope.

(* members in declaration order: (size, alignment); code/mutable fields of `col` are unused here *)
Definition struct_layout (ms : list col) : Z * Z * list crec :=
  let '(off, al, rs) := layout 0 1 ms in (Ceil off al, al, rs).

(* pvGetOffset(code): None = MOMO_ASSERT(offset < sizeof(Struct)) fails *)
Definition s_get_offset (size code : Z) : option Z := if Z.ltb code size then Some code else None.
(* Contains(columnInfo, &resOffset): always true *)
Definition s_contains (size code : Z) : option Z := s_get_offset size code.
Definition s_total (keep : bool) (size : Z) : Z := wrapU 64 (size + (if keep then 8 else 0)).
(* SetMutable(columns...): SetBit(GetOffset(column)) left to right; ResetMutable: all zero *)
Definition s_set_mutable (b : Z -> Z) (codes : list Z) : Z -> Z := fold_left SetBit codes b.
Definition s_reset : Z -> Z := fun _ => 0.
Definition s_is_mutable (b : Z -> Z) (off : Z) : bool := GetBit b off.

Lemma s_set_mutable_get codes : forall b o, bytes_ok b -> Forall (fun c => 0 <= c) codes -> 0 <= o ->
  s_is_mutable (s_set_mutable b codes) o = s_is_mutable b o || existsb (Z.eqb o) codes.
Proof.
  unfold s_is_mutable, s_set_mutable.
  induction codes as [|c codes IH]; intros b o Hb Hc Ho; cbn [fold_left existsb].
  - rewrite orb_false_r. reflexivity.
  - inversion Hc; subst. rewrite IH by (auto using SetBit_ok). rewrite GetBit_SetBit by auto.
    rewrite (Z.eqb_sym o c). destruct (Z.eqb c o), (GetBit b o), (existsb (Z.eqb o) codes); reflexivity.
Qed.

(* the struct as laid out by the natural rule: members in order, aligned, not overlapping, inside sizeof; sizeof is a
   multiple of the alignment; every member offset passes the assertion of pvGetOffset; the row number slot
   [sizeof, sizeof + 8) of a keepRowNumber list is behind every member *)
Theorem struct_layout_ok ms sz al rs :
  Forall col_ok ms -> Z.of_nat (length ms) * (maxItemSize + 16) <= 2 ^ 62 ->
  struct_layout ms = (sz, al, rs) ->
  chain 0 rs sz /\ sz mod al = 0 /\ pow2_le16 al /\
  map r_size rs = map c_size ms /\ map r_align rs = map c_align ms /\
  (forall r, In r rs -> s_get_offset sz (r_off r) = Some (r_off r) /\ r_off r + r_size r <= sz /\ (r_align r | al)).
Proof.
  intros Hok Hb E. unfold struct_layout in E.
  destruct (layout 0 1 ms) as [[off a] rs0] eqn:El. injection E as <- <- <-.
  assert (G1 : 0 <= 0) by lia.
  assert (G2 : 0 + Z.of_nat (length ms) * (maxItemSize + 16) <= 2 ^ 63).
  { clear - Hb. assert (2 ^ 62 <= 2 ^ 63) by (apply Z.pow_le_mono_r; lia). lia. }
  assert (G3 : pow2_le16 1) by (unfold pow2_le16; auto).
  destruct (layout_spec _ _ _ _ _ _ Hok G1 G2 G3 El)
    as (Hch & Hoff & Hal & Hp & Hrecs & Hra & _ & Hm2 & Hm3).
  assert (Hoff63 : off <= 2 ^ 63) by (clear - Hoff G2; lia).
  pose proof (chain_le _ _ _ Hch) as H0.
  destruct (Ceil_spec off a (pow2_le16_range _ Hp) (conj H0 Hoff63)) as (Hc1 & Hc2).
  split; [eapply chain_weaken; eauto; lia|]. split; [exact Hc2|]. split; [exact Hp|]. split; [exact Hm2|]. split; [exact Hm3|].
  intros r Hr. destruct (chain_in _ _ _ _ Hch Hr) as (Q1 & Q2 & _ & Q4).
  rewrite Forall_forall in Hra, Hrecs. split; [|split].
  - unfold s_get_offset. destruct (Z.ltb_spec (r_off r) (Ceil off a)); [reflexivity|]. exfalso. clear - H Q2 Q4 Hc1. lia.
  - clear - Q2 Hc1. lia.
  - apply pow2_le16_divide; auto. destruct (Hrecs r Hr) as (_ & _ & P & _). exact P.
Qed.

(* the dynamic list (no row number) given the same columns in one Add assigns exactly the struct's member offsets *)
Theorem dynamic_matches_struct L cp ms g' off al rs :
  new_edges L cp g_empty 0 1 ms = (g', off, al, rs) -> snd (struct_layout ms) = rs /\ snd (fst (struct_layout ms)) = al.
Proof.
  intros E. rewrite new_edges_layout in E. unfold struct_layout.
  destruct (layout 0 1 ms) as [[o a] r]. injection E as _ <- <- <-. auto.
Qed.
