(* C12: element_found_after_growth on the table model TableO2 (generated leaves + hand glue). *)
From Coq Require Import ZArith Bool List Lia.
From MomoCommon Require Import GenPrelude.
From C12 Require Import Bits Known Gen_Base Gen_O2 Gen_O2MP MP_Open2N2 O2_Slot TableO2.
Import ListNotations.
Local Open Scope Z_scope.

(* ---------------------------------------------------------------- mState: count bits vs max-probe encoding *)
Lemma cnt_val b : 0 <= bst b 1 -> cnt b = bst b 1 mod 4.
Proof. intros. unfold cnt, Gen_O2.pvGetCount. apply land3. assumption. Qed.

Lemma decode_upd1 st v : v / 4 = st 1 / 4 -> 0 <= v -> 0 <= st 1 -> decode (upd st 1 v) = decode st.
Proof.
  intros Hv H0 H1. unfold decode, Gen_O2MP.pvGetMaxProbe. rewrite upd_same, upd_other by lia.
  rewrite !Z.shiftr_div_pow2 by lia. change (2 ^ 2) with 4. rewrite Hv. reflexivity.
Qed.

Lemma st_inc st : enc_inv st -> st 1 mod 4 < 3 ->
  let st' := upd st 1 (wrapU 8 (st 1 + 1)) in
  enc_inv st' /\ decode st' = decode st /\ st' 1 mod 4 = st 1 mod 4 + 1 /\ st' 0 = st 0.
Proof.
  intros (H0 & H1 & Hm & He) Hc. cbv zeta.
  assert (Hlt : st 1 + 1 < 256) by (clear - H1 Hc He; Z.div_mod_to_equations; lia).
  rewrite wrapU_small by (change (2 ^ 8) with 256; lia).
  assert (Hd : (st 1 + 1) / 4 = st 1 / 4) by (clear - H1 Hc; Z.div_mod_to_equations; lia).
  set (v := st 1 + 1) in *. set (st' := upd st 1 v).
  assert (E0 : st' 0 = st 0) by (subst st'; apply upd_other; lia).
  assert (E1 : st' 1 = v) by (subst st'; apply upd_same).
  split; [|split; [|split]].
  - unfold enc_inv. rewrite E0, E1, Hd. lia.
  - subst st'. apply decode_upd1; lia.
  - rewrite E1. subst v. clear - H1 Hc. Z.div_mod_to_equations. lia.
  - exact E0.
Qed.

Lemma st_dec st : enc_inv st -> 0 < st 1 mod 4 ->
  let st' := upd st 1 (wrapU 8 (st 1 - 1)) in
  enc_inv st' /\ decode st' = decode st /\ st' 1 mod 4 = st 1 mod 4 - 1 /\ st' 0 = st 0.
Proof.
  intros (H0 & H1 & Hm & He) Hc. cbv zeta.
  assert (Hlt : 0 <= st 1 - 1) by (clear - H1 Hc; Z.div_mod_to_equations; lia).
  rewrite wrapU_small by (change (2 ^ 8) with 256; lia).
  assert (Hd : (st 1 - 1) / 4 = st 1 / 4) by (clear - H1 Hc; Z.div_mod_to_equations; lia).
  set (v := st 1 - 1) in *. set (st' := upd st 1 v).
  assert (E0 : st' 0 = st 0) by (subst st'; apply upd_other; lia).
  assert (E1 : st' 1 = v) by (subst st'; apply upd_same).
  split; [|split; [|split]].
  - unfold enc_inv. rewrite E0, E1, Hd. lia.
  - subst st'. apply decode_upd1; lia.
  - rewrite E1. subst v. clear - H1 Hc. Z.div_mod_to_equations. lia.
  - exact E0.
Qed.

(* ---------------------------------------------------------------- probe path *)
Definition pidx (L start p : Z) : Z := (start + tri p) mod 2 ^ L.

Lemma tri_succ p : 0 <= p -> tri (p + 1) = tri p + (p + 1).
Proof.
  intros. unfold tri. replace ((p + 1) * (p + 1 + 1)) with (p * (p + 1) + (p + 1) * 2) by lia.
  rewrite Z.div_add by lia. reflexivity.
Qed.

Lemma next_pidx L start p : 0 <= L <= 63 -> 0 <= p -> p + 1 < 2 ^ L ->
  Gen_O2.GetNextBucketIndex (pidx L start p) (2 ^ L) (p + 1) = pidx L start (p + 1).
Proof.
  intros HL Hp Hlt. unfold Gen_O2.GetNextBucketIndex, pidx.
  assert (0 < 2 ^ L) by (apply pow2_pos; lia).
  assert (2 ^ L <= 2 ^ 63) by (apply pow2_le_mono; lia).
  rewrite (wrapU_small 64 (2 ^ L - 1)) by (change (2 ^ 64) with (2 * 2 ^ 63); lia).
  rewrite pow2m1_ones. rewrite land_wrap64_ones by lia.
  rewrite Zplus_mod_idemp_l. rewrite tri_succ by lia. f_equal. lia.
Qed.

Lemma pidx_range L start p : 0 <= L -> 0 <= pidx L start p < 2 ^ L.
Proof. intros. unfold pidx. apply Z.mod_pos_bound. apply pow2_pos. lia. Qed.

Lemma probe_loop_spec L t start : 0 <= L <= 63 -> forall fuel probe,
  0 <= probe < 2 ^ L -> (Z.to_nat (2 ^ L - probe) <= fuel)%nat ->
  match probe_loop fuel t (2 ^ L) (pidx L start probe) probe with
  | Ok (idx, p) => probe <= p < 2 ^ L /\ idx = pidx L start p /\
                   Gen_O2.IsFull (bst (t idx)) (bsh (t idx)) (bhp (t idx)) = false
  | Exn => True
  | _ => False
  end.
Proof.
  intros HL. assert (2 ^ L <= 2 ^ 63) by (apply pow2_le_mono; lia).
  induction fuel as [|f IH]; intros probe Hp Hf.
  - exfalso. lia.
  - cbn [probe_loop]. destruct (Gen_O2.IsFull _ _ _) eqn:Hfull.
    + rewrite (wrapU_small 64 (probe + 1)) by (change (2 ^ 64) with (2 * 2 ^ 63); lia).
      destruct (Z.geb_spec (probe + 1) (2 ^ L)); [exact I|].
      rewrite next_pidx by lia.
      specialize (IH (probe + 1) ltac:(lia) ltac:(lia)).
      destruct (probe_loop f t (2 ^ L) (pidx L start (probe + 1)) (probe + 1)) as [[idx p]| | |]; try assumption.
      destruct IH as (H1 & H2 & H3). repeat split; try assumption; lia.
    + repeat split; try lia. assumption.
Qed.

(* ---------------------------------------------------------------- table invariant *)
Section Inv.
Variable hash : Z -> Z.
Hypothesis hash_range : forall k, 0 <= hash k < 2 ^ 64.

Definition occ (b : bucket) (slot : Z) : Prop := 3 - cnt b <= slot <= 2.
Definition bwf (b : bucket) : Prop :=
  enc_inv (bst b) /\ (forall i, 0 <= i < 3 - cnt b -> bsh b i = 128) /\ (forall i, 3 - cnt b <= i <= 2 -> 0 <= bsh b i < 128).
Definition home (L key : Z) : Z := Gen_Base.GetStartBucketIndex (hash key) (2 ^ L).

(* the element in (bucket b, slot) sits on the probe path of the home bucket of its TRUE hash, within the bound recorded
   there, with the short hash of its true hash and (where the byte is live) the packing of its true hash *)
Definition elem_ok (L : Z) (t : table) (b slot : Z) : Prop :=
  let key := bky (t b) slot in let h := hash key in
  exists p, 0 <= p < 2 ^ L /\ b = pidx L (home L key) p /\ p <= decode (bst (t (home L key))) /\
    bsh (t b) slot = Gen_O2.pvCalcShortHash h /\ 0 <= bhp (t b) slot < 256 /\
    ((L + 7) mod 8 <> 0 -> bhp (t b) slot = o2_byte h L p).

Definition Tinv (L : Z) (t : table) : Prop :=
  (forall i, bwf (t i)) /\ (forall b slot, 0 <= b < 2 ^ L -> occ (t b) slot -> elem_ok L t b slot).

Definition Present (L : Z) (t : table) (key : Z) : Prop :=
  exists b slot, 0 <= b < 2 ^ L /\ occ (t b) slot /\ bky (t b) slot = key.

Lemma bwf_cnt b : bwf b -> 0 <= cnt b <= 3 /\ cnt b = bst b 1 mod 4.
Proof.
  intros [(H0 & H1 & _) _]. rewrite cnt_val by lia. split; [|reflexivity]. pose proof (Z.mod_pos_bound (bst b 1) 4 ltac:(lia)). lia.
Qed.

Lemma home_range L key : 0 <= L <= 63 -> 0 <= home L key < 2 ^ L.
Proof. intros. unfold home. rewrite start_mod by lia. apply Z.mod_pos_bound. apply pow2_pos. lia. Qed.

Lemma pidx_0 L s : 0 <= L -> 0 <= s < 2 ^ L -> pidx L s 0 = s.
Proof. intros. unfold pidx, tri. simpl. rewrite Z.add_0_r. apply Z.mod_small. assumption. Qed.

Lemma empty_inv L : Tinv L empty_table.
Proof.
  split.
  - intros i. unfold bwf, empty_table, empty_bucket, cnt. cbn. split; [unfold enc_inv; cbn; lia|]. split; intros; [reflexivity|lia].
  - intros b slot Hb Ho. unfold occ, empty_table, empty_bucket, cnt in Ho. cbn in Ho. lia.
Qed.

(* pvAddNogrow with a code that agrees with the true hash on what the placement reads *)
Lemma add_nogrow_spec L t code key : 0 <= L <= 57 -> Tinv L t -> 0 <= code < 2 ^ 64 ->
  Gen_Base.GetStartBucketIndex code (2 ^ L) = home L key ->
  Gen_O2.pvCalcShortHash code = Gen_O2.pvCalcShortHash (hash key) ->
  (forall p, 0 <= p -> (L + 7) mod 8 <> 0 -> o2_byte code L p = o2_byte (hash key) L p) ->
  match add_nogrow t L code key with
  | Ok t' => Tinv L t' /\ Present L t' key /\ (forall k, Present L t k -> Present L t' k)
  | Exn => True
  | _ => False
  end.
Proof.
  intros HL [Hwf Hel] Hcode Hstart Hshort Hbyte.
  assert (Hpos : 0 < 2 ^ L) by (apply pow2_pos; lia).
  assert (Hle : 2 ^ L <= 2 ^ 57) by (apply pow2_le_mono; lia).
  unfold add_nogrow. rewrite shl1_pow2 by lia.
  rewrite (wrapU_small 64 (2 ^ L)) by (change (2 ^ 64) with (128 * 2 ^ 57); lia).
  rewrite Hstart. pose proof (home_range L key ltac:(lia)) as Hhome. set (start := home L key) in *.
  pose proof (probe_loop_spec L t start ltac:(lia) (S (Z.to_nat (2 ^ L))) 0 ltac:(lia) ltac:(lia)) as Hloop.
  rewrite pidx_0 in Hloop by lia.
  destruct (probe_loop _ t (2 ^ L) start 0) as [[idx p]| | |]; try exact Hloop.
  destruct Hloop as (Hp & Hidx & Hfull).
  pose proof (Hwf idx) as Hwfi. pose proof (bwf_cnt _ Hwfi) as [Hc Hcv]. destruct Hwfi as (Henc & Hemp & Hoc).
  set (c := cnt (t idx)) in *.
  assert (Hc3 : c < 3).
  { destruct (Z.lt_ge_cases c 3); [assumption|exfalso]. assert (c = 3) by lia.
    unfold Gen_O2.IsFull, Gen_O2.emptyShortHash in Hfull. pose proof (Hoc 0 ltac:(lia)).
    change (wrapU 8 (Z.shiftl 1 (wrapU 64 (wrapU 64 (1 * 8) - 1)))) with 128 in Hfull.
    destruct (Z.ltb_spec (bsh (t idx) 0) 128); [discriminate|lia]. }
  rewrite o2_addcrt_eq by (try lia; change (2 ^ 64) with (128 * 2 ^ 57); lia).
  fold (cnt (t idx)). fold c. cbv zeta. destruct (Z.ltb_spec c 3); [|lia].
  rewrite (wrapU_small 64 (2 - c)) by (change (2 ^ 64) with 18446744073709551616; lia).
  destruct (st_inc (bst (t idx)) Henc ltac:(lia)) as (Henc' & Hdec' & Hcnt' & Hs0').
  set (st' := upd (bst (t idx)) 1 (wrapU 8 (bst (t idx) 1 + 1))) in *.
  set (sh' := upd (bsh (t idx)) (2 - c) (Gen_O2.pvCalcShortHash code)).
  set (hp' := upd (bhp (t idx)) (2 - c) (o2_byte code L p)).
  set (ky' := upd (bky (t idx)) (2 - c) key).
  set (t1 := tupd t idx (mkB st' sh' hp' ky')).
  assert (Henc1 : enc_inv (bst (t1 start))).
  { unfold t1, tupd. destruct (Z.eqb start idx); [exact Henc'|apply (Hwf start)]. }
  destruct (update_spec (bst (t1 start)) p Henc1 ltac:(change (2 ^ 63) with (64 * 2 ^ 57); lia))
    as (st'' & Hupd & Henc'' & Hcov & Hmono & Hcb).
  rewrite Hupd. unfold count_bits in Hcb.
  set (t' := tupd t1 start (mkB st'' (bsh (t1 start)) (bhp (t1 start)) (bky (t1 start)))).
  (* frame facts *)
  assert (Fsh : forall j, bsh (t' j) = if Z.eqb j idx then sh' else bsh (t j)).
  { intros j. unfold t', t1, tupd. destruct (Z.eqb_spec j start) as [->|]; cbn [bsh]; destruct (Z.eqb start idx) eqn:E; try reflexivity.
    all: destruct (Z.eqb j idx); reflexivity. }
  assert (Fhp : forall j, bhp (t' j) = if Z.eqb j idx then hp' else bhp (t j)).
  { intros j. unfold t', t1, tupd. destruct (Z.eqb_spec j start) as [->|]; cbn [bhp]; destruct (Z.eqb start idx) eqn:E; try reflexivity.
    all: destruct (Z.eqb j idx); reflexivity. }
  assert (Fky : forall j, bky (t' j) = if Z.eqb j idx then ky' else bky (t j)).
  { intros j. unfold t', t1, tupd. destruct (Z.eqb_spec j start) as [->|]; cbn [bky]; destruct (Z.eqb start idx) eqn:E; try reflexivity.
    all: destruct (Z.eqb j idx); reflexivity. }
  assert (Fst : forall j, enc_inv (bst (t' j)) /\ decode (bst (t j)) <= decode (bst (t' j)) /\
                          bst (t' j) 1 mod 4 = (if Z.eqb j idx then c + 1 else bst (t j) 1 mod 4) /\
                          (j = start -> p <= decode (bst (t' j)))).
  { intros j. unfold t', tupd. destruct (Z.eqb_spec j start) as [->|Hjs]; cbn [bst].
    - assert (Hc1 : st'' 1 mod 4 = bst (t1 start) 1 mod 4).
      { unfold Gen_O2MP.pvGetCount in Hcb. destruct Henc'' as (_ & ? & _). destruct Henc1 as (_ & ? & _).
        rewrite !land3 in Hcb by lia. exact Hcb. }
      unfold decode in *. unfold t1, tupd in *. destruct (Z.eqb_spec start idx) as [->|]; cbn [bst] in *.
      + repeat split; try assumption; try lia.
      + repeat split; try assumption; try lia.
    - unfold t1, tupd. destruct (Z.eqb_spec j idx) as [->|]; cbn [bst].
      + repeat split; try assumption; try lia.
      + destruct (Hwf j) as (He & _). repeat split; try assumption; try lia.
  }
  assert (Fcnt : forall j, cnt (t' j) = if Z.eqb j idx then c + 1 else cnt (t j)).
  { intros j. destruct (Fst j) as ((_ & H1 & _) & _ & Hm & _). rewrite cnt_val by lia. rewrite Hm.
    destruct (Z.eqb j idx); [reflexivity|]. destruct (bwf_cnt _ (Hwf j)) as [_ ->]. reflexivity. }
  assert (Hidxr : 0 <= idx < 2 ^ L) by (rewrite Hidx; apply pidx_range; lia).
  pose proof (o2_short_range code Hcode) as Hsr.
  split; [split|split].
  - (* bucket well-formedness *)
    intros j. unfold bwf. rewrite Fsh, Fcnt. destruct (Fst j) as (He & _). split; [exact He|].
    destruct (Z.eqb_spec j idx) as [->|].
    + split; intros i Hi; unfold sh', upd; destruct (Z.eqb_spec i (2 - c)); try lia.
      * apply Hemp. fold c. lia.
      * apply Hoc. fold c. lia.
    + apply (Hwf j).
  - (* every element is on its true-hash probe path within the recorded bound *)
    intros b slot Hb Ho. unfold occ in Ho. rewrite Fcnt in Ho. unfold elem_ok. rewrite Fky, Fsh, Fhp.
    destruct (Z.eqb_spec b idx) as [->|Hne].
    + destruct (Z.eq_dec slot (2 - c)) as [->|Hns].
      * unfold ky', sh', hp'. rewrite !upd_same. exists p. fold start.
        destruct (Fst start) as (_ & _ & _ & Hb4).
        repeat split; try lia; try assumption.
        -- apply Hb4. reflexivity.
        -- apply o2_byte_range; lia.
        -- apply o2_byte_range; lia.
        -- intros Hnz. apply Hbyte; lia.
      * assert (Ho' : occ (t idx) slot) by (unfold occ; fold c; lia).
        destruct (Hel idx slot Hb Ho') as (p0 & Hp0 & Hb0 & Hbd0 & Hs0 & Hr0 & Hy0).
        unfold ky', sh', hp'. rewrite !upd_other by lia. exists p0.
        destruct (Fst (home L (bky (t idx) slot))) as (_ & Hm & _).
        repeat split; try assumption; try lia.
    + assert (Ho' : occ (t b) slot) by (unfold occ; lia).
      destruct (Hel b slot Hb Ho') as (p0 & Hp0 & Hb0 & Hbd0 & Hs0 & Hr0 & Hy0).
      exists p0. destruct (Fst (home L (bky (t b) slot))) as (_ & Hm & _).
      repeat split; try assumption; try lia.
  - exists idx, (2 - c). split; [assumption|]. split.
    + unfold occ. rewrite Fcnt, Z.eqb_refl. lia.
    + rewrite Fky, Z.eqb_refl. unfold ky'. apply upd_same.
  - intros k (b & slot & Hb & Ho & Hk). exists b, slot. split; [assumption|]. unfold occ in *. rewrite Fcnt, Fky.
    destruct (Z.eqb_spec b idx) as [->|]; [|split; assumption].
    fold c in Ho. split; [lia|]. unfold ky'. rewrite upd_other by lia. assumption.
Qed.
End Inv.
