(* Property C20 -- theorems only.  Each is closed by `exact <lemma>` and followed by Print Assumptions.
   The model (PoolAlloc.v) mirrors stdish/pool_allocator.h:56-184 branch by branch; its block-size
   correction is the cxx2coq-generated Gen_MemPoolConst.CorrectBlockSize (regenerated on every run); the
   model's decisions are compared with the real allocator on every allocate/deallocate/copy/destroy event
   of random container histories on every run (see prop.py). *)
From Coq Require Import ZArith List Bool Arith.
From MomoCommon Require Import GenPrelude.
From C20 Require Import PoolAlloc PoolAllocProofs.
From C20 Require PoolAssumptions DiffRun.
From C20 Require Gen_PoolAllocator Gen_MemPoolOps Gen_MemPoolNewBlock Gen_PoolAllocatorHandles.
Import ListNotations.

(* For EVERY history of allocator operations (construct, copy, rebind, select_on_container_copy_construction,
   assign, destroy, allocate, deallocate - over any number of pools, allocator objects and value types)
   that respects the allocator protocol and hypothesis H (a single-object request made while a pooled block
   of the same pool is outstanding uses that block's parameter set), nothing asserts and every deallocate
   sends the block back where it came from: a pool block into the pool (whose parameters are still those
   of the block), a raw block to the base allocator with exactly the size it was allocated with. *)
Theorem C20_dealloc_matches_origin : forall cfg ops, good cfg true init ops = true ->
  exists st' obs, run cfg init ops = Ok (st', obs) /\ Forall (fun o => routed_ok o = true) obs /\ inv cfg st'.
Proof. exact dealloc_matches_origin. Qed.
Print Assumptions C20_dealloc_matches_origin.

(* At every reachable state, GetAllocateCount() of a pool equals the number of live single-object blocks
   obtained through allocators sharing it, and each of them carries the pool's current parameters. *)
Theorem C20_count_is_live_pooled_blocks : forall cfg ops st' obs, good cfg true init ops = true -> run cfg init ops = Ok (st', obs) ->
  forall p, (p < npools st')%nat ->
    pcount (pools st' p) = sumn (nblocks st') (fun b => pooled_in p (blocks st' b)) /\
    forall b, (b < nblocks st')%nat -> pooled_in p (blocks st' b) = 1%nat ->
      btag (blocks st' b) = Pooled (pparams (pools st' p)).
Proof. exact count_is_live_pooled_blocks. Qed.
Print Assumptions C20_count_is_live_pooled_blocks.

(* Outside the claim: with the protocol respected but H violated (two rebound single-object types of
   different sizes interleaved on one pool) a raw block is pushed into the pool and a pooled block is handed
   to the base allocator.  The harness shows the real allocator does exactly this on the same script. *)
Theorem C20_dealloc_origin_refuted_general :
  good cfg_default false init refute_ops = true /\ good cfg_default true init refute_ops = false /\
  nth_error (routing refute_ops) 6 = Some (Some (RawMem 40), Some (Pooled (40, 8)%Z), false) /\
  nth_error (routing refute_ops) 8 = Some (Some (Pooled (40, 8)%Z), Some (RawMem 40), false).
Proof. exact dealloc_origin_refuted_general. Qed.
Print Assumptions C20_dealloc_origin_refuted_general.

(* Leak freedom: the base-allocator allocations and deallocations reported by the operations of any
   good history balance with what the model says is outstanding; a pool none of whose owners is alive has
   been destroyed and holds nothing (its buffers and the shared_ptr control block were returned when the
   last owner died); when all allocator objects are gone and all blocks deallocated, nothing is
   outstanding at the base allocator. *)
Theorem C20_last_owner_returns_all : forall cfg ops st' obs, good cfg true init ops = true -> run cfg init ops = Ok (st', obs) ->
  (outstanding st' + sum_frees obs = sum_allocs obs)%nat /\
  (forall p, (p < npools st')%nat ->
     (forall h, (h < nhandles st')%nat -> halive (handles st' h) = true -> hpool (handles st' h) <> p) ->
     palive (pools st' p) = false /\ pool_out (pools st' p) = 0%nat) /\
  ((forall h, (h < nhandles st')%nat -> halive (handles st' h) = false) ->
   (forall b, (b < nblocks st')%nat -> balive (blocks st' b) = false) ->
   outstanding st' = 0%nat /\ sum_allocs obs = sum_frees obs).
Proof. exact last_owner_returns_all. Qed.
Print Assumptions C20_last_owner_returns_all.

(* select_on_container_copy_construction: the copy gets a brand-new idle pool owned by nobody else, with
   the parameters of the same value type; all existing pools are unchanged; and any later history that
   does not go through an allocator of pool q (resp. p) leaves q (resp. p) and the blocks obtained through
   it untouched - so using or destroying the original does not affect the copy and vice versa. *)
Theorem C20_copies_use_independent_pools : forall cfg st h, inv cfg st -> handle_ok st h = true ->
  exists st1 ob, step cfg st (OpSocc h) = Ok (st1, ob) /\ inv cfg st1 /\
    let c := nhandles st in
    let q := hpool (handles st1 c) in
    halive (handles st1 c) = true /\ hvt (handles st1 c) = hvt (handles st h) /\
    q = npools st /\ (forall k, (k < nhandles st)%nat -> halive (handles st k) = true -> hpool (handles st1 k) <> q) /\
    pools st1 q = mkPool (get_params cfg (hvt (handles st h))) 0 1 0 true /\
    (forall p, (p < npools st)%nat -> pools st1 p = pools st p) /\
    (forall ops st2 obs, run cfg st1 ops = Ok (st2, obs) -> avoids cfg q st1 ops -> pool_untouched q st1 st2) /\
    (forall ops st2 obs p, (p < npools st)%nat -> run cfg st1 ops = Ok (st2, obs) -> avoids cfg p st1 ops -> pool_untouched p st1 st2).
Proof. exact copies_use_independent_pools. Qed.
Print Assumptions C20_copies_use_independent_pools.

(* Move construction (the allocator is copied: no move constructor is declared), move assignment
   (propagate_on_container_move_assignment = true_type: operator=) and swap (propagate_on_container_swap =
   true_type: std::swap = copy, assign, assign, destroy) make the target share the source's pool: exactly the
   blocks the source could deallocate can be deallocated through the target; no base-allocator traffic, no
   pool parameter / allocate count / buffer changes, the invariant is kept. *)
Theorem C20_move_and_swap_carry_pool : forall cfg st, inv cfg st ->
  (forall h, handle_ok st h = true ->
     exists st1 ob, step cfg st (OpCopy h) = Ok (st1, ob) /\ inv cfg st1 /\ same_mem st st1 /\ o_allocs ob = 0%nat /\ o_frees ob = 0%nat /\
       handles st1 (nhandles st) = mkHandle true (hpool (handles st h)) (hvt (handles st h)) /\
       forall b n s, proto_ok cfg st (OpDealloc h b n s) = true -> proto_ok cfg st1 (OpDealloc (nhandles st) b n s) = true) /\
  (forall hd hs, handle_ok st hd = true -> handle_ok st hs = true -> hvt (handles st hd) = hvt (handles st hs) ->
     ((2 <= prefs (pools st (hpool (handles st hd))))%nat \/ hpool (handles st hd) = hpool (handles st hs)) ->
     exists st1 ob, step cfg st (OpAssign hd hs) = Ok (st1, ob) /\ inv cfg st1 /\ same_mem st st1 /\ o_allocs ob = 0%nat /\ o_frees ob = 0%nat /\
       handles st1 hd = mkHandle true (hpool (handles st hs)) (hvt (handles st hd)) /\
       forall b n s, proto_ok cfg st (OpDealloc hs b n s) = true -> proto_ok cfg st1 (OpDealloc hd b n s) = true) /\
  (forall h1 h2, h1 <> h2 -> handle_ok st h1 = true -> handle_ok st h2 = true -> hvt (handles st h1) = hvt (handles st h2) ->
     exists st' obs, run cfg st (swap_ops st h1 h2) = Ok (st', obs) /\ inv cfg st' /\ same_mem st st' /\
       sum_allocs obs = 0%nat /\ sum_frees obs = 0%nat /\
       handles st' h1 = mkHandle true (hpool (handles st h2)) (hvt (handles st h1)) /\
       handles st' h2 = mkHandle true (hpool (handles st h1)) (hvt (handles st h2)) /\
       (forall k, (k < nhandles st)%nat -> k <> h1 -> k <> h2 -> handles st' k = handles st k) /\
       (forall b n s, proto_ok cfg st (OpDealloc h2 b n s) = true -> proto_ok cfg st' (OpDealloc h1 b n s) = true) /\
       (forall b n s, proto_ok cfg st (OpDealloc h1 b n s) = true -> proto_ok cfg st' (OpDealloc h2 b n s) = true)).
Proof. exact move_and_swap_carry_pool. Qed.
Print Assumptions C20_move_and_swap_carry_pool.

(* Construction from an rvalue allocator (what every libstdc++ node container does with its node allocator
   in its move constructor, and std::swap with its temporary) is a COPY: no move constructor is declared.
   The source keeps its pool and stays usable, the new allocator shares the pool, use_count + 1. *)
Theorem C20_move_construction_is_copy : forall cfg st h, inv cfg st -> handle_ok st h = true ->
  step cfg st (OpMove h) = step cfg st (OpCopy h) /\
  exists st1 ob, step cfg st (OpMove h) = Ok (st1, ob) /\ inv cfg st1 /\ same_mem st st1 /\
    handles st1 h = handles st h /\
    handles st1 (nhandles st) = mkHandle true (hpool (handles st h)) (hvt (handles st h)) /\
    prefs (pools st1 (hpool (handles st h))) = S (prefs (pools st (hpool (handles st h)))).
Proof. exact move_construction_is_copy. Qed.
Print Assumptions C20_move_construction_is_copy.

(* Move assignment (operator=) by the LAST owner of the destination's old, block-free pool: the old pool
   is destroyed and returns all its buffers plus the control block; the destination now shares the source's
   pool, which is unchanged except for use_count + 1; all blocks, all other pools and every cache are
   unchanged; the source's deallocation rights carry over to the destination. *)
Theorem C20_assign_last_owner_carry : forall cfg st hd hs, inv cfg st -> proto_ok cfg st (OpAssign hd hs) = true ->
  hpool (handles st hd) <> hpool (handles st hs) -> prefs (pools st (hpool (handles st hd))) = 1%nat ->
  let pd := hpool (handles st hd) in let ps := hpool (handles st hs) in
  exists st1 ob, step cfg st (OpAssign hd hs) = Ok (st1, ob) /\ inv cfg st1 /\
    handles st1 hd = mkHandle true ps (hvt (handles st hd)) /\ (forall k, k <> hd -> handles st1 k = handles st k) /\
    palive (pools st1 pd) = false /\ pool_out (pools st1 pd) = 0%nat /\
    o_allocs ob = 0%nat /\ o_frees ob = S (pheld (pools st pd)) /\
    pools st1 ps = mkPool (pparams (pools st ps)) (pcount (pools st ps)) (S (prefs (pools st ps))) (pheld (pools st ps)) (palive (pools st ps)) /\
    palive (pools st ps) = true /\
    (forall q, q <> pd -> q <> ps -> pools st1 q = pools st q) /\
    (forall b, blocks st1 b = blocks st b) /\ nblocks st1 = nblocks st /\ (forall q, cached st1 q = cached st q) /\
    (forall b n s, proto_ok cfg st (OpDealloc hs b n s) = true -> proto_ok cfg st1 (OpDealloc hd b n s) = true).
Proof. exact assign_last_owner_carry. Qed.
Print Assumptions C20_assign_last_owner_carry.

(* Exception guarantee of allocate() when the base allocator throws: no block is handed out; blocks,
   allocator objects, other pools unchanged; GetAllocateCount, use_count, liveness of every pool unchanged;
   a pool with outstanding blocks keeps its parameters and cache (an IDLE pool of other parameters has
   already been re-parameterised by line 119); invariant kept; base allocator balanced. *)
Theorem C20_alloc_failure_guarantee : forall cfg st h n grow, inv cfg st -> proto_ok cfg st (OpAllocFail h n grow) = true ->
  exists st' ob, step cfg st (OpAllocFail h n grow) = Ok (st', ob) /\ inv cfg st' /\
    o_dest ob = None /\ nblocks st' = nblocks st /\ (forall b, blocks st' b = blocks st b) /\
    nhandles st' = nhandles st /\ (forall k, handles st' k = handles st k) /\ npools st' = npools st /\
    (forall q, pcount (pools st' q) = pcount (pools st q) /\ prefs (pools st' q) = prefs (pools st q) /\
               palive (pools st' q) = palive (pools st q) /\
               (pcount (pools st q) <> 0%nat -> pparams (pools st' q) = pparams (pools st q) /\ cached st' q = cached st q) /\
               (q <> hpool (handles st h) -> pools st' q = pools st q /\ cached st' q = cached st q)) /\
    (outstanding st' + o_frees ob = outstanding st + o_allocs ob)%nat.
Proof. exact alloc_failure_guarantee. Qed.
Print Assumptions C20_alloc_failure_guarantee.

(* Re-parameterising an IDLE pool whose cache still holds freed blocks of the old parameter set (line 119):
   the old MemPool (buffers and parked blocks) is gone; the new one has the requested parameters, an EMPTY
   cache, count 1 and only the buffers obtained by this call. *)
Theorem C20_reparam_forgets_cache : forall cfg st h grow,
  let p := hpool (handles st h) in let P := pools st p in
  params_eqb (get_params cfg (hvt (handles st h))) (pparams P) = false -> pcount P = 0%nat ->
  exists st' ob, step cfg st (OpAlloc h 1 grow) = Ok (st', ob) /\
    cached st' p = 0%nat /\ pools st' p = mkPool (get_params cfg (hvt (handles st h))) 1 (prefs P) grow (palive P) /\
    o_reparam ob = true /\ o_frees ob = pheld P /\ o_allocs ob = grow /\
    o_dest ob = Some (Pooled (get_params cfg (hvt (handles st h)))).
Proof. exact reparam_forgets_cache. Qed.
Print Assumptions C20_reparam_forgets_cache.

(* The origin theorem with its hypotheses spelled out.  [protocol]: every operation satisfies the allocator
   requirements in the state it runs in.  [no_size_sharing] = HYPOTHESIS H: a single-object request through an
   allocator whose pool currently has a live pooled block uses that block's parameter set - i.e. a busy pool is
   not shared across node sizes.  For every pool configuration (blockCount, cachedFreeBlockCount). *)
Theorem C20_dealloc_matches_origin_under_H : forall cfg ops,
  respects cfg (protocol cfg) init ops -> respects cfg (no_size_sharing cfg) init ops ->
  exists st' obs, run cfg init ops = Ok (st', obs) /\ Forall (fun o => routed_ok o = true) obs /\ inv cfg st'.
Proof. exact dealloc_matches_origin_under_H. Qed.
Print Assumptions C20_dealloc_matches_origin_under_H.

(* ... and H cannot be dropped (known finding `shared-pool-misroute`, reproduced on the real allocator on every
   run): the protocol is respected at every step, H is not, a raw block goes into the pool and a pooled block to
   the base allocator. *)
Theorem C20_dealloc_origin_refuted_without_H :
  respects cfg_default (protocol cfg_default) init refute_ops /\
  ~ respects cfg_default (no_size_sharing cfg_default) init refute_ops /\
  nth_error (routing refute_ops) 6 = Some (Some (RawMem 40), Some (Pooled (40, 8)%Z), false) /\
  nth_error (routing refute_ops) 8 = Some (Some (Pooled (40, 8)%Z), Some (RawMem 40), false).
Proof. exact dealloc_origin_refuted_without_H. Qed.
Print Assumptions C20_dealloc_origin_refuted_without_H.

(* the boolean monitor used by the harness/driver is exactly H *)
Theorem C20_h_monitor_is_H : forall cfg st o, h_ok cfg st o = true <-> no_size_sharing cfg st o.
Proof. exact h_ok_iff. Qed.
Print Assumptions C20_h_monitor_is_H.

(* Frame, no hypothesis on the client: mCachedCount never exceeds cachedFreeBlockCount (cache-less configurations:
   stays 0), for every operation and every history; uses the GENERATED pvUseCache. *)
Theorem C20_cache_bounded : forall cfg ops st st' obs, cache_bounded cfg st -> run cfg st ops = Ok (st', obs) -> cache_bounded cfg st'.
Proof. exact run_cache_bounded. Qed.
Print Assumptions C20_cache_bounded.

(* Frame: constructing, copying, rebinding, assigning and destroying allocator objects never touches a cache, a
   block, or any pool's parameters; a pool's allocate count changes only by the pool being destroyed. *)
Theorem C20_handle_ops_frame : forall cfg st o st' ob, step cfg st o = Ok (st', ob) ->
  match o with OpAlloc _ _ _ | OpDealloc _ _ _ _ | OpAllocFail _ _ _ => False | _ => True end ->
  cached st' = cached st /\ blocks st' = blocks st /\ nblocks st' = nblocks st /\
  forall q, (q < npools st)%nat -> pparams (pools st' q) = pparams (pools st q) /\
            (pcount (pools st' q) = pcount (pools st q) \/ palive (pools st' q) = false).
Proof. exact handle_ops_frame. Qed.
Print Assumptions C20_handle_ops_frame.

(* one block per buffer (blockCount = 1, e.g. MemPoolParams<1,2>): the pool block is the object itself *)
Theorem C20_pool_block_single : forall cfg vt, block_count cfg = 1%Z -> (0 < vsize vt)%Z -> get_params cfg vt = (vsize vt, valign vt).
Proof. exact pool_block_single. Qed.
Print Assumptions C20_pool_block_single.

(* The decision logic of allocate / deallocate is GENERATED: cxx2coq translates pvIsEqual, deallocate and allocate
   of pool_allocator.h on every run (pool calls as abstract effects).  These theorems say that the generated
   functions compute exactly the model's decision functions, for any representation of the parameter
   objects and any effects, and that the model's step does what the decision functions say. *)
Theorem C20_generated_deallocate_is_model_decision : forall cfg (dec : Z -> params) poolP myP mm evp evr route ptr count vt P,
  dec myP = get_params cfg vt -> dec poolP = pparams P -> (0 <= count * vsize vt < 2 ^ 64)%Z ->
  Gen_PoolAllocator.deallocate (fun e => fst (dec e)) (fun e => snd (dec e)) poolP myP mm evp evr (vsize vt) route ptr count =
  match dealloc_decision cfg vt P count with
  | DPool => evp route ptr
  | DRaw sz => evr route mm ptr sz
  end.
Proof. exact gen_deallocate_refines. Qed.
Print Assumptions C20_generated_deallocate_is_model_decision.

Theorem C20_generated_allocate_is_model_decision : forall cfg (dec : Z -> params) poolP myP mm palloc ralloc evrec route count vt P,
  dec myP = get_params cfg vt -> dec poolP = pparams P -> (0 <= count * vsize vt < 2 ^ 64)%Z ->
  Gen_PoolAllocator.allocate (fun e => fst (dec e)) (fun e => snd (dec e)) poolP (Z.of_nat (pcount P)) myP mm palloc ralloc evrec (vsize vt) route count =
  match alloc_decision cfg vt P count with
  | APool true => (palloc, evrec route myP)
  | APool false => (palloc, route)
  | ARaw sz => (ralloc mm sz, route)
  end.
Proof. exact gen_allocate_refines. Qed.
Print Assumptions C20_generated_allocate_is_model_decision.

Theorem C20_step_alloc_follows_decision : forall cfg st h n grow st' ob, step cfg st (OpAlloc h n grow) = Ok (st', ob) ->
  let H := handles st h in
  match alloc_decision cfg (hvt H) (pools st (hpool H)) n with
  | APool r => o_dest ob = Some (Pooled (pparams (pools st' (hpool H)))) /\ o_reparam ob = r /\
               (r = true -> pparams (pools st' (hpool H)) = get_params cfg (hvt H)) /\
               (r = false -> pparams (pools st' (hpool H)) = pparams (pools st (hpool H)))
  | ARaw sz => o_dest ob = Some (RawMem sz) /\ o_reparam ob = false /\ pools st' = pools st
  end.
Proof. exact step_alloc_follows_decision. Qed.
Print Assumptions C20_step_alloc_follows_decision.

Theorem C20_step_dealloc_follows_decision : forall cfg st h b n shrink st' ob, step cfg st (OpDealloc h b n shrink) = Ok (st', ob) ->
  let H := handles st h in
  match dealloc_decision cfg (hvt H) (pools st (hpool H)) n with
  | DPool => o_dest ob = Some (Pooled (pparams (pools st (hpool H)))) /\ pcount (pools st (hpool H)) = S (pcount (pools st' (hpool H)))
  | DRaw sz => o_dest ob = Some (RawMem sz) /\ pools st' = pools st
  end.
Proof. exact step_dealloc_follows_decision. Qed.
Print Assumptions C20_step_dealloc_follows_decision.

(* operator== is pool identity: an equivalence relation; equal allocators of one value type have the same
   deallocation rights; copies, rebinds and rvalue constructions compare equal to their source, the result of
   select_on_container_copy_construction does not. *)
Theorem C20_alloc_eq_equiv : forall st, (forall h, alloc_eq st h h = true) /\
  (forall a b, alloc_eq st a b = alloc_eq st b a) /\
  (forall a b c, alloc_eq st a b = true -> alloc_eq st b c = true -> alloc_eq st a c = true).
Proof. exact alloc_eq_equiv. Qed.
Print Assumptions C20_alloc_eq_equiv.

Theorem C20_alloc_eq_interchangeable : forall cfg st h k b n s, alloc_eq st h k = true -> handle_ok st k = true ->
  hvt (handles st k) = hvt (handles st h) ->
  proto_ok cfg st (OpDealloc h b n s) = true -> proto_ok cfg st (OpDealloc k b n s) = true.
Proof. exact alloc_eq_interchangeable. Qed.
Print Assumptions C20_alloc_eq_interchangeable.

Theorem C20_alloc_eq_after_ops : forall cfg st h,
  (forall st1 ob, step cfg st (OpCopy h) = Ok (st1, ob) -> alloc_eq st1 (nhandles st) h = true) /\
  (forall st1 ob, step cfg st (OpMove h) = Ok (st1, ob) -> alloc_eq st1 (nhandles st) h = true) /\
  (forall vt st1 ob, step cfg st (OpRebind h vt) = Ok (st1, ob) -> alloc_eq st1 (nhandles st) h = true) /\
  (forall st1 ob, inv cfg st -> handle_ok st h = true -> step cfg st (OpSocc h) = Ok (st1, ob) -> alloc_eq st1 (nhandles st) h = false).
Proof. exact alloc_eq_after_ops. Qed.
Print Assumptions C20_alloc_eq_after_ops.

(* Frame: construct / destroy / == / != / get_base_allocator leave the whole allocator state untouched. *)
Theorem C20_elem_query_frame : forall cfg st, (forall h, step cfg st (OpElem h) = Ok (st, mkObs None None (hpool (handles st h)) 0 0 false)) /\
  (forall h1 h2, step cfg st (OpQuery h1 h2) = Ok (st, mkObs None None (hpool (handles st h1)) 0 0 false)).
Proof. exact elem_query_frame. Qed.
Print Assumptions C20_elem_query_frame.

(* The pool side of a pooled allocate / deallocate is the GENERATED MemPool: cxx2coq translates MemPool::Allocate,
   MemPool::Deallocate and pvFlushDeallocate (MemPool.h:281-323, 460-469; both assertions, the three-way block
   source, the cache pop / push, the flush loop) on every run.  On (GetAllocateCount, mCachedCount) they are exactly
   the model's pool_allocate_counts / pool_deallocate_counts, for every pool configuration, every memory content
   and every block source; and the model's step applies exactly these functions to the pool it routes to. *)
Theorem C20_generated_pool_Allocate_is_model : forall cfg lp nb nb1 rb aa bs0 mm P c hd,
  (Z.of_nat (pcount P) + 1 < 2 ^ 64)%Z -> (Z.of_nat c < 2 ^ 64)%Z ->
  match Gen_MemPoolOps.Allocate (cached_free_block_count cfg) (block_count cfg) lp nb nb1 rb aa bs0 mm
          (fst (pparams P)) (snd (pparams P)) (Z.of_nat (pcount P)) (Z.of_nat c) hd with
  | (_, cnt, cch, _) => cnt = Z.of_nat (fst (pool_allocate_counts cfg P c)) /\ cch = Z.of_nat (snd (pool_allocate_counts cfg P c))
  end.
Proof. exact gen_pool_Allocate_refines. Qed.
Print Assumptions C20_generated_pool_Allocate_is_model.

Theorem C20_generated_pool_Deallocate_is_model : forall cfg lp P c hd block, block <> 0%Z ->
  (Z.of_nat (pcount P) < 2 ^ 64)%Z -> (c < 300)%nat ->
  match Gen_MemPoolOps.Deallocate (cached_free_block_count cfg) lp (fst (pparams P)) (snd (pparams P)) (Z.of_nat (pcount P)) (Z.of_nat c) hd block,
        pool_deallocate_counts cfg P c with
  | Ok (_, cnt, cch, h'), Some (k, c') => cnt = Z.of_nat k /\ cch = Z.of_nat c' /\ (use_cache cfg P = true -> h' = block)
  | Stuck, None => True
  | _, _ => False
  end.
Proof. exact gen_pool_Deallocate_refines. Qed.
Print Assumptions C20_generated_pool_Deallocate_is_model.

Theorem C20_step_alloc_pool_counts : forall cfg st h n grow st' ob, step cfg st (OpAlloc h n grow) = Ok (st', ob) ->
  let p := hpool (handles st h) in let P := pools st p in
  match alloc_decision cfg (hvt (handles st h)) P n with
  | APool false => (pcount (pools st' p), cached st' p) = pool_allocate_counts cfg P (cached st p)
  | APool true => (pcount (pools st' p), cached st' p) =
                  pool_allocate_counts cfg (mkPool (get_params cfg (hvt (handles st h))) 0 (prefs P) 0 (palive P)) 0
  | ARaw _ => pools st' = pools st /\ cached st' = cached st
  end.
Proof. exact step_alloc_pool_counts. Qed.
Print Assumptions C20_step_alloc_pool_counts.

Theorem C20_step_dealloc_pool_counts : forall cfg st h b n shrink,
  let p := hpool (handles st h) in let P := pools st p in
  match dealloc_decision cfg (hvt (handles st h)) P n with
  | DPool => match step cfg st (OpDealloc h b n shrink), pool_deallocate_counts cfg P (cached st p) with
             | Ok (st', _), Some (k, c') => pcount (pools st' p) = k /\ cached st' p = c'
             | Stuck, None => True
             | _, _ => False
             end
  | DRaw _ => forall st' ob, step cfg st (OpDealloc h b n shrink) = Ok (st', ob) -> pools st' = pools st /\ cached st' = cached st
  end.
Proof. exact step_dealloc_pool_counts. Qed.
Print Assumptions C20_step_dealloc_pool_counts.

(* /repo fix f8cb4ff as a theorem: the functions that allocate are not declared noexcept (flags GENERATED from the
   declarations), so a bad_alloc inside select_on_container_copy_construction reaches the container's copy constructor,
   with the allocator state unchanged.  Reverting the fix makes this theorem (and the model's step) fail. *)
Theorem C20_socc_failure_propagates : forall cfg st h,
  Gen_PoolAllocator.select_on_container_copy_construction_noexcept = false /\ Gen_PoolAllocator.allocate_noexcept = false /\
  step cfg st (OpSoccFail h) = Ok (st, mkObs None None (hpool (handles st h)) 0 0 false).
Proof. exact socc_failure_propagates. Qed.
Print Assumptions C20_socc_failure_propagates.

(* The buffer step of a pooled allocate is GENERATED too: MemPool::pvNewBlock (MemPool.h:516-535) with the buffer
   allocation as a step that may throw and every store into pool memory as an effect.  Strong exception guarantee: when
   the base allocator throws (first buffer or look-ahead buffer) nothing has been written - free-buffer head and pool
   memory are exactly as before; and it can only complete under a failing allocator when no buffer is needed. *)
Theorem C20_pvNewBlock_strong_guarantee : forall lb ln ba lnf nb sb sn sp bf bc bp head mem done head' mem',
  Gen_MemPoolNewBlock.pvNewBlock lb ln ba lnf nb sb sn sp bf bc bp head mem true = Ok (done, head', mem') ->
  (done = false -> head' = head /\ mem' = mem) /\
  (done = true -> head <> 0%Z /\ negb ((bc (lb head) =? 1)%Z && (ln head =? 0)%Z) = true).
Proof. exact pvNewBlock_strong_guarantee. Qed.
Print Assumptions C20_pvNewBlock_strong_guarantee.

Theorem C20_pvNewBlock_success_effect : forall lb ln ba lnf nb sb sn sp bf bc bp head mem,
  head <> 0%Z -> negb ((bc (lb head) =? 1)%Z && (ln head =? 0)%Z) = true ->
  Gen_MemPoolNewBlock.pvNewBlock lb ln ba lnf nb sb sn sp bf bc bp head mem false =
  Ok (true, (if (bc (lb head) - 1 =? 0)%Z then ln head else head),
      sb mem head (bp (lnf (ba head (bf (lb head)))) (bc (lb head) - 1)%Z)).
Proof. exact pvNewBlock_success_effect. Qed.
Print Assumptions C20_pvNewBlock_success_effect.

(* The instance of the generated pvNewBlock that is EXECUTED against the real pool (coq/DiffRun.v, token `n..` of every allocation
   taking a block from an existing head buffer) computes: first free index := the block's next-free link, free count - 1, and the
   head moves exactly when that was the last block (to the next buffer, else to the new look-ahead buffer). *)
Theorem C20_generated_pvNewBlock_run_spec : forall f c nn nf, (1 <= c < 1000 -> -200 <= f -> -200 <= nf ->
  DiffRun.gen_newblock f c nn nf = ((if c - 1 =? 0 then (if nn then 2 else 1) else 0), nf, c - 1))%Z.
Proof. exact gen_newblock_spec. Qed.
Print Assumptions C20_generated_pvNewBlock_run_spec.

(* Owners.  The GENERATED copy constructor and operator= make the allocator's pool pointer the source's, exactly as the
   model's OpCopy / OpMove / OpAssign; and in every reachable state a pool object exists EXACTLY as long as some living
   allocator object points to it (use_count = number of living owners): it is destroyed when, and only when, the last
   owner goes. *)
Theorem C20_generated_handle_ops_are_model : forall cfg st h hd hs,
  (forall st1 ob, step cfg st (OpCopy h) = Ok (st1, ob) ->
     Z.of_nat (hpool (handles st1 (nhandles st))) = Gen_PoolAllocatorHandles.CopyCtor 0%Z (Z.of_nat (hpool (handles st h))) 0%Z) /\
  (forall st1 ob, step cfg st (OpMove h) = Ok (st1, ob) ->
     Z.of_nat (hpool (handles st1 (nhandles st))) = Gen_PoolAllocatorHandles.CopyCtor 0%Z (Z.of_nat (hpool (handles st h))) 0%Z) /\
  (forall st1 ob, step cfg st (OpAssign hd hs) = Ok (st1, ob) ->
     (tt, Z.of_nat (hpool (handles st1 hd))) = Gen_PoolAllocatorHandles.Assign (Z.of_nat (hpool (handles st hd))) (Z.of_nat (hpool (handles st hs)))).
Proof. exact gen_handle_ops_refine. Qed.
Print Assumptions C20_generated_handle_ops_are_model.

Theorem C20_pool_alive_iff_owned : forall cfg ops st' obs, good cfg true init ops = true -> run cfg init ops = Ok (st', obs) ->
  forall p, (p < npools st')%nat ->
    (palive (pools st' p) = true <->
     exists h, (h < nhandles st')%nat /\ halive (handles st' h) = true /\ hpool (handles st' h) = p) /\
    prefs (pools st' p) = sumn (nhandles st') (fun h => owns p (handles st' h)).
Proof. exact pool_alive_iff_owned. Qed.
Print Assumptions C20_pool_alive_iff_owned.

(* THE EXACT BOUNDARY OF THE KNOWN FINDING `shared-pool-misroute`.  For a protocol-respecting deallocate of a live block whose
   tag tells the truth (implied by the invariant), the decision - which is the GENERATED deallocate - returns the block to its
   origin IF AND ONLY IF it is not a single-object block that had to be taken from raw memory and now meets a pool that has the
   parameters of its value type.  Hence "no raw single-object block is deallocated while the pool has its parameters" is the
   weakest client hypothesis excluding misrouting: every hypothesis admitting one such deallocation admits a misrouted block. *)
Theorem C20_misroute_exact_boundary : forall cfg st h b n s,
  proto_ok cfg st (OpDealloc h b n s) = true -> well_tagged cfg st (blocks st b) ->
  (tag_eqb (btag (blocks st b)) (decided_tag cfg st h n) = true <-> ~ raw_single_in_matching_pool cfg st h b n).
Proof. exact misroute_exact_boundary. Qed.
Print Assumptions C20_misroute_exact_boundary.

(* ... and over WHOLE HISTORIES (no hypothesis H at all): a protocol-respecting history from the initial state runs to the end
   with every deallocation returned to its origin IF AND ONLY IF it contains no deallocation of a raw single-object block
   meeting a pool that now has its value type's parameters.  This is the exact boundary of the known finding. *)
Theorem C20_history_misroutes_iff : forall cfg ops, respects cfg (protocol cfg) init ops ->
  ((exists st' obs, run cfg init ops = Ok (st', obs) /\ Forall (fun o => routed_ok o = true) obs) <-> respects cfg (no_danger cfg) init ops).
Proof. exact history_misroutes_iff. Qed.
Print Assumptions C20_history_misroutes_iff.

(* the weak invariant (the invariant minus "no raw single-object block exists") survives every such history, which also never
   asserts and keeps the base allocator balanced - so sharing a pool between node sizes is safe exactly up to the danger *)
Theorem C20_weak_invariant_histories : forall cfg ops st, winv cfg st -> respects cfg (protocol cfg) st ops -> respects cfg (no_danger cfg) st ops ->
  exists st' obs, run cfg st ops = Ok (st', obs) /\ winv cfg st' /\ Forall (fun o => routed_ok o = true) obs /\
    (outstanding st' + sum_frees obs = outstanding st + sum_allocs obs)%nat.
Proof. exact run_no_danger. Qed.
Print Assumptions C20_weak_invariant_histories.

(* ... a raw single-object block comes into existence exactly when a single-object request meets a BUSY pool of other
   parameters, i.e. exactly when H (no_size_sharing) is violated at that request (decision = the GENERATED allocate) ... *)
Theorem C20_raw_single_created_iff : forall cfg vt P sz,
  alloc_decision cfg vt P 1 = ARaw sz <->
  (params_eqb (get_params cfg vt) (pparams P) = false /\ pcount P <> 0%nat /\ sz = (1 * vsize vt)%Z).
Proof. exact raw_single_created_iff. Qed.
Print Assumptions C20_raw_single_created_iff.

(* ... so H is SUFFICIENT (under the invariant it maintains, the dangerous deallocation cannot occur) ... *)
Theorem C20_H_excludes_the_danger : forall cfg st h b n s, inv cfg st -> proto_ok cfg st (OpDealloc h b n s) = true ->
  ~ raw_single_in_matching_pool cfg st h b n.
Proof. exact H_excludes_the_danger. Qed.
Print Assumptions C20_H_excludes_the_danger.

(* ... but NOT NECESSARY: two node sizes on one pool, H violated, yet the raw block is given back while the pool still has the
   other parameters - all ten operations run, every deallocation is routed correctly, nothing is left outstanding. *)
Theorem C20_H_not_necessary :
  good cfg_default false init benign_sharing_ops = true /\ good cfg_default true init benign_sharing_ops = false /\
  forallb (fun x => snd x) (routing benign_sharing_ops) = true /\ length (routing benign_sharing_ops) = 10%nat /\
  match run cfg_default init benign_sharing_ops with Ok (st, _) => outstanding st | _ => 1%nat end = 0%nat.
Proof. exact H_not_necessary. Qed.
Print Assumptions C20_H_not_necessary.

(* The remaining constructors are GENERATED: the rebinding conversion builds the new allocator from this allocator's pool
   pointer (through the protected shared_ptr constructor); the explicit constructor points to what allocate_shared made from
   (base allocator, own parameters, memory manager of the base allocator); the model's OpRebind / OpNew do exactly that.
   (The destructor is `= default`: no code; shared_ptr release is library semantics, see C20_pool_alive_iff_owned.) *)
Theorem C20_generated_ctor_ops_are_model : forall cfg st h vt,
  (forall st1 ob, step cfg st (OpRebind h vt) = Ok (st1, ob) ->
     Z.of_nat (hpool (handles st1 (nhandles st))) =
       Gen_PoolAllocatorHandles.SharedCtor 0%Z 0%Z (Gen_PoolAllocatorHandles.RebindConversion (Z.of_nat (hpool (handles st h))) 0%Z)) /\
  (forall npo myP own src alloc, Gen_PoolAllocatorHandles.ExplicitCtor npo myP own src alloc = npo alloc myP alloc) /\
  (forall st1 ob, step cfg st (OpNew vt) = Ok (st1, ob) ->
     hpool (handles st1 (nhandles st)) = npools st /\ npools st1 = S (npools st) /\
     pools st1 (npools st) = mkPool (get_params cfg vt) 0 1 0 true /\ cached st1 (npools st) = cached st (npools st)).
Proof. exact gen_ctor_ops_refine. Qed.
Print Assumptions C20_generated_ctor_ops_are_model.

(* What the model assumes about the buffer layer (PoolAssumptions.v, each assumption with the C09 theorem discharging it): if a
   pool call never returns a buffer the pool does not hold, the reported base deallocations are exactly the observed ones; the
   last owner's release returns every held buffer plus the control block. *)
Theorem C20_dealloc_frees_is_annotation : forall cfg st h b n shrink st' ob,
  step cfg st (OpDealloc h b n shrink) = Ok (st', ob) ->
  (shrink <= pheld (pools st (hpool (handles st h))))%nat ->
  match dealloc_decision cfg (hvt (handles st h)) (pools st (hpool (handles st h))) n with
  | DPool => o_frees ob = (if use_cache cfg (pools st (hpool (handles st h))) &&
                              negb (Z.leb (cached_free_block_count cfg) (Z.of_nat (cached st (hpool (handles st h)))))
                           then 0 else shrink)%nat /\
             (pheld (pools st' (hpool (handles st h))) + o_frees ob = pheld (pools st (hpool (handles st h))))%nat
  | DRaw _ => o_frees ob = 1%nat /\ pools st' = pools st
  end.
Proof. exact PoolAssumptions.dealloc_frees_is_annotation. Qed.
Print Assumptions C20_dealloc_frees_is_annotation.

Theorem C20_last_release_returns_all : forall st p st' fr,
  release st p = Ok (st', fr) -> prefs (pools st p) = 1%nat ->
  fr = S (pheld (pools st p)) /\ pheld (pools st' p) = 0%nat /\ palive (pools st' p) = false.
Proof. exact PoolAssumptions.last_release_returns_all. Qed.
Print Assumptions C20_last_release_returns_all.

(* The invariant used above is not vacuous: it holds initially and is preserved by every protocol- and
   H-respecting operation (which never gets stuck, routes correctly and balances the base allocator). *)
Theorem C20_invariant_step : forall cfg st o, inv cfg st -> proto_ok cfg st o = true -> h_ok cfg st o = true ->
  exists st' ob, step cfg st o = Ok (st', ob) /\ inv cfg st' /\ routed_ok ob = true /\
    (outstanding st' + o_frees ob = outstanding st + o_allocs ob)%nat.
Proof. exact step_good_H. Qed.
Print Assumptions C20_invariant_step.

(* Establishing theorem for the hypotheses `inv` / `winv` used above: both hold in the initial state (and are preserved:
   C20_invariant_step under H, C20_weak_invariant_histories without). *)
Theorem C20_invariant_initial : forall cfg, inv cfg init /\ winv cfg init.
Proof. exact inv_init_both. Qed.
Print Assumptions C20_invariant_initial.

(* About the generated CorrectBlockSize/Ceil, for every blockCount <> 1: the pool block for a value type (0 < size < 2^32,
   0 < alignment <= 1024) is >= sizeof, a multiple of the alignment, >= 2 alignments, < sizeof + 2 alignments. *)
Theorem C20_pool_block_fits_value : forall cfg vt, block_count cfg <> 1%Z -> vt_ok vt = true ->
  (snd (get_params cfg vt) = valign vt /\ vsize vt <= fst (get_params cfg vt) /\ 2 * valign vt <= fst (get_params cfg vt) /\
  fst (get_params cfg vt) mod valign vt = 0 /\ fst (get_params cfg vt) < vsize vt + 2 * valign vt)%Z.
Proof. exact pool_block_fits. Qed.
Print Assumptions C20_pool_block_fits_value.

(* Non-vacuity: a concrete good history with pooled nodes, a raw bucket array, a copy with its own pool,
   a swap and full tear-down; and an idle pool re-parameterised for another node type under H. *)
Theorem C20_demo_history_good : good cfg_default true init demo_ops = true.
Proof. exact demo_good. Qed.
Print Assumptions C20_demo_history_good.

Theorem C20_reparam_happens_under_H :
  let ops := [OpNew t24; OpRebind 0 t40; OpAlloc 0 1 1; OpDealloc 0 0 1 0; OpAlloc 1 1 1; OpDealloc 1 1 1 1; OpDestroy 0; OpDestroy 1] in
  good cfg_default true init ops = true /\
  match run cfg_default init ops with Ok (st, obs) => (outstanding st, map o_reparam obs) | _ => (1%nat, []) end
    = (0%nat, [false; false; false; false; true; false; false; false]).
Proof. exact reparam_under_H. Qed.
Print Assumptions C20_reparam_happens_under_H.
