(* C07 / final round: the premise `consistent ct rs s` of C07_pvselect_is_brute_force is discharged by reachability.
   For EVERY index state reachable from the empty one (ReachProofs.reach: index creation, AddRaw, RemoveRaw, UpdateRaw x2,
   FilterRaws, with every failure schedule, entry order and visibility relation) and for EVERY table state reachable by the
   DataTable-level operations (TableOps.treach: insert / update / remove / filter / clear incl. allocation failures), the
   statement tree of DataTable::pvSelect dumped from the source - consulting the index chosen by the dumped GetFit*Index and
   splitting the equalities as the dumped pvSelectRec overloads do - returns a permutation of the brute-force filter. *)
From Coq Require Import List ZArith Lia Bool Arith PeanoNat Permutation.
From C07 Require Import TableSpec IndexModel RefineProofs ReachProofs SelectModel.
From C07 Require TableOps Gen_Protocol.
Import ListNotations.

Theorem pvselect_all_histories R ct rs s q eqs f :
  reach ct rs s -> (forall k, R k k = true) -> NoDup (map fst eqs) -> (forall c, In c q <-> In c (map fst eqs)) ->
  Permutation (pv_select R ct s rs q eqs f) (filter (fun r => sat_eqs ct eqs r && f r) rs).
Proof.
  intros Hr HR Hn Hq. apply pv_select_is_scan; try assumption.
  exact (proj1 (every_reachable_index_state_consistent ct rs s Hr)).
Qed.

Theorem generated_pvselect_every_table_state R st q eqs f :
  TableOps.treach st -> (forall k, R k k = true) -> NoDup (map fst eqs) -> (forall c, In c q <-> In c (map fst eqs)) ->
  exists l,
    sel_stmts R (TableOps.tct st) (TableOps.tidx st) (TableOps.trows st) q eqs f Gen_Protocol.T_pvSelect (fun _ => None) None = Some l /\
    Permutation l (filter (fun r => sat_eqs (TableOps.tct st) eqs r && f r) (TableOps.trows st)).
Proof.
  intros Hr HR Hn Hq. eexists. split; [apply generated_pvSelect|].
  apply pv_select_is_scan; try assumption.
  exact (proj1 (TableOps.every_table_state_consistent st Hr)).
Qed.
