(* C04 -- Array::SetCountCrt (Array.h:663-710) for SetCount(count, item): the three branches
     newCount <= count            : pvRemoveBack (destroys, cannot throw)
     newCount <= capacity         : create the new items in place; on failure destroy those created so far
     newCount >  capacity         : Data::Reset with the creator "create the new items in the new block, THEN relocate the old
                                    ones; on failure destroy the new items created so far"
   and a table of the documented exception-safety strength of every Array / SegmentedArray operation. *)
From Coq Require Import List Arith Lia Bool PeanoNat.
From C04 Require Import Effects ObjMgr ArrayData RegFrame Ctor Shifter.
Import ListNotations.

Definition rIdx2 := 4.        (* the local `size_t index` of SetCountCrt / of its items creator *)

(* for (; index < newCount; ++index) itemMultiCreator(items + index);   with itemMultiCreator = copy of `item` *)
Fixpoint fill_from (arg : loc) (it : nat -> loc) (i n : nat) : M unit :=
  match n with
  | 0 => ret tt
  | S n' => copy_construct arg (it i) ;; setr rIdx2 (S i) ;; fill_from arg it (S i) n'
  end.

Definition array_remove_back (k : nat) : M unit :=
  items <- getr rItems ;; cnt <- getr rCount ;;
  destroy_from (fun j => (items, j)) (cnt - k) k ;; setr rCount (cnt - k).

Definition array_setcount_nogrow (arg : loc) (newCount : nat) : M unit :=
  items <- getr rItems ;; initCount <- getr rCount ;;
  setr rIdx2 initCount ;;
  try_catch (fill_from arg (fun j => (items, j)) initCount (newCount - initCount))
            (idx <- getr rIdx2 ;; destroy_from (fun j => (items, j)) initCount (idx - initCount) ;; throw) ;;
  setr rCount newCount.

Definition creator_setcount (c : cat) (initCount newCount : nat) (arg : loc) : nat -> M unit :=
  fun nb =>
    setr rIdx2 initCount ;;
    try_catch (fill_from arg (fun j => (nb, j)) initCount (newCount - initCount) ;;
               b <- getr rItems ;; relocate_range c (fun j => (b, j)) (fun j => (nb, j)) initCount)
              (idx <- getr rIdx2 ;; destroy_from (fun j => (nb, j)) initCount (idx - initCount) ;; throw).

Definition array_setcount_grow (c : cat) (newCapacity newCount : nat) (arg : loc) : M unit :=
  initCount <- getr rCount ;; data_reset newCapacity newCount (creator_setcount c initCount newCount arg).

Section Fill.
Variables (arg : loc) (it : nat -> loc) (v : nat).

Record filled (h h' : heap) (lo cur : nat) : Prop := mkFilled
  { fl_it : forall j, lo <= j < cur -> mem h' (it j) = Live v;
    fl_frame : forall l, (forall j, lo <= j < cur -> it j <> l) -> mem h' l = mem h l;
    fl_shape : agree (fun _ => False) h h';
    fl_idx : regs h' rIdx2 = cur;
    fl_regs : forall r, r <> rIdx2 -> regs h' r = regs h r }.

Lemma wp_fill_from : forall n i s (Q : unit -> st -> Prop) (E : st -> Prop),
  valid (hp s) arg = true -> mem (hp s) arg = Live v ->
  (forall j, i <= j < i + n -> valid (hp s) (it j) = true /\ mem (hp s) (it j) = Raw /\ it j <> arg) ->
  (forall j k, i <= j < i + n -> i <= k < i + n -> j <> k -> it j <> it k) ->
  regs (hp s) rIdx2 = i ->
  (forall cur s', i <= cur < i + n -> filled (hp s) (hp s') i cur -> E s') ->
  (forall s', filled (hp s) (hp s') i (i + n) -> Q tt s') ->
  wp (fill_from arg it i n) s Q E.
Proof.
  induction n; intros i s Q E Va Ma Hpre Hinj Hidx HE HQ.
  - simpl. apply wp_ret. apply HQ. split.
    + intros; lia. + reflexivity. + apply agree_refl. + rewrite Nat.add_0_r; auto. + reflexivity.
  - simpl. destruct (Hpre i ltac:(lia)) as [Vi [Ri Ni]].
    apply wp_bind. eapply wp_copy_construct; eauto.
    + intros s' H'. apply (HE i s'). lia. split.
      * intros; lia. * intros; apply (hq_mem _ _ H'). * apply heq_agree; auto.
      * rewrite (hq_regs _ _ H'); auto. * intros; apply (hq_regs _ _ H').
    + intros s1 H1. apply wp_bind, wp_setr. intros s2 H2.
      assert (Hm2 : forall l, mem (hp s2) l = if loc_eqb l (it i) then Live v else mem (hp s) l).
      { intros l. rewrite (hq_mem _ _ H2), mem_hsetr, (hq_mem _ _ H1). reflexivity. }
      assert (Hv2 : forall l, valid (hp s2) l = valid (hp s) l).
      { intros l. rewrite (heq_valid _ _ _ H2), valid_hsetr, (heq_valid _ _ _ H1). reflexivity. }
      assert (Hr2 : forall r, regs (hp s2) r = if r =? rIdx2 then S i else regs (hp s) r).
      { intros r. rewrite (hq_regs _ _ H2). simpl. unfold updn. destruct (r =? rIdx2); auto. apply (hq_regs _ _ H1). }
      assert (Hsh2 : agree (fun _ => False) (hp s) (hp s2)).
      { split; try contradiction; intros.
        - rewrite (hq_alive _ _ H2); simpl. apply (hq_alive _ _ H1).
        - rewrite (hq_bsize _ _ H2); simpl. apply (hq_bsize _ _ H1).
        - rewrite (hq_next _ _ H2); simpl. apply (hq_next _ _ H1). }
      assert (Hstep : forall cur h', S i <= cur <= i + S n -> filled (hp s2) h' (S i) cur -> filled (hp s) h' i cur).
      { intros cur h' Hc [C1 C2 C3 C4 C5]. split.
        - intros j Hj. destruct (Nat.eq_dec j i) as [Hji|Hji]; [subst j|].
          + rewrite C2. { rewrite Hm2, loc_eqb_refl; auto. } intros j' Hj'. apply Hinj; lia.
          + apply C1; lia.
        - intros l Hl. rewrite C2. { rewrite Hm2, loc_eqb_neq; auto. intro X. apply (Hl i); [lia | auto]. }
          intros j' Hj'. apply Hl; lia.
        - eapply agree_trans; eauto.
        - auto.
        - intros r Hr'. rewrite C5 by auto. rewrite Hr2. apply Nat.eqb_neq in Hr'. rewrite Hr'. reflexivity. }
      apply IHn.
      * rewrite Hv2; auto.
      * rewrite Hm2, loc_eqb_neq; auto.
      * intros j Hj. destruct (Hpre j ltac:(lia)) as [A [B C]]. rewrite Hv2, Hm2.
        rewrite (loc_eqb_neq (it j)) by (apply Hinj; lia). auto.
      * intros; apply Hinj; lia.
      * rewrite Hr2. reflexivity.
      * intros cur s' Hc Hcp. apply (HE cur s'). lia. apply Hstep; auto. lia.
      * intros s' Hcp. apply HQ. apply Hstep. lia. replace (i + S n) with (S i + n) by lia. exact Hcp.
Qed.
End Fill.

(* the catch block shared by both branches: destroys exactly the items created so far *)
Lemma wp_fill_handler : forall (it : nat -> loc) lo hi cur h0 s1 (Q : unit -> st -> Prop),
  lo <= cur <= hi ->
  (forall j, lo <= j < hi -> valid h0 (it j) = true /\ mem h0 (it j) = Raw) ->
  (forall j k, lo <= j < hi -> lo <= k < hi -> j <> k -> it j <> it k) ->
  agree (fun l => forall j, lo <= j < cur -> it j <> l) h0 (hp s1) ->
  (forall j, lo <= j < cur -> mem (hp s1) (it j) <> Raw) ->
  regs (hp s1) rIdx2 = cur -> fields_same h0 (hp s1) ->
  wp (idx <- getr rIdx2 ;; destroy_from it lo (idx - lo) ;; throw) s1 Q (fun s' => unchanged h0 (hp s')).
Proof.
  intros it lo hi cur h0 s1 Q Hc Hpre Hinj Ag Hlive Hidx Hf.
  apply wp_bind, wp_getr. rewrite Hidx.
  apply wp_bind. apply wp_destroy_from.
  - intros j Hj. rewrite (agree_valid _ _ _ _ Ag). split. { apply Hpre; lia. } apply Hlive; lia.
  - intros; apply Hinj; lia.
  - intros s2 [D1 D2 D3 D4]. apply wp_throw. split.
    + intros l. destruct (in_range_dec it lo cur l) as [[j [Hj El]]|N].
      * subst l. rewrite D1 by lia. symmetry. apply Hpre; lia.
      * rewrite D2 by (intros; apply N; lia). apply (ag_mem _ _ _ Ag). intros; apply N; lia.
    + intros b. rewrite (ag_alive _ _ _ D3). apply (ag_alive _ _ _ Ag).
    + intros b. rewrite (ag_bsize _ _ _ D3). apply (ag_bsize _ _ _ Ag).
    + rewrite (ag_next _ _ _ D3). apply (ag_next _ _ _ Ag).
    + intros r Hr. rewrite D4. apply Hf; auto.
Qed.

(* SetCount(count, item) within the capacity: strong *)
Theorem array_setcount_nogrow_spec : forall arg v newCount s,
  arr_inv (hp s) -> regs (hp s) rCount <= newCount -> newCount <= regs (hp s) rCap -> regs (hp s) rCap > 0 ->
  valid (hp s) arg = true -> mem (hp s) arg = Live v -> fst arg <> regs (hp s) rItems ->
  wp (array_setcount_nogrow arg newCount) s
     (fun _ s' => regs (hp s') rCount = newCount /\
                  (forall j, regs (hp s) rCount <= j < newCount -> mem (hp s') (regs (hp s) rItems, j) = Live v) /\
                  (forall l, (forall j, regs (hp s) rCount <= j < newCount -> (regs (hp s) rItems, j) <> l) -> mem (hp s') l = mem (hp s) l))
     (fun s' => unchanged (hp s) (hp s')).
Proof.
  intros arg v newCount s [Iblk Icnt Ilive Iraw] Hlo Hhi Hcap Va Ma Na. unfold array_setcount_nogrow.
  destruct (Iblk Hcap) as [Ab Sb]. set (b := regs (hp s) rItems) in *. set (c0 := regs (hp s) rCount) in *.
  apply wp_bind, wp_getr. apply wp_bind, wp_getr. apply wp_bind, wp_setr. intros s0 H0.
  assert (M0 : forall l, mem (hp s0) l = mem (hp s) l) by (intros; apply (hq_mem _ _ H0)).
  assert (V0 : forall l, valid (hp s0) l = valid (hp s) l) by (intros; rewrite (heq_valid _ _ _ H0); reflexivity).
  assert (F0 : fields_same (hp s) (hp s0)).
  { intros r Hr. rewrite (hq_regs _ _ H0). apply regs_hsetr_other. unfold rIdx2; lia. }
  assert (Sh0 : agree (fun _ => True) (hp s) (hp s0)) by (destruct H0; split; auto).
  assert (Cells : forall j, c0 <= j < newCount -> valid (hp s) (b, j) = true /\ mem (hp s) (b, j) = Raw).
  { intros j Hj. split. unfold valid. simpl. rewrite Ab, Sb. apply Nat.ltb_lt. lia. apply Iraw; lia. }
  apply wp_bind. apply wp_try.
  apply wp_fill_from with (v := v).
  - rewrite V0; auto. - rewrite M0; auto.
  - intros j Hj. rewrite V0, M0. destruct (Cells j ltac:(lia)) as [A B]. repeat split; auto.
    intro E. apply Na. rewrite <- E. reflexivity.
  - intros j k Hj Hk Hjk E. inversion E. auto.
  - rewrite (hq_regs _ _ H0). apply regs_hsetr_same.
  - intros cur s1 Hc [K1 K2 K3 K4 K5].
    eapply wp_fill_handler with (hi := newCount) (cur := cur); eauto; try lia.
    + intros j k Hj Hk Hjk E. inversion E. auto.
    + eapply agree_compose; [exact Sh0| |exact K3]. intros l Hl. apply K2. intros; apply Hl; lia.
    + intros j Hj. rewrite K1 by lia. discriminate.
    + intros r Hr. rewrite K5 by (unfold rIdx2; lia). apply F0; auto.
  - intros s1 [K1 K2 K3 K4 K5]. simpl. apply wp_setr. intros s2 H2. repeat split.
    + rewrite (hq_regs _ _ H2). apply regs_hsetr_same.
    + intros j Hj. rewrite (hq_mem _ _ H2), mem_hsetr. apply K1. lia.
    + intros l Hl. rewrite (hq_mem _ _ H2), mem_hsetr, K2, M0; auto. intros j Hj. apply Hl. lia.
Qed.

(* ---- SetCount with growth -------------------------------------------------------------------------------- *)
Section SetCountGrow.
Variables (c : cat) (capacity newCount : nat) (h0 : heap) (arg : loc) (v : nat).
Hypothesis W : wf h0.
Hypothesis I : arr_inv h0.
Hypothesis Hnc : regs h0 rCount <= newCount.
Hypothesis Hcap : newCount <= capacity.
Hypothesis Harg : valid h0 arg = true /\ mem h0 arg = Live v /\ fst arg <> regs h0 rItems.
Let b := regs h0 rItems.
Let nb := next h0.
Let count := regs h0 rCount.

Lemma creator_setcount_ok :
  creator_ok (creator_setcount c count newCount arg) capacity h0
    (fun h => (forall i, i < count -> mem h (nb, i) = mem h0 (b, i)) /\ (forall i, count <= i < newCount -> mem h (nb, i) = Live v)).
Proof.
  intros s H. destruct Harg as [Va [Ma Nab]]. fold b in Nab.
  destruct (growth_range_pre capacity h0 W I ltac:(lia) s (newCount - regs h0 rCount) H ltac:(lia)) as [Hpre [Hbn [Vn [Mo [Ro Vo]]]]].
  fold b nb count in Hpre, Hbn, Vn, Mo, Vo.
  assert (Nan : fst arg <> nb).
  { intro E. unfold valid in Va. rewrite E in Va. unfold nb in Va. rewrite W in Va by lia. discriminate. }
  unfold creator_setcount. apply wp_bind, wp_setr. intros s0 H0.
  assert (M0 : forall l, mem (hp s0) l = mem (hp s) l) by (intros; apply (hq_mem _ _ H0)).
  assert (V0 : forall l, valid (hp s0) l = valid (hp s) l) by (intros; rewrite (heq_valid _ _ _ H0); reflexivity).
  assert (F0 : fields_same (hp s) (hp s0)).
  { intros r Hr. rewrite (hq_regs _ _ H0). apply regs_hsetr_other. unfold rIdx2; lia. }
  assert (Sh0 : agree (fun _ => True) (hp s) (hp s0)) by (destruct H0; split; auto).
  assert (NewCells : forall j, count <= j < newCount -> valid (hp s) (nb, j) = true /\ mem (hp s) (nb, j) = Raw).
  { intros j Hj. apply Vn. lia. }
  assert (NewInj : forall j k : nat, count <= j < newCount -> count <= k < newCount -> j <> k -> (nb, j) <> (nb, k)).
  { intros j k Hj Hk Hjk E. inversion E. auto. }
  apply wp_try. apply wp_bind.
  apply wp_fill_from with (v := v).
  - rewrite V0, Vo by auto. exact Va.
  - rewrite M0, Mo by auto. exact Ma.
  - intros j Hj. rewrite V0, M0. destruct (NewCells j ltac:(lia)) as [A B]. repeat split; auto.
    intro E. apply Nan. rewrite <- E. reflexivity.
  - intros j k Hj Hk. apply NewInj; lia.
  - rewrite (hq_regs _ _ H0). apply regs_hsetr_same.
  - (* creating a new item failed *)
    intros cur s1 Hc [K1 K2 K3 K4 K5].
    eapply wp_fill_handler with (hi := newCount) (cur := cur); eauto; try lia.
    + eapply agree_compose; [exact Sh0| |exact K3]. intros l Hl. apply K2. intros; apply Hl; lia.
    + intros j Hj. rewrite K1 by lia. discriminate.
    + intros r Hr. rewrite K5 by (unfold rIdx2; lia). apply F0; auto.
  - (* all new items created: relocate the old ones *)
    intros s1 [K1 K2 K3 K4 K5]. replace (count + (newCount - count)) with newCount in * by lia.
    assert (Ag1 : agree (fun l => forall j, count <= j < newCount -> (nb, j) <> l) (hp s) (hp s1)).
    { eapply agree_compose; [exact Sh0| |exact K3]. intros l Hl. apply K2. intros; apply Hl; lia. }
    assert (F1 : fields_same (hp s) (hp s1)).
    { intros r Hr. rewrite K5 by (unfold rIdx2; lia). apply F0; auto. }
    apply wp_bind, wp_getr. rewrite K5 by (unfold rItems, rIdx2; lia). rewrite (hq_regs _ _ H0), regs_hsetr_other by (unfold rItems, rIdx2; lia).
    rewrite Ro. fold b.
    assert (Hpre1 : range_pre (fun j => (b, j)) (fun j => (nb, j)) count (hp s1)).
    { eapply range_pre_transport; [exact Hpre|]. eapply agree_weaken; [|exact Ag1].
      intros l [[j [Hj El]]|[j [Hj El]]] k Hk E; subst l; inversion E; subst.
      - apply Hbn; auto; lia. - lia. }
    eapply wp_mono. { apply wp_frame. apply rf_relocate_range. apply relocate_range_spec. exact Hpre1. }
    + intros _ s2 [[D1 D2 D3 D4 D5] Rf]. simpl. split; [|split; [|split]].
      * eapply agree_trans.
        -- eapply agree_weaken; [|exact Ag1]. intros l [L1 L2] j Hj E. subst l. apply L2. reflexivity.
        -- destruct D4 as [_ Da Db Dn]. split; auto. intros l [L1 L2]. apply D3; auto.
           ++ intros j Hj E. subst l. apply L1. reflexivity.
           ++ intros j Hj E. subst l. apply L2. reflexivity.
      * intros r Hr. rewrite D5 by auto. apply F1; auto.
      * intros Hc i Hi. destruct I as [Iblk Icnt Ilive Iraw]. fold b count in Iblk, Icnt, Ilive, Iraw.
        assert (Hb : b <> nb) by (apply old_ne_next; auto; apply Iblk; auto).
        destruct (le_lt_dec count i) as [Hge|Hlt].
        -- rewrite D3; auto.
           ++ rewrite (ag_mem _ _ _ Ag1) by (intros j Hj E; inversion E; auto). rewrite Mo by auto. apply Iraw; auto.
           ++ intros j Hj E. inversion E. lia.
           ++ intros j Hj E. inversion E. auto.
        -- apply D2; auto.
      * split.
        -- intros i Hi. rewrite D1 by auto. rewrite (ag_mem _ _ _ Ag1). { apply Mo. simpl. apply Hbn. lia. }
           intros j Hj E. inversion E. apply Hbn; auto; lia.
        -- intros i Hi. rewrite D3; auto.
           ++ intros j Hj E. inversion E. apply Hbn; auto; lia.
           ++ intros j Hj E. inversion E. lia.
    + (* the relocation threw: destroy the new items *)
      intros s2 [U2 Rf].
      eapply wp_mono.
      { eapply wp_fill_handler with (it := fun j => (nb, j)) (lo := count) (hi := newCount) (cur := newCount) (h0 := hp s); eauto; try lia.
        - destruct U2 as [Um Ua Ub Un Ur]. destruct Ag1 as [Am Aa Ab An]. split; intros.
          + rewrite Um. apply Am; auto. + rewrite Ua; auto. + rewrite Ub; auto. + congruence.
        - intros j Hj. rewrite (un_mem _ _ U2), K1 by lia. discriminate.
        - rewrite Rf by (unfold rIdx2, rIndex; lia). exact K4.
        - intros r Hr. rewrite (un_regs _ _ U2) by auto. apply F1; auto. }
      * intros a s' Q'. exact Q'.
      * intros s' E'. exact E'.
Qed.
End SetCountGrow.

(* SetCount(count, item) beyond the capacity: strong, every category, every count / capacity *)
Theorem array_setcount_grow_spec : forall c capacity newCount arg v s,
  wf (hp s) -> arr_inv (hp s) -> regs (hp s) rCount <= newCount -> newCount <= capacity ->
  valid (hp s) arg = true /\ mem (hp s) arg = Live v /\ fst arg <> regs (hp s) rItems ->
  wp (array_setcount_grow c capacity newCount arg) s
     (fun _ s' => regs (hp s') rItems = next (hp s) /\ regs (hp s') rCount = newCount /\ regs (hp s') rCap = capacity /\
                  (regs (hp s) rCap > 0 -> alive (hp s') (regs (hp s) rItems) = false) /\
                  (forall i, i < regs (hp s) rCount -> mem (hp s') (next (hp s), i) = mem (hp s) (regs (hp s) rItems, i)) /\
                  (forall i, regs (hp s) rCount <= i < newCount -> mem (hp s') (next (hp s), i) = Live v))
     (fun s' => same_res (hp s) (hp s')).
Proof.
  intros c capacity newCount arg v s W I Hn Hc Ha. unfold array_setcount_grow. apply wp_bind, wp_getr.
  eapply wp_mono.
  - eapply data_reset_spec; eauto.
    + eapply creator_setcount_ok; eauto.
    + intros h h' Hm [N1 N2]. split; intros i Hi; rewrite Hm by reflexivity; auto.
  - intros _ s' [A [B [C [D [E [F [G [H [N1 N2]]]]]]]]]. simpl in *. repeat split; auto.
  - intros s' H; exact H.
Qed.

(* RemoveBack(k) / SetCount to a smaller count: cannot throw *)
Theorem array_remove_back_spec : forall k s,
  arr_inv (hp s) -> k <= regs (hp s) rCount -> regs (hp s) rCap > 0 ->
  wp (array_remove_back k) s
     (fun _ s' => regs (hp s') rCount = regs (hp s) rCount - k /\
                  (forall j, regs (hp s) rCount - k <= j < regs (hp s) rCount -> mem (hp s') (regs (hp s) rItems, j) = Raw) /\
                  (forall l, (forall j, regs (hp s) rCount - k <= j < regs (hp s) rCount -> (regs (hp s) rItems, j) <> l) -> mem (hp s') l = mem (hp s) l))
     (fun _ => False).
Proof.
  intros k s [Iblk Icnt Ilive Iraw] Hk Hcap. unfold array_remove_back. destruct (Iblk Hcap) as [Ab Sb].
  apply wp_bind, wp_getr. apply wp_bind, wp_getr. apply wp_bind. apply wp_destroy_from.
  - intros j Hj. destruct (Ilive j ltac:(lia)) as [w Hw]. split. unfold valid. simpl. rewrite Ab, Sb. apply Nat.ltb_lt. lia. rewrite Hw. discriminate.
  - intros j j' Hj Hj' Hn E. inversion E. auto.
  - intros s1 [D1 D2 D3 D4]. apply wp_setr. intros s2 H2. repeat split.
    + rewrite (hq_regs _ _ H2). apply regs_hsetr_same.
    + intros j Hj. rewrite (hq_mem _ _ H2), mem_hsetr. apply D1. lia.
    + intros l Hl. rewrite (hq_mem _ _ H2), mem_hsetr. apply D2. intros j Hj. apply Hl. lia.
Qed.

(* ---- the documented exception-safety strength of the Array / SegmentedArray operations (Array.h:181-186,
        SegmentedArray.h:149-156) for ELEVEN operations that have a model, and what is proved for each (the failure half: what holds when an
        exception escapes).  `documented` records the library's documented strength as commentary next to `proved`; it is not an input of the theorem. *)
Inductive strength := Strong | Basic | Nothrow.
Inductive array_op :=
| OpAddBackGrow | OpReserve | OpShrink | OpSetCountSmaller | OpSetCountInPlace | OpSetCountGrow | OpRemoveBack | OpCopyCtor
| OpShrinkIntCap | OpInsertAt | OpRemoveAt.
Definition documented (o : array_op) : strength :=
  match o with
  | OpInsertAt | OpRemoveAt => Basic          (* "Functions Insert, InsertVar, InsertCrt, Remove have basic exception safety" *)
  | OpRemoveBack | OpSetCountSmaller => Nothrow
  | _ => Strong                               (* "All Array functions and constructors have strong exception safety" *)
  end.

Definition proved (o : array_op) : Prop :=
  match o with
  | OpAddBackGrow => forall c capacity arg v s,
      wf (hp s) -> arr_inv (hp s) -> S (regs (hp s) rCount) <= capacity ->
      valid (hp s) arg = true /\ mem (hp s) arg = Live v /\ fst arg <> regs (hp s) rItems ->
      forall s', array_addback_grow c capacity (creator_copy arg) s = (Exn, s') -> same_res (hp s) (hp s')
  | OpReserve | OpShrink => forall c capacity s,
      wf (hp s) -> arr_inv (hp s) -> regs (hp s) rCount <= capacity ->
      forall s', array_grow c capacity s = (Exn, s') -> same_res (hp s) (hp s')
  | OpSetCountSmaller | OpRemoveBack => forall k s,
      arr_inv (hp s) -> k <= regs (hp s) rCount -> regs (hp s) rCap > 0 ->
      forall s', array_remove_back k s <> (Exn, s')
  | OpSetCountInPlace => forall arg v newCount s,
      arr_inv (hp s) -> regs (hp s) rCount <= newCount -> newCount <= regs (hp s) rCap -> regs (hp s) rCap > 0 ->
      valid (hp s) arg = true -> mem (hp s) arg = Live v -> fst arg <> regs (hp s) rItems ->
      forall s', array_setcount_nogrow arg newCount s = (Exn, s') -> unchanged (hp s) (hp s')
  | OpSetCountGrow => forall c capacity newCount arg v s,
      wf (hp s) -> arr_inv (hp s) -> regs (hp s) rCount <= newCount -> newCount <= capacity ->
      valid (hp s) arg = true /\ mem (hp s) arg = Live v /\ fst arg <> regs (hp s) rItems ->
      forall s', array_setcount_grow c capacity newCount arg s = (Exn, s') -> same_res (hp s) (hp s')
  | OpCopyCtor => forall src n s, wf (hp s) ->
      (forall j, j < n -> valid (hp s) (src j) = true /\ exists v, mem (hp s) (src j) = Live v) ->
      forall s', Ctor.array_copy_ctor src n s = (Exn, s') -> same_res (hp s) (hp s')
  | OpShrinkIntCap => forall ib count junk cr s,
      intcap_creator_ok cr ib (hp s) -> alive (hp s) (regs (hp s) rItems) = true ->
      forall s', pv_reset_intcap ib count junk cr s = (Exn, s') -> unchanged (hp s) (hp s')
  | OpInsertAt => forall c arg index count s,        (* BASIC: a valid array with a consistent count, whatever its contents *)
      arr_basic arg (hp s) -> 0 < count -> index <= regs (hp s) rCount -> regs (hp s) rCount + count <= regs (hp s) rCap ->
      forall s', array_insert_nogrow c arg index count s = (Exn, s') ->
        arr_basic arg (hp s') /\ regs (hp s) rCount <= regs (hp s') rCount <= regs (hp s) rCount + count
  | OpRemoveAt => forall c arg index count s,
      arr_basic arg (hp s) -> 0 < count -> index + count <= regs (hp s) rCount ->
      forall s', array_remove_at c arg index count s = (Exn, s') -> arr_basic arg (hp s') /\ regs (hp s') rCount = regs (hp s) rCount
  end.

Ltac by_spec X := unfold wp in X; match goal with E : _ = (Exn, _) |- _ => rewrite E in X end; exact X.
Theorem array_strength_table_proved : forall o, proved o.
Proof.
  destruct o; simpl.
  - intros c capacity arg v s W I Hc Ha s' E. pose proof (array_addback_spec c capacity arg v s W I Hc Ha) as X. by_spec X.
  - intros c capacity s W I Hc s' E. pose proof (array_grow_spec c capacity s W I Hc) as X. by_spec X.
  - intros c capacity s W I Hc s' E. pose proof (array_grow_spec c capacity s W I Hc) as X. by_spec X.
  - intros k s I Hk Hc s' E. pose proof (array_remove_back_spec k s I Hk Hc) as X. by_spec X.
  - intros arg v newCount s I H1 H2 H3 H4 H5 H6 s' E. pose proof (array_setcount_nogrow_spec arg v newCount s I H1 H2 H3 H4 H5 H6) as X. by_spec X.
  - intros c capacity newCount arg v s W I H1 H2 H3 s' E. pose proof (array_setcount_grow_spec c capacity newCount arg v s W I H1 H2 H3) as X. by_spec X.
  - intros k s I Hk Hc s' E. pose proof (array_remove_back_spec k s I Hk Hc) as X. by_spec X.
  - intros src n s W H s' E. pose proof (Ctor.array_copy_ctor_spec src n s W H) as X. by_spec X.
  - intros ib count junk cr s H1 H2 s' E. pose proof (pv_reset_intcap_spec ib count junk cr s H1 H2) as X. by_spec X.
  - intros c arg index count s B H1 H2 H3 s' E. pose proof (array_insert_basic_spec c arg index count s B H1 H2 H3) as X. by_spec X.
  - intros c arg index count s B H1 H2 s' E. pose proof (array_remove_basic_spec c arg index count s B H1 H2) as X. by_spec X.
Qed.
