(* C08 model driver: same case format and output format as harness.cpp (see there). *)
open Zutil
open BinNums
open ArrayBucketModel
open MultiMapModel

let zs = string_of_z
let split_on c s = String.split_on_char c s

let repr_str r = match r with
  | RNull -> "N"
  | RFast st -> Printf.sprintf "F%s.%s.%s" (zs st) (zs (pool_of st)) (zs (fcount_of st))
  | RHeap (cap, cnt) -> Printf.sprintf "H%s.%s" (zs cap) (zs cnt)
  | RStuck -> "STUCK"

let key_int e = int_of_z e.ekey

let dump (m : mm) : string =
  let (es, n) = m in
  let b = Buffer.create 256 in
  Buffer.add_string b (Printf.sprintf "n=%s kc=%s " (zs (get_count m)) (zs (get_key_count m)));
  let sorted = List.sort (fun e1 e2 -> compare (key_int e1) (key_int e2)) es in
  List.iter (fun e ->
    Buffer.add_string b (Printf.sprintf "{%s:%s:%s:%s}" (zs e.ekey) (zs e.etag) (repr_str (fst e.earr))
      (String.concat "," (List.map zs (evals e))))) sorted;
  Buffer.add_string b " T=";
  (* traversal of the model (iterator with pvMove), grouped by key like the harness: stable sort by key *)
  let tr = traverse m in
  let tr = List.stable_sort (fun (k1, _) (k2, _) -> compare (int_of_z k1) (int_of_z k2)) tr in
  List.iter (fun (k, v) -> Buffer.add_string b (Printf.sprintf "(%s,%s)" (zs k) (zs v))) tr;
  Buffer.contents b

let run_mm (mfast : coq_Z) (ops : string list) : string =
  let s = ref st_empty in
  let recs = ref [] in
  List.iter (fun tok ->
    let w = split_on ',' tok in
    let c = (List.hd w).[0] in
    let a = Array.of_list (List.map z_of_string (List.tl w)) in
    let cur = fst !s in
    let es = fst cur in
    let both = ref false in
    let apply o = s := step mfast !s o in
    let ret =
      match c with
      | 'a' -> apply (OAdd (a.(0), a.(1), a.(2))); Printf.sprintf "it(%s,%s)" (zs a.(0)) (zs a.(2))
      | 'A' -> (match find a.(0) es with
                | None -> "skip"
                | Some _ -> apply (OAddAt (a.(0), a.(1))); Printf.sprintf "it(%s,%s)" (zs a.(0)) (zs a.(1)))
      | 'i' -> apply (OInsertKey (a.(0), a.(1)));
               (match find a.(0) (fst (fst !s)) with
                | Some e -> Printf.sprintf "key(%s,%s,%d)" (zs e.ekey) (zs e.etag) (List.length (evals e))
                | None -> "key(?)")
      | 'r' | 'R' ->
               let i = int_of_z a.(1) in
               (match find a.(0) es with
                | None -> "skip"
                | Some e -> if i >= List.length (evals e) then "skip" else begin
                    apply (ORemove (a.(0), nat_of_int i));
                    match find a.(0) (fst (fst !s)) with
                    | Some e' -> let vs = evals e' in
                        if i < List.length vs then Printf.sprintf "it(%s,%s)" (zs a.(0)) (zs (List.nth vs i)) else "nx"
                    | None -> "lost" end)
      | 'p' -> let before = get_count cur in
               apply (ORemoveIf (lin_pred a.(0) a.(1) a.(2) a.(3)));
               Printf.sprintf "rm%s" (zs (BinInt.Z.sub before (get_count (fst !s))))
      | 'v' -> (match find a.(0) es with None -> "skip" | Some _ -> apply (ORemoveValues a.(0)); "ok")
      | 'k' -> let before = get_count cur in
               apply (ORemoveKey a.(0));
               Printf.sprintf "rk%s" (zs (BinInt.Z.sub before (get_count (fst !s))))
      | 'K' -> (match find a.(0) es with
                | None -> "skip"
                | Some e -> apply (ORemoveKey a.(0)); Printf.sprintf "rk%d" (List.length (evals e)))
      | 't' -> (match find a.(0) es with None -> "skip" | Some _ -> apply (OResetKey (a.(0), a.(1))); "ok")
      | 'c' -> apply OClear; "ok"
      | 's' -> apply OSwap; both := true; "ok"
      | 'y' -> apply OCopyTo; both := true; "ok"
      | 'Y' -> apply OCopyFrom; both := true; "ok"
      | 'm' -> apply OMoveFrom; both := true; "ok"
      | _ -> "?" in
    let r = ret ^ ";" ^ dump (fst !s) ^ (if !both then ";" ^ dump (snd !s) else "") in
    recs := r :: !recs) ops;
  String.concat "|" (List.rev !recs)

let () = iter_lines (fun line ->
  match words line with
  | "mm" :: _bucket :: m :: _vt :: _hm :: ops -> print_endline (run_mm (z_of_string m) ops)
  | _ -> print_endline "?")
