"""C08 - hash multimap equals the abstract key -> value-list map.
tie: T-cor.  Hand-written executable Gallina (ArrayBucketModel, MultiMapModel, WrapperModel) is extracted to OCaml and
run against the real momo::HashMultiMap / stdish::unordered_multimap on the same op scripts; the harness also keeps an
independent std::map twin (and std::unordered_multimap for the wrapper) which is the oracle / search stage."""
import os, re

MS = [1, 2, 3, 4, 7, 15]
BUCKETS = ['L', 'O8', 'O2']

# ----------------------------------------------------------------------------- generators
class Shadow:
    """generator-side shadow (only to aim the scripts: valid indices, sizes reached)"""
    def __init__(self):
        self.cur = {}; self.oth = {}

    def apply(self, tok):
        w = tok.split(','); c = w[0][0]; a = list(map(int, w[1:]))
        cur = self.cur
        if c == 'n': cur.setdefault(a[0], [])
        elif c == 'G':
            for q in range(0, len(a) - 2, 3): cur.setdefault(a[q], []).append(a[q + 2])
        elif c == 'a': cur.setdefault(a[0], []).append(a[2])
        elif c == 'A':
            if a[0] in cur: cur[a[0]].append(a[1])
        elif c == 'i': cur.setdefault(a[0], [])
        elif c in 'rR':
            if a[0] in cur and a[1] < len(cur[a[0]]):
                v = cur[a[0]]; v[a[1]] = v[-1]; v.pop()
        elif c == 'p':
            for k, v in cur.items():
                i = 0
                while i < len(v):
                    if (a[0] * k + a[1] * v[i]) % a[2] == a[3]: v[i] = v[-1]; v.pop()
                    else: i += 1
        elif c == 'v':
            if a[0] in cur: cur[a[0]] = []
        elif c in 'kK': cur.pop(a[0], None)
        elif c == 'c': cur.clear()
        elif c == 's': self.cur, self.oth = self.oth, self.cur
        elif c == 'y': self.oth = {k: list(v) for k, v in cur.items()}
        elif c == 'Y': self.cur = {k: list(v) for k, v in self.oth.items()}
        elif c == 'm': self.cur = self.oth; self.oth = {}


def header(r, M=None, bucket=None, vt=None, hm=None):
    return 'mm %s %d %s %d' % (bucket or r.choice(BUCKETS), M or r.choice(MS), vt or r.choice(['i', 'i', 's']),
                               hm if hm is not None else r.choice([0, 0, 1, 2, 3, 4]))


def gen_growshrink(r, M, bucket, vt, big):
    """one or two keys: walk through every pool, the heap array growth and the shrink chain, down to a value-less key"""
    ops = []; sh = Shadow(); nv = [100]
    inj = r.chance(1, 2)        # this script injects allocation / key-relocation failures
    def add(tok):
        if inj and tok[0] in 'aArRK' and tok[1] == ',' and r.chance(1, 2): tok = tok[0] + '!' + tok[1:]
        ops.append(tok); sh.apply(tok)
    def val():
        nv[0] += 1
        return nv[0] if r.chance(9, 10) else r.range(100, nv[0])
    k = r.range(0, 5)
    n = r.choice([M, M + 1, 2 * M, 2 * M + 1, 4 * M + 1, 16, 17, 33, 40]) if not big else r.choice([65, 70, 130, 200])
    for j in range(n):
        add('a,%d,%d,%d' % (k, j, val()) if r.chance(1, 2) else ('A,%d,%d' % (k, val()) if k in sh.cur else 'a,%d,%d,%d' % (k, j, val())))
        if r.chance(1, 12): add('a,%d,%d,%d' % (k + 1, 7, val()))
    if r.chance(1, 3): add(r.choice(['y', 'y,1']));
    if r.chance(1, 4): add(r.choice(['s', 's,1']))
    if r.chance(1, 4) and k not in sh.cur: add(r.choice(['Y', 'm', 'm,1', 's']))
    mode = r.below(4)
    while k in sh.cur and sh.cur[k]:
        L = len(sh.cur[k])
        i = 0 if mode == 0 else (L - 1 if mode == 1 else r.below(L))
        add('%s,%d,%d' % (r.choice('rR'), k, i))
        if r.chance(1, 15): add('A,%d,%d' % (k, val()))
    if k in sh.cur:
        add(r.choice(['A,%d,%d' % (k, val()), 'i,%d,5' % k, 't,%d,77' % k, 'v,%d' % k, 'p,1,1,2,0']))
        add(r.choice(['k,%d' % k, 'K,%d' % k, 'c', 'y', 'a,%d,9,%d' % (k, val())]))
    return ops


def gen_random(r, nkeys, nops, wide):
    ops = []; sh = Shadow(); nv = [0]
    inj = r.chance(1, 3)
    def val():
        nv[0] += 1
        return nv[0] if r.chance(5, 6) else r.range(0, nv[0])
    for _ in range(nops):
        cur = sh.cur
        present = list(cur.keys())
        nonempty = [k for k in present if cur[k]]
        t = r.below(100)
        k = r.below(nkeys)
        if t < 3: tok = 'n,%d,%d' % (k, r.below(50))
        elif t < 6: tok = 'G,' + ','.join('%d,%d,%d' % (r.below(nkeys), r.below(50), val()) for _ in range(r.range(1, 4)))
        elif t < 34: tok = 'a,%d,%d,%d' % (k, r.below(50), val())
        elif t < 44: tok = 'A,%d,%d' % ((r.choice(present) if present and r.chance(9, 10) else k), val())
        elif t < 49: tok = 'i,%d,%d' % (k, r.below(50))
        elif t < 69:
            if nonempty and r.chance(19, 20):
                kk = r.choice(nonempty); L = len(cur[kk])
                i = r.choice([0, L - 1, r.below(L), r.below(L)])
            else: kk = k; i = r.below(3)
            tok = '%s,%d,%d' % (r.choice('rR'), kk, i)
        elif t < 75:
            m = r.range(1, 5); tok = 'p,%d,%d,%d,%d' % (r.below(3), r.range(0, 3), m, r.below(m))
        elif t < 79: tok = 'v,%d' % (r.choice(present) if present and r.chance(4, 5) else k)
        elif t < 85: tok = '%s,%d' % (r.choice('kK'), (r.choice(present) if present and r.chance(4, 5) else k))
        elif t < 88: tok = 't,%d,%d' % ((r.choice(present) if present else k), r.below(50))
        elif t < 89: tok = 'c'
        elif t < 93: tok = r.choice(['s', 's,1'])
        elif t < 96: tok = r.choice(['y', 'y,1'])
        elif t < 98: tok = r.choice(['Y', 'Y,1'])
        else: tok = r.choice(['m', 'm,1'])
        if inj and tok[0] in 'aArRK' and tok[1] == ',' and r.chance(1, 3): tok = tok[0] + '!' + tok[1:]
        ops.append(tok); sh.apply(tok)
    return ops


def gen_cases(ctx, scale):
    r = ctx.rng
    cases = []
    # aimed: every M x bucket, both value types: pool walk / heap growth / shrink chain
    for M in MS:
        for b in BUCKETS:
            for vt in ('i', 's'):
                for rep in range(4 * scale):
                    cases.append(header(r, M, b, vt) + ' ' + ' '.join(gen_growshrink(r, M, b, vt, False)))
        for rep in range(3 * scale):
            cases.append(header(r, M, None, 'i') + ' ' + ' '.join(gen_growshrink(r, M, None, 'i', True)))
    # random histories: few keys with many values, and many keys (hash table growth, collisions)
    for i in range(1500 * scale):
        shape = r.below(4)
        if shape == 0: nkeys, nops = r.range(1, 3), r.range(30, 90)
        elif shape == 1: nkeys, nops = r.range(3, 8), r.range(30, 80)
        elif shape == 2: nkeys, nops = r.range(20, 60), r.range(40, 100)
        else: nkeys, nops = r.range(1, 6), r.range(5, 25)
        cases.append(header(r) + ' ' + ' '.join(gen_random(r, nkeys, nops, shape == 2)))
    return cases


# ----------------------------------------------------------------------------- the property predicate on impl output
REC = re.compile(r'n=(\d+) kc=(\d+) ((?:\{[^}]*\})*) T=((?:\([^)]*\))*)')

def check_dump(d):
    m = REC.fullmatch(d.strip())
    if not m: return 'unparsable dump %r' % d[:80]
    n, kc = int(m.group(1)), int(m.group(2))
    ents = re.findall(r'\{(-?\d+):(-?\d+):([^:]*):([^}]*)\}', m.group(3))
    pairs = []; tot = 0; keys = set()
    for k, t, rep, vs in ents:
        vals = [int(x) for x in vs.split(',')] if vs else []
        tot += len(vals)
        if int(k) in keys: return 'duplicate key %s' % k
        keys.add(int(k))
        pairs += [(int(k), v) for v in vals]
        if rep == 'N':
            if vals: return 'null array with values'
        elif rep[0] == 'F':
            st, pool, cnt = map(int, rep[1:].split('.'))
            if not (cnt == len(vals) and 1 <= cnt <= pool and st == pool * 16 + cnt): return 'fast repr %s vs %d values' % (rep, len(vals))
        elif rep[0] == 'H':
            cap, cnt = map(int, rep[1:].split('.'))
            if not (cnt == len(vals) and 1 <= cnt <= cap): return 'heap repr %s vs %d values' % (rep, len(vals))
        else: return 'unknown repr %s' % rep
    if tot != n: return 'GetCount %d != sum of per-key counts %d' % (n, tot)
    if kc != len(ents): return 'GetKeyCount %d != number of keys %d' % (kc, len(ents))
    tr = [(int(a), int(b)) for a, b in re.findall(r'\((-?\d+),(-?\d+)\)', m.group(4))]
    if tr != pairs: return 'pair traversal != per-key value arrays'
    return None


def oracle(ctx, cases, impl_lines):
    bad = []
    for c, out in zip(cases, impl_lines):
        if 'ORACLE-FAIL' in out:
            bad.append((c, out[-400:], 'twin oracle: ' + out[out.index('ORACLE-FAIL'):][:200])); continue
        if c.startswith('mm '):
            why = None
            for rec in out.split('|'):
                parts = rec.split(';')
                for d in parts[1:]:
                    why = check_dump(d)
                    if why: break
                if why: break
            if why: bad.append((c, out[-400:], why)); continue
            if ':H' in out and ':N:}' in out: ctx.nontrivial.add(c)
        elif c.startswith('um '):
            if 'eqT' in out or 'er' in out: ctx.nontrivial.add(c)
    return bad


def M_of(case):
    w = case.split()
    return int(w[2]) if w[0] == 'mm' else 0


def _src_hash(ctx, src, flags):
    """hash of everything the harness binary depends on: harness source, private_access.h, every momo header, flags"""
    import hashlib
    h = hashlib.sha256()
    h.update(open(os.path.join(ctx.pdir, src), 'rb').read())
    h.update(open(os.path.join(ctx.root, 'harness', 'private_access.h'), 'rb').read())
    h.update(open(os.path.join(ctx.root, 'harness', 'kit.h'), 'rb').read())
    h.update(repr(flags).encode()); h.update(ctx.tier.encode())
    inc = os.path.join(ctx.repo, 'include')
    for dp, dn, fn in sorted(os.walk(inc)):
        dn.sort()
        for f in sorted(fn):
            fp = os.path.join(dp, f)
            h.update(os.path.relpath(fp, inc).encode()); h.update(open(fp, 'rb').read())
    return h.hexdigest()[:14]


def build(ctx):
    """build (or reuse: the binary name carries the hash of all its inputs, incl. every header of the repo in use)"""
    g0 = ['-g0'] if ctx.quick() else []      # debug info doubles the compile time of these template-heavy TUs
    jobs = [('harness.cpp', 'harness_m%d' % M, ['-DHM_LIST=X(%d)' % M] + g0) for M in MS]
    jobs.append(('harness_um.cpp', 'harness_um', g0))
    exes = {}; todo = []; names = {}
    for src, exe, fl in jobs:
        name = '%s_%s' % (exe, _src_hash(ctx, src, fl))
        names[exe] = name
        path = os.path.join(ctx.build, name + ('.san' if not ctx.quick() else ''))
        if os.path.exists(path) and os.environ.get('VERIF_NO_CACHE') != '1':
            exes[exe] = path
        else:
            todo.append((src, name, fl))
    if todo:
        res = ctx.cxx_many(todo)
        for src, exe, fl in jobs:
            if exe not in exes: exes[exe] = res.get(names[exe])
    # drop stale binaries of other hashes (keep the directory small)
    keep = set(os.path.basename(p) for p in exes.values() if p)
    for f in os.listdir(ctx.build):
        if f.startswith('harness_') and f not in keep and f.endswith('.san') == (not ctx.quick()) and os.path.isfile(os.path.join(ctx.build, f)) and os.environ.get('VERIF_REPO') is None:
            try: os.remove(os.path.join(ctx.build, f))
            except OSError: pass
    ctx.coverage['harness_cache'] = {'rebuilt': [t[1] for t in todo], 'reused': len(jobs) - len(todo)}
    out = {M: exes.get('harness_m%d' % M) for M in MS}
    out[0] = exes.get('harness_um')
    missing = [k for k, v in out.items() if v is None]
    if missing:
        ctx.stage('build-harness', False, 'harness for %s does not build:\n%s' % (missing, getattr(ctx, 'last_cxx_error', '')))
    return out


def replay(ctx, rp):
    case = rp.get('case')
    if not case:
        print('replay has no concrete case (no-failing-input-found): broken stages were', list(rp.get('broken', {}).keys())); return 1
    M = M_of(case)
    h = build(ctx).get(M)
    if h is None:
        print('harness does not build'); return 2
    path = os.path.join(ctx.build, 'replay.cases'); open(path, 'w').write(case + '\n')
    rc, lines, err = ctx.run_lines([h], path)
    print('case:', case, '\nimplementation:', lines[0] if lines else err[-500:])
    bad = oracle(ctx, [case], lines) if rc == 0 and lines else [(case, err, 'harness crashed')]
    model = None
    if ctx.prove() and ctx.extract():
        rc2, l2, e2 = ctx.run_lines([ctx.model_exe], path)
        model = l2[0] if l2 else None
        print('model:         ', model)
    if bad or (model is not None and lines and model != lines[0]):
        print('VIOLATION property=C08 replay=%s' % ctx.replay); return 1
    print('property holds on this case'); return 0


def run(ctx):
    scale = 1 if ctx.quick() else 6
    ctx.trusted += ['hand-written Gallina models (ArrayBucketModel.v, MultiMapModel.v, WrapperModel.v) mirror the C++ by reading; '
                    'bound to the code only by the differential run of their extracted OCaml against the real containers on every check',
                    'extraction: ExtrOcamlBasic only (no Extract Constant), OCaml 4.13.1, zarith for decimal I/O only',
                    'g++ 12 -std=c++17, harness reaches private members (ArrayBucket::mPtr state, nested HashMap) via #define private public',
                    'independent oracle: std::map<int,{tag,std::vector}> twin / std::unordered_multimap inside the harness + dump predicate in prop.py']
    ctx.assumptions += ['no allocation failure and no throwing key/value operations (exception paths of RemoveKey/Add belong to C04)',
                        'capacities stay far below SIZE_MAX (GrowCapacity overflow not modelled)',
                        'the hash function and equality are consistent (equal ids hash equally); keys are (id, tag) compared by id',
                        'calls violating a documented precondition (absent key iterator, value index out of range) are not made',
                        'the order of keys in GetKeyBounds / traversal is the hash table order and is not modelled (outputs are grouped by key)']
    ctx.prove()
    exes = build(ctx)
    cases = gen_cases(ctx, scale)
    um_cases = gen_um_cases(ctx, scale) if exes.get(0) else []
    have_model = ctx.stages.get('prove', {}).get('ok') and ctx.extract()
    if any(not s['ok'] for s in ctx.stages.values()):
        ctx.log('a stage broke: searching the implementation for a failing input with the thorough generator')
        cases = cases + gen_cases(ctx, 4)
    groups = [(M, [c for c in cases if M_of(c) == M]) for M in MS] + [(0, um_cases)]
    total_bad = []; injected_total = [0, 0, 0, 0]
    for M, cs in groups:
        h = exes.get(M)
        if h is None or not cs: continue
        name = ('mm-M%d' % M) if M else 'wrapper'
        impl_lines = None
        if have_model:
            mism, (rc1, e1, rc2, e2) = ctx.correspond(name, cs, [h], [ctx.model_exe])
            ctx.tie_obligations.append({'name': 'extracted model == real C++ (%s) on %d op scripts' % (name, len(cs)), 'ok': not mism and rc1 == 0 and rc2 == 0})
            for (i, c, a, b) in mism[:2]:
                # first differing record
                ra, rb = a.split('|'), b.split('|')
                j = next((x for x in range(min(len(ra), len(rb))) if ra[x] != rb[x]), min(len(ra), len(rb)))
                ctx.violation('model and implementation disagree at op %d' % j,
                              {'case': c, 'op_index': j, 'impl': ra[j] if j < len(ra) else '<missing>', 'model': rb[j] if j < len(rb) else '<missing>',
                               'cmd': 'echo "%s" | %s' % (c, h)}, found_input=True)
        path = os.path.join(ctx.build, name + '.oracle.cases')
        open(path, 'w').write('\n'.join(cs) + '\n')
        rc, lines, err = ctx.run_lines([h], path)
        mi = re.search(r'injected=(\d+) add_throw=(\d+) shrink_swallowed=(\d+) removekey_rollback=(\d+)', err or '')
        if mi:
            for q in range(4): injected_total[q] += int(mi.group(q + 1))
        if not have_model: ctx.evaluations += len(cs)
        bad = oracle(ctx, cs, lines) if rc == 0 and len(lines) == len(cs) else [(cs[min(len(lines), len(cs) - 1)], err[-400:], 'harness crashed (rc=%d) after %d cases' % (rc, len(lines)))]
        total_bad += bad
    ctx.stage('oracle', not total_bad, total_bad[0][2] if total_bad else '')
    for (c, out, why) in total_bad[:3]:
        M = M_of(c)
        ctx.violation(why, {'case': c, 'impl_output_tail': out, 'cmd': 'echo "%s" | %s' % (c, exes.get(M))}, found_input=True)
    allc = cases + um_cases
    for c in allc[::max(1, len(allc) // 6)][:6]:
        ctx.add_sample(c[:300])
    dist = {}
    for c in cases:
        for tok in c.split()[5:]:
            dist[tok[0]] = dist.get(tok[0], 0) + 1
    ctx.coverage['injected_failures_fired'] = dict(zip(['total', 'add_threw_bad_alloc', 'shrink_failure_swallowed', 'removekey_rolled_back'], injected_total))
    ctx.coverage['input_distribution'] = {'mm_cases': len(cases), 'wrapper_cases': len(um_cases), 'mm_op_histogram': dist,
                                          'configs': 'buckets %s x maxFastCount %s x value types int64/std::string x 5 hash functions' % (BUCKETS, MS)}
    return ctx.finish(rule=RULE)


UM_CFG = [('L', 7), ('O8', 2), ('O2', 1)]

def gen_um_cases(ctx, scale):
    r = ctx.rng
    cases = []
    for ci in range(700 * scale):
        b, M = r.choice(UM_CFG)
        K = r.choice([2, 3, 4, 8])
        wide = r.chance(1, 6)
        ident = r.chance(1, 3)      # keys with identity: equivalent keys that are not ==
        cur = {}; oth = {}; ops = []; nv = 0
        for _ in range(r.range(8, 45)):
            t = r.below(100)
            k = r.below(K if not wide else 30)
            keys = [x for x in cur if cur[x]]
            kk = r.choice(keys) if keys and r.chance(5, 6) else k
            if t < 38:
                nv += 1; v = nv if r.chance(3, 4) else r.range(0, nv)
                tok = ('i,%d,%d' % (k, v)) if not ident or r.chance(1, 2) else ('j,%d,%d,%d' % (k, r.below(3), v))
                cur.setdefault(k, []).append(v)
            elif t < 44: tok = 'e,%d' % kk; cur.pop(kk, None)
            elif t < 54:
                L = len(cur.get(kk, [])); i = r.below(L) if L else 0
                tok = 'x,%d,%d' % (kk, i)
                if L: cur[kk].pop()     # only the count matters for aiming
            elif t < 60: tok = 'q,%d' % kk; cur.pop(kk, None)
            elif t < 70:
                L = len(cur.get(kk, []))
                if L == 0: tok = 'g,%d,0,1' % kk
                else:
                    sh = r.below(4)
                    if sh == 0: i, j = 0, L
                    elif sh == 1: i = r.below(L); j = i + 1
                    else: i = r.below(L); j = r.range(i + 1, L)
                    tok = 'g,%d,%d,%d' % (kk, i, j)
                    if i == 0 and j == L: cur.pop(kk)
                    elif j == i + 1: cur[kk].pop()
            elif t < 72: tok = 'w'; cur = {}
            elif t < 82:
                m = r.range(1, 4); a, bb, rr = r.below(3), r.range(0, 2), r.below(m)
                tok = 'f,%d,%d,%d,%d' % (a, bb, m, rr)
                cur = {x: [v for v in vs if (a * x + bb * v) % m != rr] for x, vs in cur.items()}
            elif t < 84: tok = 'c'; cur = {}
            elif t < 92: tok = 'y'; oth = {x: list(v) for x, v in cur.items()}
            elif t < 95: tok = 'Y'; cur = {x: list(v) for x, v in oth.items()}
            else: tok = r.choice(['s', 's,1']); cur, oth = oth, cur
            ops.append(tok)
            # after erase_if / erase leaving different shapes, compare with a copy made earlier: do it often
            if r.chance(1, 10): ops.append('y'); oth = {x: list(v) for x, v in cur.items()}
        cases.append('um %s %d %d %d %s' % (b, M, r.choice([0, 0, 1, 2, 3, 4]), K, ' '.join(ops)))
    # aimed: erase_if leaving value-less keys on one side, then ==
    for ci in range(60 * scale):
        b, M = r.choice(UM_CFG)
        n1, n2 = r.range(1, 5), r.range(1, 5)
        ops = ['i,0,%d' % (2 * i) for i in range(n1)] + ['i,1,%d' % (2 * i + 1) for i in range(n2)]
        r.shuffle(ops)
        ops += ['y', 'f,0,1,2,1', 's', 'e,1', 's'] + (['i,1,1', 'e,1'] if r.chance(1, 2) else []) + ['f,0,1,2,0', 's', 'e,0', 'i,0,0', 's', 'i,0,0']
        cases.append('um %s %d %d 3 %s' % (b, M, r.choice([0, 1, 3]), ' '.join(ops)))
    # aimed: same (class, value) pairs but different key identities -> != ; identity kept by later inserts
    for ci in range(30 * scale):
        b, M = r.choice(UM_CFG)
        t1, t2 = r.below(3), r.below(3)
        vals = [r.below(6) for _ in range(r.range(1, 4))]
        ops = ['j,0,%d,%d' % (t1, v) for v in vals] + ['s'] + ['j,0,%d,%d' % (t2, v) for v in vals] + ['s', 'j,1,0,9', 's', 'j,1,0,9', 's']
        ops += ['e,0', 'j,0,%d,%d' % (t2, vals[0])] + ['i,0,%d' % v for v in vals[1:]] + ['f,0,1,1,0', 'j,0,%d,7' % r.below(3), 's', 'c', 'j,0,%d,7' % r.below(3)]
        cases.append('um %s %d %d 3 %s' % (b, M, r.choice([0, 1, 3]), ' '.join(ops)))
    return cases


RULE = ('cases = aimed pool-walk/heap-growth/shrink-chain scripts for every maxFastCount in {1,2,3,4,7,15} x bucket {LimP4,Open8,Open2N2} x '
        '{int64,std::string} + random histories of all operations (1..60 keys, up to ~200 values per key, 5 hash functions incl. constant) '
        'incl. copy/move/swap + wrapper scripts; distinct = distinct case line; non-trivial = a HashMultiMap history in which a heap value '
        'array and a value-less key both occur, or a wrapper script exercising == / erase-range')
