(* Extraction of the hand-written executable model (T-cor for C11). ExtrOcamlBasic only. *)
From Coq Require Import ZArith List Extraction ExtrOcamlBasic.
From MomoCommon Require Import GenPrelude.
From C11 Require GrowModel Gen_PolicyBase Gen_PolicyOpen2N2 Gen_PolicyOpen8 Gen_IndexBase Gen_IndexOpen2N2 Gen_IndexOpen8 Gen_Buckets Gen_HashSetGrow Gen_Open2N2 Gen_Open2N2_ops Gen_OpenN1 Gen_OpenN1_ops Gen_P4 Gen_P4A Gen_One Gen_HashSetMove.
Separate Extraction GrowModel.cfg_step GrowModel.cfg_init GrowModel.cfg_shape GrowModel.cfg_find GrowModel.cfg_traverse
  GrowModel.gens GrowModel.count GrowModel.capacity
  Gen_PolicyBase.CalcCapacity Gen_PolicyBase.GetBucketCountShift Gen_PolicyOpen2N2.CalcCapacity Gen_PolicyOpen2N2.GetBucketCountShift
  Gen_PolicyOpen8.CalcCapacity Gen_PolicyOpen8.GetBucketCountShift Gen_IndexBase.GetStartBucketIndex Gen_IndexBase.GetNextBucketIndex
  Gen_IndexOpen2N2.GetNextBucketIndex Gen_IndexOpen8.GetNextBucketIndex Gen_Buckets.GetCount
  Gen_HashSetGrow.Reserve_loop0 Gen_HashSetGrow.pvAddGrow_loop0 Gen_HashSetGrow.pvGetNewLogBucketCount Gen_HashSetGrow.fuel_of_Reserve
  Gen_Open2N2_ops.pvSetEmpty Gen_Open2N2_ops.AddCrt Gen_Open2N2_ops.Remove Gen_Open2N2_ops.UpdateMaxProbe Gen_Open2N2_ops.Clear Gen_Open2N2_ops.pvGetCount Gen_Open2N2_ops.IsFull
  Gen_OpenN1_ops.pvSetEmpty Gen_OpenN1_ops.AddCrt Gen_OpenN1_ops.Remove Gen_OpenN1_ops.Clear Gen_OpenN1_ops.pvGetCount Gen_OpenN1_ops.IsFull Gen_OpenN1.UpdateMaxProbe
  Gen_P4A.AddCrt Gen_P4A.Remove Gen_P4A.Clear Gen_P4A.IsFull Gen_P4A.WasFull Gen_P4A.pvGetCount Gen_P4A.pvSetEmpty Gen_P4A.pvGetMemPoolIndex
  Gen_One.AddCrt Gen_One.Remove Gen_One.Clear Gen_One.IsFull Gen_One.WasFull
  Gen_HashSetMove.pvAddNogrow Gen_HashSetMove.pvAddNogrow_loop0 Gen_HashSetMove.pvRelocateItems_b_loop0.
