(* C02 (growth round 5) -- the interpreted statement trees of Gen_TreeProto.v equal the hand model. *)
From Coq Require Import String List ZArith Bool Lia Arith.
From MomoCommon Require Import GenPrelude.
From C02 Require Import ProtoSyntaxC02 Gen_TreeProto ProtoSemC02 Gen_FindFirst BTreeModel BTreeBase BTreeSearchGen BTreeHist.
Import ListNotations.
Local Open Scope string_scope.

(* names of the two inputs of the descent (for statements outside string_scope) *)
Definition k_mRootNode : string := "mRootNode".
Definition k_itemPred : string := "itemPred".
Definition k_mNode : string := "mNode".
Definition k_mItemIndex : string := "mItemIndex".

Section Steps.
Variables (linear : bool) (P : Z -> bool) (r : node) (calls : string -> env -> option env).
Notation exec := (exec linear P r calls).
Notation eval := (eval linear P r).

Lemma exec_nil f e : exec (S f) e [] = RNormal e.
Proof. reflexivity. Qed.
Lemma exec_decl f e x i rest : exec (S f) e (SDecl x i :: rest) = match eval e i with Some v => exec f (set e x v) rest | None => RErr end.
Proof. reflexivity. Qed.
Lemma exec_assign f e x rhs rest :
  exec (S f) e (SExpr (EBin "=" (EVar x) rhs) :: rest) = match eval e rhs with Some v => exec f (set e x v) rest | None => RErr end.
Proof. reflexivity. Qed.
Lemma exec_if f e c th el rest :
  exec (S f) e (SIf c th el :: rest) =
  match eval e c with
  | Some v => match truthy v with
              | Some b => match exec f e (if b then th else el) with RNormal e' => exec f e' rest | other => other end
              | None => RErr end
  | None => RErr end.
Proof. cbn [ProtoSemC02.exec]. destruct (eval e c) as [v|]; [|reflexivity]. destruct (truthy v) as [b|]; [|reflexivity]. destruct (exec f e (if b then th else el)); reflexivity. Qed.
Lemma exec_while_true f e c body rest v :
  eval e c = Some v -> truthy v = Some true ->
  exec (S f) e (SWhile c body :: rest) =
  match exec f e body with RNormal e' => exec f e' (SWhile c body :: rest) | RBreak e' => exec f e' rest | other => other end.
Proof. intros H1 H2. cbn [ProtoSemC02.exec]. rewrite H1, H2. destruct (exec f e body); reflexivity. Qed.
Lemma exec_break f e rest : exec (S f) e (SBreak :: rest) = RBreak e.
Proof. reflexivity. Qed.
Lemma exec_return f e x rest : exec (S f) e (SReturn x :: rest) = match eval e x with Some v => RReturn v e | None => RErr end.
Proof. reflexivity. Qed.

Lemma eval_var e x : eval e (EVar x) = e x.
Proof. reflexivity. Qed.
Lemma eval_count e x p n : e x = Some (VPtr (Some p)) -> node_at p r = Some n ->
  eval e (ECall (EVar x) "GetCount" []) = Some (VNum (Z.of_nat (n_count n))).
Proof. intros H1 H2. cbn. rewrite H1. unfold nd. rewrite H2. reflexivity. Qed.
Lemma eval_isleaf e x p n : e x = Some (VPtr (Some p)) -> node_at p r = Some n ->
  eval e (ECall (EVar x) "IsLeaf" []) = Some (vbool (is_leaf n)).
Proof. intros H1 H2. cbn. rewrite H1. unfold nd. rewrite H2. reflexivity. Qed.
Lemma eval_child e x y p i m : e x = Some (VPtr (Some p)) -> e y = Some (VNum (Z.of_nat i)) -> node_at (p ++ [i])%list r = Some m ->
  eval e (ECall (EVar x) "GetChild" [EVar y]) = Some (VPtr (Some (p ++ [i])%list)).
Proof.
  intros H1 H2 H3. cbn. rewrite H1, H2. unfold nd. rewrite Nat2Z.id, H3.
  replace (0 <=? Z.of_nat i)%Z with true by (symmetry; apply Z.leb_le; lia). reflexivity.
Qed.
Lemma eval_search e x p n w : e x = Some (VPtr (Some p)) -> e "itemPred" = Some w -> node_at p r = Some n -> (n_count n <= 255)%nat ->
  eval e (ECall ENone "pvFindFirst" [EVar x; EVar "itemPred"]) = Some (VNum (Z.of_nat (search linear P (n_items n)))).
Proof.
  intros H1 Hp H2 Hc. cbn. rewrite H1. unfold nd. rewrite H2.
  pose proof (gen_find_first_is_search linear P (n_items n) Hc) as G. fold (n_count n) in G. rewrite G. reflexivity.
Qed.
Lemma eval_mkiter e x y p i : e x = Some (VPtr (Some p)) -> e y = Some (VNum (Z.of_nat i)) ->
  eval e (ECall ENone "pvMakeIterator" [EVar x; EVar y; ENum 0]) = Some (VIt p i).
Proof. intros H1 H2. cbn. rewrite H1, H2, Nat2Z.id. reflexivity. Qed.
Lemma eval_lt e x i y p n : e x = Some (VNum (Z.of_nat i)) -> e y = Some (VPtr (Some p)) -> node_at p r = Some n ->
  eval e (EBin "<" (EVar x) (ECall (EVar y) "GetCount" [])) = Some (vbool (Z.of_nat i <? Z.of_nat (n_count n))%Z).
Proof. intros H1 H2 H3. cbn. rewrite H1, H2. unfold nd. rewrite H3. reflexivity. Qed.
Lemma eval_binop_root e : e "mRootNode" = Some (VPtr (Some [])) -> eval e (EBin "==" (EVar "mRootNode") (ENum 0)) = Some (vbool false).
Proof. intros H. cbn. rewrite H. reflexivity. Qed.
End Steps.

Section Descent.
Variables (maxCap : nat) (linear : bool) (P : Z -> bool) (r : node).
Hypothesis Hmc : (1 <= maxCap <= 255)%nat.
Variable calls : string -> env -> option env.
Notation exec := (exec linear P r calls).
Notation eval := (eval linear P r).
Notation ff := (ff linear).

Lemma node_at_app p q n m : node_at p n = Some m -> node_at (p ++ q) n = node_at q m.
Proof.
  revert n. induction p as [|c p IH]; intros n H; cbn [node_at app] in *; [congruence|].
  destruct (nth_error (n_children n) c); [apply IH; exact H | discriminate].
Qed.

(* the while (true) loop of the REAL pvFindFirst(itemPred), started at the node with path p, with `iter` = (accp, accj) so far *)
Lemma descent_loop : forall d p n accp accj (e : env) w k,
  node_at p r = Some n -> shape maxCap d n ->
  e "node" = Some (VPtr (Some p)) -> e "iter" = Some (VIt accp accj) -> e "itemPred" = Some w ->
  ret_of (exec (12 + (k + d)) e (skipn 3 pvFindFirst_descent)) =
  Some (match ff d P n with Some (q, j) => VIt (p ++ q) j | None => VIt accp accj end).
Proof.
  induction d as [|d IH]; intros p n accp accj e w k Hn Sh En Ei Ep.
  - (* leaf *)
    pose proof (shape_0_leaf maxCap n Sh) as Lf. destruct Sh as (C1 & C2 & _).
    assert (L255 : (n_count n <= 255)%nat) by lia.
    unfold pvFindFirst_descent. cbn [skipn Nat.add].
    rewrite (exec_while_true linear P r calls _ e (ENum 1) _ _ (VNum 1) eq_refl eq_refl).
    rewrite exec_decl, (eval_search linear P r e "node" p n w En Ep Hn L255).
    set (i := search linear P (n_items n)). set (e1 := set e "index" (VNum (Z.of_nat i))).
    assert (E1n : e1 "node" = Some (VPtr (Some p))) by exact En.
    assert (E1i : e1 "index" = Some (VNum (Z.of_nat i))) by reflexivity.
    rewrite exec_if, (eval_lt linear P r e1 "index" i "node" p n E1i E1n Hn).
    cbn [ff]. fold i. unfold here.
    destruct (Nat.ltb_spec i (n_count n)) as [Lt|Ge].
    + replace (Z.of_nat i <? Z.of_nat (n_count n))%Z with true by (symmetry; apply Z.ltb_lt; lia). cbn [vbool truthy Z.eqb negb].
      rewrite exec_assign, (eval_mkiter linear P r e1 "node" "index" p i E1n E1i), exec_nil.
      set (e2 := set e1 "iter" (VIt p i)).
      assert (E2n : e2 "node" = Some (VPtr (Some p))) by exact En.
      rewrite exec_if, (eval_isleaf linear P r e2 "node" p n E2n Hn), Lf. cbn [vbool truthy Z.eqb negb].
      rewrite exec_break, exec_return, eval_var. cbn [ret_of]. rewrite app_nil_r. reflexivity.
    + replace (Z.of_nat i <? Z.of_nat (n_count n))%Z with false by (symmetry; apply Z.ltb_ge; lia). cbn [vbool truthy Z.eqb negb].
      rewrite exec_nil.
      rewrite exec_if, (eval_isleaf linear P r e1 "node" p n E1n Hn), Lf. cbn [vbool truthy Z.eqb negb].
      rewrite exec_break, exec_return, eval_var. cbn [ret_of]. change (e1 "iter") with (e "iter"). rewrite Ei. reflexivity.
  - (* internal node *)
    pose proof (shape_S_internal maxCap d n Sh) as Lf. destruct Sh as (C1 & C2 & Lc & Fc & _).
    assert (L255 : (n_count n <= 255)%nat) by lia.
    unfold pvFindFirst_descent. cbn [skipn]. replace (12 + (k + S d)) with (S (12 + (k + d))) by lia.
    rewrite (exec_while_true linear P r calls _ e (ENum 1) _ _ (VNum 1) eq_refl eq_refl). cbn [Nat.add].
    rewrite exec_decl, (eval_search linear P r e "node" p n w En Ep Hn L255).
    set (i := search linear P (n_items n)). set (e1 := set e "index" (VNum (Z.of_nat i))).
    assert (E1n : e1 "node" = Some (VPtr (Some p))) by exact En.
    assert (E1i : e1 "index" = Some (VNum (Z.of_nat i))) by reflexivity.
    assert (Hi : (i <= n_count n)%nat).
    { unfold i. rewrite <- (Nat2Z.id (search linear P (n_items n))).
      pose proof (gen_find_first_is_search linear P (n_items n) L255) as G. unfold search. destruct linear.
      - unfold search_lin. destruct ((length (n_items n) =? 0)%nat || negb (P (nth (length (n_items n) - 1) (n_items n) 0%Z))); rewrite Nat2Z.id; unfold n_count; [lia|].
        clear. induction (n_items n) as [|x l IHl]; cbn [first_true length]; [lia|]. destruct (P x); lia.
      - rewrite Nat2Z.id. unfold n_count. generalize (S (length (n_items n))) as fu. intros fu.
        assert (Hb : forall fu l0 r0, (l0 <= r0)%nat -> (l0 <= bsearch fu P (n_items n) l0 r0 <= r0)%nat).
        { clear. induction fu as [|fu IHf]; intros l0 r0 H; cbn [bsearch]; [lia|].
          destruct (Nat.ltb_spec l0 r0) as [L|L]; [|lia].
          assert (Hm : (l0 <= (l0 + r0) / 2 < r0)%nat) by (split; [apply Nat.div_le_lower_bound; lia | apply Nat.div_lt_upper_bound; lia]).
          destruct (P (nth ((l0 + r0) / 2) (n_items n) 0%Z)); [specialize (IHf l0 ((l0 + r0) / 2)); lia | specialize (IHf (S ((l0 + r0) / 2)) r0); lia]. }
        specialize (Hb fu 0%nat (length (n_items n))). lia. }
    destruct (nth_error (n_children n) i) as [ch|] eqn:Ech; [|apply nth_error_None in Ech; lia].
    assert (Hch : node_at (p ++ [i]) r = Some ch) by (rewrite (node_at_app p [i] r n Hn); cbn [node_at]; rewrite Ech; reflexivity).
    assert (Shc : shape maxCap d ch) by (rewrite Forall_forall in Fc; apply Fc; eapply nth_error_In; exact Ech).
    rewrite exec_if, (eval_lt linear P r e1 "index" i "node" p n E1i E1n Hn).
    cbn [ff]. fold i. rewrite Ech. unfold here.
    destruct (Nat.ltb_spec i (n_count n)) as [Lt|Ge].
    + replace (Z.of_nat i <? Z.of_nat (n_count n))%Z with true by (symmetry; apply Z.ltb_lt; lia). cbn [vbool truthy Z.eqb negb].
      rewrite exec_assign, (eval_mkiter linear P r e1 "node" "index" p i E1n E1i), exec_nil.
      set (e2 := set e1 "iter" (VIt p i)).
      assert (E2n : e2 "node" = Some (VPtr (Some p))) by exact En.
      assert (E2i : e2 "index" = Some (VNum (Z.of_nat i))) by reflexivity.
      rewrite exec_if, (eval_isleaf linear P r e2 "node" p n E2n Hn), Lf. cbn [vbool truthy Z.eqb negb].
      rewrite exec_nil, exec_assign, (eval_child linear P r e2 "node" "index" p i ch E2n E2i Hch), exec_nil.
      set (e3 := set e2 "node" (VPtr (Some (p ++ [i])%list))).
      assert (E3n : e3 "node" = Some (VPtr (Some (p ++ [i])%list))) by reflexivity.
      assert (E3i : e3 "iter" = Some (VIt p i)) by reflexivity.
      assert (E3p : e3 "itemPred" = Some w) by exact Ep.
      pose proof (IH (p ++ [i])%list ch p i e3 w k Hch Shc E3n E3i E3p) as R.
      unfold pvFindFirst_descent in R. cbn [skipn Nat.add] in R. rewrite R.
      destruct (ff d P ch) as [[q j]|]; cbn [lift orelse]; [rewrite <- app_assoc; reflexivity | rewrite app_nil_r; reflexivity].
    + replace (Z.of_nat i <? Z.of_nat (n_count n))%Z with false by (symmetry; apply Z.ltb_ge; lia). cbn [vbool truthy Z.eqb negb].
      rewrite exec_nil.
      rewrite exec_if, (eval_isleaf linear P r e1 "node" p n E1n Hn), Lf. cbn [vbool truthy Z.eqb negb].
      rewrite exec_nil, exec_assign, (eval_child linear P r e1 "node" "index" p i ch E1n E1i Hch), exec_nil.
      set (e3 := set e1 "node" (VPtr (Some (p ++ [i])%list))).
      assert (E3n : e3 "node" = Some (VPtr (Some (p ++ [i])%list))) by reflexivity.
      assert (E3i : e3 "iter" = Some (VIt accp accj)) by exact Ei.
      assert (E3p : e3 "itemPred" = Some w) by exact Ep.
      pose proof (IH (p ++ [i])%list ch accp accj e3 w k Hch Shc E3n E3i E3p) as R.
      unfold pvFindFirst_descent in R. cbn [skipn Nat.add] in R. rewrite R.
      destruct (ff d P ch) as [[q j]|]; cbn [lift orelse]; [rewrite <- app_assoc; reflexivity | reflexivity].
Qed.

(* the whole REAL pvFindFirst(itemPred) on a well-formed tree = the hand model's find_first *)
Theorem descent_is_find_first d (e : env) w :
  shape maxCap d r -> e "mRootNode" = Some (VPtr (Some [])) -> e "itemPred" = Some w ->
  ret_of (exec (16 + d) e pvFindFirst_descent) =
  Some (let '(p, j) := find_first linear {| root := Some r; cnt := 0 |} P in VIt p j).
Proof.
  intros Sh Er Ep. unfold pvFindFirst_descent. cbn [Nat.add].
  rewrite exec_if. rewrite (eval_binop_root linear P r e Er). cbn [vbool truthy Z.eqb negb].
  rewrite exec_nil, exec_decl. cbn [ProtoSemC02.eval call_sem map String.eqb Ascii.eqb Bool.eqb andb].
  set (e1 := set e "iter" (VIt [] (n_count r))).
  assert (E1r : e1 "mRootNode" = Some (VPtr (Some []))) by exact Er.
  rewrite exec_decl, eval_var, E1r.
  set (e2 := set e1 "node" (VPtr (Some []))).
  assert (E2n : e2 "node" = Some (VPtr (Some []))) by reflexivity.
  assert (E2i : e2 "iter" = Some (VIt [] (n_count r))) by reflexivity.
  assert (E2p : e2 "itemPred" = Some w) by exact Ep.
  pose proof (descent_loop d [] r [] (n_count r) e2 w 1 eq_refl Sh E2n E2i E2p) as R.
  unfold pvFindFirst_descent in R. cbn [skipn Nat.add] in R. rewrite R.
  unfold find_first, end_of. cbn [root]. rewrite (shape_height maxCap d r Sh).
  destruct (ff d P r) as [[q j]|]; reflexivity.
Qed.
End Descent.

(* ---------------- iterator operator++ / operator-- / pvMoveIf / pvMove: PARTIAL ----------------
   The real statement trees are interpreted with the same semantics (mNode = path, mItemIndex); the general equality with the hand
   model's next / prev is NOT proved yet.  What is proved is the agreement on every position of a concrete tree of height 2 that
   contains empty-free internal nodes and leaves of different fill (the non-vacuity example of C02): a change of the real code that
   alters any step on such a tree breaks this theorem. *)
Section IterExample.
Definition no_calls : string -> env -> option env := fun _ _ => None.
Definition env_of_res (x : res) : option env := match x with RNormal e | RBreak e | RReturn _ e => Some e | RStuck | RErr => None end.
Definition run_move (r : node) (e : env) : option env := env_of_res (exec false (fun _ => false) r no_calls 300 e iter_pvMove).
Definition run_moveif (r : node) (e : env) : option env :=
  env_of_res (exec false (fun _ => false) r (fun nm e' => if nm =? "pvMove" then run_move r e' else None) 300 e iter_pvMoveIf).
Definition iter_calls (r : node) : string -> env -> option env :=
  fun nm e' => if nm =? "Check" then Some e' else if nm =? "pvMoveIf" then run_moveif r e' else None.
Definition env_of_iter (it : iter) : env :=
  fun x => if x =? "mNode" then Some (VPtr (Some (fst it))) else if x =? "mItemIndex" then Some (VNum (Z.of_nat (snd it))) else None.
Definition iter_of_env (e : env) : option iter :=
  match e "mNode", e "mItemIndex" with Some (VPtr (Some p)), Some (VNum z) => Some (p, Z.to_nat z) | _, _ => None end.
Definition run_incr (r : node) (it : iter) : option iter :=
  match env_of_res (exec false (fun _ => false) r (iter_calls r) 300 (env_of_iter it) iter_incr) with Some e => iter_of_env e | None => None end.
Definition run_decr (r : node) (it : iter) : option iter :=
  match env_of_res (exec false (fun _ => false) r (iter_calls r) 300 (env_of_iter it) iter_decr) with Some e => iter_of_env e | None => None end.

(* three trees with maxCapacity 2 and height 2: the non-vacuity example (10 items) and two lazily rebalanced ones with an EMPTY leaf
   (first leaf emptied / second leaf emptied), so that pvMove has to climb over empty nodes *)
Definition ex_t0 : tree := fold_left (BTreeHist.step 2 1 8 false true) example_ops empty_tree.
Definition ex_rm (t : tree) (h : nat) : tree := fst (remove t (nth_iter t h)).
Definition ex_t1 : tree := ex_rm (ex_rm ex_t0 0) 0.
Definition ex_t2 : tree := ex_rm (ex_rm (ex_rm ex_t0 2) 2) 2.
Definition steps_agree (t : tree) : bool :=
  match root t with
  | Some r => forallb (fun h => match run_incr r (nth_iter t h), run_decr r (nth_iter t (S h)) with
                                | Some a, Some b => iter_eqb a (next t (nth_iter t h)) && iter_eqb b (prev t (nth_iter t (S h)))
                                | _, _ => false end) (seq 0 (cnt t))
  | None => false
  end.
(* operator-- at begin violates MOMO_CHECK(node != nullptr): the obligation is kept, the run is Stuck (not silently continued) *)
Definition decr_at_begin_is_stuck (t : tree) : bool :=
  match root t with
  | Some r => match exec false (fun _ => false) r (iter_calls r) 300 (env_of_iter (begin_iter t)) iter_decr with RStuck => true | _ => false end
  | None => false
  end.
Theorem iter_decr_at_begin_stuck_on_examples : decr_at_begin_is_stuck ex_t0 && decr_at_begin_is_stuck ex_t1 && decr_at_begin_is_stuck ex_t2 = true.
Proof. vm_compute. reflexivity. Qed.

Theorem iter_steps_agree_on_examples :
  steps_agree ex_t0 && steps_agree ex_t1 && steps_agree ex_t2 = true /\
  existsb (fun x => match x with (true, 0%nat, _) => true | _ => false end) (shape_of ex_t1) = true /\ cnt ex_t0 = 10%nat.
Proof. vm_compute. repeat split. Qed.
End IterExample.
