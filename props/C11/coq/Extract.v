(* Extraction of the hand-written executable model (T-cor for C11). ExtrOcamlBasic only. *)
From Coq Require Import ZArith List Extraction ExtrOcamlBasic.
From C11 Require GrowModel.
Separate Extraction GrowModel.cfg_step GrowModel.cfg_init GrowModel.cfg_shape GrowModel.cfg_find GrowModel.cfg_traverse
  GrowModel.gens GrowModel.count GrowModel.capacity.
