// C17 implementation side: the REAL momo::HashSorter (public API + private search functions), same case
// format as ocaml/driver.ml.  Every hash read / equalFunc call of the real code is logged as an index trace
// (functors see the address of the item, hash iterators see the index), so the model's reads are compared
// with the real reads, and every read index is checked against [0,count) independently of the model.
#include "private_access.h"
#include "momo/HashSorter.h"
using namespace momo;
typedef unsigned long long ull;

struct Item { uint64_t h; long long id; long long tag; };

static std::vector<long long> g_log;
static const Item* g_base = nullptr;
static const Item* g_query = nullptr;
static long long g_n = 0;
static bool g_oob = false;
static bool g_trace = true;
static bool g_coarse = false;   // variant letter in upper case: equalFunc compares id/2 (equal but distinguishable items)
static bool g_selfswap = false;

// the configuration this harness is meant to exercise (checked at compile time)
static_assert(std::is_same<HashSorter::HashCode, size_t>::value && sizeof(size_t) == 8, "64-bit hash codes");
static_assert(internal::RadixSorter<>::radixSize == 8, "HashSorter sorts with RadixSorter<8>");
static_assert(internal::RadixSorter<>::selectionSortMaxCount == 32, "selection sort up to 32 items");
static_assert(internal::RadixSorter<>::radixCount == 256, "256 buckets");

static long long idx_of(const Item* p)
{
	if (p == g_query) return -2;
	long long i = p - g_base;
	if (i < 0 || i >= g_n) g_oob = true;
	return i;
}
static void log_hash(long long i) { if (g_trace) g_log.push_back(4 * (i + 2)); }
static void log_eq(long long a, long long b) { if (g_trace) { g_log.push_back(4 * (a + 2) + 1); g_log.push_back(4 * (b + 2) + 2); } }

struct HF {   // plain variant: the hash function of an item
	size_t operator()(const Item& it) const { if (&it != g_query) log_hash(idx_of(&it)); return size_t(it.h); }
};
struct EQ {
	bool operator()(const Item& a, const Item& b) const { log_eq(idx_of(&a), idx_of(&b)); return g_coarse ? (a.id / 2 == b.id / 2) : (a.id == b.id); }
};
struct HashIt {   // prehashed variant: only operator[] is used by IterPrehashFunc for searching
	const uint64_t* p;
	size_t operator[](ptrdiff_t i) const { if (i < 0 || i >= g_n) g_oob = true; log_hash(i); return size_t(p[i]); }
};

static std::string trace_str()
{
	std::ostringstream os;
	if (g_log.size() <= 48) {
		for (size_t i = 0; i < g_log.size(); ++i) os << (i ? "," : "") << g_log[i];
	} else {
		long long d = 0;
		for (long long t : g_log) d = (d * 1000003 + t) % 1000000007LL;
		os << g_log.size() << ":" << d;
	}
	return os.str();
}

struct Arr {   // the array with one readable guard slot on both sides (an out-of-range read is flagged, not fatal)
	std::vector<Item> store; std::vector<uint64_t> hstore; Item query;
	Item* base() { return store.data() + 1; }
	uint64_t* hbase() { return hstore.data() + 1; }
	void read_pairs(std::istream& is, size_t n)
	{
		store.assign(n + 2, Item{ 0x5555555555555555ull, -7, -7 }); hstore.assign(n + 2, 0x5555555555555555ull);
		for (size_t i = 0; i < n; ++i) { ull h; long long id; is >> h >> id; store[i + 1] = Item{ h, id, (long long)i }; hstore[i + 1] = h; }
	}
	void arm(size_t n) { g_log.clear(); g_oob = false; g_base = base(); g_query = &query; g_n = (long long)n; }
};

static void print_res(const std::string& res)
{
	printf("%s%s | %s\n", g_oob ? "OOB " : "", res.c_str(), trace_str().c_str());
}

int main()
{
	std::string line;
	while (std::getline(std::cin, line))
	{
		std::istringstream is(line); std::string cmd; is >> cmd;
		if (cmd == "MS") { ull a, b; is >> a >> b; printf("%llu\n", ull(HashSorter::pvMultShift(a, b))); }
		else if (cmd == "SC") { ull a; is >> a; printf("%llu\n", ull(HashSorter::pvGetStepCount(a))); }
		else if (cmd == "CMP") { ull a, b; is >> a >> b; printf("%d\n", HashSorter::pvCompare(a, b)); }
		else if (cmd == "FH" || cmd == "F" || cmd == "B" || cmd == "S")
		{
			std::string var; size_t n; is >> var >> n; Arr a; a.read_pairs(is, n);
			ull qh = 0; long long qi = 0; if (cmd != "S") is >> qh >> qi;
			a.query = Item{ qh, qi, -1 }; a.arm(n); g_trace = true;
			g_coarse = (var == "P" || var == "H");
			bool pre = (var == "p" || var == "P"); HashIt hit{ a.hbase() }; Item* b = a.base();
			std::ostringstream os;
			if (cmd == "FH")
			{
				if (pre) { auto r = HashSorter::pvFindHash(b, n, size_t(qh), HashSorter::IterPrehashFunc<Item*, HashIt>(b, hit)); os << (r.iterator - b) << " " << int(r.found); }
				else { HF hf; auto r = HashSorter::pvFindHash(b, n, size_t(qh), HashSorter::IterHashFunc<HF>(hf)); os << (r.iterator - b) << " " << int(r.found); }
			}
			else if (cmd == "F")
			{
				auto r = pre ? HashSorter::FindPrehashed(b, n, hit, a.query, size_t(qh), EQ()) : HashSorter::Find(b, n, a.query, HF(), EQ());
				os << (r.iterator - b) << " " << int(r.found);
			}
			else if (cmd == "B")
			{
				auto r = pre ? HashSorter::GetBoundsPrehashed(b, n, hit, a.query, size_t(qh), EQ()) : HashSorter::GetBounds(b, n, a.query, HF(), EQ());
				os << (r.GetBegin() - b) << " " << (r.GetEnd() - b);
			}
			else
			{
				bool r = pre ? HashSorter::IsSortedPrehashed(b, n, hit, EQ()) : HashSorter::IsSorted(b, n, HF(), EQ());
				os << int(r);
			}
			print_res(os.str());
		}
		else if (cmd == "SORT" || cmd == "CHK")
		{
			std::string var; size_t n; is >> var >> n; Arr a; a.read_pairs(is, n);
			a.query = Item{ 0, 0, -1 }; a.arm(n); g_trace = false;
			g_coarse = (var == "P" || var == "H");
			bool pre = (var == "p" || var == "P"); Item* b = a.base();
			if (pre) HashSorter::SortPrehashed(b, n, a.hbase(), EQ());
			else HashSorter::Sort(b, n, HF(), EQ());
			if (pre) for (size_t i = 0; i < n; ++i) b[i].h = a.hbase()[i];   // report the parallel hash array
			bool srt = pre ? HashSorter::IsSortedPrehashed(b, n, HashIt{ a.hbase() }, EQ()) : HashSorter::IsSorted(b, n, HF(), EQ());
			bool guards = a.store[0].id == -7 && a.store[n + 1].id == -7 && a.hstore[0] == 0x5555555555555555ull && a.hstore[n + 1] == 0x5555555555555555ull;
			if (cmd == "SORT")
			{
				std::ostringstream os;
				for (size_t i = 0; i < n; ++i) os << ull(b[i].h) << " " << b[i].id << " " << b[i].tag << " ";
				printf("%s%s| %d\n", (g_oob || !guards) ? "OOB " : "", os.str().c_str(), int(srt));
			}
			else
			{	// CHK: the recorded output (second half of the line) must be what Sort produces; print perm-flag sorted-flag
				bool same = true;
				for (size_t i = 0; i < n; ++i) { ull h; long long id; is >> h >> id; if (!is || h != b[i].h || id != b[i].id) same = false; }
				printf("%d %d\n", int(same && guards && !g_oob), int(srt));
			}
		}
		else if (cmd == "HSORT")
		{	// real Sort / SortPrehashed with a logging iterSwapper: final arrangement | swap trace
			std::string var; size_t n; is >> var >> n; Arr a; a.read_pairs(is, n);
			a.query = Item{ 0, 0, -1 }; a.arm(n); g_trace = false; g_selfswap = false;
			g_coarse = (var == "P" || var == "H");
			bool pre = (var == "p" || var == "P"); Item* b = a.base();
			auto swapper = [b] (Item* x, Item* y) { if (x == y) g_selfswap = true; g_log.push_back((x - b) * 100000 + (y - b)); std::iter_swap(x, y); };
			if (pre) HashSorter::SortPrehashed(b, n, a.hbase(), EQ(), swapper);
			else HashSorter::Sort(b, n, HF(), EQ(), swapper);
			if (pre) for (size_t i = 0; i < n; ++i) b[i].h = a.hbase()[i];
			std::ostringstream os;
			for (size_t i = 0; i < n; ++i) os << ull(b[i].h) << " " << b[i].id << " ";
			printf("%s%s%s| %s\n", g_oob ? "OOB " : "", g_selfswap ? "SELFSWAP " : "", os.str().c_str(), trace_str().c_str());
		}
		else if (cmd == "GS")
		{	// IsSorted / IsSortedPrehashed, result only (compared with the GENERATED pvIsSorted)
			std::string var; size_t n; is >> var >> n; Arr a; a.read_pairs(is, n);
			a.query = Item{ 0, 0, -1 }; a.arm(n); g_trace = false; g_coarse = (var == "P" || var == "H");
			bool pre = (var == "p" || var == "P"); Item* b = a.base();
			bool r = pre ? HashSorter::IsSortedPrehashed(b, n, HashIt{ a.hbase() }, EQ()) : HashSorter::IsSorted(b, n, HF(), EQ());
			printf("%s%d\n", g_oob ? "OOB " : "", int(r));
		}
		else if (cmd == "IPF")
		{	// the iterator -> hash adaptors: IterHashFunc (plain), IterPrehashFunc forward and reverse_iterator overloads.  IPF v n pairs i
			std::string var; size_t n; is >> var >> n; Arr a; a.read_pairs(is, n); size_t i; is >> i;
			a.query = Item{ 0, 0, -1 }; a.arm(n); g_trace = false; Item* b = a.base();
			HF hf; HashSorter::IterHashFunc<HF> ih(hf);
			HashSorter::IterPrehashFunc<Item*, const uint64_t*> ip(b, a.hbase());
			printf("%llu %llu %llu%s\n", ull(ih(b + i)), ull(ip(b + i)), ull(ip(std::reverse_iterator<Item*>(b + i + 1))), g_oob ? " OOB" : "");
		}
		else if (cmd == "BIGM")
		{	// one FindPrehashed + GetBoundsPrehashed on a formula-defined array of n items (also computable by the model
			// driver): BIGM n pos mode ; item i has id i/2, ids 3k and 3k+1 share the hash 3k * 2 * floor((2^64-1)/n)
			static size_t cn = 0; static bool cquad = false; static std::vector<Item> cv; static std::vector<uint64_t> chs;
			size_t n, pos; int mode; is >> n >> pos >> mode; bool quad = mode >= 10; mode %= 10;   // mode >= 10: hashes grow quadratically (interpolation misses)
			if (cn != n || cquad != quad) { cn = n; cquad = quad; cv.assign(n + 2, Item{ 0x5555555555555555ull, -7, -7 }); chs.assign(n + 2, 0x5555555555555555ull);
				ull step = quad ? (~0ull) / n / n : (~0ull) / n;
				for (size_t i = 0; i < n; ++i) { ull id = i / 2, hid = id - (id % 3 == 1 ? 1 : 0); ull h = quad ? hid * 2 * (hid * 2) * step : hid * 2 * step; cv[i + 1] = Item{ h, (long long)id, (long long)i }; chs[i + 1] = h; } }
			Item* b = cv.data() + 1; Item query = b[pos];
			if (mode == 1) query.id = 1000000000000LL; if (mode == 2) { query.h += 1; query.id = 1000000000001LL; }
			g_log.clear(); g_oob = false; g_base = b; g_query = &query; g_n = (long long)n; g_trace = true; g_coarse = false;
			HashIt hit{ chs.data() + 1 };
			auto r = HashSorter::FindPrehashed(b, n, hit, query, size_t(query.h), EQ());
			auto bd = HashSorter::GetBoundsPrehashed(b, n, hit, query, size_t(query.h), EQ());
			std::ostringstream os; os << (r.iterator - b) << " " << int(r.found) << " " << (bd.GetBegin() - b) << " " << (bd.GetEnd() - b);
			print_res(os.str());
		}
		else if (cmd == "BIGFIND")
		{	// arrays too large for a case line (pvGetStepCount = 3 needs >= 2^22 items): built here, checked here against
			// std::lower_bound / a linear scan of the hash run.  BIGFIND n seed kind
			size_t n; ull seed; std::string kind; is >> n >> seed >> kind;
			std::vector<Item> v(n + 2); std::vector<uint64_t> hs(n + 2);
			auto rnd = [&seed] () { seed += 0x9E3779B97F4A7C15ull; ull z = seed; z = (z ^ (z >> 30)) * 0xBF58476D1CE4E5B9ull; z = (z ^ (z >> 27)) * 0x94D049BB133111EBull; return z ^ (z >> 31); };
			ull step = n ? (~0ull) / n : 0;
			for (size_t i = 0; i < n; ++i)
			{	// item id i/2 (pairs of equal items), every third id shares its hash with the next id
				ull id = i / 2, hid = id - (id % 3 == 1 ? 1 : 0);
				ull h = (kind == "uniform") ? hid * 2 * step : (kind == "low") ? hid : (kind == "skew") ? (id * 2 < n - n / 8 ? hid : ~0ull - (n - hid)) : hid * 2 * step;
				v[i + 1] = Item{ h, (long long)id, (long long)i }; hs[i + 1] = h;
			}
			v[0] = v[n + 1] = Item{ 0x5555555555555555ull, -7, -7 };
			Item* b = v.data() + 1; Arr dummy; (void)dummy;
			g_base = b; g_n = (long long)n; g_oob = false; g_trace = false; g_coarse = false;
			size_t bad = 0, nq = 0; std::string first;
			for (int q = 0; q < 60 && n > 0; ++q)
			{
				size_t pos = (q < 4) ? (q == 0 ? 0 : q == 1 ? n - 1 : q == 2 ? n / 2 : n / 3) : size_t(rnd() % n);
				Item query = b[pos]; if (q % 3 == 2) query.id = 1000000000000LL + q;        // absent item with a present hash
				if (q % 5 == 4) { query.h = b[pos].h + 1; query.id = 1000000000001LL; }      // (mostly) absent hash
				g_query = &query;
				size_t lo = n, hi = n;
				for (size_t i = std::lower_bound(hs.begin() + 1, hs.begin() + 1 + n, query.h) - (hs.begin() + 1); i < n && b[i].h == query.h; ++i)
					if (b[i].id == query.id) { if (lo == n) lo = i; hi = i + 1; }
				bool present = lo != n;
				for (int pre = 0; pre < 2; ++pre)
				{
					auto r = pre ? HashSorter::FindPrehashed(b, n, HashIt{ hs.data() + 1 }, query, size_t(query.h), EQ()) : HashSorter::Find(b, n, query, HF(), EQ());
					auto bd = pre ? HashSorter::GetBoundsPrehashed(b, n, HashIt{ hs.data() + 1 }, query, size_t(query.h), EQ()) : HashSorter::GetBounds(b, n, query, HF(), EQ());
					size_t bb = bd.GetBegin() - b, be = bd.GetEnd() - b; ++nq;
					bool ok = (r.found == present) && (!present || (size_t(r.iterator - b) >= lo && size_t(r.iterator - b) < hi)) && (present ? (bb == lo && be == hi) : (bb == be && bb <= n));
					if (!ok || g_oob) { if (!bad) { std::ostringstream os; os << "q=" << q << " pre=" << pre << " found=" << r.found << " idx=" << (r.iterator - b) << " bounds=" << bb << "," << be << " expected " << present << " [" << lo << "," << hi << ")"; first = os.str(); } ++bad; }
				}
			}
			printf("%s%zu/%zu step=%zu %s\n", g_oob ? "OOB " : "", nq - bad, nq, size_t(HashSorter::pvGetStepCount(n)), bad ? first.c_str() : "ok");
		}
		else puts("?");
	}
	return 0;
}
