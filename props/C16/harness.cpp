// C16 implementation side: the REAL SegmentedArraySettings / UIntMath::Log2 functions and the REAL container.
//   lg64 v | lg32 v               Log2
//   sq L i | cn L i               GetSegItemIndexes(i) -> seg item, GetIndex(seg,item), GetItemCount(seg)
//   sqs L i                       GetSegItemIndexes only (indexes outside the proved range; no UB there)
//   sqr L lo n | cnr L lo n       the same four values for every index lo..lo+n-1, run-length encoded on one line
//   sqx L s j | cnx L s j         GetIndex(s,j) then GetSegItemIndexes of it
//   (F = sq | cn: 16-byte element, manager without Reallocate;  sqw | cnw: 40-byte element, manager with Reallocate)
//   hist F L op...                grow/shrink history on momo::SegmentedArray<Elem,...,Settings<F,L>> (F = sq|cn)
//   hist2 F L op...               two arrays: A.<op> B.<op> mAB MAB xAB cAB kAB (move / swap / copy between them)
#include "private_access.h"
#include "momo/SegmentedArray.h"
#include <unistd.h>
#include <sys/wait.h>
using namespace momo;
typedef unsigned long long ull;
typedef SegmentedArrayItemCountFunc Fn;

// ---------------------------------------------------------------- tracking memory manager
struct AllocRec { size_t size; ull serial; };
static std::map<void*, AllocRec> g_live;
static ull g_serial = 0; static ull g_reallocs = 0;
struct TrackMM
{
	explicit TrackMM() noexcept {}
	TrackMM(TrackMM&&) noexcept {}
	TrackMM(const TrackMM&) noexcept {}
	~TrackMM() noexcept {}
	TrackMM& operator=(const TrackMM&) = delete;
	void* Allocate(size_t size) { void* p = operator new(size); g_live[p] = AllocRec{size, ++g_serial}; return p; }
	void Deallocate(void* p, size_t size) noexcept
	{
		auto it = g_live.find(p);
		if (it == g_live.end() || it->second.size != size) { printf("FAIL:bad-deallocate\n"); exit(3); }
		g_live.erase(it); operator delete(p);
	}
};

// the same with the optional Reallocate member: momo::Array (the segment pointer table mSegments) then grows by realloc
struct TrackMMR : TrackMM
{
	explicit TrackMMR() noexcept {}
	TrackMMR(TrackMMR&&) noexcept {}
	TrackMMR(const TrackMMR&) noexcept {}
	TrackMMR& operator=(const TrackMMR&) = delete;
	void* Reallocate(void* p, size_t size, size_t newSize)
	{
		auto it = g_live.find(p);
		if (it == g_live.end() || it->second.size != size) { printf("FAIL:bad-reallocate\n"); exit(3); }
		void* q = operator new(newSize); memcpy(q, p, std::min(size, newSize));
		g_live.erase(it); operator delete(p); g_live[q] = AllocRec{newSize, ++g_serial}; ++g_reallocs;
		return q;
	}
};
static_assert(!internal::MemManagerProxy<TrackMM>::canReallocate, "TrackMM must be the no-realloc manager");
static_assert(internal::MemManagerProxy<TrackMMR>::canReallocate, "TrackMMR must be seen as realloc-capable by momo");

// element that knows where it was constructed: a bitwise relocation is detected; every construction, assignment
// (target) and destruction is logged with its address so that "which slots did this operation touch" is observable
static std::vector<std::pair<char, const void*>> g_ev;
template<size_t PAD> struct Padding { unsigned char bytes[PAD]; };
template<> struct Padding<0> {};
template<size_t PAD> struct ElemT : Padding<PAD>
{
	ull v; const ElemT* self;
	ElemT() : v(0), self(this) { g_ev.push_back({'c', this}); }
	explicit ElemT(ull x) : v(x), self(this) { g_ev.push_back({'c', this}); }
	ElemT(const ElemT& o) : v(o.v), self(this) { g_ev.push_back({'c', this}); }
	ElemT(ElemT&& o) noexcept : v(o.v), self(this) { g_ev.push_back({'c', this}); }
	ElemT& operator=(const ElemT& o) { v = o.v; g_ev.push_back({'a', this}); return *this; }
	ElemT& operator=(ElemT&& o) noexcept { v = o.v; g_ev.push_back({'a', this}); return *this; }
	~ElemT() { self = nullptr; g_ev.push_back({'d', this}); }
};
typedef ElemT<0> Elem16;    // 16 bytes (power of two)
typedef ElemT<24> Elem40;   // 40 bytes (not a power of two)
static_assert(sizeof(Elem16) == 16 && sizeof(Elem40) == 40, "element sizes");
static_assert(!std::is_trivially_copyable<Elem16>::value, "Elem must not be memcpy-able");
// the two default configurations of the library are among the tested ones
static_assert(std::is_same<SegmentedArray<int>::Settings, SegmentedArraySettings<Fn::cnst, 5>>::value, "default = cnst, 5");
static_assert(std::is_same<SegmentedArraySqrt<int>::Settings, SegmentedArraySettings<Fn::sqrt, 3>>::value, "SegmentedArraySqrt = sqrt, 3");

// single-pass input iterator (not a forward iterator): Insert(index, begin, end) then takes the one-by-one path
struct InputIt
{
	typedef std::input_iterator_tag iterator_category; typedef ull value_type; typedef ptrdiff_t difference_type;
	typedef const ull* pointer; typedef const ull& reference;
	const ull* p;
	reference operator*() const { return *p; }
	InputIt& operator++() { ++p; return *this; }
	InputIt operator++(int) { InputIt t = *this; ++p; return t; }
	bool operator==(const InputIt& o) const { return p == o.p; }
	bool operator!=(const InputIt& o) const { return p != o.p; }
};

template<Fn F, size_t L> struct Idx
{
	typedef SegmentedArraySettings<F, L> S;
	static void vals(size_t i, size_t& s, size_t& j, size_t& idx, size_t& cnt)
	{
		s = 12345; j = 54321; S::GetSegItemIndexes(i, s, j); idx = S::GetIndex(s, j); cnt = S::GetItemCount(s);
	}
	static void four(size_t i, std::string& out)
	{
		size_t s, j, idx, cnt; vals(i, s, j, idx, cnt);
		char buf[128]; snprintf(buf, sizeof buf, "%llu %llu %llu %llu", ull(s), ull(j), ull(idx), ull(cnt));
		out += buf;
	}
	// lossless run-length form of the four values over lo..lo+n-1: a run "s j idx cnt xLEN" stands for LEN consecutive
	// indexes with the same s and cnt and with j and idx each increasing by exactly 1
	static void runs(size_t lo, size_t n, std::string& out)
	{
		size_t s0 = 0, j0 = 0, i0 = 0, c0 = 0, len = 0;
		auto flush = [&]() { if (len) { char buf[160]; snprintf(buf, sizeof buf, "%llu %llu %llu %llu x%llu;", ull(s0), ull(j0), ull(i0), ull(c0), ull(len)); out += buf; } };
		for (size_t t = 0; t < n; ++t)
		{
			size_t s, j, idx, cnt; vals(lo + t, s, j, idx, cnt);
			if (len && s == s0 && cnt == c0 && j == j0 + len && idx == i0 + len) { ++len; continue; }
			flush(); s0 = s; j0 = j; i0 = idx; c0 = cnt; len = 1;
		}
		flush();
	}
	static void segonly(size_t i) { size_t s = 12345, j = 54321; S::GetSegItemIndexes(i, s, j); printf("%llu %llu\n", ull(s), ull(j)); }
	static void rev(size_t s, size_t j)
	{
		size_t i = S::GetIndex(s, j); size_t s2 = 1, j2 = 1; S::GetSegItemIndexes(i, s2, j2);
		printf("%llu %llu %llu\n", ull(i), ull(s2), ull(j2));
	}
};

// ---------------------------------------------------------------- histories on the real container
static std::map<ull, ull> g_serial2id; static ull g_nextid = 0;   // allocation serial -> canonical segment id (first appearance)
static const size_t NONE = ~size_t(0);
static bool g_ghist = false;   // ghist lines additionally print the address of the middle element as (segment id << 32) + offset

template<Fn F, size_t L, class Elem = Elem16, class MM = TrackMM> struct Track
{
	typedef SegmentedArraySettings<F, L> S;
	typedef SegmentedArray<Elem, MM, SegmentedArrayItemTraits<Elem, MM>, S> Arr;
	static_assert(Arr::Settings::itemCountFunc == F && Arr::Settings::logInitialItemCount == L, "the intended Settings are instantiated");
	static_assert(std::is_same<typename Arr::Item, Elem>::value && std::is_same<typename Arr::MemManager, MM>::value, "item / manager");
	Arr arr; std::vector<ull> twin;
	std::vector<const Elem*> addr;            // address of slot i as last observed
	std::vector<std::pair<void*, ull>> segs;  // segment base -> canonical id, as last observed

	// index of the slot at address p in the segment table `tab` (old or new), or NONE
	static size_t slot_of(const std::vector<std::pair<void*, ull>>& tab, const void* vp)
	{
		const Elem* p = static_cast<const Elem*>(vp);
		for (size_t s = 0; s < tab.size(); ++s)
		{
			const Elem* base = static_cast<const Elem*>(tab[s].first);
			if (p >= base && p < base + S::GetItemCount(s)) return S::GetIndex(s, size_t(p - base));
		}
		return NONE;
	}

	// one operation; returns the first index the operation is allowed to touch (NONE = no element at all)
	size_t apply(const std::string& op, ull& next, std::string& fail, bool& addrReset)
	{
		char c = op[0]; ull n = 0, m = 0;
		if (op.size() > 1) { n = strtoull(op.c_str() + 1, nullptr, 10); size_t k = op.find(':'); if (k != std::string::npos) m = strtoull(op.c_str() + k + 1, nullptr, 10); }
		size_t old = twin.size();
		switch (c)
		{
		case 'a': for (ull k = 0; k < n; ++k) { arr.AddBack(Elem(next)); twin.push_back(next); ++next; } return old;
		case 'r': arr.Reserve(size_t(n)); return NONE;
		case 's': arr.SetCount(size_t(n)); twin.resize(size_t(n), 0); return std::min(old, size_t(n));
		case 'k': arr.Shrink(); return NONE;
		case 'K': arr.Shrink(size_t(n)); return NONE;
		case 'b': if (n <= old) { arr.RemoveBack(size_t(n)); twin.resize(old - size_t(n)); return old - size_t(n); } return NONE;
		case 'c': arr.Clear(false); twin.clear(); return 0;
		case 'C': arr.Clear(true); twin.clear(); addrReset = true; return 0;
		case 'i': if (n <= old) { arr.Insert(size_t(n), Elem(next)); twin.insert(twin.begin() + n, next); ++next; return size_t(n); } return NONE;
		case 'd': if (n < old) { arr.Remove(size_t(n), 1); twin.erase(twin.begin() + n); return size_t(n); } return NONE;
		case 'n': if (arr.GetCount() < arr.GetCapacity()) { arr.AddBackNogrow(Elem(next)); twin.push_back(next); ++next; return old; } return NONE;
		case 'I': if (n <= old) { arr.Insert(size_t(n), size_t(m), Elem(next)); twin.insert(twin.begin() + n, size_t(m), next); ++next; return size_t(n); } return NONE;
		case 'J': if (n <= old) { std::vector<Elem> src; std::vector<ull> vs; for (ull k = 0; k < m; ++k) { src.emplace_back(next); vs.push_back(next); ++next; }
				arr.Insert(size_t(n), src.begin(), src.end()); twin.insert(twin.begin() + n, vs.begin(), vs.end()); return size_t(n); } return NONE;
		case 'D': if (n <= old && m <= old - n) { arr.Remove(size_t(n), size_t(m)); twin.erase(twin.begin() + n, twin.begin() + n + m); return size_t(n); } return NONE;
		case 'F': if (n > 0) { size_t first = NONE; for (size_t i = 0; i < old; ++i) if (twin[i] % n == 0) { first = i; break; }
				size_t rem = arr.Remove([n](const Elem& e) { return e.v % n == 0; });
				std::vector<ull> t2; for (ull v : twin) if (v % n != 0) t2.push_back(v);
				if (rem != old - t2.size()) fail = "filter-count"; twin.swap(t2); return first; } return NONE;
		// ---- overloads taking const Item& / count,item / other iterator kinds
		case 'e': for (ull k = 0; k < n; ++k) { const Elem x(next); arr.AddBack(x); twin.push_back(next); ++next; } return old;
		case 'o': if (arr.GetCount() < arr.GetCapacity()) { const Elem x(next); arr.AddBackNogrow(x); twin.push_back(next); ++next; return old; } return NONE;
		case 'S': { const Elem x(next); arr.SetCount(size_t(n), x); twin.resize(size_t(n), next); ++next; } return std::min(old, size_t(n));
		case 'j': if (n <= old) { const Elem x(next); arr.Insert(size_t(n), x); twin.insert(twin.begin() + n, next); ++next; return size_t(n); } return NONE;
		case 'U': if (n <= old) { std::vector<ull> vs; for (ull k = 0; k < m; ++k) vs.push_back(next++);   // single-pass iterator: one InsertCrt per item
				arr.Insert(size_t(n), InputIt{vs.data()}, InputIt{vs.data() + vs.size()}); twin.insert(twin.begin() + n, vs.begin(), vs.end()); return size_t(n); } return NONE;
		case 'L': if (n <= old) { ull a0 = next, a1 = next + 1, a2 = next + 2; next += 3;
				arr.Insert(size_t(n), {Elem(a0), Elem(a1), Elem(a2)}); twin.insert(twin.begin() + n, {a0, a1, a2}); return size_t(n); } return NONE;
		// ---- the array is replaced by a newly constructed one (move assignment): every address is new
		case 'G': arr = Arr(size_t(n)); twin.assign(size_t(n), 0); addrReset = true; return 0;
		case 'H': { const Elem x(next); arr = Arr(size_t(n), x); twin.assign(size_t(n), next); ++next; addrReset = true; } return 0;
		case 'R': { std::vector<ull> vs; for (ull k = 0; k < n; ++k) vs.push_back(next++);
				arr = Arr(InputIt{vs.data()}, InputIt{vs.data() + vs.size()}); twin = vs; addrReset = true; } return 0;
		case 'T': { ull a0 = next, a1 = next + 1, a2 = next + 2; next += 3; arr = Arr({Elem(a0), Elem(a1), Elem(a2)}); twin = {a0, a1, a2}; addrReset = true; } return 0;
		case 'P': arr = Arr::CreateCap(size_t(n)); twin.clear(); addrReset = true; return 0;
		case 'Q': { ull base = next; next += n; ull k = 0;
				arr = Arr::CreateCrt(size_t(n), [&](Elem* p) { new (p) Elem(base + k); ++k; }); twin.clear(); for (ull q = 0; q < n; ++q) twin.push_back(base + q); addrReset = true; } return 0;
		default: fail = "bad-op"; return NONE;
		}
	}

	// the property on the real container (independent of the Coq model); appends "count/segCount/cap/topid"
	void verify(std::string& out, std::string& fail, size_t firstTouch, bool addrReset, bool checkEvents)
	{
		const Arr& carr = arr;
		size_t cnt = arr.GetCount();
		if (cnt != twin.size()) fail = "count";
		const size_t oldcnt0 = addr.size();   // element count before the operation
		if (addrReset) addr.clear();
		size_t keep = std::min(addr.size(), cnt);
		auto it = arr.GetBegin(); auto cit = carr.GetBegin();
		for (size_t i = 0; i < cnt && fail.empty(); ++i, ++it, ++cit)
		{
			const Elem* p = &arr[i];
			if (i < keep && p != addr[i]) fail = "moved@" + std::to_string(i);
			if (p->v != twin[i]) fail = "value@" + std::to_string(i);
			if (p->self != p) fail = "relocated@" + std::to_string(i);
			size_t s = 0, j = 0; S::GetSegItemIndexes(i, s, j);
			if (s >= arr.mSegments.GetCount()) { fail = "seg-range@" + std::to_string(i); break; }
			if (j >= S::GetItemCount(s) || p != arr.mSegments[s] + j) fail = "slot@" + std::to_string(i);
			if (i > 0 && j > 0 && p != &arr[i - 1] + 1) fail = "noncontig@" + std::to_string(i);
			// const / non-const operator[], iterators (sequential and random access) all denote the same object
			if (&carr[i] != p) fail = "const-index@" + std::to_string(i);
			if (&*it != p || &*cit != p) fail = "iter@" + std::to_string(i);
			if ((i & 63) == 0 || i + 1 == cnt)
			{
				if (&*(arr.GetBegin() + ptrdiff_t(i)) != p || &arr.GetBegin()[ptrdiff_t(i)] != p || &*(carr.GetEnd() - ptrdiff_t(cnt - i)) != p) fail = "iter-random@" + std::to_string(i);
				if ((it - arr.GetBegin()) != ptrdiff_t(i) || (carr.GetEnd() - cit) != ptrdiff_t(cnt - i)) fail = "iter-diff@" + std::to_string(i);
			}
		}
		if (fail.empty() && (it != arr.GetEnd() || cit != carr.GetEnd())) fail = "iter-end";
		if (fail.empty() && cnt > 0 && (&arr.GetBackItem() != &arr[cnt - 1] || &carr.GetBackItem() != &arr[cnt - 1])) fail = "back-item";
		if (fail.empty() && (arr.IsEmpty() != (cnt == 0) || !carr.IsEqual(arr, [](const Elem& x, const Elem& y) { return x.v == y.v; }))) fail = "isempty-isequal";
		if (fail.empty() && cnt > 0 && !carr.Contains(arr[cnt / 2], [](const Elem& x, const Elem& y) { return x.v == y.v; })) fail = "contains";
		// segments: prefix-stable, sized GetItemCount(s), capacity = sum of sizes
		size_t sc = arr.mSegments.GetCount(); size_t capsum = 0;
		std::vector<std::pair<void*, ull>> nsegs;
		for (size_t s = 0; s < sc && fail.empty(); ++s)
		{
			void* base = arr.mSegments[s];
			auto li = g_live.find(base);
			if (li == g_live.end()) { fail = "seg-not-live@" + std::to_string(s); break; }
			if (li->second.size != S::GetItemCount(s) * sizeof(Elem)) fail = "seg-size@" + std::to_string(s);
			if (!g_serial2id.count(li->second.serial)) g_serial2id[li->second.serial] = g_nextid++;
			ull id = g_serial2id[li->second.serial];
			if (s < segs.size() && !addrReset && (segs[s].first != base || segs[s].second != id)) fail = "seg-replaced@" + std::to_string(s);
			capsum += S::GetItemCount(s);
			nsegs.push_back({base, id});
		}
		if (fail.empty() && capsum != arr.GetCapacity()) fail = "capacity-sum";
		if (fail.empty() && cnt > arr.GetCapacity()) fail = "count>capacity";
		// which slots did the operation construct / assign / destroy?  none below firstTouch
		if (fail.empty() && checkEvents)
			for (auto& ev : g_ev)
			{
				size_t idx = slot_of(nsegs, ev.second);
				if (idx == NONE) idx = slot_of(segs, ev.second);
				if (idx != NONE && (firstTouch == NONE || idx < firstTouch))
				{ fail = std::string("touched-") + ev.first + "@" + std::to_string(idx); break; }
			}
		// the destroyed slots are exactly the indexes [new count, old count) (nothing below the new count, nothing outside the array)
		if (fail.empty() && checkEvents && !(addrReset && cnt > 0))
		{
			size_t oldcnt = oldcnt0; std::set<size_t> dead;
			for (auto& ev : g_ev)
				if (ev.first == 'd')
				{
					size_t idx = slot_of(segs, ev.second);
					if (idx == NONE) continue;
					if (idx < cnt || idx >= oldcnt) { fail = "destroyed-outside@" + std::to_string(idx); break; }
					dead.insert(idx);
				}
			if (fail.empty() && oldcnt > cnt && dead.size() != oldcnt - cnt) fail = "destroyed-count";
		}
		addr.resize(cnt);
		for (size_t i = 0; i < cnt; ++i) addr[i] = &arr[i];
		std::vector<std::pair<void*, ull>> oldsegs = segs;
		segs.swap(nsegs);
		char buf[96]; snprintf(buf, sizeof buf, "%llu/%llu/%llu/%lld", ull(cnt), ull(sc), ull(arr.GetCapacity()), (sc && !segs.empty()) ? (long long)segs.back().second : -1LL);
		out += buf;
		if (g_ghist)
		{	// where does the REAL operator[] put element cnt/2?  expressed through the segment table: (id << 32) + offset
			long long a = -1;
			if (cnt > 0)
			{
				const Elem* p = &arr[cnt / 2];
				for (size_t s2 = 0; s2 < segs.size(); ++s2)
				{
					const Elem* base = static_cast<const Elem*>(segs[s2].first);
					if (p >= base && p < base + S::GetItemCount(s2)) { a = (long long)((segs[s2].second << 32) + ull(p - base)); break; }
				}
			}
			out += "/" + std::to_string(a);
			// which slots did the operation DESTROY?  lowest and highest destroyed slot (as (id << 32) + offset in the table before the
			// operation: `oldsegs`) and their number -- compared with the ghost log of the regenerated pvDecCount
			long long lo = -1, hi = -1; ull nd = 0;
			for (auto& ev : g_ev)
				if (ev.first == 'd')
					for (size_t s2 = 0; s2 < oldsegs.size(); ++s2)
					{
						const Elem* base = static_cast<const Elem*>(oldsegs[s2].first); const Elem* p = static_cast<const Elem*>(ev.second);
						if (p >= base && p < base + S::GetItemCount(s2))
						{ long long v = (long long)((oldsegs[s2].second << 32) + ull(p - base)); if (lo < 0 || v < lo) lo = v; if (v > hi) hi = v; ++nd; break; }
					}
			out += "/d" + std::to_string(lo) + ":" + std::to_string(hi) + "x" + std::to_string(nd);
			// the element VALUES (compared with the regenerated ArrayShifter run on a cell function): sum of (i + 1) * value mod 1e9+7
			ull h = 0; for (size_t i = 0; i < cnt; ++i) h = (h + (ull(i + 1) * (arr[i].v % 1000000007ULL)) % 1000000007ULL) % 1000000007ULL;
			out += "/v" + std::to_string(h);
		}
	}
};

static void reset_globals() { g_live.clear(); g_serial2id.clear(); g_nextid = 0; g_ev.clear(); g_reallocs = 0; }

template<Fn F, size_t L, class E = Elem16, class MM = TrackMM> static void history(std::istringstream& is)
{
	reset_globals();
	std::string out, fail;
	{
		Track<F, L, E, MM> t; ull next = 1; std::string op; size_t opno = 0;
		while (is >> op && fail.empty())
		{
			++opno; bool addrReset = false; g_ev.clear();
			size_t ft = t.apply(op, next, fail, addrReset);
			if (fail.empty()) t.verify(out, fail, ft, addrReset, true);
			out += ' ';
			if (!fail.empty()) { out += "FAIL:" + fail + "@op" + std::to_string(opno); break; }
		}
	}
	if (fail.empty() && !g_live.empty()) out += "FAIL:leak";
	puts(out.c_str());
}

// two arrays: A.<op> / B.<op> act on one of them; mAB: B = std::move(A); xAB: A.Swap(B); cAB: B = A (copy assignment);
// kAB: B = Arr(A, false) (copy keeping the capacity); MAB: move construction (Arr tmp(std::move(A)); B.Swap(tmp))
template<Fn F, size_t L, class E = Elem16, class MM = TrackMM> static void history2(std::istringstream& is)
{
	typedef Track<F, L, E, MM> T; typedef typename T::Arr Arr; typedef E Elem;
	reset_globals();
	std::string out, fail;
	{
		T ta, tb; ull next = 1; std::string op; size_t opno = 0;
		while (is >> op && fail.empty())
		{
			++opno; g_ev.clear();
			bool resetA = false, resetB = false; size_t ftA = NONE, ftB = NONE; bool events = true;
			if (op.size() > 2 && op[1] == '.')
			{
				T& t = (op[0] == 'A') ? ta : tb;
				size_t ft = t.apply(op.substr(2), next, fail, (op[0] == 'A') ? resetA : resetB);
				((op[0] == 'A') ? ftA : ftB) = ft;
			}
			else if (op.size() == 3 && (op[0] == 'm' || op[0] == 'M' || op[0] == 'x' || op[0] == 'c' || op[0] == 'k'))
			{
				bool ab = (op[1] == 'A');
				T& src = ab ? ta : tb; T& dst = ab ? tb : ta;
				std::vector<const Elem*> srcAddr = src.addr; auto srcSegs = src.segs; ull serialBefore = g_serial;
				events = false;
				switch (op[0])
				{
				case 'm': dst.arr = std::move(src.arr); break;
				case 'M': { Arr tmp(std::move(src.arr)); dst.arr.Swap(tmp); } break;
				case 'x': src.arr.Swap(dst.arr); break;
				case 'c': dst.arr = src.arr; break;
				case 'k': dst.arr = Arr(src.arr, false); break;
				}
				if (op[0] == 'm' || op[0] == 'M')
				{	// pointer steal: the destination's elements ARE the source's former elements
					dst.twin = src.twin; src.twin.clear();
					dst.addr = srcAddr; dst.segs = srcSegs; src.addr.clear(); src.segs.clear();
					if (src.arr.GetCount() != 0 || src.arr.mSegments.GetCount() != 0) fail = "moved-from-not-empty";
				}
				else if (op[0] == 'x')
				{
					src.twin.swap(dst.twin); src.addr.swap(dst.addr); src.segs.swap(dst.segs);
				}
				else
				{	// copy: source untouched (verify keeps its addr/segs), destination entirely in fresh allocations
					dst.twin = src.twin; dst.addr.clear(); dst.segs.clear();
					(ab ? resetB : resetA) = true;
					for (size_t s2 = 0; s2 < dst.arr.mSegments.GetCount() && fail.empty(); ++s2)
					{
						auto li = g_live.find(dst.arr.mSegments[s2]);
						if (li == g_live.end() || li->second.serial <= serialBefore) fail = "copy-shares-segment@" + std::to_string(s2);
					}
					for (size_t i = 0; i < dst.arr.GetCount() && fail.empty(); ++i)
						if (T::slot_of(srcSegs, &dst.arr[i]) != NONE) fail = "copy-aliases@" + std::to_string(i);
				}
			}
			else fail = "bad-op";
			if (fail.empty()) ta.verify(out, fail, ftA, resetA, events);
			out += '|';
			if (fail.empty()) tb.verify(out, fail, ftB, resetB, events);
			out += ' ';
			if (!fail.empty()) { out += "FAIL:" + fail + "@op" + std::to_string(opno); break; }
		}
	}
	if (fail.empty() && !g_live.empty()) out += "FAIL:leak";
	puts(out.c_str());
}

// ---------------------------------------------------------------- the failing side of the three MOMO_CHECKs (forked child)
// chk F L what n: array with n elements (made full for "nogrow"), then in a CHILD process the out-of-domain call:
//   nogrow  AddBackNogrow on a full array      index  operator[](count)      removeback  RemoveBack(count + 1)
// prints "returned" or "aborted <first line of the child's stderr, without directories and line numbers>"
template<Fn F, size_t L> static void check_boundary(const std::string& what, size_t n)
{
	typedef SegmentedArray<ull, MemManagerDefault, SegmentedArrayItemTraits<ull, MemManagerDefault>, SegmentedArraySettings<F, L>> Arr;
	Arr arr; arr.SetCount(n); arr.Shrink();
	if (what == "nogrow") while (arr.GetCount() < arr.GetCapacity()) arr.AddBack(7);
	int fd[2]; if (pipe(fd) != 0) { puts("pipe-failed"); return; }
	fflush(stdout);
	pid_t pid = fork();
	if (pid == 0)
	{
		close(fd[0]); dup2(fd[1], 2); close(fd[1]);
		volatile ull sink = 0;
		if (what == "nogrow") arr.AddBackNogrow(9);
		else if (what == "index") sink = arr[arr.GetCount()];
		else if (what == "removeback") arr.RemoveBack(arr.GetCount() + 1);
		(void)sink; _exit(0);
	}
	close(fd[1]); std::string err; char buf[512]; ssize_t k;
	while ((k = read(fd[0], buf, sizeof buf)) > 0) err.append(buf, size_t(k));
	close(fd[0]); int st = 0; waitpid(pid, &st, 0);
	if (WIFEXITED(st) && WEXITSTATUS(st) == 0) { puts("returned"); return; }
	std::string line = err.substr(0, err.find('\n'));
	size_t sl = line.rfind('/', line.find(':')); if (sl != std::string::npos) line = line.substr(sl + 1);   // drop directories
	std::string out; for (size_t i = 0; i < line.size(); ++i) { if (line[i] == ':' && i + 1 < line.size() && isdigit((unsigned char)line[i + 1])) { while (i + 1 < line.size() && isdigit((unsigned char)line[i + 1])) ++i; continue; } out += line[i]; }
	printf("aborted %s\n", out.substr(0, 300).c_str());
}
template<Fn F> static void chk_dispatch(size_t l, const std::string& what, size_t n)
{
	switch (l) { case 0: check_boundary<F, 0>(what, n); break; case 3: check_boundary<F, 3>(what, n); break; case 5: check_boundary<F, 5>(what, n); break; default: puts("?L"); }
}

// ---------------------------------------------------------------- dispatch on the template parameter L
template<Fn F, size_t L> struct Disp
{
	template<class Fun> static void go(size_t l, Fun&& f)
	{
		if (l == L) f(Idx<F, L>()); else Disp<F, L - 1>::go(l, f);
	}
};
template<Fn F> struct Disp<F, 0>
{
	template<class Fun> static void go(size_t l, Fun&& f) { if (l == 0) f(Idx<F, 0>()); else puts("?L"); }
};
// variant "w": 40-byte element + realloc-capable manager
template<Fn F> static void histw_dispatch(size_t l, std::istringstream& is, bool two)
{
	switch (l) {
	case 0: two ? history2<F, 0, Elem40, TrackMMR>(is) : history<F, 0, Elem40, TrackMMR>(is); break;
	case 3: two ? history2<F, 3, Elem40, TrackMMR>(is) : history<F, 3, Elem40, TrackMMR>(is); break;
	case 5: two ? history2<F, 5, Elem40, TrackMMR>(is) : history<F, 5, Elem40, TrackMMR>(is); break;
	default: puts("?L"); }
}
template<Fn F> static void hist2_dispatch(size_t l, std::istringstream& is)
{
	switch (l) {
	case 0: history2<F, 0>(is); break; case 1: history2<F, 1>(is); break; case 2: history2<F, 2>(is); break;
	case 3: history2<F, 3>(is); break; case 5: history2<F, 5>(is); break;
	default: puts("?L"); }
}
template<Fn F> static void hist_dispatch(size_t l, std::istringstream& is)
{
	switch (l) {
	case 0: history<F, 0>(is); break; case 1: history<F, 1>(is); break; case 2: history<F, 2>(is); break;
	case 3: history<F, 3>(is); break; case 4: history<F, 4>(is); break; case 5: history<F, 5>(is); break;
	case 6: history<F, 6>(is); break; case 8: history<F, 8>(is); break;
	case 12: history<F, 12>(is); break; case 16: history<F, 16>(is); break;
	default: puts("?L"); }
}

int main()
{
	std::string line;
	while (std::getline(std::cin, line))
	{
		std::istringstream is(line); std::string cmd; is >> cmd;
		if (cmd == "lg64") { ull v; is >> v; printf("%llu\n", ull(internal::UIntMath<size_t>::Log2(size_t(v)))); }
		else if (cmd == "lg32") { ull v; is >> v; printf("%llu\n", ull(internal::UIntMath<uint32_t>::Log2(uint32_t(v)))); }
		else if (cmd == "sq" || cmd == "cn")
		{
			ull l, i; is >> l >> i; std::string out;
			auto f = [&](auto x) { decltype(x)::four(size_t(i), out); };
			if (cmd == "sq") Disp<Fn::sqrt, 63>::go(l, f); else Disp<Fn::cnst, 63>::go(l, f);
			puts(out.c_str());
		}
		else if (cmd == "sqs") { ull l, i; is >> l >> i; Disp<Fn::sqrt, 63>::go(l, [&](auto x) { decltype(x)::segonly(size_t(i)); }); }
		else if (cmd == "sqr" || cmd == "cnr")
		{
			ull l, lo, n; is >> l >> lo >> n; std::string out;
			auto f = [&](auto x) { decltype(x)::runs(size_t(lo), size_t(n), out); };
			if (cmd == "sqr") Disp<Fn::sqrt, 63>::go(l, f); else Disp<Fn::cnst, 63>::go(l, f);
			puts(out.c_str());
		}
		else if (cmd == "sqx" || cmd == "cnx")
		{
			ull l, s, j; is >> l >> s >> j;
			auto f = [&](auto x) { decltype(x)::rev(size_t(s), size_t(j)); };
			if (cmd == "sqx") Disp<Fn::sqrt, 63>::go(l, f); else Disp<Fn::cnst, 63>::go(l, f);
		}
		else if (cmd == "chk")
		{
			std::string f, what; ull l, n; is >> f >> l >> what >> n;
			if (f == "sq") chk_dispatch<Fn::sqrt>(l, what, size_t(n)); else chk_dispatch<Fn::cnst>(l, what, size_t(n));
		}
		else if (cmd == "hist2")
		{
			std::string f; ull l; is >> f >> l;
			if (f == "sqw") histw_dispatch<Fn::sqrt>(l, is, true); else if (f == "cnw") histw_dispatch<Fn::cnst>(l, is, true);
			else if (f == "sq") hist2_dispatch<Fn::sqrt>(l, is); else hist2_dispatch<Fn::cnst>(l, is);
		}
		else if (cmd == "hist" || cmd == "ghist")   // ghist: same histories, compared with the GENERATED container functions
		{
			std::string f; ull l; is >> f >> l; g_ghist = (cmd == "ghist");
			if (f == "sqw") histw_dispatch<Fn::sqrt>(l, is, false); else if (f == "cnw") histw_dispatch<Fn::cnst>(l, is, false);
			else if (f == "sq") hist_dispatch<Fn::sqrt>(l, is); else hist_dispatch<Fn::cnst>(l, is);
		}
		else puts("?");
		fflush(stdout);   // a crash (momo assertion, memory error) must not lose the lines already produced
	}
	return 0;
}
