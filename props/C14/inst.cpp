// instantiation TU for cxx2coq (C14): the container-level functions that decide whether the crew is touched, and the
// two-object functions (Swap, move construction) of crews and containers
#include "momo/HashSet.h"
#include "momo/TreeSet.h"
#include "momo/HashMultiMap.h"
#include "momo/DataTable.h"
#include "momo/Array.h"
namespace momo {
template class TreeSet<int>;
template class HashSet<int>;
// inline crew: no iterator versions + the stateless default manager
struct C14NoVer : public HashSetSettings { static const bool checkVersion = false; };
template class HashSet<int, HashTraits<int>, MemManagerDefault, HashSetItemTraits<int, MemManagerDefault>, C14NoVer>;
struct C14Rw { int k; };
typedef DataTable<DataColumnListStatic<C14Rw>> C14Table;
typedef HashMultiMap<int, int> C14Multi;
inline void c14_arric(ArrayIntCap<4, int>& a, ArrayIntCap<4, int>& b) { ArrayIntCap<4, int> c(std::move(a)); a = std::move(b); a.Swap(b); a.Clear(true); a = c; a.AddBack(1); }
inline void c14_arr(Array<int>& a, Array<int>& b) { Array<int> c(std::move(a)); a = std::move(b); a.Swap(b); a.Clear(true); a = c; a.AddBack(1); }
// one use of every member that is translated, so that clang instantiates the bodies
inline void c14_use(C14Table& t, C14Table& t2, C14Multi& m, C14Multi& m2) { t.Clear(); m.Clear(); t.Swap(t2); m.Swap(m2); C14Table t3(std::move(t)); t3.Clear(); m = std::move(m2); m = m2; t = std::move(t2); t = t2; C14Multi m3(m); C14Table t4(t); }
}
