(* C12: machine-checked counterexamples (`_refuted`) for the two independently seeded changes.  The changed functions are
   hand-written VARIANTS of the generated ones (the generated files always follow /repo, which has the correct code):
   each variant differs from the generated definition exactly as the seed's patch differs from the source. *)
From Coq Require Import ZArith Bool List Lia.
From MomoCommon Require Import GenPrelude.
From C12 Require Import Known Gen_Base Gen_O2 Gen_P4 P4_Model O2_Slot P4_Slot.
Import ListNotations.
Local Open Scope Z_scope.

(* ---- seed a: Open2N2 GetHashCodePart with the class test replaced by the "exact stored bits" test
        newLogBucketCount - logBucketCount > logBucketCountStep - probeShift, assertion probeShift > 0 dropped ---- *)
Definition GetHashCodePart_seedA (sh hp : Z -> Z) (full bidx L newL index : Z) : Z :=
  let hashProbe := hp index in
  let probeShift := Gen_O2.pvGetProbeShift L in
  if (hashProbe =? 255) || (newL - L >? 8 - probeShift) then full
  else
    let probe := Z.land hashProbe (2 ^ probeShift - 1) in
    let probe2 := tri probe in
    Z.lor (Z.lor (Z.land (wrapU 64 (bidx - probe2)) (2 ^ L - 1)) (wrapU 64 (Z.shiftl (Z.shiftr hashProbe probeShift) L)))
          (wrapU 64 (Z.shiftl (sh index) 57)).

(* the variant agrees with the generated function wherever probeShift > 0 -- checked on a grid (it is the same formula) *)
Definition seedA_grid : list (Z * Z * Z * Z) :=
  [(0, 3, 4, 77); (5, 2, 3, 200); (8, 9, 1, 129); (10, 12, 2, 255); (20, 21, 0, 31); (8, 10, 1, 129); (15, 16, 3, 64)].
Lemma seedA_same_off_boundary :
  forallb (fun '(L, newL, bidx, hpv) =>
    match Gen_O2.GetHashCodePart (fun _ => 0) (fun _ => 5) (fun _ => hpv) 424242 bidx L newL 2 with
    | Ok v => v =? GetHashCodePart_seedA (fun _ => 5) (fun _ => hpv) 424242 bidx L newL 2
    | _ => false
    end) seedA_grid = true.
Proof. vm_compute. reflexivity. Qed.

(* the chain 256 -> 512 -> 1024 buckets with a hash that has bit 9 set *)
Definition hA : Z := 512 + 5.             (* bit 9 and two low bits *)
Definition slotA (code L : Z) : (Z * Z) :=  (* (short hash, hash-probe byte) the generated AddCrt stores at probe 0 *)
  match Gen_O2.AddCrt (fun _ => 0) (fun _ => 128) (fun _ => 255) code L 0 0 with
  | Ok (_, _, sh, hp) => (sh 2, hp 2)
  | _ => (0, 0)
  end.

Definition chainA (getpart : (Z -> Z) -> (Z -> Z) -> Z -> Z -> Z -> Z -> Z -> Z) : Z :=
  (* insert at 2^8 buckets from the true hash; grow to 2^9 (reconstruct); grow to 2^10; return the final start bucket *)
  let '(sh8, hp8) := slotA hA 8 in
  let c9 := getpart (fun _ => sh8) (fun _ => hp8) hA (Gen_Base.GetStartBucketIndex hA (2 ^ 8)) 8 9 2 in
  let '(sh9, hp9) := slotA c9 9 in
  let c10 := getpart (fun _ => sh9) (fun _ => hp9) hA (Gen_Base.GetStartBucketIndex c9 (2 ^ 9)) 9 10 2 in
  Gen_Base.GetStartBucketIndex c10 (2 ^ 10).

Definition real_getpart (sh hp : Z -> Z) (full bidx L newL index : Z) : Z :=
  match Gen_O2.GetHashCodePart (fun _ => 0) sh hp full bidx L newL index with Ok v => v | _ => -1 end.

(* with the seeded test the element lands in bucket 5 of 1024 although its true hash says bucket 517: not found;
   the generated (real) function puts it where a full rehash would *)
Theorem seedA_refuted :
  chainA GetHashCodePart_seedA <> Gen_Base.GetStartBucketIndex hA (2 ^ 10) /\
  chainA real_getpart = Gen_Base.GetStartBucketIndex hA (2 ^ 10).
Proof. vm_compute. split; [discriminate|reflexivity]. Qed.

(* a single growth step with the seeded test is still right (the seed is wrong only along a chain) *)
Theorem seedA_single_step_ok :
  let '(sh9, hp9) := slotA hA 9 in
  GetHashCodePart_seedA (fun _ => sh9) (fun _ => hp9) 0 (Gen_Base.GetStartBucketIndex hA (2 ^ 9)) 9 10 2 = hA.
Proof. vm_compute. reflexivity. Qed.

(* ---- seed b: LimP4 Remove with the guard `hashCount - 1 - index >= count` rewritten as `index + count < hashCount - 1` ---- *)
Definition Remove_seedB (H : Z) (s : Z -> Z) (index : Z) : Z -> Z :=
  let count := Gen_P4.pvGetCount s in
  let s := upd s index (s (count - 1)) in
  let s := upd s (count - 1) 255 in
  if index + count <? H - 1
  then upd s (H - 1 - index) (if H - count >=? count then s (H - count) else 255)
  else s.

(* same function with the original guard = the generated Remove (count >= 2 branch) *)
Definition Remove_orig (H : Z) (s : Z -> Z) (index : Z) : Z -> Z :=
  match Gen_P4.Remove H 2 s (8 + index) 8 4 index with Ok (_, s') => s' | _ => s end.

Definition add3 (H L : Z) (h1 h2 h3 : Z) : Z -> Z :=
  let s0 := Gen_P4.pvSetEmpty H (fun _ => 0) 0 in
  match p4_add H s0 h1 L 0 with
  | Ok s1 => match p4_add H s1 h2 L 0 with
             | Ok s2 => match p4_add H s2 h3 L 0 with Ok s3 => s3 | _ => s0 end
             | _ => s0 end
  | _ => s0
  end.

(* three elements of bucket 3 of a 16-bucket table (hashCount 4); their hashes differ in stored bit 4 *)
Definition hB1 : Z := 3.
Definition hB2 : Z := 3 + 32.
Definition hB3 : Z := 3 + 16.

(* erase element 0: element 2 (hash hB3) moves to slot 0.  With the seeded guard the boundary case index + count = hashCount - 1
   is skipped, slot 3 keeps the ERASED element's byte, and GetHashCodePart (16 -> 64 buckets, same class) answers with bits
   of hB1 instead of hB3: the moved element is re-placed in the wrong bucket.  The generated Remove marks the byte empty and
   the full getter is used. *)
Theorem seedB_refuted :
  let sB := Remove_seedB 4 (add3 4 4 hB1 hB2 hB3) 0 in
  let sO := Remove_orig 4 (add3 4 4 hB1 hB2 hB3) 0 in
  Gen_P4.pvGetCount sB = 2 /\ sB 0 = Gen_P4.pvCalcShortHash hB3 /\
  Gen_P4.GetHashCodePart 4 sB 999 3 4 6 8 0 = known (qof 4) hB1 /\ known (qof 4) hB1 <> known (qof 4) hB3 /\
  Gen_Base.GetStartBucketIndex (known (qof 4) hB1) (2 ^ 6) <> Gen_Base.GetStartBucketIndex hB3 (2 ^ 6) /\
  Gen_P4.GetHashCodePart 4 sO 999 3 4 6 8 0 = 999.
Proof. vm_compute. repeat split; try discriminate; reflexivity. Qed.

(* away from the boundary index + count = hashCount - 1 the two guards agree *)
Lemma seedB_guards_agree H index count : 0 <= index -> 0 <= count -> index + count <> H - 1 ->
  (index + count <? H - 1) = (H - 1 - index >=? count).
Proof.
  intros. destruct (Z.ltb_spec (index + count) (H - 1)), (Z.geb_spec (H - 1 - index) count); try reflexivity; lia.
Qed.
