#!/bin/bash
# Offline setup: build the common Coq library, then warm every claimed property's build (regen + proofs +
# extraction + harness) by running its quick check once.  Results of these warm-up runs are not used.
cd "$(dirname "$0")"
set -u
mkdir -p build evidence replays
( cd coq/common && coq_makefile -f _CoqProject -o Makefile >/dev/null 2>&1 && make -j8 ) || exit 1
ids=$(python3 -c "import json; print(' '.join(c['property_id'] for c in json.load(open('MANIFEST.json'))['checks']))")
echo "$ids" | tr ' ' '\n' | xargs -P 4 -I{} sh -c './check {} --tier quick > build/setup_{}.log 2>&1 || true'
exit 0
