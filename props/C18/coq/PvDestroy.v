(* C18 -- destroying a row: pvDestroy<Void, Item, Items...> (variadic recursion) and DestroyRaw (range-for over mFuncRecords), read from the
   statement trees of ALL instantiations in Gen_PvCreate.v (deep embedding): AST facts by computation, a meaning for the pinned shape, and
   its equality with the hand model RawLife.destroy_raw. *)
From Coq Require Import String List ZArith Bool Arith Lia.
From C18 Require Import ProtoSyntax RawLife Gen_PvCreate PvCreate.
Import ListNotations.
Local Open Scope string_scope.
Local Open Scope list_scope.

Inductive dact := DDestroyThis | DRec.

(* `*pvGetItemPtr<Item>(raw, offset)` with `offset` = this column's offset *)
Definition is_this_item_ref (e : pexpr) : bool :=
  match e with
  | EUn op (ECall ENone f [EVar r; EVar o]) => String.eqb op "*" && String.eqb f "pvGetItemPtr" && String.eqb r "raw" && String.eqb o "offset"
  | _ => false
  end.
Definition is_this_offset_decl (s : pstmt) : bool :=
  match s with SDecl x (ECall (EVar c) g []) => String.eqb x "offset" && String.eqb c "columns" && String.eqb g "GetOffset" | _ => false end.

Definition dact_of (s : pstmt) : option (list dact) :=
  match s with
  | SDecl _ e => if is_this_offset_decl s then Some [] else None
  | SExpr (ECall ENone m args) =>
    if existsb mentions args then None else
    if String.eqb m "Destroy" then (if is_this_item_ref (last args ENone) then Some [DDestroyThis] else None)
    else if String.eqb m "pvDestroy" then (if is_next_columns (nth 1 args ENone) then Some [DRec] else None)
    else None
  | _ => None
  end.
Fixpoint dacts_of (l : list pstmt) : option (list dact) :=
  match l with
  | [] => Some []
  | x :: r => match dact_of x, dacts_of r with Some a, Some b => Some (a ++ b) | _, _ => None end
  end.
Definition dact_eqb (a b : dact) : bool := match a, b with DDestroyThis, DDestroyThis | DRec, DRec => true | _, _ => false end.
Fixpoint dacts_eqb (a b : list dact) : bool :=
  match a, b with [], [] => true | x :: r, y :: s => dact_eqb x y && dacts_eqb r s | _, _ => false end.
Definition dstep : list dact := [DDestroyThis; DRec].

(* DestroyRaw: exactly one loop over mFuncRecords whose body is exactly one destroyFunc call on THAT record's columns *)
Definition destroy_raw_shape (b : list pstmt) : bool :=
  match b with
  | [SFor x (EVar arr) [SExpr (ECall ENone f [_; EUn amp (EBin idx (EVar cols) (EMember (EVar y) fld)); _])]] =>
    String.eqb arr "mFuncRecords" && String.eqb f "destroyFunc" && String.eqb amp "&" && String.eqb idx "[]" &&
    String.eqb cols "mColumns" && String.eqb y x && String.eqb fld "columnIndex"
  | _ => false
  end.

Lemma destroy_shape_facts :
  forallb (fun b => match dacts_of b with Some a => dacts_eqb a dstep | None => false end) pvDestroy_steps = true /\
  forallb (fun b => match dacts_of b with Some [] => true | _ => false end) pvDestroy_bases = true /\
  destroy_raw_shape DestroyRaw_body = true /\ pvDestroy_steps <> [] /\ pvDestroy_bases <> [].
Proof. split; [vm_compute; reflexivity|]. split; [vm_compute; reflexivity|]. split; [vm_compute; reflexivity|]. split; discriminate. Qed.

(* meaning: destroy THIS item, then whatever the recursive instantiation does *)
Fixpoint drun (c : nat) (rest : list ev) (l : list dact) : list ev :=
  match l with [] => [] | DDestroyThis :: r => Dtor c :: drun c rest r | DRec :: r => rest ++ drun c rest r end.

Fixpoint dinterp_group (sb bb : list pstmt) (cs : list nat) : option (list ev) :=
  match cs with
  | [] => match dacts_of bb with Some [] => Some [] | _ => None end
  | c :: cs' => match dacts_of sb, dinterp_group sb bb cs' with
                | Some a, Some r => if dacts_eqb a dstep then Some (drun c r dstep) else None
                | _, _ => None
                end
  end.

(* pvDestroy over a group, read through ANY generated instantiation: every item of the group destroyed exactly once, front to back *)
Theorem generated_pvDestroy_is_hand_model sb bb : In sb pvDestroy_steps -> In bb pvDestroy_bases ->
  forall cs, dinterp_group sb bb cs = Some (map Dtor cs).
Proof.
  intros Hs Hb. destruct destroy_shape_facts as (S & B & _).
  rewrite forallb_forall in S, B. specialize (S sb Hs). specialize (B bb Hb).
  induction cs as [|c cs IH]; cbn [dinterp_group map].
  - destruct (dacts_of bb) as [[|? ?]|]; try discriminate. reflexivity.
  - rewrite IH. destruct (dacts_of sb) as [a|]; [|discriminate]. rewrite S. cbn [drun dstep]. rewrite app_nil_r. reflexivity.
Qed.

(* DestroyRaw = destroyFunc once per FuncRecord, in order (the pinned loop), each being pvDestroy over that record's group: the hand
   model RawLife.destroy_raw *)
Definition destroy_raw_interp (sb bb : list pstmt) (groups : list (list nat)) : option (list ev) :=
  if destroy_raw_shape DestroyRaw_body
  then fold_right (fun g acc => match dinterp_group sb bb g, acc with Some t, Some r => Some (t ++ r) | _, _ => None end) (Some []) groups
  else None.

Theorem generated_DestroyRaw_is_hand_model sb bb : In sb pvDestroy_steps -> In bb pvDestroy_bases ->
  forall groups, destroy_raw_interp sb bb groups = Some (destroy_raw groups).
Proof.
  intros Hs Hb groups. unfold destroy_raw_interp, destroy_raw.
  destruct destroy_shape_facts as (_ & _ & R & _). rewrite R.
  induction groups as [|g gs IH]; cbn [fold_right concat map]; [reflexivity|].
  rewrite IH, (generated_pvDestroy_is_hand_model sb bb Hs Hb g), map_app. reflexivity.
Qed.
