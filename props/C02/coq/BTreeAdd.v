(* C02 -- pvAdd: in-leaf insertion, pvAddGrow, the pvAddSplit cascade.  Shape is preserved, the contents become
   before ++ x :: after, and the returned position holds x at the index of the insertion point. *)
From Coq Require Import List ZArith Arith Lia Bool.
From C02 Require Import BTreeModel BTreeBase SplitSeg BTreeSearch BTreeIter.
Import ListNotations.

(* ---------- list cutting ---------- *)
Lemma list_cut (l : list Z) s : s < length l -> l = firstn s l ++ nth s l 0%Z :: skipn (S s) l.
Proof.
  intros H. destruct (nth_error_ex l s H) as [x E]. rewrite (nth_error_nth' _ _ _ 0%Z E).
  apply (nth_error_split l s x E).
Qed.

Lemma firstn_cut (l : list Z) s c :
  s < c -> c <= length l -> firstn c l = firstn s l ++ nth s l 0%Z :: firstn (c - s - 1) (skipn (S s) l).
Proof.
  intros H1 H2. rewrite (list_cut l s) at 1 by lia.
  rewrite firstn_app, firstn_length_le by lia. rewrite firstn_firstn, Nat.min_r by lia.
  destruct (c - s) as [|m] eqn:Em; [lia|]. simpl. rewrite Nat.sub_0_r. reflexivity.
Qed.

Lemma firstn_insert_at {A} j (x : A) l : j <= length l -> firstn j (insert_at j x l) = firstn j l.
Proof.
  intros H. unfold insert_at. rewrite firstn_app, firstn_length_le by lia.
  rewrite Nat.sub_diag. simpl. rewrite app_nil_r. rewrite firstn_firstn, Nat.min_id. reflexivity.
Qed.

Lemma nth_error_insert_at {A} j (x : A) l : j <= length l -> nth_error (insert_at j x l) j = Some x.
Proof.
  intros H. unfold insert_at. rewrite nth_error_app2; rewrite firstn_length_le by lia; [|lia].
  rewrite Nat.sub_diag. reflexivity.
Qed.

Lemma zipcat_firstn_cut (A : list (list Z)) (K : list Z) s c :
  s < c -> c <= length K -> length A = S (length K) ->
  zipcat (firstn c A) (firstn c K) =
  interleave (firstn (S s) A) (firstn s K) ++ nth s K 0%Z :: zipcat (firstn (c - s - 1) (skipn (S s) A)) (firstn (c - s - 1) (skipn (S s) K)).
Proof.
  revert A K c; induction s; intros A K c H1 H2 L.
  - destruct A as [|a [|a' A]]; destruct K as [|k K]; simpl in *; try lia.
    destruct c; [lia|]. simpl. rewrite Nat.sub_0_r. reflexivity.
  - destruct A as [|a A]; destruct K as [|k K]; simpl in L, H2; try lia.
    destruct c as [|c]; [lia|].
    change (firstn (S c) (a :: A)) with (a :: firstn c A). change (firstn (S c) (k :: K)) with (k :: firstn c K).
    change (firstn (S (S s)) (a :: A)) with (a :: firstn (S s) A). change (firstn (S s) (k :: K)) with (k :: firstn s K).
    change (skipn (S (S s)) (a :: A)) with (skipn (S s) A). change (skipn (S (S s)) (k :: K)) with (skipn (S s) K).
    change (nth (S s) (k :: K) 0%Z) with (nth s K 0%Z).
    replace (S c - S s - 1) with (c - s - 1) by lia.
    cbn [zipcat interleave]. rewrite (IHs A K c) by lia. rewrite <- app_assoc. reflexivity.
Qed.

Lemma nth_error_firstn' {A} (l : list A) n i : i < n -> nth_error (firstn n l) i = nth_error l i.
Proof.
  revert l i; induction n; intros l i H; [lia|]. destruct l; simpl; [destruct i; reflexivity|].
  destruct i; simpl; auto. apply IHn. lia.
Qed.
Lemma nth_error_skipn' {A} (l : list A) n i : nth_error (skipn n l) i = nth_error l (n + i).
Proof. revert l; induction n; intros l; simpl; auto. destruct l; simpl; auto. destruct i; reflexivity. Qed.

Lemma interleave_cons2 f B k kb : interleave (f :: B) (k :: kb) = f ++ k :: interleave B kb.
Proof. reflexivity. Qed.

Lemma firstn_app_exact {A} c k (l1 l2 : list A) : length l1 = c -> firstn (c + k) (l1 ++ l2) = l1 ++ firstn k l2.
Proof. intros <-. apply firstn_app_2. Qed.

Section Add.
Variables (maxCap stepRaw blockCount : nat).
Notation shape := (shape maxCap).
Notation leaf_cap := (leaf_cap maxCap stepRaw blockCount).
Notation mk := (mk maxCap stepRaw blockCount).
Notation ins := (ins maxCap stepRaw blockCount).
Notation split_node := (split_node maxCap stepRaw blockCount).

Hypothesis maxCap_pos : 0 < maxCap.
Hypothesis leaf_cap_ok : forall ic c, c <= maxCap -> c <= leaf_cap ic c /\ 0 < leaf_cap ic c <= maxCap.
Hypothesis split_ok : forall c j, 0 < c -> c <= maxCap -> j <= c -> split_index c j < c.

Lemma mk_shape_leaf ic ks : length ks <= maxCap -> shape 0 (mk ic true ks []).
Proof. intros H. unfold BTreeModel.mk. simpl. unfold n_count. simpl. destruct (leaf_cap_ok ic _ H). auto. Qed.

Lemma mk_shape_int ic d ks cs :
  length ks <= maxCap -> length cs = S (length ks) -> Forall (shape d) cs -> shape (S d) (mk ic false ks cs).
Proof. intros H L F. unfold BTreeModel.mk. simpl. unfold n_count. simpl. repeat split; auto; lia. Qed.

(* ---------- where pvAdd inserts ---------- *)
Lemma rightmost_spec d n :
  shape d n -> let '(q, i) := rightmost d n in
  valid d q n i /\ length q = d /\ before q n i = flatten n /\ after q n i = [].
Proof.
  revert n; induction d as [|d IH]; intros n S.
  - pose proof (shape_0_leaf _ _ S) as Lf. cbn [rightmost]. sp. rewrite Lf. repeat split; auto.
    + unfold n_count. rewrite firstn_all. symmetry. apply flatten_leaf; auto.
    + unfold n_count. apply skipn_all.
  - pose proof S as (_ & _ & L & _).
    destruct (shape_child_ex _ _ _ (n_count n) S (le_n _)) as (ch & E & Sch).
    cbn [rightmost]. rewrite E. specialize (IH ch Sch). destruct (rightmost d ch) as [q i].
    destruct IH as (V & Lq & B & A). sp. rewrite E. repeat split; auto.
    + simpl. lia.
    + rewrite B. rewrite (flatten_split n _ ch L E), post_end by lia. rewrite app_nil_r. reflexivity.
    + rewrite A, post_end by lia. reflexivity.
Qed.

Lemma leaf_pos_spec d p n j :
  shape d n -> valid d p n j -> let '(q, i) := leaf_pos d p n j in
  valid d q n i /\ length q = d /\ before q n i = before p n j /\ after q n i = after p n j.
Proof.
  revert d n; induction p as [|c p IH]; intros d n S V.
  - cbn [leaf_pos]. destruct (is_leaf n) eqn:Lf.
    + pose proof (shape_leaf _ _ _ S Lf). subst d. repeat split; auto.
    + destruct (shape_internal _ _ _ S Lf) as [d' ->]. sp in V.
      destruct (shape_child_ex _ _ _ j S V) as (ch & E & Sch). rewrite E. simpl Nat.pred.
      pose proof (rightmost_spec d' ch Sch) as R. destruct (rightmost d' ch) as [q i].
      destruct R as (Vq & Lq & B & A). sp. rewrite E, Lf. repeat split; auto.
      * simpl. lia.
      * rewrite B, (nth_flat n j ch E). reflexivity.
      * rewrite A. reflexivity.
  - destruct (valid_cons _ _ _ _ _ V) as (d' & ch & -> & E & V').
    cbn [leaf_pos]. rewrite E. simpl Nat.pred.
    specialize (IH d' ch (shape_child _ _ _ _ _ S E) V'). destruct (leaf_pos d' p ch j) as [q i].
    destruct IH as (Vq & Lq & B & A). sp. rewrite E. repeat split; auto.
    + simpl. lia.
    + rewrite B. reflexivity.
    + rewrite A. reflexivity.
Qed.

(* ---------- a node whose child c was replaced / split ---------- *)
Lemma pre_Node cap ks cs c : pre (Node cap ks cs) c = zipcat (firstn c (map flatten cs)) (firstn c ks).
Proof. reflexivity. Qed.
Lemma post_Node cap ks cs c : post (Node cap ks cs) c = tailpart (skipn (S c) (map flatten cs)) (skipn c ks).
Proof. reflexivity. Qed.

Lemma pre_replace n c ch' cap :
  c < length (n_children n) -> pre (Node cap (n_items n) (replace_at c ch' (n_children n))) c = pre n c.
Proof.
  intros H. rewrite pre_Node. unfold pre, replace_at. rewrite map_app, firstn_app, map_length, firstn_length_le by lia.
  rewrite Nat.sub_diag. simpl. rewrite app_nil_r. rewrite <- firstn_map', firstn_firstn, Nat.min_id. reflexivity.
Qed.

Lemma post_replace n c ch' cap :
  c < length (n_children n) -> post (Node cap (n_items n) (replace_at c ch' (n_children n))) c = post n c.
Proof.
  intros H. rewrite post_Node. unfold post, replace_at. rewrite map_app, skipn_app, map_length, firstn_length_le by lia.
  rewrite skipn_all2 by (rewrite map_length, firstn_length; lia).
  replace (S c - c) with 1 by lia. rewrite (skipn_map' flatten (S c)). reflexivity.
Qed.

(* the node after a child split was absorbed: items get sep at c, children c1 c2 replace child c *)
Definition absorb (cap : nat) (n : node) (c : nat) (c1 : node) (sep : Z) (c2 : node) : node :=
  Node cap (insert_at c sep (n_items n)) (firstn c (n_children n) ++ c1 :: c2 :: skipn (S c) (n_children n)).

Lemma absorb_facts cap n c ch c1 sep c2 :
  length (n_children n) = S (n_count n) -> nth_error (n_children n) c = Some ch ->
  let N := absorb cap n c c1 sep c2 in
  length (n_children N) = S (n_count N) /\ n_count N = S (n_count n) /\
  nth_error (n_children N) c = Some c1 /\ nth_error (n_children N) (S c) = Some c2 /\
  pre N c = pre n c /\ pre N (S c) = pre n c ++ flatten c1 ++ [sep] /\
  flatten N = pre n c ++ (flatten c1 ++ sep :: flatten c2) ++ post n c.
Proof.
  intros L E N. assert (Hc : c <= n_count n) by (apply nth_error_lt in E; lia).
  assert (Hc' : c <= length (n_items n)) by exact Hc.
  assert (Lf : length (firstn c (n_children n)) = c) by (apply firstn_length_le; lia).
  unfold N, absorb. unfold n_count in *. cbn [n_children n_items].
  repeat split.
  - rewrite app_length, insert_at_length. cbn [length]. rewrite Lf, skipn_length. lia.
  - apply insert_at_length.
  - rewrite nth_error_app2 by lia. rewrite Lf, Nat.sub_diag. reflexivity.
  - rewrite nth_error_app2 by lia. rewrite Lf. replace (S c - c) with 1 by lia. reflexivity.
  - rewrite pre_Node. unfold pre. rewrite firstn_insert_at by lia.
    rewrite map_app, firstn_app, map_length, Lf, Nat.sub_diag. simpl. rewrite app_nil_r.
    rewrite <- firstn_map', firstn_firstn, Nat.min_id. reflexivity.
  - rewrite pre_Node. unfold pre, insert_at. rewrite map_app. cbn [map].
    replace (S c) with (c + 1) by lia.
    rewrite (firstn_app_exact c 1) by (rewrite map_length; exact Lf).
    rewrite (firstn_app_exact c 1) by (apply firstn_length_le; lia).
    cbn [firstn].
    rewrite zipcat_app by (rewrite map_length, Lf, firstn_length_le; lia).
    cbn [zipcat]. rewrite firstn_map'. reflexivity.
  - rewrite flatten_unfold. cbn [n_children n_items]. unfold insert_at.
    rewrite map_app. cbn [map]. rewrite interleave_app by (rewrite map_length, Lf, firstn_length_le; lia).
    rewrite interleave_cons2, interleave_cons. unfold pre, post. rewrite firstn_map', (skipn_map' flatten (S c)).
    rewrite <- !app_assoc. cbn [app]. reflexivity.
Qed.

(* ---------- cutting an over-full node in two: Relocator::pvSplitNode ---------- *)
Lemma cut_leaf ic ks s' :
  s' < length ks -> length ks <= S maxCap ->
  let n1 := mk ic true (firstn s' ks) [] in let n2 := mk ic true (skipn (S s') ks) [] in
  shape 0 n1 /\ shape 0 n2 /\ flatten n1 ++ nth s' ks 0%Z :: flatten n2 = ks.
Proof.
  intros H1 H2 n1 n2. subst n1 n2. split; [|split].
  - apply mk_shape_leaf. rewrite firstn_length. lia.
  - apply mk_shape_leaf. rewrite skipn_length. lia.
  - simpl. symmetry. apply list_cut. assumption.
Qed.

Lemma cut_int ic d ks cs s' :
  s' < length ks -> length ks <= S maxCap -> length cs = S (length ks) -> Forall (shape d) cs ->
  let n1 := mk ic false (firstn s' ks) (firstn (S s') cs) in let n2 := mk ic false (skipn (S s') ks) (skipn (S s') cs) in
  shape (S d) n1 /\ shape (S d) n2 /\
  flatten n1 ++ nth s' ks 0%Z :: flatten n2 = interleave (map flatten cs) ks.
Proof.
  intros H1 H2 L F n1 n2. subst n1 n2. split; [|split].
  - apply mk_shape_int; [rewrite firstn_length; lia | rewrite !firstn_length; lia | apply Forall_firstn; auto].
  - apply mk_shape_int; [rewrite skipn_length; lia | rewrite !skipn_length; lia | apply Forall_skipn; auto].
  - unfold BTreeModel.mk. cbn [flatten]. rewrite <- firstn_map', <- skipn_map'.
    symmetry. apply interleave_cut; [rewrite map_length; lia | lia].
Qed.

(* ---------- the insertion itself ---------- *)
Definition ins_ok (d : nat) (x : Z) (bef aft : list Z) (r : ins_res) : Prop :=
  match r with
  | Done n' (q, i) =>
      shape d n' /\ flatten n' = bef ++ x :: aft /\ valid d q n' i /\ item_at q n' i = Some x /\ before q n' i = bef
  | Split n1 sep n2 rt (q, i) =>
      shape d n1 /\ shape d n2 /\ flatten n1 ++ sep :: flatten n2 = bef ++ x :: aft /\
      (if rt then valid d q n2 i /\ item_at q n2 i = Some x /\ flatten n1 ++ sep :: before q n2 i = bef
       else valid d q n1 i /\ item_at q n1 i = Some x /\ before q n1 i = bef)
  end.

Lemma ins_leaf_ok ic n j x :
  shape 0 n -> j <= n_count n -> ins_ok 0 x (firstn j (n_items n)) (skipn j (n_items n)) (ins ic [] n j x).
Proof.
  intros Sh Hj. pose proof Sh as (H1 & H2 & H3). pose proof (shape_0_leaf _ _ Sh) as Lf.
  assert (Hj' : j <= length (n_items n)) by exact Hj.
  cbn [BTreeModel.ins]. destruct (n_count n <? n_cap n) eqn:E1; [|destruct (n_count n <? maxCap) eqn:E2].
  - apply Nat.ltb_lt in E1. cbn [ins_ok]. sp. cbn [is_leaf n_children n_items].
    repeat split; simpl; unfold n_count in *; simpl; rewrite ?insert_at_length; try lia.
    + apply nth_error_insert_at; auto.
    + apply firstn_insert_at; auto.
  - apply Nat.ltb_lt in E2. cbn [ins_ok]. sp. cbn [is_leaf n_children n_items].
    destruct (leaf_cap_ok ic (S (n_count n)) ltac:(lia)).
    repeat split; simpl; unfold n_count in *; simpl; rewrite ?insert_at_length; try lia.
    + apply nth_error_insert_at; auto.
    + apply firstn_insert_at; auto.
  - apply Nat.ltb_ge in E1, E2. assert (Hc : n_count n = maxCap) by lia.
    assert (Hs0 : split_index (n_count n) j < n_count n) by (apply split_ok; lia).
    rewrite (split_node_eq maxCap stepRaw blockCount ic n j x [] (fun i => ([], i)) Hj Hs0 (or_introl (conj H3 eq_refl))).
    unfold split_node_cut. rewrite Lf, H3.
    assert (En : firstn j (@nil node) ++ [] ++ skipn (S j) [] = []) by (rewrite firstn_nil, skipn_nil; reflexivity).
    rewrite En. rewrite firstn_nil, skipn_nil.
    set (ks' := insert_at j x (n_items n)).
    assert (Lk : length ks' = S maxCap) by (unfold ks'; rewrite insert_at_length; unfold n_count in Hc; lia).
    assert (Hs : split_index (n_count n) j < n_count n).
    { apply split_ok; lia. }
    set (s := split_index (n_count n) j) in *.
    assert (Ek : ks' = firstn j (n_items n) ++ x :: skipn j (n_items n)) by reflexivity.
    destruct (j <=? s) eqn:Ejs; cbn [negb ins_ok].
    + apply Nat.leb_le in Ejs.
      destruct (cut_leaf ic ks' (S s) ltac:(lia) ltac:(lia)) as (S1 & S2 & Fl).
      split; [exact S1|]. split; [exact S2|]. split; [exact Fl|]. split; [|split].
      * sp. unfold n_count. cbn [n_items BTreeModel.mk]. rewrite firstn_length. lia.
      * sp. cbn [n_items BTreeModel.mk]. rewrite nth_error_firstn' by lia. apply nth_error_insert_at; auto.
      * sp. cbn [is_leaf n_children n_items BTreeModel.mk]. rewrite firstn_firstn, Nat.min_l by lia.
        apply firstn_insert_at; auto.
    + apply Nat.leb_gt in Ejs.
      destruct (cut_leaf ic ks' s ltac:(lia) ltac:(lia)) as (S1 & S2 & Fl).
      split; [exact S1|]. split; [exact S2|]. split; [exact Fl|]. split; [|split].
      * sp. unfold n_count. cbn [n_items BTreeModel.mk]. rewrite skipn_length. lia.
      * sp. cbn [n_items BTreeModel.mk]. rewrite nth_error_skipn'. replace (S s + (j - s - 1)) with j by lia.
        apply nth_error_insert_at; auto.
      * sp. cbn [is_leaf n_children n_items BTreeModel.mk].
        replace (flatten (mk ic true (firstn s ks') [])) with (firstn s ks') by reflexivity.
        rewrite <- (firstn_insert_at j x (n_items n)) by auto. fold ks'.
        symmetry. apply firstn_cut; lia.
Qed.

(* a child position inside a (possibly over-full) node N: child c' = cX holds x at (q, i) *)
Definition vpos (d : nat) (x : Z) (N : node) (c' : nat) (q : list nat) (i : nat) (bef : list Z) : Prop :=
  exists cX, nth_error (n_children N) c' = Some cX /\ valid d q cX i /\ item_at q cX i = Some x /\
             pre N c' ++ before q cX i = bef.

Lemma vpos_done d x N c' q i bef :
  vpos d x N c' q i bef ->
  valid (S d) (c' :: q) N i /\ item_at (c' :: q) N i = Some x /\ before (c' :: q) N i = bef.
Proof. intros (cX & E & V & I & B). sp. rewrite E. auto. Qed.

(* the position survives the cut: left part *)
Lemma vpos_cut_left ic d x N c' q i bef s' :
  vpos d x N c' q i bef -> c' <= s' ->
  let n1 := mk ic false (firstn s' (n_items N)) (firstn (S s') (n_children N)) in
  valid (S d) (c' :: q) n1 i /\ item_at (c' :: q) n1 i = Some x /\ before (c' :: q) n1 i = bef.
Proof.
  intros (cX & E & V & I & B) Hc n1. subst n1. unfold BTreeModel.mk. sp. cbn [n_children n_items].
  rewrite nth_error_firstn' by lia. rewrite E. repeat split; auto.
  rewrite <- B. f_equal. rewrite pre_Node. unfold pre.
  rewrite <- firstn_map', !firstn_firstn, !Nat.min_l by lia. reflexivity.
Qed.

(* ... right part *)
Lemma vpos_cut_right ic d x N c' q i bef s' :
  vpos d x N c' q i bef -> s' < c' -> length (n_children N) = S (n_count N) ->
  let n1 := mk ic false (firstn s' (n_items N)) (firstn (S s') (n_children N)) in
  let n2 := mk ic false (skipn (S s') (n_items N)) (skipn (S s') (n_children N)) in
  valid (S d) ((c' - s' - 1) :: q) n2 i /\ item_at ((c' - s' - 1) :: q) n2 i = Some x /\
  flatten n1 ++ nth s' (n_items N) 0%Z :: before ((c' - s' - 1) :: q) n2 i = bef.
Proof.
  intros (cX & E & V & I & B) Hc L n1 n2. subst n1 n2. unfold BTreeModel.mk. sp. cbn [n_children n_items].
  rewrite nth_error_skipn'. replace (S s' + (c' - s' - 1)) with c' by lia. rewrite E. repeat split; auto.
  rewrite <- B. rewrite pre_Node. unfold pre. cbn [flatten].
  assert (Hc' : c' <= n_count N) by (apply nth_error_lt in E; lia).
  rewrite (zipcat_firstn_cut (map flatten (n_children N)) (n_items N) s' c') by (rewrite ?map_length; unfold n_count in *; lia).
  rewrite <- firstn_map', <- skipn_map'. rewrite <- app_assoc. reflexivity.
Qed.

Definition ins_up (ic : nat) (n : node) (c : nat) (r : ins_res) : ins_res :=
  match r with
  | Done ch' (q, i) => Done (Node (n_cap n) (n_items n) (replace_at c ch' (n_children n))) (c :: q, i)
  | Split c1 sep c2 rt (q, i) =>
      let off := if rt then 1 else 0 in
      if n_count n <? n_cap n then
        Done (Node (n_cap n) (insert_at c sep (n_items n))
                   (firstn c (n_children n) ++ c1 :: c2 :: skipn (S c) (n_children n)))
             ((c + off) :: q, i)
      else split_node ic n c sep [c1; c2] (fun i' => ((i' + off) :: q, i))
  end.

Lemma ins_cons ic c p n j x ch :
  nth_error (n_children n) c = Some ch -> ins ic (c :: p) n j x = ins_up ic n c (ins ic p ch j x).
Proof. intros E. cbn [BTreeModel.ins]. rewrite E. reflexivity. Qed.

Lemma ins_step ic d n c ch x bef aft r :
  shape (S d) n -> nth_error (n_children n) c = Some ch -> ins_ok d x bef aft r ->
  ins_ok (S d) x (pre n c ++ bef) (aft ++ post n c) (ins_up ic n c r).
Proof.
  intros Sh E R. pose proof Sh as (H1 & H2 & L & F & Cpx).
  assert (Hc : c < length (n_children n)) by (eapply nth_error_lt; eauto).
  destruct r as [ch' [q i] | c1 sep c2 rt [q i]]; cbn [ins_ok ins_up] in *.
  - destruct R as (Sch' & Fl & V & I & B).
    set (n' := Node (n_cap n) (n_items n) (replace_at c ch' (n_children n))).
    assert (E' : nth_error (n_children n') c = Some ch') by (apply replace_at_nth_error; auto).
    assert (L' : length (n_children n') = S (n_count n')) by (unfold n', n_count; simpl; rewrite replace_at_length; auto).
    split; [|split; [|split; [|split]]].
    + unfold n'. simpl. unfold n_count. simpl. rewrite replace_at_length by auto. repeat split; auto; try lia.
      apply Forall_replace_at; auto.
    + rewrite (flatten_split n' c ch' L' E'). unfold n'. rewrite pre_replace, post_replace by auto.
      rewrite Fl, <- !app_assoc. reflexivity.
    + sp. rewrite E'. exact V.
    + sp. rewrite E'. exact I.
    + sp. rewrite E'. unfold n'. rewrite pre_replace by auto. rewrite B. reflexivity.
  - destruct R as (S1 & S2 & Fl & Rpos).
    set (N := absorb (n_cap n) n c c1 sep c2).
    destruct (absorb_facts (n_cap n) n c ch c1 sep c2 L E) as (LN & CN & E1 & E2 & P1 & P2 & FN). fold N in LN, CN, E1, E2, P1, P2, FN.
    assert (FlN : flatten N = (pre n c ++ bef) ++ x :: aft ++ post n c).
    { rewrite FN, Fl, <- !app_assoc. reflexivity. }
    assert (FN' : Forall (shape d) (n_children N)).
    { unfold N, absorb. cbn [n_children]. apply Forall_app. split; [apply Forall_firstn; auto|].
      constructor; auto. constructor; auto. apply Forall_skipn; auto. }
    assert (VP : vpos d x N (c + if rt then 1 else 0) q i (pre n c ++ bef)).
    { destruct rt.
      - destruct Rpos as (V & I & B). rewrite Nat.add_1_r. exists c2. repeat split; auto.
        rewrite P2, <- B, <- !app_assoc. reflexivity.
      - destruct Rpos as (V & I & B). rewrite Nat.add_0_r. exists c1. repeat split; auto.
        rewrite P1, B. reflexivity. }
    destruct (n_count n <? n_cap n) eqn:Efull.
    + apply Nat.ltb_lt in Efull. change (Node (n_cap n) (insert_at c sep (n_items n)) (firstn c (n_children n) ++ c1 :: c2 :: skipn (S c) (n_children n))) with N.
      cbn [ins_ok]. split; [|split].
      * assert (CapN : n_cap N = n_cap n) by reflexivity.
        cbn [BTreeBase.shape]. rewrite CapN. repeat split; auto; lia.
      * exact FlN.
      * apply vpos_done. exact VP.
    + apply Nat.ltb_ge in Efull. assert (Hcnt : n_count n <= maxCap) by lia.
      assert (Hcc0 : c <= n_count n) by lia.
      assert (Hs0 : split_index (n_count n) c < n_count n) by (apply split_ok; lia).
      rewrite (split_node_eq maxCap stepRaw blockCount ic n c sep [c1; c2] _ Hcc0 Hs0 (or_intror (conj L eq_refl))).
      unfold split_node_cut. rewrite (shape_S_internal _ _ _ Sh).
      change (firstn c (n_children n) ++ [c1; c2] ++ skipn (S c) (n_children n)) with (n_children N).
      change (insert_at c sep (n_items n)) with (n_items N).
      assert (Hcc : c <= n_count n) by lia.
      assert (Hpos : 0 < n_count n).
      { lia. }
      assert (Hs : split_index (n_count n) c < n_count n) by (apply split_ok; lia).
      set (s := split_index (n_count n) c) in *.
      assert (LkN : length (n_items N) = S (n_count n)) by exact CN.
      assert (LcN : length (n_children N) = S (length (n_items N))) by exact LN.
      destruct (c <=? s) eqn:Ecs; cbn [negb ins_ok].
      * apply Nat.leb_le in Ecs.
        destruct (cut_int ic d (n_items N) (n_children N) (S s) ltac:(lia) ltac:(lia) LcN FN') as (Sa & Sb & Fc).
        rewrite <- flatten_unfold in Fc.
        split; [exact Sa|]. split; [exact Sb|]. split; [rewrite Fc; exact FlN|].
        apply (vpos_cut_left ic d x N _ q i _ (S s) VP). destruct rt; lia.
      * apply Nat.leb_gt in Ecs.
        destruct (cut_int ic d (n_items N) (n_children N) s ltac:(lia) ltac:(lia) LcN FN') as (Sa & Sb & Fc).
        rewrite <- flatten_unfold in Fc.
        split; [exact Sa|]. split; [exact Sb|]. split; [rewrite Fc; exact FlN|].
        replace (c - s - 1 + (if rt then 1 else 0)) with ((c + (if rt then 1 else 0)) - s - 1) by (destruct rt; lia).
        apply (vpos_cut_right ic d x N _ q i _ s VP); [destruct rt; lia | exact LN].
Qed.

Lemma ins_spec ic x d p n j :
  shape d n -> valid d p n j -> length p = d ->
  ins_ok d x (before p n j) (after p n j) (ins ic p n j x).
Proof.
  revert d n; induction p as [|c p IH]; intros d n Sh V Lp.
  - simpl in Lp. subst d. sp. rewrite (shape_0_leaf _ _ Sh). apply ins_leaf_ok; auto.
  - destruct (valid_cons _ _ _ _ _ V) as (d' & ch & -> & E & V').
    rewrite (ins_cons ic c p n j x ch E). sp. rewrite E.
    apply (ins_step ic d' n c ch); auto. apply IH; auto; try (eapply shape_child; eauto); simpl in Lp; lia.
Qed.

End Add.
