(* C19 -- where a Row's list pointer comes from.  DataTable::pvMakeRow (Gen_MakeRow.v) passes `&mCrew.GetFreeRaws()`, the protected
   constructor DataRow(columnList, raw, freeRaws) (Gen_DataRowOps.Ctor3) stores it in mFreeRaws: so the address the destructor later
   loads from / CASes on is the address the owner exchanges on -- composed here with the generated destructor, instead of instantiating
   mFreeRaws := hd by fiat as FreeListRefine.generated_destructor_is_model_push does.  Both regenerated from the headers on every run. *)
From Coq Require Import List Arith Bool PeanoNat ZArith Lia.
From MomoCommon Require Import GenPrelude.
From C19 Require Import FreeListPrims Gen_DataRow Treiber TreiberInv TreiberRows FreeListRefine.
From C19 Require Gen_MakeRow Gen_DataRowOps.
Import ListNotations.
Local Open Scope Z_scope.

(* the members of the Row object the table hands out for buffer `raw` *)
Definition made_row (crew_head cl raw : Z) : Z * Z * Z :=
  let '(a, b, c) := Gen_MakeRow.pvMakeRow crew_head cl raw in
  Gen_DataRowOps.Ctor3 0 0 0 0 0 0 a b c.

(* (mColumnList, mRaw, mFreeRaws) = (the table's column list, the buffer, the address of the table's list head) *)
Theorem generated_make_row_points_to_the_tables_head crew_head cl raw :
  made_row crew_head cl raw = (cl, raw, crew_head).
Proof. reflexivity. Qed.

(* the Row object of the model's LNew / LExtract (buffer r, list pointer valid) is the decoding of that generated object *)
Theorem LNew_object_is_the_generated_row r :
  let '(_, raw, fr) := made_row hd 1 (addr r) in
  mkObj true (Some r) true = mkObj true (if raw =? 0 then None else Some (Z.to_nat (raw - 2))) (fr =? hd).
Proof.
  rewrite generated_make_row_points_to_the_tables_head.
  destruct (Z.eqb_spec (addr r) 0); [exfalso; eapply addr_nonnull; eauto|].
  replace (Z.to_nat (addr r - 2)) with r by (unfold addr; lia). reflexivity.
Qed.

(* composition over generated code only: a Row made by the table (generated pvMakeRow + constructor), destroyed by the generated
   destructor, pushes onto the head the owner drains -- it is the machine's DBegin;DLoad;DLink;DCas *)
Theorem row_made_by_the_table_pushes_onto_the_tables_head s t r sp fuel :
  dpcs s t = Idle -> status s r = Detached -> (exists k, (k < fuel)%nat /\ sp k = false) ->
  let '(cl, raw, fr) := made_row hd 1 (addr r) in
  exists s' m',
    run s [DBegin t r; DLoad t; DLink t; DCas t false] = Some s' /\
    destroy sp fuel raw fr cl (mem_of s) 5 = Ok (tt, m', 5) /\
    forall a, m' a = mem_of s' a.
Proof.
  intros Hi Hd Hs. rewrite generated_make_row_points_to_the_tables_head.
  apply generated_destructor_is_model_push; auto.
Qed.

(* a table that hands its rows a null list pointer (mutant M13) is not this function *)
Theorem make_row_with_null_head_refuted : forall cl raw, (cl, raw, 0) <> made_row hd cl raw.
Proof. intros cl raw. rewrite generated_make_row_points_to_the_tables_head. unfold hd. intro H. inversion H. Qed.
