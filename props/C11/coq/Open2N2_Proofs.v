(* COPIED from props/C13/coq (only change: the library name); C11 uses these bucket-operation facts for GenFull.v *)
(* C13: the Open2N2 max-probe encoder, proved against the generated definitions. *)
From Coq Require Import ZArith Bool List Lia.
From MomoCommon Require Import GenPrelude.
From C11 Require Import Gen_Open2N2 ShiftLoop.
Import ListNotations.
Local Open Scope Z_scope.

(* reachable encodings: bytes in range; exponent > 0 only with mantissa >= 128; exponent <= 56 *)
Definition enc_inv (s : Z -> Z) : Prop :=
  0 <= s 0 < 256 /\ 0 <= s 1 < 256 /\ (0 < s 1 / 4 -> 128 <= s 0) /\ s 1 / 4 <= 56.

Definition decode (s : Z -> Z) : Z := pvGetMaxProbe s.
Definition count_bits (s : Z -> Z) : Z := pvGetCount s.

Lemma decode_val s : enc_inv s -> decode s = s 0 * 2 ^ (s 1 / 4).
Proof.
  intros (H0 & H1 & Hm & He). unfold decode, pvGetMaxProbe.
  rewrite Z.shiftr_div_pow2 by lia. change (2 ^ 2) with 4.
  assert (0 <= s 1 / 4) by (apply Z.div_pos; lia).
  rewrite Z.shiftl_mul_pow2 by lia.
  apply wrapU_small. split; [apply Z.mul_nonneg_nonneg; [lia|apply Z.pow_nonneg; lia]|].
  assert (2 ^ (s 1 / 4) <= 2 ^ 56) by (apply Z.pow_le_mono_r; lia).
  assert (0 < 2 ^ (s 1 / 4)) by (apply Z.pow_pos_nonneg; lia).
  change (2 ^ 64) with (256 * 2 ^ 56). nia.
Qed.

Lemma loop_is_shr fuel x y : pvUpdateMaxProbe_loop0 fuel x y = shr_loop 255 fuel x y.
Proof.
  revert x y; induction fuel as [|fuel IH]; intros x y; [reflexivity|].
  rewrite pvUpdateMaxProbe_loop0_eq, shr_loop_eq. destruct (Z.geb x 255); [apply IH|reflexivity].
Qed.

Lemma fuel_eq : fuel_of_pvUpdateMaxProbe = S 64.
Proof. reflexivity. Qed.

(* finite sweeps lifted by forallb_forall *)
Definition zrange (n : nat) : list Z := map Z.of_nat (seq 0 n).
Lemma in_zrange n x : 0 <= x < Z.of_nat n -> In x (zrange n).
Proof.
  intros H. unfold zrange. apply in_map_iff. exists (Z.to_nat x). split; [lia|].
  apply in_seq. lia.
Qed.

Definition sweep_lor : bool :=
  forallb (fun b => forallb (fun k =>
     Z.eqb (Z.lor b (Z.shiftl k 2)) (b + 4 * k)) (zrange 57)) (zrange 4).
Lemma sweep_lor_ok : sweep_lor = true. Proof. vm_compute. reflexivity. Qed.

Lemma lor_pack b k : 0 <= b < 4 -> 0 <= k <= 56 ->
  Z.lor b (Z.shiftl k 2) = b + 4 * k.
Proof.
  intros Hb Hk. pose proof sweep_lor_ok as H. unfold sweep_lor in H.
  rewrite forallb_forall in H. specialize (H b (in_zrange 4 b ltac:(lia))).
  rewrite forallb_forall in H. specialize (H k (in_zrange 57 k ltac:(lia))).
  apply Z.eqb_eq in H. exact H.
Qed.

Lemma land3 a : 0 <= a -> Z.land a 3 = a mod 4.
Proof. intros. change 3 with (Z.ones 2). rewrite Z.land_ones by lia. reflexivity. Qed.

Lemma pvGetCount_val s : 0 <= s 1 -> count_bits s = s 1 mod 4.
Proof. intros. unfold count_bits, pvGetCount. apply land3; assumption. Qed.

(* the slow path: probe > 255 *)
Lemma pvUpdateMaxProbe_spec s probe :
  enc_inv s -> 255 < probe <= 2 ^ 63 ->
  exists s', pvUpdateMaxProbe s probe = Ok (tt, s') /\ enc_inv s' /\
             probe <= decode s' /\ s' 1 mod 4 = s 1 mod 4.
Proof.
  intros Hinv Hp. pose proof Hinv as (H0 & H1 & Hm & He).
  unfold pvUpdateMaxProbe.
  rewrite (wrapU_small 64 (probe - 1)) by lia.
  rewrite loop_is_shr, fuel_eq.
  destruct (shr_loop_spec 255 ltac:(lia) 64 (probe - 1) 0) as (k & Hk & Hr & Hlt & Hmin);
    [ change (Z.of_nat 64) with 64; lia | lia | change (Z.of_nat 64) with 64; lia | ].
  rewrite Hr. cbn [Z.add].
  set (m := (probe - 1) / 2 ^ k) in *.
  assert (Hm0 : 0 <= m) by (apply Z.div_pos; [lia|apply Z.pow_pos_nonneg; lia]).
  assert (Hk56 : k <= 56).
  { destruct (Z.le_gt_cases k 56) as [|Hgt]; [assumption|exfalso].
    specialize (Hmin ltac:(lia)).
    assert ((probe - 1) / 2 ^ (k - 1) <= (probe - 1) / 2 ^ 56).
    { apply Z.div_le_compat_l; [lia|]. split; [apply Z.pow_pos_nonneg; lia|].
      apply Z.pow_le_mono_r; lia. }
    assert ((probe - 1) / 2 ^ 56 < 128).
    { apply Z.div_lt_upper_bound; [apply Z.pow_pos_nonneg; lia|].
      change (2 ^ 56 * 128) with (2 ^ 63). lia. }
    lia. }
  assert (Hk127 : 0 < k -> 127 <= m).
  { intros Hk0. specialize (Hmin Hk0). unfold m.
    assert (Hpk : 0 < 2 ^ (k - 1)) by (apply Z.pow_pos_nonneg; lia).
    replace (2 ^ k) with (2 ^ (k - 1) * 2) by (rewrite Z.mul_comm, <- Z.pow_succ_r by lia; f_equal; lia).
    rewrite <- Z.div_div by lia. apply Z.div_le_lower_bound; lia. }
  eexists. split; [reflexivity|].
  (* compute the new bytes *)
  set (s1 := upd s 0 (wrapU 8 (wrapU 8 m + 1))).
  assert (Hs1_0 : s1 0 = m + 1).
  { unfold s1. rewrite upd_same. rewrite (wrapU_small 8 m) by (change (2 ^ 8) with 256; lia).
    apply wrapU_small. change (2 ^ 8) with 256; lia. }
  assert (Hs1_1 : s1 1 = s 1) by (unfold s1; apply upd_other; lia).
  set (s2 := upd s1 1 (wrapU 8 (Z.land (s1 1) 3))).
  assert (Hs2_1 : s2 1 = s 1 mod 4).
  { unfold s2. rewrite upd_same, Hs1_1, land3 by lia.
    apply wrapU_small. change (2 ^ 8) with 256. pose proof (Z.mod_pos_bound (s 1) 4); lia. }
  assert (Hs2_0 : s2 0 = m + 1) by (unfold s2; rewrite upd_other by lia; exact Hs1_0).
  set (s3 := upd s2 1 (wrapU 8 (Z.lor (s2 1) (wrapU 8 (wrapU 64 (Z.shiftl k 2)))))).
  assert (Hsh : Z.shiftl k 2 = 4 * k) by (rewrite Z.shiftl_mul_pow2 by lia; change (2 ^ 2) with 4; lia).
  assert (Hs3_1 : s3 1 = s 1 mod 4 + 4 * k).
  { unfold s3. rewrite upd_same, Hs2_1.
    rewrite (wrapU_small 64 (Z.shiftl k 2)) by (rewrite Hsh; lia).
    rewrite (wrapU_small 8 (Z.shiftl k 2)) by (rewrite Hsh; change (2 ^ 8) with 256; lia).
    pose proof (Z.mod_pos_bound (s 1) 4 ltac:(lia)). rewrite lor_pack by lia.
    apply wrapU_small. change (2 ^ 8) with 256. lia. }
  assert (Hs3_0 : s3 0 = m + 1) by (unfold s3; rewrite upd_other by lia; exact Hs2_0).
  assert (Hmod : 0 <= s 1 mod 4 < 4) by (apply Z.mod_pos_bound; lia).
  assert (Hdiv : s3 1 / 4 = k).
  { rewrite Hs3_1. rewrite Z.mul_comm, Z.div_add by lia. rewrite Z.div_small by lia. lia. }
  assert (Hinv3 : enc_inv s3).
  { unfold enc_inv. rewrite Hs3_0, Hdiv, Hs3_1. repeat split; try lia. }
  split; [exact Hinv3|]. split.
  - rewrite (decode_val s3 Hinv3), Hs3_0, Hdiv. unfold m.
    pose proof (round_up_gt (probe - 1) k ltac:(lia) ltac:(lia)). lia.
  - rewrite Hs3_1. rewrite Z.mul_comm, Z.mod_add by lia. apply Z.mod_mod; lia.
Qed.

(* full update: any probe in [0, 2^63] *)
Theorem update_spec s probe :
  enc_inv s -> 0 <= probe <= 2 ^ 63 ->
  exists s', UpdateMaxProbe s probe = Ok (tt, s') /\ enc_inv s' /\
             probe <= decode s' /\ decode s <= decode s' /\ count_bits s' = count_bits s.
Proof.
  intros Hinv Hp. pose proof Hinv as (H0 & H1 & Hm & He).
  unfold UpdateMaxProbe. fold (decode s).
  destruct (Z.eqb_spec probe 0) as [->|Hne]; cbn [orb].
  { exists s. repeat split; try assumption; try lia.
    rewrite decode_val by assumption. apply Z.mul_nonneg_nonneg; [lia|apply Z.pow_nonneg; lia]. }
  destruct (Z.leb_spec probe (decode s)) as [Hle|Hgt].
  { exists s. repeat split; try assumption; lia. }
  destruct (Z.leb_spec probe 255) as [H255|H255].
  - (* small probe: exponent must be 0 *)
    assert (He0 : s 1 / 4 = 0).
    { assert (0 <= s 1 / 4) by (apply Z.div_pos; lia).
      destruct (Z.eq_dec (s 1 / 4) 0) as [|Hn]; [assumption|exfalso].
      rewrite decode_val in Hgt by assumption. specialize (Hm ltac:(lia)).
      assert (2 ^ 1 <= 2 ^ (s 1 / 4)) by (apply Z.pow_le_mono_r; lia).
      change (2 ^ 1) with 2 in *. nia. }
    eexists. split; [reflexivity|].
    set (s' := upd s 0 (wrapU 8 probe)).
    assert (Hs0 : s' 0 = probe) by (unfold s'; rewrite upd_same; apply wrapU_small; change (2 ^ 8) with 256; lia).
    assert (Hs1 : s' 1 = s 1) by (unfold s'; apply upd_other; lia).
    assert (Hinv' : enc_inv s') by (unfold enc_inv; rewrite Hs0, Hs1; repeat split; lia).
    split; [exact Hinv'|].
    rewrite (decode_val s' Hinv'), Hs0, Hs1, He0. rewrite decode_val in Hgt by assumption. rewrite He0 in Hgt.
    rewrite Z.pow_0_r, Z.mul_1_r in *. rewrite decode_val, He0, Z.pow_0_r, Z.mul_1_r by assumption.
    repeat split; try lia.
  - destruct (pvUpdateMaxProbe_spec s probe Hinv ltac:(lia)) as (s' & Hr & Hinv' & Hge & Hcnt).
    rewrite Hr. exists s'. split; [reflexivity|]. split; [assumption|]. split; [assumption|]. split; [lia|].
    destruct Hinv' as (? & ? & ? & ?). rewrite !pvGetCount_val by lia. exact Hcnt.
Qed.

(* any order of updates: the final bound covers every probe ever recorded *)
Fixpoint updates (s : Z -> Z) (ps : list Z) : outcome (Z -> Z) :=
  match ps with
  | [] => Ok s
  | p :: ps => match UpdateMaxProbe s p with
               | Ok (_, s') => updates s' ps
               | Stuck => Stuck | Fuel => Fuel | Exn => Exn
               end
  end.

Theorem updates_cover s ps :
  enc_inv s -> Forall (fun p => 0 <= p <= 2 ^ 63) ps ->
  exists s', updates s ps = Ok s' /\ enc_inv s' /\ decode s <= decode s' /\
             Forall (fun p => p <= decode s') ps /\ count_bits s' = count_bits s.
Proof.
  revert s. induction ps as [|p ps IH]; intros s Hinv Hall.
  - exists s. split; [reflexivity|]. split; [assumption|]. split; [lia|]. split; [constructor|reflexivity].
  - inversion Hall as [|? ? Hp Hps]; subst.
    destruct (update_spec s p Hinv Hp) as (s1 & Hr & Hinv1 & Hge & Hmono & Hc).
    destruct (IH s1 Hinv1 Hps) as (s2 & Hr2 & Hinv2 & Hmono2 & Hall2 & Hc2).
    exists s2. cbn [updates]. rewrite Hr. split; [assumption|]. split; [assumption|]. split; [lia|].
    split; [constructor; [lia|assumption]|congruence].
Qed.

(* non-vacuity: the empty bucket state satisfies the invariant *)
Example enc_inv_empty : enc_inv (fun _ => 0).
Proof. unfold enc_inv. cbn. repeat split; lia. Qed.
Example enc_inv_big : exists s, updates (fun _ => 0) [3; 1000; 77; 2 ^ 40 + 5] = Ok s /\ decode s = 2 ^ 40 + 2 ^ 33.
Proof. eexists. split; [vm_compute; reflexivity|]. vm_compute. reflexivity. Qed.
