(* C06 - insert(hint, node_type&&) of set/multiset, unordered_set, unordered_map as REGENERATED (fix 9f37105): which nested call
   receives the node decides whether a REFUSED element survives in the caller's handle.
     nested Insert(ExtractedItem&&)        : a refused item stays in the extracted item, i.e. in the caller's node   (tag -10)
     wrapper insert(node_type&&).position  : the refused node is moved into the temporary insert_return_type and dies (tag -11;
                                             in the gen configs this primitive has type Z -> Z * Z, so code that takes this path does not
                                             even type-check against `.position` = position_ : Z -> Z: the prove stage breaks)
     nested Add(hint, ExtractedItem&&)     : always inserts                                                          (tag -20 - hint) *)
From Coq Require Import List ZArith Bool Lia Arith.
From C06 Require Import Spec SpecProofs WrapOrdered GenPrims GenRefine.
From C06 Require Gen_SetHint Gen_SetNodeHint Gen_MSetNodeHint Gen_USetNodeHint Gen_UMapNodeHint.
Import ListNotations.
Local Open Scope Z_scope.

(* std: "nh is empty if the insertion succeeds, unchanged if it fails"; returns the position of the element with that key *)
Definition spec_insert_hint_node (multi : bool) (l : list elem) (h : nat) (node : option elem) : nat * list elem * option elem :=
  match node with
  | None => (length l, l, None)
  | Some x => let '(i, ins, l') := ord_insert_hint multi h x l in (i, l', if ins then None else Some x)
  end.
Definition spec_uinsert_hint_node (l : list elem) (node : option elem) : option elem * list elem * option elem :=
  match node with
  | None => (None, l, None)
  | Some x => let '(e, ins, l') := u_insert false x l in (Some e, l', if ins then None else Some x)
  end.

Definition node_code (node : option elem) : Z := match node with None => 0 | Some _ => 1 end.
Definition node_elem (node : option elem) : elem := match node with None => dflt | Some x => x end.

Section SetNode.
Variable multi : bool.
Variable l : list elem.
Definition n_check (h k : Z) : bool :=
  fst (Gen_SetHint.pvCheckHint multi o_neqb (o_end l) o_begin o_prev (o_deref l) o_less (o_lb l) h k).
Definition interp_node (node : option elem) (r : Z) : nat * list elem * option elem :=
  let x := node_elem node in
  if r =? -10 then (let '(i, ins, l') := nested_insert multi x l in (i, l', if ins then None else Some x))
  else if r =? -11 then (let '(i, ins, l') := nested_insert multi x l in (i, l', None))
  else if r <=? -20 then (let h' := snd (set_check_hint multi l (Z.to_nat (- 20 - r)) (key x)) in (h', insert_at h' x l, None))
  else (Z.to_nat r, l, node).
Definition gen_set_insert_hint_node (node : option elem) (h : nat) : nat * list elem * option elem :=
  interp_node node (Gen_SetNodeHint.insert_hint_node (o_end l) (fun n => n =? 0) (fun _ => key (node_elem node)) (fun n => n) (fun n => n)
                 (fun _ => -10) (fun z => z) n_check (fun hh _ => - 20 - hh) (Z.of_nat h) (node_code node)).

Theorem gen_set_insert_hint_node_spec node h : sorted multi l -> (h <= length l)%nat ->
  gen_set_insert_hint_node node h = spec_insert_hint_node multi l h node.
Proof.
  intros Hs Hh. unfold gen_set_insert_hint_node, Gen_SetNodeHint.insert_hint_node, spec_insert_hint_node, n_check.
  destruct node as [e|]; simpl node_code; simpl node_elem.
  - change (1 =? 0) with false. cbv iota.
    rewrite gen_set_check_hint_refines. rewrite <- (set_hint_refines multi l h e Hs Hh). unfold set_insert_hint.
    destruct (set_check_hint multi l h (key e)) as [ok h'] eqn:CH. unfold zpos; simpl fst.
    destruct ok; simpl negb; cbv iota.
    + unfold interp_node. assert (N1 : (- 20 - Z.of_nat h =? -10) = false) by (apply Z.eqb_neq; lia).
      assert (N2 : (- 20 - Z.of_nat h =? -11) = false) by (apply Z.eqb_neq; lia).
      assert (N3 : (- 20 - Z.of_nat h <=? -20) = true) by (apply Z.leb_le; lia).
      rewrite N1, N2, N3. replace (Z.to_nat (- 20 - (- 20 - Z.of_nat h))) with h by lia.
      simpl node_elem. rewrite CH. reflexivity.
    + unfold interp_node. simpl. destruct (nested_insert multi e l) as [[i ins] l']. reflexivity.
  - change (0 =? 0) with true. cbv iota. unfold interp_node, o_end.
    assert (N1 : (Z.of_nat (length l) =? -10) = false) by (apply Z.eqb_neq; lia).
    assert (N2 : (Z.of_nat (length l) =? -11) = false) by (apply Z.eqb_neq; lia).
    assert (N3 : (Z.of_nat (length l) <=? -20) = false) by (apply Z.leb_gt; lia).
    rewrite N1, N2, N3, Nat2Z.id. reflexivity.
Qed.
End SetNode.

Lemma mset_node_hint_same_code : Gen_MSetNodeHint.insert_hint_node = Gen_SetNodeHint.insert_hint_node.
Proof. reflexivity. Qed.

Section UNode.
Variable l : list elem.
Definition interp_unode (node : option elem) (r : Z) : option elem * list elem * option elem :=
  let x := node_elem node in
  if r =? -10 then (let '(e, ins, l') := u_insert false x l in (Some e, l', if ins then None else Some x))
  else if r =? -11 then (let '(e, ins, l') := u_insert false x l in (Some e, l', None))
  else (None, l, node).
Definition gen_uset_insert_hint_node (node : option elem) : option elem * list elem * option elem :=
  interp_unode node (Gen_USetNodeHint.insert_hint_node (-1) (fun n => n =? 0) (fun n => n) (fun n => n) (fun _ => -10) (fun z => z) (node_code node)).
Theorem gen_uset_insert_hint_node_spec node : gen_uset_insert_hint_node node = spec_uinsert_hint_node l node.
Proof.
  unfold gen_uset_insert_hint_node, Gen_USetNodeHint.insert_hint_node, spec_uinsert_hint_node, interp_unode.
  destruct node as [e|]; simpl; [destruct (u_insert false e l) as [[e' ins] l']|]; reflexivity.
Qed.
End UNode.
Lemma umap_node_hint_same_code : Gen_UMapNodeHint.insert_hint_node = Gen_USetNodeHint.insert_hint_node.
Proof. reflexivity. Qed.

Lemma node_hint_same_code :
  Gen_MSetNodeHint.insert_hint_node = Gen_SetNodeHint.insert_hint_node /\ Gen_UMapNodeHint.insert_hint_node = Gen_USetNodeHint.insert_hint_node.
Proof. exact (conj mset_node_hint_same_code umap_node_hint_same_code). Qed.

(* the pre-fix path (wrapper insert(node&&).position, tag -11) loses a refused element: not the std contract *)
Lemma node_hint_prefix_refuted : exists l node, interp_unode l node (-11) <> spec_uinsert_hint_node l node.
Proof. exists [(1, 5)], (Some (1, 6)). vm_compute. intros H. discriminate. Qed.
