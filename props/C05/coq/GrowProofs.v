(* C05 -- the growth policy ArraySettings::GrowCapacity (GENERATED Gallina, Gen_Grow.v) never returns less than requested *)
From Coq Require Import ZArith Bool Lia.
From MomoCommon Require Import GenPrelude.
From C05 Require Import Gen_Grow.
Local Open Scope Z_scope.

Lemma grow_capacity_ge (growOnReserve : bool) (capacity minNew cause : Z) (linear : bool) :
  0 <= capacity < minNew -> minNew < 2 ^ 64 ->
  exists r, GrowCapacity growOnReserve capacity minNew cause linear = Ok r /\ minNew <= r < 2 ^ 64.
Proof.
  intros Hc Hm. unfold GrowCapacity.
  destruct (Z.ltb_spec capacity minNew); [|lia].
  destruct (andb _ _); [eexists; split; [reflexivity|lia]|].
  match goal with |- exists r, Ok (if Z.ltb ?x minNew then minNew else ?y) = Ok r /\ _ =>
    assert (Hx : 0 <= x < 2 ^ 64) end.
  { destruct (Z.leb_spec capacity 2); [lia|].
    destruct (Z.leb_spec capacity 64); [apply wrapU_range; lia|].
    destruct (orb _ _); apply wrapU_range; lia. }
  eexists; split; [reflexivity|].
  match goal with |- context [Z.ltb ?x minNew] => destruct (Z.ltb_spec x minNew) end; lia.
Qed.

(* the assertion capacity < minNewCapacity is the only way GrowCapacity can get stuck *)
Lemma grow_capacity_stuck_iff (growOnReserve : bool) (capacity minNew cause : Z) (linear : bool) :
  GrowCapacity growOnReserve capacity minNew cause linear = Stuck <-> minNew <= capacity.
Proof.
  unfold GrowCapacity. destruct (Z.ltb_spec capacity minNew).
  - split; [|lia]. destruct (andb _ _); discriminate.
  - split; auto.
Qed.

Example grow_capacity_values :
  GrowCapacity true 0 1 0 false = Ok 4 /\ GrowCapacity true 4 5 0 false = Ok 8 /\
  GrowCapacity true 100 101 0 false = Ok 164 /\ GrowCapacity true 200 201 0 false = Ok 292 /\
  GrowCapacity true 200 201 0 true = Ok 264 /\ GrowCapacity false 8 9 1 false = Ok 9 /\
  GrowCapacity true 8 100 1 false = Ok 100.
Proof. vm_compute. repeat split; reflexivity. Qed.
