(* C03 (copied from props/C09/coq/PoolBlkPrims.v): primitives used by the GENERATED MemPool::pvNewBlock / MergeFrom list surgery (Gen_MemPoolBlk.v, Gen_MemPoolMerge.v).
   The bookkeeping bytes of a buffer are four maps keyed by the buffer ADDRESS: bbFirst / bbCount (the two int8_t of BufferBytes),
   nextB / prevB (the two pointers); nfi is keyed by the BLOCK address (the next-free index stored in a free block).
   pvGetBufferBytes(buffer) is the identity primitive; the struct local `bytes` is flattened into bytes_firstFreeBlockIndex /
   bytes_freeBlockCount read through bbFirst / bbCount; pvSetBufferBytes(buffer, bytes) writes both maps. *)
From Coq Require Import ZArith.
From MomoCommon Require Import GenPrelude.
Local Open Scope Z_scope.

Definition bb_pack (first count : Z) : Z * Z := (first, count).
Definition set_first (m : Z -> Z) (buffer : Z) (bytes : Z * Z) : Z -> Z := upd m buffer (fst bytes).
Definition set_count (m : Z -> Z) (buffer : Z) (bytes : Z * Z) : Z -> Z := upd m buffer (snd bytes).
Definition store_ptr (m : Z -> Z) (buffer v : Z) : Z -> Z := upd m buffer v.   (* pvSetNextBuffer(buffer, v) / pvSetPrevBuffer(buffer, v) *)
