(* C08 driver for the cxx2coq-GENERATED functions only (Gen_*.v): kept apart from driver.ml so that a change of shape of
   a generated function (which breaks this file's typing) cannot take the hand-model correspondence down with it. *)
open Zutil
open BinNums
let zs = string_of_z
(* ------------------------------------------------------------------ generated kernels (translator validation) *)
let out_z = function GenPrelude.Ok v -> zs v | GenPrelude.Stuck -> "Stuck" | GenPrelude.Fuel -> "Fuel" | GenPrelude.Exn -> "Exn"
let run_gen (w : string list) : string =
  match w with
  | ["gc"; cap; mn] -> out_z (Gen_GrowCapacity.coq_GrowCapacity true (z_of_string cap) (z_of_string mn) (z_of_int 0) false)
  | ["ms"; p; c] -> zs (Gen_ArrayBucket.pvMakeState (z_of_string p) (z_of_string c)) ^ " " ^ zs (Gen_ArrayBucket_s.pvMakeState (z_of_string p) (z_of_string c))
  | ["gp"; st] ->
      let load = fun _ -> z_of_string st in
      let ptr = z_of_int 4096 in
      let idx = Gen_ArrayBucket.pvGetMemPoolIndex load ptr in
      let poolf = fun q -> match Gen_ArrayBucket.pvGetMemPoolIndex load q with GenPrelude.Ok v -> v | _ -> z_of_int 0 in
      out_z idx ^ " " ^ out_z (Gen_ArrayBucket_cnt.pvGetFastCount load poolf ptr)
  | ["fi"; which; n] ->
      if which = "7" then out_z (Gen_ArrayBucket.pvGetFastMemPoolIndex (z_of_int 7) (z_of_string n))
      else out_z (Gen_ArrayBucket_s.pvGetFastMemPoolIndex (z_of_int 2) (z_of_string n))
  | _ -> "?"

(* Gen_HashMultiMap: count / version / returned position of pvAddValue, Remove(iter), pvRemoveValues, Clear *)
let run_hm (ops : string list) : string =
  let cnt = ref (z_of_int 0) and ver = ref (z_of_int 0) in
  let keys : (int * int ref) list ref = ref [] in
  let klen k = try !(Stdlib.List.assoc k !keys) with Not_found -> -1 in
  let z0 = z_of_int 0 in
  let saved : coq_Z option ref = ref None in
  let recs = Stdlib.List.map (fun tok ->
    let args = if String.length tok > 2 then Stdlib.List.map int_of_string (String.split_on_char ',' (String.sub tok 2 (String.length tok - 2))) else [] in
    let a i = Stdlib.List.nth args i in
    match tok.[0] with
    | 'a' -> let (c, v) = Gen_HashMultiMap.pvAddValue !cnt !ver z0 false in cnt := c; ver := v;
             (if klen (a 0) < 0 then keys := (a 0, ref 1) :: !keys else incr (Stdlib.List.assoc (a 0) !keys));
             zs c ^ " " ^ zs v
    | 'r' -> if klen (a 0) < 0 || a 1 >= klen (a 0) then "skip" else begin
               let (((c, v), ri), rm) = Gen_HashMultiMap.coq_Remove_iter !cnt !ver z0 false (z_of_int (a 1)) in
               cnt := c; ver := v; decr (Stdlib.List.assoc (a 0) !keys);
               Printf.sprintf "%s %s %s %s" (zs c) (zs v) (zs ri) (if rm then "true" else "false") end
    | 'v' | 'K' -> if klen (a 0) < 0 then "skip" else begin
               let (c, v) = Gen_HashMultiMap.pvRemoveValues !cnt !ver z0 false (z_of_int (klen (a 0))) in
               cnt := c; ver := v;
               (if tok.[0] = 'v' then (Stdlib.List.assoc (a 0) !keys) := 0 else keys := Stdlib.List.remove_assoc (a 0) !keys);
               zs c ^ " " ^ zs v end
    | 'c' -> let (c, v) = Gen_HashMultiMap.coq_Clear false !cnt !ver z0 false in cnt := c; ver := v; keys := []; zs c ^ " " ^ zs v
    | 'I' -> if klen (a 0) < 0 || a 1 >= klen (a 0) then "skip" else (saved := Some !ver; "it")
    | 'C' -> (match !saved with
              | None -> "skip"
              | Some v -> let ae = (args = [] || a 0 <> 0) in
                  (match Gen_VersionCheck.coq_Check_cont (fun _ -> !ver) (z_of_int 4096) v (z_of_int 4096) ae with
                   | GenPrelude.Ok _ -> "ok" | GenPrelude.Exn -> "throw" | _ -> "stuck"))
    | 'E' -> let ae = (args = [] || a 0 <> 0) in
             (match Gen_VersionCheck.coq_Check_cont (fun _ -> !ver) z0 z0 (z_of_int 4096) ae with
              | GenPrelude.Ok _ -> "ok" | GenPrelude.Exn -> "throw" | _ -> "stuck")
    | 'U' -> (match !saved with
              | None -> "skip"
              | Some v -> (* the generated VersionKeeper::Check (exception mode): the counter lives at some non-null address *)
                  (match Gen_VersionCheck.coq_Check_self (fun _ -> !ver) (z_of_int 4096) v with
                   | GenPrelude.Ok _ -> "ok" | GenPrelude.Exn -> "throw" | _ -> "stuck"))
    | 'D' -> (* the moved-from object: mValueCount = 0 (move constructor), null crew; Clear must change nothing *)
             let (c, _) = Gen_HashMultiMap.coq_Clear true z0 z0 z0 false in zs c ^ " dead 1"
    | _ -> "?") ops in
  String.concat "|" recs


let () = iter_lines (fun line ->
  match words line with
  | ("gc" | "ms" | "gp" | "fi") :: _ as w -> print_endline (run_gen w)
  | ("hm" | "hx") :: ops -> print_endline (run_hm ops)
  | _ -> print_endline "?")
