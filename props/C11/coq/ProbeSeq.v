(* Copied from props/C13/coq/ProbeSeq.v (the part that does not depend on generated definitions): triangular (quadratic)
   probing visits every bucket of a power-of-two table.  Only change: the section hypothesis is 0 <= n instead of 0 <= n <= 63. *)
From Coq Require Import ZArith Znumtheory Zpow_facts Bool List Lia.
Import ListNotations.
Local Open Scope Z_scope.

Definition tri (k : Z) : Z := k * (k + 1) / 2.

Lemma two_tri k : 2 * tri k = k * (k + 1).
Proof.
  unfold tri.
  assert (H: (k * (k + 1)) mod 2 = 0).
  { rewrite Z.mul_mod by lia.
    assert (Hk: k mod 2 = 0 \/ k mod 2 = 1) by (pose proof (Z.mod_pos_bound k 2); lia).
    destruct Hk as [Hk|Hk].
    - rewrite Hk. reflexivity.
    - assert (Hk1 : (k+1) mod 2 = 0).
      { rewrite Z.add_mod by lia. rewrite Hk. reflexivity. }
      rewrite Hk1. rewrite Z.mul_0_r. reflexivity. }
  pose proof (Z.div_mod (k * (k+1)) 2 ltac:(lia)). lia.
Qed.

Lemma tri_succ k : tri (k + 1) = tri k + (k + 1).
Proof. pose proof (two_tri k). pose proof (two_tri (k + 1)). nia. Qed.

Lemma odd_rel_prime_pow2 x m : 0 <= m -> x mod 2 = 1 -> rel_prime (2 ^ m) x.
Proof.
  intros Hm Hx. apply rel_prime_sym. apply rel_prime_Zpower_r; [exact Hm|].
  apply Zgcd_1_rel_prime.
  pose proof (Z.gcd_divide_r x 2) as Hd. pose proof (Z.gcd_divide_l x 2) as Hl.
  pose proof (Z.gcd_nonneg x 2) as Hn.
  assert (Hle: Z.gcd x 2 <= 2) by (apply Z.divide_pos_le; [lia|exact Hd]).
  assert (Hc: Z.gcd x 2 = 0 \/ Z.gcd x 2 = 1 \/ Z.gcd x 2 = 2) by lia.
  destruct Hc as [H0|[H1|H2]].
  - apply Z.gcd_eq_0_r in H0. lia.
  - exact H1.
  - rewrite H2 in Hl. apply Z.mod_divide in Hl; lia.
Qed.

Theorem tri_inj n i j : 0 <= n -> 0 <= i -> i < j -> j < 2 ^ n ->
  (tri j - tri i) mod 2 ^ n <> 0.
Proof.
  intros Hn Hi Hij Hj Hmod.
  assert (Hp: 0 < 2 ^ n) by (apply Z.pow_pos_nonneg; lia).
  apply Z.mod_divide in Hmod; [|lia].
  set (a := j - i). set (b := i + j + 1).
  assert (Hab: 2 * (tri j - tri i) = a * b).
  { rewrite Z.mul_sub_distr_l, !two_tri. unfold a, b. ring. }
  assert (Hdiv: (2 ^ (n + 1) | a * b)).
  { rewrite <- Hab. rewrite Z.pow_add_r by lia. rewrite Z.mul_comm.
    apply Z.mul_divide_mono_l. exact Hmod. }
  assert (Hpar: a mod 2 = 1 \/ b mod 2 = 1).
  { assert (Hs: (a + b) mod 2 = 1).
    { unfold a, b. replace (j - i + (i + j + 1)) with (1 + j * 2) by ring.
      rewrite Z.mod_add by lia. reflexivity. }
    pose proof (Z.mod_pos_bound a 2 ltac:(lia)). pose proof (Z.mod_pos_bound b 2 ltac:(lia)).
    rewrite Z.add_mod in Hs by lia.
    assert (Ha: a mod 2 = 0 \/ a mod 2 = 1) by lia.
    assert (Hb: b mod 2 = 0 \/ b mod 2 = 1) by lia.
    destruct Ha as [Ha|Ha]; destruct Hb as [Hb|Hb]; rewrite Ha, Hb in Hs; cbn in Hs; try lia; auto. }
  assert (Hpow: 2 ^ (n + 1) = 2 * 2 ^ n) by (rewrite Z.pow_add_r by lia; lia).
  destruct Hpar as [Ha|Hb].
  - assert (Hd: (2 ^ (n + 1) | b)).
    { apply Gauss with a; [exact Hdiv|]. apply odd_rel_prime_pow2; lia. }
    apply Z.divide_pos_le in Hd; unfold b in *; lia.
  - assert (Hd: (2 ^ (n + 1) | a)).
    { apply Gauss with b; [rewrite Z.mul_comm; exact Hdiv|]. apply odd_rel_prime_pow2; lia. }
    apply Z.divide_pos_le in Hd; unfold a in *; lia.
Qed.

Lemma NoDup_snoc {A} (l : list A) x : NoDup l -> ~ In x l -> NoDup (l ++ [x]).
Proof.
  induction l as [|a l IH]; intros Hnd Hin; cbn.
  - constructor; [intros []|constructor].
  - inversion Hnd as [|? ? Ha Hl]; subst. constructor.
    + intros Hc. apply in_app_or in Hc. destruct Hc as [Hc|[Hc|[]]]; [contradiction|subst; apply Hin; left; reflexivity].
    + apply IH; [assumption|intros Hc; apply Hin; right; exact Hc].
Qed.

(* The probe sequence of HashSet::pvFind / pvAddNogrow: index_0 = start,
   index_p = GetNextBucketIndex(index_{p-1}, hash, bucketCount, p). *)
Section Seq.
Variable next : Z -> Z -> Z -> Z.     (* bucketIndex bucketCount probe *)
Variable n : Z.
Hypothesis Hn : 0 <= n.
Hypothesis next_spec : forall i p, 0 <= i < 2 ^ n -> 0 <= p < 2 ^ n -> next i (2 ^ n) p = (i + p) mod 2 ^ n.

Fixpoint probe_index (start : Z) (p : nat) : Z :=
  match p with
  | O => start
  | S q => next (probe_index start q) (2 ^ n) (Z.of_nat (S q))
  end.

Lemma pow_n_pos : 0 < 2 ^ n. Proof. apply Z.pow_pos_nonneg; lia. Qed.

Lemma probe_index_closed start p : 0 <= start < 2 ^ n -> Z.of_nat p < 2 ^ n ->
  probe_index start p = (start + tri (Z.of_nat p)) mod 2 ^ n.
Proof.
  intros Hs. pose proof pow_n_pos as Hpos. induction p as [|p IH]; intros Hp.
  - cbn. change (tri 0) with 0. rewrite Z.add_0_r. symmetry; apply Z.mod_small; lia.
  - cbn [probe_index]. rewrite IH by lia.
    rewrite next_spec; [| apply Z.mod_pos_bound; lia | lia].
    rewrite Zplus_mod_idemp_l. f_equal.
    rewrite (Nat2Z.inj_succ p). unfold Z.succ. rewrite tri_succ. lia.
Qed.

Lemma probe_index_range start p : 0 <= start < 2 ^ n -> Z.of_nat p < 2 ^ n ->
  0 <= probe_index start p < 2 ^ n.
Proof.
  intros Hs Hp. rewrite probe_index_closed by assumption. apply Z.mod_pos_bound. apply pow_n_pos.
Qed.

Lemma probe_index_inj start p q : 0 <= start < 2 ^ n ->
  (p < q)%nat -> Z.of_nat q < 2 ^ n -> probe_index start p <> probe_index start q.
Proof.
  intros Hs Hpq Hq Heq. pose proof pow_n_pos as Hpos.
  rewrite !probe_index_closed in Heq by lia.
  apply (tri_inj n (Z.of_nat p) (Z.of_nat q)); try lia.
  assert (H : (start + tri (Z.of_nat q) - (start + tri (Z.of_nat p))) mod 2 ^ n = 0).
  { rewrite Zminus_mod, Heq, Z.sub_diag. apply Z.mod_0_l. lia. }
  replace (start + tri (Z.of_nat q) - (start + tri (Z.of_nat p))) with (tri (Z.of_nat q) - tri (Z.of_nat p)) in H by ring.
  exact H.
Qed.

(* all 2^n probes hit pairwise distinct buckets, hence (pigeonhole) every bucket *)
Theorem probe_seq_covers start b : 0 <= start < 2 ^ n -> 0 <= b < 2 ^ n ->
  exists p, Z.of_nat p < 2 ^ n /\ probe_index start p = b.
Proof.
  intros Hs Hb. pose proof pow_n_pos as Hpos.
  set (N := Z.to_nat (2 ^ n)).
  set (l := map (probe_index start) (seq 0 N)).
  assert (Hnd : NoDup l).
  { unfold l. clear Hb b.
    assert (Hgen : forall m, (m <= N)%nat -> NoDup (map (probe_index start) (seq 0 m))).
    { induction m as [|m IHm]; intros Hm; [constructor|].
      rewrite seq_S, map_app. cbn [map]. apply NoDup_snoc; [apply IHm; lia|].
      intros Hin. apply in_map_iff in Hin. destruct Hin as (q & Heq & Hq). apply in_seq in Hq.
      apply (probe_index_inj start q m Hs); [lia| unfold N in Hm; lia | exact Heq]. }
    apply Hgen. lia. }
  assert (Hincl : incl l (map Z.of_nat (seq 0 N))).
  { intros x Hx. unfold l in Hx. apply in_map_iff in Hx. destruct Hx as (q & <- & Hq). apply in_seq in Hq.
    pose proof (probe_index_range start q Hs ltac:(unfold N in Hq; lia)) as Hr.
    apply in_map_iff. exists (Z.to_nat (probe_index start q)). split; [lia|]. apply in_seq. unfold N. lia. }
  assert (Hlen : (length (map Z.of_nat (seq 0 N)) <= length l)%nat).
  { unfold l. rewrite !map_length. lia. }
  pose proof (NoDup_length_incl Hnd Hlen Hincl) as Hrev.
  assert (Hbin : In b (map Z.of_nat (seq 0 N))).
  { apply in_map_iff. exists (Z.to_nat b). split; [lia|]. apply in_seq. unfold N. lia. }
  apply Hrev in Hbin. unfold l in Hbin. apply in_map_iff in Hbin. destruct Hbin as (p & Hp & Hin).
  apply in_seq in Hin. exists p. split; [unfold N in Hin; lia|exact Hp].
Qed.
End Seq.

