(* C01 -- per-bucket-kind facts assumed by the instantiation, proved against regenerated leaves where cxx2coq can translate them.
   Translated: BucketUnlimP::{IsFull, WasFull, GetMaxProbe}; BucketLimP1::{pvGetCount, pvGetMemPoolIndex(), IsFull}.
   NOT translatable with the current translator (hand-mirrored in prop.py params(), validated by the per-bucket WasFull / item-order
   comparison of the shape correspondence): the WasFull rules of LimP1 / Lim4 / LimP (they compare the two OVERLOADS
   pvGetMemPoolIndex() and pvGetMemPoolIndex(maxCount), which the translator resolves by name only; LimP1 also reads the
   static constant Params::skipFirstMemPool of a nested class), Lim4's and LimP's pointer-state packing (mPtrState arithmetic with
   memory-pool pointers), and every Bucket::Remove of these kinds (itemReplacer(items[count-1], *iter): the element that moves into
   the hole is the last one -- observed by the shape correspondence after every removal). *)
From Coq Require Import ZArith Bool Lia.
From MomoCommon Require Import GenPrelude.
From C01 Require Gen_UnlimP Gen_LimP1.
Local Open Scope Z_scope.

(* UnlimP: never full, never "was full", max probe 0  ==  the model parameters unlimited = true, wf0 = false, bound kind 1 *)
Theorem unlimp_facts : Gen_UnlimP.IsFull = false /\ Gen_UnlimP.WasFull = false /\ Gen_UnlimP.GetMaxProbe = 0.
Proof. repeat split; reflexivity. Qed.

(* LimP1: mState = (memPoolIndex << 4) | count; the decoders invert the packing and IsFull <-> count = maxCount (the model's cap) *)
Theorem limp1_state_decoders maxCount idx count : 0 <= idx < 16 -> 0 <= count < 16 ->
  Gen_LimP1.pvGetCount (idx * 16 + count) = count /\
  Gen_LimP1.pvGetMemPoolIndex (idx * 16 + count) = idx /\
  (Gen_LimP1.IsFull maxCount (idx * 16 + count) = true <-> count = maxCount).
Proof.
  intros Hi Hc. unfold Gen_LimP1.IsFull, Gen_LimP1.pvGetCount, Gen_LimP1.pvGetMemPoolIndex.
  assert (E1 : Z.land (idx * 16 + count) 15 = count).
  { change 15 with (Z.ones 4). rewrite Z.land_ones by lia. change (2 ^ 4) with 16.
    rewrite Z.add_comm, Z.mod_add by lia. apply Z.mod_small. lia. }
  assert (E2 : Z.shiftr (idx * 16 + count) 4 = idx).
  { rewrite Z.shiftr_div_pow2 by lia. change (2 ^ 4) with 16. rewrite Z.add_comm, Z.div_add by lia.
    rewrite Z.div_small by lia. lia. }
  rewrite E1, E2. split; auto. split; auto. apply Z.eqb_eq.
Qed.
