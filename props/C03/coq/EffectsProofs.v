(* C03 -- proofs about the L2 resource machine (Effects.v).
   A small Hoare logic over the monad ([post]) and, for every mechanism, a `*_no_leak` theorem: for EVERY failure
   schedule (the schedule is part of the arbitrary initial state) the mechanism never gets Stuck (no primitive is
   applied to a cell or block in the wrong state) and ends - normally or by exception - in a state whose occupied
   cells and live blocks are exactly those the abstract state accounts for. *)
From Coq Require Import ZArith Bool List Lia.
From C03 Require Import Effects.
Import ListNotations.
Local Open Scope Z_scope.

(* ------------------------------------------------------------------ state summaries *)
Definition occf (s : rstate) (l : loc) : bool := occ (cells s l).

(* the occupied cells are exactly [f], the live blocks exactly [bs], the next fresh block id is [nb] *)
Definition st_is (s : rstate) (f : loc -> bool) (bs : list (Z * (Z * Z))) (nb : Z) : Prop :=
  (forall l, occf s l = f l) /\ blocks s = bs /\ nextb s = nb.

Lemma st_is_ext s f g bs nb : (forall l, f l = g l) -> st_is s f bs nb -> st_is s g bs nb.
Proof. intros E (H & Hb & Hn). split; [|auto]. intros l. rewrite H. apply E. Qed.

Definition inrng (r b : Z) (n : nat) (l : loc) : bool :=
  Z.eqb (fst l) r && Z.leb b (snd l) && Z.ltb (snd l) (b + Z.of_nat n).

Lemma loc_eqb_spec a b : reflect (a = b) (loc_eqb a b).
Proof.
  destruct a as [a1 a2], b as [b1 b2]. unfold loc_eqb; simpl.
  destruct (Z.eqb_spec a1 b1), (Z.eqb_spec a2 b2); simpl; constructor; congruence.
Qed.
Lemma loc_eqb_refl a : loc_eqb a a = true.
Proof. destruct (loc_eqb_spec a a); congruence. Qed.

Lemma inrng_spec r b n l : reflect (fst l = r /\ b <= snd l < b + Z.of_nat n) (inrng r b n l).
Proof.
  apply iff_reflect. unfold inrng. rewrite !andb_true_iff, Z.eqb_eq, Z.leb_le, Z.ltb_lt. tauto.
Qed.
Lemma inrng_0 r b l : inrng r b 0 l = false.
Proof. destruct (inrng_spec r b 0 l); [lia|reflexivity]. Qed.
Lemma inrng_S r b n l : inrng r b (S n) l = loc_eqb l (r, b) || inrng r (b + 1) n l.
Proof.
  destruct l as [l1 l2]. unfold inrng, loc_eqb; simpl fst; simpl snd. rewrite Nat2Z.inj_succ.
  destruct (Z.eqb_spec l1 r); simpl; [|reflexivity].
  destruct (Z.leb_spec b l2), (Z.ltb_spec l2 (b + Z.succ (Z.of_nat n))), (Z.eqb_spec l2 b),
    (Z.leb_spec (b + 1) l2), (Z.ltb_spec l2 (b + 1 + Z.of_nat n)); simpl; try reflexivity; lia.
Qed.
Lemma inrng_in r b n k : 0 <= k < Z.of_nat n -> inrng r b n (r, b + k) = true.
Proof. intros. destruct (inrng_spec r b n (r, b + k)); [reflexivity|simpl in *; lia]. Qed.
Lemma inrng_other_region r b n l : fst l <> r -> inrng r b n l = false.
Proof. intros. destruct (inrng_spec r b n l); [tauto|reflexivity]. Qed.

(* ------------------------------------------------------------------ the Hoare logic *)
Definition post {A} (m : M A) (s : rstate) (Qv : A -> rstate -> Prop) (Qe : rstate -> Prop) : Prop :=
  match m s with
  | (Val a, s') => Qv a s'
  | (Exc, s') => Qe s'
  | (Stuck, _) => False
  end.

Lemma post_ret {A} (a : A) s (Qv : A -> rstate -> Prop) Qe : Qv a s -> post (ret a) s Qv Qe.
Proof. intros; exact H. Qed.

Lemma post_bind {A B} (m : M A) (f : A -> M B) s Qv Qe :
  post m s (fun a s1 => post (f a) s1 Qv Qe) Qe -> post (bind m f) s Qv Qe.
Proof. unfold post, bind. destruct (m s) as [[a| |] s1]; auto. Qed.

Lemma post_conseq {A} (m : M A) s (Qv Qv' : A -> rstate -> Prop) (Qe Qe' : rstate -> Prop) :
  post m s Qv Qe -> (forall a s', Qv a s' -> Qv' a s') -> (forall s', Qe s' -> Qe' s') -> post m s Qv' Qe'.
Proof. unfold post. destruct (m s) as [[a| |] s1]; auto. Qed.

Lemma post_catch {A} (m : M A) (h : M unit) s Qv Qe :
  post m s Qv (fun s1 => post h s1 (fun _ s2 => Qe s2) Qe) -> post (catch_rethrow m h) s Qv Qe.
Proof.
  unfold post, catch_rethrow. destruct (m s) as [[a| |] s1]; auto.
  destruct (h s1) as [[u| |] s2]; auto.
Qed.

Lemma post_throw {A} s (Qv : A -> rstate -> Prop) (Qe : rstate -> Prop) : Qe s -> post throw s Qv Qe.
Proof. intros; exact H. Qed.

(* ------------------------------------------------------------------ primitives *)
Lemma fallible_post s f bs nb :
  st_is s f bs nb -> post fallible s (fun _ s' => st_is s' f bs nb) (fun s' => st_is s' f bs nb).
Proof.
  intros H. unfold post, fallible. destruct (sched s) as [|[|] r]; exact H.
Qed.

Lemma occ_true_cases c : occ c = true -> c <> Raw.
Proof. destruct c; simpl; congruence. Qed.

Lemma p_copy_post dst src s f bs nb :
  st_is s f bs nb -> f src = true -> f dst = false ->
  post (p_copy dst src) s (fun _ s' => st_is s' (fun l => loc_eqb l dst || f l) bs nb) (fun s' => st_is s' f bs nb).
Proof.
  intros (H & Hb & Hn) Hs Hd. unfold post, p_copy.
  pose proof (H src) as Es. pose proof (H dst) as Ed. unfold occf in Es, Ed. rewrite Hs in Es. rewrite Hd in Ed.
  destruct (cells s dst) eqn:Cd; simpl in Ed; try discriminate.
  assert (F : post fallible s (fun _ s' => st_is s' f bs nb) (fun s' => st_is s' f bs nb))
    by (apply fallible_post; repeat split; auto).
  unfold post in F.
  destruct (cells s src) eqn:Cs; simpl in Es; try discriminate;
    destruct (fallible s) as [[u| |] s1]; try exact F; try contradiction;
    destruct F as (H1 & Hb1 & Hn1); (split; [|split; assumption]); intros l; unfold occf; simpl;
    destruct (loc_eqb l dst); simpl; try reflexivity; apply H1.
Qed.

Lemma p_move_nt_post dst src s f bs nb :
  st_is s f bs nb -> f src = true -> f dst = false ->
  post (p_move_nt dst src) s (fun _ s' => st_is s' (fun l => loc_eqb l dst || f l) bs nb) (fun _ => False).
Proof.
  intros (H & Hb & Hn) Hs Hd. unfold post, p_move_nt.
  pose proof (H src) as Es. pose proof (H dst) as Ed. unfold occf in Es, Ed. rewrite Hs in Es. rewrite Hd in Ed.
  destruct (cells s dst) eqn:Cd; simpl in Ed; try discriminate.
  destruct (cells s src) eqn:Cs; simpl in Es; try discriminate;
    (split; [|split; assumption]); intros l; unfold occf; simpl;
    destruct (loc_eqb_spec l src) as [->|Hne]; simpl.
  all: try (rewrite Hs; destruct (loc_eqb src dst); reflexivity).
  all: destruct (loc_eqb l dst); simpl; try reflexivity; apply H.
Qed.

Lemma om_move_post c dst src s f bs nb :
  st_is s f bs nb -> f src = true -> f dst = false ->
  post (om_move c dst src) s (fun _ s' => st_is s' (fun l => loc_eqb l dst || f l) bs nb)
       (fun s' => c = CPO /\ st_is s' f bs nb).
Proof.
  intros. destruct c; simpl.
  - eapply post_conseq; [apply p_move_nt_post; eassumption| auto | intros ? []].
  - eapply post_conseq; [apply p_copy_post; eassumption| auto | auto].
Qed.

Lemma p_destroy_post l s f bs nb :
  st_is s f bs nb -> f l = true ->
  post (p_destroy l) s (fun _ s' => st_is s' (fun l' => negb (loc_eqb l' l) && f l') bs nb) (fun _ => False).
Proof.
  intros (H & Hb & Hn) Hl. unfold post, p_destroy.
  pose proof (H l) as El. unfold occf in El. rewrite Hl in El.
  destruct (cells s l) eqn:Cl; simpl in El; try discriminate;
    (split; [|split; assumption]); intros l'; unfold occf; simpl;
    destruct (loc_eqb l' l); simpl; try reflexivity; apply H.
Qed.

Lemma p_alloc_post mgr size s f bs nb :
  st_is s f bs nb ->
  post (p_alloc mgr size) s (fun b s' => b = nb /\ st_is s' f ((nb, (mgr, size)) :: bs) (nb + 1))
       (fun s' => st_is s' f bs nb).
Proof.
  intros H. pose proof (fallible_post s f bs nb H) as F. unfold post in *. unfold p_alloc.
  destruct (fallible s) as [[u| |] s1]; try exact F.
  destruct F as (H1 & Hb1 & Hn1). split; [assumption|]. split; [exact H1|]. simpl. split; congruence.
Qed.

Lemma p_dealloc_post mgr b size s f bs nb :
  st_is s f bs nb -> find_blk b bs = Some (mgr, size) ->
  post (p_dealloc mgr b size) s (fun _ s' => st_is s' f (remove_blk b bs) nb) (fun _ => False).
Proof.
  intros (H & Hb & Hn) Hf. unfold post, p_dealloc. rewrite Hb, Hf, !Z.eqb_refl. simpl.
  split; [exact H|]. simpl. split; [reflexivity|assumption].
Qed.

Lemma p_touch_post b s f bs nb p :
  st_is s f bs nb -> find_blk b bs = Some p ->
  post (p_touch_blk b) s (fun _ s' => st_is s' f bs nb) (fun _ => False).
Proof. intros (H & Hb & Hn) Hf. unfold post, p_touch_blk. rewrite Hb, Hf. repeat split; auto. Qed.

(* boolean algebra helper: decide pointwise equalities of occupancy functions after case analysis *)
Ltac bsolve :=
  repeat match goal with
         | |- context [loc_eqb ?a ?b] => destruct (loc_eqb_spec a b)
         | |- context [inrng ?r ?b ?n ?l] => destruct (inrng_spec r b n l)
         end; simpl in *; subst; simpl in *;
  try reflexivity; try lia; try congruence.

(* ------------------------------------------------------------------ ObjectManager::Destroy(begin, count) *)
Lemma om_destroy_n_post r : forall n base s f bs nb,
  st_is s f bs nb -> (forall k, 0 <= k < Z.of_nat n -> f (r, base + k) = true) ->
  post (om_destroy_n r base n) s (fun _ s' => st_is s' (fun l => negb (inrng r base n l) && f l) bs nb) (fun _ => False).
Proof.
  induction n as [|n IH]; intros base s f bs nb H Hr; simpl.
  - apply post_ret. eapply st_is_ext; [|exact H]. intros l. rewrite inrng_0. reflexivity.
  - apply post_bind. eapply post_conseq; [apply (p_destroy_post (r, base) s f bs nb H)| |auto].
    + replace base with (base + 0) by lia. apply Hr. lia.
    + intros u1 s1 H1. eapply post_conseq; [apply (IH (base + 1) s1 _ bs nb H1)| |auto].
      * intros k Hk. simpl.
        replace (base + 1 + k) with (base + (1 + k)) by lia. rewrite (Hr (1 + k)) by lia.
        destruct (loc_eqb_spec (r, base + (1 + k)) (r, base)) as [E|]; [exfalso; assert (base + (1 + k) = base) by congruence; lia|reflexivity].
      * intros u2 s2 H2. eapply st_is_ext; [|exact H2]. intros l. simpl. rewrite inrng_S.
        destruct (loc_eqb l (r, base)), (inrng r (base + 1) n l), (f l); reflexivity.
Qed.

(* ------------------------------------------------------------------ executors *)
Definition exec_ok (f : loc -> bool) (e : exec) : Prop :=
  match e with
  | ExecNop => True
  | ExecCopy d s | ExecMove d s => f s = true /\ f d = false
  end.
Definition exec_add (e : exec) (l : loc) : bool :=
  match e with
  | ExecNop => false
  | ExecCopy d _ | ExecMove d _ => loc_eqb l d
  end.

Lemma run_exec_post c e s f bs nb :
  st_is s f bs nb -> exec_ok f e ->
  post (run_exec c e) s (fun _ s' => st_is s' (fun l => exec_add e l || f l) bs nb) (fun s' => st_is s' f bs nb).
Proof.
  intros H He. destruct e as [|d x|d x]; simpl in *.
  - eapply post_conseq; [apply fallible_post; exact H|auto|auto].
  - destruct He. apply p_copy_post; assumption.
  - destruct He. eapply post_conseq; [apply om_move_post; eassumption|auto|intros s' [_ ?]; assumption].
Qed.

(* ------------------------------------------------------------------ pvRelocate(..., true_type): move + destroy, item by item *)
Lemma om_relocate_nt_post sr dr : forall n sb db s f bs nb,
  st_is s f bs nb ->
  (forall k, 0 <= k < Z.of_nat n -> f (sr, sb + k) = true /\ f (dr, db + k) = false) ->
  post (om_relocate_nt NTM sr sb dr db n) s
       (fun _ s' => st_is s' (fun l => negb (inrng sr sb n l) && (inrng dr db n l || f l)) bs nb) (fun _ => False).
Proof.
  induction n as [|n IH]; intros sb db s f bs nb H Hr; simpl.
  - apply post_ret. eapply st_is_ext; [|exact H]. intros l. rewrite !inrng_0. reflexivity.
  - assert (H0 : f (sr, sb) = true /\ f (dr, db) = false).
    { replace sb with (sb + 0) by lia. replace db with (db + 0) by lia. apply Hr. lia. }
    destruct H0 as [Hs0 Hd0].
    apply post_bind. unfold om_relocate1. apply post_bind.
    eapply post_conseq; [apply (om_move_post NTM (dr, db) (sr, sb) s f bs nb H Hs0 Hd0)| |intros s' [E _]; discriminate].
    intros u1 s1 H1.
    eapply post_conseq; [apply (p_destroy_post (sr, sb) s1 _ bs nb H1)| |auto].
    + simpl. rewrite Hs0. apply orb_true_r.
    + intros u2 s2 H2.
      eapply post_conseq; [apply (IH (sb + 1) (db + 1) s2 _ bs nb H2)| |auto].
      * intros k Hk. destruct (Hr (1 + k)) as [Hs Hd]; [lia|].
        replace (sb + 1 + k) with (sb + (1 + k)) by lia. replace (db + 1 + k) with (db + (1 + k)) by lia.
        cbv beta. rewrite Hs, Hd.
        assert (E1 : loc_eqb (sr, sb + (1 + k)) (sr, sb) = false).
        { destruct (loc_eqb_spec (sr, sb + (1 + k)) (sr, sb)) as [E|]; [exfalso; assert (sb + (1 + k) = sb) by congruence; lia|reflexivity]. }
        assert (E2 : loc_eqb (dr, db + (1 + k)) (dr, db) = false).
        { destruct (loc_eqb_spec (dr, db + (1 + k)) (dr, db)) as [E|]; [exfalso; assert (db + (1 + k) = db) by congruence; lia|reflexivity]. }
        rewrite E1, E2, orb_true_r. cbn [negb andb orb]. split; [reflexivity|apply andb_false_r].
      * intros u3 s3 H3. eapply st_is_ext; [|exact H3]. intros l. cbv beta. rewrite !inrng_S.
        destruct (loc_eqb_spec l (sr, sb)) as [El|]; cbn [negb andb orb].
        -- subst l. rewrite orb_false_r.
           destruct (inrng_spec dr (db + 1) n (sr, sb)) as [[Ea Eb]|]; [|apply andb_false_r].
           exfalso. simpl in Ea, Eb. destruct (Hr (sb - db)) as [_ Hd]; [lia|].
           replace (db + (sb - db)) with sb in Hd by lia. rewrite <- Ea in Hd. congruence.
        -- destruct (loc_eqb l (dr, db)), (inrng sr (sb + 1) n l), (inrng dr (db + 1) n l), (f l); reflexivity.
Qed.

(* ------------------------------------------------------------------ the copy loop of pvRelocateExec(..., false_type) *)
Lemma om_copy_loop_post sr sb dr db : forall n index s f bs nb,
  st_is s f bs nb ->
  (forall k, 0 <= k < Z.of_nat n -> f (sr, sb + index + k) = true /\ f (dr, db + index + k) = false) ->
  match om_copy_loop sr sb dr db index n s with
  | ((idx, Val _), s') => idx = index + Z.of_nat n /\
                          st_is s' (fun l => inrng dr (db + index) n l || f l) bs nb
  | ((idx, Exc), s') => index <= idx < index + Z.of_nat n /\
                        st_is s' (fun l => inrng dr (db + index) (Z.to_nat (idx - index)) l || f l) bs nb
  | ((_, Stuck), _) => False
  end.
Proof.
  induction n as [|n IH]; intros index s f bs nb H Hr; simpl.
  - split; [lia|]. eapply st_is_ext; [|exact H]. intros l. rewrite inrng_0. reflexivity.
  - destruct (Hr 0) as [Hs0 Hd0]; [lia|]. rewrite !Z.add_0_r in Hs0, Hd0.
    pose proof (p_copy_post (dr, db + index) (sr, sb + index) s f bs nb H Hs0 Hd0) as P.
    unfold post in P. unfold om_copy.
    destruct (p_copy (dr, db + index) (sr, sb + index) s) as [[u| |] s1]; [| |contradiction].
    + specialize (IH (index + 1) s1 _ bs nb P).
      assert (Hr' : forall k, 0 <= k < Z.of_nat n ->
                (fun l => loc_eqb l (dr, db + index) || f l) (sr, sb + (index + 1) + k) = true /\
                (fun l => loc_eqb l (dr, db + index) || f l) (dr, db + (index + 1) + k) = false).
      { intros k Hk. destruct (Hr (1 + k)) as [Hs Hd]; [lia|].
        replace (sb + (index + 1) + k) with (sb + index + (1 + k)) by lia.
        replace (db + (index + 1) + k) with (db + index + (1 + k)) by lia. cbv beta. rewrite Hs, Hd.
        destruct (loc_eqb_spec (dr, db + index + (1 + k)) (dr, db + index)) as [E|];
          [exfalso; assert (db + index + (1 + k) = db + index) by congruence; lia|].
        rewrite orb_true_r. split; reflexivity. }
      specialize (IH Hr').
      destruct (om_copy_loop sr sb dr db (index + 1) n s1) as [[idx [u'| |]] s2]; [| |contradiction].
      * destruct IH as [E S2]. split; [lia|]. eapply st_is_ext; [|exact S2]. intros l. simpl. rewrite inrng_S.
        replace (db + (index + 1)) with (db + index + 1) by lia.
        destruct (loc_eqb l (dr, db + index)), (inrng dr (db + index + 1) n l), (f l); reflexivity.
      * destruct IH as [E S2]. split; [lia|]. eapply st_is_ext; [|exact S2]. intros l. simpl.
        replace (Z.to_nat (idx - index)) with (S (Z.to_nat (idx - (index + 1)))) by lia. rewrite inrng_S.
        replace (db + (index + 1)) with (db + index + 1) by lia.
        destruct (loc_eqb l (dr, db + index)), (inrng dr (db + index + 1) (Z.to_nat (idx - (index + 1))) l), (f l); reflexivity.
    + split; [lia|]. eapply st_is_ext; [|exact P]. intros l. rewrite Z.sub_diag. simpl. rewrite inrng_0. reflexivity.
Qed.

(* ------------------------------------------------------------------ RelocateExec / Relocate / RelocateCreate *)
Definition reloc_pre (f : loc -> bool) (sr sb dr db : Z) (n : nat) : Prop :=
  forall k, 0 <= k < Z.of_nat n -> f (sr, sb + k) = true /\ f (dr, db + k) = false.

Lemma undo_dst f dr db m :
  (forall k, 0 <= k < Z.of_nat m -> f (dr, db + k) = false) ->
  forall l, negb (inrng dr db m l) && (inrng dr db m l || f l) = f l.
Proof.
  intros Hd l. destruct (inrng_spec dr db m l) as [[Ea Eb]|]; simpl; [|reflexivity].
  specialize (Hd (snd l - db)). replace (db + (snd l - db)) with (snd l) in Hd by lia.
  rewrite <- Ea in Hd. destruct l as [l1 l2]; simpl in *. symmetry. apply Hd. lia.
Qed.

(* catch (...) { Destroy(dstBegin, index); throw; } *)
Lemma undo_handler_post {A} dr db m s1 f bs nb (Qv : A -> rstate -> Prop) :
  st_is s1 (fun l => inrng dr db m l || f l) bs nb ->
  (forall k, 0 <= k < Z.of_nat m -> f (dr, db + k) = false) ->
  post (catch_rethrow throw (om_destroy_n dr db m)) s1 Qv (fun s' => st_is s' f bs nb).
Proof.
  intros H Hd. apply post_catch. apply post_throw.
  eapply post_conseq; [apply (om_destroy_n_post dr m db s1 _ bs nb H)| |intros ? []].
  - intros k Hk. cbv beta. rewrite inrng_in by assumption. reflexivity.
  - intros u s2 H2. eapply st_is_ext; [|exact H2]. apply undo_dst. exact Hd.
Qed.

Theorem om_relocate_exec_post c sr sb dr db n e s f bs nb :
  st_is s f bs nb -> reloc_pre f sr sb dr db n -> exec_ok f e ->
  (forall l, exec_add e l = true -> inrng dr db n l = false) ->
  post (om_relocate_exec c sr sb dr db n e) s
       (fun _ s' => st_is s' (fun l => negb (inrng sr sb n l) && (inrng dr db n l || exec_add e l || f l)) bs nb)
       (fun s' => st_is s' f bs nb).
Proof.
  intros H Hr He Hx. unfold om_relocate_exec. destruct c; cbn [nothrow_reloc].
  - (* nothrow relocatable: exec(); Relocate(...) *)
    apply post_bind. eapply post_conseq; [apply (run_exec_post NTM e s f bs nb H He)| |auto].
    intros u1 s1 H1.
    eapply post_conseq; [apply (om_relocate_nt_post sr dr n sb db s1 _ bs nb H1)| |intros ? []].
    + intros k Hk. destruct (Hr k Hk) as [Hs Hd]. cbv beta. rewrite Hs, Hd, orb_true_r, orb_false_r. split; [reflexivity|].
      destruct (exec_add e (dr, db + k)) eqn:E; [|reflexivity].
      specialize (Hx _ E). rewrite (inrng_in dr db n k Hk) in Hx. discriminate.
    + intros u2 s2 H2. eapply st_is_ext; [|exact H2]. intros l. cbv beta.
      destruct (inrng sr sb n l), (inrng dr db n l), (exec_add e l), (f l); reflexivity.
  - (* copy-only: copy all, exec, destroy all sources; on failure destroy the copies *)
    unfold om_relocate_exec_f, post.
    assert (Hr0 : forall k, 0 <= k < Z.of_nat n -> f (sr, sb + 0 + k) = true /\ f (dr, db + 0 + k) = false).
    { intros k Hk. rewrite !Z.add_0_r. apply Hr; assumption. }
    pose proof (om_copy_loop_post sr sb dr db n 0 s f bs nb H Hr0) as L.
    destruct (om_copy_loop sr sb dr db 0 n s) as [[idx o] s1].
    assert (Hdst : forall m, (m <= n)%nat -> forall k, 0 <= k < Z.of_nat m -> f (dr, db + k) = false).
    { intros m Hm k Hk. apply Hr. lia. }
    destruct o as [u| |]; [| |contradiction].
    + destruct L as [Ei S1]. rewrite Z.add_0_r in S1.
      assert (He1 : exec_ok (fun l => inrng dr db n l || f l) e).
      { destruct e as [|d x|d x]; simpl in *; auto; destruct He as [Hsx Hdx]; rewrite Hsx, Hdx, orb_true_r;
          (split; [reflexivity|]); rewrite (Hx d (loc_eqb_refl d)); reflexivity. }
      pose proof (run_exec_post CPO e s1 _ bs nb S1 He1) as P. unfold post in P.
      destruct (run_exec CPO e s1) as [[u1| |] s2]; [| |contradiction].
      * fold (post (om_destroy_n sr sb n) s2
               (fun _ s' => st_is s' (fun l => negb (inrng sr sb n l) && (inrng dr db n l || exec_add e l || f l)) bs nb)
               (fun s' => st_is s' f bs nb)).
        eapply post_conseq; [apply (om_destroy_n_post sr n sb s2 _ bs nb P)| |intros ? []].
        -- intros k Hk. cbv beta. destruct (Hr k Hk) as [Hs _]. rewrite Hs, !orb_true_r. reflexivity.
        -- intros u2 s3 H3. eapply st_is_ext; [|exact H3]. intros l. cbv beta.
           destruct (inrng sr sb n l), (inrng dr db n l), (exec_add e l), (f l); reflexivity.
      * fold (post (catch_rethrow (@throw unit) (om_destroy_n dr db (Z.to_nat idx))) s2
               (fun _ s' => st_is s' (fun l => negb (inrng sr sb n l) && (inrng dr db n l || exec_add e l || f l)) bs nb)
               (fun s' => st_is s' f bs nb)).
        subst idx. rewrite Z.add_0_l, Nat2Z.id. apply undo_handler_post; [exact P|]. apply (Hdst n). lia.
    + destruct L as [Ei S1]. rewrite Z.add_0_r, Z.sub_0_r in S1.
      fold (post (catch_rethrow (@throw unit) (om_destroy_n dr db (Z.to_nat idx))) s1
             (fun _ s' => st_is s' (fun l => negb (inrng sr sb n l) && (inrng dr db n l || exec_add e l || f l)) bs nb)
             (fun s' => st_is s' f bs nb)).
      apply undo_handler_post; [exact S1|]. apply (Hdst (Z.to_nat idx)). lia.
Qed.

Theorem om_relocate_post c sr sb dr db n s f bs nb :
  st_is s f bs nb -> reloc_pre f sr sb dr db n ->
  post (om_relocate c sr sb dr db n) s
       (fun _ s' => st_is s' (fun l => negb (inrng sr sb n l) && (inrng dr db n l || f l)) bs nb)
       (fun s' => c = CPO /\ st_is s' f bs nb).
Proof.
  intros H Hr. unfold om_relocate. destruct c; cbn [nothrow_reloc].
  - eapply post_conseq; [apply (om_relocate_nt_post sr dr n sb db s f bs nb H Hr)|auto|intros ? []].
  - destruct n as [|n].
    + apply post_ret. eapply st_is_ext; [|exact H]. intros l. rewrite !inrng_0. reflexivity.
    + destruct (Hr 0) as [Hs0 Hd0]; [lia|]. rewrite !Z.add_0_r in Hs0, Hd0.
      apply post_bind.
      assert (P : post (om_relocate_exec CPO sr (sb + 1) dr (db + 1) n (ExecMove (dr, db) (sr, sb))) s
                    (fun _ s' => st_is s' (fun l => negb (inrng sr (sb + 1) n l) &&
                       (inrng dr (db + 1) n l || exec_add (ExecMove (dr, db) (sr, sb)) l || f l)) bs nb)
                    (fun s' => st_is s' f bs nb)).
      { apply (om_relocate_exec_post CPO sr (sb + 1) dr (db + 1) n (ExecMove (dr, db) (sr, sb)) s f bs nb H).
        - intros k Hk. replace (sb + 1 + k) with (sb + (1 + k)) by lia. replace (db + 1 + k) with (db + (1 + k)) by lia.
          apply Hr. lia.
        - simpl. auto.
        - intros l E. simpl in E. destruct (loc_eqb_spec l (dr, db)); [|discriminate]. subst l.
          destruct (inrng_spec dr (db + 1) n (dr, db)) as [[_ Eb]|]; [simpl in Eb; lia|reflexivity]. }
      eapply post_conseq; [exact P| |auto].
      * intros u1 s1 H1.
        eapply post_conseq; [apply (p_destroy_post (sr, sb) s1 _ bs nb H1)| |intros ? []].
        -- cbv beta. rewrite Hs0, !orb_true_r.
           destruct (inrng_spec sr (sb + 1) n (sr, sb)) as [[_ Eb]|]; [simpl in Eb; lia|reflexivity].
        -- intros u2 s2 H2. eapply st_is_ext; [|exact H2]. intros l. cbv beta. rewrite !inrng_S. simpl exec_add.
           destruct (loc_eqb l (sr, sb)), (loc_eqb l (dr, db)), (inrng sr (sb + 1) n l), (inrng dr (db + 1) n l), (f l); reflexivity.
Qed.

(* RelocateCreate = RelocateExec with exec = "construct the new item" *)
Theorem om_relocate_create_post c sr sb dr db n nd ns s f bs nb :
  st_is s f bs nb -> reloc_pre f sr sb dr db n -> f ns = true -> f nd = false -> inrng dr db n nd = false ->
  post (om_relocate_create c sr sb dr db n nd ns) s
       (fun _ s' => st_is s' (fun l => negb (inrng sr sb n l) && (inrng dr db n l || loc_eqb l nd || f l)) bs nb)
       (fun s' => st_is s' f bs nb).
Proof.
  intros H Hr Hs Hd Hn. unfold om_relocate_create.
  apply (om_relocate_exec_post c sr sb dr db n (ExecCopy nd ns) s f bs nb H Hr); simpl; auto.
  intros l E. destruct (loc_eqb_spec l nd); [subst; assumption|discriminate].
Qed.

(* MoveExec / CopyExec *)
Theorem om_move_exec_post c dst src e s f bs nb :
  st_is s f bs nb -> f src = true -> f dst = false -> exec_ok f e -> exec_add e dst = false ->
  post (om_move_exec c dst src e) s
       (fun _ s' => st_is s' (fun l => loc_eqb l dst || exec_add e l || f l) bs nb)
       (fun s' => st_is s' f bs nb).
Proof.
  intros H Hs Hd He Hx. unfold om_move_exec. destruct c; cbn [nothrow_reloc].
  - apply post_bind. eapply post_conseq; [apply (run_exec_post NTM e s f bs nb H He)| |auto].
    intros u1 s1 H1.
    eapply post_conseq; [apply (om_move_post NTM dst src s1 _ bs nb H1)| |intros s' [E _]; discriminate].
    + cbv beta. rewrite Hs. apply orb_true_r.
    + cbv beta. rewrite Hx, Hd. reflexivity.
    + intros u2 s2 H2. eapply st_is_ext; [|exact H2]. intros l. cbv beta.
      destruct (loc_eqb l dst), (exec_add e l), (f l); reflexivity.
  - apply post_bind.
    eapply post_conseq; [apply (om_move_post CPO dst src s f bs nb H Hs Hd)| |intros s' [_ ?]; assumption].
    intros u1 s1 H1. apply post_catch.
    assert (He1 : exec_ok (fun l => loc_eqb l dst || f l) e).
    { destruct e as [|d x|d x]; simpl in *; auto; destruct He as [Hsx Hdx]; rewrite Hsx, Hdx, orb_true_r;
        (split; [reflexivity|]); rewrite orb_false_r;
        (destruct (loc_eqb_spec d dst) as [->|]; [rewrite loc_eqb_refl in Hx; discriminate|reflexivity]). }
    eapply post_conseq; [apply (run_exec_post CPO e s1 _ bs nb H1 He1)| |].
    + intros u2 s2 H2. eapply st_is_ext; [|exact H2]. intros l. cbv beta.
      destruct (loc_eqb l dst), (exec_add e l), (f l); reflexivity.
    + intros s2 H2. eapply post_conseq; [apply (p_destroy_post dst s2 _ bs nb H2)| |intros ? []].
      * cbv beta. rewrite loc_eqb_refl. reflexivity.
      * intros u3 s3 H3. eapply st_is_ext; [|exact H3]. intros l. cbv beta.
        destruct (loc_eqb_spec l dst) as [->|]; simpl; [symmetry; assumption|reflexivity].
Qed.

Theorem om_copy_exec_post c dst src e s f bs nb :
  st_is s f bs nb -> f src = true -> f dst = false -> exec_ok f e -> exec_add e dst = false ->
  post (om_copy_exec c dst src e) s
       (fun _ s' => st_is s' (fun l => loc_eqb l dst || exec_add e l || f l) bs nb)
       (fun s' => st_is s' f bs nb).
Proof.
  intros H Hs Hd He Hx. unfold om_copy_exec, om_copy. apply post_bind.
  eapply post_conseq; [apply (p_copy_post dst src s f bs nb H Hs Hd)| |auto].
  intros u1 s1 H1. apply post_catch.
  assert (He1 : exec_ok (fun l => loc_eqb l dst || f l) e).
  { destruct e as [|d x|d x]; simpl in *; auto; destruct He as [Hsx Hdx]; rewrite Hsx, Hdx, orb_true_r;
      (split; [reflexivity|]); rewrite orb_false_r;
      (destruct (loc_eqb_spec d dst) as [->|]; [rewrite loc_eqb_refl in Hx; discriminate|reflexivity]). }
  eapply post_conseq; [apply (run_exec_post c e s1 _ bs nb H1 He1)| |].
  - intros u2 s2 H2. eapply st_is_ext; [|exact H2]. intros l. cbv beta.
    destruct (loc_eqb l dst), (exec_add e l), (f l); reflexivity.
  - intros s2 H2. eapply post_conseq; [apply (p_destroy_post dst s2 _ bs nb H2)| |intros ? []].
    + cbv beta. rewrite loc_eqb_refl. reflexivity.
    + intros u3 s3 H3. eapply st_is_ext; [|exact H3]. intros l. cbv beta.
      destruct (loc_eqb_spec l dst) as [->|]; simpl; [symmetry; assumption|reflexivity].
Qed.
