// C15 third implementation-side harness: HISTORIES on the real HashMultiMap / Array (index iterators, external and
// internal capacity) / SegmentedArray / DataTable with exception-mode settings, in the format of the extracted Coq
// models MultiMap.v / Arr.v / Table.v (see ocaml/driver.ml).  One token per call (A | A=<v> | R | X.. | C!..), then the
// private version counters and the contents.  Each case runs in a forked child.
#include "private_access.h"
#include <unistd.h>
#include <signal.h>
#include <sys/wait.h>
#include <sys/resource.h>
#include "momo/HashMultiMap.h"
#include "momo/Array.h"
#include "momo/SegmentedArray.h"
#include "momo/DataTable.h"
#include "momo/TreeSet.h"
#include "momo/HashSet.h"
using namespace momo;
typedef MemManagerDefault MMD;
struct MMS : HashMultiMapSettings { static const CheckMode checkMode = CheckMode::exception; static const bool checkKeyVersion = true; static const bool checkValueVersion = true; };
struct AS : ArraySettings<0, true, false> { static const CheckMode checkMode = CheckMode::exception; };
struct AIS : ArraySettings<4, true, false> { static const CheckMode checkMode = CheckMode::exception; };
struct SAS : SegmentedArraySettings<> { static const CheckMode checkMode = CheckMode::exception; };
struct DTS : DataSettings<true> { static const CheckMode checkMode = CheckMode::exception; static const bool checkVersion = true; };
typedef HashMultiMap<int, int, HashTraits<int>, MMD, HashMultiMapKeyValueTraits<int, int, MMD>, MMS> MM;
typedef Array<int, MMD, ArrayItemTraits<int, MMD>, AS> AR;
typedef Array<int, MMD, ArrayItemTraits<int, MMD>, AIS> ARI;
typedef SegmentedArray<int, MMD, SegmentedArrayItemTraits<int, MMD>, SAS> SA;
typedef DataColumnList<DataColumnTraits<>, MMD, DataItemTraits<MMD>, DTS> DCL;
typedef DataTable<DCL> DT;
static const DataColumn<int> valCol("valCol");

static std::string eq(long long v) { return "=" + std::to_string(v); }
typedef std::vector<long long> Args;

// generic call wrapper: snap() must return a canonical string of the container (contents + versions)
template<class Snap, class F> static void call(std::string& out, Snap snap, F f)
{
	std::string before = snap(), res;
	try { res = f(); }
	catch (const std::invalid_argument&) { out += (snap() == before) ? "R " : "C!rejected-call-changed-container "; return; }
	catch (const std::exception&) { out += (snap() == before) ? "X " : "C!exception-changed-container "; return; }   // length_error / bad_alloc ...
	out += "A" + res + " ";
}

// ---------------------------------------------------------------------------------------------- HashMultiMap
static std::string mmContents(const MM& m)
{
	std::map<int, std::vector<int>> t;
	for (auto kr : m.GetKeyBounds()) { std::vector<int> v(kr.GetBegin(), kr.GetEnd()); std::sort(v.begin(), v.end()); t[kr.key] = v; }
	std::string s;
	for (auto& e : t) { s += (s.empty() ? "" : ";") + std::to_string(e.first) + ":"; for (size_t i = 0; i < e.second.size(); ++i) s += (i ? "," : "") + std::to_string(e.second[i]); }
	return s.empty() ? "-" : s;
}
static std::string runMMH(std::vector<std::pair<std::string, Args>>& ops)
{
	MM m, other; other.Add(1, 100);
	std::map<long long, MM::KeyIterator> K; std::map<long long, MM::Iterator> V;
	std::string out;
	auto vers = [&] { return std::to_string(m.mHashMap.mHashSet.mCrew.mData->version) + " " + std::to_string(m.mValueCrew.mData->valueVersion); };
	auto snap = [&] { return vers() + " | " + mmContents(m) + " #" + std::to_string(m.GetCount()); };
	for (auto& o : ops)
	{
		const std::string& n = o.first; Args& a = o.second;
		if (n == "find") call(out, snap, [&] { K[a[1]] = m.Find(int(a[0])); return eq(!!K[a[1]]); });
		else if (n == "end") call(out, snap, [&] { V[a[0]] = m.GetEnd(); return std::string(); });
		else if (n == "fk") call(out, snap, [&] { K[a[0]] = other.Find(1); return std::string(); });
		else if (n == "fv") call(out, snap, [&] { V[a[0]] = other.GetBegin(); return std::string(); });
		else if (n == "makeit") call(out, snap, [&] { V[a[2]] = m.MakeIterator(K[a[0]], size_t(a[1])); return std::string(); });
		else if (n == "kderef") call(out, snap, [&] { return eq(K[a[0]]->key); });
		else if (n == "kinc") call(out, snap, [&] { ++K[a[0]]; return std::string(); });
		else if (n == "vderef") call(out, snap, [&] { return eq(V[a[0]]->value); });
		else if (n == "vinc") call(out, snap, [&] { ++V[a[0]]; return std::string(); });
		else if (n == "add") call(out, snap, [&] { V[a[2]] = m.Add(int(a[0]), int(a[1])); return std::string(); });
		else if (n == "addat") call(out, snap, [&] { V[a[2]] = m.Add(K[a[0]], int(a[1])); return std::string(); });
		else if (n == "inskey") call(out, snap, [&] { size_t c = m.GetKeyCount(); K[a[1]] = m.InsertKey(int(a[0])); return eq(m.GetKeyCount() - c); });
		else if (n == "rmit") call(out, snap, [&] { m.Remove(V[a[0]]); return std::string(); });
		else if (n == "rmki") call(out, snap, [&] { m.Remove(K[a[0]], size_t(a[1])); return std::string(); });
		else if (n == "rmvals") call(out, snap, [&] { m.RemoveValues(K[a[0]]); return std::string(); });
		else if (n == "rmkeyit") call(out, snap, [&] { m.RemoveKey(K[a[0]]); return std::string(); });
		else if (n == "rmkey") call(out, snap, [&] { return eq((long long)m.RemoveKey(int(a[0]))); });
		else if (n == "rmif") call(out, snap, [&] { int mm = int(a[0]); return eq((long long)m.Remove([mm] (const int&, const int& v) { return v % mm == 0; })); });
		else if (n == "clear") call(out, snap, [&] { m.Clear(); return std::string(); });
		else if (n == "reset") call(out, snap, [&] { m.ResetKey(K[a[0]], int(a[1])); return std::string(); });
		else if (n == "chk") call(out, snap, [&] { m.CheckIterator(V[a[0]], a[1] != 0); return std::string(); });
		else if (n == "count") call(out, snap, [&] { return eq((long long)m.GetCount()); });
		else out += "?op ";
	}
	return out + "| " + vers() + " | " + mmContents(m);
}

// ---------------------------------------------------------------------------------------------- arrays
template<class A> static std::string runARH(std::vector<std::pair<std::string, Args>>& ops)
{
	A arr, other; other.AddBack(1);
	std::vector<int> twin;
	std::map<long long, typename A::Iterator> H;
	std::string out;
	auto contents = [&] { std::string s; for (size_t i = 0; i < arr.GetCount(); ++i) s += (i ? "," : "") + std::to_string(arr[i]); return s.empty() ? std::string("-") : s; };
	auto snap = [&] { return contents(); };
	auto same = [&] { std::vector<int> v; for (size_t i = 0; i < arr.GetCount(); ++i) v.push_back(arr[i]); return v == twin; };
	for (auto& o : ops)
	{
		const std::string& n = o.first; Args& a = o.second;
		size_t before = out.size();
		if (n == "begin") call(out, snap, [&] { H[a[0]] = arr.GetBegin(); return std::string(); });
		else if (n == "end") call(out, snap, [&] { H[a[0]] = arr.GetEnd(); return std::string(); });
		else if (n == "def") call(out, snap, [&] { H[a[0]] = typename A::Iterator(); return std::string(); });
		else if (n == "foreign") call(out, snap, [&] { H[a[0]] = other.GetBegin(); return std::string(); });
		else if (n == "adv") call(out, snap, [&] { H[a[0]] += ptrdiff_t(a[1]); return std::string(); });
		else if (n == "deref") call(out, snap, [&] { return eq(*H[a[0]]); });
		else if (n == "diff") call(out, snap, [&] { return eq((long long)(H[a[0]] - H[a[1]])); });
		else if (n == "less") call(out, snap, [&] { return eq(H[a[0]] < H[a[1]]); });
		else if (n == "idx") call(out, snap, [&] { return eq(arr[size_t(a[0])]); });
		else if (n == "back") call(out, snap, [&] { return eq(arr.GetBackItem()); });
		else if (n == "addback") call(out, snap, [&] { arr.AddBack(int(a[0])); twin.push_back(int(a[0])); return std::string(); });
		else if (n == "rmback") call(out, snap, [&] { arr.RemoveBack(size_t(a[0])); twin.resize(twin.size() - size_t(a[0])); return std::string(); });
		else if (n == "ins") call(out, snap, [&] { arr.Insert(size_t(a[0]), int(a[1])); twin.insert(twin.begin() + a[0], int(a[1])); return std::string(); });
		else if (n == "insn") call(out, snap, [&] { arr.Insert(size_t(a[0]), size_t(a[1]), int(a[2])); twin.insert(twin.begin() + a[0], size_t(a[1]), int(a[2])); return std::string(); });
		else if (n == "rm") call(out, snap, [&] { arr.Remove(size_t(a[0]), size_t(a[1])); twin.erase(twin.begin() + a[0], twin.begin() + a[0] + a[1]); return std::string(); });
		else if (n == "clear") call(out, snap, [&] { arr.Clear(); twin.clear(); return std::string(); });
		else if (n == "setcount") call(out, snap, [&] { arr.SetCount(size_t(a[0])); twin.resize(size_t(a[0])); return std::string(); });
		else out += "?op ";
		if (!same()) { out.resize(before); out += "C!contents-differ-from-std-vector-twin "; }
	}
	return out + "| " + contents();
}

// ---------------------------------------------------------------------------------------------- DataTable
static std::string runDTH(std::vector<std::pair<std::string, Args>>& ops)
{
	DT t(DCL({ valCol })), other(DCL({ valCol })); other.AddRow(valCol = 1);
	struct Slot { int kind = 0; std::unique_ptr<DT::RowReference> ref; std::unique_ptr<DT::Selection> sel; std::unique_ptr<DT::RowHashBounds> hb; };
	DT::MultiHashIndex mhi = DT::MultiHashIndex::empty;          // index look-up histories (`findm`) run on a table with a multi-hash index
	for (auto& o : ops) if (o.first == "findm" && mhi == DT::MultiHashIndex::empty) mhi = t.AddMultiHashIndex(valCol);
	std::map<long long, Slot> H;
	std::string out;
	auto contents = [&] { std::string s; for (auto r : t) s += (s.empty() ? "" : ",") + std::to_string(r[valCol]); return s.empty() ? std::string("-") : s; };
	auto vers = [&] { return std::to_string(t.mCrew.mData->changeVersion) + " " + std::to_string(t.mCrew.mData->removeVersion); };
	auto snap = [&] { return vers() + contents(); };
	auto setRef = [&] (long long s, DT::RowReference r) { H[s].kind = 1; H[s].ref.reset(new DT::RowReference(r)); };
	for (auto& o : ops)
	{
		const std::string& n = o.first; Args& a = o.second;
		if (n == "ref") call(out, snap, [&] { setRef(a[1], t[size_t(a[0])]); return std::string(); });
		else if (n == "select") call(out, snap, [&] { H[a[0]].kind = 2; H[a[0]].sel.reset(new DT::Selection(t.Select())); return eq((long long)H[a[0]].sel->GetCount()); });
		else if (n == "foreign") call(out, snap, [&] { setRef(a[0], other[0]); return std::string(); });
		else if (n == "selref") { if (H[a[0]].kind != 2) out += "U "; else call(out, snap, [&] { setRef(a[2], (*H[a[0]].sel)[size_t(a[1])]); return std::string(); }); }
		else if (n == "read") { if (H[a[0]].kind != 1) out += "R "; else call(out, snap, [&] { return eq((*H[a[0]].ref)[valCol]); }); }
		else if (n == "number") { if (H[a[0]].kind != 1) out += "R "; else call(out, snap, [&] { return eq((long long)H[a[0]].ref->GetNumber()); }); }
		else if (n == "addrow") call(out, snap, [&] { t.AddRow(valCol = int(a[0])); return std::string(); });
		else if (n == "insert") call(out, snap, [&] { t.InsertRow(size_t(a[0]), valCol = int(a[1])); return std::string(); });
		else if (n == "rmref") { if (H[a[0]].kind != 1) out += "R "; else call(out, snap, [&] { if (a.size() > 1 && a[1]) { auto row = t.Extract(*H[a[0]].ref); } else t.Remove(*H[a[0]].ref); return std::string(); }); }
		else if (n == "rmnum") call(out, snap, [&] { t.Remove(size_t(a[0])); return std::string(); });
		else if (n == "updref") { if (H[a[0]].kind != 1) out += "R "; else call(out, snap, [&] { t.Update(*H[a[0]].ref, valCol, int(a[1])); return std::string(); }); }
		else if (n == "updnum") call(out, snap, [&] { t.Update(size_t(a[0]), t.NewRow(valCol = int(a[1]))); return std::string(); });
		else if (n == "rmif") call(out, snap, [&] { int mm = int(a[0]); return eq((long long)t.Remove([mm] (DT::ConstRowReference r) { return r[valCol] % mm == 0; })); });
		else if (n == "clear") call(out, snap, [&] { t.Clear(); return std::string(); });
		else if (n == "count") call(out, snap, [&] { return eq((long long)t.GetCount()); });
		else if (n == "selectif") call(out, snap, [&] { int mm = int(a[0]); H[a[1]].kind = 2;
			H[a[1]].sel.reset(new DT::Selection(t.Select([mm] (DT::ConstRowReference r) { return r[valCol] % mm == 0; }))); return eq((long long)H[a[1]].sel->GetCount()); });
		else if (n == "selofsel" || n == "selsort" || n == "selsum" || n == "selrev" || n == "selrm" || n == "selcount" || n == "rmsel")
		{
			if (H[a[0]].kind != 2) { out += "U "; continue; }
			DT::Selection& sel = *H[a[0]].sel;
			if (n == "selofsel") call(out, snap, [&] { int mm = int(a[1]); DT::Selection s2(sel, [mm] (DT::ConstRowReference r) { return r[valCol] % mm == 0; });
				long long c = (long long)s2.GetCount(); H[a[2]].kind = 2; H[a[2]].sel.reset(new DT::Selection(std::move(s2))); return eq(c); });
			else if (n == "selsort") call(out, snap, [&] { sel.Sort(valCol); return std::string(); });
			else if (n == "selsum") call(out, snap, [&] { long long sum = 0; for (auto r : sel) sum += r[valCol]; return eq(sum); });
			else if (n == "selrev") call(out, snap, [&] { sel.Reverse(); return std::string(); });
			else if (n == "selrm") call(out, snap, [&] { sel.Remove(size_t(a[1]), size_t(a[2])); return std::string(); });
			else if (n == "selcount") call(out, snap, [&] { return eq((long long)sel.GetCount()); });
			else call(out, snap, [&] { size_t c = t.GetCount(); t.Remove(sel.GetBegin(), sel.GetEnd()); return eq((long long)(c - t.GetCount())); });
		}
		else if (n == "findm") call(out, snap, [&] { H[a[1]].kind = 3; H[a[1]].hb.reset(new DT::RowHashBounds(t.FindByMultiHash(mhi, valCol == int(a[0])))); return eq((long long)H[a[1]].hb->GetCount()); });
		else if (n == "bcount" || n == "bat" || n == "bsum")
		{
			if (H[a[0]].kind != 3) { out += "U "; continue; }
			DT::RowHashBounds& hb = *H[a[0]].hb;
			if (n == "bcount") call(out, snap, [&] { return eq((long long)hb.GetCount()); });
			else if (n == "bat") call(out, snap, [&] { return eq(hb[size_t(a[1])][valCol]); });
			else call(out, snap, [&] { long long sum = 0; for (auto r : hb) sum += r[valCol]; return eq(sum); });
		}
		else out += "?op ";
	}
	return out + "| " + vers() + " | " + contents();
}

// ---------------------------------------------------------------------------------------------- generated guards (T-gen validation)
// `g <what> args`: run the REAL function whose guard prefix was translated by cxx2coq on exactly these inputs; one outcome token:
//   A accepted, R std::invalid_argument and nothing changed, X another exception and nothing changed, C! something changed
struct HSS : HashSetSettings { static const CheckMode checkMode = CheckMode::exception; static const bool checkVersion = true; };
struct TSS : TreeSetSettings { static const CheckMode checkMode = CheckMode::exception; static const bool checkVersion = true; };
typedef TreeSet<int, TreeTraits<int>, MMD, TreeSetItemTraits<int, MMD>, TSS> TSG;
template<class Snap, class F> static std::string outcome(Snap snap, F f)
{
	std::string before = snap();
	try { f(); }
	catch (const std::invalid_argument&) { return snap() == before ? "R" : "C!rejected-call-changed-state"; }
	catch (const std::exception&) { return snap() == before ? "X" : "C!exception-changed-state"; }
	return "A";
}
template<class A> static std::string gArr(const std::string& what, const std::vector<long long>& a)
{
	A arr; for (long long i = 0; i < a[0]; ++i) arr.AddBack(int(i * 3 + 1));
	auto snap = [&] { std::string s; for (size_t i = 0; i < arr.GetCount(); ++i) s += std::to_string(arr[i]) + ","; return s; };
	if (what == "rm") return outcome(snap, [&] { size_t c = arr.GetCount(); arr.Remove(size_t(a[1]), size_t(a[2])); if (arr.GetCount() != c - size_t(a[2])) throw std::runtime_error("count"); });
	if (what == "insn") return outcome(snap, [&] { arr.Insert(size_t(a[1]), size_t(a[2]), 7); });
	if (what == "idx") return outcome(snap, [&] { volatile int x = arr[size_t(a[1])]; (void)x; });
	if (what == "rmback") return outcome(snap, [&] { arr.RemoveBack(size_t(a[1])); });
	if (what == "adv") { auto it = arr.GetBegin(); it += ptrdiff_t(a[1]); std::string r = outcome(snap, [&] { it += ptrdiff_t(a[2]); });
		return r == "A" ? "A=" + std::to_string((long long)(it - arr.GetBegin())) : r; }
	if (what == "defadv") { typename A::Iterator it; return outcome(snap, [&] { it += ptrdiff_t(a[1]); }); }
	if (what == "arrow") { auto it = arr.GetBegin(); it += ptrdiff_t(a[1]); return outcome(snap, [&] { (void)it.operator->(); }); }
	if (what == "defarrow") { typename A::Iterator it; return outcome(snap, [&] { (void)it.operator->(); }); }
	return "?what";
}
static std::string gOther(const std::string& what, const std::vector<long long>& a)
{
	auto none = [] { return std::string(); };
	if (what == "kself" || what == "kcont")
	{
		size_t cell[3] = { 0, 0, 0 };
		typedef internal::VersionKeeper<HSS, true> K;
		cell[1] = cell[2] = size_t(a[1]);                       // the snapshot the keeper takes
		K k = (a[0] == 0) ? K() : K(&cell[a[0]]);
		if (what == "kself") { cell[1] = cell[2] = size_t(a[2]); return outcome(none, [&] { k.Check(); }); }
		cell[1] = size_t(a[2]); cell[2] = size_t(a[3]);
		return outcome(none, [&] { k.Check(&cell[a[4]], a[5] != 0); });
	}
	if (what == "mmrm" || what == "mmmk")
	{
		MM m; m.Add(1, 10); if (a[0] == 0) m.InsertKey(5); for (long long j = 0; j < a[0]; ++j) m.Add(5, int(50 + j));
		auto snap = [&] { return mmContents(m); };
		if (what == "mmmk") return outcome(snap, [&] { (void)m.MakeIterator(m.Find(5), size_t(a[1])); });
		return outcome(snap, [&] { m.Remove(m.Find(5), size_t(a[1])); });
	}
	if (what == "selrm" || what == "selidx" || what == "row" || what == "tins" || what == "tupd")
	{
		DT t(DCL({ valCol })); for (long long j = 0; j < a[0]; ++j) t.AddRow(valCol = int(j * 7 + 1));
		auto sel = t.Select();
		auto snap = [&] { std::string s; for (auto r : t) s += std::to_string(r[valCol]) + ","; s += "|" + std::to_string(sel.GetCount()); return s; };
		if (what == "selrm") return outcome(snap, [&] { size_t c = sel.GetCount(); sel.Remove(size_t(a[1]), size_t(a[2])); if (sel.GetCount() != c - size_t(a[2])) throw std::runtime_error("count"); });
		if (what == "selidx") return outcome(snap, [&] { (void)sel[size_t(a[1])]; });
		if (what == "row") return outcome(snap, [&] { (void)t[size_t(a[1])]; });
		if (what == "tins") return outcome(snap, [&] { t.Insert(size_t(a[1]), t.NewRow(valCol = 999)); });
		return outcome(snap, [&] { t.Update(size_t(a[1]), t.NewRow(valCol = 998)); });
	}
	if (what == "tinc" || what == "tarrow" || what == "tdefinc")
	{
		TSG t; for (long long j = 0; !a.empty() && j < a[0]; ++j) t.Insert(int(j));
		if (what == "tdefinc") { TSG::ConstIterator it; return outcome(none, [&] { ++it; }); }
		TSG::ConstIterator it = t.GetBegin(); for (long long j = 0; j < a[1]; ++j) ++it;          // position a[1] <= count (count = end)
		if (what == "tinc") return outcome(none, [&] { ++it; });
		return outcome(none, [&] { (void)it.operator->(); });
	}
	return "?what";
}

static std::string dispatch(const std::string& line)
{
	if (line.compare(0, 2, "g ") == 0)
	{
		std::istringstream gs(line); std::string g, what, k; gs >> g >> what;
		std::vector<long long> a; std::string tok;
		if (what == "rm" || what == "insn" || what == "idx" || what == "rmback" || what == "adv" || what == "defadv" || what == "arrow" || what == "defarrow")
		{
			gs >> k; while (gs >> tok) a.push_back((long long)std::stoull(tok[0] == '-' ? tok : tok, nullptr, 10) * 1), (void)0;
			if (k == "ar") return gArr<AR>(what, a);
			if (k == "ai") return gArr<ARI>(what, a);
			if (k == "sa") return gArr<SA>(what, a);
			return "?kind";
		}
		while (gs >> tok) a.push_back((long long)std::stoull(tok, nullptr, 10));
		return gOther(what, a);
	}
	std::istringstream is(line); std::string kind, tok; is >> kind;
	std::vector<std::pair<std::string, Args>> ops;
	while (is >> tok)
	{
		Args a; size_t p = tok.find(','); std::string name = tok.substr(0, p);
		while (p != std::string::npos) { size_t q = tok.find(',', p + 1); a.push_back(std::stoll(tok.substr(p + 1, q == std::string::npos ? q : q - p - 1))); p = q; }
		ops.push_back({ name, a });
	}
	if (kind == "mmh") return runMMH(ops);
	if (kind == "arh") return runARH<AR>(ops);
	if (kind == "aih") return runARH<ARI>(ops);
	if (kind == "sah") return runARH<SA>(ops);
	if (kind == "dth") return runDTH(ops);
	return "?kind";
}

int main()
{
	std::string line;
	int timedOut = 0;
	while (std::getline(std::cin, line))
	{
		if (timedOut >= 6) { printf("CRASH skipped (6 cases already ran into the 10 s limit)\n"); continue; }
		int fd[2];
		if (pipe(fd) != 0) return 3;
		fflush(stdout);
		pid_t pid = fork();
		if (pid == 0)
		{
			// a runaway case (e.g. a mutant that loops or reserves without bound) must not take the machine down
#if !defined(__SANITIZE_ADDRESS__)
			struct rlimit rl; rl.rlim_cur = rl.rlim_max = rlim_t(2) << 30; setrlimit(RLIMIT_AS, &rl);
#endif
			alarm(10);
			close(fd[0]);
			std::string res = dispatch(line);
			if (write(fd[1], res.data(), res.size()) < 0) _exit(4);
			_exit(0);
		}
		close(fd[1]);
		std::string res; char buf[4096]; ssize_t k;
		while ((k = read(fd[0], buf, sizeof buf)) > 0) res.append(buf, size_t(k));
		close(fd[0]);
		int st = 0; waitpid(pid, &st, 0);
		if (WIFSIGNALED(st) && WTERMSIG(st) == SIGALRM) ++timedOut;
		if (WIFSIGNALED(st)) res = "CRASH signal " + std::to_string(WTERMSIG(st));
		else if (WEXITSTATUS(st) != 0) res = "CRASH exit " + std::to_string(WEXITSTATUS(st));
		printf("%s\n", res.c_str());
	}
	return 0;
}
