// instantiation TU for cxx2coq (C05): the range checks (guards) of ArrayShifter / Array / SegmentedArray.
// One use of every guarded member so that clang instantiates the bodies.
#include "momo/Array.h"
#include "momo/SegmentedArray.h"
namespace momo {
// an INPUT (non-forward) iterator: selects ArrayShifter::Insert (one InsertCrt per item)
struct C05InIt
{
	typedef std::input_iterator_tag iterator_category; typedef uint64_t value_type; typedef ptrdiff_t difference_type;
	typedef const uint64_t* pointer; typedef const uint64_t& reference;
	const uint64_t* p;
	reference operator*() const { return *p; }
	C05InIt& operator++() { ++p; return *this; }
	bool operator==(C05InIt o) const { return p == o.p; }
	bool operator!=(C05InIt o) const { return p != o.p; }
};
inline void c05_use(Array<uint64_t>& a, SegmentedArray<uint64_t>& s, const uint64_t& item)
{
	a.Insert(0, 1, item); a.Remove(0, 1); a.RemoveBack(1); a.AddBackNogrow(item); (void)a[0];
	a.AddBack(item); { uint64_t t = 1; a.AddBack(std::move(t)); } a.Shrink(1); a.Reserve(1);
	{ uint64_t t = 1; a.Insert(0, std::move(t)); } a.SetCount(3, item); a.Clear(true); a.Insert(0, C05InIt{&item}, C05InIt{&item + 1});
	s.Insert(0, 1, item); s.Remove(0, 1); s.RemoveBack(1); s.Shrink(1);
}
}
