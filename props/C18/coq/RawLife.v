(* C18 -- L2 model of the row life cycle: pvCreateRaw / pvCreate<Item, Items...> (also used by ImportRaw) /
   DestroyRaw / pvDestroy, with a construction that may throw.  A column list is a list of groups (one FuncRecord
   per Add call); events are the constructions (Create or Copy) and destructions of the items, by column. *)
From Coq Require Import List Arith Lia Bool.
Import ListNotations.

Inductive ev := Ctor (c : nat) | Dtor (c : nat).

Lemma ev_eq_dec : forall a b : ev, {a = b} + {a <> b}.
Proof. decide equality; apply Nat.eq_dec. Qed.

Definition count (e : ev) (t : list ev) : nat := count_occ ev_eq_dec t e.

(* k = Some n: the n-th (0-based) construction from now on throws, then injection is off; None: nothing throws *)
Definition dec (k : option nat) : option nat := match k with Some (S n) => Some n | _ => None end.

(* pvCreate<Item, Items...>: construct the item (may throw: then nothing of this level exists);
   try { pvCreate<Items...> } catch (...) { Destroy(item); throw; }          result: trace, completed?, k afterwards *)
Fixpoint create_group (k : option nat) (cs : list nat) : list ev * bool * option nat :=
  match cs with
  | [] => ([], true, k)
  | c :: cs' =>
    match k with
    | Some O => ([], false, None)
    | _ => let '(t, ok, k2) := create_group (dec k) cs' in
           if ok then (Ctor c :: t, true, k2) else (Ctor c :: t ++ [Dtor c], false, k2)
    end
  end.

(* pvCreateRaw: for each FuncRecord createFunc; catch (...) { destroyFunc of the records before funcIndex, in order; throw; }
   pvDestroy<void, Item, Items...> destroys the items of a group front to back *)
Fixpoint create_raw (k : option nat) (done rest : list (list nat)) : list ev * bool :=
  match rest with
  | [] => ([], true)
  | g :: gs =>
    let '(t, ok, k1) := create_group k g in
    if ok then let '(t2, ok2) := create_raw k1 (done ++ [g]) gs in (t ++ t2, ok2)
    else (t ++ map Dtor (concat done), false)
  end.

(* DestroyRaw *)
Definition destroy_raw (groups : list (list nat)) : list ev := map Dtor (concat groups).

Lemma count_app e a b : count e (a ++ b) = count e a + count e b.
Proof. apply count_occ_app. Qed.

Lemma count_map_Ctor_Dtor c l : count (Ctor c) (map Dtor l) = 0.
Proof. induction l; simpl; auto. unfold count in *. simpl. destruct (ev_eq_dec (Dtor a) (Ctor c)); [discriminate|auto]. Qed.

Lemma count_map_Dtor_Ctor c l : count (Dtor c) (map Ctor l) = 0.
Proof. induction l; simpl; auto. unfold count in *. simpl. destruct (ev_eq_dec (Ctor a) (Dtor c)); [discriminate|auto]. Qed.

Lemma count_map_Ctor c l : count (Ctor c) (map Ctor l) = count_occ Nat.eq_dec l c.
Proof.
  induction l; simpl; auto. unfold count in *. simpl.
  destruct (ev_eq_dec (Ctor a) (Ctor c)) as [E|E]; destruct (Nat.eq_dec a c) as [E'|E']; try congruence.
Qed.

Lemma count_map_Dtor c l : count (Dtor c) (map Dtor l) = count_occ Nat.eq_dec l c.
Proof.
  induction l; simpl; auto. unfold count in *. simpl.
  destruct (ev_eq_dec (Dtor a) (Dtor c)) as [E|E]; destruct (Nat.eq_dec a c) as [E'|E']; try congruence.
Qed.

Lemma create_group_spec cs : forall k t ok k',
  create_group k cs = (t, ok, k') ->
  if ok then t = map Ctor cs
  else (forall c, count (Ctor c) t = count (Dtor c) t) /\ (forall c, count (Ctor c) t <= count_occ Nat.eq_dec cs c).
Proof.
  induction cs as [|c cs IH]; intros k t ok k' E; simpl in E.
  - injection E as <- <- <-. reflexivity.
  - assert (Hgo : forall kk, (let '(t0, ok0, k2) := create_group kk cs in
                  if ok0 then (Ctor c :: t0, true, k2) else (Ctor c :: t0 ++ [Dtor c], false, k2)) = (t, ok, k') ->
        if ok then t = map Ctor (c :: cs)
        else (forall c0, count (Ctor c0) t = count (Dtor c0) t) /\
             (forall c0, count (Ctor c0) t <= count_occ Nat.eq_dec (c :: cs) c0)).
    { intros kk E'. destruct (create_group kk cs) as [[t0 ok0] k2] eqn:Eg. specialize (IH _ _ _ _ Eg).
      destruct ok0.
      - injection E' as <- <- <-. subst t0. reflexivity.
      - injection E' as <- <- <-. destruct IH as (H1 & H2). split; intros c0.
        + specialize (H1 c0). unfold count in *. simpl. rewrite !count_occ_app. simpl.
          destruct (ev_eq_dec (Ctor c) (Ctor c0)) as [E1|E1]; destruct (ev_eq_dec (Ctor c) (Dtor c0)); try discriminate;
          destruct (ev_eq_dec (Dtor c) (Ctor c0)); try discriminate;
          destruct (ev_eq_dec (Dtor c) (Dtor c0)) as [E2|E2]; try congruence; lia.
        + specialize (H2 c0). unfold count in *. simpl. rewrite !count_occ_app. simpl.
          destruct (ev_eq_dec (Ctor c) (Ctor c0)) as [E1|E1]; destruct (ev_eq_dec (Dtor c) (Ctor c0)); try discriminate;
          destruct (Nat.eq_dec c c0); try congruence; lia. }
    destruct k as [[|n]|].
    + injection E as <- <- <-. split; intros c0; simpl; lia.
    + apply (Hgo _ E).
    + apply (Hgo _ E).
Qed.

(* the whole pvCreateRaw, started after the groups `done` have been completed *)
Lemma create_raw_spec rest : forall k done t ok,
  create_raw k done rest = (t, ok) ->
  if ok then t = map Ctor (concat rest)
  else (forall c, count (Ctor c) t + count_occ Nat.eq_dec (concat done) c = count (Dtor c) t) /\
       (forall c, count (Ctor c) t <= count_occ Nat.eq_dec (concat rest) c).
Proof.
  induction rest as [|g gs IH]; intros k done t ok E; simpl in E.
  - injection E as <- <-. reflexivity.
  - destruct (create_group k g) as [[t1 ok1] k1] eqn:Eg. pose proof (create_group_spec _ _ _ _ _ Eg) as Hg.
    destruct ok1.
    + destruct (create_raw k1 (done ++ [g]) gs) as [t2 ok2] eqn:Er. specialize (IH _ _ _ _ Er).
      injection E as <- <-. subst t1. destruct ok2.
      * subst t2. simpl. rewrite map_app. reflexivity.
      * destruct IH as (H1 & H2). split; intros c.
        -- specialize (H1 c). rewrite concat_app, count_occ_app in H1. simpl in H1. rewrite app_nil_r in H1.
           rewrite !count_app, count_map_Ctor, count_map_Dtor_Ctor. lia.
        -- specialize (H2 c). simpl. rewrite count_app, count_occ_app, count_map_Ctor. lia.
    + injection E as <- <-. destruct Hg as (H1 & H2). split; intros c.
      * rewrite !count_app, count_map_Ctor_Dtor, count_map_Dtor, H1. lia.
      * simpl. rewrite count_app, count_map_Ctor_Dtor, count_occ_app. specialize (H2 c). lia.
Qed.

(* CreateRaw / ImportRaw either completes having constructed every column's item exactly once (in order, nothing
   destroyed), or throws having destroyed exactly what it had constructed (each column at most once when the
   columns are distinct) *)
Theorem raw_create_once groups k t ok : create_raw k [] groups = (t, ok) ->
  if ok then t = map Ctor (concat groups)
  else forall c, count (Ctor c) t = count (Dtor c) t /\ count (Ctor c) t <= count_occ Nat.eq_dec (concat groups) c.
Proof.
  intros E. pose proof (create_raw_spec _ _ _ _ _ E) as H. destruct ok; [exact H|].
  destruct H as (H1 & H2). intros c. specialize (H1 c). simpl in H1. split; [lia|apply H2].
Qed.

Theorem raw_create_never_fails_without_throw groups : create_raw None [] groups = (map Ctor (concat groups), true).
Proof.
  assert (Hg : forall cs, create_group None cs = (map Ctor cs, true, None)).
  { induction cs as [|c cs IH]; simpl; [reflexivity|]. rewrite IH. reflexivity. }
  assert (H : forall rest done, create_raw None done rest = (map Ctor (concat rest), true)).
  { induction rest as [|g gs IH]; intros done; simpl; [reflexivity|]. rewrite Hg, IH, map_app. reflexivity. }
  apply H.
Qed.

(* a row that was created and later destroyed: every column's item constructed exactly once and destroyed exactly once *)
Theorem raw_create_destroy_once groups c : NoDup (concat groups) -> In c (concat groups) ->
  let t := fst (create_raw None [] groups) ++ destroy_raw groups in
  count (Ctor c) t = 1 /\ count (Dtor c) t = 1.
Proof.
  intros Hnd Hin. rewrite raw_create_never_fails_without_throw. simpl. unfold destroy_raw.
  rewrite !count_app, count_map_Ctor, count_map_Dtor, count_map_Ctor_Dtor, count_map_Dtor_Ctor.
  rewrite (proj1 (NoDup_count_occ' Nat.eq_dec (concat groups)) Hnd c Hin). lia.
Qed.

(* ---------- pvCreateRaw with its funcIndex bookkeeping, statement by statement ----------
     size_t funcIndex = 0;
     try { size_t funcCount = mFuncRecords.GetCount();
           for (; funcIndex < funcCount; ++funcIndex) mFuncRecords[funcIndex].createFunc(...); }
     catch (...) { for (size_t i = 0; i < funcIndex; ++i) mFuncRecords[i].destroyFunc(...); throw; }          *)
Fixpoint create_raw_idx (fuel : nat) (k : option nat) (groups : list (list nat)) (funcIndex : nat) : list ev * bool :=
  match fuel with
  | O => ([], true)
  | S f =>
    if Nat.ltb funcIndex (length groups) then
      let '(t, ok, k1) := create_group k (nth funcIndex groups []) in
      if ok then let '(t2, ok2) := create_raw_idx f k1 groups (S funcIndex) in (t ++ t2, ok2)
      else (t ++ concat (map (map Dtor) (firstn funcIndex groups)), false)
    else ([], true)
  end.

Lemma firstn_length_app {A} (l l' : list A) : firstn (length l) (l ++ l') = l.
Proof. induction l; simpl; [destruct l'; reflexivity|f_equal; auto]. Qed.

Lemma nth_length_app {A} (l : list A) x l' d : nth (length l) (l ++ x :: l') d = x.
Proof. induction l; simpl; auto. Qed.

Lemma create_raw_idx_S f k groups funcIndex :
  create_raw_idx (S f) k groups funcIndex =
    if Nat.ltb funcIndex (length groups) then
      let '(t, ok, k1) := create_group k (nth funcIndex groups []) in
      if ok then let '(t2, ok2) := create_raw_idx f k1 groups (S funcIndex) in (t ++ t2, ok2)
      else (t ++ concat (map (map Dtor) (firstn funcIndex groups)), false)
    else ([], true).
Proof. reflexivity. Qed.

(* the index loop is the structural model the theorems are about *)
Lemma create_raw_idx_refines rest : forall k done,
  create_raw_idx (S (length rest)) k (done ++ rest) (length done) = create_raw k done rest.
Proof.
  induction rest as [|g gs IH]; intros k done.
  - rewrite create_raw_idx_S. cbn [create_raw length]. rewrite app_nil_r, Nat.ltb_irrefl. reflexivity.
  - cbn [create_raw length]. rewrite create_raw_idx_S.
    assert (Hlt : Nat.ltb (length done) (length (done ++ g :: gs)) = true).
    { apply Nat.ltb_lt. rewrite app_length. simpl. lia. }
    rewrite Hlt, nth_length_app.
    destruct (create_group k g) as [[t ok] k1]. destruct ok.
    + replace (done ++ g :: gs) with ((done ++ [g]) ++ gs) by (rewrite <- app_assoc; reflexivity).
      replace (S (length done)) with (length (done ++ [g])) by (rewrite app_length; simpl; lia).
      rewrite IH. reflexivity.
    + rewrite firstn_length_app, concat_map. reflexivity.
Qed.

Theorem create_raw_idx_ok groups k : create_raw_idx (S (length groups)) k groups 0 = create_raw k [] groups.
Proof. apply (create_raw_idx_refines groups k []). Qed.

(* the bookkeeping matters: with `++funcIndex` BEFORE the createFunc call (wave-2 seed a) the group whose construction
   failed -- and which pvCreate's own catch blocks already cleaned up -- is destroyed again by the outer catch *)
Fixpoint create_raw_preinc (fuel : nat) (k : option nat) (groups : list (list nat)) (funcIndex : nat) : list ev * bool :=
  match fuel with
  | O => ([], true)
  | S f =>
    if Nat.ltb funcIndex (length groups) then
      let '(t, ok, k1) := create_group k (nth funcIndex groups []) in
      if ok then let '(t2, ok2) := create_raw_preinc f k1 groups (S funcIndex) in (t ++ t2, ok2)
      else (t ++ concat (map (map Dtor) (firstn (S funcIndex) groups)), false)
    else ([], true)
  end.

Example preincrement_destroys_twice :
  fst (create_raw_preinc 3 (Some 1) [[0; 1]] 0) = [Ctor 0; Dtor 0; Dtor 0; Dtor 1] /\
  fst (create_raw_idx 3 (Some 1) [[0; 1]] 0) = [Ctor 0; Dtor 0].
Proof. vm_compute. split; reflexivity. Qed.
