(* C02 -- the container level: TreeSet state (root, count), iterators as positions, bounds, insertion, traversal *)
From Coq Require Import List ZArith Arith Lia Bool Sorted.
From C02 Require Import BTreeModel BTreeParams BTreeBase BTreeSearch BTreeIter BTreeAdd.
Import ListNotations.

(* ---------- list-level specification ---------- *)
Definition lb_index (l : list Z) (k : Z) : nat := first_true (fun x => negb (x <? k)%Z) l.
Definition ub_index (l : list Z) (k : Z) : nat := first_true (fun x => (k <? x)%Z) l.

Lemma firstn_before {A} (a b : list A) : firstn (length a) (a ++ b) = a.
Proof. rewrite firstn_app, Nat.sub_diag, firstn_all. simpl. apply app_nil_r. Qed.
Lemma skipn_before {A} (a b : list A) : skipn (length a) (a ++ b) = b.
Proof. rewrite skipn_app, Nat.sub_diag, skipn_all. reflexivity. Qed.

Section Top.
Variables (maxCap stepRaw blockCount : nat) (linear multi : bool).
Hypothesis Hmc : 1 <= maxCap <= 255.

Notation shape := (shape maxCap).
Notation add := (add maxCap stepRaw blockCount).
Notation add_root := (add_root maxCap stepRaw blockCount).
Notation insert := (insert maxCap stepRaw blockCount linear multi).
Notation find_first := (find_first linear).
Notation lower_bound := (lower_bound linear).
Notation upper_bound := (upper_bound linear).

Definition twf (t : tree) : Prop :=
  match root t with
  | None => cnt t = 0
  | Some r => shape (height r) r /\ cnt t = length (flatten r)
  end.
Definition tvalid (t : tree) (it : iter) : Prop :=
  match root t with None => it = ([], 0) | Some r => valid (height r) (fst it) r (snd it) end.
Definition titem (t : tree) (it : iter) : Prop :=
  match root t with None => False | Some r => has_item (fst it) r (snd it) end.
Definition norm (t : tree) (it : iter) : Prop := tvalid t it /\ (titem t it \/ it = end_iter t).

Lemma leaf_cap_ok' : forall ic c, c <= maxCap ->
  c <= leaf_cap maxCap stepRaw blockCount ic c /\ 0 < leaf_cap maxCap stepRaw blockCount ic c <= maxCap.
Proof. intros. apply leaf_cap_bounds; lia. Qed.
Lemma split_ok' : forall c j, 0 < c -> c <= maxCap -> j <= c -> split_index c j < c.
Proof. intros. apply split_index_lt; lia. Qed.

(* ---------- positions and indexes ---------- *)
Lemma index_end t : twf t -> iter_index t (end_iter t) = length (contents t).
Proof.
  unfold twf, iter_index, end_iter, contents. destruct (root t) as [r|]; auto.
  intros [S _]. unfold end_of. cbn [fst snd]. erewrite before_end; eauto.
Qed.

Lemma tvalid_end t : twf t -> tvalid t (end_iter t).
Proof. unfold twf, tvalid, end_iter. destruct (root t); auto. intros _. simpl. lia. Qed.

Lemma item_index t it :
  twf t -> tvalid t it -> titem t it ->
  iter_index t it < length (contents t) /\ deref t it = nth_error (contents t) (iter_index t it) /\ deref t it <> None.
Proof.
  unfold twf, tvalid, titem, iter_index, contents, deref. destruct (root t) as [r|]; [|tauto].
  intros [S _] V H. destruct (after_item maxCap _ _ _ _ S V H) as (x & tl & E1 & E2).
  rewrite <- (before_after maxCap _ _ _ _ S V), E2, E1. repeat split.
  - rewrite app_length. simpl. lia.
  - rewrite nth_error_app2, Nat.sub_diag by lia. reflexivity.
  - discriminate.
Qed.

Lemma norm_at_end t it : twf t -> norm t it -> iter_index t it = length (contents t) -> it = end_iter t.
Proof.
  intros W [V [H|H]] E; auto. destruct (item_index t it W V H). lia.
Qed.

Lemma norm_unique t a b : twf t -> norm t a -> norm t b -> iter_index t a = iter_index t b -> a = b.
Proof.
  intros W [Va [Ha|Ha]] [Vb [Hb|Hb]] E.
  - unfold twf, tvalid, titem, iter_index in *. destruct (root t) as [r|]; [|tauto]. destruct W as [S _].
    destruct a as [p j], b as [q i]. simpl in *.
    destruct (has_item_unique maxCap _ _ _ _ _ _ S Va Ha Vb Hb E); subst; auto.
  - subst b. rewrite index_end in E by auto. destruct (item_index t a W Va Ha). lia.
  - subst a. rewrite index_end in E by auto. destruct (item_index t b W Vb Hb). lia.
  - congruence.
Qed.

Lemma iter_eqb_eq a b : iter_eqb a b = true <-> a = b.
Proof.
  destruct a as [p j], b as [q i]. unfold iter_eqb. simpl. rewrite andb_true_iff, Nat.eqb_eq.
  assert (forall p q, list_eqb p q = true <-> p = q).
  { clear. induction p; destruct q; simpl; split; intros H; try discriminate; auto.
    - apply andb_true_iff in H. destruct H as [H1 H2]. apply Nat.eqb_eq in H1. apply IHp in H2. congruence.
    - inversion H; subst. rewrite Nat.eqb_refl. simpl. apply IHp. reflexivity. }
  rewrite H. split; [intros [-> ->]; auto | intros E; inversion E; auto].
Qed.

(* ---------- pvFindFirst ---------- *)
Lemma find_first_spec t P :
  twf t -> mono P (contents t) ->
  norm t (find_first t P) /\ iter_index t (find_first t P) = first_true P (contents t).
Proof.
  unfold twf, norm, tvalid, titem, iter_index, contents, end_iter, BTreeModel.find_first.
  destruct (root t) as [r|]; [|simpl; auto].
  intros [S _] M. pose proof (ff_spec maxCap linear P _ r S M) as H.
  destruct (ff linear (height r) P r) as [[p j]|].
  - destruct H as (V & HI & B & _). simpl. auto.
  - unfold end_of; cbn [fst snd]. rewrite (before_end maxCap _ r S).
    split; [split; [cbn [valid]; lia | right; reflexivity] | lia].
Qed.

(* ---------- GetBegin, ++, -- ---------- *)
Lemma begin_spec t : twf t -> norm t (begin_iter t) /\ iter_index t (begin_iter t) = 0.
Proof.
  unfold twf, norm, tvalid, titem, iter_index, end_iter, begin_iter.
  destruct (root t) as [r|]; [|simpl; auto].
  intros [S _]. pose proof (first_in_spec maxCap _ r S) as H.
  destruct (first_in (height r) r) as [[p j]|].
  - destruct H as (V & HI & B). simpl. rewrite B. auto.
  - unfold end_of; cbn [fst snd]. rewrite (before_end maxCap _ r S), H.
    split; [split; [cbn [valid]; lia | right; reflexivity] | reflexivity].
Qed.

Lemma next_spec t it :
  twf t -> tvalid t it -> titem t it ->
  norm t (next t it) /\ iter_index t (next t it) = S (iter_index t it).
Proof.
  unfold twf, norm, tvalid, titem, iter_index, end_iter, next.
  destruct (root t) as [r|]; [|tauto].
  intros [S _] V H. destruct (next_in_spec maxCap _ _ r _ S V H) as (x & _ & R).
  destruct (next_in (height r) (fst it) r (snd it)) as [[q i]|].
  - destruct R as (Vq & Hq & B). simpl. rewrite B, app_length. simpl. repeat split; auto. lia.
  - unfold end_of; cbn [fst snd]. rewrite (before_end maxCap _ r S), <- R, app_length.
    split; [split; [cbn [valid]; lia | right; reflexivity] | simpl; lia].
Qed.

Lemma prev_spec t it :
  twf t -> tvalid t it -> 0 < iter_index t it ->
  tvalid t (prev t it) /\ titem t (prev t it) /\ S (iter_index t (prev t it)) = iter_index t it.
Proof.
  unfold twf, tvalid, titem, iter_index, prev.
  destruct (root t) as [r|]; [|intros; simpl in *; lia].
  intros [S _] V H. pose proof (prev_in_spec maxCap _ _ r _ S V) as R.
  destruct (prev_in (height r) (fst it) r (snd it)) as [[q i]|].
  - destruct R as (Vq & Hq & x & _ & B). simpl. rewrite <- B, app_length. simpl. repeat split; auto. lia.
  - rewrite R in H. simpl in H. lia.
Qed.

(* ---------- pvAdd ---------- *)
Lemma add_root_spec r it x :
  shape (height r) r -> valid (height r) (fst it) r (snd it) ->
  let '(r', pos) := add_root r it x in
  shape (height r') r' /\
  flatten r' = before (fst it) r (snd it) ++ x :: after (fst it) r (snd it) /\
  valid (height r') (fst pos) r' (snd pos) /\ item_at (fst pos) r' (snd pos) = Some x /\
  before (fst pos) r' (snd pos) = before (fst it) r (snd it).
Proof.
  intros S V. unfold BTreeModel.add_root.
  pose proof (leaf_pos_spec maxCap ltac:(lia) _ _ r _ S V) as LP.
  destruct (leaf_pos (height r) (fst it) r (snd it)) as [p j]. destruct LP as (Vp & Lp & B & A).
  pose proof (ins_spec maxCap stepRaw blockCount ltac:(lia) leaf_cap_ok' split_ok' (nint r) x _ p r j S Vp Lp) as R.
  rewrite B, A in R.
  destruct (BTreeModel.ins maxCap stepRaw blockCount (nint r) p r j x) as [r' [q i] | n1 sep n2 rt [q i]]; cbn [ins_ok] in R.
  - destruct R as (S' & Fl & Vq & I & Bq). rewrite (shape_height maxCap _ _ S'). simpl. auto.
  - destruct R as (S1 & S2 & Fl & Rpos).
    set (d := height r) in *.
    assert (S' : shape (Datatypes.S d) (Node maxCap [sep] [n1; n2])).
    { cbn [BTreeBase.shape]. unfold n_count. cbn [n_items n_cap n_children length].
      split; [lia|]. split; [lia|]. split; [reflexivity|]. repeat constructor; auto. }
    rewrite (shape_height maxCap _ _ S'). split; [exact S'|]. split; [simpl; exact Fl|].
    destruct rt; destruct Rpos as (Vq & I & Bq); simpl; repeat split; auto.
    rewrite <- Bq. unfold pre. simpl. rewrite <- app_assoc. reflexivity.
Qed.

Lemma add_spec t it x :
  twf t -> tvalid t it ->
  let '(t', pos) := add t it x in
  twf t' /\
  contents t' = firstn (iter_index t it) (contents t) ++ x :: skipn (iter_index t it) (contents t) /\
  tvalid t' pos /\ titem t' pos /\ deref t' pos = Some x /\ iter_index t' pos = iter_index t it.
Proof.
  assert (ItemHas : forall p r' j, item_at p r' j = Some x -> has_item p r' j).
  { induction p; simpl; intros.
    - apply nth_error_Some. congruence.
    - destruct (nth_error (n_children r') a); [eauto | discriminate]. }
  unfold twf, tvalid, titem, iter_index, contents, deref, BTreeModel.add.
  destruct (root t) as [r|] eqn:Er.
  - intros [S C] V. pose proof (add_root_spec r it x S V) as R.
    destruct (add_root r it x) as [r' pos]. destruct R as (S' & Fl & Vp & I & B).
    cbn [root cnt]. pose proof (before_after maxCap _ _ r _ S V) as Hfl.
    set (b := before (fst it) r (snd it)) in *. set (a := after (fst it) r (snd it)) in *.
    rewrite Fl, B, C, <- Hfl, firstn_before, skipn_before.
    split; [split; [exact S' | rewrite !app_length; simpl; lia]|].
    split; [reflexivity|]. split; [exact Vp|]. split; [apply ItemHas; exact I|]. split; [exact I | reflexivity].
  - intros C V. subst it.
    set (r0 := Node (leaf_cap maxCap stepRaw blockCount 0 0) [] []).
    assert (S0 : shape (height r0) r0).
    { simpl. destruct (leaf_cap_ok' 0 0 ltac:(lia)). unfold n_count. simpl. repeat split; auto; lia. }
    assert (V0 : valid (height r0) (fst (end_of r0)) r0 (snd (end_of r0))) by (simpl; lia).
    pose proof (add_root_spec r0 (end_of r0) x S0 V0) as R.
    destruct (add_root r0 (end_of r0) x) as [r' pos]. destruct R as (S' & Fl & Vp & I & B).
    cbn [root cnt]. simpl in Fl, B. rewrite Fl, B, C.
    split; [split; [exact S' | reflexivity]|].
    split; [reflexivity|]. split; [exact Vp|]. split; [apply ItemHas; exact I|]. split; [exact I | reflexivity].
Qed.

End Top.
