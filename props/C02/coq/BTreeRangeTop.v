(* C02 -- container level: Remove(begin, end) *)
From Coq Require Import List ZArith Arith Lia Bool.
From C02 Require Import BTreeModel BTreeBase BTreeSearch BTreeIter BTreeAdd BTreeRemove BTreeCtx BTreeRemove2 BTreeTrack BTreeRemove3
  BTreeRange BTreeTop BTreeHist BTreeRemoveTop.
Import ListNotations.

Lemma list_eqb_true a : forall b, list_eqb a b = true -> a = b.
Proof.
  induction a as [|x a IH]; destruct b as [|y b]; simpl; intros H; try discriminate; auto.
  apply andb_true_iff in H. destruct H as [H1 H2]. apply Nat.eqb_eq in H1. f_equal; auto.
Qed.

Section RangeTop.
Variable maxCap : nat.
Hypothesis Hmc : 1 <= maxCap <= 255.
Notation shape := (shape maxCap).
Notation twf := (twf maxCap).
Let Hpos : 0 < maxCap. Proof. lia. Qed.

(* the result of either branch, repackaged as a container *)
Lemma pack_result t r B T res rem :
  root t = Some r -> rem_ok maxCap B T res ->
  cnt t - rem = length (B ++ T) ->
  let t' := {| root := Some (fst res); cnt := cnt t - rem |} in
  twf t' /\ contents t' = B ++ T /\ norm t' (snd res) /\ iter_index t' (snd res) = length B.
Proof.
  intros Er (d' & S' & F' & V' & H' & B') C. cbv zeta.
  unfold BTreeTop.twf, contents, norm, tvalid, titem, iter_index, end_iter. cbn [root cnt].
  rewrite (shape_height maxCap _ _ S'). rewrite F', B'. repeat split; auto.
Qed.

Theorem remove_range_refines t h1 h2 :
  twf t -> h1 <= h2 -> h2 <= length (contents t) ->
  let '(t', it') := remove_range t h1 h2 in
  twf t' /\ contents t' = firstn h1 (contents t) ++ skipn h2 (contents t) /\
  norm t' it' /\ iter_index t' it' = h1.
Proof.
  intros W H12 H2. unfold remove_range.
  destruct (nth_iter_spec maxCap Hmc t W h1 ltac:(lia)) as [N1 I1].
  destruct (nth_iter_spec maxCap Hmc t W h2 H2) as [N2 I2].
  pose proof (count_is_length maxCap Hmc t W) as Cn.
  destruct (root t) as [r|] eqn:Er.
  2:{ assert (El : contents t = []) by (unfold contents; rewrite Er; reflexivity). rewrite El in *. simpl in H2.
      assert (h2 = 0) by lia. assert (h1 = 0) by lia. subst. repeat split; auto; apply N1. }
  destruct (h2 - h1 =? 0) eqn:E0.
  - apply Nat.eqb_eq in E0. assert (h1 = h2) by lia. subst h2. rewrite firstn_skipn. repeat split; auto; apply N2.
  - apply Nat.eqb_neq in E0. destruct (h2 - h1 =? cnt t) eqn:E1.
    + apply Nat.eqb_eq in E1. assert (h1 = 0) by lia. assert (h2 = length (contents t)) by lia. subst h1 h2.
      rewrite skipn_all. cbn [firstn app]. unfold BTreeTop.twf, contents, norm, tvalid, titem, iter_index, end_iter, empty_tree. cbn [root cnt].
      repeat split; auto.
    + apply Nat.eqb_neq in E1.
      set (it1 := nth_iter t h1) in *. set (it2 := nth_iter t h2) in *.
      assert (Hi1 : titem t it1).
      { destruct N1 as [_ [Hi|Hi]]; auto. rewrite Hi, (index_end maxCap) in I1 by exact W. lia. }
      destruct (prev_spec maxCap Hmc t it2 W (proj1 N2) ltac:(lia)) as (Vp & Hp & Ip).
      set (itp := prev t it2) in *.
      pose proof W as W0. unfold BTreeTop.twf in W0. rewrite Er in W0. destruct W0 as [Sh _].
      pose proof (proj1 N1) as V1. unfold tvalid, titem, iter_index in *. rewrite Er in *.
      destruct it1 as [p1 i1]. destruct itp as [pp ip]. cbn [fst snd] in *.
      pose proof (before_after maxCap _ p1 r i1 Sh V1) as Hf1. pose proof (before_after maxCap _ pp r ip Sh Vp) as Hfp.
      destruct (after_item maxCap _ pp r ip Sh Vp Hp) as (y & tlp & _ & Eap).
      assert (Cl : contents t = flatten r) by (unfold contents; rewrite Er; reflexivity).
      assert (EB : firstn h1 (contents t) = before p1 r i1).
      { rewrite Cl, <- Hf1, <- I1. apply firstn_before. }
      assert (ET : skipn h2 (contents t) = tl (after pp r ip)).
      { rewrite Cl, <- Hfp, Eap. cbn [tl]. replace h2 with (length (before pp r ip ++ [y])) by (rewrite app_length; simpl; lia).
        replace (before pp r ip ++ y :: tlp) with ((before pp r ip ++ [y]) ++ tlp) by (rewrite <- app_assoc; reflexivity).
        apply skipn_before. }
      assert (Ecnt : cnt t - (h2 - h1) = length (before p1 r i1 ++ tl (after pp r ip))).
      { rewrite <- EB, <- ET, app_length, firstn_length, skipn_length, Cn. lia. }
      assert (Hord : length (before p1 r i1) <= length (before pp r ip)) by lia.
      destruct (list_eqb p1 pp && match node_at p1 r with Some nd => is_leaf nd | None => false end) eqn:Esl.
      * (* both ends in the same leaf *)
        apply andb_true_iff in Esl. destruct Esl as [Eq Elf]. apply list_eqb_true in Eq. subst pp.
        destruct (node_at_valid maxCap Hpos p1 _ r i1 Sh V1) as (nd & En & Snd & _ & Lp). rewrite En in Elf.
        pose proof (shape_leaf _ _ _ Snd Elf) as Ed. assert (Lp' : length p1 = height r) by lia.
        pose proof (has_item_inv p1 r nd i1 En Hi1) as Hj1. pose proof (has_item_inv p1 r nd ip En Hp) as Hjp.
        pose proof (valid_0 maxCap Hpos p1 _ r i1 V1) as V0.
        destruct (ctx_pos p1 _ r i1 nd V1 En) as [Bp1 _]. destruct (ctx_pos p1 _ r ip nd Vp En) as [Bpp App].
        cbn [before after] in Bp1, Bpp, App. rewrite Elf in Bp1, Bpp, App.
        assert (Hii : i1 <= ip).
        { rewrite Bp1, Bpp, !app_length, !firstn_length in Hord. unfold n_count in *. lia. }
        rewrite (update_at_const p1 _ r nd En).
        set (nd' := Node (n_cap nd) (firstn i1 (n_items nd) ++ skipn (S ip) (n_items nd)) (n_children nd)).
        assert (Snd' : shape (height r - length p1) nd').
        { rewrite Ed in *. pose proof Snd as (A1 & A2 & A3). unfold nd'. cbn [BTreeBase.shape]. unfold n_count in *.
          cbn [n_items n_cap n_children]. rewrite app_length, firstn_length, skipn_length. repeat split; auto; lia. }
        destruct (update_ctx maxCap Hpos p1 _ r nd' Sh V0 Snd') as (S1 & N1' & Bx & Ax & Vx).
        assert (Fnd' : flatten nd' = firstn i1 (n_items nd) ++ skipn (S ip) (n_items nd)).
        { apply flatten_leaf. exact Elf. }
        assert (Vj : valid (height r) p1 (update_at p1 (fun _ => nd') r) i1).
        { apply (valid_of_node p1 _ _ nd' i1 Vx N1'). unfold nd', n_count in *. cbn [n_items]. rewrite app_length, firstn_length. lia. }
        assert (Et : tl (after p1 r ip) = skipn (S ip) (n_items nd) ++ ctxa p1 r).
        { rewrite App. destruct (nth_error_ex (n_items nd) ip Hjp) as [z Ez]. rewrite (skipn_head' _ _ _ Ez). reflexivity. }
        assert (Fr1 : flatten (update_at p1 (fun _ => nd') r) = before p1 r i1 ++ tl (after p1 r ip)).
        { rewrite (flatten_ctx maxCap p1 _ _ nd' S1 Vx N1'), Bx, Ax, Fnd', Bp1, Et, <- !app_assoc. reflexivity. }
        assert (Bj : before p1 (update_at p1 (fun _ => nd') r) i1 = before p1 r i1).
        { destruct (ctx_pos p1 _ _ i1 nd' Vj N1') as [Bq _]. rewrite Bq, Bx, Bp1. f_equal.
          cbn [before]. change (is_leaf nd') with (is_leaf nd). rewrite Elf. unfold nd'. cbn [n_items].
          rewrite firstn_app_le by (rewrite firstn_length; unfold n_count in *; lia). rewrite firstn_firstn, Nat.min_id. reflexivity. }
        pose proof (finish_remove maxCap Hpos (height r) _ p1 p1 i1 _ _ S1 Fr1 Vj Lp' Bj) as RO.
        destruct (rebalance (update_at p1 (fun _ => nd') r) p1 p1 true) as [r2 sp].
        destruct (pack_result t r _ _ (r2, move_if r2 (sp, i1)) (h2 - h1) Er RO Ecnt) as (A & B & C & D).
        cbn [fst snd] in *. rewrite EB, ET. rewrite I1 in D. split; [exact A|]. split; [exact B|]. split; [exact C | exact D].
      * (* pvRemoveRange through the common parent *)
        assert (Hns : ~ (p1 = pp /\ exists nd, node_at p1 r = Some nd /\ is_leaf nd = true)).
        { intros [Eq (nd & En & Lf)]. subst pp. rewrite En, Lf in Esl.
          assert (list_eqb p1 p1 = true) by (clear; induction p1; simpl; auto; rewrite Nat.eqb_refl; exact IHp1).
          rewrite H in Esl. discriminate. }
        pose proof (remove_range_root_spec maxCap Hpos _ r p1 i1 pp ip Sh V1 Hi1 Vp Hp Hord Hns) as RO.
        destruct (remove_range_root r (p1, i1) (pp, ip)) as [r3 it3].
        destruct (pack_result t r _ _ (r3, it3) (h2 - h1) Er RO Ecnt) as (A & B & C & D).
        cbn [fst snd] in *. rewrite EB, ET. rewrite I1 in D. split; [exact A|]. split; [exact B|]. split; [exact C | exact D].
Qed.

End RangeTop.
