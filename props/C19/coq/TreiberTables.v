(* C19 -- table OBJECTS: DataTable(DataTable&&), Swap, move assignment move the Crew POINTER; the Crew's Data (the atomic list
   head, heap allocated) stays where it is.  A detached row points to the head inside the Data, not to a table object, so it
   keeps pointing to the head of whichever table object currently owns the crew.  `tab t = Some 0` : table object t owns the
   (single) crew 0 of the layered machine; `None` : a moved-from table (null crew). *)
From Coq Require Import List Arith Bool PeanoNat.
From C19 Require Import Treiber TreiberInv TreiberRows.
Import ListNotations.

Record tstate := mkT { tl : lstate; tab : nat -> option nat }.
Definition tinit : tstate := mkT linit (fun t => if Nat.eqb t 0 then Some 0 else None).

Inductive tlabel :=
| TL (ll : llabel)                 (* any step of the layered machine, performed through the owning table object *)
| TMoveCtor (t' t : nat)           (* DataTable(DataTable&&): mCrew(std::move(table.mCrew)) *)
| TSwap (t1 t2 : nat).             (* DataTable::Swap: mCrew.Swap(table.mCrew) *)

Definition stept (ts : tstate) (l : tlabel) : option tstate :=
  match l with
  | TL ll => match stepl (tl ts) ll with Some ls' => Some (mkT ls' (tab ts)) | None => None end
  | TMoveCtor t' t =>
      if Nat.eqb t' t then None
      else match tab ts t' with
           | Some _ => None                                   (* t' must be a fresh object *)
           | None => Some (mkT (tl ts) (upd (upd (tab ts) t' (tab ts t)) t None))
           end
  | TSwap t1 t2 => Some (mkT (tl ts) (upd (upd (tab ts) t1 (tab ts t2)) t2 (tab ts t1)))
  end.

Fixpoint runt (ts : tstate) (l : list tlabel) : option tstate :=
  match l with
  | [] => Some ts
  | a :: l' => match stept ts a with Some ts' => runt ts' l' | None => None end
  end.
Definition reachable_t (ts : tstate) : Prop := exists l, runt tinit l = Some ts.

(* exactly one table object owns the crew *)
Definition one_owner (ts : tstate) : Prop :=
  exists t, tab ts t = Some 0 /\ forall t', t' <> t -> tab ts t' = None.

Lemma one_owner_init : one_owner tinit.
Proof. exists 0. split; [reflexivity|]. intros t' N. simpl. destruct (Nat.eqb_spec t' 0); congruence. Qed.

Lemma one_owner_step ts l ts' : one_owner ts -> stept ts l = Some ts' -> one_owner ts'.
Proof.
  intros [t [Ht Ho]] H. unfold stept in H. destruct l.
  - destruct (stepl (tl ts) ll); try discriminate. inversion H; subst. exists t; auto.
  - destruct (Nat.eqb_spec t' t0); try discriminate. destruct (tab ts t') eqn:E; try discriminate.
    inversion H; subst; clear H. simpl.
    exists (if Nat.eq_dec t0 t then t' else t). split.
    + destruct (Nat.eq_dec t0 t); subst; simpl; upd_tac; auto; try congruence; try (apply Ho; congruence).
    + intros x N. destruct (Nat.eq_dec t0 t); subst; simpl; upd_tac; auto; try congruence; try (apply Ho; congruence).
  - inversion H; subst; clear H. simpl.
    exists (if Nat.eq_dec t t1 then t2 else if Nat.eq_dec t t2 then t1 else t). split.
    + destruct (Nat.eq_dec t t1); [|destruct (Nat.eq_dec t t2)]; subst; simpl; upd_tac; auto; try congruence; try (apply Ho; congruence).
    + intros x N. destruct (Nat.eq_dec t t1); [|destruct (Nat.eq_dec t t2)]; subst; simpl; upd_tac; auto; try congruence; try (apply Ho; congruence).
Qed.

Lemma runt_inv l : forall ts ts', one_owner ts /\ linv (tl ts) -> runt ts l = Some ts' -> one_owner ts' /\ linv (tl ts').
Proof.
  induction l; simpl; intros ts ts' [O L] H; [inversion H; subst; auto|].
  destruct (stept ts a) as [ts1|] eqn:E; try discriminate. eapply IHl; [|eauto]. split.
  - eapply one_owner_step; eauto.
  - unfold stept in E. destruct a.
    + destruct (stepl (tl ts) ll) eqn:E2; try discriminate. inversion E; subst. simpl. eapply linv_step; eauto.
    + destruct (Nat.eqb t' t); try discriminate. destruct (tab ts t'); try discriminate. inversion E; subst; auto.
    + inversion E; subst; auto.
Qed.

(* for every schedule of row, free-list and TABLE-object operations: one table object owns the crew, and every Row object
   holding a buffer points to that crew's head (so whichever object the table was moved into drains the rows' pushes) *)
Theorem rows_point_to_the_owning_table ts :
  reachable_t ts ->
  one_owner ts /\ linv (tl ts) /\
  forall o r, o_live (objs (tl ts) o) = true -> o_raw (objs (tl ts) o) = Some r -> o_fl (objs (tl ts) o) = true.
Proof.
  intros [l H]. destruct (runt_inv l tinit ts (conj one_owner_init linv_init) H) as [O L].
  split; auto. split; auto. intros o r Lo Ro. apply (l_held _ L _ _ Lo Ro).
Qed.

(* FRAME: moving / swapping table objects touches neither the free-list machine nor any Row object *)
Theorem table_object_ops_frame ts l ts' :
  stept ts l = Some ts' -> match l with TL _ => True | _ => tl ts' = tl ts end.
Proof.
  unfold stept. destruct l; auto.
  - destruct (Nat.eqb t' t); try discriminate. destruct (tab ts t'); try discriminate. intros H; inversion H; reflexivity.
  - intros H; inversion H; reflexivity.
Qed.

Example ex_table_moved_while_rows_detached :
  exists ts, runt tinit [TL (LNew 1 0 None); TMoveCtor 1 0; TL (LDestroy 3 1); TL (LB (DLoad 3)); TL (LB (DLink 3)); TL (LB (DCas 3 false));
                         TSwap 0 1; TL (LB OExchange)] = Some ts /\
    tab ts 0 = Some 0 /\ tab ts 1 = None /\ drain (lbase (tl ts)) = [0].
Proof. eexists; split; [vm_compute; reflexivity|]. vm_compute. repeat split. Qed.
