(* C19 -- pvCreateRaw / pvNewRow: between mRawMemPool.Allocate (inside pvAllocateRaw) and pvMakeRow the new buffer is held only
   by the owner's stack frame.  If creating or filling the items throws, the catch blocks give it straight back to the POOL
   (pvCreateRaw: mRawMemPool.Deallocate(raw); pvNewRow: pvDestroyRaw(raw) = DestroyRaw + Deallocate) -- never to the free list,
   and exactly once.  `pending` = the buffer taken from the pool and not yet wrapped in a Row; the base machine still counts it as
   Free (it never becomes visible to anybody), so every theorem of the lower layers applies unchanged. *)
From Coq Require Import List Arith Bool PeanoNat.
From C19 Require Import Treiber TreiberInv TreiberThms TreiberRows.
Import ListNotations.
Local Arguments step : simpl never.

Record cstate := mkC { cl : lstate; pending : option row }.
Definition cinit : cstate := mkC linit None.

Inductive clabel :=
| CL (ll : llabel)
| CTakeRaw (r : row)                      (* pvAllocateRaw's Allocate returned r *)
| CMakeRow (o : nat) (g : option row)     (* items created and filled: pvMakeRow *)
| CAbort (g : option row).                (* an item constructor / assignment threw: the catch block deallocates r *)

(* what other threads may do while the owner is inside pvCreateRaw / pvNewRow *)
Definition concurrent_ok (ll : llabel) : bool :=
  match ll with
  | LB (DLoad _) | LB (DLink _) | LB (DCas _ _) | LB (Scribble _ _) => true
  | LMoveCtor _ _ | LSwap _ _ | LDestroy _ _ => true
  | _ => false
  end.

Definition stepc (cs : cstate) (l : clabel) : option cstate :=
  match l with
  | CL ll =>
      match pending cs with
      | Some _ => if concurrent_ok ll
                  then match stepl (cl cs) ll with Some ls' => Some (mkC ls' (pending cs)) | None => None end
                  else None
      | None => match stepl (cl cs) ll with Some ls' => Some (mkC ls' None) | None => None end
      end
  | CTakeRaw r =>
      match pending cs, own (lbase (cl cs)), status (lbase (cl cs)) r with
      | None, OIdle, Free => Some (mkC (cl cs) (Some r))
      | _, _, _ => None
      end
  | CMakeRow o g =>
      match pending cs with
      | Some r => match stepl (cl cs) (LNew o r g) with Some ls' => Some (mkC ls' None) | None => None end
      | None => None
      end
  | CAbort g =>
      match pending cs with
      | Some r => match stepl (cl cs) (LB (Scribble r g)) with Some ls' => Some (mkC ls' None) | None => None end
      | None => None
      end
  end.

Fixpoint runc (cs : cstate) (l : list clabel) : option cstate :=
  match l with
  | [] => Some cs
  | a :: l' => match stepc cs a with Some cs' => runc cs' l' | None => None end
  end.
Definition reachable_c (cs : cstate) : Prop := exists l, runc cinit l = Some cs.

Definition cinv (cs : cstate) : Prop :=
  linv (cl cs) /\ forall r, pending cs = Some r -> status (lbase (cl cs)) r = Free /\ own (lbase (cl cs)) = OIdle.

Ltac step_cases Hs :=
  unfold step in Hs;
  repeat match type of Hs with
  | match ?x with _ => _ end = _ => let E := fresh "E" in destruct x eqn:E; try discriminate
  | (if ?x then _ else _) = _ => let E := fresh "E" in destruct x eqn:E; try discriminate
  end; inversion Hs; subst; clear Hs; simpl in *.

(* a concurrent step keeps a Free buffer Free and the owner idle *)
Lemma concurrent_keeps_pending ls ll ls' r :
  linv ls -> concurrent_ok ll = true -> stepl ls ll = Some ls' ->
  status (lbase ls) r = Free -> own (lbase ls) = OIdle ->
  status (lbase ls') r = Free /\ own (lbase ls') = OIdle.
Proof.
  intros L C H Sf Ho. unfold stepl in H. destruct ll; try discriminate; simpl in C.
  - destruct l; try discriminate; simpl in H;
      (destruct (step (lbase ls) _) as [s'|] eqn:E; [|discriminate]); inversion H; subst; clear H; simpl;
      step_cases E; auto.
    split; auto. destruct (Nat.eq_dec r r0); [subst|rewrite upd_neq; auto].
    exfalso. assert (status (lbase ls) r0 = Pending) by (apply (i_held _ (l_base _ L) t); rewrite E0; reflexivity). congruence.
  - destruct (_ && _); try discriminate. try match type of H with context [TreiberRows.movector_objs ?x] => destruct (TreiberRows.movector_objs x) end. inversion H; subst; auto.
  - destruct (_ && _); try discriminate. try match type of H with context [TreiberRows.swap_objs ?x ?y] => destruct (TreiberRows.swap_objs x y) end. inversion H; subst; auto.
  - destruct (o_live (objs ls o)); try discriminate. destruct (o_raw (objs ls o)) as [r0|].
    + destruct (o_fl (objs ls o)); try discriminate. destruct (step (lbase ls) (DBegin t r0)) as [s'|] eqn:E; try discriminate.
      inversion H; subst; clear H; simpl. step_cases E. split; auto.
      destruct (Nat.eq_dec r r0); [subst; congruence|rewrite upd_neq; auto].
    + inversion H; subst; auto.
Qed.

Lemma cinv_init : cinv cinit.
Proof. split; [apply linv_init|intros r H; discriminate]. Qed.

Lemma cinv_step cs l cs' : cinv cs -> stepc cs l = Some cs' -> cinv cs'.
Proof.
  intros [L P] H. unfold stepc in H. destruct l.
  - destruct (pending cs) as [r|] eqn:Ep.
    + destruct (concurrent_ok ll) eqn:C; try discriminate. destruct (stepl (cl cs) ll) as [ls'|] eqn:E; try discriminate.
      inversion H; subst; clear H. split; simpl; [eapply linv_step; eauto|].
      intros r0 Hr. simpl in Hr. try rewrite Ep in Hr. inversion Hr; subst. destruct (P r0 eq_refl). eapply concurrent_keeps_pending; eauto.
    + destruct (stepl (cl cs) ll) as [ls'|] eqn:E; try discriminate. inversion H; subst; clear H.
      split; simpl; [eapply linv_step; eauto|discriminate].
  - destruct (pending cs); try discriminate. destruct (own (lbase (cl cs))) eqn:Eo; try discriminate.
    destruct (status (lbase (cl cs)) r) eqn:Es; try discriminate. inversion H; subst; clear H.
    split; simpl; auto. intros r0 Hr. inversion Hr; subst. auto.
  - destruct (pending cs); try discriminate. destruct (stepl (cl cs) (LNew o r g)) eqn:E; try discriminate.
    inversion H; subst; clear H. split; simpl; [eapply linv_step; eauto|discriminate].
  - destruct (pending cs); try discriminate. destruct (stepl (cl cs) (LB (Scribble r g))) eqn:E; try discriminate.
    inversion H; subst; clear H. split; simpl; [eapply linv_step; eauto|discriminate].
Qed.

Lemma cinv_run l : forall cs cs', cinv cs -> runc cs l = Some cs' -> cinv cs'.
Proof.
  induction l; simpl; intros cs cs' I H; [inversion H; subst; auto|].
  destruct (stepc cs a) eqn:E; try discriminate. eapply IHl; [|eauto]. eapply cinv_step; eauto.
Qed.

Theorem cinv_reachable cs : reachable_c cs -> cinv cs.
Proof. intros [l H]. eapply cinv_run; [apply cinv_init|eauto]. Qed.

(* while the owner is between Allocate and pvMakeRow / the catch block, the buffer is invisible: in no Row object, on no list,
   in no destructor, and the free-list machine counts it as being in the pool *)
Theorem pending_buffer_is_private cs r :
  reachable_c cs -> pending cs = Some r ->
  status (lbase (cl cs)) r = Free /\ ~ In r (shared (lbase (cl cs))) /\ ~ In r (drain (lbase (cl cs))) /\
  ~ in_hand (lbase (cl cs)) r /\ (forall o, o_raw (objs (cl cs) o) <> Some r).
Proof.
  intros R Hp. destruct (cinv_reachable _ R) as [L P]. destruct (P r Hp) as [Sf _].
  pose proof (l_base _ L) as I.
  assert (Hn : ~ In r (shared (lbase (cl cs)) ++ drain (lbase (cl cs)))) by (apply not_listed_notin; auto; congruence).
  apply notin_app in Hn. destruct Hn. repeat split; auto.
  - intros [t Ht]. pose proof (i_held _ I _ _ Ht). congruence.
  - intros o Ho. destruct (o_live (objs (cl cs) o)) eqn:Lo.
    + destruct (l_held _ L _ _ Lo Ho). congruence.
    + rewrite (l_dead _ L _ Lo) in Ho. discriminate.
Qed.

(* THE catch path: a failed NewRow gives the buffer it took back to the POOL -- not to the free list -- exactly once *)
Theorem failed_newrow_returns_buffer_to_pool cs g cs' :
  reachable_c cs -> stepc cs (CAbort g) = Some cs' ->
  exists r, pending cs = Some r /\ pending cs' = None /\
    status (lbase (cl cs')) r = Free /\
    shared (lbase (cl cs')) = shared (lbase (cl cs)) /\ drain (lbase (cl cs')) = drain (lbase (cl cs)) /\
    head (lbase (cl cs')) = head (lbase (cl cs)) /\
    disposed (lbase (cl cs')) = disposed (lbase (cl cs)) /\ published (lbase (cl cs')) = published (lbase (cl cs)) /\
    reclaimed (lbase (cl cs')) = reclaimed (lbase (cl cs)) /\
    objs (cl cs') = objs (cl cs) /\
    (forall g', stepc cs' (CAbort g') = None).
Proof.
  intros R H. destruct (cinv_reachable _ R) as [L P]. unfold stepc in H.
  destruct (pending cs) as [r|] eqn:Ep; try discriminate. destruct (P r eq_refl) as [Sf _].
  unfold stepl in H. simpl in H. unfold step in H. rewrite Sf in H. simpl in H.
  inversion H; subst; clear H. simpl. exists r. repeat split; auto.
Qed.

(* ... and it is the only way a pending buffer disappears without becoming a Row: the successful path creates the Row object *)
Theorem successful_newrow_creates_the_row cs o g cs' :
  reachable_c cs -> stepc cs (CMakeRow o g) = Some cs' ->
  exists r, pending cs = Some r /\ pending cs' = None /\ status (lbase (cl cs')) r = Detached /\
    o_raw (objs (cl cs') o) = Some r /\ o_fl (objs (cl cs') o) = true.
Proof.
  intros R H. unfold stepc in H. destruct (pending cs) as [r|] eqn:Ep; try discriminate.
  destruct (stepl (cl cs) (LNew o r g)) as [ls'|] eqn:E; try discriminate. inversion H; subst; clear H.
  exists r. unfold stepl in E. destruct (o_live (objs (cl cs) o)); try discriminate.
  destruct (step (lbase (cl cs)) (OAlloc r g)) as [s'|] eqn:E2; try discriminate. inversion E; subst; clear E. simpl.
  destruct (status_after_alloc _ _ _ _ r E2) as [_ [Sd _]]. rewrite upd_eq. simpl. auto.
Qed.

Example ex_failed_newrow_while_a_destructor_runs :
  exists cs, runc cinit [CL (LNew 0 0 None); CTakeRaw 1; CL (LDestroy 3 0); CL (LB (DLoad 3)); CAbort (Some 7);
                         CL (LB (DLink 3)); CL (LB (DCas 3 false)); CTakeRaw 1; CMakeRow 1 None] = Some cs /\
    shared (lbase (cl cs)) = [0] /\ status (lbase (cl cs)) 1 = Detached /\ gen (lbase (cl cs)) 1 = 1 /\ pending cs = None.
Proof. eexists; split; [vm_compute; reflexivity|]. vm_compute. repeat split. Qed.
