// instantiation TU for cxx2coq (C08): the control skeletons of ArrayBucket::AddBackCrt / RemoveBack
#include "momo/HashMultiMap.h"
namespace momo { namespace internal {
typedef HashMultiMapKeyValueTraits<int, int64_t, MemManagerDefault> C08KVTo;
typedef HashMultiMapArrayBucketItemTraits<C08KVTo> C08ITo;
typedef ArrayBucket<C08ITo, 7, MemPoolParams<>, ArraySettings<>> C08ABo;
template class ArrayBucket<C08ITo, 7, MemPoolParams<>, ArraySettings<>>;
struct C08Creator { void operator()(int64_t*) const {} };
inline void c08_use_ops(C08ABo& a, C08ABo::Params& p) { C08Creator c; a.AddBackCrt(p, c); }
}}
