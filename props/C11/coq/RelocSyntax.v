(* C11 -- the syntax in which props/C11/astfacts.py reports top-level statements of C++ function bodies (Gen_RelocFacts.v).
   One level of structure; nested statements are canonical strings. *)
From Coq Require Import List String.
Inductive cstmt : Type :=
| SDecl (name init : string)                              (* T name = init; *)
| SExpr (e : string)                                      (* e; *)
| SIfThen (cond : string) (body : list string)            (* if (cond) { body }   (no else) *)
| SIfElse (cond : string) (thn els : list string)         (* if (cond) { thn } else { els } *)
| SWhile (cond : string) (body : list cstmt)              (* while (cond) { body } *)
| SReturn (e : string)                                    (* return e; *)
| SFor (text : string)                                    (* a for statement, rendered *)
| STry (body handler : list string) (catch_all : bool)    (* try { body } catch (...) { handler }   (one handler) *)
| SOther (text : string).
