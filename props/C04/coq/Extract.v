(* Extraction of the hand-written executable model (micro-correspondence). ExtrOcamlBasic only. *)
From Coq Require Import List Arith Extraction ExtrOcamlBasic.
From MomoCommon Require Import GenPrelude.
From C04 Require Gen_OpenN1_exn Gen_Open2N2_exn Gen_LimP4_exn Gen_ArrReset_exn Gen_XCheckH Gen_XCheckT.
From C04 Require Effects ObjMgr ArrayData Ctor KeyValue Tree Relocator Replace SetCount HashGrow.
Separate Extraction
  Effects.mkS Effects.mkH Effects.hp Effects.mem Effects.alive Effects.bsize Effects.trace Effects.sched
  ObjMgr.relocate_exec ObjMgr.relocate_create ObjMgr.relocate_range ObjMgr.copy_exec ObjMgr.move_exec
  ObjMgr.creator_copy ObjMgr.creator_move
  ArrayData.array_grow ArrayData.array_addback_grow ArrayData.pv_reset_intcap ArrayData.creator_relocate
  ArrayData.rItems ArrayData.rCount ArrayData.rCap Ctor.bucket_add_inplace Ctor.array_copy_ctor Ctor.set_copy_ctor KeyValue.kv_relocate KeyValue.kv_create_copy KeyValue.kv_create_move
  Effects.ret Effects.bind Effects.copy_construct Effects.destroy
  SetCount.array_remove_back SetCount.array_setcount_nogrow SetCount.array_setcount_grow
  HashGrow.pv_add_grow HashGrow.bucket_add0
  Replace.kv_replace Replace.kv_replace_relocate
  Relocator.run_plan Relocator.grow_plan Relocator.split_root_plan Tree.node_remove
  Gen_OpenN1_exn.AddCrt Gen_OpenN1_exn.Remove Gen_Open2N2_exn.AddCrt Gen_Open2N2_exn.Remove Gen_LimP4_exn.AddCrt Gen_ArrReset_exn.Reset Gen_XCheckH.pvExtraCheck Gen_XCheckT.pvExtraCheck
  BinNums.positive BinNums.Z BinNums.N.
