"""C02 T-gen (growth round 5): deep embedding of the pointer-walking TreeSet functions that cxx2coq cannot translate (tree descent of
pvFindFirst(pred), iterator operator++ / operator-- / pvMoveIf / pvMove).  The statement tree of each function is dumped generically and
without interpretation into the syntax of coq/ProtoSyntaxC02.v (identifiers as strings); what it MEANS is defined in Coq
(coq/ProtoSemC02.v: an interpreter whose node handles are paths into the hand model's tree) and proved equal to the hand model there.
The generic dumper (expr / stmt / block) is the one of props/C07/proto2coq.py, copied so that C02 does not depend on C07's directory.
Anything the dumper does not know becomes SOther/EOther "<clang kind>", which the interpreter rejects (broken tie, not a guess)."""
import os, sys, json
sys.path.insert(0, os.path.join(os.path.dirname(os.path.dirname(os.path.dirname(os.path.abspath(__file__)))), 'tools'))
import cxx2coq
from cxx2coq import TranslationError


WRAP = ('ParenExpr', 'ExprWithCleanups', 'MaterializeTemporaryExpr', 'ConstantExpr', 'CXXBindTemporaryExpr',
        'ImplicitCastExpr', 'CXXStaticCastExpr', 'CXXFunctionalCastExpr', 'CStyleCastExpr', 'SubstNonTypeTemplateParmExpr')


def q(s):
    return '"' + s.replace('"', '""') + '"'


def lst(xs):
    return '[' + '; '.join(xs) + ']'


def unwrap(n):
    while True:
        k = n.get('kind')
        if k in WRAP and n.get('inner'):
            n = n['inner'][-1]; continue
        # copy / move / converting construction from ONE argument, and conversion operators, are the identity on the value
        if k == 'CXXConstructExpr' and len(n.get('inner', [])) == 1:
            n = n['inner'][0]; continue
        if k == 'CXXMemberCallExpr' and len(n.get('inner', [])) == 1:
            c = n['inner'][0]
            if c.get('kind') == 'MemberExpr' and c.get('name', '').startswith('operator ') and c.get('inner'):
                n = c['inner'][0]; continue
        return n


def is_assert(n):
    return '__assert_fail' in json.dumps(n)


def expr(n):
    n = unwrap(n)
    k = n.get('kind')
    inner = [x for x in n.get('inner', []) if isinstance(x, dict)]
    if k == 'DeclRefExpr':
        return 'EVar %s' % q(n['referencedDecl']['name'])
    if k == 'MemberExpr':
        base = unwrap(inner[0]) if inner else None
        if base is None or base.get('kind') == 'CXXThisExpr':
            return 'EVar %s' % q(n['name'])
        if n.get('name', '') == '':          # member of an anonymous struct/union: transparent
            return expr(base)
        return 'EMember (%s) %s' % (expr(base), q(n['name']))
    if k == 'CXXThisExpr':
        return 'EVar "this"'
    if k == 'IntegerLiteral':
        return 'ENum (%s)' % n['value']
    if k == 'CXXBoolLiteralExpr':
        return 'ENum (%d)' % (1 if n.get('value') else 0)
    if k == 'CXXNullPtrLiteralExpr':
        return 'ENum (0)'
    if k == 'UnaryOperator':
        return 'EUn %s (%s)' % (q(n['opcode']), expr(inner[0]))
    if k in ('BinaryOperator', 'CompoundAssignOperator'):
        return 'EBin %s (%s) (%s)' % (q(n['opcode']), expr(inner[0]), expr(inner[1]))
    if k == 'CXXOperatorCallExpr':
        callee = unwrap(inner[0]); op = callee.get('referencedDecl', {}).get('name', callee.get('name', '?'))
        args = inner[1:]
        if op == 'operator()':
            return 'ECall (%s) "()" %s' % (expr(args[0]), lst([expr(a) for a in args[1:]]))
        sym = op[len('operator'):]
        if len(args) == 1:
            return 'EUn %s (%s)' % (q(sym), expr(args[0]))
        if len(args) == 2:
            return 'EBin %s (%s) (%s)' % (q(sym), expr(args[0]), expr(args[1]))
        return 'EOther %s' % q(op)
    if k == 'CXXMemberCallExpr':
        c = inner[0]
        if c.get('kind') != 'MemberExpr':
            return 'EOther "CXXMemberCallExpr"'
        base = unwrap(c['inner'][0]) if c.get('inner') else None
        obj = 'ENone' if base is None or base.get('kind') == 'CXXThisExpr' else expr(base)
        return 'ECall (%s) %s %s' % (obj, q(c['name']), lst([expr(a) for a in inner[1:] if a.get('kind') != 'CXXDefaultArgExpr']))
    if k == 'CallExpr':
        callee = unwrap(inner[0])
        nm = callee.get('referencedDecl', {}).get('name') or callee.get('name') or '?'
        return 'ECall ENone %s %s' % (q(nm), lst([expr(a) for a in inner[1:] if a.get('kind') != 'CXXDefaultArgExpr']))
    if k in ('CXXTemporaryObjectExpr', 'CXXConstructExpr', 'InitListExpr', 'CXXScalarValueInitExpr'):
        ty = n.get('type', {}).get('qualType', '')
        short = ty.split('::')[-1].split('<')[0].strip() if k != 'InitListExpr' else '{}'
        return 'ECtor %s %s' % (q(short), lst([expr(a) for a in inner]))
    if k == 'CXXThrowExpr':
        return 'EOther "throw"'
    if k == 'LambdaExpr':
        return 'EOther "lambda"'
    return 'EOther %s' % q(k or '?')


def block(n):
    """statements of a CompoundStmt (or a single statement), flattened"""
    if n.get('kind') == 'CompoundStmt':
        out = []
        for c in n.get('inner', []):
            out += stmt(c)
        return out
    return stmt(n)


def lambda_body(n):
    n = unwrap(n)
    if n.get('kind') != 'LambdaExpr':
        return None
    for c in n.get('inner', []):
        if c.get('kind') == 'CompoundStmt':
            return c
    return None


def stmt(n):
    k = n.get('kind')
    inner = [x for x in n.get('inner', []) if isinstance(x, dict)]
    if k in ('NullStmt',):
        return []
    if k == 'CompoundStmt':
        return block(n)
    if is_assert(n) and k not in ('CompoundStmt', 'IfStmt', 'ForStmt', 'CXXForRangeStmt', 'CXXTryStmt', 'WhileStmt'):
        # C02: MOMO_ASSERT(c) / MOMO_CHECK(c) are kept as OBLIGATIONS: SAssert c (the interpreter gets Stuck when c is false).
        # MOMO_CHECK(c) = do { MOMO_ASSERT(checkMode != CheckMode::assertion || (c)); if (checkMode == exception) throw ..; } while (false):
        # with the default check mode (assertion) the obligation is c itself.
        c = cxx2coq.find_assert_cond(n)
        if c is None:
            return ['SOther "assert"']
        c = unwrap(c)
        if c.get('kind') == 'BinaryOperator' and c.get('opcode') == '||' and 'checkMode' in json.dumps(c['inner'][0]):
            c = c['inner'][1]
        return ['SAssert (%s)' % expr(c)]
    if k == 'DeclStmt':
        out = []
        for v in inner:
            if v.get('kind') != 'VarDecl':
                out.append('SOther %s' % q(v.get('kind', '?'))); continue
            init = [x for x in v.get('inner', []) if isinstance(x, dict) and 'Type' not in x.get('kind', '')]
            lb = lambda_body(init[0]) if init else None
            if lb is not None:
                out.append('SLambda %s %s' % (q(v['name']), lst(block(lb))))
            elif init:
                out.append('SDecl %s (%s)' % (q(v['name']), expr(init[0])))
            else:
                out.append('SDecl %s (EOther "uninit")' % q(v['name']))
        return out
    if k == 'CXXForRangeStmt':
        # inner: [init?] range-decl, begin, end, cond, inc, loop-var decl, body
        var = None; cont = None
        for c in inner:
            if c.get('kind') == 'DeclStmt':
                for v in c.get('inner', []):
                    if v.get('kind') == 'VarDecl' and v.get('name', '').startswith('__range'):
                        ini = [x for x in v.get('inner', []) if isinstance(x, dict)]
                        cont = expr(ini[0]) if ini else None
                    elif v.get('kind') == 'VarDecl' and not v.get('name', '').startswith('__'):
                        var = v['name']
        if var is None or cont is None:
            return ['SOther "CXXForRangeStmt"']
        return ['SFor %s (%s) %s' % (q(var), cont, lst(block(inner[-1])))]
    if k == 'ForStmt':
        raw = n.get('inner', [])
        ini, cond, inc, body = raw[0], raw[2], raw[3], raw[4]
        return ['SForC %s (%s) (%s) %s' % (lst(stmt(ini)) if isinstance(ini, dict) and ini else '[]',
                                           expr(cond) if isinstance(cond, dict) and cond else 'ENum (1)',
                                           expr(inc) if isinstance(inc, dict) and inc else 'ENum (0)', lst(block(body)))]
    if k == 'WhileStmt':
        return ['SWhile (%s) %s' % (expr(inner[-2]), lst(block(inner[-1])))]
    if k == 'IfStmt':
        cond = inner[0]; th = inner[1]; el = inner[2] if len(inner) > 2 else None
        return ['SIf (%s) %s %s' % (expr(cond), lst(block(th)), lst(block(el)) if el is not None else '[]')]
    if k == 'CXXTryStmt':
        body = inner[0]; handlers = inner[1:]
        if len(handlers) != 1:
            return ['SOther "CXXTryStmt"']
        h = handlers[0]; hb = [c for c in h.get('inner', []) if c.get('kind') == 'CompoundStmt']
        return ['STry %s %s' % (lst(block(body)), lst(block(hb[0])) if hb else '[]')]
    if k == 'ReturnStmt':
        return ['SReturn (%s)' % (expr(inner[0]) if inner else 'ENone')]
    if k == 'ContinueStmt':
        return ['SContinue']
    if k == 'BreakStmt':
        return ['SBreak']
    e = unwrap(n)
    if e.get('kind') == 'CXXThrowExpr':
        return ['SThrow']
    if k and (k.endswith('Expr') or k.endswith('Operator') or k in ('ExprWithCleanups',)):
        return ['SExpr (%s)' % expr(n)]
    return ['SOther %s' % q(k or '?')]




def methods_of(node, name):
    out = []
    for m in node.get('inner', []):
        if m.get('kind') == 'CXXMethodDecl' and m.get('name') == name and any(y.get('kind') == 'CompoundStmt' for y in m.get('inner', [])):
            out.append(m)
        if m.get('kind') == 'FunctionTemplateDecl' and m.get('name') == name:
            for y in m.get('inner', []):
                if y.get('kind') == 'CXXMethodDecl' and any(z.get('kind') == 'CompoundStmt' for z in y.get('inner', [])) \
                        and any(z.get('kind') == 'TemplateArgument' for z in y.get('inner', [])):
                    out.append(y)
    return out


def params(m):
    return [p.get('name', '') for p in m.get('inner', []) if p.get('kind') == 'ParmVarDecl']


def body_of(m):
    return [c for c in m['inner'] if c.get('kind') == 'CompoundStmt'][0]


def emit(coqname, cls, m):
    body = block(body_of(m))
    return ['(* %s::%s(%s) *)' % (cls, m.get('name'), ', '.join(params(m))),
            'Definition %s : list pstmt :=\n  %s.\n' % (coqname, lst(['\n   ' + s for s in body]))]


def translate(tu, repo='/repo'):
    out = ['(* GENERATED by props/C02/c02_proto.py from the clang AST of TreeSet.h (' + os.path.basename(tu) + ') -- do not edit *)',
           'From Coq Require Import String List ZArith.', 'From C02 Require Import ProtoSyntaxC02.', 'Import ListNotations.',
           'Local Open Scope string_scope.', 'Local Open Scope Z_scope.', '']
    cfg = {'tu': tu, 'filter': 'TreeSet', 'class': 'TreeSet', 'includes': [os.path.join(repo, 'include')]}
    objs = cxx2coq.load_objs(cxx2coq.dump_ast(cfg, repo))
    spec = cxx2coq.find_spec(objs, cfg)
    ms = [m for m in methods_of(spec, 'pvFindFirst') if len(params(m)) == 1]
    if len(ms) < 1: raise TranslationError('TreeSet::pvFindFirst(itemPred) not instantiated')
    out += emit('pvFindFirst_descent', 'TreeSet', ms[0])
    # C02 final round: GetBegin, pvMakeIterator and the iterator constructor that pvMakeIterator calls (move => pvMoveIf)
    ms = [m for m in methods_of(spec, 'GetBegin') if len(params(m)) == 0]
    if len(ms) < 1: raise TranslationError('TreeSet::GetBegin not instantiated')
    out += emit('GetBegin_body', 'TreeSet', ms[0])
    ms = [m for m in methods_of(spec, 'pvMakeIterator') if len(params(m)) == 3]
    if len(ms) < 1: raise TranslationError('TreeSet::pvMakeIterator not instantiated')
    out += emit('pvMakeIterator_body', 'TreeSet', ms[0])
    cfg2 = {'tu': tu, 'filter': 'TreeSetConstIterator', 'class': 'TreeSetConstIterator', 'includes': [os.path.join(repo, 'include')]}
    objs2 = cxx2coq.load_objs(cxx2coq.dump_ast(cfg2, repo))
    spec2 = cxx2coq.find_spec(objs2, cfg2)
    for coqname, nm, ar in (('iter_incr', 'operator++', 0), ('iter_decr', 'operator--', 0), ('iter_pvMoveIf', 'pvMoveIf', 0), ('iter_pvMove', 'pvMove', 0)):
        ms = [m for m in methods_of(spec2, nm) if len(params(m)) == ar]
        if len(ms) < 1: raise TranslationError('TreeSetConstIterator::%s not instantiated' % nm)
        out += emit(coqname, 'TreeSetConstIterator', ms[0])
    ctors = [m for m in spec2.get('inner', []) if m.get('kind') == 'CXXConstructorDecl' and len(params(m)) == 4 and 'move' in params(m)
             and any(y.get('kind') == 'CompoundStmt' for y in m.get('inner', []))]
    if len(ctors) != 1: raise TranslationError('TreeSetConstIterator(node, itemIndex, version, move) not found once')
    out += ['(* TreeSetConstIterator::TreeSetConstIterator(%s): mNode(&node), mItemIndex(itemIndex), then this body *)' % ', '.join(params(ctors[0])),
            'Definition iter_ctor_body : list pstmt :=\n  %s.\n' % lst(['\n   ' + x for x in block(body_of(ctors[0]))])]
    return '\n'.join(out) + '\n'


if __name__ == '__main__':
    print(translate(sys.argv[1], sys.argv[2] if len(sys.argv) > 2 else '/repo'))
