// instantiation TU for cxx2coq (C20): the top level of MemPool::Allocate / Deallocate / pvFlushDeallocate - the functions through which
// the allocator changes GetAllocateCount() and the cache of freed blocks (buffer management below them is property C09)
#include "momo/MemPool.h"
namespace momo {
typedef MemPool<MemPoolParams<>, MemManagerDefault, MemPoolSettings> VPool;
template void* VPool::Allocate<void>();
template void VPool::Deallocate(void*) noexcept;
template void VPool::pvFlushDeallocate() noexcept;
template bool VPool::pvUseCache() const noexcept;
}
namespace momo {
template internal::Byte* VPool::pvNewBlock();
}
