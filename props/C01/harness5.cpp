// C01 harness TU 5: LimP4 audit configurations (inline crew, library HashTraits with an arithmetic key, odd item sizes, struct / string values)
#include "c01_harness.h"
using namespace momo;
typedef HashBucketLimP4<3> L3; typedef HashBucketLimP4<4> L4;
static const Reg regs[] = {
	C01_SETN("S.L4.b.v", L4, 8, 4, 0, false, false),
	C01_SETU("S.L4.u.n", L4),
	C01_SET("S.L4.z.p", L4, 12, 4, 0, false, true),
	C01_MAPV("B.L4.b.q", L4, 8, 4, 0, false, false, BigVal),
	C01_MAPV("T.L4.b.q", L4, 8, 4, 0, false, false, StrVal),
	C01_SET("S.L3.g.f", L3, 1, 1, 0, true, false),
	C01_MAP("M.L3.x.q", L3, 8, 4, 2, false, false),
};
// n1 40 <H> op...: a REAL BucketLimP4<uint64_t item, 4, hash-code-part getter>: a<hashCode> AddCrt (L = 4, probe = (hc >> 8) & 7), r<idx> Remove,
// c Clear; prints hashCount, mShortHashes[0..hashCount-1], the pointer-state bits (memPoolIndex - 1) and whether the pointer is null
static void leaf(const std::vector<std::string>& w)
{
	typedef internal::HashSetBucketItemTraits<HashSetItemTraits<uint64_t, MemManagerDefault>> BIT;
	typedef internal::BucketLimP4<BIT, 4, MemPoolParams<>, true> Bk;
	if (w.size() < 2 || w[0] != "40") { puts("?leaf"); return; }
	MemManagerDefault mm;
	static Bk::Params* params = new Bk::Params(mm);		// pools live for the whole run
	Bk* b = new Bk();
	for (size_t i = 2; i < w.size(); ++i)
	{
		char op = w[i][0]; size_t arg = w[i].size() > 1 ? size_t(std::stoull(w[i].substr(1))) : 0;
		if (op == 'a') { if (!b->IsFull()) b->AddCrt(*params, [] (uint64_t* p) { *p = 7; }, arg, 4, (arg >> 8) & 7); }
		else if (op == 'r')
		{
			auto bounds = b->GetBounds(*params);
			if (arg < bounds.GetCount()) b->Remove(*params, bounds.GetBegin() + arg, [] (uint64_t& src, uint64_t& dst) { dst = src; });
		}
		else if (op == 'c') b->Clear(*params);
	}
	std::string out = std::to_string(Bk::hashCount);
	for (size_t i = 0; i < Bk::hashCount; ++i) out += " " + std::to_string(unsigned(b->mShortHashes[i]));
	out += " " + std::to_string(unsigned(b->mPtrState.GetState())) + " " + (b->mPtrState.GetPointer() == nullptr ? "0" : "1");
	puts(out.c_str());
	b->Clear(*params); delete b;
}
int main() { return c01_main(regs, sizeof(regs) / sizeof(regs[0]), &leaf); }
