(* C20 -- proofs about the pool-allocator model (PoolAlloc.v): the invariant over live blocks and its
   consequences.  Everything is for ALL histories (induction over the operation list). *)
From Coq Require Import ZArith List Bool Arith Lia.
From MomoCommon Require Import GenPrelude.
From C20 Require Import PoolAlloc.
Import ListNotations.
Local Open Scope nat_scope.

(* ------------------------------------------------------------------ small facts *)
Lemma params_eqb_eq p q : params_eqb p q = true <-> p = q.
Proof.
  destruct p as [a b], q as [c d]; unfold params_eqb; simpl.
  rewrite andb_true_iff, !Z.eqb_eq. split; [intros [-> ->]; reflexivity | intros H; inversion H; auto].
Qed.
Lemma params_eqb_refl p : params_eqb p p = true.
Proof. apply params_eqb_eq; reflexivity. Qed.
Lemma vt_eqb_eq a b : vt_eqb a b = true -> a = b.
Proof.
  destruct a, b; unfold vt_eqb; simpl. rewrite andb_true_iff, !Z.eqb_eq. intros [-> ->]; reflexivity.
Qed.
Lemma tag_eqb_refl t : tag_eqb t t = true.
Proof. destruct t; simpl; [apply params_eqb_refl | apply Z.eqb_refl]. Qed.

Lemma updn_same {A} (f : nat -> A) i v : updn f i v i = v.
Proof. unfold updn; rewrite Nat.eqb_refl; reflexivity. Qed.
Lemma updn_other {A} (f : nat -> A) i v j : j <> i -> updn f i v j = f j.
Proof. unfold updn; intros H; destruct (Nat.eqb_spec j i); [contradiction | reflexivity]. Qed.

Lemma sumn_ext n f g : (forall i, i < n -> f i = g i) -> sumn n f = sumn n g.
Proof. induction n; simpl; intros H; [reflexivity|]. rewrite IHn, H by auto; reflexivity. Qed.

Lemma sumn_push {A} (F : A -> nat) (f : nat -> A) n v :
  sumn (S n) (fun i => F (updn f n v i)) = sumn n (fun i => F (f i)) + F v.
Proof.
  simpl. rewrite updn_same. f_equal. apply sumn_ext; intros i Hi. rewrite updn_other by lia; reflexivity.
Qed.

Lemma sumn_set {A} (F : A -> nat) (f : nat -> A) n i v : i < n ->
  sumn n (fun j => F (updn f i v j)) + F (f i) = sumn n (fun j => F (f j)) + F v.
Proof.
  induction n; intros Hi; [lia|]. simpl.
  destruct (Nat.eq_dec i n) as [->|Hne].
  - rewrite updn_same.
    rewrite (sumn_ext n (fun j => F (updn f n v j)) (fun j => F (f j)))
      by (intros j Hj; rewrite updn_other by lia; reflexivity). lia.
  - rewrite (updn_other f i v n) by lia. specialize (IHn ltac:(lia)). lia.
Qed.

Lemma sumn_zero n f : sumn n f = 0 -> forall i, i < n -> f i = 0.
Proof.
  induction n; simpl; intros H i Hi; [lia|].
  destruct (Nat.eq_dec i n) as [->|]; [lia | apply IHn; lia].
Qed.
Lemma sumn_all_zero n f : (forall i, i < n -> f i = 0) -> sumn n f = 0.
Proof. induction n; simpl; intros H; [reflexivity|]. rewrite IHn, H by auto; reflexivity. Qed.
Lemma sumn_pos_ex n f : sumn n f <> 0 -> exists i, i < n /\ f i <> 0.
Proof.
  induction n; simpl; intros H; [lia|].
  destruct (Nat.eq_dec (f n) 0) as [E|E].
  - destruct IHn as [i [Hi Hf]]; [lia|]. exists i; split; [lia | exact Hf].
  - exists n; split; [lia | exact E].
Qed.
Lemma sumn_ge n f i : i < n -> f i <= sumn n f.
Proof.
  induction n; simpl; intros Hi; [lia|].
  destruct (Nat.eq_dec i n) as [->|]; [lia | specialize (IHn ltac:(lia)); lia].
Qed.

Lemma allb_spec n f : allb n f = true <-> forall i, i < n -> f i = true.
Proof.
  unfold allb. rewrite forallb_forall. split.
  - intros H i Hi. apply H. apply in_seq. lia.
  - intros H i Hi. apply in_seq in Hi. apply H. lia.
Qed.

(* ------------------------------------------------------------------ the invariant *)
Definition pooled_in (p : nat) (B : block) : nat :=
  if balive B && is_pooled (btag B) && Nat.eqb (bpool B) p then 1 else 0.
Definition owns (p : nat) (H : handle) : nat := if halive H && Nat.eqb (hpool H) p then 1 else 0.

Definition blk_inv (st : state) (B : block) : Prop :=
  bpool B < npools st /\
  match btag B with
  | Pooled q => q = pparams (pools st (bpool B)) /\ q = get_params (bvt B) /\ bn B = 1%Z
  | RawMem s => s = (bn B * vsize (bvt B))%Z /\ bn B <> 1%Z
  end.

Record inv (st : state) : Prop := {
  (* every live pooled block carries the CURRENT parameters of its pool and was a single-object request of
     a value type with exactly those parameters; every live raw block was a request with n <> 1 *)
  i_blk : forall b, b < nblocks st -> balive (blocks st b) = true -> blk_inv st (blocks st b);
  (* GetAllocateCount() = number of live pooled blocks of the pool *)
  i_cnt : forall p, p < npools st -> pcount (pools st p) = sumn (nblocks st) (fun b => pooled_in p (blocks st b));
  (* use_count = number of living allocator objects that share the pool *)
  i_refs : forall p, p < npools st -> prefs (pools st p) = sumn (nhandles st) (fun h => owns p (handles st h));
  i_alive : forall p, p < npools st -> palive (pools st p) = negb (Nat.eqb (prefs (pools st p)) 0);
  i_hnd : forall h, h < nhandles st -> halive (handles st h) = true -> hpool (handles st h) < npools st
}.

Lemma inv_init : inv init.
Proof. constructor; simpl; intros; try lia; discriminate. Qed.

Definition balanced (st st' : state) (ob : obs) : Prop :=
  outstanding st' + o_frees ob = outstanding st + o_allocs ob.

Definition step_good (st : state) (o : op) : Prop :=
  exists st' ob, step st o = Ok (st', ob) /\ inv st' /\ routed_ok ob = true /\ balanced st st' ob.

Lemma handle_ok_spec st h : handle_ok st h = true -> h < nhandles st /\ halive (handles st h) = true.
Proof. unfold handle_ok. rewrite andb_true_iff, Nat.ltb_lt. auto. Qed.

(* a living handle keeps its pool alive with at least one reference *)
Lemma handle_pool_alive st h : inv st -> h < nhandles st -> halive (handles st h) = true ->
  hpool (handles st h) < npools st /\ 1 <= prefs (pools st (hpool (handles st h))) /\
  palive (pools st (hpool (handles st h))) = true.
Proof.
  intros I Hh Ha. pose proof (i_hnd _ I h Hh Ha) as Hp.
  assert (1 <= prefs (pools st (hpool (handles st h)))) as Hr.
  { rewrite (i_refs _ I _ Hp).
    pose proof (sumn_ge (nhandles st) (fun k => owns (hpool (handles st h)) (handles st k)) h Hh) as G.
    simpl in G. unfold owns at 1 in G. rewrite Ha, Nat.eqb_refl in G. simpl in G. exact G. }
  repeat split; auto. rewrite (i_alive _ I _ Hp).
  destruct (Nat.eqb_spec (prefs (pools st (hpool (handles st h)))) 0); [lia | reflexivity].
Qed.

(* ------------------------------------------------------------------ outstanding: how updates change it *)
Lemma out_push_pool st P :
  outstanding (push_pool st P) = outstanding st + pool_out P.
Proof.
  unfold outstanding, push_pool; cbn [npools pools blocks nblocks].
  rewrite (sumn_push pool_out (pools st) (npools st) P). lia.
Qed.
Lemma out_push_handle st H : outstanding (push_handle st H) = outstanding st.
Proof. reflexivity. Qed.
Lemma out_set_handle st h H : outstanding (set_handle st h H) = outstanding st.
Proof. reflexivity. Qed.
Lemma out_set_pool st p P : p < npools st ->
  outstanding (set_pool st p P) + pool_out (pools st p) = outstanding st + pool_out P.
Proof.
  intros Hp. unfold outstanding, set_pool; cbn [npools pools blocks nblocks].
  pose proof (sumn_set pool_out (pools st) (npools st) p P Hp). lia.
Qed.
Lemma out_push_block st B : outstanding (push_block st B) = outstanding st + raw_out B.
Proof.
  unfold outstanding, push_block; cbn [npools pools blocks nblocks].
  rewrite (sumn_push raw_out (blocks st) (nblocks st) B). lia.
Qed.
Lemma out_set_block st b B : b < nblocks st ->
  outstanding (set_block st b B) + raw_out (blocks st b) = outstanding st + raw_out B.
Proof.
  intros Hb. unfold outstanding, set_block; cbn [npools pools blocks nblocks].
  pose proof (sumn_set raw_out (blocks st) (nblocks st) b B Hb). lia.
Qed.

(* ------------------------------------------------------------------ per-operation preservation *)
Ltac proj := cbn [pools npools handles nhandles blocks nblocks
                  pparams pcount prefs pheld palive balive bpool bvt bn btag halive hpool hvt
                  o_dest o_origin o_pool o_allocs o_frees o_reparam] in *.

Lemma blk_inv_frame st st' B : blk_inv st B -> npools st <= npools st' ->
  pparams (pools st' (bpool B)) = pparams (pools st (bpool B)) -> blk_inv st' B.
Proof.
  unfold blk_inv. intros [H1 H2] Hle Hp. split; [lia|]. destruct (btag B); [rewrite Hp|]; exact H2.
Qed.

(* a fresh pool (explicit constructor / select_on_container_copy_construction) *)
Lemma fresh_pool_inv st vt : inv st ->
  inv (push_handle (push_pool st (new_pool vt)) (mkHandle true (npools st) vt)).
Proof.
  intros I. constructor; unfold push_handle, push_pool; proj.
  - intros b Hb Ha. apply (blk_inv_frame st); [apply (i_blk _ I b Hb Ha) | proj; lia |].
    proj. destruct (i_blk _ I b Hb Ha) as [Hlt _]. rewrite updn_other by lia. reflexivity.
  - intros p Hp. destruct (Nat.eq_dec p (npools st)) as [->|Hne].
    + rewrite updn_same. simpl. symmetry. apply sumn_all_zero. intros b Hb. unfold pooled_in.
      destruct (balive (blocks st b)) eqn:Ea; [|reflexivity].
      destruct (i_blk _ I b Hb Ea) as [Hlt _].
      destruct (Nat.eqb_spec (bpool (blocks st b)) (npools st)); [lia|]. rewrite andb_false_r. reflexivity.
    + rewrite updn_other by lia. apply (i_cnt _ I). lia.
  - intros p Hp. rewrite (sumn_push (owns p) (handles st) (nhandles st)).
    destruct (Nat.eq_dec p (npools st)) as [->|Hne].
    + rewrite updn_same. unfold owns at 2. proj. rewrite Nat.eqb_refl. simpl.
      rewrite sumn_all_zero; [reflexivity|]. intros h Hh. unfold owns.
      destruct (halive (handles st h)) eqn:Ea; [|reflexivity].
      pose proof (i_hnd _ I h Hh Ea). destruct (Nat.eqb_spec (hpool (handles st h)) (npools st)); [lia|reflexivity].
    + rewrite updn_other by lia. unfold owns at 2. proj.
      destruct (Nat.eqb_spec (npools st) p); [lia|]. simpl. rewrite Nat.add_0_r. apply (i_refs _ I). lia.
  - intros p Hp. destruct (Nat.eq_dec p (npools st)) as [->|Hne].
    + rewrite updn_same. reflexivity.
    + rewrite updn_other by lia. apply (i_alive _ I). lia.
  - intros h Hh Ha. destruct (Nat.eq_dec h (nhandles st)) as [->|Hne].
    + rewrite updn_same. proj. lia.
    + rewrite updn_other in * by lia. pose proof (i_hnd _ I h ltac:(lia) Ha). lia.
Qed.

Lemma fresh_pool_balanced st vt ob : o_allocs ob = 1 -> o_frees ob = 0 ->
  balanced st (push_handle (push_pool st (new_pool vt)) (mkHandle true (npools st) vt)) ob.
Proof.
  intros Ha Hf. unfold balanced. rewrite out_push_handle, out_push_pool, Ha, Hf. unfold new_pool, pool_out; proj. lia.
Qed.

Lemma step_new st vt : inv st -> step_good st (OpNew vt).
Proof.
  intros I. eexists _, _. split; [reflexivity|]. split; [apply fresh_pool_inv; exact I|].
  split; [reflexivity | apply fresh_pool_balanced; reflexivity].
Qed.
Lemma step_socc st h : inv st -> step_good st (OpSocc h).
Proof.
  intros I. eexists _, _. split; [reflexivity|]. split; [apply fresh_pool_inv; exact I|].
  split; [reflexivity | apply fresh_pool_balanced; reflexivity].
Qed.

(* shared_ptr release on a pool that is alive, has >= 1 owner, and is idle if this is the last owner *)
Lemma release_spec s p :
  let P := pools s p in
  palive P = true -> 1 <= prefs P -> (prefs P = 1 -> pcount P = 0) ->
  exists P' fr, release s p = Ok (set_pool s p P', fr) /\
    pparams P' = pparams P /\ pcount P' = pcount P /\ prefs P' = pred (prefs P) /\
    palive P' = negb (Nat.eqb (pred (prefs P)) 0) /\ pool_out P' + fr = pool_out P /\
    (fr <> 0 -> prefs P = 1 /\ fr = S (pheld P)).
Proof.
  intros P Ha Hr Hc. unfold release. subst P.
  destruct (prefs (pools s p)) as [|[|r]] eqn:Er; [lia| |].
  - pose proof (Hc eq_refl) as Hc0. rewrite Hc0. simpl. eexists _, _. split; [reflexivity|]. proj.
    unfold pool_out; proj. rewrite Ha. repeat split; auto; lia.
  - eexists _, _. split; [reflexivity|]. proj.
    unfold pool_out; proj. rewrite Ha. repeat split; auto; lia.
Qed.

(* copy constructor / rebinding conversion: one more owner of the same pool *)
Lemma share_inv st h vt : inv st -> h < nhandles st -> halive (handles st h) = true ->
  let p := hpool (handles st h) in
  let st' := push_handle (acquire st p) (mkHandle true p vt) in
  inv st' /\ outstanding st' = outstanding st.
Proof.
  intros I Hh Ha p st'. destruct (handle_pool_alive st h I Hh Ha) as [Hp [Hr Hal]]. fold p in Hp, Hr, Hal.
  split.
  - constructor; unfold st', push_handle, acquire, set_pool; proj.
    + intros b Hb Hba. apply (blk_inv_frame st); [apply (i_blk _ I b Hb Hba) | proj; lia |]. proj.
      unfold updn. destruct (Nat.eqb_spec (bpool (blocks st b)) p) as [->|]; reflexivity.
    + intros q Hq. unfold updn at 1. destruct (Nat.eqb_spec q p) as [->|]; proj; apply (i_cnt _ I); auto.
    + intros q Hq. rewrite (sumn_push (owns q) (handles st) (nhandles st)). unfold owns at 2; proj.
      unfold updn. destruct (Nat.eqb_spec q p) as [->|Hne]; proj.
      * rewrite Nat.eqb_refl. simpl. rewrite (i_refs _ I p Hp). lia.
      * destruct (Nat.eqb_spec p q); [lia|]. simpl. rewrite (i_refs _ I q Hq). lia.
    + intros q Hq. unfold updn. destruct (Nat.eqb_spec q p) as [->|Hne]; proj; [exact Hal | apply (i_alive _ I); auto].
    + intros k Hk Hka. destruct (Nat.eq_dec k (nhandles st)) as [->|Hne].
      * rewrite updn_same. proj. exact Hp.
      * rewrite updn_other in * by lia. apply (i_hnd _ I k); [lia | exact Hka].
  - unfold st'. rewrite out_push_handle. unfold acquire.
    pose proof (out_set_pool st p (mkPool (pparams (pools st p)) (pcount (pools st p)) (S (prefs (pools st p)))
                                    (pheld (pools st p)) (palive (pools st p))) Hp) as E.
    unfold pool_out in E; proj. lia.
Qed.

Lemma step_copy st h : inv st -> proto_ok st (OpCopy h) = true -> step_good st (OpCopy h).
Proof.
  intros I Hp. simpl in Hp. apply handle_ok_spec in Hp as [Hh Ha].
  destruct (share_inv st h (hvt (handles st h)) I Hh Ha) as [I' O'].
  eexists _, _. split; [reflexivity|]. split; [exact I'|]. split; [reflexivity|].
  unfold balanced; proj. rewrite O'. lia.
Qed.
Lemma step_rebind st h vt : inv st -> proto_ok st (OpRebind h vt) = true -> step_good st (OpRebind h vt).
Proof.
  intros I Hp. simpl in Hp. apply handle_ok_spec in Hp as [Hh Ha].
  destruct (share_inv st h vt I Hh Ha) as [I' O'].
  eexists _, _. split; [reflexivity|]. split; [exact I'|]. split; [reflexivity|].
  unfold balanced; proj. rewrite O'. lia.
Qed.

Lemma no_blocks_count st p : inv st -> p < npools st -> no_blocks_of st p = true -> pcount (pools st p) = 0.
Proof.
  intros I Hp Hn. rewrite (i_cnt _ I p Hp). apply sumn_all_zero. intros b Hb.
  unfold no_blocks_of in Hn. rewrite allb_spec in Hn. specialize (Hn b Hb). unfold pooled_in.
  destruct (balive (blocks st b)); [|reflexivity]. destruct (Nat.eqb (bpool (blocks st b)) p); [discriminate|].
  rewrite andb_false_r. reflexivity.
Qed.

Lemma step_destroy st h : inv st -> proto_ok st (OpDestroy h) = true -> step_good st (OpDestroy h).
Proof.
  intros I Hp. simpl in Hp. apply andb_true_iff in Hp as [Hok Hlast]. apply handle_ok_spec in Hok as [Hh Ha].
  destruct (handle_pool_alive st h I Hh Ha) as [Hlt [Hr Hal]].
  set (p := hpool (handles st h)) in *.
  assert (prefs (pools st p) = 1 -> pcount (pools st p) = 0) as Hc.
  { intros E. rewrite E in Hlast. simpl in Hlast. apply (no_blocks_count st p I Hlt Hlast). }
  destruct (release_spec st p Hal Hr Hc) as [P' [fr [Er [Hpp [Hpc [Hpr [Hpa [Hout _]]]]]]]].
  unfold step_good, step. fold p. rewrite Er. eexists _, _. split; [reflexivity|]. split; [|split; [reflexivity|]].
  - constructor; unfold set_handle, set_pool; proj.
    + intros b Hb Hba. apply (blk_inv_frame st); [apply (i_blk _ I b Hb Hba) | proj; lia |]. proj.
      unfold updn. destruct (Nat.eqb_spec (bpool (blocks st b)) p) as [->|]; auto.
    + intros q Hq. unfold updn at 1. destruct (Nat.eqb_spec q p) as [->|]; [rewrite Hpc|]; apply (i_cnt _ I); auto.
    + intros q Hq.
      pose proof (sumn_set (owns q) (handles st) (nhandles st) h (mkHandle false p (hvt (handles st h))) Hh) as E.
      assert (Eo : owns q (handles st h) = if Nat.eqb p q then 1 else 0) by (unfold owns; rewrite Ha; reflexivity).
      assert (En : owns q (mkHandle false p (hvt (handles st h))) = 0) by reflexivity.
      rewrite Eo, En in E. clear Eo En.
      unfold updn at 1. destruct (Nat.eqb_spec q p) as [->|Hne].
      * rewrite Nat.eqb_refl in E. rewrite Hpr, (i_refs _ I p Hlt). lia.
      * destruct (Nat.eqb_spec p q); [lia|]. rewrite (i_refs _ I q Hq). lia.
    + intros q Hq. unfold updn. destruct (Nat.eqb_spec q p) as [->|]; [rewrite Hpa, Hpr; reflexivity | apply (i_alive _ I); auto].
    + intros k Hk Hka. destruct (Nat.eq_dec k h) as [->|Hne].
      * rewrite updn_same in Hka. discriminate.
      * rewrite updn_other in * by lia. apply (i_hnd _ I k Hk Hka).
  - unfold balanced; proj. rewrite out_set_handle. pose proof (out_set_pool st p P' Hlt). lia.
Qed.

Lemma step_assign st hd hs : inv st -> proto_ok st (OpAssign hd hs) = true -> step_good st (OpAssign hd hs).
Proof.
  intros I Hp. simpl in Hp. repeat rewrite andb_true_iff in Hp. destruct Hp as [[[Hokd Hoks] _] Hlast].
  apply handle_ok_spec in Hokd as [Hhd Had]. apply handle_ok_spec in Hoks as [Hhs Has].
  destruct (handle_pool_alive st hd I Hhd Had) as [Hltd [Hrd Hald]].
  destruct (handle_pool_alive st hs I Hhs Has) as [Hlts [Hrs Hals]].
  set (pd := hpool (handles st hd)) in *. set (ps := hpool (handles st hs)) in *.
  set (sa := acquire st ps).
  assert (Hsa : forall q, pools sa q = if Nat.eqb q ps
            then mkPool (pparams (pools st ps)) (pcount (pools st ps)) (S (prefs (pools st ps))) (pheld (pools st ps)) (palive (pools st ps))
            else pools st q) by reflexivity.
  assert (palive (pools sa pd) = true) as Ha1.
  { rewrite Hsa. destruct (Nat.eqb_spec pd ps) as [E|]; proj; [rewrite <- E; exact Hald | exact Hald]. }
  assert (1 <= prefs (pools sa pd)) as Ha2.
  { rewrite Hsa. destruct (Nat.eqb_spec pd ps); proj; lia. }
  assert (prefs (pools sa pd) = 1 -> pcount (pools sa pd) = 0) as Ha3.
  { rewrite Hsa. destruct (Nat.eqb_spec pd ps) as [E|Hne]; proj; [lia|].
    intros E1. rewrite E1 in Hlast. simpl in Hlast. apply (no_blocks_count st pd I Hltd Hlast). }
  destruct (release_spec sa pd Ha1 Ha2 Ha3) as [P' [fr [Er [Hpp [Hpc [Hpr [Hpa [Hout _]]]]]]]].
  unfold step_good, step. fold pd ps sa. rewrite Er. eexists _, _. split; [reflexivity|]. split; [|split; [reflexivity|]].
  - constructor; unfold set_handle, set_pool; proj;
      change (blocks sa) with (blocks st); change (nblocks sa) with (nblocks st);
      change (handles sa) with (handles st); change (nhandles sa) with (nhandles st);
      change (npools sa) with (npools st).
    + intros b Hb Hba. apply (blk_inv_frame st); [apply (i_blk _ I b Hb Hba) | proj; change (npools sa) with (npools st); lia |]. proj.
      unfold updn. destruct (Nat.eqb_spec (bpool (blocks st b)) pd) as [E|]; proj.
      * rewrite Hpp, Hsa, E. destruct (Nat.eqb_spec pd ps) as [E2|]; proj; [rewrite E2|]; reflexivity.
      * rewrite Hsa. destruct (Nat.eqb_spec (bpool (blocks st b)) ps) as [->|]; reflexivity.
    + intros q Hq. change (nblocks sa) with (nblocks st). change (blocks sa) with (blocks st).
      unfold updn at 1. destruct (Nat.eqb_spec q pd) as [->|].
      * rewrite Hpc, Hsa. destruct (Nat.eqb_spec pd ps) as [E|]; proj; [rewrite <- E|]; apply (i_cnt _ I); auto.
      * rewrite Hsa. destruct (Nat.eqb_spec q ps) as [->|]; proj; apply (i_cnt _ I); auto.
    + intros q Hq. change (nhandles sa) with (nhandles st). change (handles sa) with (handles st).
      pose proof (sumn_set (owns q) (handles st) (nhandles st) hd (mkHandle true ps (hvt (handles st hd))) Hhd) as E.
      assert (Eo : owns q (handles st hd) = if Nat.eqb pd q then 1 else 0) by (unfold owns; rewrite Had; reflexivity).
      assert (En : owns q (mkHandle true ps (hvt (handles st hd))) = if Nat.eqb ps q then 1 else 0) by reflexivity.
      rewrite Eo, En in E. clear Eo En.
      pose proof (i_refs _ I q Hq) as Rq.
      unfold updn at 1. destruct (Nat.eqb_spec q pd) as [->|Hned].
      * rewrite Nat.eqb_refl in E. rewrite Hpr, Hsa.
        destruct (Nat.eqb_spec pd ps) as [E2|Hne]; proj.
        -- rewrite <- E2 in *. rewrite Nat.eqb_refl in E. simpl. lia.
        -- destruct (Nat.eqb_spec ps pd); [lia|]. lia.
      * destruct (Nat.eqb_spec pd q); [lia|]. rewrite Hsa.
        destruct (Nat.eqb_spec q ps) as [->|Hnes]; proj.
        -- rewrite Nat.eqb_refl in E. lia.
        -- destruct (Nat.eqb_spec ps q); [lia|]. lia.
    + intros q Hq. unfold updn. destruct (Nat.eqb_spec q pd) as [->|].
      * rewrite Hpa, Hpr. reflexivity.
      * rewrite Hsa. destruct (Nat.eqb_spec q ps) as [->|]; proj; [exact Hals | apply (i_alive _ I); auto].
    + intros k Hk Hka. change (handles sa) with (handles st) in *. change (nhandles sa) with (nhandles st) in *.
      change (npools sa) with (npools st).
      destruct (Nat.eq_dec k hd) as [->|Hne].
      * rewrite updn_same. proj. exact Hlts.
      * rewrite updn_other in * by lia. apply (i_hnd _ I k Hk Hka).
  - unfold balanced; proj. rewrite out_set_handle.
    pose proof (out_set_pool sa pd P' Hltd) as E1.
    assert (outstanding sa = outstanding st) as E2.
    { unfold sa, acquire. pose proof (out_set_pool st ps (mkPool (pparams (pools st ps)) (pcount (pools st ps))
         (S (prefs (pools st ps))) (pheld (pools st ps)) (palive (pools st ps))) Hlts) as E. unfold pool_out in E; proj. lia. }
    lia.
Qed.

Lemma blk_inv_frame' st st' B : blk_inv st B -> npools st <= npools st' ->
  (is_pooled (btag B) = true -> pparams (pools st' (bpool B)) = pparams (pools st (bpool B))) -> blk_inv st' B.
Proof.
  unfold blk_inv. intros [H1 H2] Hle Hp. split; [lia|]. destruct (btag B); [rewrite Hp by reflexivity|]; exact H2.
Qed.

Lemma pooled_in_1 p B : balive B = true -> is_pooled (btag B) = true -> bpool B = p -> pooled_in p B = 1.
Proof. intros Ha Hp <-. unfold pooled_in. rewrite Ha, Hp, Nat.eqb_refl. reflexivity. Qed.

(* H as a proposition about the live blocks *)
Lemma h_ok_spec st h grow : h_ok st (OpAlloc h 1 grow) = true ->
  forall b q, b < nblocks st -> balive (blocks st b) = true -> bpool (blocks st b) = hpool (handles st h) ->
    btag (blocks st b) = Pooled q -> get_params (hvt (handles st h)) = q.
Proof.
  unfold h_ok. simpl. rewrite allb_spec. intros H b q Hb Ha Hp Ht. specialize (H b Hb). cbv beta zeta in H.
  rewrite Ha, Hp, Nat.eqb_refl, Ht in H. simpl in H. apply params_eqb_eq. exact H.
Qed.

Lemma step_alloc st h n grow : inv st -> proto_ok st (OpAlloc h n grow) = true -> h_ok st (OpAlloc h n grow) = true ->
  step_good st (OpAlloc h n grow).
Proof.
  intros I Hp HH. simpl in Hp. apply andb_true_iff in Hp as [Hok Hn]. apply handle_ok_spec in Hok as [Hh Ha].
  destruct (handle_pool_alive st h I Hh Ha) as [Hlt [Hr Hal]].
  unfold step_good, step.
  set (p := hpool (handles st h)) in *. set (vt := hvt (handles st h)) in *. set (P := pools st p) in *.
  (* raw branch, shared by n <> 1 (and, impossible under H, by n = 1 on a busy pool of other parameters) *)
  assert (Hraw : n <> 1%Z -> exists st' ob,
     Ok (push_block st (mkBlock true p vt n (RawMem (n * vsize vt))),
         mkObs (Some (RawMem (n * vsize vt))) None p 1 0 false) = Ok (st', ob) /\ inv st' /\
     routed_ok ob = true /\ balanced st st' ob).
  { intros Hn1. eexists _, _. split; [reflexivity|]. split; [|split; [reflexivity|]].
    - constructor; unfold push_block; proj.
      + intros b Hb Hba. destruct (Nat.eq_dec b (nblocks st)) as [->|Hne].
        * rewrite updn_same. unfold blk_inv; proj. auto.
        * rewrite updn_other in * by lia. apply (blk_inv_frame st); [apply (i_blk _ I b); [lia|exact Hba] | proj; lia | reflexivity].
      + intros q Hq. rewrite (sumn_push (pooled_in q) (blocks st) (nblocks st)).
        unfold pooled_in at 2; proj. simpl. rewrite Nat.add_0_r. apply (i_cnt _ I q Hq).
      + apply (i_refs _ I).
      + apply (i_alive _ I).
      + apply (i_hnd _ I).
    - unfold balanced; proj. rewrite out_push_block. unfold raw_out; proj. simpl. lia. }
  destruct (Z.eqb_spec n 1) as [->|Hn1]; [|apply Hraw; exact Hn1].
  destruct (params_eqb (get_params vt) (pparams P)) eqn:Eeq.
  - (* parameters match: plain pool allocation *)
    apply params_eqb_eq in Eeq. simpl.
    eexists _, _. split; [reflexivity|]. split; [|split; [reflexivity|]].
    + constructor; unfold push_block, set_pool; proj.
      * intros b Hb Hba. destruct (Nat.eq_dec b (nblocks st)) as [->|Hne].
        -- rewrite updn_same. unfold blk_inv; proj. rewrite updn_same; proj. auto.
        -- rewrite updn_other in * by lia. apply (blk_inv_frame st); [apply (i_blk _ I b); [lia|exact Hba] | proj; lia |].
           proj. unfold updn. destruct (Nat.eqb_spec (bpool (blocks st b)) p) as [->|]; reflexivity.
      * intros q Hq. rewrite (sumn_push (pooled_in q) (blocks st) (nblocks st)).
        unfold pooled_in at 2; proj. simpl. unfold updn. destruct (Nat.eqb_spec q p) as [->|Hne]; proj.
        -- rewrite Nat.eqb_refl. pose proof (i_cnt _ I p Hlt) as C. fold P in C. lia.
        -- destruct (Nat.eqb_spec p q); [lia|]. rewrite (i_cnt _ I q Hq). lia.
      * intros q Hq. unfold updn. destruct (Nat.eqb_spec q p) as [->|]; proj; apply (i_refs _ I); auto.
      * intros q Hq. unfold updn. destruct (Nat.eqb_spec q p) as [->|]; proj; apply (i_alive _ I); auto.
      * apply (i_hnd _ I).
    + unfold balanced; proj. rewrite out_push_block. unfold raw_out; proj. simpl.
      pose proof (out_set_pool st p (mkPool (pparams P) (S (pcount P)) (prefs P) (pheld P + grow) (palive P)) Hlt) as E.
      unfold pool_out in E; proj. fold P in E. rewrite Hal in E |- *. lia.
  - simpl. destruct (Nat.eqb_spec (pcount P) 0) as [Ec|Ec].
    + (* idle pool of other parameters: re-parameterised (line 119) *)
      assert (Hnone : forall b, b < nblocks st -> balive (blocks st b) = true ->
                is_pooled (btag (blocks st b)) = true -> bpool (blocks st b) <> p).
      { intros b Hb Hba Hbp Hbq. pose proof (i_cnt _ I p Hlt) as C. fold P in C. rewrite Ec in C.
        symmetry in C. pose proof (sumn_zero _ _ C b Hb) as Z0. cbv beta in Z0.
        rewrite (pooled_in_1 p _ Hba Hbp Hbq) in Z0. discriminate. }
      eexists _, _. split; [reflexivity|]. split; [|split; [reflexivity|]].
      * constructor; unfold push_block, set_pool; proj.
        -- intros b Hb Hba. destruct (Nat.eq_dec b (nblocks st)) as [->|Hne].
           ++ rewrite updn_same. unfold blk_inv; proj. rewrite updn_same; proj. auto.
           ++ rewrite updn_other in * by lia. assert (b < nblocks st) as Hb' by lia.
              apply (blk_inv_frame' st); [apply (i_blk _ I b Hb' Hba) | proj; lia |].
              intros Hbp. proj. rewrite updn_other; [reflexivity | apply (Hnone b Hb' Hba Hbp)].
        -- intros q Hq. rewrite (sumn_push (pooled_in q) (blocks st) (nblocks st)).
           unfold pooled_in at 2; proj. simpl. unfold updn. destruct (Nat.eqb_spec q p) as [->|Hne]; proj.
           ++ rewrite Nat.eqb_refl. pose proof (i_cnt _ I p Hlt) as C. fold P in C. lia.
           ++ destruct (Nat.eqb_spec p q); [lia|]. rewrite (i_cnt _ I q Hq). lia.
        -- intros q Hq. unfold updn. destruct (Nat.eqb_spec q p) as [->|]; proj; apply (i_refs _ I); auto.
        -- intros q Hq. unfold updn. destruct (Nat.eqb_spec q p) as [->|]; proj; apply (i_alive _ I); auto.
        -- apply (i_hnd _ I).
      * unfold balanced; proj. rewrite out_push_block. unfold raw_out; proj. simpl.
        pose proof (out_set_pool st p (mkPool (get_params vt) 1 (prefs P) grow (palive P)) Hlt) as E.
        unfold pool_out in E; proj. fold P in E. rewrite Hal in E |- *. lia.
    + (* busy pool of other parameters: excluded by H *)
      exfalso. pose proof (i_cnt _ I p Hlt) as C. fold P in C. rewrite C in Ec.
      destruct (sumn_pos_ex _ _ Ec) as [b [Hb Hne]]. cbv beta in Hne. unfold pooled_in in Hne.
      destruct (balive (blocks st b)) eqn:Hba; [|simpl in Hne; lia].
      destruct (is_pooled (btag (blocks st b))) eqn:Hbp; [|simpl in Hne; lia].
      destruct (Nat.eqb_spec (bpool (blocks st b)) p) as [Hbq|]; [|simpl in Hne; lia].
      destruct (btag (blocks st b)) as [q|] eqn:Et; [|discriminate].
      pose proof (h_ok_spec st h grow HH b q Hb Hba Hbq Et) as E.
      destruct (i_blk _ I b Hb Hba) as [_ Hq]. rewrite Et in Hq. destruct Hq as [Hq _].
      rewrite Hbq in Hq. fold P in Hq. fold vt in E. rewrite <- Hq, <- E, params_eqb_refl in Eeq. discriminate.
Qed.

Lemma step_dealloc st h b n shrink : inv st -> proto_ok st (OpDealloc h b n shrink) = true ->
  step_good st (OpDealloc h b n shrink).
Proof.
  intros I Hp. simpl in Hp. repeat rewrite andb_true_iff in Hp.
  destruct Hp as [[[[[Hok Hb] Hba] Hbp] Hbv] Hbn].
  apply handle_ok_spec in Hok as [Hh Ha]. apply Nat.ltb_lt in Hb. apply Nat.eqb_eq in Hbp.
  apply vt_eqb_eq in Hbv. apply Z.eqb_eq in Hbn.
  destruct (handle_pool_alive st h I Hh Ha) as [Hlt [Hr Hal]].
  destruct (i_blk _ I b Hb Hba) as [_ Htag].
  unfold step_good, step. rewrite Hba.
  set (p := hpool (handles st h)) in *. set (vt := hvt (handles st h)) in *. set (P := pools st p) in *.
  set (B := blocks st b) in *.
  destruct (btag B) as [q|s] eqn:Et.
  - (* a pooled block *)
    destruct Htag as [Hq1 [Hq2 Hq3]]. rewrite Hbp in Hq1. fold P in Hq1. rewrite Hbv in Hq2.
    assert (T : ((n =? 1)%Z && params_eqb (get_params vt) (pparams P)) = true).
    { rewrite <- Hbn, Hq3, <- Hq2, Hq1, params_eqb_refl. reflexivity. }
    rewrite T. clear T.
    pose proof (i_cnt _ I p Hlt) as C. fold P in C.
    pose proof (sumn_ge (nblocks st) (fun k => pooled_in p (blocks st k)) b Hb) as G. cbv beta in G.
    fold B in G. rewrite (pooled_in_1 p B Hba) in G by (try rewrite Et; auto).
    destruct (pcount P) as [|c] eqn:Ecn; [lia|].
    eexists _, _. split; [reflexivity|]. split; [|split].
    + constructor; unfold set_block, set_pool; proj.
      * intros k Hk Hka. destruct (Nat.eq_dec k b) as [->|Hne]; [rewrite updn_same in Hka; discriminate|].
        rewrite updn_other in * by lia. apply (blk_inv_frame st); [apply (i_blk _ I k Hk Hka) | proj; lia |].
        proj. unfold updn. destruct (Nat.eqb_spec (bpool (blocks st k)) p) as [->|]; reflexivity.
      * intros r Hrq.
        pose proof (sumn_set (pooled_in r) (blocks st) (nblocks st) b (mkBlock false (bpool B) (bvt B) (bn B) (Pooled q)) Hb) as E.
        fold B in E.
        assert (E0 : pooled_in r (mkBlock false (bpool B) (bvt B) (bn B) (Pooled q)) = 0) by reflexivity.
        assert (E1 : pooled_in r B = if Nat.eqb p r then 1 else 0).
        { unfold pooled_in. rewrite Hba, Et, Hbp. reflexivity. }
        rewrite E0, E1 in E. unfold updn at 1. destruct (Nat.eqb_spec r p) as [->|Hne]; proj.
        -- rewrite Nat.eqb_refl in E. lia.
        -- destruct (Nat.eqb_spec p r); [lia|]. rewrite (i_cnt _ I r Hrq). lia.
      * intros r Hrq. unfold updn. destruct (Nat.eqb_spec r p) as [->|]; proj; apply (i_refs _ I); auto.
      * intros r Hrq. unfold updn. destruct (Nat.eqb_spec r p) as [->|]; proj; apply (i_alive _ I); auto.
      * apply (i_hnd _ I).
    + unfold routed_ok; proj. simpl. rewrite Hq1. apply params_eqb_refl.
    + unfold balanced; proj.
      pose proof (out_set_block (set_pool st p (mkPool (pparams P) c (prefs P) (pheld P - Nat.min shrink (pheld P)) (palive P)))
                    b (mkBlock false (bpool B) (bvt B) (bn B) (Pooled q))) as E1.
      specialize (E1 Hb). change (blocks (set_pool _ _ _) b) with B in E1.
      unfold raw_out at 1 2 in E1; proj. rewrite Et in E1. simpl in E1. rewrite andb_false_r in E1.
      pose proof (out_set_pool st p (mkPool (pparams P) c (prefs P) (pheld P - Nat.min shrink (pheld P)) (palive P)) Hlt) as E2.
      unfold pool_out in E2; proj. fold P in E2. rewrite Hal in E2 |- *. lia.
  - (* a raw block *)
    destruct Htag as [Hs Hn1]. rewrite Hbn in Hn1.
    destruct (Z.eqb_spec n 1) as [|_]; [contradiction|]. simpl.
    eexists _, _. split; [reflexivity|]. split; [|split].
    + constructor; unfold set_block; proj.
      * intros k Hk Hka. destruct (Nat.eq_dec k b) as [->|Hne]; [rewrite updn_same in Hka; discriminate|].
        rewrite updn_other in * by lia. apply (blk_inv_frame st); [apply (i_blk _ I k Hk Hka) | proj; lia | reflexivity].
      * intros r Hrq.
        pose proof (sumn_set (pooled_in r) (blocks st) (nblocks st) b (mkBlock false (bpool B) (bvt B) (bn B) (RawMem s)) Hb) as E.
        fold B in E.
        assert (E0 : pooled_in r (mkBlock false (bpool B) (bvt B) (bn B) (RawMem s)) = 0) by reflexivity.
        assert (E1 : pooled_in r B = 0).
        { unfold pooled_in. rewrite Hba, Et. reflexivity. }
        rewrite E0, E1 in E. rewrite (i_cnt _ I r Hrq). lia.
      * apply (i_refs _ I).
      * apply (i_alive _ I).
      * apply (i_hnd _ I).
    + unfold routed_ok; proj. simpl. rewrite Hs, Hbn, Hbv. apply Z.eqb_refl.
    + unfold balanced; proj.
      pose proof (out_set_block st b (mkBlock false (bpool B) (bvt B) (bn B) (RawMem s)) Hb) as E1.
      fold B in E1. unfold raw_out in E1; proj. rewrite Hba, Et in E1. simpl in E1. lia.
Qed.

(* ------------------------------------------------------------------ all histories *)
Lemma step_good_all st o : inv st -> proto_ok st o = true -> h_ok st o = true -> step_good st o.
Proof.
  intros I Hp HH. destruct o.
  - apply step_new; auto.
  - apply step_copy; auto.
  - apply step_rebind; auto.
  - apply step_socc; auto.
  - apply step_assign; auto.
  - apply step_destroy; auto.
  - apply step_alloc; auto.
  - apply step_dealloc; auto.
Qed.

Fixpoint sum_allocs (l : list obs) : nat := match l with [] => 0 | o :: r => o_allocs o + sum_allocs r end.
Fixpoint sum_frees (l : list obs) : nat := match l with [] => 0 | o :: r => o_frees o + sum_frees r end.

Lemma run_good st ops : inv st -> good true st ops = true ->
  exists st' obs, run st ops = Ok (st', obs) /\ inv st' /\ Forall (fun o => routed_ok o = true) obs /\
    outstanding st' + sum_frees obs = outstanding st + sum_allocs obs.
Proof.
  revert st. induction ops as [|o r IH]; intros st I G.
  - exists st, []. simpl. repeat split; auto.
  - simpl in G. repeat rewrite andb_true_iff in G. destruct G as [[Hp HH] Hr]. simpl in HH.
    destruct (step_good_all st o I Hp HH) as [st1 [ob [Es [I1 [R1 B1]]]]].
    rewrite Es in Hr. destruct (IH st1 I1 Hr) as [st2 [obs [Er [I2 [R2 B2]]]]].
    exists st2, (ob :: obs). simpl. rewrite Es, Er. repeat split; auto.
    unfold balanced in B1. simpl. lia.
Qed.
