// instantiation TU for cxx2coq (C08): the heap momo::Array nested in ArrayBucket -- AddBackCrt / pvAddBackGrow / Shrink / RemoveBack
#include "momo/HashMultiMap.h"
namespace momo { namespace internal {
typedef HashMultiMapKeyValueTraits<int, int64_t, MemManagerDefault> C08KVTa;
typedef HashMultiMapArrayBucketItemTraits<C08KVTa> C08ITa;
typedef momo::Array<int64_t, MemManagerPtr<MemManagerDefault>, ArrayBucketNestedArrayItemTraits<C08ITa>,
	NestedArraySettings<ArraySettings<>>> C08Arr;
struct C08CreatorA { void operator()(int64_t*) const {} };
inline void c08_use_arr(C08Arr& a) { C08CreatorA c; a.AddBackCrt(c); a.Shrink(3); a.RemoveBack(); }
}}
