// instantiation TU for cxx2coq (C04): the open-addressing buckets' AddCrt / Remove, whose ORDER
// "run the user functor, THEN publish the short hash / count byte" is what makes a throwing functor harmless
#include "momo/HashSet.h"
#include "momo/details/HashBucketOpen2N2.h"
#include "momo/details/HashBucketOpenN1.h"
namespace momo { namespace internal {
typedef HashSetItemTraits<uint64_t, MemManagerDefault> C04IT;
typedef BucketOpen2N2<C04IT, 3, true> C04O2;
typedef BucketOpenN1<C04IT, 3, true> C04N1;
template class BucketOpen2N2<C04IT, 3, true>;
template class BucketOpenN1<C04IT, 3, true>;
struct C04Creator { void operator()(uint64_t*) const {} };
struct C04Replacer { void operator()(uint64_t&, uint64_t&) const {} };
// one use of every member template so that clang instantiates the bodies
inline void c04_use(C04O2& a, C04O2::Params& pa, C04N1& b, C04N1::Params& pb)
{
	C04Creator cr; C04Replacer rp;
	auto ia = a.AddCrt(pa, cr, 0, 0, 0); a.Remove(pa, ia, rp);
	auto ib = b.AddCrt(pb, cr, 0, 0, 0); b.Remove(pb, ib, rp);
}
}}
