#!/usr/bin/env python3
"""refresh_seed_meta.py [<seed-name> ...]: recompute checks_run.results in seeded/<name>/meta.json from the check_<id>.log
files lying in that directory (written by tools/run_seed.sh seeded/<name> <ids...>)."""
import sys, os, json, glob, re
names = sys.argv[1:] or [os.path.basename(d) for d in glob.glob('/verif/seeded/*')]
for n in names:
    d = os.path.join('/verif/seeded', n); mp = os.path.join(d, 'meta.json')
    if not os.path.exists(mp): continue
    m = json.load(open(mp)); res = m.setdefault('checks_run', {}).setdefault('results', {})
    for lp in glob.glob(os.path.join(d, 'check_*.log')):
        i = os.path.basename(lp)[6:-4]; t = open(lp).read()
        new = {'exit': 1 if 'VIOLATION' in t else 0, 'violations': len(re.findall(r'^VIOLATION', t, flags=re.M)),
               'no_failing_input_found': 'no-failing-input-found' in t, 'broken_stages': re.findall(r'stage (\S+)\s+BROKEN', t)}
        old = res.get(i)
        if old and old.get('exit') == 0 and new['exit'] == 1 and 'note' not in m:
            m['note'] = 'first run: missed by %s (exit 0); the check was strengthened afterwards and now reports it' % i
        res[i] = new
    json.dump(m, open(mp, 'w'), indent=1)
