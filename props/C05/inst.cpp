// instantiation TU for cxx2coq (C05): array growth policy
#include "momo/Array.h"
namespace momo {
template class ArraySettings<0, true, true>;
template class ArraySettings<4, false, false>;
}
