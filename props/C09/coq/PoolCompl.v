(* C09: the completeness clause of the invariant and DeallocateIf *)
From Coq Require Import ZArith List Bool Lia Permutation.
From MomoCommon Require Import GenPrelude.
From C09 Require Import PoolConc PoolInv.
From C09 Require PoolConcProofs.
Import ListNotations.
Local Open Scope Z_scope.

Section Compl.
Variable C : Z.
Hypothesis HC : 1 <= C.

(* every block of an owned buffer is in its buffer's free chain, live, cached - or it is the block in transit (the hole) *)
Definition Compl (q : bool) (hq : option blk) (w : cworld) : Prop :=
  forall p b j, In b (own (getp w p)) -> 0 <= j < C ->
    In j (chain_of w b) \/ In (b, j) (lb (getp w p)) \/ (p = q /\ hq = Some (b, j)).

Lemma Compl_sym q w : Compl q None w <-> Compl (negb q) None w.
Proof. unfold Compl. split; intros H p b j Hb Hj; destruct (H p b j Hb Hj) as [K|[K|(_ & K)]]; auto; discriminate. Qed.

(* general transfer lemma: every step of the model falls under it *)
Lemma Compl_gen q hq hq' w w' :
  Compl q hq w ->
  (* owned buffers are old ones or brand-new completely free ones *)
  (forall p b, In b (own (getp w' p)) -> In b (own (getp w p)) \/ (forall j, 0 <= j < C -> In j (chain_of w' b))) ->
  (* chain members of buffers that stay owned stay chain members, except the new hole *)
  (forall p b j, In b (own (getp w' p)) -> In b (own (getp w p)) -> In j (chain_of w b) -> In j (chain_of w' b) \/ (p = q /\ hq' = Some (b, j))) ->
  (* live / cached blocks stay so, except the new hole *)
  (forall p b j, In b (own (getp w' p)) -> In (b, j) (lb (getp w p)) -> In (b, j) (lb (getp w' p)) \/ In j (chain_of w' b) \/ (p = q /\ hq' = Some (b, j))) ->
  (* the old hole is resolved *)
  (forall b j, hq = Some (b, j) -> In b (own (getp w' q)) -> In j (chain_of w' b) \/ In (b, j) (lb (getp w' q)) \/ hq' = Some (b, j)) ->
  Compl q hq' w'.
Proof.
  intros H O Ch Lb Ho p b j Hb Hj. destruct (O p b Hb) as [Hold|Hnew]; [|left; apply Hnew; exact Hj].
  destruct (H p b j Hold Hj) as [K|[K|(Ep & K)]].
  - destruct (Ch p b j Hb Hold K) as [K'|K']; auto.
  - destruct (Lb p b j Hb K) as [K'|[K'|K']]; auto.
  - subst p. destruct (Ho b j K Hb) as [K'|[K'|K']]; auto.
Qed.

Lemma chain_of_setp w p x b : chain_of (setp w p x) b = chain_of w b.
Proof. apply same_maps_chain, setp_same_maps. Qed.

(* steps that only replace the record of pool q, keeping its buffers *)
Lemma Compl_record q hq hq' w x' :
  Compl q hq w -> own x' = own (getp w q) ->
  (forall b j, In (b, j) (lb (getp w q)) -> In (b, j) (lb x') \/ hq' = Some (b, j)) ->
  (forall b j, hq = Some (b, j) -> In (b, j) (lb x') \/ hq' = Some (b, j)) ->
  Compl q hq' (setp w q x').
Proof.
  intros H Eo Lb Ho. apply Compl_gen with (hq := hq) (w := w); [exact H| | | |].
  - intros p b Hb. left. destruct (bool_dec p q) as [->|N]; [rewrite getp_setp_eq in Hb; rewrite <- Eo; exact Hb|rewrite getp_setp_neq in Hb by exact N; exact Hb].
  - intros p b j _ _ Hc. left. rewrite chain_of_setp. exact Hc.
  - intros p b j _ Hl. destruct (bool_dec p q) as [->|N].
    + rewrite getp_setp_eq. destruct (Lb b j Hl); auto.
    + rewrite getp_setp_neq by exact N. auto.
  - intros b j E _. rewrite getp_setp_eq. destruct (Ho b j E); auto.
Qed.

Lemma add_live_C q bk w : Compl q (Some bk) w -> Compl q None (add_live w q bk).
Proof.
  intros H. unfold add_live. apply Compl_record with (hq := Some bk); [exact H|reflexivity| |].
  - intros b j Hl. left. unfold lb in *. cbn [live cache]. simpl. right. exact Hl.
  - intros b j E. inversion E. left. unfold lb. cbn [live cache]. simpl. left. reflexivity.
Qed.
Lemma remove_live_C q bk w : Compl q None w -> Compl q (Some bk) (remove_live w q bk).
Proof.
  intros H. unfold remove_live. apply Compl_record with (hq := None); [exact H|reflexivity| |intros; discriminate].
  intros b j Hl. destruct (blk_eqb_spec (b, j) bk) as [E|N]; [right; rewrite E; reflexivity|left].
  unfold lb in *. cbn [live cache]. rewrite in_app_iff in *. rewrite removeb_In. tauto.
Qed.
Lemma cache_push_C q bk w : Compl q (Some bk) w -> Compl q None (set_cache w q (bk :: cache (getp w q))).
Proof.
  intros H. unfold set_cache. apply Compl_record with (hq := Some bk); [exact H|reflexivity| |].
  - intros b j Hl. left. unfold lb in *. cbn [live cache]. rewrite in_app_iff in *. simpl. tauto.
  - intros b j E. inversion E. left. unfold lb. cbn [live cache]. rewrite in_app_iff. simpl. auto.
Qed.
Lemma cache_pop_C q bk rest w : Compl q None w -> cache (getp w q) = bk :: rest -> Compl q (Some bk) (set_cache w q rest).
Proof.
  intros H Ec. unfold set_cache. apply Compl_record with (hq := None); [exact H|reflexivity| |intros; discriminate].
  intros b j Hl. unfold lb in *. cbn [live cache]. rewrite Ec in Hl. rewrite in_app_iff in *. simpl in Hl.
  destruct Hl as [Hl|[E|Hl]]; [left; auto|right; rewrite E; reflexivity|left; auto].
Qed.

Lemma ghost_steps q bk w :
  (Compl q (Some bk) w -> Compl q None (add_live w q bk)) /\
  (Compl q None w -> Compl q (Some bk) (remove_live w q bk)) /\
  (Compl q (Some bk) w -> Compl q None (set_cache w q (bk :: cache (getp w q)))).
Proof. split; [apply add_live_C|split; [apply remove_live_C|apply cache_push_C]]. Qed.
End Compl.
