// C07 T-gen instantiation: DataIndexes<static column list, DataTraits> (its nested UniqueHash / MultiHash classes and the
// two-phase AddRaw / RemoveRaw / UpdateRaw), plus one use of every member TEMPLATE the generators read
#include "momo/DataTable.h"
namespace c07inst { struct S { int k[3]; int pad; };
typedef momo::DataColumnListStatic<S, momo::DataColumnInfo<S>, momo::MemManagerDefault> CL; }
template class momo::internal::DataIndexes<c07inst::CL, momo::DataTraits>;
namespace c07inst {
typedef momo::internal::DataIndexes<CL, momo::DataTraits> DI;
struct Assigner { void operator()(S*, size_t) const {} };
inline void use(DI& di, S* raw, const int& item)
{
	di.UpdateRaw(raw, size_t(0), item, Assigner());
	std::array<size_t, 2> so{{0, 4}};
	(void)di.GetFitUniqueHashIndex(so);
	(void)di.GetFitMultiHashIndex(so);
}
}
