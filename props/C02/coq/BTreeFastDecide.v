(* C02 (growth round 3) -- the two places where this project's C02 defects lived, both in pointer-walking code that cannot be
   translated as a whole; what CAN be read off the real source is generated on every run and interpreted here:
   1. TreeSet::MergeTo(TreeSet&): the if / else-if chain choosing pvMergeFast (Gen_TreeFacts.mergeto_fast_branches: conditions and
      argument order, from the AST) + pvIsOrdered(iter, iter) (Gen_Ordered, cxx2coq) + which items pvIsOrdered(set, set) compares.
      Theorems: the interpreted choice is the hand model's (merge_to), and whenever it concatenates (tree1, tree2) the list-level
      stable merge of source into destination IS contents(tree1) ++ contents(tree2) - commit 103bce4 reverted breaks both.
   2. pvRebalance(node, savedNode, fast): the statements of the root-collapse loop (Gen_TreeFacts.collapse_body), executed on an
      abstract pointer model: the old root, and only it, is destroyed, and the pointer the climbing loop dereferences next
      (Gen_TreeFacts.climb_reads = node->GetParent()) is never a destroyed node - commit c72d55b reverted breaks it. *)
From Coq Require Import ZArith Bool List Lia Sorted.
From C02 Require Import GenPrimsC02 Gen_Ordered Gen_TreeFacts BTreeModel BTreeHist BTreeHist2 BTreeMerge BTreeFast2.
Import ListNotations.
Local Open Scope Z_scope.

(* ---------------- 1. the fast-merge choice ---------------- *)
Section FastChoice.
Variables (maxCap : nat) (multi : bool).
Hypothesis Hmc : (1 <= maxCap <= 255)%nat.
Variables (sl dl : list Z).      (* contents of the source (the object MergeTo is called on) and of the destination *)

Definition pick (s : side) : list Z := match s with SThis => sl | SDst => dl end.
Definition kpos (p : side_pos) (l : list Z) : Z := match p with PFirst => hd 0 l | PLast => last l 0 end.
Definition eval_cond (c : fcond) : bool :=
  match c with
  | COrdered a b => Gen_Ordered.pvIsOrdered_iters multi (kpos (fst sets_ordered_reads) (pick a)) (kpos (snd sets_ordered_reads) (pick b))
  | CLessLastFirst a b => key_less (last (pick a) 0) (hd 0 (pick b))
  end.
Fixpoint first_branch (bs : list (fcond * (side * side))) : option (side * side) :=
  match bs with [] => None | (c, r) :: t => if eval_cond c then Some r else first_branch t end.
Definition fast_choice : option (side * side) := first_branch mergeto_fast_branches.

(* the real chain is the hand model's decision (BTreeModel.merge_to) *)
Theorem fast_choice_is_model :
  fast_choice = if key_ordered multi (last dl 0) (hd 0 sl) then Some (SDst, SThis)
                else if (last sl 0 <? hd 0 dl) then Some (SThis, SDst) else None.
Proof. reflexivity. Qed.

(* whenever the real chain concatenates pvMergeFast(tree1, tree2) (contents = tree1 ++ tree2, C02_merge_fast_refines), that is the
   stable merge of the source into the destination: destination items stay before equivalent source items *)
Theorem fast_choice_sound :
  StronglySorted (R multi) sl -> StronglySorted (R multi) dl -> sl <> [] -> dl <> [] ->
  match fast_choice with
  | Some (a, b) => spec_merge multi sl dl = ([], pick a ++ pick b)
  | None => True
  end.
Proof.
  intros Ss Sd Ns Nd. rewrite fast_choice_is_model.
  destruct (key_ordered multi (last dl 0) (hd 0 sl)) eqn:F1.
  - cbn [pick]. apply (spec_merge_append maxCap multi Hmc).
    apply (ss_join maxCap multi Hmc); auto. apply (key_ordered_Rm maxCap multi Hmc). exact F1.
  - destruct (last sl 0 <? hd 0 dl) eqn:F2; [|exact I]. apply Z.ltb_lt in F2. cbn [pick].
    pose proof (spec_merge_prepend maxCap multi Hmc sl [] dl) as SP. cbn [app] in SP. apply SP; [exact Ss|].
    pose proof (ss_le_last maxCap multi Hmc _ Ss) as Fa. pose proof (ss_hd_le maxCap multi Hmc _ Sd) as Fb.
    rewrite Forall_forall in *. intros x Hx. apply Forall_forall. intros y Hy.
    specialize (Fa x Hx). specialize (Fb y Hy). cbv beta in *. lia.
Qed.
End FastChoice.

(* ---------------- 2. the root-collapse loop ---------------- *)
Section Collapse.
(* abstract pointers: any type with a first-child and a parent function (no law is needed for the repaired code) *)
Variable ptr : Type.
Variables (child0 parent : ptr -> ptr).
Variable ptr_eqb : ptr -> ptr -> bool.
Hypothesis ptr_eqb_spec : forall a b, ptr_eqb a b = true <-> a = b.

Record cstate := { c_root : ptr; c_node : ptr; c_local : ptr; c_dead : list ptr }.

Definition getv (s : cstate) (v : pvar) : ptr := match v with VRoot => c_root s | VNode => c_node s | VLocal => c_local s end.
Definition setv (s : cstate) (v : pvar) (p : ptr) : cstate :=
  match v with
  | VRoot => {| c_root := p; c_node := c_node s; c_local := c_local s; c_dead := c_dead s |}
  | VNode => {| c_root := c_root s; c_node := p; c_local := c_local s; c_dead := c_dead s |}
  | VLocal => {| c_root := c_root s; c_node := c_node s; c_local := p; c_dead := c_dead s |}
  end.
Fixpoint evalp (s : cstate) (e : pexpr) : ptr :=
  match e with EVar v => getv s v | EChild0 e => child0 (evalp s e) | EParent e => parent (evalp s e) end.
Fixpoint exec (s : cstate) (c : cstmt) : cstate :=
  match c with
  | SLocal e => setv s VLocal (evalp s e)
  | SAssign v e => setv s v (evalp s e)
  | SIfEq a b c' => if ptr_eqb (getv s a) (getv s b) then exec s c' else s
  | SDestroy e => {| c_root := c_root s; c_node := c_node s; c_local := c_local s; c_dead := evalp s e :: c_dead s |}
  | SSetParentNull _ => s
  end.

(* one iteration of the real loop body: exactly the old root is destroyed, the new root is its first child, and `node` follows the
   root when it WAS the old root; hence neither the root nor the node the climbing loop reads GetParent() from is a destroyed node *)
Theorem collapse_iteration_safe (s : cstate) :
  let s' := fold_left exec collapse_body s in
  ~ In (c_node s) (c_dead s) -> ~ In (child0 (c_root s)) (c_dead s) -> child0 (c_root s) <> c_root s ->
  c_dead s' = c_root s :: c_dead s /\ c_root s' = child0 (c_root s) /\
  c_node s' = (if ptr_eqb (c_node s) (c_root s) then child0 (c_root s) else c_node s) /\
  ~ In (c_root s') (c_dead s') /\
  match climb_reads with EParent e => ~ In (evalp s' e) (c_dead s') | _ => False end.
Proof.
  cbv zeta. intros Hn Hc Hne. unfold collapse_body, climb_reads. cbn [fold_left exec evalp getv setv c_root c_node c_local c_dead].
  destruct (ptr_eqb (c_node s) (c_root s)) eqn:E; cbn [c_root c_node c_local c_dead evalp getv].
  - repeat split; try reflexivity; intros [H|H]; try (apply Hne; congruence); try (apply Hc; exact H).
  - assert (N : c_node s <> c_root s) by (intros H; apply ptr_eqb_spec in H; congruence).
    repeat split; try reflexivity; intros [H|H]; try (apply Hne; congruence); try (apply Hc; exact H); try (apply N; congruence); try (apply Hn; exact H).
Qed.
End Collapse.

(* ---------------- 3. the climbing loop of pvRebalance(node, savedNode, fast) ---------------- *)
(* Gen_TreeFacts.climb_stop is the initialiser of `bool stop` read off the AST.  Evaluated left to right with C++ short-circuit on the
   hand model's state (root, path of the saved node), where a call pvRebalance(parentNode, index + k, savedNode) is the hand model's
   try_merge (whose decision is the GENERATED one, C02_rebalance_decision_is_generated), one iteration of the real loop is one step of
   the hand model's reb_loop: which sibling pair is tried first, that the second merge is not tried after a successful first one, and
   when `fast` stops the climb. *)
Section Climb.
Definition cst := (node * list nat)%type.
Fixpoint evalb (pp : list nat) (index : nat) (fast : bool) (e : bexp) (s : cst) : bool * cst :=
  match e with
  | BReb k => match try_merge (fst s) pp (k + index) (snd s) with Some s' => (true, s') | None => (false, s) end
  | BFast => (fast, s)
  | BNot a => let (v, s1) := evalb pp index fast a s in (negb v, s1)
  | BAnd a b => let (va, s1) := evalb pp index fast a s in if va then evalb pp index fast b s1 else (false, s1)
  end.

Theorem climb_iteration_is_model index rpp r sp fast :
  reb_loop (index :: rpp) r sp fast =
  let '(stop, (r', sp')) := evalb (rev rpp) index fast climb_stop (r, sp) in
  if stop then (r', sp') else reb_loop rpp r' sp' fast.
Proof.
  unfold climb_stop. cbn [reb_loop evalb fst snd Nat.add].
  destruct (try_merge r (rev rpp) (S index) sp) as [[r1 sp1]|]; cbn [negb fst snd].
  - reflexivity.
  - destruct (try_merge r (rev rpp) index sp) as [[r2 sp2]|]; cbn [negb]; [reflexivity|]. destruct fast; reflexivity.
Qed.
End Climb.
