(* C09: MemPool::pvNewBlock GENERATED (Gen_MemPoolBlk.v; bookkeeping bytes as address-keyed maps, PoolBlkPrims.v), with the memory
   manager request inside pvNewBuffer() as a step that may THROW (flag pvNewBuffer_fails; pvNewBuffer's first statement is the
   request, everything it writes comes after it).  Result: Ok (Some block | None, mFreeBufferHead, bbFirst, bbCount, nextB, prevB);
   None = the exception propagates out of pvNewBlock with the members / buffer bytes of that moment. *)
From Coq Require Import ZArith List Bool Lia.
From MomoCommon Require Import GenPrelude.
From C09 Require PoolBlkPrims Gen_MemPool Gen_MemPoolBlk.
Local Open Scope Z_scope.

Section Blk.
Variables fresh B A : Z.
Notation newblock := (Gen_MemPoolBlk.pvNewBlock fresh B A).

(* does this call ask the manager for a buffer?  (no buffer at all, or the look-ahead: the head's last block is about to be taken
   and it has no successor) *)
Definition requests (hd : Z) (bcnt nx : Z -> Z) : bool := (hd =? 0) || ((bcnt hd =? 1) && (nx hd =? 0)).

(* a refused request: NOTHING has been written - neither mFreeBufferHead nor any BufferBytes / next / prev cell of any buffer
   (the wave-2 seed that writes the head's BufferBytes back before asking for the spare buffer breaks this lemma) *)
Theorem newblock_refused_writes_nothing hd bf bcnt nx pv nfi :
  newblock hd bf bcnt nx pv nfi true =
    if requests hd bcnt nx then Ok (None, hd, bf, bcnt, nx, pv) else newblock hd bf bcnt nx pv nfi false.
Proof.
  unfold Gen_MemPoolBlk.pvNewBlock, requests. destruct (hd =? 0); [reflexivity|]. cbn [orb].
  destruct ((bcnt hd =? 1) && (nx hd =? 0)); reflexivity.
Qed.

(* the successful call, as a function of the state: which block, and EXACTLY which cells are written *)
Theorem newblock_spec hd bf bcnt nx pv nfi :
  let hd' := if hd =? 0 then fresh else hd in
  let need := (bcnt hd' =? 1) && (nx hd' =? 0) in
  let nb := if need then fresh else nx hd' in
  let blk := Gen_MemPool.pvGetBlock B A hd' (bf hd') in
  newblock hd bf bcnt nx pv nfi false =
    Ok (Some blk, (if bcnt hd' - 1 =? 0 then nb else hd'), upd bf hd' (nfi blk), upd bcnt hd' (bcnt hd' - 1),
        (if need then upd nx hd' fresh else nx), (if need then upd pv fresh hd' else pv)).
Proof.
  cbv zeta. unfold Gen_MemPoolBlk.pvNewBlock, Gen_MemPoolBlk.pvGetBlock, Gen_MemPool.pvGetBlock,
    PoolBlkPrims.set_first, PoolBlkPrims.set_count, PoolBlkPrims.store_ptr, PoolBlkPrims.bb_pack. cbn [fst snd].
  destruct (hd =? 0); cbv zeta.
  - destruct ((bcnt fresh =? 1) && (nx fresh =? 0)); cbv zeta; destruct (bcnt fresh - 1 =? 0); reflexivity.
  - destruct ((bcnt hd =? 1) && (nx hd =? 0)); cbv zeta; destruct (bcnt hd - 1 =? 0); reflexivity.
Qed.

(* consequences *)
Corollary newblock_failure_atomic hd bf bcnt nx pv nfi r hd' bf' bcnt' nx' pv' fails :
  newblock hd bf bcnt nx pv nfi fails = Ok (r, hd', bf', bcnt', nx', pv') ->
  (r = None <-> fails = true /\ requests hd bcnt nx = true) /\
  (r = None -> hd' = hd /\ bf' = bf /\ bcnt' = bcnt /\ nx' = nx /\ pv' = pv).
Proof.
  destruct fails.
  - rewrite newblock_refused_writes_nothing. destruct (requests hd bcnt nx) eqn:R.
    + intros E. injection E as <- <- <- <- <- <-. split; [split; [auto|reflexivity]|auto 6].
    + pose proof (newblock_spec hd bf bcnt nx pv nfi) as S. cbv zeta in S. rewrite S. intros E. injection E as <- _ _ _ _ _.
      split; [split; [discriminate|intros (_ & X); discriminate]|discriminate].
  - pose proof (newblock_spec hd bf bcnt nx pv nfi) as S. cbv zeta in S. rewrite S. intros E. injection E as <- _ _ _ _ _.
    split; [split; [discriminate|intros (X & _); discriminate]|discriminate].
Qed.

(* frame: a successful pvNewBlock writes BufferBytes of ONE buffer (the head it takes the block from), the next pointer of that
   buffer and the prev pointer of the fresh buffer, nothing else *)
Corollary newblock_frame hd bf bcnt nx pv nfi blk hd2 bf' bcnt' nx' pv' :
  newblock hd bf bcnt nx pv nfi false = Ok (Some blk, hd2, bf', bcnt', nx', pv') ->
  let hd' := if hd =? 0 then fresh else hd in
  (forall b, b <> hd' -> bf' b = bf b /\ bcnt' b = bcnt b /\ nx' b = nx b) /\ (forall b, b <> fresh -> pv' b = pv b) /\
  bcnt' hd' = bcnt hd' - 1 /\ blk = Gen_MemPool.pvGetBlock B A hd' (bf hd') /\ bf' hd' = nfi blk.
Proof.
  pose proof (newblock_spec hd bf bcnt nx pv nfi) as S. cbv zeta in S. rewrite S. intros E. injection E as <- <- <- <- <- <-. cbv zeta.
  split; [|split; [|split; [|split]]].
  - intros b Nb. unfold upd. destruct (Z.eqb_spec b (if hd =? 0 then fresh else hd)); [contradiction|].
    split; [reflexivity|]. split; [reflexivity|]. destruct (_ && _); [|reflexivity].
    destruct (Z.eqb_spec b (if hd =? 0 then fresh else hd)); [contradiction|reflexivity].
  - intros b Nb. destruct (_ && _); [|reflexivity]. unfold upd. destruct (Z.eqb_spec b fresh); [contradiction|reflexivity].
  - unfold upd. rewrite Z.eqb_refl. reflexivity.
  - reflexivity.
  - unfold upd. rewrite Z.eqb_refl. reflexivity.
Qed.

(* a pool whose fresh buffers have at least two free blocks (blockCount >= 2) asks the manager at most ONCE per pvNewBlock: after the
   first request (no buffer at all) the look-ahead condition is false *)
Corollary one_request_per_call bcnt nx : 2 <= bcnt fresh -> (bcnt fresh =? 1) && (nx fresh =? 0) = false.
Proof. intros H. destruct (Z.eqb_spec (bcnt fresh) 1); [lia|reflexivity]. Qed.
End Blk.
