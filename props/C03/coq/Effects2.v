(* C03 -- L2 resource machine, part 2 (executable; extracted; compared with the real code).
   1. crew objects and the node params that point into them (SetUtility.h SetCrew, TreeSet.h mNodeParams,
      TreeNode.h Params: pools hold MemManagerPtr = a pointer to the MemManager stored in the owning set's crew block);
      TreeSet::MergeTo into an empty set with an equal manager, before and after fix c7fda03; move construction.
   2. constructors that build a list of rows and must tear it down exactly once:
      DataTable(const DataTable&) -> pvFill (DataTable.h:946-977) before and after fix 91ea186, followed by ~DataTable
      (the constructors delegate); HashMultiMap(const HashMultiMap&, MemManager) as fixed in 84c9298 and
      HashMultiMap(initializer_list) (delegating; catch { pvClearValueArrays(); mValueCrew.Destroy(); } then ~HashMultiMap
      with its IsNull guard).
   3. SegmentedArray(begin, end) (SegmentedArray.h:218-235) followed by ~SegmentedArray. *)
From Coq Require Import ZArith Bool List Lia.
From C03 Require Import Effects.
Import ListNotations.
Local Open Scope Z_scope.

(* try { m } finally { h }  -- stack unwinding runs the destructor h whether m returned or threw *)
Definition finally {A} (m : M A) (h : M unit) : M A := fun s =>
  match m s with
  | (Val a, s1) => match h s1 with
                   | (Val _, s2) => (Val a, s2)
                   | (Exc, s2) => (Exc, s2)
                   | (Stuck, s2) => (Stuck, s2)
                   end
  | (Exc, s1) => match h s1 with
                 | (Stuck, s2) => (Stuck, s2)
                 | (_, s2) => (Exc, s2)
                 end
  | (Stuck, s1) => (Stuck, s1)
  end.

(* ================================================================== 1. crews and node params *)
Record cset : Type := mkC {
  c_crew : option Z;              (* mCrew.mData: block holding traits + version + THE MemManager; None = moved-from *)
  c_params : option (Z * Z);      (* mNodeParams: (block, crew block its pools' MemManagerPtr points into) *)
  c_nodes : list Z                (* node / pool-buffer blocks obtained through the params' pools, newest first *)
}.

Section Crew.
Variables mgr crewsz parsz nodesz : Z.

(* an allocation / deallocation made THROUGH the MemManager that lives in crew block [via]: the block must be live *)
Definition via_alloc (via sz : Z) : M Z := p_touch_blk via ;;; p_alloc mgr sz.
Definition via_dealloc (via b sz : Z) : M unit := p_touch_blk via ;;; p_dealloc mgr b sz.

(* TreeSet(treeTraits, memManager): SetCrew allocates its Data *)
Definition cs_create : M cset := crew <- p_alloc mgr crewsz ;; ret (mkC (Some crew) None []).

Fixpoint cs_add_nodes (via : Z) (n : nat) (c : cset) (s : rstate) : (cset * outcome unit) * rstate :=
  match n with
  | O => ((c, Val tt), s)
  | S n' => match via_alloc via nodesz s with
            | (Val node, s1) => cs_add_nodes via n' (mkC (c_crew c) (c_params c) (node :: c_nodes c)) s1
            | (Exc, s1) => ((c, Exc), s1)
            | (Stuck, s1) => ((c, Stuck), s1)
            end
  end.

(* n insertions that each need a new node: the first one creates mNodeParams = AllocateCreate<NodeParams>(memManager, memManager)
   (TreeSet.h:1264, 1077-1081): the params' pools remember GetMemManager() of THIS set, i.e. its crew block *)
Definition cs_fill (n : nat) (c : cset) (s : rstate) : (cset * outcome unit) * rstate :=
  match n, c_crew c with
  | O, _ => ((c, Val tt), s)
  | _, None => ((c, Stuck), s)
  | _, Some crew =>
      match c_params c with
      | Some (p, via) => cs_add_nodes via n c s
      | None => match via_alloc crew parsz s with
                | (Val p, s1) => cs_add_nodes crew n (mkC (c_crew c) (Some (p, crew)) (c_nodes c)) s1
                | (Exc, s1) => ((c, Exc), s1)
                | (Stuck, s1) => ((c, Stuck), s1)
                end
      end
  end.

Fixpoint cs_free_nodes (via : Z) (ns : list Z) : M unit :=
  match ns with
  | [] => ret tt
  | n :: ns' => via_dealloc via n nodesz ;;; cs_free_nodes via ns'
  end.

(* ~TreeSet: pvDestroy (nodes go back through the params' pools; ~NodeParams; Deallocate(GetMemManager(), mNodeParams)),
   then ~SetCrew frees the crew block; a moved-from set (crew = None) owns nothing *)
Definition cs_destroy (c : cset) : M unit :=
  match c_crew c with
  | None => ret tt
  | Some crew =>
      match c_params c with
      | Some (p, via) => cs_free_nodes via (c_nodes c) ;;; p_touch_blk via ;;; via_dealloc crew p parsz
      | None => ret tt
      end ;;;
      p_dealloc mgr crew crewsz
  end.

(* TreeSet::MergeTo(dst), branch dstCount == 0 with equal managers (TreeSet.h:968-976).
   fixed = true : Swap(dstTreeSet) - crews, params and nodes travel together (after c7fda03)
   fixed = false: only mCount / mRootNode / mNodeParams are swapped (before) *)
Definition cs_merge_to_empty (fixed : bool) (src dst : cset) : cset * cset :=
  if fixed then (dst, src)
  else (mkC (c_crew src) (c_params dst) (c_nodes dst), mkC (c_crew dst) (c_params src) (c_nodes src)).

(* TreeSet(TreeSet&&): the crew pointer moves, the source becomes null *)
Definition cs_move (src : cset) : cset * cset := (mkC None None [], src).

(* { TS dst; { TS src; src gets k nodes; src.MergeTo(dst); } dst gets m more nodes; }  with destructors on every path *)
Definition merge_scn (fixed : bool) (k m : nat) : M unit := fun s =>
  match cs_create s with
  | (Val dst, s1) =>
      let '((dst', o), s5) :=
        match cs_create s1 with
        | (Val src, s2) =>
            let '((src1, o1), s3) := cs_fill k src s2 in
            let '(src2, dst2) := match o1, c_nodes src1 with
                                 | Val _, _ :: _ => cs_merge_to_empty fixed src1 dst    (* if (count == 0) return; *)
                                 | _, _ => (src1, dst)
                                 end in
            match o1 with
            | Stuck => ((dst2, Stuck), s3)
            | _ => match cs_destroy src2 s3 with                                         (* ~src *)
                   | (Val _, s4) => match o1 with
                                    | Val _ => cs_fill m dst2 s4
                                    | _ => ((dst2, o1), s4)
                                    end
                   | (_, s4) => ((dst2, Stuck), s4)
                   end
            end
        | (Exc, s2) => ((dst, Exc), s2)
        | (Stuck, s2) => ((dst, Stuck), s2)
        end in
      match o with
      | Stuck => (Stuck, s5)
      | _ => match cs_destroy dst' s5 with                                               (* ~dst *)
             | (Val _, s6) => (o, s6)
             | (o', s6) => (o', s6)
             end
      end
  | (Exc, s1) => (Exc, s1)
  | (Stuck, s1) => (Stuck, s1)
  end.

(* { TS a; a gets k nodes; TS b(std::move(a)); }  ~b then ~a *)
Definition move_scn (k : nat) : M unit := fun s =>
  match cs_create s with
  | (Val a, s1) =>
      let '((a1, o1), s2) := cs_fill k a s1 in
      match o1 with
      | Stuck => (Stuck, s2)
      | Val _ => let '(a2, b) := cs_move a1 in
                 match (cs_destroy b ;;; cs_destroy a2) s2 with (Val _, s3) => (Val tt, s3) | r => r end
      | Exc => match cs_destroy a1 s2 with (Val _, s3) => (Exc, s3) | r => r end
      end
  | (Exc, s1) => (Exc, s1)
  | (Stuck, s1) => (Stuck, s1)
  end.

End Crew.

(* ================================================================== 2. constructors that build rows *)
Section Rows.
Variables mgr rsz crewsz : Z.
Variable colsf : Z -> nat.    (* items copied when the storage of row i is built (columns of a raw / values of key i): ANY function *)
Variable haskey : bool.       (* one more item is copied by the step that links the row in (HashMultiMap: the key) *)
Variable linkfail : bool.     (* linking the row in can throw (AddRaw / Insert); false for a nothrow link *)
Variable stride : Z.          (* source items of row i start at index i * stride *)
Definition keyw : nat := if haskey then 1%nat else 0%nat.

(* DataTable::pvImportRaw / ArrayBucket(Params&, const ArrayBucket&): take storage, copy-construct the items; on a failure
   destroy the copies made so far and give the storage back *)
Definition import_row (cols : nat) (sr sb : Z) : M Z := fun s =>
  match p_alloc mgr rsz s with
  | (Val row, s1) =>
      let '((index, o), s2) := om_copy_loop sr sb row 0 0 cols s1 in
      match o with
      | Val _ => (Val row, s2)
      | Exc => catch_rethrow throw (om_destroy_n row 0 (Z.to_nat index) ;;; p_dealloc mgr row rsz) s2
      | Stuck => (Stuck, s2)
      end
  | (Exc, s1) => (Exc, s1)
  | (Stuck, s1) => (Stuck, s1)
  end.

(* pvDestroyRaw before the row is linked / valueArray.Clear(valueArrayParams): the [cols] items and the storage *)
Definition drop_unlinked (cols : nat) (row : Z) : M unit :=
  p_touch_blk row ;;; om_destroy_n row 0 cols ;;; p_dealloc mgr row rsz.
(* a linked row (block, number of items in it): all its items and the storage *)
Definition drop_row (rw : Z * nat) : M unit :=
  p_touch_blk (fst rw) ;;; om_destroy_n (fst rw) 0 (snd rw) ;;; p_dealloc mgr (fst rw) rsz.
Fixpoint drop_rows (rows : list (Z * nat)) : M unit :=
  match rows with
  | [] => ret tt
  | r :: rs => drop_row r ;;; drop_rows rs
  end.

(* linking: mIndexes.AddRaw(raw) / mHashMap.Insert(key, std::move(valueArray)) - may throw; the key is copied last *)
Definition link_row (cols : nat) (row kr i : Z) : M unit :=
  (if linkfail then fallible else ret tt) ;;; (if haskey then p_copy (row, Z.of_nat cols) (kr, i) else ret tt).

(* the loop of pvFill / of the HashMultiMap copy constructor; returns the rows linked so far even when it throws *)
Fixpoint fill_loop (sr kr : Z) (i : Z) (n : nat) (rows : list (Z * nat)) (s : rstate) : (list (Z * nat) * outcome unit) * rstate :=
  match n with
  | O => ((rows, Val tt), s)
  | S n' =>
      match import_row (colsf i) sr (i * stride) s with
      | (Val row, s1) =>
          match catch_rethrow (link_row (colsf i) row kr i) (drop_unlinked (colsf i) row) s1 with   (* catch (...) { pvDestroyRaw(raw); throw; } *)
          | (Val _, s2) => fill_loop sr kr (i + 1) n' ((row, (colsf i + keyw)%nat) :: rows) s2
          | (o, s2) => ((rows, o), s2)
          end
      | (Exc, s1) => ((rows, Exc), s1)
      | (Stuck, s1) => ((rows, Stuck), s1)
      end
  end.

(* pvFill with its catch block, then ~DataTable's pvDestroyRaws() on the object's mRaws (the copy / selection constructors
   delegate, so the destructor runs when the body throws).  fixed = true: `mRaws.Clear()` after pvDestroyRaws() in the
   catch block (91ea186). *)
Definition dt_body (fixed : bool) (sr kr : Z) (n : nat) : M unit := fun s =>
  let '((rows, o), s1) := fill_loop sr kr 0 n [] s in
  let '((mraws, o'), s2) :=
    match o with
    | Exc => match drop_rows rows s1 with                                   (* catch (...) { pvDestroyRaws(); [mRaws.Clear();] throw; } *)
             | (Stuck, s2) => ((rows, Stuck), s2)
             | (_, s2) => ((if fixed then [] else rows, Exc), s2)
             end
    | _ => ((rows, o), s1)
    end in
  match o' with
  | Stuck => (Stuck, s2)
  | _ => match drop_rows mraws s2 with                                      (* ~DataTable: pvDestroyRaws() *)
         | (Val _, s3) => (o', s3)
         | (r, s3) => (r, s3)
         end
  end.

(* DataTable(const DataTable&): the delegated-to constructor creates the crew; whatever happens afterwards the crew's
   destructor frees it *)
Definition dt_copy_then_destroy (fixed : bool) (sr kr : Z) (n : nat) : M unit :=
  crew <- p_alloc mgr crewsz ;; finally (dt_body fixed sr kr n) (p_dealloc mgr crew crewsz).

(* HashMultiMap constructors, after mHashMap's crew and mValueCrew exist: the body adds the rows; the catch block does
   pvClearValueArrays(); mValueCrew.Destroy(GetMemManager()) (which nulls it); afterwards
   - initializer-list constructor (delegating): ~HashMultiMap runs: if (!mValueCrew.IsNull()) { clear; Destroy }
   - copy constructor: only the members are destroyed
   and in both cases nothing more is released for the rows when the value crew is already null.
   guard = false is the hypothetical destructor without the IsNull test. *)
Definition hmm_body (guard : bool) (vcrew : Z) (sr kr : Z) (n : nat) : M unit := fun s =>
  let '((rows, o), s1) := fill_loop sr kr 0 n [] s in
  let '((vc, o'), s2) :=
    match o with
    | Exc => match (drop_rows rows ;;; p_dealloc mgr vcrew crewsz) s1 with
             | (Stuck, s2) => ((None, Stuck), s2)
             | (_, s2) => ((None, Exc), s2)
             end
    | _ => ((Some vcrew, o), s1)
    end in
  match o' with
  | Stuck => (Stuck, s2)
  | _ =>
      let dtor := match vc with
                  | Some v => drop_rows rows ;;; p_dealloc mgr v crewsz
                  | None => if guard then ret tt else drop_rows rows ;;; p_dealloc mgr vcrew crewsz
                  end in
      match dtor s2 with
      | (Val _, s3) => (o', s3)
      | (r, s3) => (r, s3)
      end
  end.

Definition hmm_ctor_then_destroy (guard : bool) (sr kr : Z) (n : nat) : M unit :=
  crew <- p_alloc mgr crewsz ;;
  finally (vcrew <- p_alloc mgr crewsz ;; hmm_body guard vcrew sr kr n) (p_dealloc mgr crew crewsz).

End Rows.

(* ================================================================== 4. MemPool buffers across MergeFrom *)
Section Pools.
Variables mgr bufsz : Z.

(* a pool = the buffers it owns (newest first); pvNewBuffer takes one more buffer from the memory manager *)
Fixpoint pool_grow (n : nat) (p : list Z) (s : rstate) : (list Z * outcome unit) * rstate :=
  match n with
  | O => ((p, Val tt), s)
  | S n' => match p_alloc mgr bufsz s with
            | (Val b, s1) => pool_grow n' (b :: p) s1
            | (Exc, s1) => ((p, Exc), s1)
            | (Stuck, s1) => ((p, Stuck), s1)
            end
  end.

Fixpoint pool_free_all (p : list Z) : M unit :=
  match p with
  | [] => ret tt
  | b :: p' => p_dealloc mgr b bufsz ;;; pool_free_all p'
  end.

(* MemPool::MergeFrom (MemPool.h:386-435): every buffer of the source is linked into the destination's list, the source
   becomes empty.  fixed = false: the list surgery before 7f37c9f - only the source's head buffer stays reachable, the full
   buffers in front of it are orphaned *)
Definition pool_merge (fixed : bool) (dst src : list Z) : list Z * list Z :=
  if fixed then (src ++ dst, [])
  else (match src with [] => dst | h :: _ => h :: dst end, []).

Definition free_then (l : list Z) (o : outcome unit) : M unit := fun s =>
  match pool_free_all l s with
  | (Val _, s') => (o, s')
  | r => r
  end.

(* { Pool A; A takes a buffers; { Pool B; B takes b buffers; A.MergeFrom(B); } } with the destructors on every path
   (the blocks handed out by the pools are assumed returned before: DeallocateAll / ~MemPool free whole buffers) *)
Definition pools_scn (fixed : bool) (a b : nat) : M unit := fun s =>
  let '((pa, o1), s1) := pool_grow a [] s in
  match o1 with
  | Val _ =>
      let '((pb, o2), s2) := pool_grow b [] s1 in
      match o2 with
      | Val _ => let '(pa', pb') := pool_merge fixed pa pb in free_then (pb' ++ pa') (Val tt) s2
      | Exc => free_then (pb ++ pa) Exc s2
      | Stuck => (Stuck, s2)
      end
  | Exc => free_then pa Exc s1
  | Stuck => (Stuck, s1)
  end.

End Pools.
