// C17 implementation side, part 2: the REAL momo::internal::RadixSorter<R> for R = 1..16 on 8/16/32/64-bit codes and
// on pointers.  RADIX R W n v0 v1 ...   -> sorted values | group calls (offset:count with count > 2)
//               RADIXP R n i0 i1 ...    -> pointers &pool[i] sorted, printed as indexes
// The oracle (python: sorted(), and "every run of > 2 equal codes was handed to groupFunc exactly") is independent of Coq.
#include "private_access.h"
#include "momo/HashSorter.h"
using namespace momo;
typedef unsigned long long ull;

static int g_pool[1 << 16];

template<size_t R, typename T>
static void run_int(std::istream& is, size_t n)
{
	std::vector<T> v(n + 2, T(0x55));
	for (size_t i = 0; i < n; ++i) { ull x; is >> x; v[i + 1] = T(x); }
	T* b = v.data() + 1;
	typedef internal::RadixSorterCodeGetter<T*> CG;
	std::vector<std::pair<size_t, size_t>> groups;
	auto swapper = [] (T* a, T* c) { std::iter_swap(a, c); };
	auto groupFunc = [&groups, b] (T* p, size_t c) { if (c > 2) groups.emplace_back(size_t(p - b), c); };
	internal::RadixSorter<R>::Sort(b, n, CG(), swapper, groupFunc);
	std::vector<T> w(v.begin() + 1, v.begin() + 1 + n);   // second copy through the 2-argument overload
	bool guards = v[0] == T(0x55) && v[n + 1] == T(0x55);
	std::ostringstream os;
	for (size_t i = 0; i < n; ++i) os << ull(b[i]) << " ";
	os << "|";
	std::sort(groups.begin(), groups.end());
	for (auto& g : groups) os << " " << g.first << ":" << g.second;
	printf("%s%s\n", guards ? "" : "OOB ", os.str().c_str());
}

template<size_t R>
static void run_ptr(std::istream& is, size_t n)
{
	std::vector<int*> v(n);
	for (size_t i = 0; i < n; ++i) { ull x; is >> x; v[i] = g_pool + (x & 0xFFFF); }
	internal::RadixSorter<R>::Sort(v.data(), n);
	std::ostringstream os;
	for (size_t i = 0; i < n; ++i) os << (v[i] - g_pool) << " ";
	printf("%s|\n", os.str().c_str());
}

// RSORT R W g n (code id)* : RadixSorter<R> on W-bit codes of (code,id) items with a logging iterSwapper and, if g = 1, the
// group callback of HashSorter::pvSort (pvGroup for count > 2).  Output: final arrangement | swap trace
struct RItem { uint64_t code; long long id; };
template<size_t R, typename T>
static void run_rsort(std::istream& is, bool g, size_t n)
{
	std::vector<RItem> v(n);
	for (size_t i = 0; i < n; ++i) { ull c; long long id; is >> c >> id; v[i] = RItem{ uint64_t(T(c)), id }; }
	RItem* b = v.data();
	std::vector<long long> log;
	auto codeGetter = [] (RItem* it) { return T(it->code); };
	auto swapper = [b, &log] (RItem* x, RItem* y) { log.push_back((x - b) * 100000 + (y - b)); std::iter_swap(x, y); };
	auto eq = [] (const RItem& x, const RItem& y) { return x.id == y.id; };
	auto groupFunc = [g, &eq, &swapper] (RItem* p, size_t c) { if (g && c > 2) HashSorter::pvGroup(p, c, eq, swapper); };
	internal::RadixSorter<R>::Sort(b, n, codeGetter, swapper, groupFunc);
	std::ostringstream os;
	for (size_t i = 0; i < n; ++i) os << ull(b[i].code) << " " << b[i].id << " ";
	os << "| ";
	if (log.size() <= 48) { for (size_t i = 0; i < log.size(); ++i) os << (i ? "," : "") << log[i]; }
	else { long long d = 0; for (long long t : log) d = (d * 1000003 + t) % 1000000007LL; os << log.size() << ":" << d; }
	printf("%s\n", os.str().c_str());
}

template<size_t R>
static void run_r(const std::string& cmd, std::istream& is)
{
	if (cmd == "RADIXP") { size_t n; is >> n; run_ptr<R>(is, n); return; }
	if (cmd == "RSORT")
	{
		size_t w, g, n; is >> w >> g >> n;
		switch (w) {
		case 8: run_rsort<R, uint8_t>(is, g != 0, n); break;
		case 16: run_rsort<R, uint16_t>(is, g != 0, n); break;
		case 32: run_rsort<R, uint32_t>(is, g != 0, n); break;
		case 64: run_rsort<R, uint64_t>(is, g != 0, n); break;
		default: puts("?"); }
		return;
	}
	size_t w, n; is >> w >> n;
	switch (w) {
	case 8: run_int<R, uint8_t>(is, n); break;
	case 16: run_int<R, uint16_t>(is, n); break;
	case 32: run_int<R, uint32_t>(is, n); break;
	case 64: run_int<R, uint64_t>(is, n); break;
	default: puts("?"); }
}

int main()
{
	std::string line;
	while (std::getline(std::cin, line))
	{
		std::istringstream is(line); std::string cmd; size_t r; is >> cmd >> r;
		switch (r) {
#define C(R) case R: run_r<R>(cmd, is); break;
		C(1) C(2) C(3) C(4) C(5) C(6) C(7) C(8) C(9) C(10) C(11) C(12) C(13) C(14) C(15) C(16)
		default: puts("?"); }
		fflush(stdout);
	}
	return 0;
}
