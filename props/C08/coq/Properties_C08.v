(* Property C08 -- theorems only.  Each is closed by `exact <lemma>` and followed by Print Assumptions.
   The models (ArrayBucketModel.v, MultiMapModel.v, WrapperModel.v) are hand-written executable Gallina mirroring
   HashMultiMap.h, details/ArrayBucket.h and stdish/unordered_multimap.h; their extracted OCaml is run against the
   real C++ on every check (see prop.py). *)
From Coq Require Import ZArith List Permutation.
From C08 Require Import ArrayBucketModel MultiMapModel.
Import ListNotations.
Local Open Scope Z_scope.

(* HashMultiMap, all histories (Add by key / by key iterator, InsertKey, Remove by index, Remove by predicate,
   RemoveValues, RemoveKey, ResetKey, Clear, Swap, copy, move) for every maxFastCount M in 1..15:
   both containers keep  keys NoDup, mValueCount = sum of the per-key counts, every value array in a legal
   representation whose stored count is the length of its content;  and the per-key (tag, value list) of each
   container is EXACTLY that of the reference mapping sp_run (a function key -> option (tag, list)), order of
   values included (swap-with-last removal, the predicate-removal loop). *)
Theorem C08_mm_refines_all_histories :
  forall (M : Z) (ops : list op), 0 < M < 16 ->
    let s := run M ops in
    Inv M (fst s) /\ Inv M (snd s) /\ refines s (sp_run ops).
Proof. exact mm_refines_all_histories_thm. Qed.
Print Assumptions C08_mm_refines_all_histories.

(* pair traversal (GetBegin / operator++ with pvMove skipping value-less keys, modelled as an iterator) visits
   every (key, value) pair exactly as often as the value occurs in the key's list, and nothing else: nothing for
   an absent key and nothing for a key without values. *)
Theorem C08_traversal_visits_each_pair_once :
  forall (m : mm) (k v : Z), NoDup (keys (fst m)) ->
    count_occ pair_dec (traverse m) (k, v) =
    match abs (fst m) k with Some (_, vs) => count_occ Z.eq_dec vs v | None => O end.
Proof. exact traverse_counts. Qed.
Print Assumptions C08_traversal_visits_each_pair_once.

(* the iterator-based traversal terminates within GetCount()+1 steps and equals the concatenation of the
   per-key value arrays in key order (so the values of one key are contiguous and in array order) *)
Theorem C08_traversal_is_concatenation :
  forall m : mm, traverse m = all_pairs (fst m).
Proof. exact traverse_eq. Qed.
Print Assumptions C08_traversal_is_concatenation.

(* a present key stays present under every operation except RemoveKey of that key and Clear -- in particular
   when its last value is removed (Remove, Remove(pred), RemoveValues) it stays with zero values *)
Theorem C08_key_persists_until_removed_as_key :
  forall (M : Z) (m : mm) (o : op) (k : Z),
    abs (fst m) k <> None ->
    (forall k', o = ORemoveKey k' -> k' <> k) -> o <> OClear ->
    abs (fst (step1 M m o)) k <> None.
Proof. exact key_persists. Qed.
Print Assumptions C08_key_persists_until_removed_as_key.

(* Remove(pairFilter) on one key keeps exactly the values that do not satisfy the predicate (as a multiset;
   the resulting ORDER is the one of the coded loop and is part of the refinement above) and removes
   as many values as satisfy it *)
Theorem C08_remove_if_keeps_exactly_the_rest :
  forall (p : Z -> bool) (l : list Z),
    Permutation (rm_if p l) (filter (fun v => negb (p v)) l) /\
    (length (rm_if p l) + length (filter p l) = length l)%nat.
Proof. exact rm_if_spec. Qed.
Print Assumptions C08_remove_if_keeps_exactly_the_rest.

(* ArrayBucket: for every maxFastCount and every history of AddBack / Remove(i) / RemoveBack / Clear / copy the
   representation is never stuck on an assertion, count <= capacity of the current representation (pool index
   for a pooled block), the stored count is the length of the content, a pooled block holds 1..maxFastCount
   values in a pool of index <= maxFastCount, and the content is the plain list semantics. *)
Theorem C08_arraybucket_repr_inv :
  forall (M : Z) (ops : list abop), 0 < M < 16 ->
    let a := ab_run M ops in
    let r := fst a in
    r <> RStuck /\
    0 <= rcount r <= rcap r /\
    rcount r = Z.of_nat (length (snd a)) /\
    (is_fast r = true -> 1 <= rcount r /\ rcap r <= M) /\
    (is_heap r = true -> 1 <= rcount r) /\
    (is_null r = true -> snd a = []).
Proof. exact arraybucket_repr_inv_thm. Qed.
Print Assumptions C08_arraybucket_repr_inv.

Theorem C08_arraybucket_content_is_value_list :
  forall (M : Z) (ops : list abop), 0 < M < 16 ->
    ab_inv M (ab_run M ops) /\ snd (ab_run M ops) = fold_left ref_step ops [].
Proof. exact ab_all_histories. Qed.
Print Assumptions C08_arraybucket_content_is_value_list.

(* transitions only as coded: null -> pool 1; pooled block: count+1 in place, or next pool when full, or the heap
   array of capacity 2*maxFastCount when the largest pool is full; heap: in place or GrowCapacity *)
Theorem C08_arraybucket_add_transitions :
  forall (M : Z), 0 < M < 16 -> forall r : repr, repr_inv M r ->
  match r, add_back M r with
  | RNull, RFast st' => pool_of st' = 1 /\ fcount_of st' = 1
  | RFast st, RFast st' =>
      (fcount_of st < pool_of st /\ pool_of st' = pool_of st /\ fcount_of st' = fcount_of st + 1) \/
      (fcount_of st = pool_of st /\ pool_of st < M /\ pool_of st' = pool_of st + 1 /\ fcount_of st' = pool_of st + 1)
  | RFast st, RHeap cap' cnt' => fcount_of st = M /\ pool_of st = M /\ cap' = M * 2 /\ cnt' = M + 1
  | RHeap cap cnt, RHeap cap' cnt' =>
      cnt' = cnt + 1 /\ ((cnt < cap /\ cap' = cap) \/ (cnt = cap /\ cap' = grow_capacity cap (cnt + 1) /\ cap < cap'))
  | _, _ => False
  end.
Proof. exact add_back_transitions. Qed.
Print Assumptions C08_arraybucket_add_transitions.

(* RemoveBack: to null exactly when the last value goes; a pooled block keeps its pool; a heap array never
   returns to a pool and shrinks to 2*count exactly when 2 < count <= capacity/4 (count before the removal) *)
Theorem C08_arraybucket_remove_transitions :
  forall (M : Z), 0 < M < 16 -> forall r : repr, repr_inv M r -> 1 <= rcount r ->
  match r, remove_back r with
  | RFast st, RNull => fcount_of st = 1
  | RHeap cap cnt, RNull => cnt = 1
  | RFast st, RFast st' => 2 <= fcount_of st /\ pool_of st' = pool_of st /\ fcount_of st' = fcount_of st - 1
  | RHeap cap cnt, RHeap cap' cnt' =>
      2 <= cnt /\ cnt' = cnt - 1 /\
      ((2 < cnt /\ cnt <= cap / 4 /\ cap' = cnt * 2) \/ (~ (2 < cnt /\ cnt <= cap / 4) /\ cap' = cap))
  | _, _ => False
  end.
Proof. exact remove_back_transitions. Qed.
Print Assumptions C08_arraybucket_remove_transitions.
