(* COPIED from props/C12/coq (only change: the library name); C11 uses these LimP4 bucket facts for GenFullP4.v *)
(* C12, BucketLimP4: the metadata invariant of a whole bucket (short-hash slots [0,count) and hash-probe slots shared
   with the unused short-hash slots), preserved by the GENERATED Remove and by the AddCrt composition p4_add. *)
From Coq Require Import ZArith Bool List Lia.
From MomoCommon Require Import GenPrelude.
From C11 Require Import Bits Known Gen_Base Gen_P4 P4_Model P4_Slot.
Local Open Scope Z_scope.

(* c elements; element i has short hash sh i (< 128) and, if it owns a live hash-probe slot, byte bv i there *)
Definition p4_inv (H : Z) (s : Z -> Z) (c : Z) (sh bv : Z -> Z) : Prop :=
  0 <= c <= 4 /\
  (forall j, 0 <= j < H -> 0 <= s j < 256) /\
  (forall i, 0 <= i < c -> s i = sh i /\ 0 <= sh i < 128) /\
  (forall j, c <= j < H -> 128 <= s j) /\
  (forall i, 0 <= i < c -> c <= H - 1 - i -> s (H - 1 - i) = 255 \/ s (H - 1 - i) = bv i).

Lemma p4_count_inv H s c sh bv : 4 <= H -> p4_inv H s c sh bv -> Gen_P4.pvGetCount s = c.
Proof.
  intros HH [Hc [Hr [Hs [He _]]]]. unfold Gen_P4.pvGetCount, Gen_P4.maskEmpty.
  assert (Hcases : c = 0 \/ c = 1 \/ c = 2 \/ c = 3 \/ c = 4) by lia.
  pose proof (Hr 0 ltac:(lia)); pose proof (Hr 1 ltac:(lia)); pose proof (Hr 2 ltac:(lia)); pose proof (Hr 3 ltac:(lia)).
  destruct Hcases as [->|[->|[->|[->| ->]]]].
  - pose proof (He 0 ltac:(lia)); pose proof (He 1 ltac:(lia)).
    destruct (Z.geb_spec (s 1) 128); [|lia]. destruct (Z.ltb_spec (s 0) 128); [lia|reflexivity].
  - pose proof (Hs 0 ltac:(lia)); pose proof (He 1 ltac:(lia)).
    destruct (Z.geb_spec (s 1) 128); [|lia]. destruct (Z.ltb_spec (s 0) 128); [reflexivity|lia].
  - pose proof (Hs 1 ltac:(lia)); pose proof (He 2 ltac:(lia)); pose proof (He 3 ltac:(lia)).
    destruct (Z.geb_spec (s 1) 128); [lia|]. destruct (Z.ltb_spec (s 2) 128); [lia|]. destruct (Z.ltb_spec (s 3) 128); [lia|reflexivity].
  - pose proof (Hs 1 ltac:(lia)); pose proof (Hs 2 ltac:(lia)); pose proof (He 3 ltac:(lia)).
    destruct (Z.geb_spec (s 1) 128); [lia|]. destruct (Z.ltb_spec (s 2) 128); [|lia]. destruct (Z.ltb_spec (s 3) 128); [lia|reflexivity].
  - pose proof (Hs 1 ltac:(lia)); pose proof (Hs 2 ltac:(lia)); pose proof (Hs 3 ltac:(lia)).
    destruct (Z.geb_spec (s 1) 128); [lia|]. destruct (Z.ltb_spec (s 2) 128); [|lia]. destruct (Z.ltb_spec (s 3) 128); [reflexivity|lia].
Qed.

Lemma p4_inv_empty H : 4 <= H -> p4_inv H (Gen_P4.pvSetEmpty H (fun _ => 0) 0) 0 (fun _ => 0) (fun _ => 0).
Proof.
  intros HH. unfold p4_inv, Gen_P4.pvSetEmpty, Gen_P4.emptyHashProbe.
  split; [lia|]. split; [|split; [|split]]; intros j Hj; try lia;
    destruct (Z.leb_spec 0 j), (Z.ltb_spec j H); simpl; lia.
Qed.

Ltac upd_cases :=
  unfold upd; repeat match goal with |- context [Z.eqb ?a ?b] => destruct (Z.eqb_spec a b) end.

(* AddCrt (metadata): appends element c with short hash of x and, if it owns a slot, the byte for (x, L, probe) *)
Lemma p4_add_inv H s c sh bv x L probe : 4 <= H <= 8 -> 0 <= x < 2 ^ 64 -> 0 <= L <= 63 -> 0 <= probe < 2 ^ 64 ->
  p4_inv H s c sh bv -> c < 4 ->
  exists s', p4_add H s x L probe = Ok s' /\
    p4_inv H s' (c + 1) (upd sh c (Gen_P4.pvCalcShortHash x)) (upd bv c (p4_byte x L probe)).
Proof.
  intros HH Hx HL Hp Hinv Hc4. pose proof (p4_count_inv H s c sh bv ltac:(lia) Hinv) as Hcnt.
  destruct Hinv as [Hc [Hr [Hs [He Hb]]]].
  unfold p4_add. rewrite Hcnt. unfold Gen_P4.maxCount. destruct (Z.ltb_spec c 4); [|lia].
  eexists. split; [reflexivity|].
  rewrite p4_setHashProbe_eq by lia.
  pose proof (p4_short_range x Hx) as Hsr. pose proof (p4_byte_range x L probe ltac:(lia) HL ltac:(lia)) as Hbr.
  unfold p4_inv. split; [lia|]. split; [|split; [|split]].
  - intros j Hj. pose proof (Hr j Hj). destruct (Z.leb_spec (H - 1 - c) c); upd_cases; lia.
  - intros i Hi. destruct (Z.eq_dec i c) as [->|Hne].
    + rewrite !upd_same. destruct (Z.leb_spec (H - 1 - c) c); rewrite ?upd_same; lia.
    + pose proof (Hs i ltac:(lia)). rewrite (upd_other sh) by lia.
      destruct (Z.leb_spec (H - 1 - c) c); upd_cases; try lia.
      (* i = H-1-c would be a short-hash slot >= c: impossible since i < c < H-1-c *)
  - intros j Hj. pose proof (He j ltac:(lia)). destruct (Z.leb_spec (H - 1 - c) c); upd_cases; lia.
  - intros i Hi Hsl. destruct (Z.eq_dec i c) as [->|Hne].
    + right. rewrite upd_same. destruct (Z.leb_spec (H - 1 - c) c); [lia|].
      rewrite upd_other by lia. rewrite upd_same. reflexivity.
    + rewrite (upd_other bv) by lia. pose proof (Hb i ltac:(lia) ltac:(lia)) as Hbi.
      destruct (Z.leb_spec (H - 1 - c) c); upd_cases; try lia; assumption.
Qed.

(* Remove (count >= 2): element idx is overwritten by the last element, whose hash-probe byte is carried over when it
   was live, otherwise the slot is marked empty *)
Lemma p4_remove_inv H mm s c sh bv idx iter items mpi : 4 <= H <= 8 -> p4_inv H s c sh bv -> 2 <= c -> 0 <= idx < c -> items <> 0 ->
  (forall i, 0 <= i < c -> 128 <= bv i < 256) ->
  exists s', Gen_P4.Remove H mm s iter items mpi idx = Ok (tt, s') /\
    p4_inv H s' (c - 1) (upd sh idx (sh (c - 1))) (upd bv idx (bv (c - 1))).
Proof.
  intros HH Hinv Hc2 Hidx Hit Hbv. pose proof (p4_count_inv H s c sh bv ltac:(lia) Hinv) as Hcnt.
  destruct Hinv as [Hc [Hr [Hs [He Hb]]]].
  unfold Gen_P4.Remove. rewrite Hcnt. destruct (Z.eqb_spec items 0); [contradiction|]. cbn [negb].
  destruct (Z.eqb_spec c 1); [lia|]. destruct (Z.ltb_spec idx c); [|lia].
  unfold Gen_P4.useHashCodePartGetter, Gen_P4.emptyHashProbe. cbn [andb].
  rewrite (wrapU_small 64 (c - 1)), (wrapU_small 64 (H - 1)), (wrapU_small 64 (H - 1 - idx)), (wrapU_small 64 (H - c)) by lia.
  eexists. split; [reflexivity|].
  pose proof (Hs (c - 1) ltac:(lia)) as Hlast.
  unfold p4_inv. split; [lia|]. split; [|split; [|split]].
  - intros j Hj. pose proof (Hr j Hj). pose proof (Hr (c - 1) ltac:(lia)). pose proof (Hr (H - c) ltac:(lia)).
    destruct (Z.geb_spec (H - 1 - idx) c); [destruct (Z.geb_spec (H - c) c)|]; upd_cases; lia.
  - intros i Hi. destruct (Z.eq_dec i idx) as [->|Hne].
    + rewrite upd_same. destruct (Z.geb_spec (H - 1 - idx) c); [destruct (Z.geb_spec (H - c) c)|]; upd_cases; lia.
    + rewrite (upd_other sh) by lia. pose proof (Hs i ltac:(lia)).
      destruct (Z.geb_spec (H - 1 - idx) c); [destruct (Z.geb_spec (H - c) c)|]; upd_cases; lia.
  - intros j Hj. destruct (Z.eq_dec j (c - 1)) as [->|Hne].
    + destruct (Z.geb_spec (H - 1 - idx) c); [destruct (Z.geb_spec (H - c) c)|]; upd_cases; lia.
    + pose proof (He j ltac:(lia)). pose proof (He (H - c)).
      destruct (Z.geb_spec (H - 1 - idx) c); [destruct (Z.geb_spec (H - c) c)|]; upd_cases; lia.
  - intros i Hi Hsl. destruct (Z.eq_dec i idx) as [->|Hne].
    + rewrite (upd_same bv).
      destruct (Z.geb_spec (H - 1 - idx) c) as [Hge|Hlt].
      * destruct (Z.geb_spec (H - c) c) as [Hge2|Hlt2].
        -- (* the last element's live byte is carried over *)
           pose proof (Hb (c - 1) ltac:(lia) ltac:(lia)) as Hbl. replace (H - 1 - (c - 1)) with (H - c) in Hbl by lia.
           rewrite upd_same. rewrite !upd_other by lia. assumption.
        -- left. rewrite upd_same. reflexivity.
      * (* slot H-1-idx = c-1: just set to the empty marker *)
        left. assert (Heq1 : H - 1 - idx = c - 1) by lia. rewrite Heq1. rewrite upd_same. reflexivity.
    + rewrite (upd_other bv) by lia.
      destruct (Z.eq_dec (H - 1 - i) (c - 1)) as [Heq|Hneq].
      * left. rewrite Heq. destruct (Z.geb_spec (H - 1 - idx) c); [destruct (Z.geb_spec (H - c) c)|]; upd_cases; lia.
      * pose proof (Hb i ltac:(lia) ltac:(lia)) as Hbi.
        destruct (Z.geb_spec (H - 1 - idx) c); [destruct (Z.geb_spec (H - c) c)|]; upd_cases; try lia; assumption.
Qed.

(* Remove of the only element: everything is reset to the empty marker *)
Lemma p4_remove_last_inv H mm s sh bv iter items mpi : 4 <= H <= 8 -> p4_inv H s 1 sh bv -> items <> 0 -> iter = items ->
  exists s', Gen_P4.Remove H mm s iter items mpi 0 = Ok (tt, s') /\ p4_inv H s' 0 sh bv.
Proof.
  intros HH Hinv Hit Hiter. pose proof (p4_count_inv H s 1 sh bv ltac:(lia) Hinv) as Hcnt.
  unfold Gen_P4.Remove. rewrite Hcnt. destruct (Z.eqb_spec items 0); [contradiction|]. cbn [negb].
  rewrite Z.eqb_refl. destruct (Z.eqb_spec iter items); [|contradiction].
  eexists. split; [reflexivity|].
  unfold p4_inv, Gen_P4.pvSetEmpty, Gen_P4.emptyHashProbe.
  split; [lia|]. split; [|split; [|split]]; intros j Hj; try lia;
    destruct (Z.leb_spec 0 j), (Z.ltb_spec j H); simpl; lia.
Qed.

(* bucket-level reconstruct_exact: in any bucket satisfying the invariant, for every element i, GetHashCodePart either
   uses the full getter or reads the element's own live byte *)
Lemma p4_bucket_read H s c sh bv i full bidx L newL items : 4 <= H <= 8 -> p4_inv H s c sh bv -> 0 <= i < c ->
  0 <= L <= 63 -> 0 <= newL <= 63 ->
  Gen_P4.GetHashCodePart H s full bidx L newL items i = full \/
  (c <= H - 1 - i /\ s (H - 1 - i) = bv i /\ s i = sh i).
Proof.
  intros HH [Hc [Hr [Hs [He Hb]]]] Hi HL HnL.
  pose proof (Hr (H - 1 - i) ltac:(lia)) as Hri.
  destruct (Z.lt_ge_cases (H - 1 - i) c) as [Hlt|Hge].
  - (* the slot holds another element's short hash *)
    left. rewrite p4_getpart_eq by lia. pose proof (Hs (H - 1 - i) ltac:(lia)) as [Hv Hv2].
    rewrite p4_full_used_short by lia. reflexivity.
  - destruct (Hb i Hi Hge) as [He255|Hown].
    + left. rewrite p4_getpart_eq by lia. rewrite He255. reflexivity.
    + right. repeat split; try assumption. apply (Hs i Hi).
Qed.

Lemma p4_inv_ext H s c sh bv sh' bv' : (forall i, 0 <= i < c -> sh i = sh' i) -> (forall i, 0 <= i < c -> bv i = bv' i) ->
  p4_inv H s c sh bv -> p4_inv H s c sh' bv'.
Proof.
  intros E1 E2 [Hc [Hr [Hs [He Hb]]]]. unfold p4_inv. split; [lia|]. split; [assumption|]. split; [|split; [assumption|]].
  - intros i Hi. rewrite <- E1 by assumption. apply (Hs i Hi).
  - intros i Hi Hsl. rewrite <- E2 by assumption. apply Hb; assumption.
Qed.

Lemma p4_remove_ok_pre H mm s iter items mpi idx r : Gen_P4.Remove H mm s iter items mpi idx = Ok r ->
  items <> 0 /\ (Gen_P4.pvGetCount s = 1 -> iter = items).
Proof.
  unfold Gen_P4.Remove. intros Hrem. destruct (Z.eqb_spec items 0); [discriminate|]. split; [assumption|].
  intros Hc1. rewrite Hc1 in Hrem. cbn [negb] in Hrem. rewrite Z.eqb_refl in Hrem.
  destruct (Z.eqb_spec iter items); [assumption|discriminate].
Qed.

(* every metadata state reachable from the empty bucket by the generated Remove and the AddCrt composition, in a table
   of 2^L buckets; hs i / ps i = true hash and displacement of the element currently at index i *)
Section Reach.
Variables (H mm L : Z).

Inductive p4_reach : (Z -> Z) -> Z -> (Z -> Z) -> (Z -> Z) -> Prop :=
| reach_empty : p4_reach (Gen_P4.pvSetEmpty H (fun _ => 0) 0) 0 (fun _ => 0) (fun _ => 0)
| reach_add s c hs ps h probe s' : p4_reach s c hs ps -> 0 <= h < 2 ^ 64 -> 0 <= probe < 2 ^ 64 ->
    p4_add H s h L probe = Ok s' -> p4_reach s' (c + 1) (upd hs c h) (upd ps c probe)
| reach_remove s c hs ps idx iter items mpi s' : p4_reach s c hs ps -> 0 <= idx < c ->
    Gen_P4.Remove H mm s iter items mpi idx = Ok (tt, s') ->
    p4_reach s' (c - 1) (upd hs idx (hs (c - 1))) (upd ps idx (ps (c - 1))).

Definition sh_of (hs : Z -> Z) : Z -> Z := fun i => Gen_P4.pvCalcShortHash (hs i).
Definition bv_of (hs ps : Z -> Z) : Z -> Z := fun i => p4_byte (hs i) L (ps i).

(* bucket_meta_inv *)
Theorem p4_reach_inv s c hs ps : 4 <= H <= 8 -> 0 <= L <= 63 -> p4_reach s c hs ps ->
  p4_inv H s c (sh_of hs) (bv_of hs ps) /\ (forall i, 0 <= i < c -> 0 <= hs i < 2 ^ 64 /\ 0 <= ps i < 2 ^ 64).
Proof.
  intros HH HL Hre. induction Hre as [|s c hs ps h probe s' Hre [IH IHr] Hh Hp Hadd | s c hs ps idx iter items mpi s' Hre [IH IHr] Hidx Hrem].
  - split; [|intros; lia]. apply (p4_inv_ext H _ 0 (fun _ => 0) (fun _ => 0)); try (intros; lia). apply p4_inv_empty. lia.
  - pose proof (p4_count_inv H s c _ _ ltac:(lia) IH) as Hcnt.
    assert (Hc4 : c < 4).
    { destruct (Z.lt_ge_cases c 4); [assumption|exfalso]. unfold p4_add in Hadd. rewrite Hcnt in Hadd.
      unfold Gen_P4.maxCount in Hadd. destruct (Z.ltb_spec c 4); [lia|discriminate]. }
    destruct (p4_add_inv H s c _ _ h L probe HH Hh HL Hp IH Hc4) as [s'' [Hs'' Hinv]].
    rewrite Hadd in Hs''. injection Hs'' as <-. destruct IH as [Hc _]. split.
    + eapply p4_inv_ext; [| |exact Hinv]; intros i Hi; unfold sh_of, bv_of, upd; destruct (Z.eqb i c); reflexivity.
    + intros i Hi. unfold upd. destruct (Z.eqb_spec i c); [lia|]. apply IHr. lia.
  - pose proof (p4_count_inv H s c _ _ ltac:(lia) IH) as Hcnt.
    destruct (p4_remove_ok_pre _ _ _ _ _ _ _ _ Hrem) as [Hit Hiter]. rewrite Hcnt in Hiter.
    destruct (Z.eq_dec c 1) as [->|Hc1].
    + assert (idx = 0) by lia. subst idx.
      destruct (p4_remove_last_inv H mm s _ _ iter items mpi HH IH Hit (Hiter eq_refl)) as [s'' [Hs'' Hinv]].
      rewrite Hrem in Hs''. injection Hs'' as <-. split; [|intros; lia].
      eapply p4_inv_ext; [| |exact Hinv]; intros; lia.
    + assert (Hbv : forall i, 0 <= i < c -> 128 <= bv_of hs ps i < 256).
      { intros i Hi. unfold bv_of. destruct (IHr i Hi). apply p4_byte_range; lia. }
      destruct (p4_remove_inv H mm s c _ _ idx iter items mpi HH IH ltac:(lia) Hidx Hit Hbv) as [s'' [Hs'' Hinv]].
      rewrite Hrem in Hs''. injection Hs'' as <-. split.
      * eapply p4_inv_ext; [| |exact Hinv]; intros i Hi; unfold sh_of, bv_of, upd; destruct (Z.eqb i idx); reflexivity.
      * intros i Hi. unfold upd. destruct (Z.eqb_spec i idx); apply IHr; lia.
Qed.

(* reconstruct_exact at bucket level: after ANY history of adds and removes in a bucket of a table of 2^L buckets, every
   element i reconstructs to the full getter's value or to exactly the known bits of its own hash *)
Theorem p4_bucket_reconstruct s c hs ps i full bidx newL items : 4 <= H <= 8 -> 0 <= L <= 63 -> 0 <= newL <= 63 ->
  p4_reach s c hs ps -> 0 <= i < c -> bidx = (hs i mod 2 ^ L + ps i) mod 2 ^ L ->
  Gen_P4.GetHashCodePart H s full bidx L newL items i = full \/
  (Gen_P4.GetHashCodePart H s full bidx L newL items i = known (qof L) (hs i) /\ qof L = qof newL).
Proof.
  intros HH HL HnL Hre Hi Hb. destruct (p4_reach_inv s c hs ps HH ltac:(lia) Hre) as [Hinv Hr].
  destruct (Hr i Hi) as [Hh Hp].
  destruct (p4_bucket_read H s c _ _ i full bidx L newL items HH Hinv Hi ltac:(lia) HnL) as [Hf|[Hsl [Hv Hs]]]; [left; assumption|].
  unfold bv_of in Hv. unfold sh_of in Hs.
  rewrite (p4_reconstruct H s full bidx L newL items i (hs i) (ps i)); try lia; try assumption.
  destruct (p4_full_used _ _ _) eqn:Hfu; [left; reflexivity|right]. split; [reflexivity|].
  apply p4_full_used_false in Hfu; [apply Hfu|apply p4_byte_range; lia].
Qed.
End Reach.
