// COPIED from props/C13 (C11 uses the bucket-operation proofs of C13 for its IsFull tie)
// instantiation TU for cxx2coq (C13): every bucket operation that writes the bytes holding the search bound
#include "momo/HashSet.h"
#include "momo/details/HashBucketOpen2N2.h"
#include "momo/details/HashBucketOpenN1.h"
#include "momo/details/HashBucketOpen8.h"
namespace momo { namespace internal {
typedef HashSetItemTraits<uint64_t, MemManagerDefault> C13IT;
typedef BucketOpen2N2<C13IT, 3, true> C13O2;
typedef BucketOpenN1<C13IT, 3, true> C13N1;
template class BucketOpen2N2<C13IT, 3, true>;
template class BucketOpenN1<C13IT, 3, true>;
struct C13Creator { void operator()(uint64_t*) const {} };
struct C13Replacer { void operator()(uint64_t&, uint64_t&) const {} };
// one use of every member template so that clang instantiates the bodies
inline void c13_use(C13O2& a, C13O2::Params& pa, C13N1& b, C13N1::Params& pb)
{
	C13Creator cr; C13Replacer rp;
	auto ia = a.AddCrt(pa, cr, 0, 0, 0); a.Remove(pa, ia, rp);
	auto ib = b.AddCrt(pb, cr, 0, 0, 0); b.Remove(pb, ib, rp);
}
}}
