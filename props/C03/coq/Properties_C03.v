(* Property C03 -- theorems only.  Each is closed by `exact <lemma>` and followed by Print Assumptions. *)
From Coq Require Import ZArith List.
From C03 Require Monitor Effects.
Import ListNotations.
Local Open Scope Z_scope.

(* The executable monitor that is run on the event log of the real containers accepts a trace if and only if
   the trace satisfies the declarative release discipline: for every block and every element object, its own
   history is a sequence of complete lifetimes  open(p) . use* . close(p)  -- i.e. every block is deallocated
   exactly once, after its allocation, with its allocation size and through a manager equal to the allocating
   one; no element is constructed on top of a live one; none is destroyed or used while dead; at the end no
   block and no element is live. *)
Theorem C03_monitor_sound : forall t, Monitor.accepts t = true -> Monitor.trace_ok t.
Proof. exact Monitor.monitor_sound. Qed.
Print Assumptions C03_monitor_sound.

Theorem C03_monitor_complete : forall t, Monitor.trace_ok t -> Monitor.accepts t = true.
Proof. exact Monitor.monitor_complete. Qed.
Print Assumptions C03_monitor_complete.
