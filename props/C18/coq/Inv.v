(* C18 -- the invariant of DataColumnList under every history of Add calls, and its consequences:
   layout, lookup = recorded offset (also for the old columns through the NEW addends table and code
   parameter), Contains <-> added, refused additions change nothing, no fuel / assertion outcome. *)
From Coq Require Import ZArith Bool List Lia.
From MomoCommon Require Import GenPrelude.
From C18 Require Import Gen_Vertices Gen_Ceil Model Layout Fill Vertices.
Import ListNotations.
Local Open Scope Z_scope.

(* ---------- graph construction ---------- *)
Lemma in_add_edge g v1 v2 val v e :
  In e (add_edge g v1 v2 val v) <-> (v = v1 /\ e = (v2, val)) \/ In e (g v).
Proof.
  unfold add_edge. destruct (Z.eqb_spec v v1) as [->|Hne]; simpl; split.
  - intros [<-|H]; auto.
  - intros [[_ ->]|H]; auto.
  - auto.
  - intros [[E _]|H]; [contradiction|auto].
Qed.

Lemma in_add_edges g v1 v2 val v e :
  In e (add_edges g v1 v2 val v) <-> (v = v1 /\ e = (v2, val)) \/ (v = v2 /\ e = (v1, val)) \/ In e (g v).
Proof. unfold add_edges. rewrite !in_add_edge. tauto. Qed.

Lemma in_zrange n : forall s v, In v (zrange n s) <-> s <= v < s + Z.of_nat n.
Proof.
  induction n as [|n IH]; intros s v; cbn [zrange In].
  - lia.
  - rewrite IH. lia.
Qed.

Lemma length_zrange n : forall s, length (zrange n s) = n.
Proof. induction n; intros; simpl; auto. Qed.

Lemma record_eta r : mkrec (r_code r) (r_off r) (r_size r) (r_align r) = r.
Proof. destruct r; reflexivity. Qed.

Lemma mem_in x l : mem x l = true <-> In x l.
Proof.
  unfold mem. rewrite existsb_exists. split.
  - intros (y & Hy & E). apply Z.eqb_eq in E. subst; auto.
  - intros H. exists x. split; [auto|apply Z.eqb_refl].
Qed.

Lemma set_insert_in xs : forall l c, In c (set_insert l xs) <-> In c l \/ In c xs.
Proof.
  induction xs as [|x xs IH]; intros l c; cbn [set_insert].
  - simpl. tauto.
  - rewrite IH. destruct (mem x l) eqn:E.
    + apply mem_in in E. simpl. split; [intros [H|H]; auto|intros [H|[<-|H]]; auto].
    + simpl. tauto.
Qed.

Section WithL.
  Variable L : Z.
  Variable keep : bool.
  Hypothesis HL : 4 <= L <= 15.

  Definition edge_of (cp : Z) (r : crec) (v : Z) (e : Z * Z) : Prop :=
    (v = fst (GetVertices L (r_code r) cp) /\ e = (snd (GetVertices L (r_code r) cp), r_off r)) \/
    (v = snd (GetVertices L (r_code r) cp) /\ e = (fst (GetVertices L (r_code r) cp), r_off r)).

  Lemma in_old_edges cp cs : forall g v e,
    In e (old_edges L cp g cs v) <-> In e (g v) \/ exists r, In r cs /\ edge_of cp r v e.
  Proof.
    induction cs as [|c cs IH]; intros g v e; cbn [old_edges].
    - split; [auto|]. intros [H|(r & [] & _)]; auto.
    - destruct (GetVertices L (r_code c) cp) as [v1 v2] eqn:Ev.
      rewrite IH, in_add_edges. split.
      + intros [[H|[H|H]]|(r & Hr & He)].
        * right. exists c. split; [left; auto|]. left. rewrite Ev. exact H.
        * right. exists c. split; [left; auto|]. right. rewrite Ev. exact H.
        * auto.
        * right. exists r. split; [right; auto|auto].
      + intros [H|(r & [<-|Hr] & He)].
        * auto.
        * left. unfold edge_of in He. rewrite Ev in He. simpl in He. tauto.
        * right. exists r. auto.
  Qed.

  Lemma old_edges_app cp a : forall g b, old_edges L cp g (a ++ b) = old_edges L cp (old_edges L cp g a) b.
  Proof.
    induction a as [|c a IH]; intros g b; cbn [old_edges app]; [reflexivity|].
    destruct (GetVertices L (r_code c) cp). apply IH.
  Qed.

  Lemma pow_L : 16 <= 2 ^ L <= 2 ^ 15.
  Proof.
    split; [change 16 with (2 ^ 4)|]; apply Z.pow_le_mono_r; lia.
  Qed.

  Lemma vertexCount_eq : vertexCount L = 2 ^ L.
  Proof. unfold vertexCount. apply Z.shiftl_1_l. Qed.

  Lemma maxColumnCount_le : 0 < maxColumnCount L <= 2 ^ 14.
  Proof.
    unfold maxColumnCount. rewrite Z.shiftl_1_l. split; [apply Z.pow_pos_nonneg; lia|].
    apply Z.pow_le_mono_r; lia.
  Qed.

  Lemma in_vertices v : In v (vertices L) <-> 0 <= v < 2 ^ L.
  Proof.
    unfold vertices. rewrite in_zrange, vertexCount_eq. pose proof pow_L. rewrite Z2Nat.id by lia. lia.
  Qed.

  Lemma vertices_in_range code cp : 0 <= cp <= 255 ->
    In (fst (GetVertices L code cp)) (vertices L) /\ In (snd (GetVertices L code cp)) (vertices L).
  Proof.
    intros Hcp. rewrite !in_vertices. unfold GetVertices.
    destruct (GetVertices_range L code cp HL Hcp) as (H1 & H2 & _). auto.
  Qed.

  Definition Bsz : Z := 2 ^ 47.

  (* success of the DFS on the graph of a list of records means every record is found at its offset *)
  Lemma graph_lookup cp rs : 0 <= cp <= 255 -> (forall r, In r rs -> 0 <= r_off r <= Bsz) ->
    exists b a, fill_all (dfs_fuel L) (old_edges L cp g_empty rs) (vertices L) (fun _ => 0) = Some (b, a) /\
      (b = true -> forall r, In r rs -> lookup L cp a (r_code r) = Some (r_off r)).
  Proof.
    intros Hcp Hoffs. pose proof pow_L as PL.
    set (G := old_edges L cp g_empty rs).
    assert (Hg : forall v v2 val, In (v2, val) (G v) -> In v2 (vertices L) /\ 0 <= val <= Bsz).
    { intros v v2 val H. unfold G in H. apply in_old_edges in H. destruct H as [H|(r & Hr & He)]; [exact (False_ind _ H)|].
      destruct (vertices_in_range (r_code r) cp Hcp) as (I1 & I2).
      destruct He as [(_ & E)|(_ & E)]; injection E as -> ->; auto. }
    assert (HF : Z.of_nat (dfs_fuel L) = 2 ^ L + 1).
    { unfold dfs_fuel. rewrite Nat2Z.inj_succ, vertexCount_eq, Z2Nat.id; lia. }
    destruct (fill_all_spec G (vertices L) Bsz (Z.of_nat (dfs_fuel L)) Hg) with (f0 := dfs_fuel L) (vs := vertices L) (a := fun _ : Z => 0)
      as (b & a & E & _ & _ & Hok).
    - unfold Bsz; lia.
    - rewrite HF. unfold Bsz. nia.
    - reflexivity.
    - unfold vertices, dfs_fuel. rewrite length_zrange. lia.
    - intros w Hw. contradiction.
    - intros w Hw. contradiction.
    - exists b, a. split; [exact E|]. intros Hb r Hr.
      destruct (Hok Hb) as (_ & Hall).
      destruct (vertices_in_range (r_code r) cp Hcp) as (I1 & I2).
      assert (He : In (snd (GetVertices L (r_code r) cp), r_off r) (G (fst (GetVertices L (r_code r) cp)))).
      { unfold G. apply in_old_edges. right. exists r. split; [auto|]. left. auto. }
      destruct (Hall _ I1 _ He) as (N1 & N2 & Es). clear He I1 I2.
      unfold lookup. destruct (GetVertices L (r_code r) cp) as [v1 v2]. cbn [fst snd] in *.
      destruct (Z.eqb_spec (a v1) 0); [contradiction|]. destruct (Z.eqb_spec (a v2) 0); [contradiction|].
      simpl. rewrite Es. reflexivity.
  Qed.

  Lemma add_columns_id cp a rs : (forall r, In r rs -> lookup L cp a (r_code r) = Some (r_off r)) ->
    add_columns L cp a rs = Some rs.
  Proof.
    induction rs as [|r rs IH]; intros H; cbn [add_columns]; [reflexivity|].
    rewrite (H r (or_introl eq_refl)). rewrite IH by (intros; apply H; right; auto).
    rewrite record_eta. reflexivity.
  Qed.

  (* ---------- the invariant ---------- *)
  Definition slot : Z := rowNumberSize keep.

  Record Inv (st : state) : Prop := {
    inv_cp : 0 <= codeParam st <= 255;
    inv_chain : chain slot (columns st) (totalSize st);
    inv_bound : totalSize st <= slot + Z.of_nat (length (columns st)) * (maxItemSize + 16);
    inv_count : Z.of_nat (length (columns st)) <= maxColumnCount L;
    inv_al : pow2_le16 (alignment st);
    inv_recs : Forall rec_ok (columns st);
    inv_aldiv : Forall (fun r => (r_align r | alignment st)) (columns st);
    inv_lookup : forall r, In r (columns st) -> get_offset L st (r_code r) = Some (r_off r);
    inv_set : forall c, In c (codeSet st) <-> In c (map r_code (columns st)) }.

  Lemma slot_range : 0 <= slot <= 8.
  Proof. unfold slot, rowNumberSize. destruct keep; lia. Qed.

  Lemma inv_init : Inv (init keep).
  Proof.
    pose proof slot_range. pose proof maxColumnCount_le.
    constructor; simpl; try lia; auto; try (unfold slot; lia); try (unfold pow2_le16; auto);
      try (intros r []); try tauto.
  Qed.

  Definition group_ok (cs : list col) : Prop := Forall col_ok cs /\ Z.of_nat (length cs) < 2 ^ 32.

  Lemma size_arith n k t : 0 <= n -> 0 <= k -> n + k <= 2 ^ 14 -> 0 <= t <= 8 + n * (maxItemSize + 16) ->
    t + k * (maxItemSize + 16) <= 2 ^ 63 /\ 8 + (n + k) * (maxItemSize + 16) <= Bsz.
  Proof. unfold maxItemSize, Bsz. intros. nia. Qed.

  Lemma try_param_spec st cp cs : Inv st -> Forall col_ok cs -> 0 <= cp <= 255 ->
    Z.of_nat (length cs) + Z.of_nat (length (columns st)) <= maxColumnCount L ->
    exists b a off al rs, try_param L st cp cs = Some (b, a, off, al, rs) /\
      layout (totalSize st) (alignment st) cs = (off, al, rs) /\
      (b = true -> forall r, In r (columns st ++ rs) -> lookup L cp a (r_code r) = Some (r_off r)).
  Proof.
    intros I Hcs Hcp Hcount. destruct I.
    pose proof slot_range as Hs. pose proof maxColumnCount_le as Hm.
    pose proof (chain_le _ _ _ inv_chain0) as Hts.
    destruct (size_arith (Z.of_nat (length (columns st))) (Z.of_nat (length cs)) (totalSize st)) as (A1 & A2); try lia.
    unfold try_param. rewrite new_edges_layout.
    destruct (layout (totalSize st) (alignment st) cs) as [[off al] rs] eqn:El.
    assert (Hts0 : 0 <= totalSize st) by (clear - Hs Hts; lia).
    destruct (layout_spec _ _ _ _ _ _ Hcs Hts0 A1 inv_al0 El) as (Hch & Hb & _).
    rewrite <- old_edges_app.
    destruct (graph_lookup cp (columns st ++ rs) Hcp) as (b & a & E & Hok).
    { assert (T1 : totalSize st <= Bsz /\ off <= Bsz).
      { clear - Hb A2 inv_bound0 Hs Hcount Hm. unfold maxItemSize, Bsz in *. nia. }
      intros r Hr. apply in_app_or in Hr. destruct Hr as [Hr|Hr].
      - destruct (chain_in _ _ _ _ inv_chain0 Hr) as (Q1 & Q2 & _ & Q3). clear - Q1 Q2 Q3 T1 Hs Hts0. lia.
      - destruct (chain_in _ _ _ _ Hch Hr) as (Q1 & Q2 & _ & Q3). clear - Q1 Q2 Q3 T1 Hs Hts0. lia. }
    rewrite E. exists b, a, off, al, rs. auto.
  Qed.

  (* the retry loop: tries codeParam, codeParam+1, ... 255; never runs out of fuel *)
  Lemma search_spec st cs : Inv st -> Forall col_ok cs ->
    Z.of_nat (length cs) + Z.of_nat (length (columns st)) <= maxColumnCount L ->
    forall n cp, 0 <= cp <= 255 -> (255 - cp < Z.of_nat n) ->
    (exists cp' a off al rs, search L n st cp cs = Found cp' a off al rs /\ cp <= cp' <= 255 /\
        try_param L st cp' cs = Some (true, a, off, al, rs) /\
        (forall c, cp <= c < cp' -> exists a1 o1 l1 r1, try_param L st c cs = Some (false, a1, o1, l1, r1))) \/
    (search L n st cp cs = CannotAdd /\
        (forall c, cp <= c <= 255 -> exists a1 o1 l1 r1, try_param L st c cs = Some (false, a1, o1, l1, r1))).
  Proof.
    intros I Hcs Hcount. induction n as [|n IH]; intros cp Hcp Hn; [lia|].
    cbn [search].
    destruct (try_param_spec st cp cs I Hcs Hcp Hcount) as (b & a & off & al & rs & E & _).
    rewrite E. destruct b.
    - left. exists cp, a, off, al, rs. repeat split; auto; try lia.
    - rewrite wrapU_small by lia. unfold maxCodeParam.
      destruct (Z.gtb_spec (cp + 1) 255) as [Hgt|Hle].
      + right. split; [reflexivity|]. intros c Hc. assert (c = cp) by lia. subst c. eauto.
      + destruct (IH (cp + 1)) as [(cp' & a' & off' & al' & rs' & Es & Hr & Et & Hf)|(Es & Hf)]; try lia.
        * left. exists cp', a', off', al', rs'. repeat split; auto; try lia.
          intros c Hc. destruct (Z.eq_dec c cp) as [->|]; [eauto|apply Hf; lia].
        * right. split; [exact Es|]. intros c Hc. destruct (Z.eq_dec c cp) as [->|]; [eauto|apply Hf; lia].
  Qed.

  (* ---------- one Add ---------- *)
  Theorem add_spec st cs : Inv st -> group_ok cs ->
    match add L st cs with
    | Added st' =>
        Inv st' /\
        (exists rs, columns st' = columns st ++ rs /\ map r_code rs = map c_code cs /\
                    map r_size rs = map c_size cs /\ map r_align rs = map c_align cs /\
                    chain (totalSize st) rs (totalSize st')) /\
        totalSize st <= totalSize st' /\ alignment st <= alignment st' /\ codeParam st <= codeParam st'
    | TooMany => maxColumnCount L < Z.of_nat (length cs) + Z.of_nat (length (columns st))
    | Refused => forall cp, codeParam st <= cp <= 255 ->
                   exists a1 o1 l1 r1, try_param L st cp cs = Some (false, a1, o1, l1, r1)
    | OutOfFuel => False
    | AssertFails => False
    end.
  Proof.
    intros I (Hcs & Hlen). pose proof maxColumnCount_le as Hm. pose proof slot_range as Hs.
    unfold add.
    assert (Hc0 : Z.of_nat (length (columns st)) <= 2 ^ 14) by (destruct I; lia).
    rewrite wrapU_small by lia.
    destruct (Z.gtb_spec (Z.of_nat (length cs) + Z.of_nat (length (columns st))) (maxColumnCount L)) as [Hgt|Hle]; [lia|].
    destruct (search_spec st cs I Hcs Hle 257%nat (codeParam st) (inv_cp _ I) ltac:(destruct I; lia))
      as [(cp' & a & off & al & rs & Es & Hr & Et & _)|(Es & Hf)]; rewrite Es; [|exact Hf].
    destruct (try_param_spec st cp' cs I Hcs ltac:(pose proof (inv_cp _ I); lia) Hle) as (b & a' & off' & al' & rs' & Et' & El & Hok).
    rewrite Et in Et'. injection Et' as <- <- <- <- <-.
    specialize (Hok eq_refl).
    rewrite add_columns_id by (intros r Hr'; apply Hok; apply in_or_app; right; auto).
    destruct I.
    pose proof (chain_le _ _ _ inv_chain0) as Hts.
    destruct (size_arith (Z.of_nat (length (columns st))) (Z.of_nat (length cs)) (totalSize st)) as (A1 & A2); try lia.
    assert (Hts0 : 0 <= totalSize st) by (clear - Hs Hts; lia).
    destruct (layout_spec _ _ _ _ _ _ Hcs Hts0 A1 inv_al0 El) as (Hch & Hb & Hal & Hpal & Hrecs & Hral & Hm1 & Hm2 & Hm3).
    assert (Hlenrs : length rs = length cs).
    { rewrite <- (map_length r_code rs), Hm1, map_length. reflexivity. }
    split; [|split; [|split; [|split]]].
    - constructor; cbn [codeParam addends totalSize alignment codeSet columns].
      + lia.
      + eapply chain_app; eauto.
      + rewrite app_length, Nat2Z.inj_add, Hlenrs. lia.
      + rewrite app_length, Nat2Z.inj_add, Hlenrs. lia.
      + exact Hpal.
      + apply Forall_app; auto.
      + apply Forall_app. split.
        * rewrite Forall_forall in *. intros r Hr'. apply pow2_le16_divide; auto.
          -- destruct (inv_recs0 r Hr') as (_ & _ & Hp & _). exact Hp.
          -- pose proof (inv_aldiv0 r Hr') as Hd. apply Z.divide_pos_le in Hd; [lia|].
             apply pow2_le16_range in inv_al0. lia.
        * rewrite Forall_forall in *. intros r Hr'. apply pow2_le16_divide; auto.
          destruct (Hrecs r Hr') as (_ & _ & Hp & _). exact Hp.
      + intros r Hr'. unfold get_offset; cbn [codeParam addends]. apply Hok; auto.
      + intros c. rewrite set_insert_in, map_app, in_app_iff, inv_set0, Hm1. tauto.
    - exists rs. cbn [columns totalSize]. auto.
    - cbn [totalSize]. apply chain_le in Hch. lia.
    - cbn [alignment]. lia.
    - cbn [codeParam]. lia.
  Qed.

  (* a refused addition leaves the list as it was; an accepted one is the only way the state changes *)
  Lemma refused_unchanged st cs : (forall st', add L st cs <> Added st') -> after st (add L st cs) = st.
  Proof. intros H. destruct (add L st cs); try reflexivity. exfalso. eapply H; eauto. Qed.

  Lemma after_inv st cs : Inv st -> group_ok cs -> Inv (after st (add L st cs)).
  Proof.
    intros I Hcs. pose proof (add_spec st cs I Hcs) as H.
    destruct (add L st cs); simpl; auto. tauto.
  Qed.

  (* every reachable state satisfies the invariant *)
  Theorem run_inv ops : Forall group_ok ops -> Inv (run L keep ops).
  Proof.
    unfold run. generalize (init keep) inv_init.
    induction ops as [|cs ops IH]; intros st I Hops; simpl; [exact I|].
    inversion Hops; subst. apply IH; auto. apply after_inv; auto.
  Qed.

  (* columns of a reachable state are a prefix-extension of the earlier state's columns *)
  Lemma after_prefix st cs : Inv st -> group_ok cs ->
    exists rs, columns (after st (add L st cs)) = columns st ++ rs.
  Proof.
    intros I Hcs. pose proof (add_spec st cs I Hcs) as H.
    destruct (add L st cs); simpl; try (exists []; rewrite app_nil_r; reflexivity).
    destruct H as (_ & (rs & E & _) & _). eauto.
  Qed.

  (* ---------- consequences of the invariant ---------- *)
  (* two records of the list never have the same code: each column has its own slot *)
  Lemma inv_codes_distinct st i j ri rj : Inv st -> (i < j)%nat ->
    nth_error (columns st) i = Some ri -> nth_error (columns st) j = Some rj -> r_code ri <> r_code rj.
  Proof.
    intros I Hij Hi Hj E. destruct I.
    pose proof (chain_disjoint _ _ _ _ _ _ _ inv_chain0 Hij Hi Hj) as Hd.
    pose proof (inv_lookup0 ri (nth_error_In _ _ Hi)) as L1.
    pose proof (inv_lookup0 rj (nth_error_In _ _ Hj)) as L2.
    rewrite E in L1. rewrite L1 in L2. injection L2 as E2.
    destruct (chain_in _ _ _ _ inv_chain0 (nth_error_In _ _ Hi)) as (_ & _ & _ & Hsz).
    rewrite E2 in Hd. clear - Hd Hsz. lia.
  Qed.

  (* Contains answers true exactly for the added columns, and its resOffset is the column's offset *)
  Theorem contains_iff st code off : Inv st ->
    (contains L st code = Some off <-> exists r, In r (columns st) /\ r_code r = code /\ r_off r = off).
  Proof.
    intros I. destruct I. unfold contains. split.
    - destruct (GetVertices L code (codeParam st)) as [v1 v2] eqn:Ev.
      destruct (Z.eqb (addends st v1) 0 || Z.eqb (addends st v2) 0) eqn:Ez; [discriminate|].
      destruct (mem code (codeSet st)) eqn:Em; simpl; [|discriminate].
      intros Eo. apply mem_in in Em. apply inv_set0 in Em. apply in_map_iff in Em.
      destruct Em as (r & Ec & Hr). exists r. repeat split; auto.
      pose proof (inv_lookup0 r Hr) as Lk. unfold get_offset, lookup in Lk. rewrite Ec, Ev in Lk.
      destruct (negb (Z.eqb (addends st v1) 0) && negb (Z.eqb (addends st v2) 0)); [|discriminate].
      congruence.
    - intros (r & Hr & Ec & Eo).
      pose proof (inv_lookup0 r Hr) as Lk. unfold get_offset, lookup in Lk. rewrite Ec in Lk.
      destruct (GetVertices L code (codeParam st)) as [v1 v2].
      destruct (Z.eqb (addends st v1) 0); simpl in *; [discriminate|].
      destruct (Z.eqb (addends st v2) 0); simpl in *; [discriminate|].
      assert (Em : mem code (codeSet st) = true).
      { apply mem_in. apply inv_set0. apply in_map_iff. exists r. auto. }
      rewrite Em. simpl. congruence.
  Qed.

  Corollary contains_none_iff st code : Inv st ->
    (contains L st code = None <-> ~ In code (map r_code (columns st))).
  Proof.
    intros I. split.
    - intros En Hin. apply in_map_iff in Hin. destruct Hin as (r & Ec & Hr).
      assert (contains L st code = Some (r_off r)) by (apply contains_iff; eauto).
      congruence.
    - intros Hn. destruct (contains L st code) as [off|] eqn:E; [|reflexivity].
      apply contains_iff in E; auto. destruct E as (r & Hr & Ec & _).
      exfalso. apply Hn. apply in_map_iff. eauto.
  Qed.
End WithL.
