(* C04 -- the statement language of the AST facts (props/C04/astfacts04.py writes Gen_C04Facts.v in this vocabulary; the vocabulary is the
   one of props/C03/coq/GenPrimsC03.v restricted to what catch blocks contain) *)
From Coq Require Import List String.
Import ListNotations.

Inductive cstmt :=
| SCall (f : string)                       (* f(...) on the object itself *)
| SCallOn (obj f : string)                 (* obj.f(...) / obj->f(...) *)
| SCallArgs (f : string) (args : list string)   (* f(args) with the argument paths; also ("<", [a; b]) = loop condition, ("++", [..]) = loop increments *)
| SNull (fld : string)                     (* fld = nullptr *)
| SAssign (l r : string)
| SSwap (fld : string)
| SDecl (v how : string)                   (* T v = how(...) / T v(...) ("ctor") *)
| SRethrow | SReturn | SIf | STry | SLoop
| SOther (kind : string).
