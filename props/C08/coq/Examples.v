(* C08 -- non-vacuity: concrete reachable states exercising the hypotheses of the theorems (by computation). *)
From Coq Require Import ZArith List Bool Permutation.
From C08 Require Import ArrayBucketModel MultiMapModel WrapperModel.
Import ListNotations.
Local Open Scope Z_scope.

(* maxFastCount = 2: three adds go null -> pool 1 -> pool 2 -> heap(4); removing down to zero leaves a value-less key
   which the pair traversal skips; the key is gone only after RemoveKey *)
Definition hist1 : list op :=
  [OAdd 1 10 5; OAdd 1 11 6; OAddAt 1 7; OAdd 2 20 8; OInsertKey 3 30; ORemove 1 0; ORemove 1 0; ORemove 1 0].

Lemma ex_history_heap_then_valueless :
  let s := run 2 hist1 in
  abs (fst (fst s)) 1 = Some (10, []) /\ get_count (fst s) = 1 /\ get_key_count (fst s) = 3 /\
  traverse (fst s) = [(2, 8)] /\
  fst (earr (match find 1 (fst (fst (run 2 (firstn 3 hist1)))) with Some e => e | None => mkE 0 0 ab_null end)) = RHeap 4 3 /\
  abs (fst (step1 2 (fst s) (ORemoveKey 1))) 1 = None.
Proof. vm_compute. repeat split; reflexivity. Qed.

(* swap-with-last order is observable: removing index 0 of [5;6;7] gives [7;6] *)
Lemma ex_swap_remove_order : swap_remove 0 [5; 6; 7] = [7; 6] /\ rm_if Z.even [2; 4; 5; 6; 7] = [7; 5].
Proof. vm_compute. split; reflexivity. Qed.

(* heap array shrink: capacity 14 (maxFastCount 7), old count 3 <= 14/4 -> Shrink(6) *)
Lemma ex_shrink : remove_back (RHeap 14 3) = RHeap 6 2 /\ remove_back (RHeap 14 4) = RHeap 14 3.
Proof. vm_compute. split; reflexivity. Qed.

(* wrapper: erase_if leaves key 1 without values; == ignores it (the defect repaired by 7146119 compared key counts) *)
Definition wl : mm := w_erase_if 7 (w_insert 7 (w_insert 7 mm_empty 0 4) 1 5) (fun _ v => Z.odd v).
Definition wr : mm := w_insert 7 mm_empty 0 4.
Lemma ex_eq_ignores_valueless_keys :
  get_key_count wl = 2 /\ get_key_count wr = 1 /\ w_eq wl wr = true /\ w_eq wr wl = true /\
  w_count wl 1 = O /\ w_equal_range wl 1 = [].
Proof. vm_compute. repeat split; reflexivity. Qed.

(* wrapper erase(first,last): the equal_range of the FIRST key (whose `last` may be end()) removes only that key;
   a range starting in the middle of a key throws (both were wrong before 8a385f6) *)
Definition w3 : mm := w_insert 7 (w_insert 7 (w_insert 7 mm_empty 0 4) 0 5) 0 6.
Lemma ex_erase_range :
  (match w_erase_range 7 w3 0 3 with ErOk m => pairs m | ErThrow => [(9, 9)] end) = [] /\
  (match w_erase_range 7 w3 1 3 with ErOk _ => false | ErThrow => true end) = true /\
  (match w_erase_range 7 (w_insert 7 w3 1 7) 0 3 with ErOk m => pairs m | ErThrow => [] end) = [(1, 7)] /\
  (match w_erase_range 7 w3 1 2 with ErOk m => pairs m | ErThrow => [] end) = [(0, 4); (0, 6)].
Proof. vm_compute. repeat split; reflexivity. Qed.

(* keys with identity: same equivalence class 0 but different key objects (tags 1 / 2) -> not equal, although the
   (class, value) pairs coincide; equal tags -> equal *)
Definition kl : mm := step1 7 mm_empty (OAdd 0 1 4).
Definition kr : mm := step1 7 mm_empty (OAdd 0 2 4).
Lemma ex_eq_sees_key_identity : w_eq kl kr = false /\ pairs kl = pairs kr /\ w_eq kl kl = true.
Proof. vm_compute. repeat split; reflexivity. Qed.

(* failures: RemoveKey whose mHashMap.Remove throws is rolled back; Add to a full heap array whose growth allocation
   fails leaves everything as it was; a failed Shrink is swallowed and keeps the capacity *)
Definition mf : mm := fst (run 2 [OAdd 1 10 5; OAdd 1 11 6; OAddAt 1 7; OAddAt 1 8; OAdd 2 20 9]).
Lemma ex_failures :
  step1f 2 mf (ORemoveKey 1) [true] = (mf, true, []) /\
  step1f 2 mf (OAdd 1 0 99) [true] = (mf, true, []) /\
  fst (fst (step1f 2 mf (OAdd 1 0 99) [false])) = step1 2 mf (OAdd 1 0 99) /\
  remove_back_f (RHeap 16 4) [true] = (RHeap 16 3, []) /\ remove_back_f (RHeap 16 4) [false] = (RHeap 8 3, []).
Proof. vm_compute. repeat split; reflexivity. Qed.
