(* C14, last round (hand-written): the internal-capacity instantiation of Array::Data (ArrayIntCap<4, int>), generated as
   Gen_ArrayDataIC, and its refinement to the internalCapacity = 0 instantiation Gen_ArrayData.
   mInternalAddr / data_mInternalAddr are read-only ghost fields: the addresses of the two objects' internal buffers
   (`&mInternalItems`); ItemTraits::Relocate / Destroy (element effects) are skipped. *)
From Coq Require Import ZArith Bool List Lia.
From MomoCommon Require Import GenPrelude.
From C14 Require Gen_ArrayData Gen_ArrayDataIC.
Local Open Scope Z_scope.

(* abstraction to the capacity-0 variant: the internal buffer is "no block" *)
Definition absI (items addr : Z) : Z := if Z.eqb items addr then 0 else items.
Definition absC (items cap addr : Z) : Z := if Z.eqb items addr then 0 else cap.
(* invariant of an object: a heap block (items <> internal buffer) has capacity > internalCapacity *)
Definition ic_inv (items cap addr : Z) : Prop := items <> addr -> cap > 4.

(* source holds a heap block: the target takes manager + block + count + capacity, the source falls back to ITS internal
   buffer with count 0; the target's old block (if it had one) is released through the target's OLD manager *)
Theorem gen_arrayic_move_assign_external :
  forall m i n c dm di dn dc fv ia da, di <> da ->
    Gen_ArrayDataIC.MoveAssign false m i n c dm di dn dc fv ia da =
      (dm, di, dn, dc, da, 0, if Z.gtb (if Z.eqb i ia then 4 else c) 4 then m else fv).
Proof.
  intros. unfold Gen_ArrayDataIC.MoveAssign, Gen_ArrayDataIC.pvInitMove, Gen_ArrayDataIC.pvInit0, Gen_ArrayDataIC.pvDestroy,
    Gen_ArrayDataIC.pvDeallocate, Gen_ArrayDataIC.GetCapacity, Gen_ArrayDataIC.pvIsInternal, Gen_ArrayDataIC.internalCapacity.
  cbn [negb]. destruct (Z.eqb_spec di da); [contradiction|]. reflexivity.
Qed.

(* source uses its internal buffer: NO pointer is taken -- the target uses its OWN internal buffer (the elements are relocated
   into it), takes the manager and the count; the source keeps its buffer with count 0 *)
Theorem gen_arrayic_move_assign_internal :
  forall m i n c dm dn dc fv ia da,
    Gen_ArrayDataIC.MoveAssign false m i n c dm da dn dc fv ia da =
      (dm, ia, dn, c, da, 0, if Z.gtb (if Z.eqb i ia then 4 else c) 4 then m else fv).
Proof.
  intros. unfold Gen_ArrayDataIC.MoveAssign, Gen_ArrayDataIC.pvInitMove, Gen_ArrayDataIC.pvInit0, Gen_ArrayDataIC.pvDestroy,
    Gen_ArrayDataIC.pvDeallocate, Gen_ArrayDataIC.GetCapacity, Gen_ArrayDataIC.pvIsInternal, Gen_ArrayDataIC.internalCapacity.
  cbn [negb]. rewrite Z.eqb_refl. reflexivity.
Qed.

Theorem gen_arrayic_same_object :
  forall m i n c dm di dn dc fv ia da,
    Gen_ArrayDataIC.MoveAssign true m i n c dm di dn dc fv ia da = (m, i, n, c, di, dn, fv).
Proof. reflexivity. Qed.

Theorem gen_arrayic_move_ctor_clear :
  (forall jm ji jn jc dm di dn dc fv ia da, di <> da ->
     Gen_ArrayDataIC.MoveCtor jm ji jn jc dm di dn dc fv ia da = (dm, di, dn, dc, da, 0)) /\
  (forall jm ji jn jc dm dn dc fv ia da,
     Gen_ArrayDataIC.MoveCtor jm ji jn jc dm da dn dc fv ia da = (dm, ia, dn, jc, da, 0)) /\
  (forall m i n c dm di dn dc fv ia da,
     Gen_ArrayDataIC.Clear m i n c dm di dn dc fv ia da = (ia, 0, if Z.gtb (if Z.eqb i ia then 4 else c) 4 then m else fv)).
Proof.
  split; [|split]; intros; unfold Gen_ArrayDataIC.MoveCtor, Gen_ArrayDataIC.Clear, Gen_ArrayDataIC.pvInitMove, Gen_ArrayDataIC.pvInit0,
    Gen_ArrayDataIC.pvDestroy, Gen_ArrayDataIC.pvDeallocate, Gen_ArrayDataIC.GetCapacity, Gen_ArrayDataIC.pvIsInternal,
    Gen_ArrayDataIC.internalCapacity.
  - destruct (Z.eqb_spec di da); [contradiction|]. reflexivity.
  - rewrite Z.eqb_refl. reflexivity.
  - reflexivity.
Qed.

(* REFINEMENT: under the abstraction "internal buffer = no block, capacity 0", the generated operator=(Data&&) of the
   internal-capacity instantiation is the generated operator= of the internalCapacity = 0 instantiation -- manager, block,
   count, capacity of the target, block and count of the source, and the manager the old block is released through.
   Hypotheses: both objects satisfy the invariant, and a heap block is not the target's internal buffer. *)
Theorem arrayic_refines_array0 :
  forall so m i n c dm di dn dc fv ia da,
    ic_inv i c ia -> ic_inv di dc da -> (di <> da -> di <> ia) ->
    let '(m', i', n', c', di', dn', fv') := Gen_ArrayDataIC.MoveAssign so m i n c dm di dn dc fv ia da in
    let '(gm, gi, gn, gc, gdi, gdn, gdc, gfv) :=
      Gen_ArrayData.MoveAssign so m (absI i ia) n (absC i c ia) dm (absI di da) dn (absC di dc da) fv in
    m' = gm /\ absI i' ia = gi /\ n' = gn /\ absC i' c' ia = gc /\ absI di' da = gdi /\ dn' = gdn /\ fv' = gfv.
Proof.
  intros so m i n c dm di dn dc fv ia da Hi Hd Hne.
  destruct so.
  - rewrite gen_arrayic_same_object. cbv beta iota zeta delta [Gen_ArrayData.MoveAssign negb]. repeat split.
  - assert (FV : (if Z.gtb (if Z.eqb i ia then 4 else c) 4 then m else fv) = (if Z.gtb (absC i c ia) 0 then m else fv)).
    { unfold absC. destruct (Z.eqb_spec i ia) as [E|E]; [reflexivity|]. specialize (Hi E).
      destruct (Z.gtb_spec c 4); [|lia]. destruct (Z.gtb_spec c 0); [reflexivity|lia]. }
    destruct (Z.eqb_spec di da) as [E|E].
    + subst di. rewrite gen_arrayic_move_assign_internal. rewrite FV.
      unfold Gen_ArrayData.MoveAssign, Gen_ArrayData.pvInitMove, Gen_ArrayData.pvInit0, Gen_ArrayData.pvDestroy, Gen_ArrayData.pvDeallocate,
        Gen_ArrayData.GetCapacity, Gen_ArrayData.pvIsInternal, Gen_ArrayData.internalCapacity.
      cbn [negb]. unfold absI, absC. rewrite !Z.eqb_refl. repeat split.
    + rewrite (gen_arrayic_move_assign_external m i n c dm di dn dc fv ia da E). rewrite FV.
      unfold Gen_ArrayData.MoveAssign, Gen_ArrayData.pvInitMove, Gen_ArrayData.pvInit0, Gen_ArrayData.pvDestroy, Gen_ArrayData.pvDeallocate,
        Gen_ArrayData.GetCapacity, Gen_ArrayData.pvIsInternal, Gen_ArrayData.internalCapacity.
      cbn [negb]. unfold absI, absC. rewrite Z.eqb_refl.
      destruct (Z.eqb_spec di da) as [E2|_]; [contradiction|].
      destruct (Z.eqb_spec di ia) as [E3|_]; [exfalso; exact (Hne E E3)|]. repeat split.
Qed.

(* the hypotheses are satisfiable and the internal case is not vacuous *)
Theorem arrayic_refinement_nonvacuous :
  ic_inv 100 9 7 /\ ic_inv 7 0 7 /\
  Gen_ArrayDataIC.MoveAssign false 1 100 3 9 2 8 2 0 (-1) 7 8 = (2, 7, 2, 9, 8, 0, 1).
Proof. repeat split; unfold ic_inv; intros; try lia. Qed.
