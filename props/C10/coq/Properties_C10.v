(* Property C10 -- theorems only.  Each is closed by `exact <lemma>` and followed by Print Assumptions.
   The model (Machine.v, Merge.v, ArrayShift.v) is executable Gallina; its extraction is run against the real
   momo code on every check (props/C10/harness.cpp vs ocaml/driver.ml). *)
From Coq Require Import ZArith List Permutation.
From C10 Require Import Machine Merge MergeProofs.
Import ListNotations.
Local Open Scope Z_scope.

(* HashSet::pvMergeTo (HashSet.h:1302-1313) into a unique- or multi-key destination: for EVERY failure schedule
   (hash / comparison, allocation, copy), every element category, every bucket layout of the source and every
   destination, after ANY number n of loop iterations -- hence also in the state left behind by an exception thrown
   part-way and in the final state -- the items of the source plus the items of the destination are exactly the
   initial items (as multisets): nothing is lost, nothing is duplicated. *)
Theorem C10_merge_conservation_hash :
  forall c multi src dst w n,
    Permutation (src_items (hrun c multi n (hinit src dst w)) ++ s_dst (hrun c multi n (hinit src dst w)))
                (concat src ++ dst).
Proof. exact hmerge_conservation. Qed.
Print Assumptions C10_merge_conservation_hash.

(* a unique-key destination never contains two items with the same key, at every step, for every schedule *)
Theorem C10_merge_unique_nodup_hash :
  forall c src dst w n, NoDup (map key dst) -> NoDup (map key (s_dst (hrun c false n (hinit src dst w)))).
Proof. exact hmerge_unique_nodup. Qed.
Print Assumptions C10_merge_unique_nodup_hash.

(* an element refused by a unique-key destination (its key is already there) stays in the source, at every step *)
Theorem C10_merge_refused_stays_hash :
  forall c src dst w n y, In y (concat src) -> has_key dst (key y) = true ->
    In y (src_items (hrun c false n (hinit src dst w))).
Proof. exact hmerge_refused_stays. Qed.
Print Assumptions C10_merge_refused_stays_hash.

(* no_copy_when_movable: for a category that has a move constructor (NTM, SMH, THM: nothrow_reloc) the event trace
   of the whole merge contains no copy construction and no copy assignment, for every schedule *)
Theorem C10_no_copy_when_movable_hash :
  forall c multi src dst w n, nothrow_reloc c = true -> no_copy (tr w) ->
    no_copy (tr (s_w (hrun c multi n (hinit src dst w)))).
Proof. exact hmerge_no_copy. Qed.
Print Assumptions C10_no_copy_when_movable_hash.
