#!/bin/bash
cd /verif
run() {
  d=$(mktemp -d); cp -r /repo/include $d/
  cp evidence/C12.json $d/ev_keep.json 2>/dev/null; ls replays > $d/replays_before.txt 2>/dev/null   # a mutant run must not leave evidence / replays behind
  python3 - "$d/include/momo/$2" "$3" "$4" <<'PY'
import sys
p,old,new=sys.argv[1:4]
s=open(p).read()
assert s.count(old)==1,(s.count(old))
open(p,'w').write(s.replace(old,new))
PY
  echo "=== $1"; VERIF_REPO=$d timeout 3000 ./check C12 > build/C12/mut_$1.log 2>&1; echo "exit=$?"
  grep -E "BROKEN|VIOLATION|done:" build/C12/mut_$1.log | cut -c1-230
  cp build/C12/coq_make.log build/C12/coq_make_$1.log 2>/dev/null
  cp $d/ev_keep.json evidence/C12.json 2>/dev/null; for r in $(ls replays | grep '^C12-'); do grep -qx "$r" $d/replays_before.txt || rm -f replays/$r; done
  rm -rf $d
}
run H1 details/HashBucketLimP4.h "				if (memPoolIndex != maxCount)
					memPoolIndex = minMemPoolIndex;" "				if (memPoolIndex == maxCount)
					memPoolIndex = minMemPoolIndex;"
run H2 details/HashBucketLimP4.h "			mPtrState[1] = static_cast<uint16_t>(intPtr >> 16);" "			mPtrState[1] = static_cast<uint16_t>(intPtr >> 8);"
run H3 details/HashBucketLimP4.h "				pvDeallocate<true>(params, pvGetMemPoolIndex(), items);
			pvSetEmpty(minMemPoolIndex);" "				pvDeallocate<true>(params, pvGetMemPoolIndex(), items);
			pvSetEmpty(maxCount);"
python3 /verif/props/C12/regen_clean.py   # leave the clean translation in the shared coq directory
