(* C11 (last rounds; hand-written) -- the iterator machine: the statements of HashSetConstIterator::pvInc and ::pvMove are read off
   the clang AST on every run (props/C11/astfacts.py -> Gen_RelocFacts.iter_inc_stmts / iter_move_stmts) and INTERPRETED here on the
   model's iterator state: mBuckets = the head of the chain `gs` the iterator stands on (GetNextBuckets = its tail), the bucket
   index, and the bucket iterator as the offset `pos` from GetBounds().GetBegin() (pos = GetCount() is GetEnd()).
     pvInc : `if (bucketIter != bounds(bucketIndex).GetBegin()) ptReset(bucketIndex, prev(bucketIter)); else pvMove();`
     pvMove: `while (true) { ++bucketIndex; if (bucketIndex >= bucketCount) break; bounds = bounds(bucketIndex);
              if (bounds.GetCount() > 0) { ptReset(bucketIndex, prev(bounds.GetEnd())); return; } }
              nextBuckets = mBuckets->GetNextBuckets();
              if (nextBuckets != nullptr) { mBuckets = nextBuckets; ptReset(0, bounds(0).GetEnd()); return pvInc(); }
              this = HashSetConstIterator();`
   The mutual recursion is well-founded because pvMove calls pvInc only after mBuckets has moved to the next table: the
   interpreter accepts `return pvInc()` only in that situation (otherwise None).  The loop gets bucketCount units of fuel, like the
   hand model's move_loop; it cannot run out (one bucket index per iteration), and running out is treated as `break` as there.
   Theorems: the interpretation of the CURRENT source equals the hand model's pv_move and pv_inc on every state.  Hence
   operator++ in Remove(filter), the traversal theorems and Remove(iter)'s re-positioning rest on the interpreted source. *)
From Coq Require Import ZArith List String Bool Arith Lia.
From C11 Require Import GrowModel RelocSyntax.
From C11 Require Gen_RelocFacts.
Import ListNotations.
Local Open Scope string_scope.

Definition sq (a b : string) : bool := if string_dec a b then true else false.

(* statements of the loop body of pvMove *)
Inductive lact : Type := LIncIndex | LBreakIfOut | LBindBounds | LReturnIfItems | LUnknown.
Definition lact_of (c : cstmt) : lact :=
  match c with
  | SExpr e => if sq e "++bucketIndex" then LIncIndex else LUnknown
  | SIfThen c [b] => if sq c "bucketIndex >= bucketCount" && sq b "break" then LBreakIfOut else LUnknown
  | SDecl n i => if sq n "bounds" && sq i "pvGetBucketBounds(bucketIndex)" then LBindBounds else LUnknown
  | SIfThen c [a; b] => if sq c "bounds.GetCount() > 0" && sq a "ptReset(bucketIndex, prev(bounds.GetEnd(), default))" && sq b "return"
                        then LReturnIfItems else LUnknown
  | _ => LUnknown
  end.

(* statements executed when nextBuckets != nullptr *)
Inductive sact : Type := SSwitch | SResetEnd0 | SReturnInc | SUnknown.
Definition sact_of (s : string) : sact :=
  if sq s "mBuckets = nextBuckets" then SSwitch
  else if sq s "ptReset(0, pvGetBucketBounds(0).GetEnd())" then SResetEnd0
  else if sq s "return pvInc()" then SReturnInc else SUnknown.

Section Iter.
  Variable B : Type.
  Variable b0 : B.
  Variable wf0 : bool.
  Let iterB := iter B.
  Let cnt_of (t : table B) (bi : nat) : nat := bcnt B b0 wf0 t bi.

  (* ---------- pvInc ---------- *)
  Definition interp_inc (stmts : list cstmt) (move : nat -> option iterB) (gs : list (table B)) (bi pos : nat) : option iterB :=
    match stmts with
    | [SDecl n1 i1; SDecl n2 i2; SIfElse c [t] [e]] =>
        if sq n1 "bucketIter" && sq i1 "ptGetBucketIterator()" && sq n2 "bucketIndex" && sq i2 "ptGetBucketIndex()" &&
           sq c "bucketIter != pvGetBucketBounds(bucketIndex).GetBegin()" &&
           sq t "ptReset(bucketIndex, prev(bucketIter, default))" && sq e "pvMove()" then
          match pos with
          | S p' => Some (IAt B gs bi p')            (* bucketIter != begin: step back inside the bucket *)
          | O => move bi                             (* pvMove() *)
          end
        else None
    | _ => None
    end.

  (* ---------- the loop of pvMove ---------- *)
  Inductive lres : Type := LCont (bi : nat) | LBreak (bi : nat) | LRet (bi pos : nat) | LBad.

  (* one pass over the body: bucket index, whether `bounds` is bound to the bucket with that index *)
  Fixpoint body_pass (t : table B) (acts : list lact) (bi : nat) (bound : bool) : lres :=
    match acts with
    | [] => LCont bi
    | a :: r =>
        match a with
        | LIncIndex => body_pass t r (S bi) false
        | LBreakIfOut => if (Z.to_nat (bcount B t) <=? bi)%nat then LBreak bi else body_pass t r bi bound
        | LBindBounds => body_pass t r bi true
        | LReturnIfItems => if negb bound then LBad
                            else match cnt_of t bi with
                                 | S p => LRet bi p              (* ptReset(bucketIndex, prev(bounds.GetEnd())); return *)
                                 | O => body_pass t r bi bound
                                 end
        | LUnknown => LBad
        end
    end.

  Fixpoint loop (fuel : nat) (t : table B) (acts : list lact) (bi : nat) : lres :=
    match fuel with
    | O => LBreak bi
    | S fu => match body_pass t acts bi false with
              | LCont bi' => loop fu t acts bi'
              | r => r
              end
    end.

  (* ---------- the `if (nextBuckets != nullptr) { ... }` block ---------- *)
  (* state: has mBuckets been switched to the next table; position (bi, pos) if reset on the new table *)
  Fixpoint switch_block (acts : list sact) (t2 : table B) (inc_next : nat -> nat -> option iterB)
      (switched : bool) (posn : option (nat * nat)) : option (option iterB) :=      (* Some None = fell through the block *)
    match acts with
    | [] => Some None
    | a :: r =>
        match a with
        | SSwitch => switch_block r t2 inc_next true posn
        | SResetEnd0 => if switched then switch_block r t2 inc_next switched (Some (O, cnt_of t2 O)) else None
        | SReturnInc => match switched, posn with
                        | true, Some (bi, pos) => match inc_next bi pos with Some it => Some (Some it) | None => None end
                        | _, _ => None
                        end
        | SUnknown => None
        end
    end.

  (* ---------- pvMove ---------- *)
  Fixpoint interp_move (incs moves : list cstmt) (gs : list (table B)) (bi0 : nat) : option iterB :=
    match gs with
    | [] => Some (IEnd B)
    | t :: rest =>
        match moves with
        | [SDecl n1 i1; SDecl n2 i2; SWhile c body; SDecl n3 i3; SIfThen c2 blk; SExpr fin] =>
            if sq n1 "bucketCount" && sq i1 "mBuckets.GetCount()" && sq n2 "bucketIndex" && sq i2 "ptGetBucketIndex()" &&
               sq c "true" && sq n3 "nextBuckets" && sq i3 "mBuckets.GetNextBuckets()" && sq c2 "nextBuckets != nullptr" &&
               sq fin "operator=(*this, new_HashSetConstIterator())" then
              match loop (Z.to_nat (bcount B t)) t (map lact_of body) bi0 with
              | LRet bi pos => Some (IAt B gs bi pos)
              | LBreak _ =>
                  match rest with
                  | [] => Some (IEnd B)                                  (* nextBuckets == nullptr: this = end iterator *)
                  | t2 :: _ =>
                      match switch_block (map sact_of blk) t2
                              (fun bi pos => interp_inc incs (fun b => interp_move incs moves rest b) rest bi pos) false None with
                      | Some (Some it) => Some it
                      | Some None => Some (IEnd B)
                      | None => None
                      end
                  end
              | _ => None
              end
            else None
        | _ => None
        end
    end.

  (* ---------- the interpreted source IS the hand model ---------- *)
  Definition src_inc := Gen_RelocFacts.iter_inc_stmts.
  Definition src_move := Gen_RelocFacts.iter_move_stmts.
  Definition src_loop_acts : list lact := [LIncIndex; LBreakIfOut; LBindBounds; LReturnIfItems].

  Lemma loop_is_move_loop : forall fuel t bi,
    loop fuel t src_loop_acts bi =
      match move_loop B b0 wf0 fuel t bi with
      | Some (bi', p) => LRet bi' p
      | None => match loop fuel t src_loop_acts bi with LBreak b => LBreak b | _ => LBad end
      end.
  Proof.
    induction fuel as [|fu IH]; intros t bi; cbn [loop move_loop]; [reflexivity|].
    unfold src_loop_acts at 1 3. cbn [body_pass negb].
    destruct (Z.to_nat (bcount B t) <=? S bi)%nat; [reflexivity|].
    unfold cnt_of. destruct (bcnt B b0 wf0 t (S bi)) as [|p]; [|reflexivity].
    fold src_loop_acts. apply IH.
  Qed.

  Lemma loop_none_breaks : forall fuel t bi, move_loop B b0 wf0 fuel t bi = None -> exists b, loop fuel t src_loop_acts bi = LBreak b.
  Proof.
    induction fuel as [|fu IH]; intros t bi H; cbn [loop move_loop] in *; [eexists; reflexivity|].
    unfold src_loop_acts at 1. cbn [body_pass negb].
    destruct (Z.to_nat (bcount B t) <=? S bi)%nat; [eexists; reflexivity|].
    unfold cnt_of. destruct (bcnt B b0 wf0 t (S bi)) as [|p]; [|discriminate].
    fold src_loop_acts. apply IH. exact H.
  Qed.

  Theorem pv_move_is_interpreted_source : forall gs bi,
    interp_move src_inc src_move gs bi = Some (pv_move B b0 wf0 gs bi).
  Proof.
    induction gs as [|t rest IH]; intros bi; [reflexivity|].
    cbn [pv_move].
    change (interp_move src_inc src_move (t :: rest) bi) with
      (match loop (Z.to_nat (bcount B t)) t src_loop_acts bi with
       | LRet bi' pos => Some (IAt B (t :: rest) bi' pos)
       | LBreak _ =>
           match rest with
           | [] => Some (IEnd B)
           | t2 :: _ =>
               match (match (match cnt_of t2 O with
                             | S p' => Some (IAt B rest O p')
                             | O => interp_move src_inc src_move rest O
                             end) with Some it => Some (Some it) | None => None end) with
               | Some (Some it) => Some it
               | Some None => Some (IEnd B)
               | None => None
               end
           end
       | _ => None
       end).
    rewrite loop_is_move_loop.
    destruct (move_loop B b0 wf0 (Z.to_nat (bcount B t)) t bi) as [[bi' p]|] eqn:EM; [reflexivity|].
    destruct (loop_none_breaks _ _ _ EM) as (b & Eb). rewrite Eb.
    destruct rest as [|t2 r2]; [reflexivity|].
    unfold cnt_of. destruct (bcnt B b0 wf0 t2 0) as [|p']; [|reflexivity].
    rewrite IH. reflexivity.
  Qed.

  Theorem pv_inc_is_interpreted_source : forall gs bi p,
    interp_inc src_inc (fun b => interp_move src_inc src_move gs b) gs bi p = Some (pv_inc B b0 wf0 gs bi p).
  Proof.
    intros gs bi p.
    change (interp_inc src_inc (fun b => interp_move src_inc src_move gs b) gs bi p) with
      (match p with S p' => Some (IAt B gs bi p') | O => interp_move src_inc src_move gs bi end).
    destruct p as [|p']; [|reflexivity]. cbn [pv_inc]. apply pv_move_is_interpreted_source.
  Qed.

  (* ---------- HashSet::GetBegin + the protected constructor HashSetConstIterator(buckets, bucketIndex, bucketIter, version) ---------- *)
  Fixpoint lsq (a b : list string) : bool :=
    match a, b with [], [] => true | x :: r, y :: q => sq x y && lsq r q | _, _ => false end.

  Definition interp_begin (gb ctor_body : list cstmt) (ctor_inits : list string) (s : hset B) : option iterB :=
    match gb, ctor_body with
    | [SIfThen c [r1]; SReturn r2], [SExpr cb] =>
        if sq c "mCount == 0" && sq r1 "return new_ConstIterator()" &&
           sq r2 "ctor(new_ConstIteratorProxy(*mBuckets, 0, mBuckets.GetBegin().GetBounds(mBuckets.GetBucketParams()).GetEnd(), mCrew.GetVersion()))" &&
           lsq ctor_inits ["ctor(bucketIndex, bucketIter, version)"; "&buckets"] && sq cb "pvInc()" then
          if (count B s =? 0)%Z then Some (IEnd B)                         (* return ConstIterator() *)
          else match gens B s with
               | [] => Some (IEnd B)
               | t :: _ =>                                                  (* iterator(mBuckets, 0, bounds(0).GetEnd()); pvInc() in the ctor *)
                   interp_inc src_inc (fun b => interp_move src_inc src_move (gens B s) b) (gens B s) O (cnt_of t O)
               end
        else None
    | _, _ => None
    end.

  Theorem it_begin_is_interpreted_source : forall s,
    interp_begin Gen_RelocFacts.get_begin_stmts Gen_RelocFacts.iter_ctor_stmts Gen_RelocFacts.iter_ctor_inits s = Some (it_begin B b0 wf0 s).
  Proof.
    intros s. unfold it_begin.
    change (interp_begin Gen_RelocFacts.get_begin_stmts Gen_RelocFacts.iter_ctor_stmts Gen_RelocFacts.iter_ctor_inits s) with
      (if (count B s =? 0)%Z then Some (IEnd B)
       else match gens B s with
            | [] => Some (IEnd B)
            | t :: _ => interp_inc src_inc (fun b => interp_move src_inc src_move (gens B s) b) (gens B s) O (cnt_of t O)
            end).
    destruct (count B s =? 0)%Z; [reflexivity|].
    destruct (gens B s) as [|t r] eqn:EG; [reflexivity|].
    rewrite pv_inc_is_interpreted_source. unfold cnt_of, pv_inc. destruct (bcnt B b0 wf0 t 0); reflexivity.
  Qed.

  (* operator++ of the model (it_next) through the interpreted pvInc *)
  Theorem it_next_is_interpreted_source : forall gs bi p,
    Some (it_next B b0 wf0 (IAt B gs bi p)) = interp_inc src_inc (fun b => interp_move src_inc src_move gs b) gs bi p.
  Proof. intros. rewrite pv_inc_is_interpreted_source. reflexivity. Qed.
End Iter.
