(* C12, L1 model of the relocation glue for BucketLimP4 over the GENERATED leaves (hand-written; tied by running it against
   the real HashSet<.., HashBucketLimP4<>>: `tp4` cases).  Linear probing; pvFind walks on only while WasFull().
   Hand parts: the probe loop of pvAddNogrow, the loops of pvRelocateItems, P4_Model.p4_add (metadata of AddCrt) and the
   memory-pool index kept in the pointer's state bits (pvGetMemPoolIndex / WasFull): AddCrt keeps it when the bucket has
   no memory (pvAdd0), increments it when count == memPoolIndex (pvAdd<k>), Remove of the last element resets it to
   minMemPoolIndex unless it is maxCount (HashBucketLimP4.h:308-390). *)
From Coq Require Import ZArith Bool List Lia.
From MomoCommon Require Import GenPrelude.
From C12 Require Import Gen_Base Gen_P4 P4_Model.
Import ListNotations.
Local Open Scope Z_scope.

(* ps = mShortHashes, pmpi = pvGetMemPoolIndex(), pky = key per slot, ppr = GHOST: displacement with which the element of
   each slot was inserted (not part of the implementation state; used by the invariant only) *)
Record pbucket := mkP { ps : Z -> Z; pmpi : Z; pky : Z -> Z; ppr : Z -> Z }.
Definition ptable := Z -> pbucket.
Definition ptupd (t : ptable) (i : Z) (b : pbucket) : ptable := fun j => if Z.eqb j i then b else t j.

Section P4Tbl.
Variables (H mm : Z).          (* hashCount, minMemPoolIndex *)
Variable hash : Z -> Z.

Definition pempty_bucket : pbucket := mkP (Gen_P4.pvSetEmpty H (fun _ => 0) 0) mm (fun _ => 0) (fun _ => 0).
Definition pempty_table : ptable := fun _ => pempty_bucket.
Definition pcnt (b : pbucket) : Z := Gen_P4.pvGetCount (ps b).
Definition was_full (b : pbucket) : bool := pmpi b =? Gen_P4.maxCount.       (* WasFull() *)

Fixpoint pprobe_loop (fuel : nat) (t : ptable) (bc idx probe : Z) {struct fuel} : outcome (Z * Z) :=
  match fuel with
  | O => Fuel
  | S f =>
    if Gen_P4.IsFull (ps (t idx)) then
      let probe := wrapU 64 (probe + 1) in
      if probe >=? bc then Exn
      else pprobe_loop f t bc (Gen_P4.GetNextBucketIndex idx bc) probe
    else Ok (idx, probe)
  end.

Definition padd_nogrow (t : ptable) (L code key : Z) : outcome ptable :=
  let bc := wrapU 64 (Z.shiftl 1 L) in
  let start := Gen_Base.GetStartBucketIndex code bc in
  match pprobe_loop (S (Z.to_nat bc)) t bc start 0 with
  | Ok (idx, probe) =>
    let b := t idx in let c := pcnt b in
    match p4_add H (ps b) code L probe with
    | Ok s' =>
      let mpi' := if c =? 0 then pmpi b else if c =? pmpi b then pmpi b + 1 else pmpi b in
      Ok (ptupd t idx (mkP s' mpi' (upd (pky b) c key) (upd (ppr b) c probe)))
    | Stuck => Stuck | Fuel => Fuel | Exn => Exn
    end
  | Stuck => Stuck | Fuel => Fuel | Exn => Exn
  end.

(* bucket.Remove(iter) for the element at index idx: generated metadata part + key / memPoolIndex bookkeeping *)
Definition premove_at (t : ptable) (b idx : Z) : outcome ptable :=
  let bk := t b in let c := pcnt bk in
  match Gen_P4.Remove H mm (ps bk) (8 + idx) 8 (pmpi bk) idx with
  | Ok (_, s') =>
    let mpi' := if c =? 1 then (if pmpi bk =? Gen_P4.maxCount then pmpi bk else mm) else pmpi bk in
    Ok (ptupd t b (mkP s' mpi' (upd (pky bk) idx (pky bk (c - 1))) (upd (ppr bk) idx (ppr bk (c - 1)))))
  | Stuck => Stuck | Fuel => Fuel | Exn => Exn
  end.

(* one iteration of pvRelocateItems' inner loop: the LAST element (index count-1) of bucket i *)
Definition prelocate_item (told tnew : ptable) (L newL i : Z) : outcome (ptable * ptable) :=
  let b := told i in
  let idx := pcnt b - 1 in
  let key := pky b idx in
  let code := Gen_P4.GetHashCodePart H (ps b) (hash key) i L newL 8 idx in
  match padd_nogrow tnew newL code key with
  | Ok tnew' => match premove_at told i idx with
                | Ok told' => Ok (told', tnew')
                | Stuck => Stuck | Fuel => Fuel | Exn => Exn
                end
  | Stuck => Stuck | Fuel => Fuel | Exn => Exn
  end.

Definition pgetter_used (b : pbucket) (i L newL idx : Z) : bool :=
  negb (Gen_P4.GetHashCodePart H (ps b) 0 i L newL 8 idx =? Gen_P4.GetHashCodePart H (ps b) 1 i L newL 8 idx).

Fixpoint pmigrate_bucket (fuel : nat) (told tnew : ptable) (L newL i calls : Z) {struct fuel} : outcome (ptable * ptable * Z) :=
  match fuel with
  | O => Fuel
  | S f =>
    if pcnt (told i) =? 0 then Ok (told, tnew, calls)
    else
      let used := pgetter_used (told i) i L newL (pcnt (told i) - 1) in
      match prelocate_item told tnew L newL i with
      | Ok (told', tnew') => pmigrate_bucket f told' tnew' L newL i (if used then calls + 1 else calls)
      | Stuck => Stuck | Fuel => Fuel | Exn => Exn
      end
  end.

Fixpoint pmigrate_from (n : nat) (told tnew : ptable) (L newL i calls : Z) {struct n} : outcome (ptable * ptable * Z) :=
  match n with
  | O => Ok (told, tnew, calls)
  | S m => match pmigrate_bucket 5 told tnew L newL i calls with
           | Ok (told', tnew', calls') => pmigrate_from m told' tnew' L newL (i + 1) calls'
           | Stuck => Stuck | Fuel => Fuel | Exn => Exn
           end
  end.

Definition pmigrate (told : ptable) (L newL : Z) : outcome (ptable * ptable * Z) :=
  pmigrate_from (Z.to_nat (2 ^ L)) told pempty_table L newL 0 0.

(* budgeted variants: the full getter throws at call number budget+1 (see TableO2.migrate_bucket_c) *)
Fixpoint pmigrate_bucket_c (fuel : nat) (told tnew : ptable) (L newL i budget calls : Z) {struct fuel}
  : outcome (ptable * ptable * Z * bool) :=
  match fuel with
  | O => Fuel
  | S f =>
    if pcnt (told i) =? 0 then Ok (told, tnew, calls, false)
    else
      let used := pgetter_used (told i) i L newL (pcnt (told i) - 1) in
      if used && (budget <=? calls) then Ok (told, tnew, calls, true)
      else match prelocate_item told tnew L newL i with
           | Ok (told', tnew') => pmigrate_bucket_c f told' tnew' L newL i budget (if used then calls + 1 else calls)
           | Stuck => Stuck | Fuel => Fuel | Exn => Exn
           end
  end.

Fixpoint pmigrate_from_c (n : nat) (told tnew : ptable) (L newL i budget calls : Z) {struct n}
  : outcome (ptable * ptable * Z * bool) :=
  match n with
  | O => Ok (told, tnew, calls, false)
  | S m => match pmigrate_bucket_c 5 told tnew L newL i budget calls with
           | Ok (told', tnew', calls', thrown) =>
               if thrown then Ok (told', tnew', calls', true)
               else pmigrate_from_c m told' tnew' L newL (i + 1) budget calls'
           | Stuck => Stuck | Fuel => Fuel | Exn => Exn
           end
  end.

Fixpoint pmigrate_gens (gens : list (ptable * Z)) (tnew : ptable) (newL budget calls : Z)
  : outcome (list (ptable * Z) * ptable * Z * bool) :=
  match gens with
  | [] => Ok ([], tnew, calls, false)
  | (told, L) :: r =>
    match pmigrate_from_c (Z.to_nat (2 ^ L)) told tnew L newL 0 budget calls with
    | Ok (told', tnew', calls', thrown) =>
        if thrown then Ok ((told', L) :: r, tnew', calls', true)
        else match pmigrate_gens r tnew' newL budget calls' with
             | Ok (r', t2, c2, th2) => Ok (r', t2, c2, th2)
             | Stuck => Stuck | Fuel => Fuel | Exn => Exn
             end
    | Stuck => Stuck | Fuel => Fuel | Exn => Exn
    end
  end.

(* ---- HashSet::pvFind over the GENERATED BucketLimP4::Find / GetNextBucketIndex / BucketBase::GetMaxProbe; WasFull by hand ----
   the generated Find returns items + i or the null pointer 0; items = 1 here, so r = i + 1 or 0 *)
Definition pbucket_find (b : pbucket) (key h : Z) : outcome Z :=
  Gen_P4.Find (ps b) (fun i => pky b i =? key) h 1.

Fixpoint pfind_loop (fuel : nat) (t : ptable) (bc idx probe maxProbe key h : Z) {struct fuel} : outcome (option (Z * Z)) :=
  match fuel with
  | O => Fuel
  | S f =>
    if was_full (t idx) && (probe <=? maxProbe) then
      let idx' := Gen_P4.GetNextBucketIndex idx bc in
      match pbucket_find (t idx') key h with
      | Ok r => if r =? 0 then pfind_loop f t bc idx' (wrapU 64 (probe + 1)) maxProbe key h else Ok (Some (idx', r - 1))
      | Stuck => Stuck | Fuel => Fuel | Exn => Exn
      end
    else Ok None
  end.

Definition pfind (t : ptable) (L key h : Z) : outcome (option (Z * Z)) :=
  let bc := wrapU 64 (Z.shiftl 1 L) in
  let start := Gen_Base.GetStartBucketIndex h bc in
  match pbucket_find (t start) key h with
  | Ok r =>
    (* the loop `for (probe = 1; WasFull() && probe <= maxProbe; ++probe)` runs at most maxProbe times: that is its fuel *)
    if r =? 0 then pfind_loop (S (Z.to_nat (Gen_Base.GetMaxProbe L))) t bc start 1 (Gen_Base.GetMaxProbe L) key h
    else Ok (Some (start, r - 1))
  | Stuck => Stuck | Fuel => Fuel | Exn => Exn
  end.

Fixpoint pinsert_all (t : ptable) (L : Z) (keys : list Z) : outcome ptable :=
  match keys with
  | [] => Ok t
  | k :: r => match padd_nogrow t L (hash k) k with Ok t' => pinsert_all t' L r | Stuck => Stuck | Fuel => Fuel | Exn => Exn end
  end.
End P4Tbl.

Fixpoint plocate_from (n : nat) (t : ptable) (i key : Z) : option (Z * Z) :=
  match n with
  | O => None
  | S m =>
    let b := t i in let c := Gen_P4.pvGetCount (ps b) in
    if (0 <? c) && (pky b 0 =? key) then Some (i, 0)
    else if (1 <? c) && (pky b 1 =? key) then Some (i, 1)
    else if (2 <? c) && (pky b 2 =? key) then Some (i, 2)
    else if (3 <? c) && (pky b 3 =? key) then Some (i, 3)
    else plocate_from m t (i + 1) key
  end.

Fixpoint pgrow_chain (H mm : Z) (hash : Z -> Z) (t : ptable) (L : Z) (Ls : list Z) : outcome (ptable * Z) :=
  match Ls with
  | [] => Ok (t, L)
  | newL :: r => match pmigrate H mm hash t L newL with
                 | Ok (_, tnew, _) => pgrow_chain H mm hash tnew newL r
                 | Stuck => Stuck | Fuel => Fuel | Exn => Exn
                 end
  end.

(* ---- HashSet::pvFind(key) across chained generations (HashSet.h:1040-1060): the newest table first, then GetNextBuckets() ... ----
   result: (generation index counted from the newest, bucket index, slot) *)
Fixpoint pfind_gens (gens : list (ptable * Z)) (key h : Z) : outcome (option (nat * Z * Z)) :=
  match gens with
  | [] => Ok None
  | (t, L) :: r =>
    match pfind t L key h with
    | Ok (Some (b, s)) => Ok (Some (O, b, s))
    | Ok None => match pfind_gens r key h with
                 | Ok (Some (g, b, s)) => Ok (Some (S g, b, s))
                 | Ok None => Ok None
                 | Stuck => Stuck | Fuel => Fuel | Exn => Exn
                 end
    | Stuck => Stuck | Fuel => Fuel | Exn => Exn
    end
  end.
