(* C02 (growth round 2) -- the decision prefix of TreeSet::pvRebalance(parentNode, index, savedNode) (everything before the
   Relocator is created: the three `return false` tests; the tail always returns true) translated by cxx2coq (Gen_Rebalance.v:
   parentNode->GetCount() and node1->GetCapacity() are section variables, node1 / node2 / itemCount1 / itemCount2 opaque
   locals = parameters), refined to the hand model's decision `try_merge` / `merge_children`. *)
From Coq Require Import ZArith Bool List Lia Arith.
From MomoCommon Require Import GenPrelude.
From C02 Require Import Gen_Rebalance BTreeModel.
Import ListNotations.

(* the hand model's decision, read off try_merge / merge_children *)
Definition merge_decide (parCount i : nat) (isSaved : bool) (cap1 c1 c2 : nat) : bool :=
  negb ((i =? 0) || (parCount <? i)) && negb isSaved && negb (cap1 <? c1 + c2 + 1).

Theorem rebalance_decision_refines parCount i cap1 c1 c2 (pn sv p1 p2 : Z) :
  (parCount <= 255)%nat -> (c1 <= 255)%nat -> (c2 <= 255)%nat ->
  Gen_Rebalance.pvRebalance_decide (Z.of_nat parCount) (Z.of_nat cap1) pn (Z.of_nat i) sv p1 p2 (Z.of_nat c1) (Z.of_nat c2) =
  merge_decide parCount i (Z.eqb p2 sv) cap1 c1 c2.
Proof.
  intros H1 H2 H3. unfold Gen_Rebalance.pvRebalance_decide, merge_decide.
  rewrite !(wrapU_small 64) by (change (2 ^ 64)%Z with 18446744073709551616%Z;
    try (rewrite (wrapU_small 64) by (change (2 ^ 64)%Z with 18446744073709551616%Z; lia)); lia).
  destruct (Nat.eqb_spec i 0) as [E|E].
  - subst i. reflexivity.
  - replace (Z.of_nat i =? 0)%Z with false by (symmetry; apply Z.eqb_neq; lia). cbn [orb].
    destruct (Nat.ltb_spec parCount i) as [L|L].
    + replace (Z.of_nat i >? Z.of_nat parCount)%Z with true by (symmetry; apply Z.gtb_lt; lia). reflexivity.
    + replace (Z.of_nat i >? Z.of_nat parCount)%Z with false by (symmetry; rewrite Z.gtb_ltb; apply Z.ltb_ge; lia). cbn [negb andb].
      destruct (p2 =? sv)%Z; [reflexivity|]. cbn [negb andb].
      destruct (Nat.ltb_spec cap1 (c1 + c2 + 1)) as [M|M].
      * replace (Z.of_nat c1 + Z.of_nat c2 + 1 >? Z.of_nat cap1)%Z with true by (symmetry; apply Z.gtb_lt; lia). reflexivity.
      * replace (Z.of_nat c1 + Z.of_nat c2 + 1 >? Z.of_nat cap1)%Z with false by (symmetry; rewrite Z.gtb_ltb; apply Z.ltb_ge; lia). reflexivity.
Qed.

(* the hand model merges exactly when the decision says so *)
Theorem try_merge_iff_decision r pp i sp par n1 n2 sep :
  node_at pp r = Some par ->
  nth_error (n_children par) (i - 1) = Some n1 -> nth_error (n_children par) i = Some n2 -> nth_error (n_items par) (i - 1) = Some sep ->
  (exists res, try_merge r pp i sp = Some res) <->
  merge_decide (n_count par) i (list_eqb (pp ++ [i]) sp) (n_cap n1) (n_count n1) (n_count n2) = true.
Proof.
  intros Hp E1 E2 E3. unfold try_merge, merge_decide. rewrite Hp.
  destruct ((i =? 0) || (n_count par <? i)); cbn [negb andb]; [split; [intros [? H]; discriminate | discriminate]|].
  destruct (list_eqb (pp ++ [i]) sp); cbn [negb andb]; [split; [intros [? H]; discriminate | discriminate]|].
  unfold merge_children. rewrite E1, E2, E3.
  destruct (n_cap n1 <? n_count n1 + n_count n2 + 1); cbn [negb]; [split; [intros [? H]; discriminate | discriminate]|].
  split; [reflexivity|]. intros _. eexists. reflexivity.
Qed.
