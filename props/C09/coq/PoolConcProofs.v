(* C09: proofs about the concrete pool model PoolConc.v - the per-buffer free chain (BufferBytes + next-free indexes stored
   in the free blocks), the release of buffers, and the free-block cache.  Universal step theorems (every state, every
   block); see NOTES.md for what is NOT proved (the whole-history invariant tying them together). *)
From Coq Require Import ZArith List Bool Lia.
From MomoCommon Require Import GenPrelude.
From C09 Require Import PoolConc.
Import ListNotations.
Local Open Scope Z_scope.

Lemma chain_walk_ext n : forall w w' b i,
  (forall j, In j (chain_walk n w b i) -> nx w' b j = nx w b j) -> chain_walk n w' b i = chain_walk n w b i.
Proof.
  induction n as [|n IH]; intros w w' b i H; simpl; [reflexivity|]. f_equal.
  rewrite (H i) by (simpl; auto). apply IH. intros j Hj. apply H. simpl. right. exact Hj.
Qed.

Lemma chain_walk_length n w b i : length (chain_walk n w b i) = n.
Proof. revert i. induction n; intros; simpl; auto. Qed.

(* freeBlockCount is the length of the chain *)
Lemma chain_of_length w b : 0 <= fc w b -> Z.of_nat (length (chain_of w b)) = fc w b.
Proof. intros H. unfold chain_of. rewrite chain_walk_length. lia. Qed.

(* pvNewBlock lines 531-534: taking the first free block removes exactly the head of the chain of that buffer and leaves
   every other buffer's chain alone *)
Theorem chain_take w b : 1 <= fc w b ->
  let w' := set_bytes w b (nx w b (fb w b)) (fc w b - 1) in
  chain_of w b = fb w b :: chain_of w' b /\ (forall b', b' <> b -> chain_of w' b' = chain_of w b').
Proof.
  intros H w'. split.
  - unfold chain_of, w'. simpl fc. simpl fb. rewrite !upd_same.
    replace (Z.to_nat (fc w b)) with (S (Z.to_nat (fc w b - 1))) by lia. simpl. f_equal.
    symmetry. apply chain_walk_ext. intros; reflexivity.
  - intros b' N. unfold chain_of, w'. simpl fc. simpl fb. rewrite !upd_other by assumption.
    apply chain_walk_ext. intros; reflexivity.
Qed.

(* pvDeleteBlock lines 549-553: pushing block j (not currently in the chain) makes it the new head of the chain of its
   buffer, followed by the old chain; every other buffer's chain is untouched.  In particular the freed block is the
   next one handed out from this buffer (chain_take). *)
Theorem chain_push w b j : 0 <= fc w b -> ~ In j (chain_of w b) ->
  let w' := set_bytes (set_nx w b j (fb w b)) b j (fc w b + 1) in
  chain_of w' b = j :: chain_of w b /\ (forall b', b' <> b -> chain_of w' b' = chain_of w b').
Proof.
  intros H Nin w'. split.
  - unfold chain_of, w'. simpl fc. simpl fb. rewrite !upd_same.
    replace (Z.to_nat (fc w b + 1)) with (S (Z.to_nat (fc w b))) by lia. simpl. f_equal.
    rewrite !Z.eqb_refl. simpl andb. cbv iota.
    apply chain_walk_ext. intros x Hx. simpl.
    destruct (Z.eqb_spec x j) as [E|]; [subst; contradiction|]. rewrite andb_false_r. reflexivity.
  - intros b' N. unfold chain_of, w'. simpl fc. simpl fb. rewrite !upd_other by assumption.
    apply chain_walk_ext. intros x Hx. simpl. destruct (Z.eqb_spec b' b); [congruence|]. reflexivity.
Qed.

Lemma upto_In n : forall i x, In x (upto n i) <-> i <= x < i + Z.of_nat n.
Proof.
  induction n as [|n IH]; intros i x; simpl; [lia|]. rewrite IH. lia.
Qed.

Lemma upto_NoDup n : forall i, NoDup (upto n i).
Proof. induction n as [|n IH]; intros i; simpl; constructor; auto. rewrite upto_In. lia. Qed.

(* pvNewBuffer: the chain of a new buffer is 0, 1, ..., C-1 (all blocks free, no repetition); other chains untouched *)
Theorem chain_new_buffer C w : 1 <= C ->
  let w' := fst (new_buffer C w) in let nb := snd (new_buffer C w) in
  nb = fresh w /\ chain_of w' nb = upto (Z.to_nat C) 0 /\ NoDup (chain_of w' nb) /\ fc w' nb = C /\
  (forall b, b <> nb -> chain_of w' b = chain_of w b /\ fc w' b = fc w b).
Proof.
  intros HC w' nb. unfold w', nb, new_buffer. simpl fst. simpl snd.
  assert (forall n i, 0 <= i -> i + Z.of_nat n <= C ->
            chain_walk n (mkCW (upd (fb w) (fresh w) 0) (upd (fc w) (fresh w) C)
              (fun b j => if b =? fresh w then if j =? C - 1 then NIL else j + 1 else nx w b j)
              (fresh w + 1) (returned w) (cp0 w) (cp1 w)) (fresh w) i = upto n i) as W.
  { induction n as [|n IH]; intros i Hi Hn; simpl; [reflexivity|]. f_equal. rewrite Z.eqb_refl.
    destruct n as [|n'].
    - reflexivity.
    - destruct (Z.eqb_spec i (C - 1)); [lia|]. apply IH; lia. }
  split; [reflexivity|].
  assert (chain_of (mkCW (upd (fb w) (fresh w) 0) (upd (fc w) (fresh w) C)
              (fun b j => if b =? fresh w then if j =? C - 1 then NIL else j + 1 else nx w b j)
              (fresh w + 1) (returned w) (cp0 w) (cp1 w)) (fresh w) = upto (Z.to_nat C) 0) as E.
  { unfold chain_of. simpl fc. simpl fb. rewrite !upd_same. apply W; lia. }
  split; [exact E|]. split; [rewrite E; apply upto_NoDup|]. split; [simpl; apply upd_same|].
  intros b N. split; [|simpl; apply upd_other; assumption].
  unfold chain_of. simpl fc. simpl fb. rewrite !upd_other by assumption.
  apply chain_walk_ext. intros x Hx. simpl. destruct (Z.eqb_spec b (fresh w)); [congruence|reflexivity].
Qed.

(* a chain without repetition whose length is blockCount and whose indexes are in range contains EVERY block of the buffer *)
Lemma full_chain_has_all C l : NoDup l -> (forall x, In x l -> 0 <= x < C) -> Z.of_nat (length l) = C ->
  forall j, 0 <= j < C -> In j l.
Proof.
  intros ND R L j Hj.
  assert (incl (upto (Z.to_nat C) 0) l) as I.
  { apply NoDup_length_incl; [exact ND| |].
    - assert (length (upto (Z.to_nat C) 0) = Z.to_nat C) as -> by (generalize 0; induction (Z.to_nat C); intros; simpl; auto). lia.
    - intros x Hx. apply upto_In. specialize (R x Hx). lia. }
  apply I. apply upto_In. lia.
Qed.

(* pvDeleteBlock returns a buffer to the memory manager only when the push made its freeBlockCount equal to blockCount ... *)
Lemma returned_setp w p x : returned (setp w p x) = returned w.
Proof. destruct p; reflexivity. Qed.
Lemma fc_setp w p x : fc (setp w p x) = fc w.
Proof. destruct p; reflexivity. Qed.

Theorem delete_returns_only_full C w p bk x :
  In x (returned (pvDeleteBlock C w p bk)) -> In x (returned w) \/ (x = fst bk /\ fc w x + 1 = C).
Proof.
  unfold pvDeleteBlock. cbv zeta. set (w1 := push w bk).
  set (w2 := if fc w1 (fst bk) =? 1 then move_head w1 p (fst bk) else w1).
  assert (returned w2 = returned w) as R.
  { unfold w2, move_head, set_lists. destruct (fc w1 (fst bk) =? 1); [rewrite returned_setp|]; reflexivity. }
  assert (fc w2 (fst bk) = fc w (fst bk) + 1) as F.
  { unfold w2, move_head, set_lists. destruct (fc w1 (fst bk) =? 1); [rewrite fc_setp|]; unfold w1, push; simpl; apply upd_same. }
  assert (forall b, returned (drop_head w2 p b) = b :: returned w2) as DH by (intros; unfold drop_head, set_lists; destruct p; reflexivity).
  assert (forall b, returned (drop_mid w2 p b) = b :: returned w2) as DM by (intros; unfold drop_mid, set_lists; destruct p; reflexivity).
  rewrite F. destruct (Z.eqb_spec (fc w (fst bk) + 1) C) as [E|E]; [|rewrite R; auto].
  destruct (fst bk =? hd0 (lfree (getp w2 p))).
  - destruct (hd0 (tl0 (lfree (getp w2 p))) =? 0); [rewrite R; auto|].
    rewrite DH, R. intros [H|H]; [right; subst; auto|left; exact H].
  - rewrite DM, R. intros [H|H]; [right; subst; auto|left; exact H].
Qed.

(* ... and then (chain without repetition, indexes in range) every block of that buffer is in its free chain: no block of a
   returned buffer can be live or cached, provided live/cached blocks are never in a chain *)
Theorem returned_buffer_all_free C w b j :
  let w' := set_bytes (set_nx w b j (fb w b)) b j (fc w b + 1) in
  0 <= fc w b -> ~ In j (chain_of w b) -> NoDup (chain_of w b) -> (forall x, In x (chain_of w b) -> 0 <= x < C) -> 0 <= j < C ->
  fc w b + 1 = C -> forall k, 0 <= k < C -> In k (chain_of w' b).
Proof.
  intros w' H0 Nin ND R Hj E k Hk.
  destruct (chain_push w b j H0 Nin) as (P & _). fold w' in P.
  apply (full_chain_has_all C); auto.
  - rewrite P. constructor; assumption.
  - intros x Hx. rewrite P in Hx. destruct Hx as [<-|Hx]; auto.
  - rewrite P. simpl length. rewrite Nat2Z.inj_succ. rewrite chain_of_length by assumption. lia.
Qed.

(* ---------- the free-block cache (308-325, 285-306, 459-468) ---------- *)
Lemma getp_setp w p x : getp (setp w p x) p = x.
Proof. destruct p; reflexivity. Qed.
Lemma lenz_nonneg {A} (l : list A) : 0 <= lenz l.
Proof. induction l; cbn [lenz]; lia. Qed.

(* LIFO: a block deallocated into the cache is the very next block Allocate returns *)
Theorem cache_lifo C CF w p bk : let w1 := Deallocate C CF true w p bk in snd (Allocate C true w1 p) = bk.
Proof.
  cbv zeta. unfold Deallocate. cbv zeta.
  set (w0 := if CF <=? lenz (cache (getp w p)) then flush C w p else w).
  unfold Allocate, set_cache, remove_live. rewrite !getp_setp. cbn [cache]. reflexivity.
Qed.

(* without the cache (pvUseCache false) or when Allocate finds the cache empty, a freed block is the next one taken from its
   buffer: push then take returns it *)
Theorem freed_block_available_again w b j : 0 <= fc w b -> ~ In j (chain_of w b) ->
  let w' := set_bytes (set_nx w b j (fb w b)) b j (fc w b + 1) in fb w' b = j /\ 1 <= fc w' b.
Proof. intros H N w'. unfold w'. simpl. rewrite !upd_same. lia. Qed.

(* ---------- all histories: the cache bound ---------- *)
Inductive cop :=
| CAlloc (p : bool) | CFree (p : bool) (bk : blk) | CIf (p : bool) (f : blk -> bool) | CAll (p : bool) | CMerge (d : bool).
Definition cstep (C CF : Z) (uc : bool) (w : cworld) (o : cop) : cworld :=
  match o with
  | CAlloc p => fst (Allocate C uc w p)
  | CFree p bk => Deallocate C CF uc w p bk
  | CIf p f => DeallocateIf C uc w p f
  | CAll p => DeallocateAll w p
  | CMerge d => MergeFrom C uc w d
  end.
Definition crun (C CF : Z) (uc : bool) (ops : list cop) : cworld := foldl (cstep C CF uc) ops empty_world.

Definition caches (w : cworld) : list blk * list blk := (cache (cp0 w), cache (cp1 w)).

Lemma caches_setp_same w p x : cache x = cache (getp w p) -> caches (setp w p x) = caches w.
Proof. destruct p; unfold caches; simpl; intros ->; reflexivity. Qed.
Lemma set_lists_caches w p a b : caches (set_lists w p a b) = caches w.
Proof. unfold set_lists. apply caches_setp_same. reflexivity. Qed.
Lemma attach_new_caches C w p : caches (attach_new C w p) = caches w.
Proof. unfold attach_new, new_buffer. rewrite set_lists_caches. reflexivity. Qed.
Lemma take_caches w p : caches (fst (take w p)) = caches w.
Proof. unfold take. cbv zeta. simpl fst. destruct (_ =? 0); [rewrite set_lists_caches|]; reflexivity. Qed.
Lemma pvNewBlock_caches C w p : caches (fst (pvNewBlock C w p)) = caches w.
Proof.
  unfold pvNewBlock. cbv zeta. rewrite take_caches.
  match goal with |- caches (if ?c then _ else _) = _ => destruct c end; [rewrite attach_new_caches|];
  (destruct (lfree (getp w p)); [apply attach_new_caches|reflexivity]).
Qed.
Lemma pvDeleteBlock_caches C w p bk : caches (pvDeleteBlock C w p bk) = caches w.
Proof.
  unfold pvDeleteBlock. cbv zeta. set (w1 := push w bk).
  set (w2 := if fc w1 (fst bk) =? 1 then move_head w1 p (fst bk) else w1).
  assert (caches w2 = caches w) as E.
  { unfold w2, move_head. destruct (fc w1 (fst bk) =? 1); [rewrite set_lists_caches|]; reflexivity. }
  assert (forall b, caches (drop_head w2 p b) = caches w2) as DH.
  { intros b. unfold drop_head. change (caches (set_lists w2 p (lfull (getp w2 p)) (tl0 (lfree (getp w2 p)))) = caches w2). apply set_lists_caches. }
  assert (forall b, caches (drop_mid w2 p b) = caches w2) as DM.
  { intros b. unfold drop_mid. change (caches (set_lists w2 p (removez b (lfull (getp w2 p))) (removez b (lfree (getp w2 p)))) = caches w2). apply set_lists_caches. }
  repeat match goal with |- context [if ?c then _ else _] => destruct c end; rewrite ?DH, ?DM; exact E.
Qed.

Lemma foldl_caches {B} (g : cworld -> B -> cworld) l : (forall w b, caches (g w b) = caches w) ->
  forall w, caches (foldl g l w) = caches w.
Proof. intros H. induction l as [|b t IH]; intros w; simpl; [reflexivity|]. rewrite IH. apply H. Qed.

Definition flushed (p : bool) (w : cworld) : list blk * list blk := if p then (cache (cp0 w), []) else ([], cache (cp1 w)).

Lemma set_cache_caches w p c : caches (set_cache w p c) = (if p then (cache (cp0 w), c) else (c, cache (cp1 w))).
Proof. unfold set_cache. destruct p; reflexivity. Qed.

Lemma flush_loop_caches C p : forall l w, cache (getp w p) = l -> caches (flush_loop C l w p) = flushed p w.
Proof.
  induction l as [|bk rest IH]; intros w E.
  - simpl. unfold flushed, caches. destruct p; simpl in *; rewrite E; reflexivity.
  - cbn [flush_loop]. rewrite IH.
    + unfold flushed. pose proof (pvDeleteBlock_caches C (set_cache w p rest) p bk) as K. rewrite set_cache_caches in K.
      unfold caches in K. destruct p; apply pair_equal_spec in K; destruct K as [K0 K1]; simpl in *; rewrite ?K0, ?K1; reflexivity.
    + pose proof (pvDeleteBlock_caches C (set_cache w p rest) p bk) as K. rewrite set_cache_caches in K.
      unfold caches in K. destruct p; apply pair_equal_spec in K; destruct K as [K0 K1]; simpl in *; assumption.
Qed.
Lemma flush_caches C w p : caches (flush C w p) = flushed p w.
Proof. unfold flush. apply flush_loop_caches. reflexivity. Qed.
Lemma flush_cache_empty C w p : cache (getp (flush C w p) p) = [].
Proof. pose proof (flush_caches C w p) as F. unfold caches, flushed in F. destruct p; apply pair_equal_spec in F; destruct F; simpl; assumption. Qed.

Definition bounded (CF : Z) (w : cworld) : Prop := lenz (cache (cp0 w)) <= CF /\ lenz (cache (cp1 w)) <= CF.

Lemma bounded_of_caches CF w w' : caches w' = caches w -> bounded CF w -> bounded CF w'.
Proof. unfold caches, bounded. intros E. apply pair_equal_spec in E. destruct E as [E0 E1]. rewrite E0, E1. auto. Qed.

Lemma remove_live_caches w p bk : caches (remove_live w p bk) = caches w.
Proof. unfold remove_live. apply caches_setp_same. reflexivity. Qed.
Lemma add_live_caches w p bk : caches (add_live w p bk) = caches w.
Proof. unfold add_live. apply caches_setp_same. reflexivity. Qed.

Lemma pvDeleteBlocks_caches C f w p b : caches (pvDeleteBlocks C f w p b) = caches w.
Proof.
  unfold pvDeleteBlocks. apply foldl_caches. intros w0 i.
  destruct (memz i (chain_of w b)); [reflexivity|]. destruct (f (b, i)); [|reflexivity].
  rewrite pvDeleteBlock_caches. apply remove_live_caches.
Qed.

Lemma bounded_flushed CF p w : 0 <= CF -> bounded CF w -> forall w', caches w' = flushed p w -> bounded CF w'.
Proof.
  intros H0 (B0 & B1) w' E. unfold caches, flushed in E. unfold bounded.
  destruct p; apply pair_equal_spec in E; destruct E as [E0 E1]; rewrite E0, E1; cbn [lenz]; lia.
Qed.

Lemma cstep_bounded C CF uc w o : 1 <= CF -> bounded CF w -> bounded CF (cstep C CF uc w o).
Proof.
  intros H1 Bd. destruct o as [p|p bk|p f|p|d]; simpl.
  - (* Allocate *)
    unfold Allocate. destruct (cache (getp w p)) as [|bk rest] eqn:E.
    + cbv zeta. destruct (pvNewBlock C w p) as [w1 b1] eqn:N. simpl fst.
      eapply bounded_of_caches; [|exact Bd]. rewrite add_live_caches.
      change w1 with (fst (w1, b1)). rewrite <- N. apply pvNewBlock_caches.
    + destruct uc.
      * cbv zeta. simpl fst. unfold bounded in *.
        pose proof (add_live_caches (set_cache w p rest) p bk) as K. rewrite set_cache_caches in K. unfold caches in K.
        pose proof (lenz_nonneg rest).
        destruct p; apply pair_equal_spec in K; destruct K as [K0 K1]; rewrite K0, K1; simpl in *; rewrite E in *; cbn [lenz] in *; lia.
      * cbv zeta. destruct (pvNewBlock C w p) as [w1 b1] eqn:N. simpl fst.
        eapply bounded_of_caches; [|exact Bd]. rewrite add_live_caches.
        change w1 with (fst (w1, b1)). rewrite <- N. apply pvNewBlock_caches.
  - (* Deallocate *)
    unfold Deallocate. cbv zeta.
    destruct uc; [|eapply bounded_of_caches; [rewrite pvDeleteBlock_caches; apply remove_live_caches|exact Bd]].
    set (w0 := if CF <=? lenz (cache (getp w p)) then flush C w p else w).
    assert (lenz (cache (getp w0 p)) + 1 <= CF /\ cache (getp w0 (negb p)) = cache (getp w (negb p))) as (A1 & A2).
    { unfold w0. destruct (Z.leb_spec CF (lenz (cache (getp w p)))) as [L|L]; [|split; [lia|reflexivity]].
      pose proof (flush_caches C w p) as F. unfold caches, flushed in F.
      destruct p; cbn [getp negb] in *; apply pair_equal_spec in F; destruct F as [F0 F1]; rewrite ?F0, ?F1; cbn [lenz]; split; try lia; reflexivity. }
    clearbody w0. set (wr := remove_live w0 p bk).
    pose proof (remove_live_caches w0 p bk) as RC. fold wr in RC. unfold caches in RC. apply pair_equal_spec in RC. destruct RC as [R0 R1].
    pose proof (set_cache_caches wr p (bk :: cache (getp wr p))) as K. unfold caches in K.
    unfold bounded in *.
    destruct p; apply pair_equal_spec in K; destruct K as [K0 K1]; rewrite K0, K1; cbn [getp negb lenz] in *; rewrite ?R0, ?R1, ?A2; lia.
  - (* DeallocateIf *)
    unfold DeallocateIf. cbv zeta.
    set (w1 := if uc then flush C w p else w).
    assert (bounded CF w1) as B1.
    { unfold w1. destruct uc; [|exact Bd]. apply (bounded_flushed CF p w); [lia|exact Bd|apply flush_caches]. }
    destruct (acount (getp w1 p) =? 0); [exact B1|].
    eapply bounded_of_caches; [|exact B1].
    rewrite foldl_caches by (intros; apply pvDeleteBlocks_caches).
    rewrite foldl_caches by (intros; apply pvDeleteBlocks_caches). reflexivity.
  - (* DeallocateAll *)
    unfold DeallocateAll. destruct (lfree (getp w p)); [exact Bd|]. cbv zeta.
    assert (forall l' w0, cache (cp0 (return_all w0 l')) = cache (cp0 w0) /\ cache (cp1 (return_all w0 l')) = cache (cp1 w0)) as RA.
    { intros l' w0. assert (caches (return_all w0 l') = caches w0) as E by (unfold return_all; apply foldl_caches; reflexivity).
      unfold caches in E. apply pair_equal_spec in E. exact E. }
    unfold bounded in *.
    destruct p; cbn [getp setp cp0 cp1 cache lenz];
      repeat match goal with |- context [cache (cp0 (return_all ?a ?b))] => rewrite (proj1 (RA b a))
                        | |- context [cache (cp1 (return_all ?a ?b))] => rewrite (proj2 (RA b a)) end; lia.
  - (* MergeFrom *)
    unfold MergeFrom. cbv zeta.
    set (w1 := if uc then flush C w (negb d) else w).
    assert (bounded CF w1) as B1.
    { unfold w1. destruct uc; [|exact Bd]. apply (bounded_flushed CF (negb d) w); [lia|exact Bd|apply flush_caches]. }
    clearbody w1. unfold bounded in *.
    destruct (lfree (getp w1 (negb d))); [|destruct (lfree (getp w1 d))]; destruct d; simpl; tauto.
Qed.

Theorem cache_bounded_all_histories C CF uc ops : 1 <= CF -> bounded CF (crun C CF uc ops).
Proof.
  intros H. unfold crun. assert (bounded CF empty_world) as B0 by (unfold bounded; simpl; lia).
  revert B0. generalize empty_world. induction ops as [|o t IH]; intros w Bw; simpl; [exact Bw|].
  apply IH. apply cstep_bounded; assumption.
Qed.
