(* C17: pvFindOther / pvFindNext / pvFind / pvGetBounds agree with a linear scan on arrays arranged the way
   Sort leaves them (hash non-decreasing, equal items contiguous inside a hash run, equal items have equal
   hashes) -- and never read outside [0,count) there (the results are Ok). *)
From Coq Require Import ZArith Bool List Lia.
From MomoCommon Require Import GenPrelude.
From C17 Require Import SorterSearch Search_Proofs.
Local Open Scope Z_scope.

Definition between (a m c : Z) : Prop := a <= m <= c \/ c <= m <= a.

Section FindProofs.
  Variable MultShift : Z -> Z -> Z.
  Variable StepCount : Z -> Z.
  Variable Compare : Z -> Z -> Z.
  Hypothesis MS : forall h n, 0 <= h < 2 ^ 64 -> 0 < n < 2 ^ 64 -> 0 <= MultShift h n < n.
  Hypothesis SC : forall n, 0 <= StepCount n <= 3.
  Hypothesis CMP : forall a b, (a < b -> Compare a b = -1) /\ (a = b -> Compare a b = 0) /\ (b < a -> Compare a b = 1).

  Variable count : Z.
  Variable hash : Z -> Z.
  Variable item : Z -> Z.
  Variable eqf : Z -> Z -> bool.
  Variable qh qx : Z.
  Hypothesis Hcount : 0 <= count < 2 ^ 62.
  Hypothesis Hhash : forall i, 0 <= i < count -> 0 <= hash i < 2 ^ 64.
  Hypothesis Hqh : 0 <= qh < 2 ^ 64.
  (* equalFunc is an equivalence relation *)
  Hypothesis eqf_refl : forall a, eqf a a = true.
  Hypothesis eqf_sym : forall a b, eqf a b = true -> eqf b a = true.
  Hypothesis eqf_trans : forall a b c, eqf a b = true -> eqf b c = true -> eqf a c = true.

  Definition E (i j : Z) : Prop := eqf (item i) (item j) = true.   (* items at two indexes are equal *)
  Definition EX (i : Z) : Prop := eqf (item i) qx = true.           (* item at index i equals the searched item *)

  (* the arrangement: exactly the IsSorted predicate ... *)
  Hypothesis S1 : sorted count hash.
  Hypothesis S2 : forall i j k, 0 <= i -> i < j -> j < k -> k < count -> hash i = hash k -> E i k -> E i j.
  (* ... plus: the hash function respects equality (for array items and for the searched item) *)
  Hypothesis C1 : forall i j, 0 <= i < count -> 0 <= j < count -> E i j -> hash i = hash j.
  Hypothesis C2 : forall i, 0 <= i < count -> EX i -> hash i = qh.

  Local Notation rdh := (SorterSearch.rdh count hash).
  Local Notation rdi := (SorterSearch.rdi count item).
  Local Notation eq_ii := (SorterSearch.eq_ii count item eqf).
  Local Notation pvFindOther := (SorterSearch.pvFindOther count item eqf).
  Local Notation pvFindNext := (SorterSearch.pvFindNext count hash item eqf qh qx).
  Local Notation fn_loop := (SorterSearch.fn_loop count hash item eqf qh qx).

  Lemma rdi_ok i : 0 <= i < count -> rdi i = Ok (item i).
  Proof.
    intros H. unfold SorterSearch.rdi, inb.
    destruct (Z.leb_spec 0 i); [|lia]. destruct (Z.ltb_spec i count); [|lia]. reflexivity.
  Qed.

  Lemma eq_ii_ok i j : 0 <= i < count -> 0 <= j < count -> eq_ii i j = Ok (eqf (item i) (item j)).
  Proof. intros Hi Hj. unfold SorterSearch.eq_ii. rewrite (rdi_ok i Hi). cbn [bind]. rewrite (rdi_ok j Hj). reflexivity. Qed.

  Lemma E_sym i j : E i j -> E j i.  Proof. apply eqf_sym. Qed.
  Lemma E_trans i j k : E i j -> E j k -> E i k.  Proof. apply eqf_trans. Qed.
  Lemma E_EX i j : E i j -> EX j -> EX i.  Proof. apply eqf_trans. Qed.
  Lemma EX_E i j : EX i -> EX j -> E i j.
  Proof. intros A B. unfold E. eapply eqf_trans; [exact A|]. apply eqf_sym. exact B. Qed.

  Lemma E_between a m c : 0 <= a < count -> 0 <= c < count -> between a m c -> E a c -> E a m.
  Proof.
    intros Ha Hc [B|B] H.
    - destruct (Z.eq_dec m a) as [->|]; [apply eqf_refl|]. destruct (Z.eq_dec m c) as [->|]; [exact H|].
      apply (S2 a m c); try lia. apply C1; assumption. exact H.
    - destruct (Z.eq_dec m a) as [->|]; [apply eqf_refl|]. destruct (Z.eq_dec m c) as [->|]; [exact H|].
      apply E_sym in H. assert (E c m). { apply (S2 c m a); try lia. apply C1; assumption. exact H. }
      eapply E_trans; [apply E_sym; exact H|exact H0].
  Qed.

  Lemma hash_between a m c : 0 <= a < count -> 0 <= c < count -> between a m c ->
    hash a = hash c -> hash m = hash a.
  Proof.
    intros Ha Hc [B|B] H.
    - pose proof (S1 a m ltac:(lia) ltac:(lia) ltac:(lia)). pose proof (S1 m c ltac:(lia) ltac:(lia) ltac:(lia)). lia.
    - pose proof (S1 c m ltac:(lia) ltac:(lia) ltac:(lia)). pose proof (S1 m a ltac:(lia) ltac:(lia) ltac:(lia)). lia.
  Qed.

  (* a view: relative offsets [0,cnt) map into the array, monotonically (forward or backward) *)
  Definition vok (v : Z -> Z) (cnt : Z) : Prop :=
    cnt <= count /\
    (forall k, 0 <= k < cnt -> 0 <= v k < count) /\
    (forall a i j, 0 <= a -> a <= i -> i <= j -> j < cnt -> between (v a) (v i) (v j)).

  Lemma vok_shift v cnt d : vok v cnt -> 0 <= d -> vok (fun k => v (d + k)) (cnt - d).
  Proof. intros (V0 & V1 & V2) Hd. split; [lia|]. split. - intros k Hk. apply V1. lia. - intros a i j Ha Hai Hij Hj. apply V2; lia. Qed.

  Lemma vok_fwd p cnt : 0 <= p -> p + cnt <= count -> vok (fwd p) cnt.
  Proof. intros. unfold fwd. split; [lia|]. split. - intros; lia. - intros; left; lia. Qed.

  Lemma vok_rev b cnt : cnt <= b -> b <= count -> vok (rev b) cnt.
  Proof. intros. unfold rev. split; [lia|]. split. - intros; lia. - intros; right; lia. Qed.

  (* ---------------- pvFindOther ---------------- *)
  Lemma findother_spec v cnt : vok v cnt -> 0 < cnt ->
    exists o, pvFindOther v cnt = Ok o /\ 1 <= o <= cnt /\
      (forall k, 0 <= k < o -> E (v 0) (v k)) /\ (forall k, o <= k < cnt -> ~ E (v 0) (v k)).
  Proof.
    intros (V0 & V1 & V2) Hc. unfold SorterSearch.pvFindOther. destruct (Z.ltb_spec 0 cnt); [|lia].
    set (c := fun i => if eqf (item (v 0)) (item (v (1 + i))) then -1 else 1).
    destruct (pvExponentialSearch_spec
      (fun i => e <- eq_ii (v 0) (v (1 + i)) ;; Ok (if e : bool then -1 else 1)) c (cnt - 1)) as (k & b & Eq & Hk & Hb & Hp).
    { intros i Hi. rewrite eq_ii_ok by (apply V1; lia). reflexivity. }
    { lia. }
    rewrite Eq. cbn [bind fst]. exists (1 + k). split; [reflexivity|]. split; [lia|].
    assert (M : mono c (cnt - 1)).
    { intros i j Hi Hij Hj. unfold c.
      destruct (eqf (item (v 0)) (item (v (1 + j)))) eqn:Ej; destruct (eqf (item (v 0)) (item (v (1 + i)))) eqn:Ei; try lia.
      exfalso. assert (X : E (v 0) (v (1 + i))).
      { apply (E_between (v 0) (v (1 + i)) (v (1 + j))); try (apply V1; lia). apply V2; lia. exact Ej. }
      unfold E in X. congruence. }
    destruct b.
    { destruct (Hb eq_refl) as [_ Z0]. unfold c in Z0. destruct (eqf _ _) in Z0; lia. }
    destruct (Hp M eq_refl) as [P1 P2]. split; intros m Hm.
    - destruct (Z.eq_dec m 0) as [->|]; [apply eqf_refl|].
      specialize (P1 (m - 1) ltac:(lia)). unfold c in P1. replace (1 + (m - 1)) with m in P1 by lia.
      unfold E. destruct (eqf _ _) in *; [reflexivity|lia].
    - specialize (P2 (m - 1) ltac:(lia)). unfold c in P2. replace (1 + (m - 1)) with m in P2 by lia.
      unfold E. destruct (eqf _ _) in *; [lia|discriminate].
  Qed.

  (* ---------------- pvFindNext ---------------- *)
  Lemma fn_loop_eq f v cnt iter : fn_loop (S f) v cnt iter =
      o <- pvFindOther (fun k => v (iter + k)) (cnt - iter) ;;
      let iter := iter + o in
      if iter =? cnt then Ok (iter, false)
      else
        h <- rdh (v iter) ;;
        if negb (h =? qh) then Ok (iter, false)
        else
          a <- rdi (v iter) ;;
          if eqf a qx then Ok (iter, true) else fn_loop f v cnt iter.
  Proof. reflexivity. Qed.

  Definition fnres (v : Z -> Z) (cnt r : Z) (f : bool) : Prop :=
    0 < r <= cnt /\ (f = true -> r < cnt /\ EX (v r)) /\ (forall k, 0 <= k < r -> ~ EX (v k)) /\
    (f = false -> forall k, 0 <= k < cnt -> ~ EX (v k)).

  Lemma fn_loop_spec v cnt : vok v cnt -> hash (v 0) = qh ->
    forall f iter, 0 <= iter < cnt -> cnt - iter <= Z.of_nat f ->
      (forall k, 0 <= k <= iter -> ~ EX (v k)) ->
      exists r b, fn_loop f v cnt iter = Ok (r, b) /\ fnres v cnt r b.
  Proof.
    intros V H0. pose proof V as (V0 & V1 & V2).
    induction f as [|f IH]; intros iter Hi Hf Hinv. { simpl in Hf. lia. }
    rewrite fn_loop_eq.
    destruct (findother_spec (fun k => v (iter + k)) (cnt - iter)) as (o & Eo & Ho & O1 & O2).
    { apply vok_shift; [exact V|lia]. }
    { lia. }
    rewrite Eo. cbn [bind]. cbv zeta. rewrite Z.add_0_r in O1, O2.
    assert (Hinv' : forall k, 0 <= k < iter + o -> ~ EX (v k)).
    { intros k Hk X. destruct (Z_le_gt_dec k iter) as [L|G]; [exact (Hinv k ltac:(lia) X)|].
      specialize (O1 (k - iter) ltac:(lia)). replace (iter + (k - iter)) with k in O1 by lia.
      apply (Hinv iter ltac:(lia)). eapply E_EX; eassumption. }
    destruct (Z.eqb_spec (iter + o) cnt) as [Ee|Ne].
    - exists (iter + o), false. split; [reflexivity|]. split; [lia|]. split; [discriminate|]. split; [exact Hinv'|].
      intros _ k Hk. apply Hinv'. lia.
    - rewrite (rdh_ok count hash) by (apply V1; lia). cbn [bind].
      destruct (Z.eqb_spec (hash (v (iter + o))) qh) as [Eh|Nh]; cbn [negb].
      + rewrite rdi_ok by (apply V1; lia). cbn [bind].
        destruct (eqf (item (v (iter + o))) qx) eqn:Ex.
        * exists (iter + o), true. split; [reflexivity|]. split; [lia|]. split; [intros _; split; [lia|exact Ex]|].
          split; [exact Hinv'|discriminate].
        * rewrite Nat2Z.inj_succ in Hf. apply IH; try lia.
          intros k Hk X. destruct (Z.eq_dec k (iter + o)) as [->|]; [unfold EX in X; congruence|].
          apply (Hinv' k); [lia|exact X].
      + exists (iter + o), false. split; [reflexivity|]. split; [lia|]. split; [discriminate|]. split; [exact Hinv'|].
        intros _ k Hk X. destruct (Z_lt_le_dec k (iter + o)) as [L|G]; [exact (Hinv' k ltac:(lia) X)|].
        apply Nh. rewrite <- H0.
        apply (hash_between (v 0) (v (iter + o)) (v k)); try (apply V1; lia). apply V2; lia.
        rewrite H0. symmetry. apply C2; [apply V1; lia|exact X].
  Qed.

  Lemma findnext_spec v cnt : vok v cnt -> 0 < cnt -> hash (v 0) = qh -> ~ EX (v 0) ->
    exists r b, pvFindNext v cnt = Ok (r, b) /\ fnres v cnt r b.
  Proof.
    intros V Hc H0 N0. unfold SorterSearch.pvFindNext. apply fn_loop_spec; try assumption; try lia.
    intros k Hk. replace k with 0 by lia. exact N0.
  Qed.

  (* ---------------- pvFind ---------------- *)
  (* Find returns exactly what a linear scan returns: found iff some item equals the searched one, and then
     the returned index holds such an item; all reads in range (Ok). *)
  Theorem pvFind_spec :
    exists r b, SorterSearch.pvFind MultShift StepCount Compare count hash item eqf qh qx = Ok (r, b) /\
      0 <= r <= count /\ (b = true -> r < count /\ EX r) /\ (b = true <-> exists i, 0 <= i < count /\ EX i).
  Proof.
    unfold SorterSearch.pvFind.
    destruct (pvFindHash_spec MultShift StepCount Compare MS SC CMP count hash qh Hcount Hhash Hqh) as (k & b & Ef & Hk & Hb & Hp).
    rewrite Ef. cbn [bind snd fst].
    destruct b; cbn [negb].
    2:{ exists k, false. split; [reflexivity|]. split; [lia|]. split; [discriminate|]. split; [discriminate|].
        intros (i & Hi & X). exfalso. destruct (Hp S1 eq_refl) as [P1 P2]. pose proof (C2 i Hi X).
        destruct (Z_lt_le_dec i k); [specialize (P1 i ltac:(lia))|specialize (P2 i ltac:(lia))]; lia. }
    destruct (Hb eq_refl) as [Hkc Hkh]. rewrite rdi_ok by lia. cbn [bind].
    destruct (eqf (item k) qx) eqn:Ek.
    { exists k, true. split; [reflexivity|]. split; [lia|]. split; [intros _; split; [lia|exact Ek]|].
      split; [intros _; exists k; split; [lia|exact Ek]|reflexivity]. }
    assert (Nk : ~ EX k) by (unfold EX; congruence).
    destruct (findnext_spec (rev (k + 1)) (k + 1)) as (r & f & Er & Hr & Hf & Hbefore & Hnone).
    { apply vok_rev; lia. } { lia. }
    { unfold rev. replace (k + 1 - 1 - 0) with k by lia. exact Hkh. }
    { unfold rev. replace (k + 1 - 1 - 0) with k by lia. exact Nk. }
    rewrite Er. cbn [bind snd fst]. destruct f.
    { destruct (Hf eq_refl) as [Hrc X]. unfold rev in X.
      exists (k + 1 - r - 1), true. split; [reflexivity|]. split; [lia|].
      replace (k + 1 - r - 1) with (k + 1 - 1 - r) by lia.
      split; [intros _; split; [lia|exact X]|]. split; [intros _; exists (k + 1 - 1 - r); split; [lia|exact X]|reflexivity]. }
    assert (Nlow : forall i, 0 <= i <= k -> ~ EX i).
    { intros i Hi. specialize (Hnone eq_refl (k - i) ltac:(lia)). unfold rev in Hnone.
      replace (k + 1 - 1 - (k - i)) with i in Hnone by lia. exact Hnone. }
    destruct (findnext_spec (fwd k) (count - k)) as (r' & f' & Er' & Hr' & Hf' & Hbefore' & Hnone').
    { apply vok_fwd; lia. } { lia. }
    { unfold fwd. rewrite Z.add_0_r. exact Hkh. }
    { unfold fwd. rewrite Z.add_0_r. exact Nk. }
    rewrite Er'. cbn [bind snd fst]. exists (k + r'), f'. split; [reflexivity|]. split; [lia|]. split.
    - intros Ft. destruct (Hf' Ft) as [A B]. unfold fwd in B. split; [lia|exact B].
    - split.
      + intros Ft. destruct (Hf' Ft) as [A B]. unfold fwd in B. exists (k + r'). split; [lia|exact B].
      + intros (i & Hi & X). destruct f'; [reflexivity|]. exfalso.
        destruct (Z_le_gt_dec i k) as [L|G]; [exact (Nlow i ltac:(lia) X)|].
        specialize (Hnone' eq_refl (i - k) ltac:(lia)). unfold fwd in Hnone'.
        replace (k + (i - k)) with i in Hnone' by lia. exact (Hnone' X).
  Qed.

  (* ---------------- pvGetBounds ---------------- *)
  Lemma findother_fwd p cnt : 0 <= p -> 0 < cnt -> p + cnt <= count ->
    exists o, pvFindOther (fwd p) cnt = Ok o /\ 1 <= o <= cnt /\
      (forall i, p <= i < p + o -> E p i) /\ (forall i, p + o <= i < p + cnt -> ~ E p i).
  Proof.
    intros Hp Hc Hpc. destruct (findother_spec (fwd p) cnt) as (o & Eo & Ho & O1 & O2); [apply vok_fwd; lia|lia|].
    exists o. split; [exact Eo|]. split; [lia|]. unfold fwd in O1, O2. rewrite Z.add_0_r in O1, O2. split; intros i Hi.
    - specialize (O1 (i - p) ltac:(lia)). replace (p + (i - p)) with i in O1 by lia. exact O1.
    - specialize (O2 (i - p) ltac:(lia)). replace (p + (i - p)) with i in O2 by lia. exact O2.
  Qed.

  Lemma findother_rev b : 0 < b -> b <= count ->
    exists o, pvFindOther (rev b) b = Ok o /\ 1 <= o <= b /\
      (forall i, b - o <= i < b -> E (b - 1) i) /\ (forall i, 0 <= i < b - o -> ~ E (b - 1) i).
  Proof.
    intros Hb Hbc. destruct (findother_spec (rev b) b) as (o & Eo & Ho & O1 & O2); [apply vok_rev; lia|lia|].
    exists o. split; [exact Eo|]. split; [lia|]. unfold rev in O1, O2. rewrite Z.sub_0_r in O1, O2. split; intros i Hi.
    - specialize (O1 (b - 1 - i) ltac:(lia)). replace (b - 1 - (b - 1 - i)) with i in O1 by lia. exact O1.
    - specialize (O2 (b - 1 - i) ltac:(lia)). replace (b - 1 - (b - 1 - i)) with i in O2 by lia. exact O2.
  Qed.

  (* GetBounds returns exactly the index range a linear scan finds: [b,e) are precisely the indexes whose
     item equals the searched one (an empty range if there is none); all reads in range (Ok). *)
  Theorem pvGetBounds_spec :
    exists b e, SorterSearch.pvGetBounds MultShift StepCount Compare count hash item eqf qh qx = Ok (b, e) /\
      0 <= b <= e /\ e <= count /\ (forall i, 0 <= i < count -> (b <= i < e <-> EX i)).
  Proof.
    unfold SorterSearch.pvGetBounds.
    destruct (pvFindHash_spec MultShift StepCount Compare MS SC CMP count hash qh Hcount Hhash Hqh) as (k & b & Ef & Hk & Hb & Hp).
    rewrite Ef. cbn [bind snd fst]. cbv zeta.
    destruct b; cbn [negb].
    2:{ exists k, k. split; [reflexivity|]. split; [lia|]. split; [lia|]. intros i Hi. split; [lia|].
        intros X. exfalso. destruct (Hp S1 eq_refl) as [P1 P2]. pose proof (C2 i Hi X).
        destruct (Z_lt_le_dec i k); [specialize (P1 i ltac:(lia))|specialize (P2 i ltac:(lia))]; lia. }
    destruct (Hb eq_refl) as [Hkc Hkh]. rewrite rdi_ok by lia. cbn [bind].
    destruct (eqf (item k) qx) eqn:Ek.
    { (* the probe holds the item: widen in both directions *)
      destruct (findother_rev (k + 1)) as (ob & Eob & Hob & B1 & B2); [lia|lia|].
      destruct (findother_fwd k (count - k)) as (oe & Eoe & Hoe & F1 & F2); [lia|lia|lia|].
      rewrite Eob. cbn [bind]. rewrite Eoe. cbn [bind].
      replace (k + 1 - 1) with k in B1, B2 by lia.
      exists (k + 1 - ob), (k + oe). split; [reflexivity|]. split; [lia|]. split; [lia|].
      intros i Hi. split.
      - intros Hr. destruct (Z_le_gt_dec i k); [eapply E_EX; [apply E_sym; apply (B1 i); lia|exact Ek]
                                               |eapply E_EX; [apply E_sym; apply (F1 i); lia|exact Ek]].
      - intros X. assert (Eki : E k i) by (apply EX_E; assumption).
        destruct (Z_lt_le_dec i (k + 1 - ob)); [exfalso; apply (B2 i); [lia|exact Eki]|].
        destruct (Z_lt_le_dec i (k + oe)); [lia|]. exfalso. apply (F2 i); [lia|exact Eki]. }
    assert (Nk : ~ EX k) by (unfold EX; congruence).
    destruct (findnext_spec (rev (k + 1)) (k + 1)) as (r & f & Er & Hr & Hf & Hbefore & Hnone).
    { apply vok_rev; lia. } { lia. }
    { unfold rev. replace (k + 1 - 1 - 0) with k by lia. exact Hkh. }
    { unfold rev. replace (k + 1 - 1 - 0) with k by lia. exact Nk. }
    rewrite Er. cbn [bind snd fst]. destruct f.
    { (* an equal item below the probe: [a+1-ob, a+1) with a = k - r *)
      destruct (Hf eq_refl) as [Hrc X]. unfold rev in X. replace (k + 1 - 1 - r) with (k - r) in X by lia.
      destruct (findother_rev (k + 1 - r)) as (ob & Eob & Hob & B1 & B2); [lia|lia|].
      rewrite Eob. cbn [bind]. replace (k + 1 - r - 1) with (k - r) in B1, B2 by lia.
      exists (k + 1 - r - ob), (k + 1 - r). split; [reflexivity|]. split; [lia|]. split; [lia|].
      intros i Hi. split.
      - intros Hrg. eapply E_EX; [apply E_sym; apply (B1 i); lia|exact X].
      - intros Xi. assert (Eai : E (k - r) i) by (apply EX_E; assumption).
        destruct (Z_lt_le_dec i (k + 1 - r - ob)); [exfalso; apply (B2 i); [lia|exact Eai]|].
        destruct (Z_lt_le_dec i (k + 1 - r)); [lia|]. exfalso.
        destruct (Z_le_gt_dec i k) as [L|G].
        + specialize (Hbefore (k - i) ltac:(lia)). unfold rev in Hbefore.
          replace (k + 1 - 1 - (k - i)) with i in Hbefore by lia. exact (Hbefore Xi).
        + apply Nk. eapply E_EX; [|exact X]. apply E_sym.
          apply (E_between (k - r) k i); try lia. left; lia. exact Eai. }
    assert (Nlow : forall i, 0 <= i <= k -> ~ EX i).
    { intros i Hi. specialize (Hnone eq_refl (k - i) ltac:(lia)). unfold rev in Hnone.
      replace (k + 1 - 1 - (k - i)) with i in Hnone by lia. exact Hnone. }
    destruct (findnext_spec (fwd k) (count - k)) as (r' & f' & Er' & Hr' & Hf' & Hbefore' & Hnone').
    { apply vok_fwd; lia. } { lia. }
    { unfold fwd. rewrite Z.add_0_r. exact Hkh. }
    { unfold fwd. rewrite Z.add_0_r. exact Nk. }
    rewrite Er'. cbn [bind snd fst]. cbv zeta. destruct f'; cbn [negb].
    2:{ exists (k + r'), (k + r'). split; [reflexivity|]. split; [lia|]. split; [lia|]. intros i Hi. split; [lia|].
        intros X. exfalso. destruct (Z_le_gt_dec i k) as [L|G]; [exact (Nlow i ltac:(lia) X)|].
        specialize (Hnone' eq_refl (i - k) ltac:(lia)). unfold fwd in Hnone'.
        replace (k + (i - k)) with i in Hnone' by lia. exact (Hnone' X). }
    destruct (Hf' eq_refl) as [Hrc' X']. unfold fwd in X'.
    destruct (findother_fwd (k + r') (count - (k + r'))) as (oe & Eoe & Hoe & F1 & F2); [lia|lia|lia|].
    rewrite Eoe. cbn [bind]. exists (k + r'), (k + r' + oe). split; [reflexivity|]. split; [lia|]. split; [lia|].
    intros i Hi. split.
    - intros Hrg. eapply E_EX; [apply E_sym; apply (F1 i); lia|exact X'].
    - intros Xi. assert (Eai : E (k + r') i) by (apply EX_E; assumption).
      destruct (Z_lt_le_dec i (k + r')) as [L|G].
      + exfalso. destruct (Z_le_gt_dec i k) as [L2|G2]; [exact (Nlow i ltac:(lia) Xi)|].
        specialize (Hbefore' (i - k) ltac:(lia)). unfold fwd in Hbefore'.
        replace (k + (i - k)) with i in Hbefore' by lia. exact (Hbefore' Xi).
      + destruct (Z_lt_le_dec i (k + r' + oe)); [lia|]. exfalso. apply (F2 i); [lia|exact Eai].
  Qed.
End FindProofs.
