(* C03 -- the trace monitor.
   Events are exactly what the instrumentation kit (harness/kit.h, structured event log) records on the real
   code: allocations / deallocations seen by the user-supplied memory manager and constructions / destructions /
   uses of instrumented element objects.  Object identity is the ADDRESS slot (so "construction on a live
   object" is observable), block identity is the allocation id.

   [trace_ok] is the DECLARATIVE property of a whole trace: the history of every single resource (block or
   object), taken on its own, is a sequence of complete lifetimes  open(p) . use* . close(p) .
   [mon_step] / [mon_run] / [accepts] is the executable monitor that is extracted and run on the event log of
   the real containers.  [monitor_sound] and [monitor_complete] say that the monitor accepts exactly the traces
   satisfying [trace_ok]. *)
From Coq Require Import ZArith Bool List Lia.
Import ListNotations.
Local Open Scope Z_scope.

Inductive event : Type :=
| Alloc (mgr blk size : Z)
| Dealloc (mgr blk size : Z)
| Ctor (obj : Z)
| Dtor (obj : Z)
| Use (obj : Z).

(* ---------------------------------------------------------------- resources and their own histories *)
Inductive res : Type := Blk (b : Z) | Obj (o : Z).

Definition res_eqb (a b : res) : bool :=
  match a, b with
  | Blk x, Blk y => Z.eqb x y
  | Obj x, Obj y => Z.eqb x y
  | _, _ => false
  end.

Lemma res_eqb_spec a b : reflect (a = b) (res_eqb a b).
Proof.
  destruct a as [x|x], b as [y|y]; simpl; try (constructor; congruence);
    destruct (Z.eqb_spec x y); constructor; congruence.
Qed.

Lemma res_eqb_refl a : res_eqb a a = true.
Proof. destruct (res_eqb_spec a a); congruence. Qed.

Definition payload : Type := (Z * Z)%type.          (* (manager, size) of a block; (0,0) for an object *)
Definition pay_eqb (p q : payload) : bool := Z.eqb (fst p) (fst q) && Z.eqb (snd p) (snd q).
Lemma pay_eqb_spec p q : reflect (p = q) (pay_eqb p q).
Proof.
  destruct p as [a b], q as [c d]; unfold pay_eqb; simpl.
  destruct (Z.eqb_spec a c), (Z.eqb_spec b d); simpl; constructor; congruence.
Qed.

(* what an event does to the resource it talks about *)
Inductive act : Type := AOpen (p : payload) | AClose (p : payload) | ATouch.

Definition res_of (e : event) : res :=
  match e with
  | Alloc _ b _ | Dealloc _ b _ => Blk b
  | Ctor o | Dtor o | Use o => Obj o
  end.

Definition act_of (e : event) : act :=
  match e with
  | Alloc m _ s => AOpen (m, s)
  | Dealloc m _ s => AClose (m, s)
  | Ctor _ => AOpen (0, 0)
  | Dtor _ => AClose (0, 0)
  | Use _ => ATouch
  end.

(* the history of resource r inside trace t *)
Fixpoint proj (r : res) (t : list event) : list act :=
  match t with
  | [] => []
  | e :: t' => if res_eqb (res_of e) r then act_of e :: proj r t' else proj r t'
  end.

(* ---------------------------------------------------------------- the declarative predicate *)
(* a well-formed private history: zero or more COMPLETE lifetimes.  One lifetime = opened with payload p
   (allocated by manager m with size s / constructed), possibly used, closed exactly once with the SAME payload
   (deallocated through an equal manager with the allocation size / destroyed). Nothing happens to the resource
   outside a lifetime (no use or destruction of a dead object, no double free), nothing is opened twice in a row
   (no construction on a live object), and the last lifetime is closed (nothing is leaked). *)
Inductive wf_life : list act -> Prop :=
| wf_nil : wf_life []
| wf_cycle : forall p uses rest,
    Forall (fun a => a = ATouch) uses -> wf_life rest ->
    wf_life (AOpen p :: uses ++ AClose p :: rest).

Definition trace_ok (t : list event) : Prop := forall r, wf_life (proj r t).

(* ---------------------------------------------------------------- the executable monitor *)
Inductive error : Type :=
| EDoubleAlloc          (* a block id allocated while live *)
| EDeallocDead          (* deallocation of an unknown / already freed block *)
| EDeallocMismatch      (* deallocation with another size or through an unequal manager *)
| ECtorOnLive           (* construction on top of a live object *)
| EDtorOnDead           (* destruction of a dead / never constructed object (double destroy) *)
| EUseOfDead            (* use of a dead object (after destruction or relocation) *)
| ELeak.                (* end of trace with a live block or object *)

Definition mstate : Type := list (res * payload).

Fixpoint lookup (r : res) (st : mstate) : option payload :=
  match st with
  | [] => None
  | (r', p) :: st' => if res_eqb r' r then Some p else lookup r st'
  end.

Definition remove (r : res) (st : mstate) : mstate :=
  filter (fun rp => negb (res_eqb (fst rp) r)) st.

Definition err_open (e : event) : error :=
  match e with Alloc _ _ _ | Dealloc _ _ _ => EDoubleAlloc | _ => ECtorOnLive end.
Definition err_close (e : event) : error :=
  match e with Alloc _ _ _ | Dealloc _ _ _ => EDeallocDead | _ => EDtorOnDead end.

Definition mon_step (st : mstate) (e : event) : mstate + error :=
  match act_of e, lookup (res_of e) st with
  | AOpen p, None => inl ((res_of e, p) :: st)              (* allocation / construction of a dead resource *)
  | AOpen _, Some _ => inr (err_open e)                     (* ... of a live one *)
  | AClose p, Some q => if pay_eqb q p then inl (remove (res_of e) st)   (* same manager, same size *)
                        else inr EDeallocMismatch
  | AClose _, None => inr (err_close e)                     (* double free / double destroy *)
  | ATouch, Some _ => inl st
  | ATouch, None => inr EUseOfDead
  end.

Fixpoint mon_run (st : mstate) (t : list event) : mstate + error :=
  match t with
  | [] => inl st
  | e :: t' => match mon_step st e with
               | inl st' => mon_run st' t'
               | inr err => inr err
               end
  end.

(* verdict on a complete trace: None = accepted *)
Definition mon_check (t : list event) : option error :=
  match mon_run [] t with
  | inr err => Some err
  | inl [] => None
  | inl (_ :: _) => Some ELeak
  end.

Definition accepts (t : list event) : bool :=
  match mon_check t with None => true | Some _ => false end.

(* position of the first rejected event and the final number of live resources (diagnostics for the driver) *)
Fixpoint mon_diag (st : mstate) (t : list event) (i : nat) : (nat * option error * mstate) :=
  match t with
  | [] => (i, None, st)
  | e :: t' => match mon_step st e with
               | inl st' => mon_diag st' t' (S i)
               | inr err => (i, Some err, st)
               end
  end.

(* ---------------------------------------------------------------- per-resource automaton *)
(* state = None (dead) | Some p (live, opened with p) *)
Definition life_step (s : option payload) (a : act) : option (option payload) :=
  match s, a with
  | None, AOpen p => Some (Some p)
  | None, _ => None
  | Some p, ATouch => Some (Some p)
  | Some p, AClose q => if pay_eqb p q then Some None else None
  | Some _, AOpen _ => None
  end.

Fixpoint life_run (s : option payload) (l : list act) : option (option payload) :=
  match l with
  | [] => Some s
  | a :: l' => match life_step s a with
               | Some s' => life_run s' l'
               | None => None
               end
  end.

(* automaton <-> regular description *)
Lemma life_run_touches p uses l :
  Forall (fun a => a = ATouch) uses -> life_run (Some p) (uses ++ l) = life_run (Some p) l.
Proof.
  induction 1 as [|a uses Ha _ IH]; simpl; [reflexivity|]. subst a. simpl. exact IH.
Qed.

Lemma wf_life_accepted l : wf_life l -> life_run None l = Some None.
Proof.
  induction 1 as [|p uses rest Hu _ IH]; simpl; [reflexivity|].
  rewrite life_run_touches by assumption. simpl.
  destruct (pay_eqb_spec p p); [exact IH|congruence].
Qed.

Lemma accepted_wf_life l :
  (life_run None l = Some None -> wf_life l) /\
  (forall p, life_run (Some p) l = Some None ->
     exists uses rest, l = uses ++ AClose p :: rest /\ Forall (fun a => a = ATouch) uses /\ wf_life rest).
Proof.
  induction l as [|a l [IH1 IH2]]; split.
  - intros _. constructor.
  - intros p H. simpl in H. discriminate.
  - intros H. simpl in H. destruct a; simpl in H; try discriminate.
    destruct (IH2 p H) as (uses & rest & -> & Hu & Hr). constructor; assumption.
  - intros p H. simpl in H. destruct a; simpl in H; try discriminate.
    + destruct (pay_eqb_spec p p0); [|discriminate]. subst p0.
      exists [], l. simpl. split; [reflexivity|]. split; [constructor|]. apply IH1. exact H.
    + destruct (IH2 p H) as (uses & rest & -> & Hu & Hr).
      exists (ATouch :: uses), rest. simpl. split; [reflexivity|]. split; [constructor; auto|assumption].
Qed.

Lemma wf_life_iff l : wf_life l <-> life_run None l = Some None.
Proof. split; [apply wf_life_accepted|apply (proj1 (accepted_wf_life l))]. Qed.

(* ---------------------------------------------------------------- monitor = product of the automata *)
Lemma lookup_remove r r' st : lookup r' (remove r st) = if res_eqb r r' then None else lookup r' st.
Proof.
  induction st as [|[r0 p] st IH]; simpl.
  - destruct (res_eqb r r'); reflexivity.
  - destruct (res_eqb_spec r0 r); simpl.
    + subst r0. rewrite IH. destruct (res_eqb_spec r r'); reflexivity.
    + destruct (res_eqb_spec r0 r'); simpl.
      * subst r0. destruct (res_eqb_spec r r'); [congruence|reflexivity].
      * exact IH.
Qed.

Lemma lookup_all_none st : (forall r, lookup r st = None) -> st = [].
Proof.
  destruct st as [|[r p] st]; [reflexivity|]. intros H. specialize (H r). simpl in H.
  rewrite res_eqb_refl in H. discriminate.
Qed.

(* one accepted step advances exactly the automaton of the resource the event talks about *)
Lemma mon_step_ok st e st' :
  mon_step st e = inl st' ->
  life_step (lookup (res_of e) st) (act_of e) = Some (lookup (res_of e) st') /\
  (forall r, r <> res_of e -> lookup r st' = lookup r st).
Proof.
  unfold mon_step. destruct (act_of e) as [p|p|]; destruct (lookup (res_of e) st) as [q|] eqn:L;
    simpl; intros H; try discriminate.
  - inversion H; subst st'. simpl. rewrite res_eqb_refl. split; [reflexivity|]. intros r Hr.
    destruct (res_eqb_spec (res_of e) r); [congruence|reflexivity].
  - destruct (pay_eqb q p); [|discriminate]. inversion H; subst st'.
    rewrite lookup_remove, res_eqb_refl. split; [reflexivity|]. intros r Hr.
    rewrite lookup_remove. destruct (res_eqb_spec (res_of e) r); [congruence|reflexivity].
  - inversion H; subst st'. rewrite L. split; [reflexivity|]. reflexivity.
Qed.

Lemma mon_step_err st e err :
  mon_step st e = inr err -> life_step (lookup (res_of e) st) (act_of e) = None.
Proof.
  unfold mon_step. destruct (act_of e) as [p|p|]; destruct (lookup (res_of e) st) as [q|] eqn:L;
    simpl; intros H; try discriminate; try reflexivity.
  destruct (pay_eqb q p); [discriminate|reflexivity].
Qed.

Lemma proj_cons_same e t : proj (res_of e) (e :: t) = act_of e :: proj (res_of e) t.
Proof. simpl. rewrite res_eqb_refl. reflexivity. Qed.

Lemma proj_cons_other r e t : r <> res_of e -> proj r (e :: t) = proj r t.
Proof. intros H. simpl. destruct (res_eqb_spec (res_of e) r); [congruence|reflexivity]. Qed.

Lemma mon_run_ok t : forall st st',
  mon_run st t = inl st' -> forall r, life_run (lookup r st) (proj r t) = Some (lookup r st').
Proof.
  induction t as [|e t IH]; simpl; intros st st' H r.
  - inversion H; reflexivity.
  - destruct (mon_step st e) as [st1|err] eqn:S; [|discriminate].
    destruct (mon_step_ok _ _ _ S) as [Hs Hf].
    destruct (res_eqb_spec (res_of e) r) as [E|Hne].
    + subst r. simpl. rewrite Hs. apply IH. exact H.
    + rewrite <- (Hf r) by congruence. apply IH. exact H.
Qed.

Lemma mon_run_err t : forall st err,
  mon_run st t = inr err -> exists r, life_run (lookup r st) (proj r t) = None.
Proof.
  induction t as [|e t IH]; simpl; intros st err H; [discriminate|].
  destruct (mon_step st e) as [st1|err1] eqn:S.
  - destruct (IH _ _ H) as [r Hr]. exists r.
    destruct (mon_step_ok _ _ _ S) as [Hs Hf].
    destruct (res_eqb_spec (res_of e) r) as [E|Hne].
    + subst r. simpl. rewrite Hs. exact Hr.
    + rewrite (Hf r) in Hr by congruence. exact Hr.
  - exists (res_of e). rewrite res_eqb_refl. simpl. rewrite (mon_step_err _ _ _ S). reflexivity.
Qed.

(* ---------------------------------------------------------------- the two theorems *)
Theorem monitor_sound t : accepts t = true -> trace_ok t.
Proof.
  unfold accepts, mon_check. destruct (mon_run [] t) as [st|err] eqn:R; [|discriminate].
  destruct st; [|discriminate]. intros _ r. apply wf_life_iff.
  exact (mon_run_ok _ _ _ R r).
Qed.

Theorem monitor_complete t : trace_ok t -> accepts t = true.
Proof.
  intros H. unfold accepts, mon_check. destruct (mon_run [] t) as [st|err] eqn:R.
  - assert (st = []) as ->; [|reflexivity]. apply lookup_all_none. intros r.
    pose proof (mon_run_ok _ _ _ R r) as Hr. simpl in Hr.
    rewrite (proj1 (wf_life_iff _) (H r)) in Hr. inversion Hr. reflexivity.
  - destruct (mon_run_err _ _ _ R) as [r Hr]. simpl in Hr.
    rewrite (proj1 (wf_life_iff _) (H r)) in Hr. discriminate.
Qed.

Theorem monitor_sound_complete t : accepts t = true <-> trace_ok t.
Proof. split; [apply monitor_sound|apply monitor_complete]. Qed.

(* the verdict of the driver: [mon_check] returns an error iff the trace violates the predicate *)
Corollary mon_check_none_iff t : mon_check t = None <-> trace_ok t.
Proof.
  rewrite <- monitor_sound_complete. unfold accepts. destruct (mon_check t); split; congruence.
Qed.

(* diagnostics agree with the verdict *)
Lemma mon_diag_run t : forall st i,
  match mon_diag st t i with
  | (_, None, st') => mon_run st t = inl st'
  | (_, Some err, _) => mon_run st t = inr err
  end.
Proof.
  induction t as [|e t IH]; simpl; intros st i; [reflexivity|].
  destruct (mon_step st e) as [st1|err] eqn:S; [apply IH|reflexivity].
Qed.

