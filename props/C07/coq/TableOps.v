(* C07 / table level: the row-level operations of DataTable.h as sequences of calls on mRaws and DataIndexes
     TryAdd / TryInsert   mRaws.Reserve(count+1); mIndexes.AddRaw(raw); mRaws.AddBackNogrow(raw) [+ std::rotate]
     TryUpdate(n, row)    mIndexes.UpdateRaw(mRaws[n], newRaw); mRaws[n] = newRaw
     TryUpdate(ref, col)  mIndexes.UpdateRaw(raw, offset, item, assigner)
     Remove / Extract     pvExtractRaw: mIndexes.RemoveRaw(raw); mRaws.Remove(n)  (or move the last row into the hole)
     Remove(range/filter), Assign   pvFilterRaws: mIndexes.FilterRaws(filter); compact mRaws   (noexcept)
     Clear                mIndexes.ClearRaws(); mRaws.Clear()
   with the failure points: mRaws.Reserve may throw (f_reserve), the f_step-th step of the index operation may throw.
   State = (rows in table order, index state, row contents). *)
From Coq Require Import List ZArith Lia Bool Arith PeanoNat Permutation.
From C07 Require Import TableSpec TableProofs MultiHash MultiHashProofs SegProofs IndexModel IndexProofs AtomicProofs RefineProofs ConsProofs ReachProofs.
Import ListNotations.

Record tstate := mkT { trows : list Z; tidx : istate; tct : Z -> row }.
Definition tgood (st : tstate) : Prop := good (tct st) (trows st) (tidx st).

Record tfail := mkF { f_reserve : bool; f_step : option nat }.
Inductive tresult := TOk | TRefused (raw : Z) (idx : nat) | TThrown.

Definition of_outcome (o : outcome) : tresult :=
  match o with Accepted => TOk | Refused r j => TRefused r j | Thrown => TThrown end.

(* TryAdd (n = count) / TryInsert *)
Definition t_insert ord R (f : tfail) (st : tstate) (n : nat) (raw : Z) : tstate * tresult :=
  if f_reserve f then (st, TThrown)
  else let '(s', o) := add_raw ord R (tct st) (f_step f) (tidx st) raw in
       (mkT (match o with Accepted => insert_at n raw (trows st) | _ => trows st end) s' (tct st), of_outcome o).

(* the ordering seeded change B introduced: AddRaw first, Reserve afterwards *)
Definition t_insert_reserve_late ord R (f : tfail) (st : tstate) (n : nat) (raw : Z) : tstate * tresult :=
  let '(s', o) := add_raw ord R (tct st) (f_step f) (tidx st) raw in
  match o with
  | Accepted => if f_reserve f then (mkT (trows st) s' (tct st), TThrown)
                else (mkT (insert_at n raw (trows st)) s' (tct st), TOk)
  | _ => (mkT (trows st) s' (tct st), of_outcome o)
  end.

Definition t_update_row ord R (f : tfail) (st : tstate) (n : nat) (new : Z) : tstate * tresult :=
  let old := nth n (trows st) 0%Z in
  let '(s', o) := update_raw true true ord R (tct st) (f_step f) (tidx st) old new in
  (mkT (match o with Accepted => set_nth n new (trows st) | _ => trows st end) s' (tct st), of_outcome o).

Definition t_update_col ord R (f : tfail) (st : tstate) (n c : nat) (v : Z) : tstate * tresult :=
  let raw := nth n (trows st) 0%Z in
  let '(s', o, ct') := update_col true true ord R (tct st) (f_step f) (tidx st) raw c v in
  (mkT (trows st) s' ct', of_outcome o).

Definition t_remove R (f : tfail) (st : tstate) (n : nat) (keep_order : bool) : tstate * tresult :=
  let raw := nth n (trows st) 0%Z in
  let '(s', o) := remove_raw true true R (tct st) (f_step f) (tidx st) raw in
  (mkT (match o with Accepted => if keep_order then remove_nth n (trows st) else remove_unordered n (trows st) | _ => trows st end)
       s' (tct st), of_outcome o).

Definition t_filter (st : tstate) (keep : Z -> bool) : tstate :=
  mkT (filter keep (trows st)) (filter_raws keep (tidx st)) (tct st).

Definition clear_raws (s : istate) : istate :=
  mkI (map (fun u => mkU (ucols u) [] None None) (uhs s)) (map (fun m => mkM (mcols m) [] None None) (mhs s)) (ntag s).
Definition t_clear (st : tstate) : tstate := mkT [] (clear_raws (tidx st)) (tct st).

(* ---------------------------------------------------------------- consistency only depends on the multiset of rows *)

Lemma good_perm ct rs rs' s : Permutation rs rs' -> good ct rs s -> good ct rs' s.
Proof.
  intros P [[Hu Hm] [Ht Hnd]]. split; [split|split; [exact Ht|eapply Permutation_NoDup; eassumption]].
  - eapply Forall_impl; [|exact Hu]. intros a [Hi Hp]. split; [exact Hi|etransitivity; eassumption].
  - eapply Forall_impl; [|exact Hm]. intros a [Hi Hp]. split; [exact Hi|etransitivity; eassumption].
Qed.

Lemma set_nth_perm_update (l : list Z) n new : n < length l -> Permutation (l ++ [new]) (nth n l 0%Z :: set_nth n new l).
Proof.
  intros H. etransitivity; [symmetry; apply Permutation_cons_append|].
  etransitivity; [apply perm_skip; apply (nth_remove_perm l n H)|]. etransitivity; [apply perm_swap|]. apply perm_skip.
  symmetry. apply set_nth_perm. exact H.
Qed.

(* ---------------------------------------------------------------- atomicity under allocation failure *)

Definition unchanged (st st' : tstate) : Prop :=
  trows st' = trows st /\ tct st' = tct st /\ uhs (tidx st') = uhs (tidx st) /\ Forall2 meq (mhs (tidx st)) (mhs (tidx st')).

Lemma absent_m_of_good ct rs s raw : good ct rs s -> ~ In raw rs -> Forall (row_absent_m raw) (mhs s).
Proof.
  intros [[_ Hm] _] Hraw. eapply Forall_impl; [|exact Hm]. intros m [_ Hp] Hin. apply Hraw. apply (Permutation_in _ Hp).
  apply in_map_iff in Hin as (g & <- & Hg). unfold allrows. apply in_flat_map. exists g. split; [exact Hg|left; reflexivity].
Qed.
Lemma absent_u_of_good ct rs s raw : good ct rs s -> ~ In raw rs -> Forall (row_absent_u raw) (uhs s).
Proof.
  intros [[Hu _] _] Hraw. eapply Forall_impl; [|exact Hu]. intros u [_ Hp] Hin. apply Hraw. apply (Permutation_in _ Hp). exact Hin.
Qed.

(* TryAdd / TryInsert: for EVERY failure schedule (Reserve throws or not, any step of AddRaw throws or not), every
   order and R: either the row is in the table at position n and in every index (consistently), or the table, the row
   contents and every unique hash are exactly what they were and every multi hash holds the same rows *)
Theorem t_insert_atomic ord R f st n raw :
  (forall k, R k k = true) -> tgood st -> ~ In raw (trows st) -> length (trows st) < max_vals -> n <= length (trows st) ->
  let '(st', r) := t_insert ord R f st n raw in
  tgood st' /\ ((r = TOk /\ trows st' = insert_at n raw (trows st)) \/ (r <> TOk /\ unchanged st st')).
Proof.
  intros HR Hg Hraw Hlen Hn. unfold t_insert. destruct (f_reserve f).
  - split; [exact Hg|]. right. split; [discriminate|]. repeat split; auto. apply Forall2_refl_l. apply meq_refl.
  - pose proof (add_raw_good ord R (tct st) (f_step f) (trows st) (tidx st) raw HR Hg Hraw Hlen) as H1.
    pose proof (two_phase_atomic_add ord R (tct st) (f_step f) (tidx st) raw (good_wf _ _ _ Hg) (absent_m_of_good _ _ _ raw Hg Hraw)) as H2.
    destruct (add_raw ord R (tct st) (f_step f) (tidx st) raw) as [s' o].
    destruct H1 as [[-> Hg']|[Ho Hg']].
    + split; [|left; split; reflexivity]. unfold tgood. cbn [trows tidx tct].
      eapply good_perm; [|exact Hg']. etransitivity; [symmetry; apply Permutation_cons_append|symmetry; apply insert_at_perm].
    + destruct H2 as [[Ea _]|[_ [E1 E2]]]; [congruence|].
      split; [destruct o; [congruence|exact Hg'|exact Hg']|]. right.
      split; [destruct o; [congruence|discriminate|discriminate]|]. unfold unchanged. cbn [trows tidx tct].
      destruct o; [congruence| |]; repeat split; auto.
Qed.

(* the ordering of seeded change B is NOT atomic: Reserve failing after an accepted AddRaw leaves the row in the
   indexes but not in the table *)
Theorem reserve_after_addraw_refuted :
  exists ord R f st n raw,
    (forall k, R k k = true) /\ tgood st /\ ~ In raw (trows st) /\
    let '(st', r) := t_insert_reserve_late ord R f st n raw in
    r = TThrown /\ trows st' = trows st /\
    exists m, In m (mhs (tidx st')) /\ In raw (find_multi R (tct st') m (keyc (tct st') (mcols m) raw)).
Proof.
  exists (fun _ => 0), (fun _ _ => true), (mkF true None),
         (mkT [] (mkI [] [mkM [0] [] None None] 0) (fun r => [r])), 0, 5%Z.
  split; [reflexivity|]. split.
  - unfold tgood, good, consistent, tags_ok. cbn [trows tidx tct uhs mhs ntag].
    split; [split; [constructor|constructor; [exact (proj2 (empty_consistent (fun r : Z => [r]) [0]))|constructor]]|].
    split; [split; [constructor|constructor; [constructor|constructor]]|constructor].
  - split; [intros []|]. vm_compute. split; [reflexivity|]. split; [reflexivity|].
    eexists. split; [left; reflexivity|]. left. reflexivity.
Qed.

Theorem t_update_row_atomic ord R f st n new :
  (forall k, R k k = true) -> tgood st -> ~ In new (trows st) -> n < length (trows st) -> length (trows st) < max_vals ->
  let '(st', r) := t_update_row ord R f st n new in
  tgood st' /\ ((r = TOk /\ trows st' = set_nth n new (trows st)) \/ (r <> TOk /\ unchanged st st')).
Proof.
  intros HR Hg Hnew Hn Hlen. unfold t_update_row.
  set (old := nth n (trows st) 0%Z).
  assert (Hold : In old (trows st)) by (apply nth_In; exact Hn).
  pose proof (update_raw_good ord R (tct st) (f_step f) (trows st) (set_nth n new (trows st)) (tidx st) old new HR Hg Hnew Hold Hlen
                (set_nth_perm_update (trows st) n new Hn)) as H1.
  pose proof (two_phase_atomic_update true true ord R (tct st) (f_step f) (tidx st) old new (good_wf _ _ _ Hg)
                (absent_u_of_good _ _ _ new Hg Hnew) (absent_m_of_good _ _ _ new Hg Hnew)) as H2.
  destruct (update_raw true true ord R (tct st) (f_step f) (tidx st) old new) as [s' o].
  destruct H1 as [[-> Hg']|[Ho Hg']].
  - split; [exact Hg'|left; split; reflexivity].
  - destruct H2 as [[Ea _]|[_ [E1 E2]]]; [congruence|].
    split; [destruct o; [congruence|exact Hg'|exact Hg']|]. right.
    split; [destruct o; [congruence|discriminate|discriminate]|]. unfold unchanged. cbn [trows tidx tct].
    destruct o; [congruence| |]; repeat split; auto.
Qed.

Theorem t_update_col_atomic ord R f st n c v :
  (forall k, R k k = true) -> tgood st -> n < length (trows st) -> c < length (tct st (nth n (trows st) 0%Z)) ->
  length (trows st) <= max_vals ->
  let '(st', r) := t_update_col ord R f st n c v in
  tgood st' /\ trows st' = trows st /\ (r <> TOk -> unchanged st st').
Proof.
  intros HR Hg Hn Hc Hlen. unfold t_update_col. set (raw := nth n (trows st) 0%Z) in *.
  assert (Hraw : In raw (trows st)) by (apply nth_In; exact Hn).
  pose proof (update_col_good ord R (tct st) (f_step f) (trows st) (tidx st) raw c v HR Hg Hraw Hc Hlen) as H1.
  pose proof (two_phase_atomic_update_column true true ord R (tct st) (f_step f) (tidx st) raw c v (good_wf _ _ _ Hg)) as H2.
  destruct (update_col true true ord R (tct st) (f_step f) (tidx st) raw c v) as [[s' o] ct'].
  destruct H1 as [Hg' Hct]. split; [exact Hg'|]. split; [reflexivity|].
  intros Hr. destruct H2 as [[Ea _]|[_ [[E1 E2] E3]]]; [subst o; contradiction|].
  unfold unchanged. cbn [trows tidx tct]. repeat split; auto.
Qed.

Theorem t_remove_atomic R f st n keep_order :
  (forall k, R k k = true) -> tgood st -> n < length (trows st) ->
  let '(st', r) := t_remove R f st n keep_order in
  tgood st' /\ ((r = TOk /\ trows st' = if keep_order then remove_nth n (trows st) else remove_unordered n (trows st)) \/
                (r <> TOk /\ trows st' = trows st /\ tct st' = tct st)).
Proof.
  intros HR Hg Hn. unfold t_remove. set (raw := nth n (trows st) 0%Z).
  pose proof (remove_raw_good R (tct st) (f_step f) (trows st) (remove_nth n (trows st)) (tidx st) raw HR Hg (nth_remove_perm (trows st) n Hn)) as H1.
  destruct (remove_raw true true R (tct st) (f_step f) (tidx st) raw) as [s' o].
  destruct H1 as [[-> Hg']|[Ho Hg']].
  - split; [|left; split; reflexivity]. unfold tgood. cbn [trows tidx tct]. destruct keep_order; [exact Hg'|].
    eapply good_perm; [|exact Hg']. symmetry. apply remove_unordered_perm. exact Hn.
  - split; [destruct o; [congruence|exact Hg'|exact Hg']|]. right. destruct o; [congruence| |]; repeat split; discriminate.
Qed.

Theorem t_filter_good st keep : tgood st -> length (trows st) <= max_vals -> tgood (t_filter st keep).
Proof. intros Hg Hl. apply filter_raws_good; assumption. Qed.

Theorem t_clear_good st : tgood st -> tgood (t_clear st).
Proof.
  intros [[Hu Hm] [[Htu Htm] _]]. unfold tgood, t_clear, clear_raws, good, consistent, tags_ok. cbn [trows tidx tct uhs mhs ntag].
  repeat split; try apply NoDup_nil; apply Forall_map.
  - eapply Forall_impl; [|exact Hu]. intros a _. exact (proj1 (empty_consistent (tct st) (ucols a))).
  - eapply Forall_impl; [|exact Hm]. intros a _. exact (proj2 (empty_consistent (tct st) (mcols a))).
  - eapply Forall_impl; [|exact Htu]. intros a _. constructor.
  - eapply Forall_impl; [|exact Htm]. intros a _. constructor.
Qed.

(* ---------------------------------------------------------------- the L0 reading of the accepted operations *)

Lemma map_insert_at {A B} (f : A -> B) n x l : map f (insert_at n x l) = insert_at n (f x) (map f l).
Proof. unfold insert_at. rewrite map_app, firstn_map, skipn_map. reflexivity. Qed.
Lemma map_set_nth {A B} (f : A -> B) n x l : map f (set_nth n x l) = set_nth n (f x) (map f l).
Proof. revert n; induction l as [|y l IH]; intros [|n]; simpl; auto. rewrite IH. reflexivity. Qed.
Lemma map_remove_nth' {A B} (f : A -> B) n l : map f (remove_nth n l) = remove_nth n (map f l).
Proof. apply remove_nth_map. Qed.

(* ---------------------------------------------------------------- the row-level operations, together *)

Theorem table_op_atomic_under_allocation_failure :
  (forall ord R f st n raw,
     (forall k, R k k = true) -> tgood st -> ~ In raw (trows st) -> length (trows st) < max_vals -> n <= length (trows st) ->
     let '(st', r) := t_insert ord R f st n raw in
     tgood st' /\ ((r = TOk /\ trows st' = insert_at n raw (trows st)) \/ (r <> TOk /\ unchanged st st'))) /\
  (forall ord R f st n new,
     (forall k, R k k = true) -> tgood st -> ~ In new (trows st) -> n < length (trows st) -> length (trows st) < max_vals ->
     let '(st', r) := t_update_row ord R f st n new in
     tgood st' /\ ((r = TOk /\ trows st' = set_nth n new (trows st)) \/ (r <> TOk /\ unchanged st st'))) /\
  (forall ord R f st n c v,
     (forall k, R k k = true) -> tgood st -> n < length (trows st) -> c < length (tct st (nth n (trows st) 0%Z)) ->
     length (trows st) <= max_vals ->
     let '(st', r) := t_update_col ord R f st n c v in
     tgood st' /\ trows st' = trows st /\ (r <> TOk -> unchanged st st')) /\
  (forall R f st n keep_order,
     (forall k, R k k = true) -> tgood st -> n < length (trows st) ->
     let '(st', r) := t_remove R f st n keep_order in
     tgood st' /\ ((r = TOk /\ trows st' = if keep_order then remove_nth n (trows st) else remove_unordered n (trows st)) \/
                   (r <> TOk /\ trows st' = trows st /\ tct st' = tct st))).
Proof.
  split; [exact t_insert_atomic|]. split; [exact t_update_row_atomic|]. split; [exact t_update_col_atomic|exact t_remove_atomic].
Qed.

(* ---------------------------------------------------------------- every reachable table state *)

Inductive treach : tstate -> Prop :=
| tr_empty ct : treach (mkT [] empty_istate ct)
| tr_newrow st ct' : treach st -> (forall r, In r (trows st) -> ct' r = tct st r) -> treach (mkT (trows st) (tidx st) ct')
| tr_index_u ord R st cols : (forall k, R k k = true) -> treach st ->
    treach (mkT (trows st) (fst (add_unique_index ord R (tct st) (tidx st) cols (trows st))) (tct st))
| tr_index_m ord R st cols : (forall k, R k k = true) -> treach st -> length (trows st) <= max_vals ->
    treach (mkT (trows st) (add_multi_index ord R (tct st) (tidx st) cols (trows st)) (tct st))
| tr_insert ord R f st n raw : (forall k, R k k = true) -> treach st -> ~ In raw (trows st) -> length (trows st) < max_vals ->
    n <= length (trows st) -> treach (fst (t_insert ord R f st n raw))
| tr_update_row ord R f st n new : (forall k, R k k = true) -> treach st -> ~ In new (trows st) -> n < length (trows st) ->
    length (trows st) < max_vals -> treach (fst (t_update_row ord R f st n new))
| tr_update_col ord R f st n c v : (forall k, R k k = true) -> treach st -> n < length (trows st) ->
    c < length (tct st (nth n (trows st) 0%Z)) -> length (trows st) <= max_vals -> treach (fst (t_update_col ord R f st n c v))
| tr_remove R f st n keep_order : (forall k, R k k = true) -> treach st -> n < length (trows st) ->
    treach (fst (t_remove R f st n keep_order))
| tr_filter st keep : treach st -> length (trows st) <= max_vals -> treach (t_filter st keep)
| tr_assign st rs' : treach st -> Permutation (trows st) rs' -> treach (mkT rs' (tidx st) (tct st))   (* Assign's reordering *)
| tr_clear st : treach st -> treach (t_clear st).

Theorem every_table_state_consistent st : treach st -> tgood st.
Proof.
  induction 1.
  - apply empty_good.
  - unfold tgood in *. cbn [trows tidx tct]. eapply good_frame; eassumption.
  - unfold tgood in *. cbn [trows tidx tct]. apply add_unique_index_good; assumption.
  - unfold tgood in *. cbn [trows tidx tct]. apply add_multi_index_good; assumption.
  - pose proof (t_insert_atomic ord R f st n raw H IHtreach H1 H2 H3) as Hx. destruct (t_insert ord R f st n raw). exact (proj1 Hx).
  - pose proof (t_update_row_atomic ord R f st n new H IHtreach H1 H2 H3) as Hx. destruct (t_update_row ord R f st n new). exact (proj1 Hx).
  - pose proof (t_update_col_atomic ord R f st n c v H IHtreach H1 H2 H3) as Hx. destruct (t_update_col ord R f st n c v). exact (proj1 Hx).
  - pose proof (t_remove_atomic R f st n keep_order H IHtreach H1) as Hx. destruct (t_remove R f st n keep_order). exact (proj1 Hx).
  - apply t_filter_good; assumption.
  - unfold tgood in *. cbn [trows tidx tct]. eapply good_perm; eassumption.
  - apply t_clear_good; assumption.
Qed.

(* the central sentence at table level: in every reachable table state (any history of TryAdd / TryInsert / TryUpdate row
   and column / Remove / Extract / Remove(range, filter) / Assign / Clear / index creation, under any allocation-failure
   schedule) a query through any index returns what the brute-force filter over the table rows returns *)
Theorem table_queries_equal_brute_force st :
  treach st ->
  (forall R u k, (forall x, R x x = true) -> In u (uhs (tidx st)) ->
     Permutation (find_unique R (tct st) u k) (filter (has_key (tct st) (ucols u) k) (trows st))) /\
  (forall R m k, (forall x, R x x = true) -> In m (mhs (tidx st)) ->
     Permutation (find_multi R (tct st) m k) (filter (has_key (tct st) (mcols m) k) (trows st))) /\
  (forall R m k f g, (forall x, R x x = true) -> In m (mhs (tidx st)) -> (forall r, g r = has_key (tct st) (mcols m) k r && f r) ->
     Permutation (select_via_multi R (tct st) m k f) (select_scan (trows st) g)) /\
  (forall R u k f g, (forall x, R x x = true) -> In u (uhs (tidx st)) -> (forall r, g r = has_key (tct st) (ucols u) k r && f r) ->
     Permutation (select_via_unique R (tct st) u k f) (select_scan (trows st) g)).
Proof.
  intros Hr. destruct (every_table_state_consistent st Hr) as [[Hu Hm] _]. rewrite Forall_forall in Hu, Hm. repeat split.
  - intros R u k HR Hin. apply find_unique_is_scan; [exact HR|apply Hu; exact Hin].
  - intros R m k HR Hin. apply find_multi_is_scan; [exact HR|apply Hm; exact Hin].
  - intros R m k f g HR Hin Hg. apply (select_via_multi_is_scan R (tct st) (trows st) m k f g); [assumption|apply Hm; assumption|assumption].
  - intros R u k f g HR Hin Hg. apply (select_via_unique_is_scan R (tct st) (trows st) u k f g); [assumption|apply Hu; assumption|assumption].
Qed.

(* ---------------------------------------------------------------- Remove / Extract: the failure case *)

(* DataIndexes::RemoveRaw can only throw from its Prepare phase, which consists of lookups (HashSet::Find /
   HashMultiMap::Find and, after 4f7b624 / 2211fdb, a scan): no step allocates, so with std::bad_alloc as the only
   failure it cannot fail at all.  The model nevertheless lets the phase throw (fl = Some _): then the catch block
   only clears the remembered positions, and the index state is EXACTLY what it was. *)
Lemma remove_raw_failure_identity R ct k s raw :
  wf s -> fst (remove_raw true true R ct (Some k) s raw) = mkI (uhs s) (mhs s) (ntag s + tags_used s) /\
          snd (remove_raw true true R ct (Some k) s raw) = Thrown.
Proof.
  intros [Hu Hm]. unfold remove_raw, finish. cbn [fst snd]. split; [|reflexivity]. f_equal.
  - apply (map_id_clean u_reject_remove uclean).
    + intros u [Ha Hr]. unfold u_reject_remove. destruct u; simpl in *; subst; reflexivity.
    + eapply Forall_impl; [|exact Hu]. intros a [H _]. exact H.
  - apply (map_id_clean m_reject_remove mclean).
    + intros m [_ Hr]. apply m_reject_remove_clean. exact Hr.
    + eapply Forall_impl; [|exact Hm]. intros a [H _]. exact H.
Qed.

Theorem t_remove_failure_unchanged R f st n keep_order :
  tgood st -> snd (t_remove R f st n keep_order) <> TOk -> unchanged st (fst (t_remove R f st n keep_order)).
Proof.
  intros Hg. unfold t_remove. destruct (f_step f) as [k|] eqn:Ef.
  - destruct (remove_raw_failure_identity R (tct st) k (tidx st) (nth n (trows st) 0%Z) (good_wf _ _ _ Hg)) as [E1 E2].
    destruct (remove_raw true true R (tct st) (Some k) (tidx st) (nth n (trows st) 0%Z)) as [s' o]. cbn [fst snd] in *. subst.
    intros _. unfold unchanged. cbn [trows tidx tct uhs mhs]. repeat split; auto. apply Forall2_refl_l. apply meq_refl.
  - unfold remove_raw, finish. cbn [fst snd of_outcome]. intros H. contradiction.
Qed.

(* ---------------------------------------------------------------- row numbers (Settings::keepRowNumber) *)

(* which pvSetNumber / pvSetNumbers(beginNumber) calls each table operation makes (DataTable.h:1094-1354), as a
   transformation of the list of numbers stored in the rows, in table order; nothing is written when the operation
   is refused or throws.  Independent of the column-list flavour (static / dynamic): the number lives in the raw. *)
From C07 Require Import NumModel.

Definition num_insert (n len : nat) (r : tresult) (nums : list nat) : list nat :=
  match r with TOk => set_nums n (insert_at n len nums) | _ => nums end.      (* pvSetNumber(raw, count); rotate; pvSetNumbers(n) *)
Definition num_update_row (n : nat) (r : tresult) (nums : list nat) : list nat :=
  match r with TOk => set_nth n n nums | _ => nums end.                       (* pvSetNumber(newRaw, rowNumber) *)
Definition num_remove (n : nat) (keep_order : bool) (r : tresult) (nums : list nat) : list nat :=
  match r with
  | TOk => if keep_order then set_nums n (remove_nth n nums)                   (* mRaws.Remove(n); pvSetNumbers(n) *)
           else let l := remove_unordered n nums in if Nat.ltb n (length l) then set_nth n n l else l
  | _ => nums
  end.
Definition num_filter (newlen : nat) : list nat := seq 0 newlen.              (* pvFilterRaws; pvSetNumbers() *)

Lemma t_insert_rows ord R f st n raw :
  let '(st', r) := t_insert ord R f st n raw in
  (r = TOk /\ trows st' = insert_at n raw (trows st)) \/ (r <> TOk /\ trows st' = trows st).
Proof.
  unfold t_insert. destruct (f_reserve f); [right; split; [discriminate|reflexivity]|].
  destruct (add_raw ord R (tct st) (f_step f) (tidx st) raw) as [s' o]. destruct o; cbn [of_outcome trows];
    [left; split; reflexivity|right; split; [discriminate|reflexivity]|right; split; [discriminate|reflexivity]].
Qed.
Lemma t_update_row_rows ord R f st n new :
  let '(st', r) := t_update_row ord R f st n new in
  (r = TOk /\ trows st' = set_nth n new (trows st)) \/ (r <> TOk /\ trows st' = trows st).
Proof.
  unfold t_update_row. destruct (update_raw true true ord R (tct st) (f_step f) (tidx st) _ new) as [s' o]. destruct o; cbn [of_outcome trows];
    [left; split; reflexivity|right; split; [discriminate|reflexivity]|right; split; [discriminate|reflexivity]].
Qed.
Lemma t_remove_rows R f st n keep_order :
  let '(st', r) := t_remove R f st n keep_order in
  (r = TOk /\ trows st' = if keep_order then remove_nth n (trows st) else remove_unordered n (trows st)) \/ (r <> TOk /\ trows st' = trows st).
Proof.
  unfold t_remove. destruct (remove_raw true true R (tct st) (f_step f) (tidx st) _) as [s' o]. destruct o; cbn [of_outcome trows];
    [left; split; reflexivity|right; split; [discriminate|reflexivity]|right; split; [discriminate|reflexivity]].
Qed.

(* after every table operation - accepted, refused or interrupted by an allocation failure - the number stored in every
   row is its position *)
Theorem table_row_numbers_are_positions :
  (forall ord R f st n raw nums, nums = seq 0 (length (trows st)) -> n <= length (trows st) ->
     let '(st', r) := t_insert ord R f st n raw in num_insert n (length (trows st)) r nums = seq 0 (length (trows st'))) /\
  (forall ord R f st n new nums, nums = seq 0 (length (trows st)) -> n < length (trows st) ->
     let '(st', r) := t_update_row ord R f st n new in num_update_row n r nums = seq 0 (length (trows st'))) /\
  (forall ord R f st n c v nums, nums = seq 0 (length (trows st)) ->
     let '(st', r) := t_update_col ord R f st n c v in nums = seq 0 (length (trows st'))) /\
  (forall R f st n keep_order nums, nums = seq 0 (length (trows st)) -> n < length (trows st) ->
     let '(st', r) := t_remove R f st n keep_order in num_remove n keep_order r nums = seq 0 (length (trows st'))) /\
  (forall st keep, num_filter (length (trows (t_filter st keep))) = seq 0 (length (trows (t_filter st keep)))) /\
  (forall st, @nil nat = seq 0 (length (trows (t_clear st)))).
Proof.
  repeat split.
  - intros ord R f st n raw nums Hn Hle. pose proof (t_insert_rows ord R f st n raw) as H.
    destruct (t_insert ord R f st n raw) as [st' r]. destruct H as [[-> E]|[Hr E]].
    + rewrite E, insert_at_length. subst nums. unfold num_insert. apply set_nums_ok.
      * rewrite insert_at_length, seq_length. reflexivity.
      * lia.
      * rewrite firstn_insert_at by (rewrite seq_length; lia). apply firstn_seq. lia.
    + rewrite E. unfold num_insert. destruct r; [congruence|exact Hn|exact Hn].
  - intros ord R f st n new nums Hn Hlt. pose proof (t_update_row_rows ord R f st n new) as H.
    destruct (t_update_row ord R f st n new) as [st' r]. destruct H as [[-> E]|[Hr E]].
    + rewrite E, set_nth_length. subst nums. unfold num_update_row. apply set_nth_seq. exact Hlt.
    + rewrite E. unfold num_update_row. destruct r; [congruence|exact Hn|exact Hn].
  - intros ord R f st n c v nums Hn. unfold t_update_col.
    destruct (update_col true true ord R (tct st) (f_step f) (tidx st) _ c v) as [[s' o] ct']. cbn [trows]. exact Hn.
  - intros R f st n keep_order nums Hn Hlt. pose proof (t_remove_rows R f st n keep_order) as H.
    destruct (t_remove R f st n keep_order) as [st' r]. destruct H as [[-> E]|[Hr E]].
    + rewrite E. subst nums. unfold num_remove. destruct keep_order.
      * rewrite remove_nth_length by exact Hlt. apply set_nums_ok.
        -- rewrite remove_nth_length, seq_length by (rewrite seq_length; exact Hlt). reflexivity.
        -- lia.
        -- rewrite firstn_remove_nth. apply firstn_seq. lia.
      * pose proof (Permutation_length (remove_unordered_perm (trows st) n Hlt)) as P. rewrite P.
        rewrite remove_nth_length by exact Hlt. apply unordered_nums. exact Hlt.
    + rewrite E. unfold num_remove. destruct r; [congruence|exact Hn|exact Hn].
Qed.
