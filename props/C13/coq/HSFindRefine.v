(* C13: HashSet::pvFind(indexCode, buckets, itemPred) -- the search loop that the stored bound limits -- regenerated from
   HashSet.h for an open-addressing set (Gen_HSFindIn.v: buckets are handles; Find / GetMaxProbe / WasFull of the bucket
   are Section variables) IS the search of the hand table model OpenTable.find, for every bookkeeping instance:
   it looks into the home bucket and into the buckets at probes 1..GetMaxProbe(home) and nowhere else, reports the
   first of them that holds the key, and reports "absent" exactly when OpenTable.find does. *)
From Coq Require Import ZArith Bool List Lia.
From MomoCommon Require Import GenPrelude.
From C13 Require Import ProbeSeq OpenTable.
From C13 Require Gen_HSFindIn Gen_BucketBase.
Import ListNotations.
Local Open Scope Z_scope.

Section Refine.
Variable n : Z.
Hypothesis Hn : 0 <= n <= 63.
Variable next : Z -> Z -> Z -> Z.          (* GetNextBucketIndex (bucketIndex, bucketCount, probe) *)
Variable B : Type.
Variable decodeB : B -> Z.                 (* GetMaxProbe *)
Variable wasfullB : B -> bool.             (* WasFull: the loop guard HashSet::pvFind really evaluates *)
Variable hash : Z -> Z.                    (* the user's hash function: arbitrary *)

Definition home (k : Z) : Z := Gen_BucketBase.GetStartBucketIndex (hash k) (2 ^ n).

(* a bucket handle := its index; the iterator returned by Bucket::Find := 1 when the key is in the bucket, null (0) otherwise *)
Definition b_find (s : table B) (b _params k _hc : Z) : Z := if mem k (bk B s b) then 1 else 0.
Definition it_neb (a b : Z) : bool := negb (Z.eqb a b).

Definition gen_find (s : table B) (k : Z) :=
  Gen_HSFindIn.pvFindIn (fun _ => 2 ^ n) (fun _ => n) Gen_BucketBase.GetStartBucketIndex
    (fun i _ bc p => next i bc p) (b_find s) (fun b _ => decodeB (bd B s b)) (fun b => wasfullB (bd B s b)) (fun _ i => i) it_neb
    (hash k) 0 k 0.

(* the first probe in p, p+1, ..., p+fuel-1 whose bucket holds the key *)
Fixpoint first_hit (s : table B) (k : Z) (p : nat) (fuel : nat) : option nat :=
  match fuel with
  | O => None
  | S f => if mem k (bk B s (probe_index next n (home k) p)) then Some p else first_hit s k (S p) f
  end.

Lemma first_hit_some s k : forall fuel p q, first_hit s k p fuel = Some q ->
  (p <= q < p + fuel)%nat /\ mem k (bk B s (probe_index next n (home k) q)) = true /\
  forall r, (p <= r < q)%nat -> mem k (bk B s (probe_index next n (home k) r)) = false.
Proof.
  induction fuel as [|f IH]; intros p q H; cbn [first_hit] in H; [discriminate|].
  destruct (mem k (bk B s (probe_index next n (home k) p))) eqn:Hm.
  - assert (q = p) by congruence. subst q. split; [lia|]. split; [exact Hm|]. intros r Hr; lia.
  - destruct (IH _ _ H) as (H1 & H2 & H3). split; [lia|]. split; [exact H2|].
    intros r Hr. destruct (Nat.eq_dec r p) as [->|Hne]; [exact Hm|]. apply H3. lia.
Qed.

Lemma first_hit_none s k : forall fuel p, first_hit s k p fuel = None ->
  forall r, (p <= r < p + fuel)%nat -> mem k (bk B s (probe_index next n (home k) r)) = false.
Proof.
  induction fuel as [|f IH]; intros p H r Hr; [lia|]. cbn [first_hit] in H.
  destruct (mem k (bk B s (probe_index next n (home k) p))) eqn:Hm; [discriminate|].
  destruct (Nat.eq_dec r p) as [->|Hne]; [exact Hm|]. apply (IH (S p) H). lia.
Qed.

(* first_hit over probes 0..D decides exactly OpenTable.find *)
Lemma first_hit_is_find s k :
  0 <= decodeB (bd B s (home k)) ->
  (exists p, first_hit s k 0 (S (Z.to_nat (decodeB (bd B s (home k))))) = Some p) <->
  find n next home B decodeB s k = true.
Proof.
  intros HD. unfold find. rewrite existsb_exists. split.
  - intros (p & Hp). apply first_hit_some in Hp. destruct Hp as (H1 & H2 & _).
    exists p. split; [apply in_seq; lia|exact H2].
  - intros (p & Hin & Hm). apply in_seq in Hin.
    destruct (first_hit s k 0 (S (Z.to_nat (decodeB (bd B s (home k)))))) as [q|] eqn:Hf; [exists q; reflexivity|].
    pose proof (first_hit_none s k _ _ Hf p ltac:(lia)) as Hno. unfold pidx in Hm. congruence.
Qed.

Definition gen_loop (fuel : nat) (s : table B) (k : Z) (D : Z) (p : nat) :=
  Gen_HSFindIn.pvFindIn_loop0 (fun i _ bc p => next i bc p) (b_find s) (fun b => wasfullB (bd B s b)) (fun _ i => i) it_neb
    fuel (2 ^ n) 0 0 (hash k) k D
    (probe_index next n (home k) p) (probe_index next n (home k) p) 0 (hash k) (Z.of_nat (S p)).

(* the loop, started after probe p found nothing, with every bucket reporting WasFull (open-addressing buckets always do) *)
Lemma loop_is_first_hit s k D : 0 <= D < 2 ^ 64 - 1 -> (forall b, wasfullB b = true) ->
  forall f p, Z.of_nat p + Z.of_nat f = D ->
  gen_loop (S f) s k D p =
  match first_hit s k (S p) f with
  | Some q => Ok (Some 1, (probe_index next n (home k) q, probe_index next n (home k) q, 1, probe_index next n (home k) q, Z.of_nat q))
  | None => Ok (None, (probe_index next n (home k) (Z.to_nat D), probe_index next n (home k) (Z.to_nat D), 0, hash k, D + 1))
  end.
Proof.
  intros HD Hwf.
  induction f as [|f IH]; intros p Hpf; unfold gen_loop; rewrite Gen_HSFindIn.pvFindIn_loop0_eq; rewrite Hwf; cbn [andb first_hit].
  - destruct (Z.leb_spec (Z.of_nat (S p)) D); [lia|].
    replace (Z.to_nat D) with p by lia. replace (D + 1) with (Z.of_nat (S p)) by lia. reflexivity.
  - destruct (Z.leb_spec (Z.of_nat (S p)) D); [|lia].
    cbv zeta. change (next (probe_index next n (home k) p) (2 ^ n) (Z.of_nat (S p))) with (probe_index next n (home k) (S p)).
    assert (Hb : b_find s (probe_index next n (home k) (S p)) 0 k (hash k) =
                 if mem k (bk B s (probe_index next n (home k) (S p))) then 1 else 0) by reflexivity.
    rewrite Hb. clear Hb. destruct (mem k (bk B s (probe_index next n (home k) (S p)))) eqn:Hm.
    + reflexivity.
    + cbn [it_neb negb Z.eqb].
      rewrite wrapU_small by lia.
      specialize (IH (S p) ltac:(lia)). unfold gen_loop in IH.
      replace (Z.of_nat (S p) + 1) with (Z.of_nat (S (S p))) by lia.
      (* the loop's bucketIter / indexCode components are not read before being overwritten: IH is stated for 0 / hash k *)
      exact IH.
Qed.

(* the regenerated pvFind and the model's search agree: same verdict, and the reported bucket is the FIRST bucket of the
   probe sequence (home, probes 1..GetMaxProbe(home)) that holds the key; no bucket beyond the stored bound is examined *)
Theorem generated_find_is_first_hit s k :
  0 <= decodeB (bd B s (home k)) < 2 ^ 64 - 1 -> (forall b, wasfullB b = true) ->
  gen_find s k =
  match first_hit s k 0 (S (Z.to_nat (decodeB (bd B s (home k))))) with
  | Some p => Ok (1, probe_index next n (home k) p)
  | None => Ok (0, hash k)
  end.
Proof.
  intros HD Hwf. unfold gen_find, Gen_HSFindIn.pvFindIn. cbv zeta. fold (home k).
  cbn [first_hit probe_index].
  assert (Hb : b_find s (home k) 0 k (hash k) = if mem k (bk B s (home k)) then 1 else 0) by reflexivity.
  rewrite Hb. clear Hb. destruct (mem k (bk B s (home k))) eqn:Hm; [reflexivity|].
  cbn [it_neb negb Z.eqb].
  set (D := decodeB (bd B s (home k))) in *.
  pose proof (loop_is_first_hit s k D HD Hwf (Z.to_nat D) 0%nat ltac:(lia)) as HL. unfold gen_loop in HL.
  cbn [probe_index] in HL. change (Z.of_nat 1) with 1 in HL. rewrite HL. clear HL.
  destruct (first_hit s k 1 (Z.to_nat D)) as [q|]; reflexivity.
Qed.

Theorem generated_find_is_table_find s k r ic :
  0 <= decodeB (bd B s (home k)) < 2 ^ 64 - 1 -> (forall b, wasfullB b = true) ->
  gen_find s k = Ok (r, ic) ->
  (r <> 0 <-> find n next home B decodeB s k = true) /\
  (r <> 0 -> In k (bk B s ic)).
Proof.
  intros HD Hwf Hg. rewrite (generated_find_is_first_hit s k HD Hwf) in Hg.
  rewrite <- (first_hit_is_find s k ltac:(lia)).
  destruct (first_hit s k 0 (S (Z.to_nat (decodeB (bd B s (home k)))))) as [p|] eqn:Hf.
  - assert (r = 1 /\ ic = probe_index next n (home k) p) as [-> ->] by (split; congruence).
    split; [split; [intros _; exists p; reflexivity|intros _; discriminate]|].
    intros _. apply first_hit_some in Hf. destruct Hf as (_ & Hm & _). apply mem_In. exact Hm.
  - assert (r = 0) as -> by congruence.
    split; [split; [intros H; exfalso; apply H; reflexivity|intros (p & Hp); discriminate]|].
    intros H; exfalso; apply H; reflexivity.
Qed.

(* totality: the generated search never gets stuck, runs out of fuel or throws *)
Theorem generated_find_total s k :
  0 <= decodeB (bd B s (home k)) < 2 ^ 64 - 1 -> (forall b, wasfullB b = true) ->
  exists r ic, gen_find s k = Ok (r, ic).
Proof.
  intros HD Hwf. rewrite (generated_find_is_first_hit s k HD Hwf).
  destruct (first_hit s k 0 _); eexists; eexists; reflexivity.
Qed.
(* a key the model's search finds is found by the regenerated code, in a bucket that really holds it;
   a key the model's search misses is reported absent, with the position carrying the hash code *)
Theorem generated_find_finds s k :
  0 <= decodeB (bd B s (home k)) < 2 ^ 64 - 1 -> (forall b, wasfullB b = true) ->
  find n next home B decodeB s k = true -> exists ic, gen_find s k = Ok (1, ic) /\ In k (bk B s ic).
Proof.
  intros HD Hwf Hf. apply (first_hit_is_find s k ltac:(lia)) in Hf. destruct Hf as (p & Hp).
  rewrite (generated_find_is_first_hit s k HD Hwf), Hp. eexists. split; [reflexivity|].
  apply first_hit_some in Hp. destruct Hp as (_ & Hm & _). apply mem_In. exact Hm.
Qed.

Theorem generated_find_absent s k :
  0 <= decodeB (bd B s (home k)) < 2 ^ 64 - 1 -> (forall b, wasfullB b = true) ->
  find n next home B decodeB s k = false -> gen_find s k = Ok (0, hash k).
Proof.
  intros HD Hwf Hf. rewrite (generated_find_is_first_hit s k HD Hwf).
  destruct (first_hit s k 0 (S (Z.to_nat (decodeB (bd B s (home k)))))) as [p|] eqn:Hp; [|reflexivity].
  assert (find n next home B decodeB s k = true) by (apply (first_hit_is_find s k ltac:(lia)); exists p; exact Hp).
  congruence.
Qed.
End Refine.
