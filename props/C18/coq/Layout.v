(* C18 -- the offset assignment of pvAddEdges (via the generated Ceil): every column gets its own aligned slot. *)
From Coq Require Import ZArith Bool List Lia.
From MomoCommon Require Import GenPrelude.
From C18 Require Import Gen_Ceil Model.
Import ListNotations.
Local Open Scope Z_scope.

(* ---------- the generated Ceil ---------- *)
Lemma Ceil_spec v m : 0 < m <= 16 -> 0 <= v <= 2 ^ 63 ->
  v <= Ceil v m < v + m /\ Ceil v m mod m = 0.
Proof.
  intros Hm Hv. unfold Ceil.
  rewrite (wrapU_small 64 (v + m)) by lia.
  rewrite (wrapU_small 64 (v + m - 1)) by lia.
  pose proof (Z.div_mod (v + m - 1) m ltac:(lia)) as E.
  pose proof (Z.mod_pos_bound (v + m - 1) m ltac:(lia)) as B.
  set (q := (v + m - 1) / m) in *.
  assert (Hq : 0 <= q * m <= v + m - 1) by nia.
  rewrite wrapU_small by lia.
  split; [nia|]. apply Z.mod_mul; lia.
Qed.

(* ---------- what a column to be added must satisfy (guaranteed by the static assertion
   ObjectAlignmenter<Item>::Check(alignment, size) with maxAlignment = 16) ---------- *)
Definition maxItemSize : Z := 2 ^ 32.
Definition pow2_le16 (a : Z) : Prop := a = 1 \/ a = 2 \/ a = 4 \/ a = 8 \/ a = 16.
Definition col_ok (c : col) : Prop :=
  0 <= c_code c < 2 ^ 64 /\ 0 < c_size c <= maxItemSize /\ pow2_le16 (c_align c) /\ c_size c mod c_align c = 0.
Definition rec_ok (r : crec) : Prop :=
  0 <= r_code r < 2 ^ 64 /\ 0 < r_size r <= maxItemSize /\ pow2_le16 (r_align r) /\ r_size r mod r_align r = 0.

Lemma pow2_le16_range a : pow2_le16 a -> 0 < a <= 16.
Proof. unfold pow2_le16; lia. Qed.

Lemma pow2_le16_max a b : pow2_le16 a -> pow2_le16 b -> pow2_le16 (Z.max a b).
Proof. unfold pow2_le16; intros; lia. Qed.

Lemma pow2_le16_divide a b : pow2_le16 a -> pow2_le16 b -> a <= b -> (a | b).
Proof.
  unfold pow2_le16; intros Ha Hb Hle.
  destruct Ha as [->|[->|[->|[->| ->]]]]; destruct Hb as [->|[->|[->|[->| ->]]]]; try lia;
    first [ exists 1; lia | exists 2; lia | exists 4; lia | exists 8; lia | exists 16; lia ].
Qed.

(* ---------- the layout part of new_edges, without the graph ---------- *)
Fixpoint layout (off al : Z) (cs : list col) : Z * Z * list crec :=
  match cs with
  | [] => (off, al, [])
  | c :: cs' =>
    let o1 := Ceil off (c_align c) in
    let '(off', al', rs) := layout (wrapU 64 (o1 + c_size c)) (Z.max al (c_align c)) cs' in
    (off', al', mkrec (c_code c) o1 (c_size c) (c_align c) (c_mut c) :: rs)
  end.

(* a chain of slots between lo and hi: in order, aligned, non-empty, not overlapping *)
Fixpoint chain (lo : Z) (rs : list crec) (hi : Z) : Prop :=
  match rs with
  | [] => lo <= hi
  | r :: rs' => lo <= r_off r /\ r_off r mod r_align r = 0 /\ 0 < r_size r /\ chain (r_off r + r_size r) rs' hi
  end.

Lemma chain_le lo rs hi : chain lo rs hi -> lo <= hi.
Proof. revert lo; induction rs as [|r rs IH]; simpl; intros lo H; [lia|]. destruct H as (? & ? & ? & H). apply IH in H. lia. Qed.

Lemma chain_weaken lo lo' rs hi hi' : chain lo rs hi -> lo' <= lo -> hi <= hi' -> chain lo' rs hi'.
Proof.
  revert lo lo'; induction rs as [|r rs IH]; simpl; intros lo lo' H H1 H2; [lia|].
  destruct H as (? & ? & ? & H). repeat split; try lia. eapply IH; eauto; lia.
Qed.

Lemma chain_app lo a mid b hi : chain lo a mid -> chain mid b hi -> chain lo (a ++ b) hi.
Proof.
  revert lo; induction a as [|r a IH]; simpl; intros lo H1 H2.
  - eapply chain_weaken; eauto; lia.
  - destruct H1 as (? & ? & ? & H1). repeat split; auto.
Qed.

(* every slot of a chain lies between lo and hi *)
Lemma chain_in lo rs hi r : chain lo rs hi -> In r rs ->
  lo <= r_off r /\ r_off r + r_size r <= hi /\ r_off r mod r_align r = 0 /\ 0 < r_size r.
Proof.
  revert lo; induction rs as [|x rs IH]; simpl; intros lo H Hin; [contradiction|].
  destruct H as (H1 & H2 & H3 & H4). destruct Hin as [->|Hin].
  - apply chain_le in H4. lia.
  - destruct (IH _ H4 Hin) as (? & ? & ? & ?). lia.
Qed.

(* two different positions of a chain do not overlap: the earlier one ends before the later one starts *)
Lemma chain_disjoint lo rs hi i j ri rj : chain lo rs hi -> (i < j)%nat ->
  nth_error rs i = Some ri -> nth_error rs j = Some rj -> r_off ri + r_size ri <= r_off rj.
Proof.
  revert lo i j; induction rs as [|x rs IH]; intros lo i j H Hij Hi Hj.
  - destruct i; discriminate.
  - simpl in H. destruct H as (H1 & H2 & H3 & H4).
    destruct j as [|j]; [lia|]. simpl in Hj.
    destruct i as [|i].
    + simpl in Hi. injection Hi as <-. apply nth_error_In in Hj.
      destruct (chain_in _ _ _ _ H4 Hj) as (? & _). assumption.
    + simpl in Hi. apply (IH (r_off x + r_size x) i j); auto. clear - Hij; lia.
Qed.

Lemma layout_spec cs : forall off al off' al' rs,
  Forall col_ok cs -> 0 <= off -> off + Z.of_nat (length cs) * (maxItemSize + 16) <= 2 ^ 63 -> pow2_le16 al ->
  layout off al cs = (off', al', rs) ->
  chain off rs off' /\ off' <= off + Z.of_nat (length cs) * (maxItemSize + 16) /\
  al <= al' /\ pow2_le16 al' /\ Forall rec_ok rs /\ Forall (fun r => r_align r <= al') rs /\
  map r_code rs = map c_code cs /\ map r_size rs = map c_size cs /\ map r_align rs = map c_align cs.
Proof.
  unfold maxItemSize.
  induction cs as [|c cs IH]; intros off al off' al' rs Hok Hoff Hbound Hal E.
  - simpl in E. injection E as <- <- <-. simpl. repeat split; auto; lia.
  - inversion Hok as [|? ? Hc Hcs]; subst. simpl in E.
    destruct (layout _ _ cs) as [[o2 a2] rs2] eqn:E2. injection E as <- <- <-.
    destruct Hc as (Hcode & Hsize & Hpa & Hmod).
    pose proof (pow2_le16_range _ Hpa) as Hra.
    assert (Hlen : Z.of_nat (length (c :: cs)) = Z.of_nat (length cs) + 1) by (simpl length; lia).
    rewrite Hlen in *.
    pose proof (Z.pow_pos_nonneg 2 32 ltac:(lia) ltac:(lia)) as P32.
    destruct (Ceil_spec off (c_align c) Hra ltac:(lia)) as (Hc1 & Hc2).
    unfold maxItemSize in Hsize.
    rewrite wrapU_small in E2 by lia.
    apply IH in E2; auto; try lia; [| apply pow2_le16_max; auto].
    destruct E2 as (Hch & Hb & Hle & Hp & Hr & Hra' & Hm1 & Hm2 & Hm3).
    simpl. repeat split; auto; try lia.
    + constructor; auto. unfold rec_ok; simpl. unfold maxItemSize. repeat split; auto; lia.
    + constructor; auto. simpl. lia.
    + f_equal; auto.
    + f_equal; auto.
    + f_equal; auto.
Qed.

(* new_edges computes exactly this layout, and the edges it adds are the edges of the new records *)
Lemma new_edges_layout L cp cs : forall g off al,
  new_edges L cp g off al cs =
  let '(off', al', rs) := layout off al cs in (old_edges L cp g rs, off', al', rs).
Proof.
  induction cs as [|c cs IH]; intros g off al; cbn [new_edges layout old_edges]; [reflexivity|].
  destruct (GetVertices L (c_code c) cp) as [v1 v2] eqn:Ev.
  rewrite IH. destruct (layout _ _ cs) as [[o2 a2] rs2]. cbn [old_edges r_code r_off]. rewrite Ev. reflexivity.
Qed.

(* the statement about the model of pvAddEdges itself *)
Lemma new_edges_ok L cp g cs off al g' off' al' rs :
  Forall col_ok cs -> 0 <= off -> off + Z.of_nat (length cs) * (maxItemSize + 16) <= 2 ^ 63 -> pow2_le16 al ->
  new_edges L cp g off al cs = (g', off', al', rs) ->
  chain off rs off' /\ off' <= off + Z.of_nat (length cs) * (maxItemSize + 16) /\
  al <= al' /\ pow2_le16 al' /\ Forall rec_ok rs /\ Forall (fun r => (r_align r | al')) rs /\
  map r_code rs = map c_code cs /\ map r_size rs = map c_size cs /\ map r_align rs = map c_align cs /\
  g' = old_edges L cp g rs.
Proof.
  intros Hok Hoff Hb Hal E. rewrite new_edges_layout in E.
  destruct (layout off al cs) as [[o2 a2] rs2] eqn:El. injection E as <- <- <- <-.
  destruct (layout_spec _ _ _ _ _ _ Hok Hoff Hb Hal El) as (H1 & H2 & H3 & H4 & H5 & H6 & H7 & H8 & H9).
  repeat split; auto.
  rewrite Forall_forall in *. intros r Hr. apply pow2_le16_divide; auto.
  destruct (H5 r Hr) as (_ & _ & Hp & _). exact Hp.
Qed.
