(* C19 -- the primitives the cxx2coq translation of ~DataRow / pvDeallocateFreeRaws / pvAllocateRaw is stated over.
   Memory is one array `mem : Z -> Z` (address -> pointer-sized word): the atomic list head lives at address `crew_head`,
   the link word of a raw buffer at the buffer's own address.  The translator renders
     *mFreeRaws / atomic::operator T*()      as  mem (id_addr mFreeRaws)            (an atomic load)
     MemCopyer::ToBuffer(v, p)               as  mem := mem_store mem v p
     MemCopyer::FromBuffer<void*>(p)         as  mem p
     a.exchange(v)                           as  x := mem a; mem := upd mem a v
     a.compare_exchange_weak(e, d)           as  ok := (mem a =? e) && negb spurious; e := ok ? e : mem a; mem := ok ? upd mem a d : mem
     mRawMemPool.Deallocate(p)               as  pool := pool_free pool p           (a LOG: cell 0 = count, cell k = k-th freed address)
   i.e. the sequential (uninterrupted) reading of each atomic operation. *)
From Coq Require Import ZArith Bool List.
From MomoCommon Require Import GenPrelude.
Local Open Scope Z_scope.

Definition id_addr (a : Z) : Z := a.
Definition mem_store (mem : Z -> Z) (v p : Z) : Z -> Z := upd mem p v.
Definition pool_free (pool : Z -> Z) (p : Z) : Z -> Z := upd (upd pool (pool 0 + 1) p) 0 (pool 0 + 1).

(* RowProxy(columnList, raw, freeRaws): the three constructor arguments of a Row *)
Definition mk_row (cl raw fr : Z) : Z * Z * Z := (cl, raw, fr).
