(* C10 model driver: same case lines and the same output format as props/C10/harness.cpp; every behaviour is
   computed by the extracted Coq model (Machine / Merge / ArrayShift); this file only parses, builds failure
   schedules ("the j-th step of kind X fails") and prints. *)
open Zutil
open Machine
open Merge
open ArrayShift
open MapModel

let cat_of = function "NTM" -> NTM | "SMH" -> SMH | "THM" -> THM | _ -> CPY
let movable c = nothrow_reloc c
let zs (s : string) : BinNums.coq_Z list =
  if s = "-" then [] else Stdlib.List.map z_of_string (Stdlib.List.filter (fun x -> x <> "") (String.split_on_char ',' s))
let zi z = int_of_z z
let join l = if l = [] then "-" else String.concat "," (Stdlib.List.map string_of_z l)
let join_sorted l = join (Stdlib.List.sort (fun a b -> compare (zi a) (zi b)) l)

let kind_name = function FAlloc -> "alloc" | FCopy -> "copy" | FFunc -> "func"
let ev_str = function
  | EMove v -> "M " ^ string_of_z v
  | ECopy v -> "C " ^ string_of_z v
  | EDtor v -> "X " ^ string_of_z v
  | EMAssign (s, d) -> "MA " ^ string_of_z s ^ " " ^ string_of_z d
  | ECAssign (s, d) -> "CA " ^ string_of_z s ^ " " ^ string_of_z d
  | EFail k -> "F " ^ kind_name k
let trace_str (t : ev list) (extra : (int * string) list) =
  (* t is most-recent-first; extra = markers (position in chronological order, text) *)
  let l = Stdlib.List.rev_map ev_str t in
  if l = [] then "-" else String.concat ";" l
let fired w = Stdlib.List.exists (function EFail _ -> true | _ -> false) w.tr
let fail_status w = match Stdlib.List.find_opt (function EFail _ -> true | _ -> false) w.tr with
  | Some (EFail FAlloc) -> "Ea" | Some (EFail FCopy) -> "Ec" | Some (EFail FFunc) -> "Ef" | _ -> "E?"
let copies w = if Stdlib.List.exists (function ECopy _ | ECAssign _ -> true | _ -> false) w.tr then "SOME" else "0"

let rec falses j = if j <= 0 then [] else false :: falses (j - 1)
let world_for kind j =
  let s = falses j @ [true] in
  match kind with
  | "alloc" -> { sf = []; sa = s; sc = []; tr = [] }
  | "copy" -> { sf = []; sa = []; sc = s; tr = [] }
  | _ -> { sf = s; sa = []; sc = []; tr = [] }

(* behaviours for j = 0,1,2,... until the failure no longer fires; consecutive duplicates removed *)
let enumerate kind (body : world -> string * bool) =
  let rec go j acc =
    if j >= 5000 then ["TOO-MANY-FAILURE-POINTS"] else
    let (b, f) = body (world_for kind j) in
    let acc = match acc with x :: _ when x = b -> acc | _ -> b :: acc in
    if f then go (j + 1) acc else Stdlib.List.rev acc in
  String.concat " || " (go 0 [])

let rec pad l n = if Stdlib.List.length l >= n then l else pad (l @ [[]]) n
let stat_str st w = match st with Finished -> "S" | Failed -> fail_status w | Running -> "RUNNING"

let key_sorted l =
  Stdlib.List.stable_sort (fun a b -> compare (zi (Merge.key a)) (zi (Merge.key b))) l

let () = iter_lines (fun line ->
  let out = match words line with
  | ["om"; c; op; k; a; b] ->
    let c = cat_of c and k = int_of_string k and a = z_of_string a and b = z_of_string b in
    let w = if k < 0 then { sf = []; sa = []; sc = []; tr = [] } else world_for "copy" k in
    let show = function None -> "raw" | Some v -> string_of_z v in
    let (st, s, m, d, w') =
      (match op with
       | "reloc" -> (match relocate c w a with
                     | (w', Some v) -> ("S", None, None, Some v, w')
                     | (w', None) -> ("E", Some a, None, None, w'))
       | "replace" -> (match replace c w a b with
                       | (w', Some v) -> ("S", None, Some v, None, w')
                       | (w', None) -> ("E", Some a, Some b, None, w'))
       | _ -> (match replace_relocate c w a b with
               | (w', Some (e, m)) -> ("S", None, Some m, Some e, w')
               | (w', None) -> ("E", Some a, Some b, None, w'))) in
    Printf.sprintf "%s src=%s mid=%s dst=%s %s" st (show s) (show m) (show d) (trace_str w'.tr [])
  | "hm" :: c :: kind :: dk :: dst :: bks ->
    let c = cat_of c in
    let bks = pad (Stdlib.List.map zs bks) 8 and dst = zs dst in
    enumerate kind (fun w ->
      let st = hmerge c (dk = "m") bks dst w in
      let src = (match st.s_done @ [st.s_cur] @ st.s_todo with _ :: t -> t | [] -> []) in
      let b = Printf.sprintf "%s src=%s dst=%s" (stat_str st.s_stat st.s_w)
                (String.concat "|" (Stdlib.List.map join src)) (join_sorted st.s_dst) in
      let b = if dk = "h" then b ^ " " ^ trace_str st.s_w.tr []
              else if movable c then b ^ " copies=" ^ copies st.s_w else b in
      (b, fired st.s_w))
  | [("tm" | "lm") as m; c; kind; dk; dst; src] ->
    let c = cat_of c in
    let src = key_sorted (zs src) and dst = key_sorted (zs dst) in
    let multi = (if m = "lm" then dk = "1" else dk = "m") in
    enumerate kind (fun w ->
      let (((st, s), d), w') =
        if m = "lm" then tree_merge_to c multi src dst w []
        else (let r = tmerge c multi src dst w [] in (((r.t_stat, tsrc_items r), r.t_dst), r.t_w)) in
      let b = Printf.sprintf "%s src=%s dst=%s" (stat_str st w') (join_sorted s) (join_sorted d) in
      let b = if movable c then b ^ " copies=" ^ copies w' else b in
      (b, fired w'))
  | ["fm"; c; kind; multi; dst; src] ->
    let c = cat_of c in
    let src = key_sorted (zs src) and dst = key_sorted (zs dst) in
    enumerate kind (fun w ->
      let (((st, s), d), w') = FastMerge.tree_merge_to_eq c (multi = "1") src dst w [] (nat_of_int 3) false in
      let b = Printf.sprintf "%s src=%s dst=%s" (stat_str st w') (join_sorted s) (join (key_sorted d)) in
      let b = if movable c then b ^ " copies=" ^ copies w' else b in
      (b, fired w'))
  | "eh" :: _c :: ops ->
    (* the GENERATED holder functions (Gen_Holder): the state is the mHasItem flag; a throwing functor leaves mFlagAtCall *)
    let flag = ref false in
    let res = Stdlib.List.map (fun op ->
      let o = op.[0] in
      let st =
        (match o with
         | 'c' | 'C' -> (match Gen_Holder.coq_Create !flag false with
                         | GenPrelude.Ok ((_, f'), at_call) -> if o = 'c' then (flag := f'; "S") else (flag := at_call; "E")
                         | _ -> "STUCK")
         | 'r' | 'R' -> (match Gen_Holder.coq_Remove !flag false with
                         | GenPrelude.Ok ((_, f'), at_call) -> if o = 'r' then (flag := f'; "S") else (flag := at_call; "E")
                         | _ -> "STUCK")
         | 'x' -> flag := Gen_Holder.coq_Clear !flag false; "S"
         | _ -> if Gen_Holder.coq_IsEmpty !flag false then "empty" else "full") in
      st ^ ":" ^ (if !flag then "1" else "0")) ops in
    String.concat " " res
  | ["ec"; _c; ht; throws; corrupt; n; i] ->
    (* the GENERATED pvExtraCheck (Gen_ExtraCheckH / Gen_ExtraCheckT) with its primitives interpreted over the same container:
       positions are indices 0..n-1 (n = end), the table / order was built from the ORIGINAL keys 1..n, the item at index i
       now reads the corrupted key *)
    let n = int_of_string n and i = int_of_string i and throws = (throws = "1") in
    let key_at p = let p = int_of_string (string_of_z p) in
      if p = i && corrupt = "1" then 96 else if p = i && corrupt = "2" then 0 else p + 1 in
    let zeq a b = (string_of_z a = string_of_z b) in
    let r =
      if ht = "h" then
        Gen_ExtraCheckH.pvExtraCheck throws zeq (fun p -> p)
          (fun k -> let k = int_of_string (string_of_z k) in z_of_int (if k >= 1 && k <= n then k - 1 else -1))
          (fun p -> z_of_int (key_at p)) (z_of_int i)
      else
        let shift d p = z_of_int (int_of_string (string_of_z p) + d) in
        Gen_ExtraCheckT.pvExtraCheck throws (fun a b -> not (zeq a b)) (z_of_int 0) (z_of_int n) (shift (-1)) (shift 1)
          (fun a b -> key_at a < key_at b) (z_of_int i) in
    Printf.sprintf "ec=%d threw=%d" (if r then 1 else 0) (if throws then 1 else 0)
  | ["sw"; _c; n1; n2] ->
    (* the GENERATED TreeSet::Swap (Gen_TreeSwap) on the field names 1..8 *)
    let z = z_of_int in
    let (((((((a1, a2), a3), a4), b1), b2), b3), b4) = Gen_TreeSwap.coq_Swap (z 1) (z 2) (z 3) (z 4) (z 5) (z 6) (z 7) (z 8) in
    let items lo n = if n = 0 then "-" else String.concat "," (Stdlib.List.init n (fun k -> string_of_int ((lo + k + 1) * 100))) in
    let n1 = int_of_string n1 and n2 = int_of_string n2 in
    (* contents follow the root / count fields: object a now owns what the names 5..8 denoted *)
    let owner_a_is_b = (string_of_z a3 = "7") in
    Printf.sprintf "%s a=%s b=%s" (String.concat " " (Stdlib.List.map string_of_z [a1; a2; a3; a4; b1; b2; b3; b4]))
      (if owner_a_is_b then items 50 n2 else items 0 n1) (if owner_a_is_b then items 0 n1 else items 50 n2)
  | ["hs"; c; kind; _hintpos; hint_ok; idx; dst; src] ->
    let c = cat_of c in
    let src = key_sorted (zs src) and dst = key_sorted (zs dst) in
    let x = Stdlib.List.nth src (int_of_string idx) in
    let src' = Stdlib.List.filter (fun y -> y <> x) src in
    enumerate kind (fun w ->
      (* src.extract(it): a tree extraction (leaf), then the hinted insert of the handle *)
      let (w1, e) = relocate c w x in
      (match e with
       | None -> (Printf.sprintf "%s src=%s dst=%s holder=none%s" (fail_status w1) (join_sorted src) (join_sorted dst)
                    (if movable c then " copies=" ^ copies w1 else ""), fired w1)
       | Some e ->
         let (((w2, d'), h'), st) = std_insert_hint c false w1 dst (Some e) (hint_ok = "1") in
         let show = function None -> "none" | Some v -> string_of_z v in
         (Printf.sprintf "%s src=%s dst=%s holder=%s%s" (stat_str st w2) (join_sorted src') (join_sorted d') (show h')
            (if movable c then " copies=" ^ copies w2 else ""), fired w2)))
  | [("xi" | "xa") as m; c; kind; idx; dst; b0] ->
    let c = cat_of c in
    let b0 = zs b0 and dst = zs dst and idx = nat_of_int (int_of_string idx) in
    enumerate kind (fun w ->
      let (((w1, b'), h), ok) = extract_at c w b0 idx in
      let show = function None -> "none" | Some v -> string_of_z v in
      if not ok then
        (Printf.sprintf "%s ? src=%s dst=%s holder=none %s" (fail_status w1) (join b') (join_sorted dst) (trace_str w1.tr []), fired w1)
      else
        let (((w2, d'), h'), st) = if m = "xa" then add_holder c w1 dst h else insert_holder c false w1 dst h in
        let w3 = holder_clear { w2 with tr = [] } h' in
        let ins = (match st with Failed -> "?" | _ -> if h' = None then "ins" else "dup") in
        let t = trace_str w2.tr [] in
        let t2 = if w3.tr = [] then "H" else "H;" ^ trace_str w3.tr [] in
        let t = if t = "-" then t2 else t ^ ";" ^ t2 in
        (Printf.sprintf "%s %s src=%s dst=%s holder=%s %s" (stat_str st w2) ins (join b') (join_sorted d') (show h') t, fired w2))
  | ["sh"; c; op; n; idx; cnt] ->
    let c = cat_of c in
    let n = int_of_string n and idx = int_of_string idx and cnt = int_of_string cnt in
    let vals = Stdlib.List.init n (fun i -> z_of_int (100 + i)) and items = Stdlib.List.init cnt (fun i -> z_of_int (200 + i)) in
    let prog = if op = "ins" then insert_prog (nat_of_int n) (nat_of_int idx) items
               else remove_prog (nat_of_int n) (nat_of_int idx) (nat_of_int cnt) in
    enumerate "copy" (fun w ->
      let ((w', a), o) = run c w (mk_arr vals (nat_of_int (n + cnt + 2))) prog in
      let cntv = int_of_nat a.count in
      let live = Stdlib.List.filteri (fun i _ -> i < cntv) a.slots in
      let st = (match o with AOk -> "S" | AExn -> "Ec" | AStuck -> "STUCK") in
      let items = if live = [] then "-" else String.concat "," (Stdlib.List.map (function Raw -> "raw" | Obj v -> string_of_z v) live) in
      (Printf.sprintf "%s count=%d items=%s %s" st cntv items (trace_str w'.tr []), fired w'))
  | ["ir"; c; kind; dst; args] ->
    let c = cat_of c in
    let dst = zs dst and args = zs args in
    enumerate kind (fun w ->
      let st = BulkOps.insert_range c args dst w in
      (Printf.sprintf "%s dst=%s %s" (stat_str st.BulkOps.i_stat st.BulkOps.i_w) (join_sorted st.BulkOps.i_dst) (trace_str st.BulkOps.i_w.tr []),
       fired st.BulkOps.i_w))
  | "rp" :: c :: kind :: m :: bks ->
    let c = cat_of c and m = int_of_string m in
    let bks = pad (Stdlib.List.map zs bks) 8 in
    let p x = (zi (Merge.key x)) mod m = 0 in
    enumerate kind (fun w ->
      let st = BulkOps.remove_pred c p bks w in
      let src = (match st.BulkOps.r_done @ [st.BulkOps.r_cur] @ st.BulkOps.r_todo with _ :: t -> t | [] -> []) in
      (Printf.sprintf "%s src=%s %s" (stat_str st.BulkOps.r_stat st.BulkOps.r_w) (String.concat "|" (Stdlib.List.map join src)) (trace_str st.BulkOps.r_w.tr []),
       fired st.BulkOps.r_w))
  | ["pm"; kc; vc; op; k; ks; vs; km; vm] ->
    let kc = cat_of kc and vc = cat_of vc and k = int_of_string k in
    let src = (z_of_string ks, z_of_string vs) and mid = (z_of_string km, z_of_string vm) in
    let w = if k < 0 then { sf = []; sa = []; sc = []; tr = [] } else world_for "copy" k in
    let showp = function None -> "raw:raw" | Some (a, b) -> string_of_z a ^ ":" ^ string_of_z b in
    let (st, s, m, d, w') =
      (match op with
       | "reloc" -> (match p_relocate kc vc w src with
                     | (w', Some e) -> ("S", None, None, Some e, w')
                     | (w', None) -> ("E", Some src, None, None, w'))
       | "replace" -> (match p_replace kc vc w src mid with
                       | ((w', Some d), _) -> ("S", None, Some d, None, w')
                       | ((w', None), m') -> ("E", Some src, Some m', None, w'))
       | _ -> (match p_replace_relocate kc vc w src mid with
               | (w', POk (e, m')) -> ("S", None, Some m', Some e, w')
               | (w', PFail (s', m')) -> ("E", Some s', Some m', None, w'))) in
    Printf.sprintf "%s src=%s mid=%s dst=%s %s" st (showp s) (showp m) (showp d) (trace_str w'.tr [])
  | ["px"; kc; vc; kind; idx; dst; b0] ->
    let kc = cat_of kc and vc = cat_of vc in
    let pairs s = if s = "-" then [] else Stdlib.List.map (fun t ->
        match String.split_on_char ':' t with [a; b] -> (z_of_string a, z_of_string b) | _ -> failwith "pair")
        (Stdlib.List.filter (fun x -> x <> "") (String.split_on_char ',' s)) in
    let showl l sorted =
      let l = if sorted then Stdlib.List.sort (fun (a, b) (c, d) -> compare (zi a, zi b) (zi c, zi d)) l else l in
      if l = [] then "-" else String.concat "," (Stdlib.List.map (fun (a, b) -> string_of_z a ^ ":" ^ string_of_z b) l) in
    let b0 = pairs b0 and dst = pairs dst and idx = nat_of_int (int_of_string idx) in
    enumerate kind (fun w ->
      let (((w1, b'), h), ok) = pextract_at kc vc w b0 idx in
      let show = function None -> "none" | Some (a, b) -> string_of_z a ^ ":" ^ string_of_z b in
      if not ok then
        (Printf.sprintf "%s ? src=%s dst=%s holder=none %s" (fail_status w1) (showl b' false) (showl dst true) (trace_str w1.tr []), fired w1)
      else
        let (((w2, d'), h'), st) = pinsert_holder kc vc w1 dst h in
        let w3 = pholder_clear { w2 with tr = [] } h' in
        let ins = (match st with Failed -> "?" | _ -> if h' = None then "ins" else "dup") in
        let t = trace_str w2.tr [] in
        let t2 = if w3.tr = [] then "H" else "H;" ^ trace_str w3.tr [] in
        let t = if t = "-" then t2 else t ^ ";" ^ t2 in
        (Printf.sprintf "%s %s src=%s dst=%s holder=%s %s" (stat_str st w2) ins (showl b' false) (showl d' true) (show h') t, fired w2))
  | _ -> "?" in
  print_endline out)
